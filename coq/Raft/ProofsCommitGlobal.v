(* Lifting the node / message well-formedness to all reachable global states: every message a
   well-formed node sends is well formed, hence every node of every state reached by run_trace from
   ginit (restarts with a sorted member list) is well formed, its log is consecutive, and the
   per-node invariants of ProofsMembershipInv hold in it. *)
From Coq Require Import ZArith NArith List Bool Lia.
From RecordUpdate Require Import RecordSet.
From PSO Require Import Raft.Types Raft.Node Raft.Net Raft.Obs Raft.ProofsCommitBase Raft.ProofsCommit
  Raft.ProofsMembership Raft.ProofsCommitLog Raft.ProofsMembershipInv.
Import ListNotations.
Import RecordSetNotations.
Open Scope N_scope.

Definition owf (o : out) : Prop := match o with Send _ m => msg_wf m | _ => True end.
Definition allwf (s : S) : Prop := Forall owf (outs s).
Definition pw (s : S) : Prop := node_wf (nd s) /\ allwf s.

Lemma allwf_emit o s : allwf s -> owf o -> allwf (emit o s).
Proof. intros H Ho. unfold allwf, emit. cbn. apply Forall_app. split; [exact H|constructor; [exact Ho|constructor]]. Qed.

Lemma allwf_send d m s : allwf s -> msg_wf m -> allwf (send d m s).
Proof. intros H Hm. unfold send. destruct (smem _ _); [apply allwf_emit; assumption|exact H]. Qed.

Lemma allwf_outs s s' : outs s' = outs s -> allwf s -> allwf s'.
Proof. unfold allwf. intros ->. auto. Qed.

Lemma aw_set_role r s : allwf s -> allwf (set_role r s).
Proof. intros H. unfold set_role. destruct (_ =? _); [exact H|apply allwf_emit; [exact H|exact I]]. Qed.

Lemma aw_fire c r er s : allwf s -> allwf (fire c r er s).
Proof. intros H. destruct c; try exact H. apply allwf_emit; [exact H|exact I]. Qed.

Lemma aw_call_err er c s : allwf s -> allwf (call_err er c s).
Proof.
  intros H. destruct c; cbn; [exact H|apply allwf_emit; [exact H|exact I]|apply allwf_send; [exact H|exact I]].
Qed.

Lemma aw_send_next_idx d nx r su s : allwf s -> allwf (send_next_idx d nx r su s).
Proof. intros H. unfold send_next_idx. apply allwf_send; [exact H|exact I]. Qed.

Lemma aw_on_leader_changed s : allwf s -> allwf (on_leader_changed s).
Proof.
  intros H. unfold on_leader_changed.
  assert (G : allwf (fold_left (fun s kv => fire (snd kv) 0 LEADER_CHANGED s) (wait_reply (nd s)) s)).
  { apply fold_left_inv; [|exact H]. intros a x Ha. now apply aw_fire. }
  exact G.
Qed.

Lemma aw_do_change_cluster a x r s : allwf s -> allwf (fst (do_change_cluster a x r s)).
Proof.
  intros H. unfold do_change_cluster. destruct (xorb a r).
  - destruct (_ || _); [exact H|]. cbn [fst]. apply allwf_emit; [exact H|exact I].
  - destruct (self_is x (nd s)); [exact H|]. destruct (negb _); [exact H|]. cbn [fst].
    apply allwf_emit; [exact H|exact I].
Qed.

Lemma aw_apply_membership r es s : allwf s -> allwf (apply_membership r es s).
Proof.
  intros H. unfold apply_membership. apply fold_left_inv; [|exact H].
  intros a en Ha. destruct (membership_of (ecmd en)) as [[b x]|]; [now apply aw_do_change_cluster|exact Ha].
Qed.

Lemma aw_update_cluster new s : allwf s -> allwf (update_cluster new s).
Proof.
  intros H. unfold update_cluster. apply fold_left_inv.
  - intros a x Ha. apply (allwf_outs (emit (TAdd x) a)); [reflexivity|]. apply allwf_emit; [exact Ha|exact I].
  - match goal with |- allwf (upd _ ?X) => assert (G : allwf X); [|exact G] end.
    apply fold_left_inv; [|exact H].
    intros a x Ha. apply allwf_emit; [exact Ha|exact I].
Qed.

Lemma aw_get_transmission e x s : allwf s -> allwf (fst (get_transmission e x s)).
Proof.
  intros H. unfold get_transmission. destruct (negb _); [exact H|].
  destruct (match aget x (trans (sr (nd s))) with Some t => Some t | None => _ end) as [[b off]|]; exact H.
Qed.

Lemma aw_set_transmission p s : allwf s -> allwf (fst (set_transmission p s)).
Proof.
  intros H. unfold set_transmission. destruct p; [exact H|].
  destruct (if first then Some [] else incoming (sr (nd s))); [|exact H].
  destruct last; [destruct (snap_ahead _ _)|]; exact H.
Qed.

Lemma aw_load_dump e cl s : allwf s -> allwf (load_dump e cl s).
Proof.
  intros H. unfold load_dump. destruct (stored (sr (nd s))) as [[sn|]|]; try exact H.
  destruct (cl && _); [exact H|].
  destruct (_ <? _); [exact H|].
  cbv zeta.
  match goal with |- context [update_cluster ?l ?s4] => set (s5 := s4) end.
  assert (E : outs s5 = outs s).
  { subst s5. cbn [outs upd].
    repeat (match goal with |- context [if ?b then _ else _] => destruct b end; cbn [outs upd]); reflexivity. }
  clearbody s5.
  destruct (dyn (cf e)); [|apply (allwf_outs s); auto].
  match goal with |- context [if ?b then apply_membership _ _ _ else _] => destruct b end;
    [apply aw_apply_membership|]; apply aw_update_cluster; apply (allwf_outs s); auto.
Qed.

Lemma aw_ae_commit c v s : allwf s -> allwf (ae_commit c v s).
Proof.
  intros H. unfold ae_commit. apply (allwf_outs s); [|exact H].
  destruct v; [destruct (_ <? _)|]; reflexivity.
Qed.

Lemma aw_ae_regular e from c prev new s : allwf s -> allwf (ae_regular e from c prev new s).
Proof.
  intros H. unfold ae_regular.
  destruct (get_entries _ _ _ _) as [|p0 ptail]; [now apply aw_send_next_idx|].
  destruct prev as [[pidx pterm]|]; [|now apply aw_send_next_idx].
  destruct (negb _); [now apply aw_send_next_idx|].
  apply aw_ae_commit, aw_send_next_idx.
  match goal with |- context [upd (fun n => n <| log := log n ++ _ |>) ?s1] => set (s2 := s1) end.
  assert (E : allwf s2).
  { subst s2. destruct (skipn _ ptail); [exact H|]. destruct (skipn _ new); [exact H|].
    apply (allwf_outs (if dyn (cf e) then apply_membership true (rev (e0 :: l)) s else s)); [reflexivity|].
    destruct (dyn (cf e)); [now apply aw_apply_membership|exact H]. }
  clearbody s2.
  destruct (dyn (cf e)); [apply aw_apply_membership|]; apply (allwf_outs s2); auto.
Qed.

Lemma aw_ae_pre e from t c s : allwf s -> allwf (ae_pre e from t c s).
Proof.
  intros H. unfold ae_pre. cbv zeta.
  apply (allwf_outs (set_role FOLLOWER
    (if term (nd (upd (fun n => n <| leader := Some from |>)
         (if opt_eqb (leader (nd (upd (fun n => n <| deadline := (tnow s + gen_timeout e)%Z |>) s))) (Some from)
          then upd (fun n => n <| deadline := (tnow s + gen_timeout e)%Z |>) s
          else on_leader_changed (upd (fun n => n <| deadline := (tnow s + gen_timeout e)%Z |>) s)))) <? t
     then upd (fun n => n <| term := t |> <| voted := None |>)
            (upd (fun n => n <| leader := Some from |>)
               (if opt_eqb (leader (nd (upd (fun n => n <| deadline := (tnow s + gen_timeout e)%Z |>) s))) (Some from)
                then upd (fun n => n <| deadline := (tnow s + gen_timeout e)%Z |>) s
                else on_leader_changed (upd (fun n => n <| deadline := (tnow s + gen_timeout e)%Z |>) s)))
     else upd (fun n => n <| leader := Some from |>)
            (if opt_eqb (leader (nd (upd (fun n => n <| deadline := (tnow s + gen_timeout e)%Z |>) s))) (Some from)
             then upd (fun n => n <| deadline := (tnow s + gen_timeout e)%Z |>) s
             else on_leader_changed (upd (fun n => n <| deadline := (tnow s + gen_timeout e)%Z |>) s))))); [reflexivity|].
  apply aw_set_role.
  set (s1 := if opt_eqb _ _ then _ else _).
  assert (E : allwf s1).
  { subst s1. destruct (opt_eqb _ _); [exact H|]. apply aw_on_leader_changed. exact H. }
  clearbody s1. destruct (_ <? t); exact E.
Qed.

Lemma aw_ae_body_of e from m c s : allwf s -> allwf (ae_body_of e from m c s).
Proof.
  intros H. unfold ae_body_of. destruct m; try exact H.
  - now apply aw_ae_regular.
  - destruct (lab =? 1); [apply aw_send_next_idx; exact H|].
    destruct (recv_t (nd s)); [exact H|].
    destruct (lab =? 2); [apply aw_send_next_idx; exact H|].
    destruct (assemble_entry _); [|exact H]. apply aw_ae_regular. exact H.
  - pose proof (aw_set_transmission p s H) as G. destruct (set_transmission p s) as [s2 dn]. cbn [fst] in G.
    destruct (dn && _); [|destruct dn]; apply aw_ae_commit; [| |exact G].
    + apply aw_send_next_idx. now apply aw_load_dump.
    + now apply aw_load_dump.
Qed.

Lemma aw_do_apply c s : allwf s -> allwf (fst (do_apply c s)).
Proof.
  intros H. unfold do_apply. destruct (ck c =? 3); [destruct (_ <? _); exact H|].
  destruct (membership_of c) as [[a x]|].
  - destruct (_ <? _); cbn [fst]; [now apply aw_do_change_cluster|exact H].
  - destruct (ck c =? 0); [destruct (cb c =? 1)|]; exact H.
Qed.

Lemma aw_apply_one en s : allwf s -> allwf (fst (apply_one en s)).
Proof.
  intros H. unfold apply_one.
  match goal with |- context [do_apply ?c ?s1] =>
    pose proof (aw_do_apply c s1 H) as G; destruct (do_apply c s1) as [s2 ar] end.
  cbn [fst] in G.
  assert (F : forall t r (subs : list (N * cbref)), allwf (fold_left (fun s tc => if fst tc =? t then fire (snd tc) r SUCCESS s
                             else fire (snd tc) 0 DISCARDED s) subs s2)).
  { intros t r subs. apply fold_left_inv; [|exact G]. intros a x Ha. destruct (_ =? _); now apply aw_fire. }
  destruct ar; cbn [fst]; try exact G; apply F.
Qed.

Lemma aw_apply_list es s : allwf s -> allwf (apply_list es s).
Proof.
  revert s. induction es as [|en es IH]; intros s H; cbn [apply_list]; [exact H|].
  pose proof (aw_apply_one en s H) as G. destruct (apply_one en s) as [s1 go]. cbn [fst] in G.
  destruct go; [apply IH|]; exact G.
Qed.

Lemma aw_apply_entries e s : allwf s -> allwf (fst (apply_entries e s)).
Proof. intros H. unfold apply_entries. destruct (_ <? _); cbn [fst]; [now apply aw_apply_list|exact H]. Qed.

Lemma aw_submit e c cbk s : allwf s -> allwf (submit e c cbk s).
Proof. intros H. unfold submit. destruct (_ <? _); [now apply aw_call_err|exact H]. Qed.

Lemma aw_try_compact e s : allwf s -> allwf (try_compact e s).
Proof.
  intros H. apply (allwf_outs s); [|exact H]. unfold try_compact.
  repeat (match goal with |- context [match ?x with _ => _ end] => destruct x end; cbn [outs upd]); reflexivity.
Qed.

Lemma aw_tick_load e s : allwf s -> allwf (tick_load e s).
Proof. intros H. unfold tick_load. destruct (_ && _); [now apply aw_load_dump|exact H]. Qed.

Lemma aw_tick_timer e s : allwf s -> allwf (tick_timer e s).
Proof. intros H. unfold tick_timer. destruct (_ <? _)%Z; exact H. Qed.

Lemma aw_tick_ready s : allwf s -> allwf (tick_ready s).
Proof. intros H. unfold tick_ready. destruct (_ && _); exact H. Qed.

Lemma aw_tick_leader e s : allwf s -> allwf (tick_leader e s).
Proof.
  intros H. unfold tick_leader. destruct (role (nd s) =? LEADER); [|exact H].
  assert (G : forall f a b, outs (fst (commit_loop f a b s)) = outs s).
  { induction f as [|f IH]; intros a b; cbn [commit_loop]; [reflexivity|].
    destruct (a <? _); [|reflexivity]. destruct (existsb _ _); [reflexivity|]. destruct (negb _); [reflexivity|].
    destruct (get_entries _ _ _ _) as [|en r]; [apply IH|]. destruct (_ =? _); apply IH. }
  match goal with |- context [commit_loop ?f ?a ?b s] =>
    specialize (G f a b); destruct (commit_loop f a b s) as [s1 nc] end.
  cbn [fst] in G. assert (H1 : allwf s1) by (apply (allwf_outs s); auto).
  destruct (ok s1); [|exact H1].
  set (s2 := upd _ (if commit (nd s1) =? nc then s1 else _)).
  assert (H2 : allwf s2) by (subst s2; destruct (_ =? nc); exact H1).
  clearbody s2. destruct (existsb _ _); [exact H2|]. destruct (negb _); [|exact H2].
  apply (allwf_outs (set_role FOLLOWER s2)); [reflexivity|]. now apply aw_set_role.
Qed.

(* ------------------------------------------------------------------------------------------ *)
(* the helpers that send append_entries                                                       *)

Lemma pw_of s s' : nkeeps0 (nd s) (nd s') -> (node_wf (nd s) -> allwf s -> allwf s') -> pw s -> pw s'.
Proof. intros [K _] H [W A]. split; auto. Qed.

Lemma aw_send_pieces f x en prev b pos s :
  allwf s -> (match prev with Some (pidx, _) => eidx en = pidx + 1 | None => True end) ->
  allwf (send_pieces f x en prev b pos s).
Proof.
  intros H Hp. revert pos s H. induction f as [|f IH]; intros pos s H; cbn [send_pieces]; [exact H|].
  destruct (psize en <=? pos); [exact H|]. apply IH. apply allwf_send; [exact H|].
  destruct prev as [[pidx pterm]|]; [exact Hp|exact I].
Qed.

(* the prev / entries pair the leader puts into a message *)
Lemma ae_payload_wf l next count m :
  consec l -> first_idx l < next ->
  match get_prev l next with
  | Some (pidx, _) =>
    consec (get_entries l (Some next) count m) /\
    (get_entries l (Some next) count m <> [] -> first_idx (get_entries l (Some next) count m) = pidx + 1)
  | None => True
  end.
Proof.
  intros Hc Hlt. unfold get_prev.
  destruct (get_entries l (Some (next - 1)) (Some 1) None) as [|e0 r]; [exact I|].
  split; [now apply get_entries_consec|]. intros Hne.
  destruct (get_entries l (Some next) count m) as [|e1 r1] eqn:E; [contradiction|].
  destruct (get_entries_first l next count m e1 r1 Hc E) as [H1 _]. cbn. lia.
Qed.

Lemma get_transmission_blob e x s b off len fi la :
  node_wf (nd s) -> snd (get_transmission e x s) = SData b off len fi la -> blob_wf b.
Proof.
  intros (_ & _ & (S1 & S2 & S3)). unfold get_transmission. destruct (negb _); [discriminate|].
  destruct (aget x (trans (sr (nd s)))) as [[b' o']|] eqn:Ea.
  - cbn. intros H. inversion H; subst. apply aget_In in Ea. eapply S2; eauto.
  - destruct (stored (sr (nd s))) as [b'|] eqn:Es; [|discriminate]. cbn. intros H. inversion H; subst. now apply S1.
Qed.

Lemma pw_ae_body e x nx s : pw s -> pw (fst (ae_body e x nx s)).
Proof.
  apply pw_of; [apply nkeeps_0, nkeeps_ae_body|]. intros W A. unfold ae_body.
  destruct (first_idx (log (nd s)) <? nx) eqn:Ef.
  - apply N.ltb_lt in Ef. destruct W as (Hc & _).
    set (prev := get_prev (log (nd s)) nx).
    destruct (nx <=? last_idx (log (nd s))).
    + pose proof (ae_payload_wf (log (nd s)) nx None (Some (batch (cf e))) Hc Ef) as Hpay. fold prev in Hpay.
      set (es := get_entries (log (nd s)) (Some nx) None (Some (batch (cf e)))) in *.
      assert (Hae : msg_wf (AE (term (nd s)) (commit (nd s)) prev es)).
      { cbn. destruct prev as [[pidx pterm]|]; [exact Hpay|exact I]. }
      destruct es as [|e1 [|e2 r]] eqn:Ees; cbn [fst].
      * apply allwf_send; [exact A|exact Hae].
      * destruct (batch (cf e) <=? csz (ecmd e1)); cbn [fst]; [|apply allwf_send; [exact A|exact Hae]].
        apply aw_send_pieces; [exact A|].
        destruct prev as [[pidx pterm]|]; [|exact I]. destruct Hpay as [_ Hp]. apply Hp. discriminate.
      * apply allwf_send; [exact A|exact Hae].
    + cbn [fst]. apply allwf_send; [exact A|]. cbn. destruct prev as [[pidx pterm]|]; [|exact I].
      split; [exact I|]. intros H; contradiction.
  - pose proof (aw_get_transmission e x s A) as G.
    pose proof (get_transmission_blob e x s) as Gb.
    destruct (get_transmission e x s) as [s1 td]. cbn [fst snd] in *.
    assert (H1 : allwf (send x (AESnap (term (nd s)) (commit (nd s)) td) s1)).
    { apply allwf_send; [exact G|]. cbn. destruct td as [|b off len fi la]; [exact I|]. eapply Gb; eauto. }
    destruct td as [|b off len fi la]; cbn [fst]; [exact H1|].
    destruct la; cbn [fst]; [|exact H1].
    repeat (match goal with |- context [match ?x with _ => _ end] => destruct x end; cbn [fst]); exact H1.
Qed.

Lemma pw_delta_read e s : pw s -> pw (delta_read e s).
Proof.
  intros [W A]. unfold delta_read. destruct (_ && _); split; assumption.
Qed.

Lemma pw_ae_loop f e st x sg sr_ s : pw s -> pw (ae_loop f e st x sg sr_ s).
Proof.
  revert sg sr_ s. induction f as [|f IH]; intros sg sr_ s H; cbn [ae_loop]; [exact H|].
  destruct (aget x (next_idx (nd s))) as [nx|]; [|exact H].
  destruct (_ || _); [|exact H].
  pose proof (pw_ae_body e x nx s H) as G. destruct (ae_body e x nx s) as [s1 b]. cbn [fst] in G.
  destruct (ok s1); [|exact G].
  destruct (_ <? _)%Z; [now apply pw_delta_read|]. apply IH. now apply pw_delta_read.
Qed.

Lemma pw_cancel_transmission x s : pw s -> pw (cancel_transmission x s).
Proof. apply pw_of; [apply nkeeps_0, nkeeps_cancel_transmission|]. intros _ A. exact A. Qed.

Lemma pw_send_ae e s : pw s -> pw (send_ae e s).
Proof.
  intros H. unfold send_ae. apply fold_left_inv.
  - intros a x Ha. destruct (ok a); [|exact Ha].
    destruct (negb _); [now apply pw_cancel_transmission|now apply pw_ae_loop].
  - revert H. apply pw_of; [apply nkeeps_0, nkeeps_los; reflexivity|]. intros _ A. exact A.
Qed.

Lemma pw_become_leader e s : pw s -> pw (become_leader e s).
Proof.
  intros H. unfold become_leader. rewrite andthen_eq.
  match goal with |- pw (if ok (?f ?s1) then _ else _) => assert (E : pw s1) end.
  { split.
    - (* the node part is what nkeeps_become_leader shows up to this point *)
      pose proof (nkeeps_become_leader e s) as K. destruct H as [W _].
      match goal with |- node_wf (nd ?s1) => assert (K1 : nkeeps (nd s) (nd s1)) end; [|now apply K1].
      clear K.
      match goal with |- nkeeps _ (nd (upd ?g ?s2)) => set (s3 := s2) end.
      assert (E3 : nkeeps (nd s) (nd s3)).
      { subst s3. rewrite nd_upd.
        match goal with |- nkeeps _ (fold_left ?f ?l (nd ?s5)) => apply (nkeeps_trans _ (nd s5)) end.
        - apply nkeeps_los. rewrite nd_upd. unfold los. cbn [log others sr set].
          rewrite (fr_set_role log), (fr_set_role others), (fr_set_role sr) by frs. reflexivity.
        - cbv beta. apply fold_left_rel; [apply nkeeps_refl|apply nkeeps_trans|].
          intros a x. eapply nkeeps_trans.
          + apply (nkeeps_trans_only a _ (adel x (trans (sr a)))); [reflexivity|].
            intros (S1 & S2 & S3) y bl o Hin. apply In_adel in Hin. eapply S2; eauto.
          + apply nkeeps_los. reflexivity. }
      eapply nkeeps_trans; [exact E3|]. clearbody s3.
      rewrite nd_upd. cbv beta zeta. unfold log_add.
      eapply nkeeps_trans.
      + eapply (nkeeps_log_add _ _ (mkEntry (noop_cmd (noop_pk (cf e))) (last_idx (log (nd s3)) + 1) (term (nd s3))));
          reflexivity.
      + apply nkeeps_los. reflexivity.
    - destruct H as [_ A]. apply (allwf_outs (set_role LEADER (upd (fun n => n <| leader := self n |>) s))); [reflexivity|].
      apply aw_set_role. exact A. }
  destruct (use_batch (cf e)); cbv beta.
  - destruct (ok _); [now apply pw_send_ae|exact E].
  - destruct (ok _); [apply pw_send_ae|]; now apply pw_send_ae.
Qed.

Lemma pw_change_cluster a x s : pw s -> pw (fst (change_cluster a x s)).
Proof.
  apply pw_of; [apply nkeeps_0, nkeeps_change_cluster|]. intros _ A.
  destruct (change_cluster_spec a x s) as [(_ & s0 & Hgs & _ & ->)|(_ & s0 & Hgs & ->)]; cbv zeta in *.
  - apply aw_do_change_cluster. apply (allwf_outs s); [apply Hgs|exact A].
  - cbn [fst]. apply (allwf_outs s); [apply Hgs|exact A].
Qed.

Lemma pw_check_one e c cbk s : pw s -> pw (check_one e c cbk s).
Proof.
  intros H. unfold check_one. destruct (role (nd s) =? LEADER).
  - match goal with |- context [let '(s, accepted) := ?X in _] =>
      assert (E : pw (fst X) /\ log (nd (fst X)) = log (nd s)); [|destruct X as [s1 acc]] end.
    { destruct (if dyn (cf e) then membership_of c else None) as [[a x]|].
      - split; [now apply pw_change_cluster|apply (fr_change_cluster log); frs].
      - split; [exact H|reflexivity]. }
    cbn [fst] in E. destruct E as [E El]. destruct acc.
    + set (s2 := upd (log_add _) s1).
      assert (E2 : pw s2).
      { revert E. apply pw_of; [|intros _ A; exact A]. apply nkeeps_0. subst s2. rewrite nd_upd. unfold log_add.
        eapply nkeeps_log_add; [reflexivity|]. cbn. now rewrite El. }
      clearbody s2.
      set (s3 := match (if dyn (cf e) then membership_of c else None) with Some _ => _ | None => s2 end).
      assert (E3 : pw s3).
      { revert E2. apply pw_of; [apply nkeeps_0, nkeeps_los|intros _ A];
          subst s3; destruct (if dyn (cf e) then membership_of c else None); auto. }
      clearbody s3.
      set (s4 := match cbk with CbNone => s3 | _ => _ end).
      assert (E4 : pw s4).
      { revert E3. apply pw_of; [apply nkeeps_0, nkeeps_los|intros _ A]; subst s4;
          destruct cbk; cbn; rewrite ?nd_send; try reflexivity; try exact A.
        apply allwf_send; [exact A|exact I]. }
      clearbody s4. destruct (use_batch (cf e)); [exact E4|now apply pw_send_ae].
    + revert E. apply pw_of; [apply nkeeps_0, nkeeps_los; destruct cbk; cbn; rewrite ?nd_send; reflexivity|].
      intros _ A. destruct cbk; [exact A|apply allwf_emit; [exact A|exact I]|apply allwf_send; [exact A|exact I]].
  - revert H. apply pw_of.
    + apply nkeeps_0, nkeeps_los. destruct (leader (nd s)); [destruct cbk|rewrite nd_call_err]; cbn; rewrite ?nd_send; reflexivity.
    + intros _ A. destruct (leader (nd s)); [|now apply aw_call_err].
      destruct cbk; apply allwf_send; try exact I; exact A.
Qed.

Lemma pw_check_loop f e st s : pw s -> pw (check_loop f e st s).
Proof.
  revert s. induction f as [|f IH]; intros s H; cbn [check_loop]; [exact H|].
  destruct (_ <? _)%Z; [|exact H].
  assert (K : pw (match queue (nd s) with
            | [] => s
            | (c, cbk) :: rest =>
              let s := upd (fun n => n <| queue := rest |>) s in
              let s := check_one e c cbk s in
              if ok s then check_loop f e st s else s end)).
  { destruct (queue (nd s)) as [|[c cbk] rest]; [exact H|]. cbv zeta.
    assert (K1 : pw (check_one e c cbk (upd (fun n => n <| queue := rest |>) s))).
    { apply pw_check_one. revert H. apply pw_of; [apply nkeeps_0, nkeeps_los; reflexivity|intros _ A; exact A]. }
    destruct (ok _); [apply IH; exact K1|exact K1]. }
  destruct (leader (nd s)); [exact K|]. destruct (wait_leader (cf e)); [exact H|exact K].
Qed.

Lemma pw_tick_election e s : pw s -> pw (tick_election e s).
Proof.
  intros H. unfold tick_election. destruct (self (nd s)) as [me|]; [|exact H].
  destruct (_ && _); [|exact H].
  match goal with |- pw (if majority _ (nd ?s1) then _ else _) => assert (E : pw s1) end.
  { split.
    - destruct H as [W _]. revert W. apply nkeeps_los.
      rewrite (fr_on_leader_changed los) by reflexivity.
      rewrite (fr_fold los) by (intros; now rewrite nd_send).
      rewrite nd_upd. unfold los. cbn [log others sr set].
      rewrite (fr_set_role log), (fr_set_role others), (fr_set_role sr) by frs. reflexivity.
    - destruct H as [_ A]. apply aw_on_leader_changed. apply fold_left_inv.
      + intros a x Ha. apply allwf_send; [exact Ha|exact I].
      + match goal with |- allwf (upd _ ?X) => assert (G : allwf X); [|exact G] end.
        apply aw_set_role. exact A. }
  destruct (majority _ _); [now apply pw_become_leader|exact E].
Qed.

Lemma pw_quiet (h : S -> S) :
  (forall s, nkeeps0 (nd s) (nd (h s))) -> (forall s, allwf s -> allwf (h s)) -> forall s, pw s -> pw (h s).
Proof. intros K A s. apply pw_of; [apply K|intros _; apply A]. Qed.

(* every message a well-formed node sends during a tick is well formed *)
Theorem on_tick_pw e n : node_wf n -> pw (on_tick e n).
Proof.
  intros W. unfold on_tick.
  assert (H0 : pw (start_S e n)) by (split; [exact W|constructor]).
  revert H0. generalize (start_S e n). intros s0 H0.
  apply andthen_inv; [apply pw_quiet; [apply tick_load_keeps|apply aw_tick_load]| |exact H0]. intros s1 H1.
  apply andthen_inv; [apply pw_quiet; [intros; apply nkeeps_0; by_frame @fr_tick_timer|apply aw_tick_timer]| |exact H1].
  intros s2 H2.
  apply andthen_inv; [apply pw_tick_election| |exact H2]. intros s3 H3.
  apply andthen_inv; [apply pw_quiet; [intros; apply nkeeps_0; by_frame @fr_tick_leader|apply aw_tick_leader]| |exact H3].
  intros s4 H4.
  assert (G : pw (fst (apply_entries e s4))).
  { revert H4. apply pw_of; [apply nkeeps_0, nkeeps_apply_entries|intros _; apply aw_apply_entries]. }
  destruct (apply_entries e s4) as [s5 need]. cbn [fst] in G. destruct (ok s5); [|exact G].
  apply andthen_inv; [| |exact G].
  { intros H5. unfold tick_send. destruct (role (nd s5) =? LEADER); [|exact H5].
    destruct (_ || _); [now apply pw_send_ae|exact H5]. }
  intros s6 H6.
  apply andthen_inv; [apply pw_quiet; [intros; apply nkeeps_0; by_frame @fr_tick_ready|apply aw_tick_ready]| |exact H6].
  intros s7 H7.
  apply andthen_inv; [intros H8; unfold check_commands; now apply pw_check_loop| |exact H7].
  intros s8 H8. destruct H8 as [W8 A8]. split; [now apply try_compact_wf|now apply aw_try_compact].
Qed.

Theorem on_message_pw e from m n : msg_wf m -> node_wf n -> pw (on_message e from m n).
Proof.
  intros Hm W. split; [now apply on_message_keeps|].
  assert (A0 : allwf (start_S e n)) by constructor.
  destruct m as [t lli llt|t|t c prev es|t c prev lab off len en|t c p|cm req|req okr a b|t nx r su].
  - unfold on_message. cbn [nd start_S]. destruct (self n); [|exact A0].
    set (s1 := if term n <? t then _ else start_S e n).
    assert (A1 : allwf s1).
    { subst s1. destruct (_ <? _); [|exact A0].
      apply (allwf_outs (set_role FOLLOWER (upd (fun n => n <| term := t |> <| voted := None |>) (start_S e n))));
        [reflexivity|]. apply aw_set_role. exact A0. }
    clearbody s1.
    repeat (match goal with |- context [if ?b then _ else _] => destruct b end; try exact A1).
    apply allwf_send; [exact A1|exact I].
  - unfold on_message. cbn [nd start_S]. destruct (_ && _); [|exact A0].
    destruct (majority _ _); [|exact A0].
    apply pw_become_leader. split; [|exact A0]. revert W. apply nkeeps_los. reflexivity.
  - unfold on_message. rewrite on_append_entries_eq. destruct (_ <? _); [exact A0|].
    apply aw_ae_body_of, aw_ae_pre. exact A0.
  - unfold on_message. rewrite on_append_entries_eq. destruct (_ <? _); [exact A0|].
    apply aw_ae_body_of, aw_ae_pre. exact A0.
  - unfold on_message. rewrite on_append_entries_eq. destruct (_ <? _); [exact A0|].
    apply aw_ae_body_of, aw_ae_pre. exact A0.
  - unfold on_message. apply aw_submit. exact A0.
  - unfold on_message. cbn [nd start_S]. destruct (aget req (wait_reply n)); [|exact A0].
    repeat (match goal with |- context [if ?b then _ else _] => destruct b end; try exact A0);
      try (apply aw_fire; exact A0).
  - unfold on_message. cbn [nd start_S]. destruct (_ && _); [|exact A0].
    apply (allwf_outs (start_S e n)); [|exact A0].
    repeat (match goal with |- context [match ?x with _ => _ end] => destruct x end; cbn [outs upd raise]); reflexivity.
Qed.

(* ------------------------------------------------------------------------------------------ *)
(* global states                                                                              *)

Definition chans_wf (g : gstate) : Prop :=
  forall c, In c (chan g) -> forall m, In m (snd c) -> msg_wf m.

Definition gwf (g : gstate) : Prop :=
  (forall p, In p (nodes g) -> node_wf (snd p)) /\ chans_wf g /\
  (forall p, In p (disks g) -> disk_wf (snd p)).

Definition ev_ok (ev : event) : Prop :=
  match ev with ERestart _ oth _ _ _ => ssorted oth | _ => True end.

Lemma chan_get_in a b g m : In m (chan_get a b g) -> exists c, In c (chan g) /\ In m (snd c).
Proof.
  unfold chan_get. intros Hin.
  destruct (find (fun c : N * N * list msg => (fst (fst c) =? a) && (snd (fst c) =? b)) (chan g)) as [c|] eqn:E;
    [|contradiction].
  apply find_some in E. destruct E as [E _]. exists c. split; [exact E|exact Hin].
Qed.

Lemma chans_wf_all g : chans_wf g -> chan_all msg_wf g.
Proof. intros H a b m Hm. destruct (chan_get_in a b g m Hm) as (c & Hc & Hin). eapply H; eauto. Qed.

Lemma chans_wf_set a b q g : chans_wf g -> (forall m, In m q -> msg_wf m) -> chans_wf (chan_set a b q g).
Proof.
  intros H Hq c Hc m Hm. cbn in Hc. destruct Hc as [<-|Hc]; [now apply Hq|].
  apply filter_In in Hc. destruct Hc as [Hc _]. eapply H; eauto.
Qed.

Lemma chans_wf_route src os g :
  chans_wf g -> (forall d m, In (Send d m) os -> msg_wf m) -> chans_wf (route src os g).
Proof.
  unfold route. revert g. induction os as [|o os IH]; intros g H Ho; cbn [fold_left]; [exact H|].
  apply IH; [|intros d m Hin; apply (Ho d m); now right].
  destruct o as [d m| | | |x]; try exact H.
  - apply chans_wf_set; [exact H|]. intros m' Hm'. apply in_app_or in Hm'. destruct Hm' as [Hm'|[Heq|[]]].
    + eapply (chans_wf_all g H); eauto.
    + subst m'. apply (Ho d m). now left.
  - apply chans_wf_set; [exact H|]. intros m' [].
Qed.

Lemma chans_wf_nodes g f : chans_wf g -> chans_wf (g <| nodes := f |>).
Proof. intros H. exact H. Qed.

Lemma disks_route a os g : disks (route a os g) = disks g.
Proof.
  unfold route. revert g. induction os as [|o os IH]; intros g; cbn; [reflexivity|].
  rewrite IH. destruct o; reflexivity.
Qed.

Lemma In_firstn {A} k (l : list A) x : In x (firstn k l) -> In x l.
Proof.
  revert l. induction k as [|k IH]; intros l H; [contradiction|].
  destruct l as [|y l]; [contradiction|]. cbn in H. destruct H as [H|H]; [now left|right; auto].
Qed.

Lemma gwf_finish x s g :
  gwf g -> pw s -> gwf (finish x s g).
Proof.
  intros (G1 & G2 & G3) [W A]. unfold finish. split; [|split].
  - rewrite nodes_route. cbn. intros p Hp. apply In_aset in Hp. destruct Hp as [->|Hp]; [exact W|now apply G1].
  - apply chans_wf_route; [exact G2|]. intros d m Hin. unfold allwf in A. rewrite Forall_forall in A.
    exact (A _ Hin).
  - rewrite disks_route. exact G3.
Qed.

Lemma pw_idle n : node_wf n -> pw (idle_S n).
Proof. intros W. split; [exact W|constructor]. Qed.

Lemma gwf_chan_set a b q g : gwf g -> (forall m, In m q -> msg_wf m) -> gwf (chan_set a b q g).
Proof. intros (G1 & G2 & G3) Hq. split; [exact G1|]. split; [now apply chans_wf_set|exact G3]. Qed.

Lemma gwf_node g x n : gwf g -> aget x (nodes g) = Some n -> node_wf n.
Proof. intros (G1 & _) H. apply aget_In in H. exact (G1 _ H). Qed.

Lemma api_pw e (h : env -> cmd -> cbref -> node -> S) c cbk n :
  (h = api_submit \/ h = api_admin \/ h = api_setver) -> node_wf n -> pw (h e c cbk n).
Proof.
  intros Hh W.
  assert (A0 : pw (start_S e n)) by (split; [exact W|constructor]).
  assert (Hs : pw (submit e c cbk (start_S e n))).
  { revert A0. apply pw_of; [apply nkeeps_0, nkeeps_los; apply (fr_submit los); reflexivity|].
    intros _. apply aw_submit. }
  destruct Hh as [ -> | [ -> | -> ] ].
  - exact Hs.
  - unfold api_admin. destruct (dyn (cf e)); [exact Hs|exact A0].
  - unfold api_setver. destruct (_ || _); [exact A0|exact Hs].
Qed.

(* C04_log_wf, global: one step *)
Theorem gstep_gwf c g ev g' r : gwf g -> ev_ok ev -> gstep c g ev = Some (g', r) -> gwf g'.
Proof.
  intros G Hev Hs. destruct ev; unfold gstep in Hs; cbv zeta in Hs.
  - destruct (aget n (nodes g)) as [x|] eqn:E; [|discriminate]. inversion Hs; subst; clear Hs.
    apply gwf_finish; [exact G|]. apply on_tick_pw. eapply gwf_node; eauto.
  - destruct (aget b (nodes g)) as [x|] eqn:E; [|discriminate].
    destruct (chan_get a b g) as [|m rest] eqn:Ec; [discriminate|]. inversion Hs; subst; clear Hs.
    assert (Hm : forall m', In m' (m :: rest) -> msg_wf m').
    { intros m' Hin. destruct G as (_ & G2 & _). apply (chans_wf_all g G2 a b). now rewrite Ec. }
    apply gwf_finish.
    + apply gwf_chan_set; [exact G|]. intros m' Hin. apply Hm. now right.
    + apply on_message_pw; [apply Hm; now left|eapply gwf_node; eauto].
  - destruct (aget a (nodes g)) as [x|] eqn:E; [|discriminate]. inversion Hs; subst; clear Hs.
    apply gwf_chan_set; [|intros m []]. apply gwf_finish; [exact G|]. apply pw_idle.
    apply (on_disconnected_keeps b x). eapply gwf_node; eauto.
  - inversion Hs; subst; clear Hs. apply gwf_chan_set; [exact G|].
    intros m Hin. apply In_firstn in Hin. destruct G as (_ & G2 & _). eapply (chans_wf_all g G2 a b); eauto.
  - destruct (aget a (nodes g)) as [x|] eqn:E; [|discriminate]. inversion Hs; subst; clear Hs.
    apply gwf_finish.
    + destruct (match aget b (nodes g) with Some y => negb (smem a (tconn y)) | None => true end); [|exact G].
      apply gwf_chan_set; [apply gwf_chan_set; [exact G|]|]; intros m [].
    + apply pw_idle. apply (on_connected_keeps b x). eapply gwf_node; eauto.
  - destruct (aget n (nodes g)) as [x|] eqn:E; [|discriminate]. inversion Hs; subst; clear Hs.
    apply gwf_finish; [exact G|]. apply (api_pw _ api_submit); [auto|eapply gwf_node; eauto].
  - destruct (aget n (nodes g)) as [x|] eqn:E; [|discriminate]. inversion Hs; subst; clear Hs.
    apply gwf_finish; [exact G|]. apply (api_pw _ api_admin); [auto|eapply gwf_node; eauto].
  - destruct (aget n (nodes g)) as [x|] eqn:E; [|discriminate]. inversion Hs; subst; clear Hs.
    apply gwf_finish; [exact G|]. apply (api_pw _ api_setver); [auto|eapply gwf_node; eauto].
  - destruct (aget n (nodes g)) as [x|] eqn:E; [|discriminate]. inversion Hs; subst; clear Hs.
    apply gwf_finish; [exact G|]. apply pw_idle.
    apply (nkeeps_los x); [reflexivity|eapply gwf_node; eauto].
  - (* kill *)
    inversion Hs; subst; clear Hs. destruct G as (G1 & G2 & G3). split; [|split].
    + cbn. intros p Hp. apply In_adel in Hp.
      destruct (aget n (nodes g)) as [x|]; [destruct (disk_of c x)|]; cbn in Hp; now apply G1.
    + intros ch Hc m Hm. cbn in Hc. apply filter_In in Hc. destruct Hc as [Hc _].
      destruct (aget n (nodes g)) as [x|]; [destruct (disk_of c x)|]; cbn in Hc; eapply G2; eauto.
    + cbn. destruct (aget n (nodes g)) as [x|] eqn:E; [|exact G3].
      pose proof (G1 _ (aget_In _ _ _ E)) as (W1 & W2 & (S1 & _)). cbn in W1.
      unfold disk_of. destruct (file_journal c); cbn.
      * intros p Hp. apply In_aset in Hp. destruct Hp as [->|Hp]; [|now apply G3].
        split; [exact W1|]. cbn. destruct (file_dump c); [|exact I].
        destruct (stored (sr x)) eqn:Es; [now apply S1|exact I].
      * intros p Hp. apply In_adel in Hp. now apply G3.
  - (* restart *)
    inversion Hs; subst; clear Hs. destruct G as (G1 & G2 & G3). cbn in Hev. split; [|split].
    + cbn. intros p Hp. apply In_aset in Hp. destruct Hp as [->|Hp]; [|now apply G1]. cbn [snd].
      destruct (aget n (disks g)) as [d|] eqn:Ed.
      * destruct (RO_BASE <=? n); [now apply init_node_wf|].
        apply init_from_disk_inv; [exact Hev|]. exact (G3 _ (aget_In _ _ _ Ed)).
      * destruct (RO_BASE <=? n); now apply init_node_wf.
    + intros ch Hc m Hm. cbn in Hc. apply filter_In in Hc. destruct Hc as [Hc _]. eapply G2; eauto.
    + exact G3.
Qed.

Lemma gwf_init : gwf ginit.
Proof. split; [|split]; intros p []. Qed.

(* C04_log_wf over all reachable states (restarts with a sorted member list) *)
Theorem reachable_gwf c evs g :
  Forall ev_ok evs -> run_trace c ginit evs = Some g -> gwf g.
Proof.
  intros Hev. assert (H0 : gwf ginit) by apply gwf_init. revert H0. generalize ginit.
  induction Hev as [|ev evs Hok Hev IH]; intros g0 H0 Hr; cbn in Hr.
  - inversion Hr; subst. exact H0.
  - destruct (gstep c g0 ev) as [[g1 r]|] eqn:Es; [|discriminate].
    apply (IH g1); [|exact Hr]. eapply gstep_gwf; eauto.
Qed.

Corollary reachable_log_wf c evs g x n :
  Forall ev_ok evs -> run_trace c ginit evs = Some g -> aget x (nodes g) = Some n ->
  consec (log n) /\ ssorted (others n) /\ chan_all msg_wf g.
Proof.
  intros Hev Hr Hn. pose proof (reachable_gwf c evs g Hev Hr) as G.
  destruct (gwf_node g x n G Hn) as (H1 & H2 & _). split; [exact H1|]. split; [exact H2|].
  apply chans_wf_all. apply G.
Qed.

(* ------------------------------------------------------------------------------------------ *)
(* every node of a reachable global state is a reachable node state                           *)

Definition restarted (c : conf) (g : gstate) (x : nid) (oth : list nid) (now rnd : Z) (sv : N) : node :=
  let e := mk_env c now rnd DEFAULT_BUDGET [] 0 in
  let me := if RO_BASE <=? x then None else Some x in
  match aget x (disks g), me with
  | Some d, Some _ => init_from_disk e me oth sv d
  | _, _ => init_node e me oth sv
  end.

Lemma gstep_nodes c MP g ev g' r :
  gstep c g ev = Some (g', r) -> chan_all MP g ->
  forall p, In p (nodes g') ->
    In p (nodes g) \/
    (exists x, In (fst p, x) (nodes g) /\ nstep c MP x (snd p)) \/
    (exists oth now rnd sv, ev = ERestart (fst p) oth now rnd sv /\ snd p = restarted c g (fst p) oth now rnd sv).
Proof.
  intros Hs Hc p Hp. destruct ev; unfold gstep in Hs; cbv zeta in Hs.
  - destruct (aget n (nodes g)) as [x|] eqn:E; [|discriminate]. inversion Hs; subst; clear Hs.
    rewrite nodes_finish in Hp. apply In_aset in Hp. destruct Hp as [->|Hp]; [|now left].
    right. left. exists x. split; [now apply aget_In|]. now apply ns_tick.
  - destruct (aget b (nodes g)) as [x|] eqn:E; [|discriminate].
    destruct (chan_get a b g) as [|m rest] eqn:Ec; [discriminate|]. inversion Hs; subst; clear Hs.
    rewrite nodes_finish, nodes_chan_set in Hp. apply In_aset in Hp. destruct Hp as [->|Hp]; [|now left].
    right. left. exists x. split; [now apply aget_In|]. apply ns_msg; [reflexivity|].
    apply (Hc a b). rewrite Ec. now left.
  - destruct (aget a (nodes g)) as [x|] eqn:E; [|discriminate]. inversion Hs; subst; clear Hs.
    rewrite nodes_chan_set, nodes_finish in Hp. apply In_aset in Hp. destruct Hp as [->|Hp]; [|now left].
    right. left. exists x. split; [now apply aget_In|]. apply ns_disc.
  - inversion Hs; subst; clear Hs. rewrite nodes_chan_set in Hp. now left.
  - destruct (aget a (nodes g)) as [x|] eqn:E; [|discriminate]. inversion Hs; subst; clear Hs.
    rewrite nodes_finish in Hp.
    assert (Hg : forall fr : bool, nodes (if fr then chan_set a b [] (chan_set b a [] g) else g) = nodes g)
      by (intros []; reflexivity).
    rewrite Hg in Hp. apply In_aset in Hp. destruct Hp as [->|Hp]; [|now left].
    right. left. exists x. split; [now apply aget_In|]. apply ns_conn.
  - destruct (aget n (nodes g)) as [x|] eqn:E; [|discriminate]. inversion Hs; subst; clear Hs.
    rewrite nodes_finish in Hp. apply In_aset in Hp. destruct Hp as [->|Hp]; [|now left].
    right. left. exists x. split; [now apply aget_In|]. now apply ns_submit.
  - destruct (aget n (nodes g)) as [x|] eqn:E; [|discriminate]. inversion Hs; subst; clear Hs.
    rewrite nodes_finish in Hp. apply In_aset in Hp. destruct Hp as [->|Hp]; [|now left].
    right. left. exists x. split; [now apply aget_In|]. now apply ns_admin.
  - destruct (aget n (nodes g)) as [x|] eqn:E; [|discriminate]. inversion Hs; subst; clear Hs.
    rewrite nodes_finish in Hp. apply In_aset in Hp. destruct Hp as [->|Hp]; [|now left].
    right. left. exists x. split; [now apply aget_In|]. now apply ns_setver.
  - destruct (aget n (nodes g)) as [x|] eqn:E; [|discriminate]. inversion Hs; subst; clear Hs.
    rewrite nodes_finish in Hp. apply In_aset in Hp. destruct Hp as [->|Hp]; [|now left].
    right. left. exists x. split; [now apply aget_In|]. apply ns_compact.
  - inversion Hs; subst; clear Hs. cbn in Hp. apply In_adel in Hp. left.
    destruct (aget n (nodes g)) as [x|]; [destruct (disk_of c x)|]; exact Hp.
  - inversion Hs; subst; clear Hs. cbn in Hp. apply In_aset in Hp. destruct Hp as [->|Hp]; [|now left].
    right. right. exists oth, now, rnd, sv. split; reflexivity.
Qed.

Theorem reachable_nreach c evs g :
  Forall ev_ok evs -> run_trace c ginit evs = Some g ->
  forall p, In p (nodes g) -> nreach c (snd p).
Proof.
  intros Hev.
  assert (H0 : gwf ginit /\ forall p, In p (nodes ginit) -> nreach c (snd p)) by (split; [apply gwf_init|intros p []]).
  revert H0. generalize ginit.
  induction Hev as [|ev evs Hok Hev IH]; intros g0 [G0 N0] Hr; cbn in Hr.
  - inversion Hr; subst. exact N0.
  - destruct (gstep c g0 ev) as [[g1 r]|] eqn:Es; [|discriminate].
    apply (IH g1); [|exact Hr]. split; [eapply gstep_gwf; eauto|].
    intros p Hp.
    destruct (gstep_nodes c msg_wf g0 ev g1 r Es (chans_wf_all g0 (proj1 (proj2 G0))) p Hp)
      as [Hin|[(x & Hx & Hst)|(oth & now & rnd & sv & -> & ->)]].
    + now apply N0.
    + eapply nr_step; [exact (N0 _ Hx)|exact Hst].
    + cbn in Hok. unfold restarted. cbv zeta.
      destruct (aget (fst p) (disks g0)) as [d|] eqn:Ed.
      * destruct (RO_BASE <=? fst p).
        -- apply nr_init; [reflexivity|exact Hok].
        -- apply nr_disk; [reflexivity|exact Hok|]. destruct G0 as (_ & _ & G3). exact (G3 _ (aget_In _ _ _ Ed)).
      * destruct (RO_BASE <=? fst p); apply nr_init; try reflexivity; exact Hok.
Qed.

(* C10_one_pending_change over all reachable global states *)
Theorem one_pending_change_global c evs g x n :
  dyn c = true -> Forall ev_ok evs -> run_trace c ginit evs = Some g ->
  aget x (nodes g) = Some n -> role n = LEADER ->
  exists i, noop_idx n = Some i /\
    forall e1 e2, In e1 (log n) -> In e2 (log n) -> is_mem e1 = true -> is_mem e2 = true ->
                  i < eidx e1 -> i < eidx e2 -> applied n < eidx e1 -> applied n < eidx e2 -> e1 = e2.
Proof.
  intros Hd Hev Hr Hn Hl. apply (one_pending_change c n Hd); [|exact Hl].
  apply (reachable_nreach c evs g Hev Hr (x, n)). now apply aget_In.
Qed.

(* memory-only configurations: every node is in a fresh-start state, so applying committed entries
   never changes its member set (C10_apply_does_not_reapply, global) *)
Lemma disks_finish x s g : disks (finish x s g) = disks g.
Proof. unfold finish. now rewrite disks_route. Qed.

Lemma disks_chan_set a b q g : disks (chan_set a b q g) = disks g.
Proof. reflexivity. Qed.

(* without a journal file no disk image is ever kept *)
Lemma gstep_disks_mem c g ev g' r :
  file_journal c = false -> gstep c g ev = Some (g', r) -> disks g = [] -> disks g' = [].
Proof.
  intros Hj Hs D. destruct ev; unfold gstep in Hs; cbv zeta in Hs.
  - destruct (aget n (nodes g)); [|discriminate]. inversion Hs. now rewrite disks_finish.
  - destruct (aget b (nodes g)); [|discriminate]. destruct (chan_get a b g); [discriminate|].
    inversion Hs. now rewrite disks_finish.
  - destruct (aget a (nodes g)); [|discriminate]. inversion Hs. rewrite disks_chan_set. now rewrite disks_finish.
  - inversion Hs. exact D.
  - destruct (aget a (nodes g)); [|discriminate]. inversion Hs. rewrite disks_finish.
    destruct (match aget b (nodes g) with Some y => negb (smem a (tconn y)) | None => true end); exact D.
  - destruct (aget n (nodes g)); [|discriminate]. inversion Hs. now rewrite disks_finish.
  - destruct (aget n (nodes g)); [|discriminate]. inversion Hs. now rewrite disks_finish.
  - destruct (aget n (nodes g)); [|discriminate]. inversion Hs. now rewrite disks_finish.
  - destruct (aget n (nodes g)); [|discriminate]. inversion Hs. now rewrite disks_finish.
  - inversion Hs. cbn. destruct (aget n (nodes g)) as [x|]; [|exact D].
    unfold disk_of. rewrite Hj. cbn. now rewrite D.
  - inversion Hs. exact D.
Qed.

Theorem reachable_freach c evs g :
  file_journal c = false -> Forall ev_ok evs -> run_trace c ginit evs = Some g ->
  forall p, In p (nodes g) -> freach c (snd p).
Proof.
  intros Hj Hev.
  assert (H0 : (gwf ginit /\ disks ginit = []) /\ forall p, In p (nodes ginit) -> freach c (snd p))
    by (split; [split; [apply gwf_init|reflexivity]|intros p []]).
  revert H0. generalize ginit.
  induction Hev as [|ev evs Hok Hev IH]; intros g0 [[G0 D0] N0] Hr; cbn in Hr.
  - inversion Hr; subst. exact N0.
  - destruct (gstep c g0 ev) as [[g1 r]|] eqn:Es; [|discriminate].
    apply (IH g1); [|exact Hr]. split; [split; [eapply gstep_gwf; eauto|]|].
    + eapply gstep_disks_mem; eauto.
    + intros p Hp.
      destruct (gstep_nodes c msg_wf g0 ev g1 r Es (chans_wf_all g0 (proj1 (proj2 G0))) p Hp)
        as [Hin|[(x & Hx & Hst)|(oth & now & rnd & sv & -> & ->)]].
      * now apply N0.
      * eapply fr_step; [exact (N0 _ Hx)|exact Hst].
      * cbn in Hok. unfold restarted. cbv zeta. rewrite D0. cbn.
        apply fr_init; [reflexivity|exact Hok].
Qed.

Theorem apply_does_not_reapply_global c evs g x n e s :
  file_journal c = false -> Forall ev_ok evs -> run_trace c ginit evs = Some g ->
  aget x (nodes g) = Some n -> nd s = n ->
  others (nd (fst (apply_entries e s))) = others n.
Proof.
  intros Hj Hev Hr Hn Hs. apply (apply_does_not_reapply_fresh c n e s); [|exact Hs].
  apply (reachable_freach c evs g Hj Hev Hr (x, n)). now apply aget_In.
Qed.
