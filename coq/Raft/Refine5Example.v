(* Tier C5, part 13: non-vacuity (runs A-D as in Tier C4; run E: a snapshot refused for its version).  Two concrete runs of the fragment with log compaction and the
   install of a snapshot at a voter (three voters; the leader compacts its log at index 3 and
   brings the lagging voter 2 up to date with a snapshot).  In run A voter 2 already holds the
   entries of the snapshot (its log is trimmed and keeps entry 4); in run B it holds nothing
   (its log is replaced by the two entries of the snapshot).  Both satisfy every hypothesis of
   the Tier C5 theorems; a theorem is instantiated on each. *)
From Coq Require Import ZArith NArith List Bool Lia.
From RecordUpdate Require Import RecordSet.
From PSO Require Import Raft.Types Raft.Node Raft.Net Raft.Obs.
From PSO Require Import Raft.ProofsElectionGhost Raft.RefineAbs Raft.Refine5Abs Raft.Refine5Main Raft.Refine5Final.
Import ListNotations.
Import RecordSetNotations.
Open Scope N_scope.

(* period tmin tspan fallback batch chunk use_batch dyn wait_leader min_entries min_time qsize noop_pk
   file_dump file_journal: memory-only nodes, compaction only on request (ECompact) *)
Definition t5_conf : conf := mkConf 10 40 20 1000 1000 100 true false true 1000 100000 10 5 false false.
Definition t5_V : list nid := [1; 2; 3].
Definition t5_cmd (k : N) : cmd := mkCmd 0 k 0 1 10.

Definition t5T (z : Z) (n : N) : event := ETick n z 0 30 [] 9.
Definition t5D (z : Z) (a b : N) : event := EDeliver a b z 0 [].

(* election of node 1 (the messages to 2 are lost), entry 3, two rejections by node 2 *)
Definition t5_boot : list event :=
  [ERestart 1 [2;3] 0 0 1; ERestart 2 [1;3] 0 0 1; ERestart 3 [1;2] 0 0 1;
   EConnect 1 2; EConnect 2 1; EConnect 1 3; EConnect 3 1; EConnect 2 3; EConnect 3 2;
   t5T 50 1; t5D 51 1 3; t5D 52 3 1;
   ELose 1 2 2;
   t5D 53 1 3; t5D 54 3 1;
   ESubmit 1 (t5_cmd 7) 11; t5T 60 1; t5T 71 1;
   t5D 72 1 2;
   t5D 73 1 3; t5D 74 3 1;
   t5T 82 1;
   t5D 83 1 2;
   t5D 84 2 1].

(* run A: entries 2,3 and 4 reach node 2 before the snapshot does *)
Definition t5_traceA : list event := t5_boot ++
  [t5T 93 1;
   ESubmit 1 (t5_cmd 8) 12; t5T 104 1;
   ECompact 1; t5T 115 1;            (* the snapshot at applied = 3 is taken *)
   t5T 126 1;                        (* the log is cut: first index 2 *)
   t5D 127 2 1;                      (* the second rejection: next[2] := 2 <= first index *)
   t5T 137 1;                        (* the snapshot is sent to 2 *)
   t5D 138 1 2; t5D 138 1 2; t5D 138 1 2; t5D 138 1 2;
   t5D 139 1 2; t5D 139 1 2;         (* install: the log of 2 is trimmed to [2;3;4] *)
   t5D 140 2 1; t5D 140 2 1; t5D 140 2 1; t5D 140 2 1; t5D 140 2 1;
   t5T 148 1; t5D 149 1 2; t5D 149 1 3; t5T 150 2; t5T 150 3].

(* run B: every append_entries to node 2 is lost; only the snapshot (and then entry 4) arrives *)
Definition t5_traceB : list event := t5_boot ++
  [t5T 93 1; ELose 1 2 1;
   ESubmit 1 (t5_cmd 8) 12; t5T 104 1; ELose 1 2 1;
   ECompact 1; t5T 115 1; ELose 1 2 1;
   t5T 126 1; ELose 1 2 1;
   t5D 127 2 1;
   t5T 137 1;
   t5D 139 1 2; t5D 139 1 2;         (* install: the log of 2 becomes [2;3] *)
   t5D 139 1 2;                      (* entry 4 *)
   t5D 140 2 1; t5D 140 2 1; t5T 148 1].

Example t5A_in_fragment : core_frag5 t5_conf t5_V t5_traceA.
Proof. repeat split; vm_compute; reflexivity. Qed.

Example t5B_in_fragment : core_frag5 t5_conf t5_V t5_traceB.
Proof. repeat split; vm_compute; reflexivity. Qed.

Definition t5_view (x : node) := map (fun e => (ca (ecmd e), eidx e, eterm e)) (log x).

Example t5A_runs :
  exists g n1 n2 n3,
    run_trace t5_conf ginit t5_traceA = Some g /\
    aget 1 (nodes g) = Some n1 /\ aget 2 (nodes g) = Some n2 /\ aget 3 (nodes g) = Some n3 /\
    role n1 = LEADER /\ commit n1 = 4 /\ commit n2 = 3 /\ applied n2 = 3 /\
    t5_view n1 = [(0, 2, 1); (7, 3, 1); (8, 4, 1)] /\
    t5_view n2 = [(0, 2, 1); (7, 3, 1); (8, 4, 1)] /\
    t5_view n3 = [(0, 1, 0); (0, 2, 1); (7, 3, 1)] /\
    (exists sn, stored (sr n2) = Some (Good sn) /\ eidx (s_e1 sn) = 3).
Proof.
  do 4 eexists.
  split; [vm_compute; reflexivity|]. split; [vm_compute; reflexivity|]. split; [vm_compute; reflexivity|].
  split; [vm_compute; reflexivity|].
  vm_compute. repeat split; try reflexivity. eexists. split; reflexivity.
Qed.

Example t5B_runs :
  exists g n1 n2,
    run_trace t5_conf ginit t5_traceB = Some g /\
    aget 1 (nodes g) = Some n1 /\ aget 2 (nodes g) = Some n2 /\
    role n1 = LEADER /\ commit n2 = 3 /\ applied n2 = 3 /\
    t5_view n1 = [(0, 2, 1); (7, 3, 1); (8, 4, 1)] /\
    t5_view n2 = [(0, 2, 1); (7, 3, 1); (8, 4, 1)] /\
    (exists sn, stored (sr n2) = Some (Good sn) /\ eidx (s_e1 sn) = 3).
Proof.
  do 3 eexists.
  split; [vm_compute; reflexivity|]. split; [vm_compute; reflexivity|]. split; [vm_compute; reflexivity|].
  vm_compute. repeat split; try reflexivity. eexists. split; reflexivity.
Qed.

(* the theorems apply: e.g. voters 2 (snapshot installed) and 3 (full log) agree on every committed
   index both hold *)
Example t5A_sms_instance :
  forall g n2 n3 ea eb, run_trace t5_conf ginit t5_traceA = Some g ->
    aget 2 (nodes g) = Some n2 -> aget 3 (nodes g) = Some n3 ->
    In ea (log n2) -> In eb (log n3) -> eidx ea = eidx eb -> eidx ea <= commit n2 -> eidx ea <= commit n3 ->
    ea = eb.
Proof.
  intros g n2 n3 ea eb Hr H2 H3.
  destruct t5A_in_fragment as (A & C & D & E).
  apply (TierC5_state_machine_safety t5_conf t5_V t5_traceA g 2 3 n2 n3 ea eb A C D E Hr H2 H3); reflexivity.
Qed.

Example t5B_snapshot_instance :
  forall g n2 n1 sn eb, run_trace t5_conf ginit t5_traceB = Some g ->
    aget 2 (nodes g) = Some n2 -> aget 1 (nodes g) = Some n1 ->
    stored (sr n2) = Some (Good sn) ->
    In eb (log n1) -> eidx eb = eidx (s_e1 sn) -> eidx eb <= commit n1 -> eb = s_e1 sn.
Proof.
  intros g n2 n1 sn eb Hr H2 H1.
  destruct t5B_in_fragment as (A & C & D & E).
  apply (TierC5_snapshot_agrees t5_conf t5_V t5_traceB g 2 1 n2 n1 sn eb A C D E Hr H2 H1); reflexivity.
Qed.

(* run C: batch = 5; a command of size 6 (pickled size 12) travels in three pieces (start, process,
   finish).  Voter 2 receives all three and appends the entry; for voter 3 the finish piece is lost:
   it keeps two pieces buffered, refuses the next heartbeat, and the leader sends the three pieces
   again (the new start piece resets the buffer). *)
Definition t5_confC : conf := mkConf 10 40 20 1000 5 100 true false true 1000 100000 10 5 false false.
Definition t5_big (k : N) : cmd := mkCmd 0 k 0 6 12.

Definition t5_traceC : list event :=
  [ERestart 1 [2;3] 0 0 1; ERestart 2 [1;3] 0 0 1; ERestart 3 [1;2] 0 0 1;
   EConnect 1 2; EConnect 2 1; EConnect 1 3; EConnect 3 1; EConnect 2 3; EConnect 3 2;
   t5T 50 1; t5D 51 1 3; t5D 52 3 1; t5D 51 1 2; t5D 52 2 1;
   t5D 53 1 3; t5D 54 3 1; t5D 53 1 2; t5D 54 2 1;
   ESubmit 1 (t5_big 7) 11; t5T 60 1; t5T 71 1;          (* three pieces to each follower *)
   t5D 72 1 2; t5D 72 1 2; t5D 72 1 2; t5D 73 2 1; t5D 73 2 1; t5D 73 2 1;
   ELose 1 3 1; t5D 74 1 3; t5D 74 1 3; t5D 75 3 1; t5D 75 3 1;   (* voter 3: start and process only *)
   t5T 82 1; t5D 83 1 2; t5D 83 1 3; t5D 84 3 1; t5D 84 2 1;
   t5T 93 1; t5D 94 1 3; t5D 94 1 3; t5D 94 1 3; t5D 95 3 1; t5D 95 3 1; t5D 95 3 1; t5T 104 1].

Example t5C_in_fragment : core_frag5 t5_confC t5_V t5_traceC.
Proof. repeat split; vm_compute; reflexivity. Qed.

Example t5C_runs :
  exists g n1 n2 n3,
    run_trace t5_confC ginit t5_traceC = Some g /\
    aget 1 (nodes g) = Some n1 /\ aget 2 (nodes g) = Some n2 /\ aget 3 (nodes g) = Some n3 /\
    role n1 = LEADER /\ commit n1 = 3 /\ commit n2 = 3 /\ commit n3 = 3 /\
    t5_view n1 = [(0, 1, 0); (0, 2, 1); (7, 3, 1)] /\ log n2 = log n1 /\ log n3 = log n1 /\
    (exists e3, nth_error (log n1) 2 = Some e3 /\ batch t5_confC <= csz (ecmd e3)) /\
    recv_t n3 = [].
Proof.
  do 4 eexists.
  split; [vm_compute; reflexivity|]. split; [vm_compute; reflexivity|]. split; [vm_compute; reflexivity|].
  split; [vm_compute; reflexivity|].
  vm_compute. repeat split; try reflexivity. eexists. split; [reflexivity|]. intros H; discriminate H.
Qed.

Example t5C_sms_instance :
  forall g n2 n3 ea eb, run_trace t5_confC ginit t5_traceC = Some g ->
    aget 2 (nodes g) = Some n2 -> aget 3 (nodes g) = Some n3 ->
    In ea (log n2) -> In eb (log n3) -> eidx ea = eidx eb -> eidx ea <= commit n2 -> eidx ea <= commit n3 ->
    ea = eb.
Proof.
  intros g n2 n3 ea eb Hr H2 H3.
  destruct t5C_in_fragment as (A & C & D & E).
  apply (TierC5_state_machine_safety t5_confC t5_V t5_traceC g 2 3 n2 n3 ea eb A C D E Hr H2 H3); reflexivity.
Qed.

(* run D: run A with a dump file configured (file_dump = true).  Every node ticks once right after its
   start (the tick that would load the dump file finds nothing stored); later ticks do not load. *)
Definition t5_confD : conf := mkConf 10 40 20 1000 1000 100 true false true 1000 100000 10 5 true false.

Definition t5_traceD : list event :=
  firstn 9 t5_boot ++ [t5T 1 1; t5T 1 2; t5T 1 3] ++ skipn 9 t5_traceA.

Example t5D_in_fragment : core_frag5 t5_confD t5_V t5_traceD.
Proof. repeat split; vm_compute; reflexivity. Qed.

Example t5D_runs :
  exists g n1 n2,
    run_trace t5_confD ginit t5_traceD = Some g /\
    aget 1 (nodes g) = Some n1 /\ aget 2 (nodes g) = Some n2 /\
    file_dump t5_confD = true /\ role n1 = LEADER /\ commit n1 = 4 /\
    t5_view n2 = [(0, 2, 1); (7, 3, 1); (8, 4, 1)] /\
    (exists sn, stored (sr n2) = Some (Good sn) /\ eidx (s_e1 sn) = 3).
Proof.
  do 3 eexists.
  split; [vm_compute; reflexivity|]. split; [vm_compute; reflexivity|]. split; [vm_compute; reflexivity|].
  vm_compute. repeat split; try reflexivity. eexists. split; reflexivity.
Qed.

(* the condition is needed in the model: in run A voter 2 ticks for the first time after it has installed
   a snapshot; with a dump file configured that tick would re-load the stored dump *)
Example t5A_with_dump_file_not_in_fragment : run_ok5 t5_confD ginit t5_traceA = false.
Proof. vm_compute. reflexivity. Qed.

(* run E: nodes 1 and 3 run code version 2, node 2 code version 1.  The leader commits and applies the
   command "enable version 2", compacts, and sends the snapshot (s_ver = 2) to node 2, which refuses it
   for its version: the dump stays in node 2's store, ahead of node 2's commit index.  Tier C4's
   [ver_okb] excluded this run. *)
Definition t5_vcmd : cmd := mkCmd 3 2 0 1 10.

Definition t5_traceE : list event :=
  [ERestart 1 [2;3] 0 0 2; ERestart 2 [1;3] 0 0 1; ERestart 3 [1;2] 0 0 2;
   EConnect 1 2; EConnect 2 1; EConnect 1 3; EConnect 3 1; EConnect 2 3; EConnect 3 2;
   t5T 50 1; t5D 51 1 3; t5D 52 3 1;
   ELose 1 2 2;
   t5D 53 1 3; t5D 54 3 1;
   ESetVer 1 t5_vcmd 11; t5T 60 1; t5T 71 1;
   t5D 72 1 2;
   t5D 73 1 3; t5D 74 3 1;
   t5T 82 1;
   t5D 83 1 2;
   t5D 84 2 1;
   t5T 93 1; ELose 1 2 1;
   t5T 104 1; ELose 1 2 1;
   ECompact 1; t5T 115 1; ELose 1 2 1;
   t5T 126 1; ELose 1 2 1;
   t5D 127 2 1;
   t5T 137 1;
   t5D 139 1 2; t5D 139 1 2].

Example t5E_in_fragment : core_frag5 t5_conf t5_V t5_traceE.
Proof. repeat split; vm_compute; reflexivity. Qed.

Example t5E_runs :
  exists g n1 n2,
    run_trace t5_conf ginit t5_traceE = Some g /\
    aget 1 (nodes g) = Some n1 /\ aget 2 (nodes g) = Some n2 /\
    role n1 = LEADER /\ enabled_ver n1 = 2 /\ self_ver n2 = 1 /\ commit n2 = 1 /\ applied n2 = 1 /\
    (exists sn, stored (sr n2) = Some (Good sn) /\ s_ver sn = 2 /\ eidx (s_e1 sn) = 3).
Proof.
  do 3 eexists.
  split; [vm_compute; reflexivity|]. split; [vm_compute; reflexivity|]. split; [vm_compute; reflexivity|].
  vm_compute. repeat split; try reflexivity. eexists. repeat split; reflexivity.
Qed.
