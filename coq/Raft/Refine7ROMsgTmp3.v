(* Tier C7, part 2: a message delivered to a read-only node keeps the learner relation [Lr].
   The handlers are those of a voter (append_entries, pieces of a big entry, snapshot pieces); the
   abstract state does not move: every AppendEntries / snapshot piece has its image in [net s]
   ([Rmsg]), so what the node accepts is a window of a leader log. *)
From Coq Require Import ZArith NArith List Bool Lia ZifyBool Arith PeanoNat.
From RecordUpdate Require Import RecordSet.
From PSO Require Import Raft.Types Raft.Node Raft.Net Raft.ProofsCommitBase Raft.ProofsSnapshotBase.
From PSO Require Import Raft.ProofsApplyBase Raft.ProofsApplyLog.
From PSO Require Raft.ProofsApplyReplay.
From PSO Require Import Raft.ProofsElectionBase Raft.RefineAbs Raft.RefineK Raft.RefineSpecA Raft.RefineTickA
  Raft.RefineMsgB.
From PSO Require Import Raft.Refine5Abs Raft.Refine5SpecA Raft.Refine5Sim Raft.Refine5TickA Raft.Refine5TickB
  Raft.Refine5MsgB Raft.Refine5MsgC.
From PSO Require Raft.Refine5Main.
From PSO Require Import Raft.Refine6Base Raft.Refine6Snaps Raft.Refine7ROBase.
From PSO Require Abstract.Model Abstract.Lib Abstract.Kstep Abstract.Safety1_WF.
Import ListNotations.
Import RecordSetNotations.
Open Scope N_scope.
#[local] Arguments firstn : simpl nomatch.
#[local] Arguments skipn : simpl nomatch.

(* the term carried by an append_entries-type message *)
Definition mterm (m : msg) : N :=
  match m with
  | AE t _ _ _ => t | AEPiece t _ _ _ _ _ _ => t | AESnap t _ _ => t
  | _ => 0
  end.

Axiom cheat : forall P : Prop, P.
Section Msg7.
Variable c : conf.
Variable V : list nid.
Hypothesis NDV : NoDup V.
Hypothesis VRO : forall v, In v V -> v < RO_BASE.
Hypothesis VNE : V <> [].
Hypothesis Hb1 : 1 < batch c.
Hypothesis Hdyn : dyn c = false.
Variable e : env.
Hypothesis Hc : cf e = c.
Set Default Proof Using "All".

Notation V' := (absV V).
Notation Rmsg := (Rmsg c).
Notation kstar := (kstar V).
Notation pk := (pk c).
Notation snap_valid := (snap_valid c).
Notation blob_valid := (blob_valid c).
Notation legit := (legit c).
Notation e00 := (e00 c).
Notation HI := (HI c).
Notation SH := (SH c).
Notation glog := (glog c).
Notation Lg := (Lg c).
Notation Lr := (Lr c).
Notation QS := (QS c).
Notation recv_ok := (recv_ok c).
Notation Lg_full := (Lg_full c V NDV VRO VNE Hb1).
Notation learn_accept := (learn_accept c V NDV VRO VNE Hb1).
Notation glog_wf1 := (glog_wf1 c V NDV VRO VNE Hb1).
Notation glog_e0 := (glog_e0 c V NDV VRO VNE Hb1).
Notation valid_two := (valid_two c V NDV VRO VNE Hb1).
Notation absL_merge := (absL_merge c V NDV VRO VNE Hb1).
Notation Lg_term := (Lg_term c V NDV VRO VNE Hb1).
Notation Lg_eq := (Lg_eq c V NDV VRO VNE Hb1).
Notation Lh_eq := (Lh_eq c V NDV VRO VNE Hb1).
Notation QS_le := (QS_le c V NDV VRO VNE Hb1).
Notation HI_eq := (HI_eq c V NDV VRO VNE Hb1).
Notation lq_eq := (lq_eq c V NDV VRO VNE Hb1).
Notation ghost_accept_cases := (ghost_accept_cases c V NDV VRO VNE Hb1).

Lemma Hd : dyn (cf e) = false.
Proof. rewrite Hc. exact Hdyn. Qed.

(* a step that keeps log, applied, commit, replay index and the serializer's phase *)
Lemma keepL x y s :
  log y = log x -> term x <= term y -> applied y = applied x -> commit y = commit x ->
  replay_idx y = replay_idx x -> pid (sr y) = pid (sr x) -> cur_id (sr y) = cur_id (sr x) ->
  Lg x s -> Lh x -> Lg y s /\ Lh y.
Proof.
  intros E1 E2 E3 E4 E5 E6 E7 G H. split.
  - eapply Lg_term; eauto.
  - eapply Lh_eq; eauto.
Qed.

(* the new commit index of an accepting follower is committed in the merged log *)
Lemma commit_case s Tb (l : list M.entry) (co cm k : N) :
  S7.committed_upto s Tb l (n2 co) -> S7.committed_upto s Tb l (Nat.min (n2 cm) (n2 k)) ->
  S7.committed_upto s Tb l (n2 (if co <? cm then N.max co (N.min cm k) else co)).
Proof.
  intros A B. destruct (co <? cm); [|exact A].
  destruct (N.le_gt_cases (N.min cm k) co) as [H|H].
  - replace (N.max co (N.min cm k)) with co by lia. exact A.
  - replace (n2 (N.max co (N.min cm k))) with (Nat.min (n2 cm) (n2 k)) by lia. exact B.
Qed.

(* ---- a regular AppendEntries (also: the entry reassembled from pieces) ---- *)
Lemma lg_ae_regular a b (S1 : Node.S) x s t cm prev es :
  KS.kreachable V' s -> Lg x s -> Lh x -> term x <= t ->
  fv (nd S1) = fv (x <| term := if term x <? t then t else term x |>
                     <| voted := if term x <? t then None else voted x |>
                     <| role := FOLLOWER |>) ->
  Rmsg a b (AE t cm prev es) s ->
  let x' := nd (ae_regular e a cm prev es S1) in
  Lg x' s /\ Lh x' /\ term x' = t.
Proof.
  intros HR G H Et F1 Hm. cbv zeta.
  destruct (Lg_full x s HR G) as (full & GL & W & Sx & CA & CC).
  pose proof Hd as Hd0.
  fvinj_n F1 P.
  assert (Ht1 : term (nd S1) = t).
  { rewrite Pterm. destruct (term x <? t) eqn:E; [reflexivity|]. apply N.ltb_ge in E. lia. }
  assert (Hfail : forall S', nd S' = nd S1 -> Lg (nd S') s /\ Lh (nd S') /\ term (nd S') = t).
  { intros S' En. rewrite En.
    destruct (keepL x (nd S1) s) as [A B]; auto; try (rewrite Psr; reflexivity). lia. }
  destruct prev as [[pidx pterm]|].
  2:{ destruct (ae_regular_fail_none e a cm es S1) as [En _]. apply Hfail; auto. }
  destruct Hm as (Ha & Hne & Hsm & Hin).
  destruct (N.ltb_spec pidx (first_idx (log x))) as [Hlt|Hge0].
  { destruct (ae_regular_fail_empty e a cm pidx pterm es S1) as [En _];
      [rewrite Plog; apply suffix_lt; exact Hlt|].
    apply Hfail; auto. }
  pose proof (suffix_first_pos _ _ W Sx) as Hfp.
  assert (Hp1 : 1 <= pidx) by lia.
  assert (Hge : get_entries (log (nd S1)) (Some pidx) None None = skipn (n2 pidx - 1) full).
  { rewrite Plog, (suffix_ge _ _ W Sx) by exact Hge0. apply ge_from; auto. }
  destruct (nth_error full (n2 pidx - 1)) as [p0|] eqn:Ep.
  2:{ destruct (ae_regular_fail_empty e a cm pidx pterm es S1) as [En _].
      - rewrite Hge. apply skipn_all2. apply nth_error_None. exact Ep.
      - apply Hfail; auto. }
  rewrite (skipn_nth_cons _ _ _ Ep) in Hge. replace (Sn (n2 pidx - 1)) with (n2 pidx) in Hge by lia.
  destruct (N.eq_dec (eterm p0) pterm) as [Hpt|Hpt].
  2:{ destruct (ae_regular_fail_term e a cm pidx pterm es S1 p0 _ Hge Hpt) as [En _]. apply Hfail; auto. }
  (* the accepting branch *)
  destruct (ae_regular_succ e Hd0 a cm pidx pterm es S1 p0 _ Hge Hpt) as [F2 _]. cbv zeta in F2.
  set (S2 := ae_regular e a cm (Some (pidx, pterm)) es S1) in *. clearbody S2.
  assert (Hlen : (n2 pidx <= length full)%nat).
  { assert (n2 pidx - 1 < length full)%nat by (apply nth_error_Some; congruence). lia. }
  destruct (suffix_merge (log x) full pidx es W Sx Hge0 Hlen) as [Sx' Hfi']. cbv zeta in Sx', Hfi'.
  set (ptail := skipn (n2 pidx) full) in *.
  set (m := matched_prefix ptail es) in *.
  set (nx := match last_entry es with Some le => eidx le + 1 | None => pidx + 1 end) in *.
  set (tr := truncating (skipn m ptail) (skipn m es)) in *.
  rewrite Plog in F2.
  set (lg := (if tr then delete_from (log x) (pidx + 1 + N.of_nat m) else log x) ++ skipn m es) in *.
  fvinj_n F2 Q.
  assert (Hnx : nx - 1 = pidx + N.of_nat (length es)).
  { apply (es_last_idx4 c V NDV VRO VNE Hb1 Hdyn e Hc s t a pidx pterm es cm); auto. }
  destruct (learn_accept s full t a pidx pterm es cm p0 (n2 (term x)) HR GL Hin Hp1 Ep Hpt ltac:(lia))
    as (A1 & A2 & A3 & A4 & A5 & A6). cbv zeta in A1, A2, A3, A4, A5, A6.
  fold ptail in A1, A2, A3, A4, A5, A6.
  set (full' := firstn (n2 pidx) full ++ l1merge ptail es) in *.
  assert (Ht2 : term (nd S2) = t) by (rewrite Qterm; exact Ht1).
  split; [|split; [|exact Ht2]].
  - exists full'. split; [exact A1|]. split; [rewrite Qlog; exact Sx'|].
    rewrite Ht2, Qapplied, Papplied, Qcommit, Pcommit. split; [apply A4; exact CA|].
    apply commit_case; [apply A4; exact CC|].
    replace (n2 (nx - 1)) with (n2 pidx + length es)%nat by lia. exact A6.
  - destruct H as [B1 B2 B3]. constructor; rewrite ?Qlog, ?Qapplied, ?Qreplay, ?Qsr, ?Papplied, ?Preplay, ?Psr; auto.
    + destruct tr; lia.
    + rewrite Hfi'. exact B2.
Qed.

(* ------------------------------------------------------------------------------------------ *)
(* the install of a snapshot: Refine5MsgC.install_outcome with a ghost log                     *)

Lemma install_outcome_g s (x0 : node) (S1b : Node.S) sn0 Wl full t a cm :
  KS.kreachable V' s -> glog s full -> wf1 full -> suffix_of (log x0) full ->
  first_idx (log x0) <= applied x0 -> replay_idx x0 <= applied x0 ->
  log (nd S1b) = log x0 -> replay_idx (nd S1b) = replay_idx x0 -> applied (nd S1b) = applied x0 ->
  stored (sr (nd S1b)) = Some (Good sn0) -> load_dump_ok S1b = true -> (exists Tb, snap_valid s Tb sn0) ->
  In (M.AppendEntries (n2 t) (n2 a) 1 0 (absL pk Wl) (n2 cm)) (M.net s) ->
  (length Wl + 1 = n2 (eidx (s_e1 sn0)))%nat ->
  nth_error (e00 :: Wl) (n2 (eidx (s_e1 sn0)) - 1) = Some (s_e1 sn0) ->
  nth_error (e00 :: Wl) (n2 (eidx (s_e1 sn0)) - 2) = Some (s_e0 sn0) ->
  exists lg rp, suffix_of lg (firstn 1 full ++ l1merge (skipn 1 full) Wl) /\
            first_idx lg <= eidx (s_e1 sn0) /\
            rp <= replay_idx x0 /\ (rp <= eidx (s_e1 sn0)) /\
            fv (nd (load_dump e true S1b)) =
              fv ((nd S1b) <| log := lg |> <| replay_idx := rp |> <| applied := eidx (s_e1 sn0) |>).
Proof.
  intros HR GL W Sx Hfi0 Hri0 El Er Ea Est Eok (Tb & Hv0) Hin HlenW N1 N0.
  pose proof Hd as Hd0.
  set (K := eidx (s_e1 sn0)) in *. set (k := n2 K) in *.
  destruct Hv0 as (Sm0 & Sm1 & Hk2 & _). fold K in Hk2. fold k in Hk2.
  pose proof (img_wf1 c V NDV VRO VNE Hb1 Hdyn e Hc s _ _ _ Wl _ HR Hin) as WW.
  assert (Ei0 : eidx (s_e0 sn0) = N.of_nat k - 1) by (destruct WW as [_ H]; rewrite (H _ _ N0); lia).
  pose proof (glog_e0 s full HR GL) as Hf0.
  assert (Hp0 : nth_error (absL pk full) 0 = Some M.e0).
  { rewrite absL_nth, Hf0. cbn [option_map]. rewrite (absE_e00 c). reflexivity. }
  destruct GL as [_ GC].
  destruct (ghost_accept_cases s (absL pk full) (n2 t) (n2 a) 0 0 (absL pk Wl) (n2 cm) M.e0
              HR GC Hin Hp0 eq_refl) as (M1 & HkL & HLk0 & Hcases). cbv zeta in HkL, HLk0, Hcases.
  rewrite absL_length in HkL, HLk0, Hcases.
  replace (1 + length Wl)%nat with k in HkL, HLk0, Hcases by lia.
  set (Lt := M.llog s (n2 t)) in *.
  assert (HLk : firstn k Lt = absL pk (e00 :: Wl)).
  { rewrite HLk0. destruct full as [|f0 fr]; [discriminate Hf0|]. cbn in Hf0. injection Hf0 as ->. reflexivity. }
  set (full' := firstn 1 full ++ l1merge (skipn 1 full) Wl).
  assert (Hl' : firstn 1 (absL pk full) ++ M.merge (skipn 1 (absL pk full)) (absL pk Wl) = absL pk full').
  { unfold full'. symmetry. apply absL_merge. }
  rewrite Hl' in Hcases.
  assert (Hfi : first_idx (log x0) <= N.of_nat k - 1).
  { unfold load_dump_ok in Eok. rewrite Est in Eok. apply andb_prop in Eok as [Eok _].
    rewrite Ea in Eok. fold K in Eok. lia. }
  destruct Hcases as [(A1 & A2 & A3)|(A1 & A2)].
  - (* the node holds entries k-1 and k: only the L1 log is trimmed *)
    apply absL_inj in A1.
    rewrite HLk, <- absL_firstn in A3. apply absL_inj in A3.
    assert (N1f : nth_error full (k - 1) = Some (s_e1 sn0)).
    { rewrite <- (ML.nth_error_firstn_lt full k) by lia. rewrite A3. exact N1. }
    assert (N0f : nth_error full (k - 2) = Some (s_e0 sn0)).
    { rewrite <- (ML.nth_error_firstn_lt full k) by lia. rewrite A3. exact N0. }
    destruct (install_keep (log x0) full (s_e0 sn0) (s_e1 sn0) k W Sx Hk2 Hfi N1f N0f)
      as (Hkept & r & Hdel & Sx2).
    assert (Hkept' : kept_of (log (nd S1b)) (s_e0 sn0) (s_e1 sn0) = true) by (rewrite El; exact Hkept).
    assert (Hdel' : delete_to (log (nd S1b)) (eidx (s_e0 sn0)) = s_e0 sn0 :: s_e1 sn0 :: r) by (rewrite El; exact Hdel).
    destruct (load_dump_keep e S1b sn0 r Est Eok Hd0 Hkept' Hdel') as [Ffv _].
    exists (s_e0 sn0 :: s_e1 sn0 :: r), (replay_idx (nd S1b)).
    rewrite A1. split; [exact Sx2|]. split; [|split; [|split]].
    + cbn [first_idx]. rewrite Ei0. lia.
    + rewrite Er. lia.
    + rewrite Er. unfold load_dump_ok in Eok. rewrite Est in Eok. apply andb_prop in Eok as [Eok _].
      rewrite Ea in Eok. fold K in Eok. lia.
    + rewrite Ffv. apply fv_intro; reflexivity.
  - (* otherwise the ghost log becomes the k entries of the message *)
    rewrite HLk in A1. apply absL_inj in A1.
    assert (Hno : forall b, nth_error full (k - 1) = Some b -> eterm b = eterm (s_e1 sn0) -> False).
    { intros b Hb Ht. apply A2.
      assert (Hbl : nth_error (absL pk full) (k - 1) = Some (absE pk b)) by (rewrite absL_nth, Hb; reflexivity).
      assert (HbL : nth_error Lt (k - 1) = Some (absE pk (s_e1 sn0))).
      { rewrite <- (ML.nth_error_firstn_lt Lt k) by lia. rewrite HLk, absL_nth, N1. reflexivity. }
      assert (Hte : M.eterm (absE pk b) = M.eterm (absE pk (s_e1 sn0))) by (cbn; rewrite Ht; reflexivity).
      pose proof (M1 _ _ _ Hbl HbL Hte) as F. replace (Sn (k - 1)) with k in F by lia.
      split; [|exact F].
      assert (k - 1 < length (absL pk full))%nat by (apply nth_error_Some; congruence). lia. }
    destruct (install_replace (log x0) full (s_e0 sn0) (s_e1 sn0) k W Sx Hk2 Hfi Ei0 Hno) as [Hk1 Hk3].
    assert (Hk1' : kept_of (log (nd S1b)) (s_e0 sn0) (s_e1 sn0) = false) by (rewrite El; exact Hk1).
    assert (Hk3' : keep_of (log (nd S1b)) (s_e0 sn0) (s_e1 sn0) = false) by (rewrite El; exact Hk3).
    destruct (load_dump_replace e S1b sn0 Est Eok Hd0 Hk1' Hk3') as [Ffv _].
    exists [s_e0 sn0; s_e1 sn0], (N.min (replay_idx (nd S1b)) K).
    split; [|split; [|split; [|split]]].
    + fold full'. rewrite A1. exists (k - 2)%nat. split.
      * symmetry. apply skipn_last_two; auto. cbn [length]. lia.
      * cbn [length]. lia.
    + cbn [first_idx]. rewrite Ei0. lia.
    + rewrite Er. lia.
    + lia.
    + exact Ffv.
Qed.

(* ---- snapshot pieces ---- *)
Lemma lg_aesnap a b x s t cm p :
  KS.kreachable V' s -> Lg x s -> Lh x -> nsn (QS s (n2 (term x))) x ->
  Rmsg a b (AESnap t cm p) s -> term x <= t ->
  let x' := nd (ae_body_of e a (AESnap t cm p) cm (ae_pre e a t cm (start_S e x))) in
  Lg x' s /\ Lh x' /\ term x' = t.
Proof.
  intros HR G H NS Hm Et. cbv zeta.
  destruct (ae_pre_spec e a t cm (start_S e x)) as [F1 _].
  set (S1 := ae_pre e a t cm (start_S e x)) in *. clearbody S1. cbn [nd start_S] in F1.
  pose proof Hd as Hd0.
  fvinj_n F1 P.
  assert (Psr' : sr (nd S1) = sr x) by exact Psr.
  assert (Ht1 : term (nd S1) = t).
  { rewrite Pterm. destruct (term x <? t) eqn:E; [reflexivity|]. apply N.ltb_ge in E. lia. }
  (* every outcome that keeps the log *)
  assert (Hkeep : forall y, log y = log (nd S1) -> term y = term (nd S1) -> applied y = applied (nd S1) ->
            commit y = commit (nd S1) -> replay_idx y = replay_idx (nd S1) ->
            pid (sr y) = pid (sr (nd S1)) -> cur_id (sr y) = cur_id (sr (nd S1)) ->
            Lg y s /\ Lh y /\ term y = t).
  { intros y E1 E2 E3 E4 E5 E6 E7.
    assert (Hty : term x <= term y) by lia.
    destruct (keepL x y s) as [A B]; auto; try congruence.
    split; auto. split; auto. congruence. }
  assert (Hsa : a < RO_BASE /\ a <> b /\ some_ae t a s).
  { destruct p as [|bl off len first last]; cbn in Hm; tauto. }
  destruct Hsa as (Ha & Hne & Hs).
  cbn [ae_body_of].
  destruct p as [|bl off len first last]; [cbn [set_transmission]; apply Hkeep; reflexivity|].
  destruct Hm as (_ & _ & _ & Hbv & Himg).
  unfold set_transmission.
  set (inc := if first then Some [] else incoming (sr (nd S1))) in *.
  assert (Hinc : forall ps, inc = Some ps -> forall bl0 o l, In (bl0, o, l) ps -> blob_valid s (n2 t) bl0).
  { intros ps Ei bl0 o l Hin. unfold inc in Ei. destruct first.
    - injection Ei as <-. destruct Hin.
    - rewrite Psr' in Ei. destruct NS as (_ & _ & N3). pose proof (N3 ps bl0 o l Ei Hin) as Hq.
      destruct bl0 as [sn|k0]; [|exact I]. destruct Hq as [Hq _]. cbn. eapply snap_valid_le; [|exact Hq]. lia. }
  clearbody inc.
  destruct inc as [ps|]; [|apply Hkeep; reflexivity].
  specialize (Hinc ps eq_refl).
  set (ps' := ps ++ [(bl, off, len)]) in *.
  assert (Hps' : forall bl0 o l, In (bl0, o, l) ps' -> blob_valid s (n2 t) bl0).
  { intros bl0 o l Hin. unfold ps' in Hin. apply in_app_or in Hin as [Hin|[Hin|[]]].
    - eapply Hinc; eauto.
    - injection Hin as <- _ _. exact Hbv. }
  destruct last; [|cbn [andb]; apply Hkeep; reflexivity].
  cbn [andb].
  set (B := assemble_snap ps') in *.
  set (S1b := upd (fun n0 => n0 <| sr := (sr n0) <| stored := Some B |> <| incoming := None |> |>) S1) in *.
  assert (Est : stored (sr (nd S1b)) = Some B) by reflexivity.
  destruct (load_dump_ok S1b) eqn:Eok.
  2:{ destruct (load_dump_refuse_fv e S1b Eok) as [Ff _].
      set (S2 := load_dump e true S1b) in *. clearbody S2. fvinj_n Ff Q.
      apply Hkeep; cbn [nd ae_commit]; unfold set_commit_meta; cbn; try congruence; rewrite Qsr; reflexivity. }
  destruct B as [sn0|k0] eqn:EB; [|unfold load_dump_ok in Eok; rewrite Est in Eok; discriminate Eok].
  (* the install *)
  assert (Hv0 : snap_valid s (n2 t) sn0).
  { destruct (assemble_good _ _ EB) as ((o0 & l0 & r0 & Eps) & _).
    apply (Hps' (Good sn0) o0 l0). rewrite Eps. left. reflexivity. }
  assert (Hi0 : install_img c t a cm sn0 s).
  { destruct (assemble_good _ _ EB) as (_ & Hcontig).
    destruct (contig_last sn0 ps bl off len 0 Hcontig) as (sn' & Ebl & Heq).
    specialize (Himg eq_refl sn' Ebl). rewrite Ebl in Hbv.
    apply snap_eqb_true in Heq. destruct Heq as (Q1 & Q0 & _).
    apply entry_eqb_true in Q1. destruct Q1 as (_ & Q1 & _).
    destruct (valid_two s _ _ sn0 sn' HR Hv0 Hbv Q1) as [X1 X0].
    unfold install_img in *. rewrite X1, X0. exact Himg. }
  destruct Hi0 as (Wl & Hin & HlenW & N1 & N0).
  destruct (Lg_full x s HR G) as (full & GL & W & Sx & CA & CC).
  destruct H as [B1 B2 B3].
  destruct (install_outcome_g s x S1b sn0 Wl full t a cm HR GL W Sx B2 B1 Plog Preplay Papplied Est Eok
              (ex_intro (fun Tb => snap_valid s Tb sn0) _ Hv0) Hin HlenW N1 N0)
    as (lg & rp & Sx' & Hfi' & Hrp1 & Hrp2 & Ffv).
  set (K := eidx (s_e1 sn0)) in *.
  set (S2 := load_dump e true S1b) in *. clearbody S2.
  fvinj_n Ffv Q.
  rewrite Qapplied.
  destruct (ae_tail2 a cm K S2) as [F3 _]. cbv zeta in F3.
  set (S3 := ae_commit cm (Some K) (send_next_idx a (Some (K + 1)) false true S2)) in *. clearbody S3.
  fvinj_n F3 T.
  assert (HapK : applied x < K).
  { unfold load_dump_ok in Eok. rewrite Est in Eok. apply andb_prop in Eok as [Eok _].
    change (applied (nd S1b)) with (applied (nd S1)) in Eok. rewrite Papplied in Eok. fold K in Eok. lia. }
  assert (Hp0 : nth_error full (n2 1 - 1) = Some e00) by (apply (glog_e0 s full HR GL)).
  destruct (learn_accept s full t a 1 0 Wl cm e00 (n2 (term x)) HR GL Hin ltac:(lia) Hp0 eq_refl ltac:(lia))
    as (A1 & A2 & A3 & A4 & A5 & A6). cbv zeta in A1, A2, A3, A4, A5, A6.
  change (n2 1) with 1%nat in A1, A2, A3, A4, A5, A6.
  set (full' := firstn 1 full ++ l1merge (skipn 1 full) Wl) in *.
  assert (Ht3 : term (nd S3) = t).
  { rewrite Tterm, Qterm. exact Ht1. }
  assert (Ek : (1 + length Wl)%nat = n2 K) by lia.
  split; [|split; [|exact Ht3]].
  - exists full'. split; [exact A1|]. split; [rewrite Tlog, Qlog; exact Sx'|].
    rewrite Ht3, Tapplied, Qapplied, Tcommit, Qcommit.
    change (commit (nd S1b)) with (commit (nd S1)). rewrite Pcommit.
    assert (CK : S7.committed_upto s (n2 t) (absL pk full') (n2 K)).
    { destruct Hv0 as (_ & _ & K2 & T0 & p0 & D & Ht0 & Lp & E1 & E0). fold K in K2, Lp, E1, E0.
      apply (A5 _ (M.llog s T0)); [lia|]. split.
      - assert (n2 K - 1 < length (M.llog s T0))%nat by (apply nth_error_Some; congruence). lia.
      - exists T0, p0. repeat split; auto. }
    split; [exact CK|].
    apply commit_case; [apply A4; exact CC|]. rewrite <- Ek. exact A6.
  - constructor; rewrite ?Tlog, ?Tapplied, ?Treplay, ?Tsr, ?Qlog, ?Qapplied, ?Qreplay, ?Qsr.
    + exact Hrp2.
    + exact Hfi'.
    + change (sr (nd S1b)) with ((sr (nd S1)) <| stored := Some (Good sn0) |> <| incoming := None |>).
      rewrite Psr'. cbn. intros Hp. specialize (B3 Hp). lia.
Qed.

(* ---- pieces of a large entry ---- *)
Lemma lg_aepiece a b x s t cm prev lab off len en :
  KS.kreachable V' s -> Lg x s -> Lh x -> recv_ok s x ->
  Rmsg a b (AEPiece t cm prev lab off len en) s -> term x <= t ->
  let x' := nd (ae_body_of e a (AEPiece t cm prev lab off len en) cm (ae_pre e a t cm (start_S e x))) in
  Lg x' s /\ Lh x' /\ term x' = t /\ recv_ok s x'.
Proof.
  intros HR G H Hrv Hm Et. cbv zeta.
  destruct (ae_pre_spec e a t cm (start_S e x)) as [F1 _].
  assert (Er : recv_t (nd (ae_pre e a t cm (start_S e x))) = recv_t x).
  { apply (fr_ae_pre0 recv_t); intros; reflexivity. }
  set (S1 := ae_pre e a t cm (start_S e x)) in *. clearbody S1. cbn [nd start_S] in F1.
  destruct Hm as (Ha & Hne & Hs & Hlg & Himg).
  fvinj_n F1 P.
  assert (Ht1 : term (nd S1) = t).
  { rewrite Pterm. destruct (term x <? t) eqn:E; [reflexivity|]. apply N.ltb_ge in E. lia. }
  assert (Hfail : forall S', fv (nd S') = fv (nd S1) ->
                  (forall en0 o l, In (en0, o, l) (recv_t (nd S')) -> In (en0, o, l) (recv_t (nd S1)) \/ en0 = en) ->
                  Lg (nd S') s /\ Lh (nd S') /\ term (nd S') = t /\ recv_ok s (nd S')).
  { intros S' F Hin. fvinj_n F Q.
    assert (Hty : term x <= term (nd S')) by (rewrite Qterm, Ht1; exact Et).
    destruct (keepL x (nd S') s) as [A B]; auto; try congruence; try (rewrite Qsr, Psr; reflexivity).
    split; auto. split; auto. split; [congruence|].
    intros en0 o l Hi. destruct (Hin en0 o l Hi) as [Hi'| ->]; [|exact Hlg].
    rewrite Er in Hi'. eapply Hrv; eauto. }
  cbn [ae_body_of].
  destruct (lab =? 1).
  { apply Hfail. - rewrite nd_send_next_idx. rewrite nd_upd. Show. apply cheat. - apply cheat. }
  all: apply cheat.
Time Qed.
End Msg7.