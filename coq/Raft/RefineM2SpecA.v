(* Tier CM2, part 2 (L1 only; copy of Refine2SpecA.v over RefineMAbs): __sendAppendEntries and __onBecomeLeader with compacted logs and
   snapshot pieces.  [full] is the ghost full log of which the node's log is a suffix. *)
From Coq Require Import ZArith NArith List Bool Lia ZifyBool.
From RecordUpdate Require Import RecordSet.
From PSO Require Import Raft.Types Raft.Node Raft.Net Raft.ProofsCommitBase Raft.ProofsElectionBase.
From PSO Require Import Raft.ProofsMembership Raft.RefineMAbs Raft.RefineMSpecA Raft.RefineM2Abs.
Import ListNotations.
Import RecordSetNotations.
Open Scope N_scope.
#[local] Arguments firstn : simpl nomatch.
#[local] Arguments skipn : simpl nomatch.

(* the serializer without its per-peer transmission table *)
Definition srv (x : node) := (pid (sr x), cur_id (sr x), stored (sr x), incoming (sr x)).

(* everything the refinement reads, except the transmission table *)
Definition fw (x : node) :=
  (self x, others x, role x, term x, voted x, votes x, log x, commit x, match_idx x,
   srv x, queue x, applied x, replay_idx x, readonly x).

Lemma fw_eq x y : fw x = fw y ->
  self x = self y /\ others x = others y /\ role x = role y /\ term x = term y /\ voted x = voted y /\
  votes x = votes y /\ log x = log y /\ commit x = commit y /\ match_idx x = match_idx y /\
  srv x = srv y /\ queue x = queue y /\ applied x = applied y /\ replay_idx x = replay_idx y /\
  readonly x = readonly y.
Proof. unfold fw. intros H. repeat split; congruence. Qed.

Lemma srv_eq x y : srv x = srv y ->
  pid (sr x) = pid (sr y) /\ cur_id (sr x) = cur_id (sr y) /\ stored (sr x) = stored (sr y) /\
  incoming (sr x) = incoming (sr y).
Proof. unfold srv. intros H. repeat split; congruence. Qed.

Lemma fv_fw x y : fv x = fv y -> fw x = fw y.
Proof. intros H. fvinj H. unfold fw, srv. congruence. Qed.

Ltac fwinj_n H p :=
  let h := fresh "Hfw" in
  let a1 := fresh p "self" in let a2 := fresh p "oth" in let a3 := fresh p "role" in
  let a4 := fresh p "term" in let a5 := fresh p "voted" in let a6 := fresh p "votes" in
  let a7 := fresh p "log" in let a8 := fresh p "commit" in let a9 := fresh p "match" in
  let a10 := fresh p "srv" in let a11 := fresh p "queue" in let a12 := fresh p "applied" in
  let a13 := fresh p "replay" in let a14 := fresh p "ro" in
  pose proof (fw_eq _ _ H) as h; cbn in h;
  destruct h as (a1 & a2 & a3 & a4 & a5 & a6 & a7 & a8 & a9 & a10 & a11 & a12 & a13 & a14).

(* the blobs of a transmission table come from the node's own store or from an older table *)
Definition bl_ok (x0 : node) (bl : blob) : Prop :=
  stored (sr x0) = Some bl \/ exists d off, In (d, (bl, off)) (trans (sr x0)).

Definition tr_ok (x0 x : node) : Prop :=
  forall d bl off, In (d, (bl, off)) (trans (sr x)) -> bl_ok x0 bl.

Lemma tr_ok_refl x : tr_ok x x.
Proof. intros d bl off H. right. eauto. Qed.

Lemma tr_ok_same x0 x : trans (sr x) = trans (sr x0) -> tr_ok x0 x.
Proof. intros E d bl off H. right. rewrite E in H. eauto. Qed.

Lemma tr_ok_trans x0 x1 x2 : stored (sr x1) = stored (sr x0) -> tr_ok x0 x1 -> tr_ok x1 x2 -> tr_ok x0 x2.
Proof.
  intros Es A B d bl off H. destruct (B d bl off H) as [H1|(d' & off' & H1)].
  - left. congruence.
  - eapply A; eauto.
Qed.

Lemma bl_ok_tr x0 x1 bl : stored (sr x1) = stored (sr x0) -> tr_ok x0 x1 -> bl_ok x1 bl -> bl_ok x0 bl.
Proof. intros Es A [H|(d & off & H)]; [left; congruence|eapply A; eauto]. Qed.

Section Spec.
Variable e : env.
Notation smalle := (RefineMAbs.small (cf e)).

Definition ae_msg_ok (full : list entry) (x : node) (m : msg) : Prop :=
  match m with
  | AE t cm prev es =>
      t = term x /\ cm = commit x /\
      match prev with
      | None => True
      | Some (pi, pt) =>
          1 <= pi /\ (exists pe, nth_error full (n2 pi - 1) = Some pe /\ eterm pe = pt) /\
          (exists k, es = firstn k (skipn (n2 pi) full)) /\ Forall smalle es
      end
  | AESnap t cm p =>
      t = term x /\ cm = commit x /\
      match p with SNone => True | SData bl _ _ _ _ => bl_ok x bl end
  | _ => False
  end.

Definition ae_out (full : list entry) (x : node) (o : out) : Prop :=
  match o with
  | Send d m => (In d (others x) \/ In d (readonly x)) /\ ae_msg_ok full x m
  | _ => False
  end.

Definition ae_rel (full : list entry) (s s' : S) : Prop :=
  fw (nd s') = fw (nd s) /\ tr_ok (nd s) (nd s') /\
  exists new, outs s' = outs s ++ new /\ Forall (ae_out full (nd s)) new.

Lemma ae_out_fw full x x' o : fw x' = fw x -> tr_ok x x' -> ae_out full x' o -> ae_out full x o.
Proof.
  intros H T. fwinj_n H F. destruct (srv_eq _ _ Fsrv) as (_ & _ & Es & _).
  unfold ae_out, ae_msg_ok. destruct o as [d m| | | |]; auto.
  rewrite Foth, Fro, Fterm, Fcommit.
  destruct m as [| |t cm prev es| |t cm [|bl off len first last]| | |]; auto.
  intros (A & B & C & D). repeat split; auto. eapply bl_ok_tr; eauto.
Qed.

Lemma ae_rel_refl full s : ae_rel full s s.
Proof. split; auto. split; [apply tr_ok_refl|]. exists []. rewrite app_nil_r. auto. Qed.

Lemma ae_rel_trans full a b c : ae_rel full a b -> ae_rel full b c -> ae_rel full a c.
Proof.
  intros (F1 & T1 & n1 & O1 & A1) (F2 & T2 & n2' & O2 & A2).
  assert (Es : stored (sr (nd b)) = stored (sr (nd a))).
  { fwinj_n F1 F. destruct (srv_eq _ _ Fsrv) as (_ & _ & Es & _). exact Es. }
  split; [congruence|]. split; [eapply tr_ok_trans; eauto|].
  exists (n1 ++ n2'). split; [rewrite O2, O1, app_assoc; reflexivity|].
  apply Forall_app. split; auto.
  eapply Forall_impl; [|exact A2]. intros o. apply ae_out_fw; auto.
Qed.

Lemma ae_rel_eq full s s1 s2 : nd s2 = nd s1 -> outs s2 = outs s1 -> ae_rel full s s1 -> ae_rel full s s2.
Proof. intros E1 E2 (F & T & H). split; rewrite ?E1, ?E2; auto. Qed.

Lemma get_entries_incl l f cnt m en : In en (get_entries l f cnt m) -> In en l.
Proof.
  unfold get_entries. destruct f as [f|]; [|intros []]. destruct (f <? first_idx l); [intros []|].
  set (r := skipn _ l).
  assert (Hr : forall x, In x r -> In x l) by (intros x; apply In_skipn_in).
  assert (H1 : forall x, In x (match cnt with Some c0 => firstn (n2 c0) r | None => r end) -> In x l).
  { intros x Hx. destruct cnt; [apply In_firstn_in in Hx|]; auto. }
  destruct m as [m|]; [|apply H1].
  intros H. apply H1. rewrite take_size_firstn in H. apply In_firstn_in in H. exact H.
Qed.

Lemma In_aset_inv {A} k (v : A) l p : In p (aset k v l) -> p = (k, v) \/ In p l.
Proof.
  destruct p as [k' v']. intros H. apply ProofsElectionBase.In_aset in H. destruct H as [[-> ->]|H]; auto.
Qed.

Lemma get_transmission_spec x s :
  let r := get_transmission e x s in
  fw (nd (fst r)) = fw (nd s) /\ tr_ok (nd s) (nd (fst r)) /\ outs (fst r) = outs s /\ exc (fst r) = exc s /\
  match snd r with SNone => True | SData bl _ _ _ _ => bl_ok (nd s) bl end.
Proof.
  cbv zeta. unfold get_transmission.
  destruct (negb (pid (sr (nd s)) =? 0)); [cbn; repeat split; auto; apply tr_ok_refl|].
  set (cur := match aget x (trans (sr (nd s))) with Some t => Some t | None => _ end).
  assert (Hc : forall bl off, cur = Some (bl, off) -> bl_ok (nd s) bl).
  { intros bl off. unfold cur. destruct (aget x (trans (sr (nd s)))) as [[b o]|] eqn:Ea.
    - intros H. injection H as <- <-. right. exists x, o. apply ProofsElectionBase.aget_In. exact Ea.
    - destruct (stored (sr (nd s))) as [b|] eqn:Es; [|discriminate]. intros H. injection H as <- <-. left. exact Es. }
  destruct cur as [[bl off]|]; [|cbn; repeat split; auto; apply tr_ok_refl].
  specialize (Hc bl off eq_refl). cbn [fst snd]. rewrite nd_upd.
  split; [reflexivity|]. split; [|auto].
  intros d b0 o0 Hin. cbn in Hin.
  destruct (N.min (chunk (cf e)) (blob_len bl - off) =? 0).
  - right. exists d, o0. eapply ProofsElectionBase.In_adel; eauto.
  - apply In_aset_inv in Hin as [Hin|Hin]; [injection Hin as -> -> ->; exact Hc|right; eauto].
Qed.

Lemma ae_body_spec full x next s :
  wf1 full -> suffix_of (log (nd s)) full -> Forall smalle (log (nd s)) ->
  (In x (others (nd s)) \/ In x (readonly (nd s))) ->
  ae_rel full s (fst (ae_body e x next s)).
Proof.
  intros W Sx Sm Hx. unfold ae_body.
  pose proof (suffix_first_pos _ _ W Sx) as Hfp.
  destruct (first_idx (log (nd s)) <? next) eqn:E1.
  - apply N.ltb_lt in E1.
    assert (Hgp : get_prev (log (nd s)) next = get_prev full next).
    { unfold get_prev. rewrite (suffix_ge _ _ W Sx) by lia. reflexivity. }
    assert (E1' : 1 < next) by lia.
    pose proof (get_prev_ok full next W E1') as Hp. rewrite <- Hgp in Hp.
    set (prev := get_prev (log (nd s)) next) in *.
    assert (Hsend : forall s1 es, fw (nd s1) = fw (nd s) -> trans (sr (nd s1)) = trans (sr (nd s)) ->
              outs s1 = outs s ->
              (exists k, es = firstn k (skipn (n2 next - 1) full)) -> Forall smalle es ->
              ae_rel full s (send x (AE (term (nd s)) (commit (nd s)) prev es) s1)).
    { intros s1 es F T O (k & Hk) Hsm. split; [rewrite nd_send; auto|].
      split; [rewrite nd_send; apply tr_ok_same; auto|].
      destruct (outs_send x (AE (term (nd s)) (commit (nd s)) prev es) s1) as [Eo|Eo]; rewrite Eo, O.
      - exists []. rewrite app_nil_r. auto.
      - eexists. split; [reflexivity|]. constructor; [|constructor].
        cbn. split; auto. split; auto. split; auto.
        destruct prev as [[pi pt]|]; auto. destruct Hp as (-> & pe & A & B).
        split; [lia|]. split; [eauto|]. split; auto. exists k. rewrite Hk. do 2 f_equal. lia. }
    rewrite (suffix_last_idx _ _ Sx).
    destruct (next <=? last_idx full) eqn:E2.
    + set (es0 := get_entries (log (nd s)) (Some next) None (Some (batch (cf e)))).
      assert (Hin : forall en, In en es0 -> smalle en).
      { intros en Hen. apply get_entries_incl in Hen. rewrite Forall_forall in Sm. auto. }
      assert (Hes : exists k, es0 = firstn k (skipn (n2 next - 1) full)).
      { unfold es0. rewrite (suffix_ge _ _ W Sx) by lia. rewrite ge_batch by (auto; lia).
        eexists. apply take_size_firstn. }
      assert (Hsm : Forall smalle es0) by (apply Forall_forall; auto).
      clearbody es0.
      destruct es0 as [|e1 [|e2 r]] eqn:Ees.
      * cbn [fst]. apply Hsend; auto.
      * assert (Hb : batch (cf e) <=? csz (ecmd e1) = false).
        { specialize (Hin e1 (or_introl eq_refl)). unfold RefineMAbs.small, RefineMAbs.small_cmd in Hin. lia. }
        rewrite Hb. cbn [fst]. apply Hsend; auto.
      * cbn [fst]. apply Hsend; auto.
    + cbn [fst]. apply Hsend; auto. exists 0%nat. reflexivity.
  - destruct (get_transmission_spec x s) as (F & T & O & Ex & Hb). cbv zeta in *.
    destruct (get_transmission e x s) as [s1 td]. cbn [fst snd] in *.
    set (s2 := send x (AESnap (term (nd s)) (commit (nd s)) td) s1).
    assert (A2 : ae_rel full s s2).
    { split; [unfold s2; rewrite nd_send; exact F|]. split; [unfold s2; rewrite nd_send; exact T|].
      destruct (outs_send x (AESnap (term (nd s)) (commit (nd s)) td) s1) as [Eo|Eo]; unfold s2; rewrite Eo, O.
      - exists []. rewrite app_nil_r. auto.
      - eexists. split; [reflexivity|]. constructor; [|constructor]. cbn. repeat split; auto. }
    clearbody s2.
    destruct td as [|bl off len first last]; [exact A2|].
    destruct last; [|exact A2].
    destruct (log (nd s2)) as [|a0 [|a1 r]]; cbn [fst].
    + apply (ae_rel_eq full s s2); auto.
    + apply (ae_rel_eq full s s2); auto.
    + eapply ae_rel_trans; [exact A2|]. split; [reflexivity|]. split; [apply tr_ok_same; reflexivity|].
      exists []. rewrite app_nil_r. auto.
Qed.

Lemma suffix_fw full x x' : fw x' = fw x -> suffix_of (log x) full -> suffix_of (log x') full.
Proof. intros H. fwinj_n H F. rewrite Flog. auto. Qed.

Lemma ae_loop_spec full fuel start x single ser_ s :
  wf1 full -> suffix_of (log (nd s)) full -> Forall smalle (log (nd s)) ->
  (In x (others (nd s)) \/ In x (readonly (nd s))) ->
  ae_rel full s (ae_loop fuel e start x single ser_ s).
Proof.
  revert s single ser_. induction fuel as [|f IH]; intros s single ser_ W Sx Sm Hx; cbn [ae_loop].
  - apply (ae_rel_eq full s s); auto. apply ae_rel_refl.
  - destruct (aget x (next_idx (nd s))) as [next|]; [|apply (ae_rel_eq full s s); auto; apply ae_rel_refl].
    destruct ((next <=? last_idx (log (nd s))) || single || ser_); [|apply ae_rel_refl].
    pose proof (ae_body_spec full x next s W Sx Sm Hx) as A.
    destruct (ae_body e x next s) as [s1 ser'] eqn:Eb. cbn [fst] in A.
    destruct (ok s1); auto.
    assert (A2 : ae_rel full s (delta_read e s1)).
    { apply (ae_rel_eq full s s1); auto using nd_delta_read, outs_delta_read. }
    destruct (period (cf e) <? tnow (delta_read e s1) - start)%Z; auto.
    eapply ae_rel_trans; [exact A2|].
    destruct A2 as [F _]. fwinj_n F F.
    apply IH; auto; try congruence; try (destruct Hx; [left|right]; congruence).
Qed.

Lemma cancel_transmission_spec x s :
  fw (nd (cancel_transmission x s)) = fw (nd s) /\ tr_ok (nd s) (nd (cancel_transmission x s)).
Proof.
  unfold cancel_transmission. rewrite nd_upd. split; [reflexivity|].
  intros d bl off H. cbn in H. right. exists d, off. eapply ProofsElectionBase.In_adel; eauto.
Qed.

Lemma send_ae_spec full s :
  wf1 full -> suffix_of (log (nd s)) full -> Forall smalle (log (nd s)) -> ae_rel full s (send_ae e s).
Proof.
  intros W Sx Sm. unfold send_ae.
  set (s0 := upd _ _).
  assert (A0 : ae_rel full s s0).
  { subst s0. split; [reflexivity|]. split; [apply tr_ok_same; reflexivity|]. exists []. cbn. rewrite app_nil_r. auto. }
  assert (Ht : forall x, In x (targets e (nd s0)) -> In x (others (nd s)) \/ In x (readonly (nd s))).
  { intros x Hx. apply In_targets in Hx. subst s0. exact Hx. }
  generalize dependent (targets e (nd s0)). intros l Ht.
  set (fuel := Datatypes.S _). clearbody fuel.
  set (start := tnow s0). clearbody start.
  clearbody s0. revert s0 A0. induction l as [|x l IH]; intros s0 A0; cbn [fold_left]; auto.
  apply IH; [intros y Hy; apply Ht; right; auto|].
  destruct (ok s0); auto.
  pose proof A0 as [F _]. fwinj_n F F.
  destruct (negb (smem x (connected (nd s0)))).
  - eapply ae_rel_trans; [exact A0|]. destruct (cancel_transmission_spec x s0) as [A B].
    split; auto. split; auto. exists []. cbn. rewrite app_nil_r. auto.
  - eapply ae_rel_trans; [exact A0|].
    apply ae_loop_spec; auto; try congruence; try (destruct (Ht x (or_introl eq_refl)); [left|right]; congruence).
Qed.

(* ---- __onBecomeLeader ---- *)
Lemma bl_fold_spec2 now l n :
  fv_noidx (bl_fold now l n) = fv_noidx n /\ srv (bl_fold now l n) = srv n /\ tr_ok n (bl_fold now l n) /\
  forall f, In f l \/ aget f (match_idx n) = Some 0 -> aget f (match_idx (bl_fold now l n)) = Some 0.
Proof.
  unfold bl_fold. revert n. induction l as [|x l IH]; intros n; cbn [fold_left].
  - split; auto. split; auto. split; [apply tr_ok_refl|]. intros f [[]|H]; auto.
  - match goal with |- context [fold_left ?F l ?N] => set (n1 := N) end.
    destruct (IH n1) as (A & B & T & C).
    split; [rewrite A; reflexivity|]. split; [rewrite B; reflexivity|]. split.
    + intros d bl off H. destruct (T d bl off H) as [H1|(d' & off' & H1)].
      * left. exact H1.
      * right. exists d', off'. subst n1. cbn in H1. eapply ProofsElectionBase.In_adel; eauto.
    + intros f Hf. apply C. subst n1. cbn. rewrite ProofsCommitBase.aget_aset.
      destruct (f =? x) eqn:E; auto. apply N.eqb_neq in E.
      destruct Hf as [[Hf|Hf]|Hf]; auto. congruence.
Qed.

Lemma bl_tail_fw (x x3 : node) mi :
  fv_noidx x3 = fv_noidx (x <| leader := self x |> <| role := LEADER |> <| last_resp := [] |>) ->
  srv x3 = srv x -> mi = match_idx x3 ->
  fw ((log_add (mkEntry (noop_cmd (noop_pk (cf e))) (last_idx (log x3) + 1) (term x3)) x3)
        <| noop_idx := Some (last_idx (log x3) + 1) |>) =
  fw (x <| role := LEADER |> <| match_idx := mi |> <| log := log x ++ [noop_entry e x] |>).
Proof.
  intros A B C. unfold fv_noidx in A. cbn in A. injection A; intros.
  unfold fw, log_add, noop_entry. unfold srv in *. cbn. subst mi. clear A.
  rewrite B.
  repeat match goal with E : _ x3 = _ |- _ => rewrite E; clear E end. reflexivity.
Qed.

Lemma become_leader_spec full s :
  wf1 full -> suffix_of (log (nd s)) full -> Forall smalle (log (nd s)) -> 1 < batch (cf e) ->
  exists mi r new,
    fw (nd (become_leader e s)) =
      fw ((nd s) <| role := LEADER |> <| match_idx := mi |> <| log := log (nd s) ++ [noop_entry e (nd s)] |>) /\
    tr_ok (nd s) (nd (become_leader e s)) /\
    (forall f, In f (others (nd s)) -> aget f mi = Some 0) /\
    outs (become_leader e s) = outs s ++ r ++ new /\
    (forall d m, ~ In (Send d m) r) /\
    Forall (ae_out (full ++ [noop_entry e (nd s)])
                   ((nd s) <| role := LEADER |> <| match_idx := mi |> <| log := log (nd s) ++ [noop_entry e (nd s)] |>))
           new.
Proof.
  intros W Sx Sm Hb. unfold become_leader.
  set (s1 := set_role LEADER (upd (fun n => n <| leader := self n |>) s)).
  assert (R1 : exists r, outs s1 = outs s ++ r /\ (forall d m, ~ In (Send d m) r) /\
                         nd s1 = (nd s) <| leader := self (nd s) |> <| role := LEADER |>).
  { subst s1. unfold set_role. cbn. destruct (role (nd s) =? LEADER).
    - exists []. rewrite app_nil_r. split; [reflexivity|]. split; [intros d m []|reflexivity].
    - eexists. split; [reflexivity|]. split; [intros d m [H|[]]; discriminate|reflexivity]. }
  destruct R1 as (r & O1 & Hr & N1).
  set (s2 := upd (fun n => n <| last_resp := [] |>) s1).
  set (s3 := upd (fun n => fold_left _ (sunion (others n) (readonly n)) n) s2).
  set (s4 := upd _ s3).
  assert (N3 : nd s3 = bl_fold (tnow s2) (sunion (others (nd s2)) (readonly (nd s2))) (nd s2)) by reflexivity.
  destruct (bl_fold_spec2 (tnow s2) (sunion (others (nd s2)) (readonly (nd s2))) (nd s2)) as (A & B & T & C).
  rewrite <- N3 in A, B, T, C.
  assert (E2 : nd s2 = (nd s) <| leader := self (nd s) |> <| role := LEADER |> <| last_resp := [] |>).
  { unfold s2. rewrite nd_upd, N1. reflexivity. }
  set (x4 := (nd s) <| role := LEADER |> <| match_idx := match_idx (nd s3) |>
                    <| log := log (nd s) ++ [noop_entry e (nd s)] |>).
  assert (F4 : fw (nd s4) = fw x4).
  { apply (bl_tail_fw (nd s) (nd s3)); auto.
    - rewrite A, E2. reflexivity.
    - rewrite B, E2. reflexivity. }
  assert (T4 : tr_ok (nd s) (nd s4)).
  { intros d bl off H. unfold s4 in H. rewrite nd_upd in H. cbn in H.
    destruct (T d bl off H) as [H1|(d' & off' & H1)]; rewrite E2 in H1; cbn in H1; [left|right]; eauto. }
  assert (O4 : outs s4 = outs s ++ r) by (subst s4 s3 s2; cbn; auto).
  assert (C4 : forall f, In f (others (nd s)) -> aget f (match_idx (nd s3)) = Some 0).
  { intros f Hf. apply C. left. apply In_sunion. left.
    unfold s2. rewrite nd_upd, N1. exact Hf. }
  set (mi := match_idx (nd s3)) in *. clearbody mi.
  clearbody s4. clear A B C T N3 E2. clear s3 s2. clear O1 N1. clear s1.
  set (full4 := full ++ [noop_entry e (nd s)]).
  assert (W4 : wf1 full4).
  { apply wf1_app; auto. unfold noop_entry. cbn. rewrite (suffix_last_idx _ _ Sx). reflexivity. }
  fwinj_n F4 G.
  assert (Sx4 : suffix_of (log (nd s4)) full4).
  { rewrite Glog. apply suffix_app. exact Sx. }
  assert (Sm4 : Forall smalle (log (nd s4))).
  { rewrite Glog. apply Forall_app. split; [exact Sm|]. constructor; [|constructor]. unfold small, small_cmd. cbn.
    split; [exact Hb|discriminate]. }
  assert (Es4 : stored (sr (nd s4)) = stored (sr (nd s))).
  { destruct (srv_eq _ _ Gsrv) as (_ & _ & Es & _). exact Es. }
  assert (Hfin : forall s5, ae_rel full4 s4 s5 ->
            exists mi r0 new,
              fw (nd s5) = fw ((nd s) <| role := LEADER |> <| match_idx := mi |>
                                 <| log := log (nd s) ++ [noop_entry e (nd s)] |>) /\
              tr_ok (nd s) (nd s5) /\
              (forall f, In f (others (nd s)) -> aget f mi = Some 0) /\
              outs s5 = outs s ++ r0 ++ new /\ (forall d m, ~ In (Send d m) r0) /\
              Forall (ae_out full4 ((nd s) <| role := LEADER |> <| match_idx := mi |>
                                 <| log := log (nd s) ++ [noop_entry e (nd s)] |>)) new).
  { intros s5 (F5 & T5 & new & O5 & A5). exists mi, r, new.
    split; [rewrite F5; exact F4|]. split; [eapply tr_ok_trans; eauto|]. split; [exact C4|].
    split; [rewrite O5, O4, app_assoc; reflexivity|]. split; auto.
    eapply Forall_impl; [|exact A5]. intros o Ho.
    (* from the node at s4 to the explicit node x4: same fw, and the blobs come from (nd s) *)
    unfold ae_out, ae_msg_ok in *. destruct o as [d m| | | |]; auto.
    rewrite Goth, Gro, Gterm, Gcommit in Ho. cbn [others readonly term commit set].
    destruct m as [| |t cm prev es| |t cm [|bl off len first last]| | |]; auto.
    destruct Ho as (A & B & C & D). repeat split; auto.
    destruct D as [D|(d' & off' & D)].
    - left. cbn. rewrite <- Es4. exact D.
    - destruct (T4 d' bl off' D) as [D1|(d2 & o2 & D1)]; [left|right]; cbn; eauto. }
  rewrite andthen_eq.
  destruct (use_batch (cf e)).
  - destruct (ok s4) eqn:Eo.
    + apply Hfin. apply send_ae_spec; auto.
    + apply Hfin. apply ae_rel_refl.
  - pose proof (send_ae_spec full4 s4 W4 Sx4 Sm4) as A1.
    destruct (ok (send_ae e s4)).
    + apply Hfin. eapply ae_rel_trans; [exact A1|].
      destruct A1 as (F & _). fwinj_n F H.
      apply send_ae_spec; auto; congruence.
    + apply Hfin. exact A1.
Qed.

End Spec.
