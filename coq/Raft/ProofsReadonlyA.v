(* C18, node level: self is stable; a node without own address stays a silent follower. *)
From Coq Require Import ZArith NArith List Bool Lia ZifyBool ZifyN.
From RecordUpdate Require Import RecordSet.
From PSO Require Import Raft.Types Raft.Node Raft.Net Raft.ProofsReadonlyFrames.
Import ListNotations.
Import RecordSetNotations.
Open Scope N_scope.

(* weak step relation for the phases that do touch the election core *)
Definition frs (s s' : S) : Prop :=
  self (nd s') = self (nd s) /\ (tnow s <= tnow s')%Z /\ exists ex, outs s' = outs s ++ ex.

Lemma frs_refl : forall s, frs s s.
Proof. intros; split; [reflexivity|]. split; [lia|]. exists []; rewrite app_nil_r; reflexivity. Qed.

Lemma frs_trans : forall a b c, frs a b -> frs b c -> frs a c.
Proof.
  intros a b c (S1 & T1 & e1 & O1) (S2 & T2 & e2 & O2). split; [congruence|]. split; [lia|].
  exists (e1 ++ e2). rewrite O2, O1, app_assoc; reflexivity.
Qed.

Lemma fr_frs : forall m s s', fr m s s' -> frs s s'.
Proof.
  intros m s s' (ex & O & B & C & M & T & L). destruct (core_fields _ _ C) as (Hs & _).
  split; [exact Hs|]. split; [exact T|]. eauto.
Qed.

Lemma frs_upd : forall f s, (forall n, self (f n) = self n) -> frs s (upd f s).
Proof. intros f s H; unfold upd; cbn; split; [apply H|]. split; [apply Z.le_refl|]. exists []; rewrite app_nil_r; reflexivity. Qed.

Lemma frs_emit : forall o s, frs s (emit o s).
Proof. intros; unfold emit; cbn; split; [reflexivity|]. split; [apply Z.le_refl|]. exists [o]; reflexivity. Qed.

Lemma frs_set_role : forall r s, frs s (set_role r s).
Proof.
  intros; unfold set_role; cbv zeta. destruct (role (nd s) =? r).
  - apply frs_upd; reflexivity.
  - eapply frs_trans; [| apply frs_emit]. apply frs_upd; reflexivity.
Qed.

Lemma frs_fold : forall {A} (f : S -> A -> S) (l : list A) s,
  (forall s x, frs s (f s x)) -> frs s (fold_left f l s).
Proof.
  intros A f l; induction l as [|a l IH]; intros s H; cbn; [apply frs_refl|].
  eapply frs_trans; [apply H | apply IH; exact H].
Qed.

Lemma frs_send : forall d m s, frs s (send d m s).
Proof. intros; unfold send. destruct (smem d _); [apply frs_emit | apply frs_refl]. Qed.

Ltac frs0 :=
  lazymatch goal with
  | |- frs _ (set_role _ _) => apply frs_set_role
  | |- frs _ (upd _ _) => apply frs_upd; intros; reflexivity
  | |- frs _ (emit _ _) => apply frs_emit
  | |- frs _ (send _ _ _) => apply frs_send
  | |- _ => first [ apply (fr_frs true); fr0 | apply (fr_frs false); fr0 ]
  end.
Lemma frs_if : forall (b : bool) s x y, frs s x -> frs s y -> frs s (if b then x else y).
Proof. intros [] s x y; auto. Qed.
Ltac frs1 := first [ apply frs_refl | frs0 ].
Ltac frschain := repeat (first [ frs1 | eapply frs_trans; [| frs0] | apply frs_if ]).

Lemma frs_become_leader : forall e s, period_ok e -> frs s (become_leader e s).
Proof.
  intros e s Hp. unfold become_leader; cbv zeta.
  match goal with |- frs s (andthen ?f ?g ?X) => assert (frs s X) as H0 end.
  { eapply frs_trans; [|frs0].
    eapply frs_trans; [| apply frs_upd; intros n].
    - frschain.
    - cbv beta. generalize (sunion (others n) (readonly n)). intros l; revert n.
      induction l as [|a l IH]; intros n; cbn; [reflexivity|]. rewrite IH; reflexivity. }
  unfold andthen.
  match goal with |- frs s (if ok ?Y then _ else _) => assert (frs s Y) as H1 end.
  { destruct (use_batch (cf e)); [exact H0|].
    eapply frs_trans; [exact H0 | eapply fr_frs; apply (fr_send_ae true); exact Hp]. }
  destruct (ok _); [|exact H1].
  eapply frs_trans; [exact H1 | eapply fr_frs; apply (fr_send_ae true); exact Hp].
Qed.

Lemma frs_tick_election : forall e s, period_ok e -> frs s (tick_election e s).
Proof.
  intros e s Hp; unfold tick_election; cbv zeta.
  destruct (self (nd s)) as [me|]; [|frs1].
  destruct (_ && _); [|frs1].
  match goal with |- frs s (if majority _ (nd ?X) then _ else _) => assert (frs s X) as H0 end.
  { eapply frs_trans; [| eapply fr_frs; apply (fr_on_leader_changed true)].
    eapply frs_trans; [| apply frs_fold; intros s0 x; apply frs_send].
    frschain. }
  destruct (majority _ _); [|exact H0].
  eapply frs_trans; [exact H0 | apply frs_become_leader; exact Hp].
Qed.

(* commit_loop only ever raises *)
Lemma commit_loop_fst : forall fuel ci next s,
  fst (commit_loop fuel ci next s) = s \/ fst (commit_loop fuel ci next s) = raise EXC_KEY s.
Proof.
  induction fuel as [|f IH]; intros; cbn [commit_loop]; cbv zeta; [left; reflexivity|].
  destruct (ci <? last_idx (log (nd s))); [|left; reflexivity].
  destruct (existsb _ _); [right; reflexivity|].
  destruct (negb _); [left; reflexivity|].
  destruct (get_entries _ _ _ _) as [|en r]; [apply IH|].
  destruct (eterm en =? term (nd s)); apply IH.
Qed.

Lemma fr_commit_loop : forall m fuel ci next s, fr m s (fst (commit_loop fuel ci next s)).
Proof.
  intros. destruct (commit_loop_fst fuel ci next s) as [-> | ->]; fr1.
Qed.

Lemma frs_tick_leader : forall e s, frs s (tick_leader e s).
Proof.
  intros; unfold tick_leader; cbv zeta.
  destruct (role (nd s) =? LEADER); [|frs1].
  destruct (commit_loop _ _ _ s) as [s1 nc] eqn:E.
  assert (frs s s1) as H1.
  { change s1 with (fst (s1, nc)); rewrite <- E; eapply fr_frs; apply (fr_commit_loop true). }
  destruct (ok s1); [|exact H1].
  match goal with |- context [existsb ?f (others (nd ?X))] => assert (frs s X) as H2 end.
  { eapply frs_trans; [|frs0]. destruct (commit (nd s1) =? nc); [exact H1|].
    eapply frs_trans; [exact H1 | frs0]. }
  destruct (existsb _ _); [eapply frs_trans; [exact H2 | eapply fr_frs; apply (fr_raise true)]|].
  destruct (negb _); [|exact H2].
  eapply frs_trans; [exact H2|]. frschain.
Qed.

Lemma frs_tick_load : forall e s, frs s (tick_load e s).
Proof.
  intros; unfold tick_load. eapply frs_trans; [|frs0].
  destruct (_ && _); [eapply fr_frs; apply fr_load_dump | frs1].
Qed.

Lemma frs_andthen : forall f g s, frs s (f s) -> (forall s', frs s' (g s')) -> frs s ((f ;; g) s).
Proof.
  intros f g s Hf Hg; unfold andthen. destruct (ok (f s)); [|exact Hf].
  eapply frs_trans; [exact Hf | apply Hg].
Qed.

Lemma frs_on_tick : forall e n, period_ok e -> frs (start_S e n) (on_tick e n).
Proof.
  intros e n Hp; unfold on_tick; cbv zeta.
  apply frs_andthen; [apply frs_tick_load|]. intros s1.
  apply frs_andthen; [eapply fr_frs; apply (fr_tick_timer true)|]. intros s2.
  apply frs_andthen; [apply frs_tick_election; exact Hp|]. intros s3.
  apply frs_andthen; [apply frs_tick_leader|]. intros s4.
  destruct (apply_entries e s4) as [s5 need] eqn:E.
  assert (frs s4 s5) as H5.
  { change s5 with (fst (s5, need)); rewrite <- E; eapply fr_frs; apply (fr_apply_entries true). }
  destruct (ok s5); [|exact H5].
  eapply frs_trans; [exact H5|].
  apply frs_andthen; [eapply fr_frs; apply (fr_tick_send true); exact Hp|]. intros s6.
  apply frs_andthen; [eapply fr_frs; apply (fr_tick_ready true)|]. intros s7.
  apply frs_andthen; [eapply fr_frs; apply (fr_check_commands true); exact Hp|]. intros s8.
  eapply fr_frs; apply (fr_try_compact true).
Qed.

Lemma fr_tick_load : forall e s, fr false s (tick_load e s).
Proof.
  intros; unfold tick_load. eapply fr_trans with (s2 := if need_load (nd s) && file_dump (cf e) then load_dump e false s else s).
  - destruct (_ && _); [apply fr_load_dump | apply fr_refl].
  - generalize (if need_load (nd s) && file_dump (cf e) then load_dump e false s else s). intros s0.
    exists []. unfold upd; cbn. rewrite app_nil_r.
    split; [reflexivity|]. split; [constructor|]. split; [reflexivity|]. split; [discriminate|].
    split; [lia|]. split; [intros x v H; left; exact H | auto].
Qed.

(* a phase that is the identity when need_load is already false and there is no dump file *)
Lemma fr_tick_load_noload : forall e s, need_load (nd s) = false -> fr true s (tick_load e s).
Proof.
  intros e s Hn; unfold tick_load. rewrite Hn; cbn.
  exists []. unfold upd; cbn. rewrite app_nil_r.
  split; [reflexivity|]. split; [constructor|]. split; [reflexivity|]. split; [reflexivity|].
  split; [lia|]. split; [intros x v H; left; exact H | auto].
Qed.

Lemma fr_andthen : forall m f g s, fr m s (f s) -> (forall s', fr m s' (g s')) -> fr m s ((f ;; g) s).
Proof.
  intros m f g s Hf Hg; unfold andthen. destruct (ok (f s)); [|exact Hf].
  eapply fr_trans; [exact Hf | apply Hg].
Qed.

(* ---- on_append_entries, split into the header (term / role / leader) and the rest ---- *)
Definition ae_head (e : env) (from : nid) (t c : N) (s : S) : S :=
  let s := upd (fun n => n <| deadline := (tnow s + gen_timeout e)%Z |>) s in
  let s := if opt_eqb (leader (nd s)) (Some from) then s else on_leader_changed s in
  let s := upd (fun n => n <| leader := Some from |>) s in
  let s := if term (nd s) <? t then upd (fun n => n <| term := t |> <| voted := None |>) s else s in
  let s := set_role FOLLOWER s in
  upd (fun n => n <| leader_commit := Some c |>) s.

Definition ae_tail (e : env) (from : nid) (m : msg) (c : N) (s : S) : S :=
  match m with
  | AE _ _ prev es => ae_regular e from c prev es s
  | AEPiece _ _ prev lab off len en =>
    if lab =? 1 then
      send_next_idx from None false false (upd (fun n => n <| recv_t := [(en, off, len)] |>) s)
    else
      match recv_t (nd s) with
      | [] => raise EXC_TYPE s
      | _ =>
        let s := upd (fun n => n <| recv_t := recv_t n ++ [(en, off, len)] |>) s in
        if lab =? 2 then send_next_idx from None false false s
        else
          match assemble_entry (recv_t (nd s)) with
          | None => raise EXC_DECODE s
          | Some en' => ae_regular e from c prev [en'] (upd (fun n => n <| recv_t := [] |>) s)
          end
      end
  | AESnap _ _ p =>
    let (s, done) := set_transmission p s in
    if done && load_dump_ok s then
      let s := load_dump e true s in
      let v := applied (nd s) in
      let s := send_next_idx from (Some (v + 1)) false true s in
      ae_commit c (Some v) s
    else if done then ae_commit c None (load_dump e true s)
    else ae_commit c None s
  | _ => s
  end.

Lemma on_append_entries_eq : forall e from m t c s,
  on_append_entries e from m t c s =
  if t <? term (nd s) then s else ae_tail e from m c (ae_head e from t c s).
Proof. intros; unfold on_append_entries, ae_tail, ae_head. destruct (t <? term (nd s)); reflexivity. Qed.

Lemma fr_ae_regular : forall e from c prev new s, fr false s (ae_regular e from c prev new s).
Proof.
  intros; unfold ae_regular; cbv zeta.
  destruct (get_entries _ _ _ _) as [|p0 ptail]; [fr1|].
  destruct prev as [[pidx pterm]|]; [|fr1].
  destruct (negb _); [fr1|].
  destruct (dyn (cf e)).
  - eapply fr_trans; [|fr0]. eapply fr_trans; [|fr0]. eapply fr_trans; [|fr0]. eapply fr_trans; [|fr0].
    destruct (skipn _ ptail); [fr1|]. destruct (skipn _ new); [fr1|]. frchain.
  - eapply fr_trans; [|fr0]. eapply fr_trans; [|fr0]. eapply fr_trans; [|fr0].
    destruct (skipn _ ptail); [fr1|]. destruct (skipn _ new); [fr1|]. frchain.
Qed.
#[export] Hint Resolve fr_ae_regular : frdb.

Lemma fr_ae_tail : forall e from m c s, fr false s (ae_tail e from m c s).
Proof.
  intros; unfold ae_tail. destruct m; try fr1.
  - destruct (lab =? 1); [frchain|].
    destruct (recv_t (nd s)) eqn:E; [fr1|]. cbv zeta.
    destruct (lab =? 2); [frchain|].
    destruct (assemble_entry _); [|frchain]. frchain.
  - destruct (set_transmission p s) as [s1 done] eqn:E.
    assert (fr false s s1) as H1 by (change s1 with (fst (s1, done)); rewrite <- E; fr0).
    destruct (done && load_dump_ok s1); cbv zeta; [|destruct done]; (eapply fr_trans; [exact H1|]); frchain.
Qed.

Lemma frs_ae_head : forall e from t c s, frs s (ae_head e from t c s).
Proof. intros; unfold ae_head; cbv zeta. frschain. Qed.

Lemma frs_on_message : forall e from m n, period_ok e -> frs (start_S e n) (on_message e from m n).
Proof.
  intros e from m n Hp. unfold on_message; cbv zeta.
  assert (forall t c s, frs s (on_append_entries e from m t c s)) as HAE.
  { intros. rewrite on_append_entries_eq. destruct (t <? _); [frs1|].
    eapply frs_trans; [apply frs_ae_head | eapply fr_frs; apply fr_ae_tail]. }
  destruct m as [t lli llt|t|? ? ? ?|? ? ? ? ? ? ?|? ? ?|cm req|req okr a b|t next reset success]; try apply HAE.
  - (* RequestVote *)
    destruct (self (nd (start_S e n))); [|frs1].
    match goal with |- frs ?s0 (if (role (nd ?X) =? _) || _ then _ else _) => assert (frs s0 X) as H0 end.
    { destruct (_ <? t); frschain. }
    destruct (_ || _); [|exact H0]. destruct (_ <=? t); [|exact H0].
    destruct (llt <? _); [exact H0|]. destruct (_ && _); [exact H0|].
    destruct (voted _); [exact H0|]. eapply frs_trans; [exact H0|]. frschain.
  - (* ResponseVote *)
    destruct (_ && _); [|frs1].
    destruct (majority _ _); [|frs0].
    eapply frs_trans; [|apply frs_become_leader; exact Hp]. frs0.
  - (* ApplyCmd *) eapply fr_frs; apply (fr_submit true).
  - (* ApplyResp *)
    destruct (aget req _); [|frs1].
    destruct (negb okr); [frschain|]. destruct (a <=? _); frschain.
  - (* NextIdx *)
    destruct (_ && _); [|frs1].
    match goal with |- frs ?s0 (if ok ?X then _ else _) => assert (frs s0 X) as H0 end.
    { destruct success.
      - destruct reset; (destruct (aget from _); [destruct (_ <? _)|]); frschain.
      - destruct reset; frschain. }
    destruct (ok _); [|exact H0]. eapply frs_trans; [exact H0|frs0].
Qed.

(* ================= C18: a node without own address ================= *)
Definition ro_inv (n : node) : Prop :=
  self n = None /\ role n = FOLLOWER /\ voted n = None /\ votes n = 0.

Lemma ro_inv_core : forall a b, core a = core b -> ro_inv b -> ro_inv a.
Proof.
  intros a b H (H1 & H2 & H3 & H4). destruct (core_fields _ _ H) as (A1 & A2 & A3 & A4 & A5 & A6).
  unfold ro_inv; rewrite A1, A2, A4, A5; auto.
Qed.

Definition ae_term (m : msg) : option N :=
  match m with
  | AE t _ _ _ => Some t | AEPiece t _ _ _ _ _ _ => Some t | AESnap t _ _ => Some t | _ => None
  end.

Lemma fr_term : forall m s s', fr m s s' -> term (nd s') = term (nd s).
Proof. intros m s s' H. destruct (core_fields _ _ (fr_core _ _ _ H)) as (_ & _ & A & _); exact A. Qed.

Lemma fr_ro : forall m s s', fr m s s' -> ro_inv (nd s) -> ro_inv (nd s').
Proof. intros m s s' H; apply ro_inv_core; eapply fr_core; eauto. Qed.

Lemma fr_start_benign : forall m e n s', fr m (start_S e n) s' -> Forall benign (outs s').
Proof. intros m e n s' H. destruct (fr_outs _ _ _ H) as (ex & O & B). rewrite O; exact B. Qed.

Lemma fr_andthen_P : forall (P : S -> Prop) m f g s,
  fr m s (f s) -> P (f s) -> (forall s', P s' -> fr m s' (g s')) -> fr m s ((f ;; g) s).
Proof.
  intros P m f g s Hf HP Hg; unfold andthen. destruct (ok (f s)); [|exact Hf].
  eapply fr_trans; [exact Hf | apply Hg; exact HP].
Qed.

Lemma tick_election_ro : forall e s, self (nd s) = None -> tick_election e s = s.
Proof. intros e s H; unfold tick_election; cbv zeta; rewrite H; reflexivity. Qed.

Lemma tick_leader_nonleader : forall e s, role (nd s) <> LEADER -> tick_leader e s = s.
Proof.
  intros e s H; unfold tick_leader; cbv zeta.
  destruct (role (nd s) =? LEADER) eqn:E; [apply N.eqb_eq in E; contradiction | reflexivity].
Qed.

Lemma ro_on_tick_fr : forall e n, period_ok e -> ro_inv n -> fr false (start_S e n) (on_tick e n).
Proof.
  intros e n Hp Hro. unfold on_tick; cbv zeta.
  set (P := fun s : S => ro_inv (nd s)).
  assert (forall s s', fr false s s' -> P s -> P s') as HP by (intros s s' H; apply fr_ro with (m := false); exact H).
  apply fr_andthen_P with (P := P); [apply fr_tick_load | eapply HP; [apply fr_tick_load | exact Hro] |].
  intros s1 P1.
  apply fr_andthen_P with (P := P); [apply fr_any; apply fr_tick_timer | eapply HP; [apply fr_any; apply fr_tick_timer | exact P1] |].
  intros s2 P2.
  assert (tick_election e s2 = s2) as E2 by (apply tick_election_ro; apply P2).
  apply fr_andthen_P with (P := P); [rewrite E2; apply fr_refl | rewrite E2; exact P2 |].
  intros s3 P3.
  assert (tick_leader e s3 = s3) as E3.
  { apply tick_leader_nonleader. destruct P3 as (_ & R & _). rewrite R. discriminate. }
  apply fr_andthen_P with (P := P); [rewrite E3; apply fr_refl | rewrite E3; exact P3 |].
  intros s4 P4.
  destruct (apply_entries e s4) as [s5 need] eqn:E.
  assert (fr false s4 s5) as H5.
  { change s5 with (fst (s5, need)); rewrite <- E; apply fr_apply_entries. }
  destruct (ok s5); [|exact H5].
  eapply fr_trans; [exact H5|].
  apply fr_andthen; [apply fr_tick_send; exact Hp|]. intros s6.
  apply fr_andthen; [apply fr_tick_ready|]. intros s7.
  apply fr_andthen; [apply fr_check_commands; exact Hp|]. intros s8.
  apply fr_try_compact.
Qed.

Theorem ro_on_tick : forall e n, period_ok e -> ro_inv n ->
  ro_inv (nd (on_tick e n)) /\ Forall benign (outs (on_tick e n)) /\ term (nd (on_tick e n)) = term n.
Proof.
  intros e n Hp Hro. pose proof (ro_on_tick_fr e n Hp Hro) as H.
  split; [eapply fr_ro; [exact H | exact Hro]|].
  split; [eapply fr_start_benign; exact H | apply (fr_term _ _ _ H)].
Qed.

(* the header of the append_entries branch on a silent follower *)
Lemma ro_ae_head : forall e from t c s, ro_inv (nd s) ->
  ro_inv (nd (ae_head e from t c s)) /\
  (exists ex, outs (ae_head e from t c s) = outs s ++ ex /\ Forall benign ex) /\
  term (nd (ae_head e from t c s)) = N.max t (term (nd s)).
Proof.
  intros e from t c s Hro. unfold ae_head; cbv zeta.
  set (s1 := upd (fun n => n <| deadline := (tnow s + gen_timeout e)%Z |>) s).
  set (s2 := if opt_eqb (leader (nd s1)) (Some from) then s1 else on_leader_changed s1).
  assert (fr true s s2) as H2.
  { eapply fr_trans with (s2 := s1); [unfold s1; fr0|]. unfold s2. destruct (opt_eqb _ _); fr1. }
  pose proof (fr_ro _ _ _ H2 Hro) as (R1 & R2 & R3 & R4).
  pose proof (fr_term _ _ _ H2) as HT.
  destruct (fr_outs _ _ _ H2) as (ex & O & B).
  set (s3 := upd (fun n => n <| leader := Some from |>) s2).
  assert (term (nd s3) = term (nd s)) as HT3 by exact HT.
  destruct (term (nd s3) <? t) eqn:E.
  - unfold set_role; cbn. rewrite R2; cbn.
    split; [unfold ro_inv; cbn; auto|]. split; [exists ex; split; [exact O | exact B]|].
    rewrite HT3 in E. apply N.ltb_lt in E. lia.
  - unfold set_role; cbn. rewrite R2; cbn.
    split; [unfold ro_inv; cbn; auto|]. split; [exists ex; split; [exact O | exact B]|].
    rewrite HT3 in E. apply N.ltb_ge in E. rewrite HT. lia.
Qed.

Theorem ro_on_message : forall e from m n, period_ok e -> ro_inv n ->
  let s := on_message e from m n in
  ro_inv (nd s) /\ Forall benign (outs s) /\
  (term (nd s) = term n \/ exists t, ae_term m = Some t /\ term n < t /\ term (nd s) = t).
Proof.
  intros e from m n Hp Hro; cbv zeta.
  assert (forall s', fr false (start_S e n) s' ->
            ro_inv (nd s') /\ Forall benign (outs s') /\
            (term (nd s') = term n \/ exists t, ae_term m = Some t /\ term n < t /\ term (nd s') = t)) as HF.
  { intros s' H. split; [eapply fr_ro; [exact H | exact Hro]|].
    split; [eapply fr_start_benign; exact H | left; apply (fr_term _ _ _ H)]. }
  assert (forall t c, ae_term m = Some t ->
            let s := on_append_entries e from m t c (start_S e n) in
            ro_inv (nd s) /\ Forall benign (outs s) /\
            (term (nd s) = term n \/ exists t, ae_term m = Some t /\ term n < t /\ term (nd s) = t)) as HAE.
  { intros t c Hm; cbv zeta. rewrite on_append_entries_eq.
    destruct (t <? term (nd (start_S e n))) eqn:E; [apply HF; apply fr_refl|].
    destruct (ro_ae_head e from t c (start_S e n) Hro) as (A1 & (ex & O & B) & A3).
    pose proof (fr_ae_tail e from m c (ae_head e from t c (start_S e n))) as HT.
    split; [eapply fr_ro; [exact HT | exact A1]|].
    split.
    - destruct (fr_outs _ _ _ HT) as (ex2 & O2 & B2). rewrite O2, O. cbn. apply Forall_app; auto.
    - rewrite (fr_term _ _ _ HT), A3. cbn in E |- *. apply N.ltb_ge in E.
      destruct (N.eq_dec t (term n)) as [->|Hne]; [left; lia|].
      right; exists t. split; [exact Hm|]. split; lia. }
  unfold on_message; cbv zeta.
  destruct Hro as (R1 & R2 & R3 & R4).
  destruct m as [t lli llt|t|t c p es|t c p lab off len en|t c p|cm req|req okr a b|t next reset success].
  - change (self (nd (start_S e n))) with (self n). rewrite R1. apply HF; apply fr_refl.
  - match goal with |- context [if ?c then _ else _] =>
      replace c with false by (cbn; rewrite R2; reflexivity) end.
    apply HF; apply fr_refl.
  - apply HAE; reflexivity.
  - apply HAE; reflexivity.
  - apply HAE; reflexivity.
  - apply HF. apply fr_submit.
  - apply HF. destruct (aget req _); [|fr1].
    destruct (negb okr); [frchain|]. destruct (a <=? _); frchain.
  - match goal with |- context [if ?c then _ else _] =>
      replace c with false by (cbn; rewrite R2; reflexivity) end.
    apply HF; apply fr_refl.
Qed.
