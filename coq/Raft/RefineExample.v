(* Tier C, part 12: non-vacuity.  A concrete run of the core fragment (two voters, leader election,
   three client commands replicated and committed on both nodes) satisfies every hypothesis of the
   Tier C theorems; the theorems are instantiated on it. *)
From Coq Require Import ZArith NArith List Bool Lia.
From RecordUpdate Require Import RecordSet.
From PSO Require Import Raft.Types Raft.Node Raft.Net Raft.Obs.
From PSO Require Import Raft.ProofsElectionGhost Raft.RefineAbs Raft.RefineMain Raft.RefineFinal.
Import ListNotations.
Import RecordSetNotations.
Open Scope N_scope.

(* period tmin tspan fallback batch chunk use_batch dyn wait_leader min_entries min_time qsize noop_pk
   file_dump file_journal: compaction thresholds far away, memory-only nodes *)
Definition tc_conf : conf := mkConf 10 40 20 100 1000 100 true false true 1000 100000 10 5 false false.
Definition tc_V : list nid := [1; 2].
Definition tc_cmd (k : N) : cmd := mkCmd 0 k 0 1 10.

Definition tcT (z : Z) (n : N) : event := ETick n z 0 30 [] 9.
Definition tcD (z : Z) (a b : N) : event := EDeliver a b z 0 [].

(* election of node 1 *)
Definition tc_trace1 : list event :=
  [ERestart 1 [2] 0 0 1; ERestart 2 [1] 0 0 1; EConnect 1 2; EConnect 2 1;
   tcT 50 1; tcD 51 1 2; tcD 52 2 1; tcD 53 1 2; tcD 54 2 1].
(* three commands (one forwarded by the follower), replication, commit, the followers learn it *)
Definition tc_trace2 : list event :=
  [ESubmit 1 (tc_cmd 7) 11; ESubmit 2 (tc_cmd 8) 12; ESubmit 2 (tc_cmd 9) 13;
   tcT 60 2; tcD 61 2 1; tcD 61 2 1; tcT 65 1; tcD 66 1 2; tcD 66 1 2; tcD 67 1 2; tcD 67 2 1;
   tcT 76 1; tcD 77 1 2; tcD 78 2 1; tcT 87 1; tcD 88 1 2; tcT 89 2].
(* a read-only node joins and is brought up to date by the leader *)
Definition tc_trace3 : list event :=
  [ERestart 100 [] 90 0 1; EConnect 1 100; EConnect 100 1;
   tcT 100 1; tcD 101 1 100; tcD 102 100 1; tcT 111 1; tcD 112 1 100; tcD 113 100 1; tcT 114 100;
   tcT 122 1; tcD 123 1 100; tcT 124 100].
Definition tc_trace : list event := tc_trace1 ++ tc_trace2 ++ tc_trace3.

Example tc_in_fragment : core_frag tc_conf tc_V tc_trace.
Proof. repeat split; vm_compute; reflexivity. Qed.

Example tc_runs :
  exists g1 g2 n1 n2 m1,
    run_trace tc_conf ginit tc_trace1 = Some g1 /\ run_trace tc_conf g1 (tc_trace2 ++ tc_trace3) = Some g2 /\
    run_trace tc_conf ginit tc_trace = Some g2 /\
    aget 1 (nodes g1) = Some m1 /\ role m1 = LEADER /\ commit m1 = 1 /\
    aget 1 (nodes g2) = Some n1 /\ aget 2 (nodes g2) = Some n2 /\
    role n1 = LEADER /\ role n2 = FOLLOWER /\ term n1 = 1 /\ term n2 = 1 /\
    commit n1 = 5 /\ commit n2 = 5 /\
    map (fun e => (ca (ecmd e), eidx e, eterm e)) (log n1) = [(0, 1, 0); (0, 2, 1); (7, 3, 1); (8, 4, 1); (9, 5, 1)] /\
    log n2 = log n1.
Proof.
  do 5 eexists.
  split; [vm_compute; reflexivity|]. split; [vm_compute; reflexivity|]. split; [vm_compute; reflexivity|].
  split; [vm_compute; reflexivity|]. split; [vm_compute; reflexivity|]. split; [vm_compute; reflexivity|].
  split; [vm_compute; reflexivity|]. split; [vm_compute; reflexivity|].
  vm_compute. repeat split; reflexivity.
Qed.

(* the theorems apply: e.g. the two nodes agree on every committed index *)
Example tc_sms_instance :
  forall g n1 n2 i, run_trace tc_conf ginit tc_trace = Some g ->
    aget 1 (nodes g) = Some n1 -> aget 2 (nodes g) = Some n2 -> 1 <= i -> i <= commit n1 -> i <= commit n2 ->
    exists en, nth_error (log n1) (N.to_nat i - 1) = Some en /\ nth_error (log n2) (N.to_nat i - 1) = Some en /\ eidx en = i.
Proof.
  intros g n1 n2 i Hr H1 H2.
  apply (L1_state_machine_safety_core tc_conf tc_V tc_trace g 1 2 n1 n2 i tc_in_fragment Hr H1 H2); reflexivity.
Qed.

(* the read-only node has caught up (it is outside the abstract cluster: no theorem speaks about it) *)
Example tc_ro_node :
  exists g r, run_trace tc_conf ginit tc_trace = Some g /\ aget 100 (nodes g) = Some r /\
    self r = None /\ role r = FOLLOWER /\ N.of_nat (length (log r)) = 5 /\ commit r = 5.
Proof. do 2 eexists. split; [vm_compute; reflexivity|]. split; [vm_compute; reflexivity|]. vm_compute. repeat split; reflexivity. Qed.
