(* Tier C, part 8: the append_entries handler of a voter.  The follower's log surgery
   (matched_prefix / delete_from / append) is L0's [merge]: nothing is cut unless an entry
   conflicts; the reply carries the term and is sent after the entries are in the log; the
   commit index becomes max commit (min leaderCommit (prev + |entries|)). *)
From Coq Require Import ZArith NArith List Bool Lia ZifyBool Arith PeanoNat.
From RecordUpdate Require Import RecordSet.
From PSO Require Import Raft.Types Raft.Node Raft.Net Raft.ProofsCommitBase.
From PSO Require Import Raft.ProofsElectionBase Raft.RefineAbs Raft.RefineK Raft.RefineSpecA Raft.RefineSim
  Raft.RefineTickA Raft.RefineTickB.
From PSO Require Abstract.Model Abstract.Lib Abstract.Kstep Abstract.Safety1_WF.
Import ListNotations.
Import RecordSetNotations.
Open Scope N_scope.
#[local] Arguments firstn : simpl nomatch.
#[local] Arguments skipn : simpl nomatch.

(* ------------------------------------------------------------------------------------------ *)
(* the follower's merge, on L1 lists                                                          *)

Definition truncating (rest add : list entry) : bool :=
  match rest, add with _ :: _, _ :: _ => true | _, _ => false end.

Definition l1merge (old new : list entry) : list entry :=
  let m := matched_prefix old new in
  if truncating (skipn m old) (skipn m new) then firstn m old ++ skipn m new else old ++ skipn m new.

Lemma merge_abs pk old new : M.merge (absL pk old) (absL pk new) = absL pk (l1merge old new).
Proof.
  revert old. induction new as [|n new IH]; intros old.
  - unfold l1merge. destruct old as [|o old]; cbn; [reflexivity|].
    rewrite app_nil_r. reflexivity.
  - destruct old as [|o old]; [reflexivity|].
    cbn [absL map M.merge]. fold (absL pk old). fold (absL pk new).
    unfold l1merge. cbn [matched_prefix]. cbn [absE M.eterm].
    destruct (eterm o =? eterm n) eqn:E.
    + apply N.eqb_eq in E. rewrite E, Nat.eqb_refl. rewrite IH. unfold l1merge.
      cbn [skipn firstn].
      destruct (truncating (skipn (matched_prefix old new) old) (skipn (matched_prefix old new) new)); reflexivity.
    + apply N.eqb_neq in E. destruct (Nat.eqb_spec (n2 (eterm o)) (n2 (eterm n))) as [Ex|Ex]; [lia|].
      reflexivity.
Qed.

Lemma l1merge_small (P : entry -> Prop) old new : Forall P old -> Forall P new -> Forall P (l1merge old new).
Proof.
  intros Ho Hn. unfold l1merge. destruct (truncating _ _); apply Forall_app; split;
    auto using Forall_firstn, Forall_skipn.
Qed.

Lemma last_entry_nth (l : list entry) le : last_entry l = Some le -> nth_error l (length l - 1) = Some le.
Proof.
  intros H. destruct l as [|a l]; [discriminate|].
  assert (Hne : a :: l <> []) by discriminate.
  pose proof (last_entry_last (a :: l) a Hne) as E. rewrite H in E.
  assert (E' : le = last (a :: l) a) by congruence. rewrite E'.
  apply nth_error_last_some. exact Hne.
Qed.

(* ------------------------------------------------------------------------------------------ *)
(* L1: the prelude and the regular branch                                                     *)

Lemma ae_pre_spec e from t cm s :
  fv (nd (ae_pre e from t cm s)) =
    fv ((nd s) <| term := if term (nd s) <? t then t else term (nd s) |>
               <| voted := if term (nd s) <? t then None else voted (nd s) |>
               <| role := FOLLOWER |>) /\
  grow nosend s (ae_pre e from t cm s).
Proof.
  unfold ae_pre.
  set (s1 := upd (fun n => n <| deadline := (tnow s + gen_timeout e)%Z |>) s).
  set (s2 := if opt_eqb (leader (nd s1)) (Some from) then s1 else on_leader_changed s1).
  assert (F2 : fv (nd s2) = fv (nd s) /\ grow nosend s s2).
  { unfold s2. destruct (opt_eqb _ _).
    - split; [reflexivity|unfold s1; apply grow_upd].
    - split; [rewrite olc_nd; reflexivity|].
      apply (grow_trans nosend s s1); [unfold s1; apply grow_upd|]. apply olc_grow. auto. }
  destruct F2 as [F2 G2]. clearbody s2. clear s1.
  set (s3 := upd (fun n => n <| leader := Some from |>) s2).
  assert (T3 : term (nd s3) = term (nd s)).
  { fvinj_n F2 F. exact Fterm. }
  rewrite T3.
  assert (G3 : grow nosend s s3).
  { apply (grow_trans nosend s s2); [exact G2|]. unfold s3. apply grow_upd. }
  split.
  - fvinj_n F2 F.
    destruct (term (nd s) <? t); rewrite nd_upd, nd_set_role, ?nd_upd; unfold s3; rewrite nd_upd;
      unfold fv; cbn;
      rewrite ?Fself, ?Foth, ?Frole, ?Fterm, ?Fvoted, ?Fvotes, ?Flog, ?Fcommit, ?Fmatch, ?Fsr, ?Fqueue,
        ?Fapplied, ?Freplay, ?Fro; reflexivity.
  - apply (grow_trans nosend s s3); [exact G3|].
    eapply grow_trans; [|apply grow_upd].
    destruct (term (nd s) <? t).
    + eapply grow_trans; [apply grow_upd|]. apply grow_set_role. auto.
    + apply grow_set_role. auto.
Qed.

Definition is_fail_reply (from : nid) (o : out) : Prop :=
  nosend o \/ exists t nx r, o = Send from (NextIdx t nx r false).

Lemma grow_send_next_idx_fail from nx r s : grow (is_fail_reply from) s (send_next_idx from nx r false s).
Proof. unfold send_next_idx. apply grow_send. right. eauto. Qed.

Section Regular.
Variable e : env.
Hypothesis Hd : dyn (cf e) = false.

Lemma ae_regular_fail_none from cm new s :
  nd (ae_regular e from cm None new s) = nd s /\ grow (is_fail_reply from) s (ae_regular e from cm None new s).
Proof.
  unfold ae_regular. cbn [option_map]. unfold get_entries at 1.
  split; [apply nd_send_next_idx|apply grow_send_next_idx_fail].
Qed.

Lemma ae_regular_fail_empty from cm pidx pterm new s :
  get_entries (log (nd s)) (Some pidx) None None = [] ->
  nd (ae_regular e from cm (Some (pidx, pterm)) new s) = nd s /\
  grow (is_fail_reply from) s (ae_regular e from cm (Some (pidx, pterm)) new s).
Proof.
  intros H. unfold ae_regular. cbn [option_map fst]. rewrite H.
  split; [apply nd_send_next_idx|apply grow_send_next_idx_fail].
Qed.

Lemma ae_regular_fail_term from cm pidx pterm new s p0 ptail :
  get_entries (log (nd s)) (Some pidx) None None = p0 :: ptail -> eterm p0 <> pterm ->
  nd (ae_regular e from cm (Some (pidx, pterm)) new s) = nd s /\
  grow (is_fail_reply from) s (ae_regular e from cm (Some (pidx, pterm)) new s).
Proof.
  intros H Ht. unfold ae_regular. cbn [option_map fst]. rewrite H.
  apply N.eqb_neq in Ht. rewrite Ht. cbn [negb].
  split; [apply nd_send_next_idx|apply grow_send_next_idx_fail].
Qed.

Lemma ae_tail_spec from cm nx add sA :
  let s' := ae_commit cm (Some (nx - 1))
              (send_next_idx from (Some nx) false true (upd (fun n => n <| log := log n ++ add |>) sA)) in
  fv (nd s') = fv ((nd sA) <| log := log (nd sA) ++ add |>
                           <| commit := if commit (nd sA) <? cm
                                        then N.max (commit (nd sA)) (N.min cm (nx - 1)) else commit (nd sA) |>) /\
  grow (fun o => o = Send from (NextIdx (term (nd sA)) nx false true)) sA s'.
Proof.
  cbv zeta. unfold ae_commit, send_next_idx.
  set (sB := upd (fun n => n <| log := log n ++ add |>) sA).
  set (sC := send from (NextIdx (term (nd sB)) nx false true) sB).
  assert (NC : nd sC = nd sB) by (unfold sC; apply nd_send).
  assert (GC : grow (fun o => o = Send from (NextIdx (term (nd sA)) nx false true)) sA sC).
  { apply (grow_trans _ sA sB); [unfold sB; apply grow_upd|]. unfold sC. apply grow_send. reflexivity. }
  rewrite NC. change (commit (nd sB)) with (commit (nd sA)).
  destruct (commit (nd sA) <? cm).
  - split; [rewrite !nd_upd, NC; reflexivity|].
    eapply grow_trans; [exact GC|]. eapply grow_trans; apply grow_upd.
  - split; [rewrite nd_upd, NC; reflexivity|].
    eapply grow_trans; [exact GC|]. apply grow_upd.
Qed.

Lemma ae_regular_succ from cm pidx pterm new s p0 ptail :
  get_entries (log (nd s)) (Some pidx) None None = p0 :: ptail -> eterm p0 = pterm ->
  let m := matched_prefix ptail new in
  let tr := truncating (skipn m ptail) (skipn m new) in
  let lg := (if tr then delete_from (log (nd s)) (pidx + 1 + N.of_nat m) else log (nd s)) ++ skipn m new in
  let nx := match last_entry new with Some le => eidx le + 1 | None => pidx + 1 end in
  let cmt := if commit (nd s) <? cm then N.max (commit (nd s)) (N.min cm (nx - 1)) else commit (nd s) in
  let rp := if tr then N.min (replay_idx (nd s)) (pidx + N.of_nat m) else replay_idx (nd s) in
  let s' := ae_regular e from cm (Some (pidx, pterm)) new s in
  fv (nd s') = fv ((nd s) <| log := lg |> <| commit := cmt |> <| replay_idx := rp |>) /\
  grow (fun o => o = Send from (NextIdx (term (nd s)) nx false true)) s s'.
Proof.
  intros Hp Ht. cbv zeta.
  set (m := matched_prefix ptail new).
  set (nx := match last_entry new with Some le => eidx le + 1 | None => pidx + 1 end).
  set (sT := upd (fun n => n <| log := delete_from (log n) (pidx + 1 + N.of_nat m) |>
                             <| replay_idx := N.min (replay_idx n) (pidx + N.of_nat m) |>) s).
  assert (E : ae_regular e from cm (Some (pidx, pterm)) new s =
              ae_commit cm (Some (nx - 1))
                (send_next_idx from (Some nx) false true
                   (upd (fun n => n <| log := log n ++ skipn m new |>)
                        (if truncating (skipn m ptail) (skipn m new) then sT else s)))).
  { unfold ae_regular. cbn [option_map fst]. rewrite Hp, Ht, N.eqb_refl. cbn [negb]. rewrite Hd.
    fold m. destruct (skipn m ptail), (skipn m new); reflexivity. }
  rewrite E. clear E.
  destruct (truncating (skipn m ptail) (skipn m new)).
  - destruct (ae_tail_spec from cm nx (skipn m new) sT) as [F G]. cbv zeta in F, G.
    split; [rewrite F; reflexivity|].
    apply (grow_trans _ s sT); [unfold sT; apply grow_upd|exact G].
  - destruct (ae_tail_spec from cm nx (skipn m new) s) as [F G]. cbv zeta in F, G.
    split; [rewrite F; reflexivity|exact G].
Qed.

End Regular.

(* ------------------------------------------------------------------------------------------ *)
(* the simulation                                                                             *)

Section Msg.
Variable c : conf.
Variable V : list nid.
Hypothesis NDV : NoDup V.
Hypothesis VRO : forall v, In v V -> v < RO_BASE.
Hypothesis Hb1 : 1 < batch c.
Hypothesis Hdyn : dyn c = false.
Hypothesis Hfd : file_dump c = false.
Variable e : env.
Hypothesis Hc : cf e = c.

Notation V' := (absV V).
Notation Rn := (Rn c V).
Notation Rmsg := (Rmsg c).
Notation Ro := (Ro c).
Notation Hn := (Hn c).
Notation ksn := (ksn V).
Notation LS := (LS c V).
Notation pk := (pk c).

(* adopt the sender's term when it is higher; the role is settled by the following step *)
Lemma sim_ae_adopt n S s t :
  LS n s S -> term (nd S) <= t ->
  exists s1, ksn (n2 n) s s1 /\ KS.kreachable V' s1 /\
    M.term (M.nodes s1 (n2 n)) = n2 t /\
    M.voted (M.nodes s1 (n2 n)) = option_map n2 (if term (nd S) <? t then None else voted (nd S)) /\
    M.log (M.nodes s1 (n2 n)) = M.log (M.nodes s (n2 n)) /\
    M.commit (M.nodes s1 (n2 n)) = M.commit (M.nodes s (n2 n)) /\
    M.matchIdx (M.nodes s1 (n2 n)) = M.matchIdx (M.nodes s (n2 n)) /\
    M.net s1 = M.net s /\ M.grants s1 = M.grants s.
Proof.
  intros L Ht.
  pose proof (LS_n _ _ _ _ _ L) as RN. pose proof (LS_j _ _ _ _ _ L) as Hj.
  destruct RN as [A1 A2 A3 A4 A5 A6 A7 A8].
  destruct (term (nd S) <? t) eqn:E.
  - apply N.ltb_lt in E.
    assert (Hlt : (M.term (M.nodes s (n2 n)) < n2 t)%nat) by (rewrite A1; lia).
    destruct (t_adopt_ok V' (n2 n) (n2 t) s Hj Hlt) as [K E1].
    exists (t_adopt (n2 n) (n2 t) s). split; [apply ksn_one; auto|].
    split; [eapply KS.kreach_step; [apply (LS_reach _ _ _ _ _ L)|exact K]|].
    unfold t_adopt, M.set_node, M.bump. cbn [M.nodes M.net M.grants]. rewrite upd_eq. cbn. auto 10.
  - apply N.ltb_ge in E. exists s. split; [constructor|]. split; [apply (LS_reach _ _ _ _ _ L)|].
    rewrite A1, A2. repeat split; auto. f_equal. lia.
Qed.

Lemma sim_ae_fail n a (S S' : Node.S) s t :
  LS n s S -> some_ae t a s -> a <> n -> term (nd S) <= t ->
  fv (nd S') = fv ((nd S) <| term := if term (nd S) <? t then t else term (nd S) |>
                           <| voted := if term (nd S) <? t then None else voted (nd S) |>
                           <| role := FOLLOWER |>) ->
  grow (is_fail_reply a) S S' ->
  exists s', ksn (n2 n) s s' /\ LS n s' S'.
Proof.
  intros L (pi & pt & es & lc & Hae) Hne Ht F G.
  destruct (sim_ae_adopt n S s t L Ht) as (s1 & K1 & R1 & B1 & B2 & B3 & B4 & B5 & B6 & B7).
  pose proof (LS_n _ _ _ _ _ L) as RN. pose proof (LS_j _ _ _ _ _ L) as Hj.
  destruct RN as [A1 A2 A3 A4 A5 A6 A7 A8].
  assert (Hin : In (M.AppendEntries (n2 t) (n2 a) pi pt es lc) (M.net s1)) by (rewrite B6; exact Hae).
  assert (Hnj : n2 n <> n2 a) by lia.
  destruct (t_ae_fail_ok V' (n2 n) (n2 t) (n2 a) pi pt es lc s1 Hj Hin Hnj B1) as [K2 E2].
  set (s2 := M.ae_fail (n2 n) (n2 t) s1) in *.
  assert (K : ksn (n2 n) s s2) by (eapply ksn_trans; [exact K1|apply ksn_one; auto]).
  exists s2. split; [exact K|].
  fvinj_n F F.
  apply (LS_ksn c V n s s2 S S' K L).
  - constructor; unfold s2, M.ae_fail; cbn [M.nodes M.grants]; rewrite ?upd_eq;
      cbn [M.term M.voted M.rl M.log M.commit M.votesFrom M.matchIdx].
    + rewrite Fterm, B1. destruct (term (nd S) <? t) eqn:E; [reflexivity|]. apply N.ltb_ge in E. f_equal. lia.
    + rewrite Fvoted, B2. reflexivity.
    + rewrite Frole. reflexivity.
    + rewrite Flog, B3. exact A4.
    + rewrite Fcommit, B4. exact A5.
    + intros Hx. rewrite Frole in Hx. compute in Hx. discriminate.
    + intros f m Hf Hnf Hg. rewrite Fmatch in Hg. rewrite B5. eauto.
    + intros Hv. rewrite Fvoted in Hv. rewrite B7. rewrite Fterm.
      destruct (term (nd S) <? t); [discriminate|]. auto.
  - eapply Hn_hv; [|apply (LS_h _ _ _ _ _ L)]. unfold hv. congruence.
  - rewrite Fself. apply (LS_self _ _ _ _ _ L).
  - rewrite Foth. apply (LS_others _ _ _ _ _ L).
  - apply (grow_Ro c (is_fail_reply a)); [|exact G].
    intros o [Ho|(t' & nx & r & ->)]; [apply nosend_okout; auto|]. cbn. intros Hx. discriminate.
Qed.

Lemma es_last_idx s t a pidx pterm es cm :
  KS.kreachable V' s ->
  In (M.AppendEntries (n2 t) (n2 a) (n2 pidx) (n2 pterm) (absL pk es) (n2 cm)) (M.net s) ->
  match last_entry es with Some le => eidx le + 1 | None => pidx + 1 end - 1 = pidx + N.of_nat (length es).
Proof.
  intros HR Hin. pose proof (S1.inv1_kreachable V' s HR) as I1.
  pose proof (S1.I1_msg _ I1 _ _ _ _ _ _ Hin) as Hes.
  destruct (last_entry es) as [le|] eqn:El.
  - apply last_entry_nth in El.
    specialize (Hes (length es - 1)%nat (absE pk le)). rewrite absL_nth, El in Hes.
    destruct (Hes eq_refl) as [H1 _]. cbn in H1.
    assert (length es <> 0)%nat by (destruct es; [discriminate|cbn; lia]). lia.
  - destruct es as [|x es]; [cbn; lia|]. rewrite (last_entry_last (x :: es) x) in El by discriminate. discriminate.
Qed.

Lemma sim_ae_ok n a (S S' : Node.S) s t cm pidx pterm es p0 lg cmt rp nx :
  LS n s S -> a <> n -> a < RO_BASE -> term (nd S) <= t ->
  In (M.AppendEntries (n2 t) (n2 a) (n2 pidx) (n2 pterm) (absL pk es) (n2 cm)) (M.net s) ->
  Forall (small c) es -> 1 <= pidx ->
  nth_error (log (nd S)) (n2 pidx - 1) = Some p0 -> eterm p0 = pterm ->
  lg = firstn (n2 pidx) (log (nd S)) ++ l1merge (skipn (n2 pidx) (log (nd S))) es ->
  cmt = (if commit (nd S) <? cm then N.max (commit (nd S)) (N.min cm (nx - 1)) else commit (nd S)) ->
  nx - 1 = pidx + N.of_nat (length es) ->
  rp <= replay_idx (nd S) ->
  fv (nd S') = fv ((nd S) <| term := if term (nd S) <? t then t else term (nd S) |>
                           <| voted := if term (nd S) <? t then None else voted (nd S) |>
                           <| role := FOLLOWER |> <| log := lg |> <| commit := cmt |> <| replay_idx := rp |>) ->
  grow (fun o => nosend o \/ o = Send a (NextIdx t nx false true)) S S' ->
  exists s', ksn (n2 n) s s' /\ LS n s' S'.
Proof.
  intros L Hne Ha Ht Hae Hsm Hp1 Hp0 Hpt Elg Ecmt Enx Hrp F G.
  destruct (sim_ae_adopt n S s t L Ht) as (s1 & K1 & R1 & B1 & B2 & B3 & B4 & B5 & B6 & B7).
  pose proof (LS_n _ _ _ _ _ L) as RN. pose proof (LS_j _ _ _ _ _ L) as Hj.
  destruct RN as [A1 A2 A3 A4 A5 A6 A7 A8].
  assert (Hpi : n2 pidx = Sn (n2 pidx - 1)) by lia.
  assert (Hin : In (M.AppendEntries (n2 t) (n2 a) (Sn (n2 pidx - 1)) (n2 pterm) (absL pk es) (n2 cm)) (M.net s1)).
  { rewrite B6, <- Hpi. exact Hae. }
  assert (Hnj : n2 n <> n2 a) by lia.
  assert (Hpe : nth_error (M.log (M.nodes s1 (n2 n))) (n2 pidx - 1) = Some (absE pk p0)).
  { rewrite B3, A4, absL_nth, Hp0. reflexivity. }
  assert (Hpte : M.eterm (absE pk p0) = n2 pterm) by (cbn; rewrite Hpt; reflexivity).
  destruct (t_ae_ok_ok V' (n2 n) (n2 t) (n2 a) (n2 pidx - 1) (n2 pterm) (absL pk es) (n2 cm) (absE pk p0) s1
              Hj Hin Hnj B1 Hpe Hpte) as [K2 E2].
  set (s2 := M.ae_ok (n2 n) (n2 t) (Sn (n2 pidx - 1)) (absL pk es) (n2 cm) s1) in *.
  assert (K : ksn (n2 n) s s2) by (eapply ksn_trans; [exact K1|apply ksn_one; auto]).
  exists s2. split; [exact K|].
  fvinj_n F F.
  apply (LS_ksn c V n s s2 S S' K L).
  - constructor; unfold s2, M.ae_ok; cbn [M.nodes M.grants]; rewrite ?upd_eq;
      cbn [M.term M.voted M.rl M.log M.commit M.votesFrom M.matchIdx].
    + rewrite Fterm, B1. destruct (term (nd S) <? t) eqn:E; [reflexivity|]. apply N.ltb_ge in E. f_equal. lia.
    + rewrite Fvoted, B2. reflexivity.
    + rewrite Frole. reflexivity.
    + rewrite Flog, Elg, B3, A4, <- Hpi. rewrite absL_app, absL_firstn. f_equal.
      rewrite <- absL_skipn. apply merge_abs.
    + rewrite Fcommit, Ecmt, B4, A5. rewrite absL_length, <- Hpi.
      destruct (commit (nd S) <? cm) eqn:E; [apply N.ltb_lt in E|apply N.ltb_ge in E]; lia.
    + intros Hx. rewrite Frole in Hx. compute in Hx. discriminate.
    + intros f m Hf Hnf Hg. rewrite Fmatch in Hg. rewrite B5. eauto.
    + intros Hv. rewrite Fvoted in Hv. rewrite B7. rewrite Fterm.
      destruct (term (nd S) <? t); [discriminate|]. auto.
  - destruct (LS_h _ _ _ _ _ L) as [C1 C2 C3 C4 C5 C6 C7 C8]. constructor; try congruence.
    + rewrite Flog, Elg. apply Forall_app. split; [apply Forall_firstn; auto|].
      apply l1merge_small; auto. apply Forall_skipn; auto.
    + rewrite Freplay, Fapplied. lia.
    + rewrite Fapplied, Fcommit, Ecmt. destruct (commit (nd S) <? cm); lia.
  - rewrite Fself. apply (LS_self _ _ _ _ _ L).
  - rewrite Foth. apply (LS_others _ _ _ _ _ L).
  - apply (grow_Ro c (fun o => nosend o \/ o = Send a (NextIdx t nx false true))); [|exact G].
    intros o [Ho| ->]; [apply nosend_okout; auto|]. cbn. intros _ _.
    unfold s2, M.ae_ok. cbn [M.net]. left. rewrite absL_length. f_equal. lia.
Qed.

Lemma sim_msg_ae n a x s t cm prev es :
  LS n s (start_S e x) -> Rmsg a n (AE t cm prev es) s ->
  exists s', ksn (n2 n) s s' /\ LS n s' (on_message e a (AE t cm prev es) x).
Proof.
  intros L Hm. unfold on_message. set (S0 := start_S e x) in *.
  rewrite on_append_entries_eq.
  destruct (t <? term (nd S0)) eqn:Et; [exists s; split; [constructor|exact L]|].
  apply N.ltb_ge in Et.
  destruct (ae_pre_spec e a t cm S0) as [F1 G1].
  set (S1 := ae_pre e a t cm S0) in *. clearbody S1.
  pose proof (LS_wf _ _ _ _ _ L) as W.
  assert (Hd : dyn (cf e) = false) by (rewrite Hc; exact Hdyn).
  assert (Hlog1 : log (nd S1) = log (nd S0)) by (fvinj_n F1 F; exact Flog).
  cbn [ae_body_of].
  (* failing branches *)
  assert (Hfail : forall S', nd S' = nd S1 -> grow (is_fail_reply a) S1 S' -> some_ae t a s -> a <> n ->
                  exists s', ksn (n2 n) s s' /\ LS n s' S').
  { intros S' En G Hs Hne. apply (sim_ae_fail n a S0 S' s t); auto.
    - rewrite En. exact F1.
    - eapply grow_trans; [|exact G]. eapply grow_mono; [|exact G1]. intros o Ho. left. exact Ho. }
  destruct prev as [[pidx pterm]|].
  2:{ destruct Hm as (Ha & Hne & Hs).
      destruct (ae_regular_fail_none e a cm es S1) as [En G]. apply Hfail; auto. }
  destruct Hm as (Ha & Hne & Hsm & Hin).
  assert (Hs : some_ae t a s) by (unfold some_ae; eauto).
  destruct (N.eq_dec pidx 0) as [->|Hp0].
  { destruct (ae_regular_fail_empty e a cm 0 pterm es S1) as [En G]; [rewrite Hlog1; apply ge_zero; auto|].
    apply Hfail; auto. }
  assert (Hp1 : 1 <= pidx) by lia.
  assert (Hge : get_entries (log (nd S1)) (Some pidx) None None = skipn (n2 pidx - 1) (log (nd S0))).
  { rewrite Hlog1. apply ge_from; auto. }
  destruct (nth_error (log (nd S0)) (n2 pidx - 1)) as [p0|] eqn:Ep.
  2:{ destruct (ae_regular_fail_empty e a cm pidx pterm es S1) as [En G].
      - rewrite Hge. apply skipn_all2. apply nth_error_None. exact Ep.
      - apply Hfail; auto. }
  rewrite (skipn_nth_cons _ _ _ Ep) in Hge. replace (Sn (n2 pidx - 1)) with (n2 pidx) in Hge by lia.
  destruct (N.eq_dec (eterm p0) pterm) as [Hpt|Hpt].
  2:{ destruct (ae_regular_fail_term e a cm pidx pterm es S1 p0 _ Hge Hpt) as [En G]. apply Hfail; auto. }
  (* the accepting branch *)
  destruct (ae_regular_succ e Hd a cm pidx pterm es S1 p0 _ Hge Hpt) as [F2 G2]. cbv zeta in F2, G2.
  set (S2 := ae_regular e a cm (Some (pidx, pterm)) es S1) in *. clearbody S2.
  set (ptail := skipn (n2 pidx) (log (nd S0))) in *.
  set (m := matched_prefix ptail es) in *.
  set (nx := match last_entry es with Some le => eidx le + 1 | None => pidx + 1 end) in *.
  set (tr := truncating (skipn m ptail) (skipn m es)) in *.
  fvinj_n F1 P.
  set (lg := firstn (n2 pidx) (log (nd S0)) ++ l1merge ptail es).
  set (cmt := if commit (nd S0) <? cm then N.max (commit (nd S0)) (N.min cm (nx - 1)) else commit (nd S0)).
  set (rp := if tr then N.min (replay_idx (nd S0)) (pidx + N.of_nat m) else replay_idx (nd S0)).
  assert (Elog : (if tr then delete_from (log (nd S1)) (pidx + 1 + N.of_nat m) else log (nd S1)) ++ skipn m es = lg).
  { rewrite Plog. unfold lg, l1merge. fold m. fold tr. destruct tr.
    - unfold delete_from. change (log x) with (log (nd S0)). rewrite (wf1_first_idx _ W).
      destruct (pidx + 1 + N.of_nat m <? 1) eqn:E; [lia|].
      replace (n2 (pidx + 1 + N.of_nat m - 1)) with (n2 pidx + m)%nat by lia.
      rewrite ML.firstn_add. fold ptail. rewrite app_assoc. reflexivity.
    - unfold ptail. rewrite app_assoc, firstn_skipn. reflexivity. }
  assert (F3 : fv (nd S2) =
               fv ((nd S0) <| term := if term (nd S0) <? t then t else term (nd S0) |>
                           <| voted := if term (nd S0) <? t then None else voted (nd S0) |>
                           <| role := FOLLOWER |> <| log := lg |> <| commit := cmt |> <| replay_idx := rp |>)).
  { rewrite F2. apply fv_intro;
      [exact Pself|exact Poth|exact Prole|exact Pterm|exact Pvoted|exact Pvotes| | |exact Pmatch|exact Psr
      |exact Pqueue|exact Papplied| |exact Pro].
    - exact Elog.
    - unfold cmt. rewrite Pcommit. reflexivity.
    - unfold rp. rewrite Preplay. reflexivity. }
  assert (Hnx : nx - 1 = pidx + N.of_nat (length es)).
  { apply (es_last_idx s t a pidx pterm es cm); auto. apply (LS_reach _ _ _ _ _ L). }
  assert (Hrp : rp <= replay_idx (nd S0)) by (unfold rp; destruct tr; lia).
  assert (G3 : grow (fun o => nosend o \/ o = Send a (NextIdx t nx false true)) S0 S2).
  { eapply grow_trans; [eapply grow_mono; [|exact G1]; intros o Ho; left; exact Ho|].
    eapply grow_mono; [|exact G2]. intros o ->. right. rewrite Pterm.
    change (term (nd S0)) with (term x) in Et.
    destruct (term x <? t) eqn:E; [reflexivity|]. apply N.ltb_ge in E. f_equal. f_equal. lia. }
  exact (sim_ae_ok n a S0 S2 s t cm pidx pterm es p0 lg cmt rp nx L Hne Ha Et Hin Hsm Hp1 Ep Hpt
           eq_refl eq_refl Hnx Hrp F3 G3).
Qed.

(* AESnap without data (the only kind in the fragment) *)
Lemma sim_msg_aesnap n a x s t cm p :
  LS n s (start_S e x) -> Rmsg a n (AESnap t cm p) s ->
  exists s', ksn (n2 n) s s' /\ LS n s' (on_message e a (AESnap t cm p) x).
Proof.
  intros L (-> & Ha & Hne & Hs). unfold on_message. set (S0 := start_S e x) in *.
  rewrite on_append_entries_eq.
  destruct (t <? term (nd S0)) eqn:Et; [exists s; split; [constructor|exact L]|].
  apply N.ltb_ge in Et.
  destruct (ae_pre_spec e a t cm S0) as [F1 G1].
  set (S1 := ae_pre e a t cm S0) in *. clearbody S1.
  cbn [ae_body_of set_transmission andb]. unfold ae_commit.
  apply (sim_ae_fail n a S0 _ s t); auto.
  eapply grow_trans; [|apply grow_upd]. eapply grow_mono; [|exact G1]. intros o Ho. left. exact Ho.
Qed.

End Msg.
