(* C04_log_wf: the log's indices increase by exactly 1 (and the log is never empty), with the
   facts about first_idx / last_idx / get_entries that follow; preserved by every handler when the
   delivered messages are well formed, and every message a well-formed node sends is well formed. *)
From Coq Require Import ZArith NArith List Bool Lia.
From RecordUpdate Require Import RecordSet.
From PSO Require Import Raft.Types Raft.Node Raft.Net Raft.Obs Raft.ProofsCommitBase Raft.ProofsCommit
  Raft.ProofsMembership.
Import ListNotations.
Import RecordSetNotations.
Open Scope N_scope.

(* ------------------------------------------------------------------------------------------ *)
(* consecutive indices                                                                        *)

Fixpoint consec (l : list entry) : Prop :=
  match l with
  | [] => True
  | e :: r => match r with [] => True | e' :: _ => eidx e' = eidx e + 1 end /\ consec r
  end.

Definition log_wf (l : list entry) : Prop := l <> [] /\ consec l.

Lemma consec_tail e r : consec (e :: r) -> consec r.
Proof. intros [_ H]. exact H. Qed.

Lemma last_entry_app l e : last_entry (l ++ [e]) = Some e.
Proof.
  induction l as [|x l IH]; [reflexivity|]. cbn [app last_entry].
  destruct (l ++ [e]) eqn:E; [destruct l; discriminate|]. exact IH.
Qed.

Lemma last_idx_app l e : last_idx (l ++ [e]) = eidx e.
Proof. unfold last_idx. now rewrite last_entry_app. Qed.

Lemma last_entry_cons e r : r <> [] -> last_entry (e :: r) = last_entry r.
Proof. destruct r; [contradiction|reflexivity]. Qed.

Lemma last_idx_cons e r : r <> [] -> last_idx (e :: r) = last_idx r.
Proof. intros H. unfold last_idx. now rewrite last_entry_cons. Qed.

(* position k holds index first_idx + k *)
Lemma consec_nth l k d :
  consec l -> (k < length l)%nat -> eidx (nth k l d) = first_idx l + N.of_nat k.
Proof.
  revert k. induction l as [|e r IH]; intros k Hc Hk; [cbn in Hk; lia|].
  destruct k as [|k]; [cbn; lia|]. cbn [nth length first_idx] in *.
  destruct Hc as [H1 Hr]. destruct r as [|e' r']; [cbn in Hk; lia|].
  rewrite (IH k Hr) by (cbn in *; lia). cbn [first_idx]. lia.
Qed.

Lemma consec_last_idx l :
  consec l -> l <> [] -> last_idx l = first_idx l + N.of_nat (length l) - 1.
Proof.
  induction l as [|e r IH]; intros Hc Hne; [contradiction|].
  destruct r as [|e' r'].
  - cbn. lia.
  - rewrite last_idx_cons by discriminate. destruct Hc as [H1 Hr].
    rewrite IH by (auto; discriminate). cbn [first_idx length] in *. lia.
Qed.

Lemma consec_bounds l en :
  consec l -> In en l -> first_idx l <= eidx en <= last_idx l.
Proof.
  intros Hc Hin. apply (In_nth l en en) in Hin. destruct Hin as (k & Hk & Hnth).
  pose proof (consec_nth l k en Hc Hk) as H. rewrite Hnth in H.
  assert (Hne : l <> []) by (destruct l; [cbn in Hk; lia|discriminate]).
  rewrite (consec_last_idx l Hc Hne). lia.
Qed.

Lemma consec_inj l a b : consec l -> In a l -> In b l -> eidx a = eidx b -> a = b.
Proof.
  intros Hc Ha Hb He.
  apply (In_nth l a a) in Ha. destruct Ha as (ka & Hka & Hna).
  apply (In_nth l b a) in Hb. destruct Hb as (kb & Hkb & Hnb).
  pose proof (consec_nth l ka a Hc Hka) as H1. pose proof (consec_nth l kb a Hc Hkb) as H2.
  rewrite Hna in H1. rewrite Hnb in H2. assert (ka = kb) by lia. subst. congruence.
Qed.

Lemma consec_skipn k l : consec l -> consec (skipn k l).
Proof.
  revert l. induction k as [|k IH]; intros l H; [exact H|].
  destruct l as [|e r]; [exact I|]. cbn [skipn]. apply IH. exact (consec_tail e r H).
Qed.

Lemma consec_firstn k l : consec l -> consec (firstn k l).
Proof.
  revert l. induction k as [|k IH]; intros l H; [exact I|].
  destruct l as [|e r]; [exact I|]. cbn [firstn]. destruct H as [H1 Hr]. split; [|apply IH; exact Hr].
  destruct k; [exact I|]. destruct r as [|e' r']; [exact I|]. cbn [firstn]. exact H1.
Qed.

Lemma first_idx_skipn k l :
  consec l -> (k < length l)%nat -> first_idx (skipn k l) = first_idx l + N.of_nat k.
Proof.
  intros Hc Hk. rewrite <- (consec_nth l k (mkEntry (noop_cmd 0) 0 0) Hc Hk).
  clear Hc. revert l Hk. induction k as [|k IH]; intros l Hk; destruct l as [|e r]; cbn in *; try lia.
  apply IH. lia.
Qed.

Lemma consec_app a b :
  consec a -> consec b -> (a <> [] -> b <> [] -> first_idx b = last_idx a + 1) -> consec (a ++ b).
Proof.
  induction a as [|e r IH]; intros Ha Hb Hj; [exact Hb|].
  cbn [app]. destruct Ha as [H1 Hr]. split.
  - destruct r as [|e' r']; cbn [app].
    + destruct b as [|eb b']; [exact I|]. specialize (Hj ltac:(discriminate) ltac:(discriminate)). cbn in Hj. exact Hj.
    + exact H1.
  - apply IH; [exact Hr|exact Hb|]. intros Hne Hbne. rewrite Hj by (auto; discriminate).
    now rewrite last_idx_cons.
Qed.

Lemma consec_app_inv a b : consec (a ++ b) -> consec a /\ consec b.
Proof.
  induction a as [|e r IH]; intros H; [split; [exact I|exact H]|].
  cbn [app] in H. destruct H as [H1 Hr]. destruct (IH Hr) as [Ha Hb]. split; [|exact Hb].
  split; [|exact Ha]. destruct r; [exact I|exact H1].
Qed.

(* ------------------------------------------------------------------------------------------ *)
(* get_entries on a well-formed log                                                           *)

Definition in_range (f : N) (c : option N) (en : entry) : bool :=
  (f <=? eidx en) && match c with Some c => eidx en <? f + c | None => true end.

Lemma filter_all {A} (p : A -> bool) l : (forall x, In x l -> p x = true) -> filter p l = l.
Proof.
  induction l as [|x l IH]; intros H; [reflexivity|]. cbn. rewrite (H x (or_introl eq_refl)).
  f_equal. apply IH. intros y Hy. apply H. now right.
Qed.

Lemma filter_none {A} (p : A -> bool) l : (forall x, In x l -> p x = false) -> filter p l = [].
Proof.
  induction l as [|x l IH]; intros H; [reflexivity|]. cbn. rewrite (H x (or_introl eq_refl)).
  apply IH. intros y Hy. apply H. now right.
Qed.

Lemma consec_ge_first l en : consec l -> In en l -> first_idx l <= eidx en.
Proof. intros Hc Hin. apply (consec_bounds l en Hc Hin). Qed.

Lemma skipn_filter k l :
  consec l -> skipn k l = filter (fun en => first_idx l + N.of_nat k <=? eidx en) l.
Proof.
  revert k. induction l as [|e r IH]; intros k Hc; [now destruct k|].
  destruct k as [|k].
  - cbn [skipn]. symmetry. apply filter_all. intros x Hx. apply N.leb_le.
    pose proof (consec_ge_first (e :: r) x Hc Hx). lia.
  - cbn [skipn filter first_idx].
    destruct (eidx e + N.of_nat (Datatypes.S k) <=? eidx e) eqn:E; [apply N.leb_le in E; lia|].
    destruct Hc as [H1 Hr]. rewrite (IH k Hr). destruct r as [|e' r']; [reflexivity|].
    apply filter_ext_in'. intros x _. cbn [first_idx]. rewrite H1.
    replace (eidx e + 1 + N.of_nat k) with (eidx e + N.of_nat (Datatypes.S k)) by lia. reflexivity.
Qed.

Lemma firstn_filter k l :
  consec l -> firstn k l = filter (fun en => eidx en <? first_idx l + N.of_nat k) l.
Proof.
  revert k. induction l as [|e r IH]; intros k Hc; [now destruct k|].
  destruct k as [|k].
  - cbn [firstn]. symmetry. apply filter_none. intros x Hx. apply N.ltb_ge.
    pose proof (consec_ge_first (e :: r) x Hc Hx). lia.
  - cbn [firstn filter first_idx].
    destruct (eidx e <? eidx e + N.of_nat (Datatypes.S k)) eqn:E; [|apply N.ltb_ge in E; lia].
    f_equal. destruct Hc as [H1 Hr]. rewrite (IH k Hr). destruct r as [|e' r']; [reflexivity|].
    apply filter_ext_in'. intros x _. cbn [first_idx]. rewrite H1.
    replace (eidx e + 1 + N.of_nat k) with (eidx e + N.of_nat (Datatypes.S k)) by lia. reflexivity.
Qed.

Lemma filter_filter {A} (p q : A -> bool) l : filter p (filter q l) = filter (fun x => q x && p x) l.
Proof.
  induction l as [|x l IH]; [reflexivity|]. cbn. destruct (q x); cbn; [destruct (p x)|]; now rewrite IH.
Qed.

(* C04_log_wf, get_entries: the sub-list with exactly the requested indices *)
Theorem get_entries_spec l f c :
  consec l -> first_idx l <= f ->
  get_entries l (Some f) c None = filter (in_range f c) l.
Proof.
  intros Hc Hf. unfold get_entries.
  destruct (f <? first_idx l) eqn:E; [apply N.ltb_lt in E; lia|].
  set (k := N.to_nat (f - first_idx l)).
  assert (Hsk : skipn k l = filter (fun en => f <=? eidx en) l).
  { rewrite (skipn_filter _ l Hc). subst k.
    replace (first_idx l + N.of_nat (N.to_nat (f - first_idx l))) with f by lia. reflexivity. }
  destruct c as [c|].
  - assert (Hr : consec (skipn k l)) by now apply consec_skipn.
    rewrite (firstn_filter _ _ Hr).
    destruct (Nat.lt_ge_cases k (length l)) as [Hk|Hk].
    + rewrite (first_idx_skipn k l Hc Hk). subst k.
      replace (first_idx l + N.of_nat (N.to_nat (f - first_idx l))) with f by lia.
      rewrite Hsk, filter_filter. apply filter_ext_in'. intros x _. unfold in_range.
      rewrite N2Nat.id. reflexivity.
    + rewrite (skipn_all2 l Hk) in *. cbn. symmetry. apply filter_none. intros x Hx. unfold in_range.
      destruct (f <=? eidx x) eqn:E2; [|reflexivity].
      assert (Hin : In x (filter (fun en => f <=? eidx en) l)) by (apply filter_In; auto).
      rewrite <- Hsk in Hin. contradiction.
  - rewrite Hsk. unfold in_range. apply filter_ext_in'. intros x _. now rewrite andb_true_r.
Qed.

Corollary get_entries_in l f c en :
  consec l -> first_idx l <= f ->
  (In en (get_entries l (Some f) c None) <->
   In en l /\ f <= eidx en /\ match c with Some c => eidx en < f + c | None => True end).
Proof.
  intros Hc Hf. rewrite (get_entries_spec l f c Hc Hf), filter_In. unfold in_range.
  rewrite andb_true_iff, N.leb_le. destruct c; [rewrite N.ltb_lt|]; tauto.
Qed.

Lemma consec_filter_range l f c : consec l -> first_idx l <= f -> consec (filter (in_range f c) l).
Proof.
  intros Hc Hf. rewrite <- (get_entries_spec l f c Hc Hf). unfold get_entries.
  destruct (f <? first_idx l); [exact I|]. destruct c; [apply consec_firstn|]; now apply consec_skipn.
Qed.

Lemma get_entries_consec l f c m : consec l -> consec (get_entries l f c m).
Proof.
  intros Hc. unfold get_entries. destruct f as [f|]; [|exact I].
  destruct (f <? first_idx l); [exact I|].
  assert (H1 : consec (match c with Some c => firstn (N.to_nat c) (skipn (N.to_nat (f - first_idx l)) l)
                       | None => skipn (N.to_nat (f - first_idx l)) l end)).
  { destruct c; [apply consec_firstn|]; now apply consec_skipn. }
  destruct m as [m|]; [|exact H1].
  generalize dependent (match c with Some c => firstn (N.to_nat c) (skipn (N.to_nat (f - first_idx l)) l)
                       | None => skipn (N.to_nat (f - first_idx l)) l end).
  intros r Hr. generalize 0. induction r as [|e r IH]; intros tot; cbn [take_size]; [exact I|].
  destruct (m <=? tot + csz (ecmd e)); [cbn; auto|].
  destruct Hr as [H1 Hr]. split; [|apply IH; exact Hr].
  destruct r as [|e' r']; [exact I|]. cbn [take_size]. destruct (m <=? _); exact H1.
Qed.

(* the first entry returned carries the requested index *)
Lemma get_entries_first l f c m e0 r :
  consec l -> get_entries l (Some f) c m = e0 :: r -> eidx e0 = f /\ first_idx l <= f.
Proof.
  intros Hc. unfold get_entries.
  destruct (f <? first_idx l) eqn:E; [discriminate|]. apply N.ltb_ge in E.
  set (k := N.to_nat (f - first_idx l)).
  assert (Hf : forall e1 r1, skipn k l = e1 :: r1 -> eidx e1 = f).
  { intros e1 r1 Hs.
    assert (Hk : (k < length l)%nat).
    { destruct (Nat.lt_ge_cases k (length l)) as [Hk|Hk]; [exact Hk|]. rewrite (skipn_all2 l Hk) in Hs. discriminate. }
    pose proof (first_idx_skipn k l Hc Hk) as H. rewrite Hs in H. cbn in H. subst k. lia. }
  intros H. split; [|exact E].
  destruct (skipn k l) as [|e1 r1] eqn:Es.
  { destruct c as [c|]; [rewrite firstn_nil in H|]; destruct m; discriminate. }
  specialize (Hf e1 r1 eq_refl).
  destruct c as [c|].
  - destruct (N.to_nat c) as [|c']; [destruct m; discriminate|]. cbn [firstn] in H.
    destruct m as [m|]; [cbn [take_size] in H; destruct (m <=? _)|]; inversion H as [[He Hr0]]; rewrite <- He; exact Hf.
  - destruct m as [m|]; [cbn [take_size] in H; destruct (m <=? _)|]; inversion H as [[He Hr0]]; rewrite <- He; exact Hf.
Qed.

(* ------------------------------------------------------------------------------------------ *)
(* well-formed nodes and messages                                                             *)

Definition snap_wf (sn : snapshot) : Prop :=
  eidx (s_e1 sn) = eidx (s_e0 sn) + 1 /\ ssorted (s_cluster sn).

Definition blob_wf (b : blob) : Prop := match b with Good sn => snap_wf sn | Corrupt _ => True end.

Definition sr_wf (z : ser) : Prop :=
  (forall b, stored z = Some b -> blob_wf b) /\
  (forall x b off, In (x, (b, off)) (trans z) -> blob_wf b) /\
  (forall ps, incoming z = Some ps -> forall p, In p ps -> blob_wf (fst (fst p))).

Definition node_wf (n : node) : Prop := consec (log n) /\ ssorted (others n) /\ sr_wf (sr n).

Definition msg_wf (m : msg) : Prop :=
  match m with
  | AE _ _ (Some (pidx, _)) es => consec es /\ (es <> [] -> first_idx es = pidx + 1)
  | AEPiece _ _ (Some (pidx, _)) _ _ _ en => eidx en = pidx + 1
  | AESnap _ _ (SData b _ _ _ _) => blob_wf b
  | _ => True
  end.

(* what a handler phase keeps: well-formedness and a non-empty log ... *)
Definition nkeeps0 (a b : node) : Prop :=
  (node_wf a -> node_wf b) /\ (log a <> [] -> log b <> []).

(* ... and, for the phases of a tick before the compaction step, the serializer's job and the
   log's last index (which only grows) *)
Definition nkeeps (a b : node) : Prop :=
  nkeeps0 a b /\ pid (sr b) = pid (sr a) /\ cur_id (sr b) = cur_id (sr a) /\
  (log a <> [] -> last_idx (log a) <= last_idx (log b)).

Lemma nkeeps0_refl a : nkeeps0 a a.
Proof. split; auto. Qed.
Lemma nkeeps0_trans a b c : nkeeps0 a b -> nkeeps0 b c -> nkeeps0 a c.
Proof. intros [A1 A2] [B1 B2]. split; auto. Qed.
Lemma nkeeps_refl a : nkeeps a a.
Proof. split; [apply nkeeps0_refl|]. repeat split; auto. lia. Qed.
Lemma nkeeps_trans a b c : nkeeps a b -> nkeeps b c -> nkeeps a c.
Proof.
  intros (A0 & A1 & A2 & A3) (B0 & B1 & B2 & B3).
  split; [eapply nkeeps0_trans; eauto|]. split; [congruence|]. split; [congruence|].
  intros H. specialize (A3 H). destruct A0 as [_ A0]. specialize (B3 (A0 H)). lia.
Qed.
Lemma nkeeps_0 a b : nkeeps a b -> nkeeps0 a b.
Proof. intros [H _]. exact H. Qed.

Lemma nkeeps_frame a b :
  log b = log a -> others b = others a -> sr b = sr a -> nkeeps a b.
Proof.
  intros H1 H2 H3. unfold nkeeps, nkeeps0, node_wf. rewrite H1, H2, H3.
  split; [split; tauto|]. split; [reflexivity|]. split; [reflexivity|]. intros _. lia.
Qed.

Definition los (n : node) := (log n, others n, sr n).

Lemma nkeeps_los a b : los b = los a -> nkeeps a b.
Proof. unfold los. intros H. inversion H. now apply nkeeps_frame. Qed.

Ltac by_frame L := apply nkeeps_los; apply (L _ los); intros; reflexivity.

(* only [others] moves, staying sorted *)
Lemma nkeeps_others a b :
  log b = log a -> sr b = sr a -> (ssorted (others a) -> ssorted (others b)) -> nkeeps a b.
Proof.
  intros H1 H3 H2. unfold nkeeps, nkeeps0, node_wf. rewrite H1, H3.
  split; [split; tauto|]. split; [reflexivity|]. split; [reflexivity|]. intros _. lia.
Qed.

Lemma nkeeps_do_change_cluster a x r s : nkeeps (nd s) (nd (fst (do_change_cluster a x r s))).
Proof.
  apply nkeeps_others.
  - apply (fr_do_change_cluster log); frs.
  - apply (fr_do_change_cluster sr); frs.
  - destruct (do_change_cluster_others a x r s) as [-> _]. apply ssorted_step.
Qed.

Lemma nkeeps_apply_membership r es s : nkeeps (nd s) (nd (apply_membership r es s)).
Proof.
  apply nkeeps_others.
  - apply (fr_apply_membership log); frs.
  - apply (fr_apply_membership sr); frs.
  - destruct (apply_membership_others r es s) as [-> _]. apply ssorted_fold.
Qed.

Lemma others_update_cluster new s : others (nd (update_cluster new s)) = new.
Proof.
  unfold update_cluster. rewrite (fr_fold others) by (intros; reflexivity). cbn.
  reflexivity.
Qed.

Lemma nkeeps_update_cluster new s : ssorted new -> nkeeps (nd s) (nd (update_cluster new s)).
Proof.
  intros H. apply nkeeps_others.
  - apply (fr_update_cluster log); frs.
  - apply (fr_update_cluster sr); frs.
  - intros _. now rewrite others_update_cluster.
Qed.

(* only the serializer's transfer table moves *)
Lemma nkeeps_trans_only a b tr :
  b = a <| sr := (sr a) <| trans := tr |> |> ->
  (sr_wf (sr a) -> forall x bl off, In (x, (bl, off)) tr -> blob_wf bl) -> nkeeps a b.
Proof.
  intros -> H. unfold nkeeps, nkeeps0, node_wf. cbn.
  split; [split; [|tauto]|]. 2:{ split; [reflexivity|]. split; [reflexivity|]. intros _. lia. }
  intros (H1 & H2 & (S1 & S2 & S3)). split; [exact H1|]. split; [exact H2|].
  split; [exact S1|]. split; [|exact S3]. apply H. repeat split; auto.
Qed.

Lemma In_aset {V} k (v : V) l p : In p (aset k v l) -> p = (k, v) \/ In p l.
Proof.
  induction l as [|[k' v'] r IH]; cbn.
  { intros [H|[]]. left. now symmetry. }
  destruct (k <? k'); [cbn; intros [H|H]; [left; now symmetry|now right]|].
  destruct (k =? k'); cbn; [intros [H|H]; [left; now symmetry|right; now right]|].
  intros [H|H]; [right; now left|]. destruct (IH H); [now left|right; now right].
Qed.

Lemma In_adel {V} k (l : list (N * V)) p : In p (adel k l) -> In p l.
Proof.
  induction l as [|[k' v'] r IH]; cbn; [tauto|].
  destruct (k =? k'); cbn; [tauto|]. intros [H|H]; auto.
Qed.

Lemma aget_In {V} k (v : V) l : aget k l = Some v -> In (k, v) l.
Proof.
  induction l as [|[k' v'] r IH]; cbn; [discriminate|].
  destruct (k =? k') eqn:E; [|auto]. apply N.eqb_eq in E. intros H. inversion H. subst. now left.
Qed.

Lemma nkeeps_get_transmission e x s : nkeeps (nd s) (nd (fst (get_transmission e x s))).
Proof.
  unfold get_transmission. destruct (negb _); [apply nkeeps_refl|].
  destruct (match aget x (trans (sr (nd s))) with Some t => Some t | None => _ end) as [[b off]|] eqn:Ec;
    [|apply nkeeps_refl].
  cbn [fst]. eapply nkeeps_trans_only; [reflexivity|].
  intros (S1 & S2 & S3) y bl o Hin.
  assert (Hb : blob_wf b).
  { destruct (aget x (trans (sr (nd s)))) as [[b' o']|] eqn:Ea.
    - inversion Ec; subst. apply aget_In in Ea. eapply S2; eauto.
    - destruct (stored (sr (nd s))) eqn:Es; [|discriminate]. inversion Ec; subst. now apply S1. }
  destruct (_ =? 0).
  - apply In_adel in Hin. eapply S2; eauto.
  - apply In_aset in Hin. destruct Hin as [Hin|Hin]; [inversion Hin; subst; exact Hb|eapply S2; eauto].
Qed.

Lemma nkeeps_cancel_transmission x s : nkeeps (nd s) (nd (cancel_transmission x s)).
Proof.
  unfold cancel_transmission. eapply nkeeps_trans_only; [reflexivity|].
  intros (S1 & S2 & S3) y bl o Hin. apply In_adel in Hin. eapply S2; eauto.
Qed.

Lemma nkeeps_ae_body e x nx s : nkeeps (nd s) (nd (fst (ae_body e x nx s))).
Proof.
  unfold ae_body. destruct (first_idx (log (nd s)) <? nx).
  - apply nkeeps_los.
    destruct (nx <=? last_idx (log (nd s)));
      repeat (match goal with |- context [match ?x with _ => _ end] => destruct x end);
      cbn [fst]; rewrite ?nd_send_pieces, ?nd_send; reflexivity.
  - pose proof (nkeeps_get_transmission e x s) as G.
    destruct (get_transmission e x s) as [s1 td]. cbn [fst] in G.
    eapply nkeeps_trans; [exact G|]. apply nkeeps_los.
    destruct td as [|b off len fi la]; cbn [fst]; rewrite ?nd_send; [reflexivity|].
    destruct la; cbn [fst]; rewrite ?nd_send; [|reflexivity].
    repeat (match goal with |- context [match ?x with _ => _ end] => destruct x end);
      cbn [fst]; rewrite ?nd_upd, ?nd_raise, ?nd_send; reflexivity.
Qed.

Lemma nkeeps_ae_loop f e st x sg sr_ s : nkeeps (nd s) (nd (ae_loop f e st x sg sr_ s)).
Proof.
  revert sg sr_ s. induction f as [|f IH]; intros sg sr_ s; cbn [ae_loop]; [apply nkeeps_refl|].
  destruct (aget x (next_idx (nd s))) as [nx|]; [|apply nkeeps_refl].
  destruct (_ || _); [|apply nkeeps_refl].
  pose proof (nkeeps_ae_body e x nx s) as G. destruct (ae_body e x nx s) as [s1 b]. cbn [fst] in G.
  destruct (ok s1); [|exact G].
  destruct (_ <? _)%Z; [now rewrite nd_delta_read|].
  eapply nkeeps_trans; [exact G|]. rewrite <- (nd_delta_read e s1). apply IH.
Qed.

Lemma nkeeps_send_ae e s : nkeeps (nd s) (nd (send_ae e s)).
Proof.
  unfold send_ae.
  match goal with |- nkeeps _ (nd (fold_left ?f ?l ?s0)) =>
    apply (nkeeps_trans _ (nd s0)); [apply nkeeps_los; reflexivity|];
    apply (fold_left_rel (fun a b => nkeeps (nd a) (nd b)) f l s0) end.
  - intros; apply nkeeps_refl.
  - intros a b c; apply nkeeps_trans.
  - intros a x. destruct (ok a); [|apply nkeeps_refl].
    destruct (negb _); [apply nkeeps_cancel_transmission|apply nkeeps_ae_loop].
Qed.

Lemma nkeeps_log_add a b en :
  b = a <| log := log a ++ [en] |> -> eidx en = last_idx (log a) + 1 -> nkeeps a b.
Proof.
  intros -> He. unfold nkeeps, nkeeps0, node_wf. cbn.
  split; [split|].
  - intros (H & H2 & H3). split; [|tauto]. apply consec_app; [exact H|cbn; auto|]. intros _ _. cbn. exact He.
  - intros _ H. destruct (log a); discriminate.
  - split; [reflexivity|]. split; [reflexivity|]. intros _. rewrite last_idx_app. lia.
Qed.

Lemma nkeeps_become_leader e s : nkeeps (nd s) (nd (become_leader e s)).
Proof.
  unfold become_leader. rewrite andthen_eq.
  match goal with |- nkeeps _ (nd (if ok (?f ?s1) then _ else _)) =>
    assert (E : nkeeps (nd s) (nd s1)) end.
  { match goal with |- nkeeps _ (nd (upd ?g ?s2)) => set (s3 := s2) end.
    assert (E3 : nkeeps (nd s) (nd s3)).
    { subst s3. rewrite nd_upd.
      match goal with |- nkeeps _ (fold_left ?f ?l (nd ?s5)) =>
        apply (nkeeps_trans _ (nd s5)) end.
      - apply nkeeps_los. rewrite nd_upd. unfold los. cbn [log others sr set].
        rewrite (fr_set_role log), (fr_set_role others), (fr_set_role sr) by frs. reflexivity.
      - cbv beta. apply fold_left_rel; [apply nkeeps_refl|apply nkeeps_trans|].
        intros a x. eapply nkeeps_trans.
        + apply (nkeeps_trans_only a _ (adel x (trans (sr a)))); [reflexivity|].
          intros (S1 & S2 & S3) y bl o Hin. apply In_adel in Hin. eapply S2; eauto.
        + apply nkeeps_los. reflexivity. }
    eapply nkeeps_trans; [exact E3|]. clearbody s3.
    rewrite nd_upd. cbv beta zeta. unfold log_add.
    eapply nkeeps_trans.
    - eapply (nkeeps_log_add _ _ (mkEntry (noop_cmd (noop_pk (cf e))) (last_idx (log (nd s3)) + 1) (term (nd s3))));
        reflexivity.
    - apply nkeeps_los. reflexivity. }
  destruct (use_batch (cf e)).
  - cbv beta. destruct (ok _); [eapply nkeeps_trans; [exact E|apply nkeeps_send_ae]|exact E].
  - destruct (ok _).
    + eapply nkeeps_trans; [exact E|]. eapply nkeeps_trans; apply nkeeps_send_ae.
    + eapply nkeeps_trans; [exact E|apply nkeeps_send_ae].
Qed.

Lemma nkeeps_do_apply c s : nkeeps (nd s) (nd (fst (do_apply c s))).
Proof.
  unfold do_apply. destruct (ck c =? 3); [destruct (_ <? _); cbn [fst]; apply nkeeps_los; reflexivity|].
  destruct (membership_of c) as [[a x]|].
  - destruct (_ <? _); cbn [fst]; [apply nkeeps_do_change_cluster|apply nkeeps_refl].
  - destruct (ck c =? 0); [destruct (cb c =? 1)|]; cbn [fst]; apply nkeeps_los; reflexivity.
Qed.

Lemma nkeeps_apply_one en s : nkeeps (nd s) (nd (fst (apply_one en s))).
Proof.
  unfold apply_one.
  match goal with |- context [do_apply ?c ?s1] =>
    pose proof (nkeeps_do_apply c s1) as G; destruct (do_apply c s1) as [s2 ar] end.
  cbn [fst] in G.
  assert (G' : nkeeps (nd s) (nd s2)).
  { eapply nkeeps_trans; [|exact G]. apply nkeeps_los. reflexivity. }
  destruct ar; cbn [fst]; try exact G'; (eapply nkeeps_trans; [exact G'|]); apply nkeeps_los;
    rewrite nd_upd; unfold los; cbn [log others sr set]; now rewrite nd_fold_fire.
Qed.

Lemma nkeeps_apply_list es s : nkeeps (nd s) (nd (apply_list es s)).
Proof.
  revert s. induction es as [|en es IH]; intros s; cbn [apply_list]; [apply nkeeps_refl|].
  pose proof (nkeeps_apply_one en s) as G. destruct (apply_one en s) as [s1 go]. cbn [fst] in G.
  destruct go; [eapply nkeeps_trans; [exact G|apply IH]|exact G].
Qed.

Lemma nkeeps_apply_entries e s : nkeeps (nd s) (nd (fst (apply_entries e s))).
Proof.
  unfold apply_entries. destruct (_ <? _); cbn [fst]; [apply nkeeps_apply_list|apply nkeeps_refl].
Qed.

Lemma nkeeps_change_cluster a x s : nkeeps (nd s) (nd (fst (change_cluster a x s))).
Proof.
  destruct (change_cluster_spec a x s) as [(_ & s0 & Hgs & _ & ->)|(_ & s0 & Hgs & ->)]; cbv zeta in *.
  - eapply nkeeps_trans; [|apply nkeeps_do_change_cluster].
    apply nkeeps_los. destruct Hgs as [[->|[-> _]] _]; reflexivity.
  - cbn [fst]. apply nkeeps_los. destruct Hgs as [[->|[-> _]] _]; reflexivity.
Qed.

Lemma nkeeps_check_one e c cbk s : nkeeps (nd s) (nd (check_one e c cbk s)).
Proof.
  unfold check_one. destruct (role (nd s) =? LEADER).
  - match goal with |- context [let '(s, accepted) := ?X in _] =>
      assert (E : nkeeps (nd s) (nd (fst X)) /\ log (nd (fst X)) = log (nd s)); [|destruct X as [s1 acc]] end.
    { destruct (if dyn (cf e) then membership_of c else None) as [[a x]|].
      - split; [apply nkeeps_change_cluster|apply (fr_change_cluster log); frs].
      - split; [apply nkeeps_refl|reflexivity]. }
    cbn [fst] in E. destruct E as [E El]. destruct acc.
    + set (s2 := upd (log_add _) s1).
      assert (E2 : nkeeps (nd s) (nd s2)).
      { eapply nkeeps_trans; [exact E|]. subst s2. rewrite nd_upd. unfold log_add.
        eapply nkeeps_log_add; [reflexivity|]. cbn. now rewrite El. }
      clearbody s2.
      set (s3 := match (if dyn (cf e) then membership_of c else None) with Some _ => _ | None => s2 end).
      assert (E3 : nkeeps (nd s) (nd s3)).
      { eapply nkeeps_trans; [exact E2|]. subst s3. apply nkeeps_los.
        destruct (if dyn (cf e) then membership_of c else None); reflexivity. }
      clearbody s3.
      set (s4 := match cbk with CbNone => s3 | _ => _ end).
      assert (E4 : nkeeps (nd s) (nd s4)).
      { eapply nkeeps_trans; [exact E3|]. subst s4. apply nkeeps_los.
        destruct cbk; cbn; rewrite ?nd_send; reflexivity. }
      clearbody s4.
      destruct (use_batch (cf e)); [exact E4|eapply nkeeps_trans; [exact E4|apply nkeeps_send_ae]].
    + eapply nkeeps_trans; [exact E|]. apply nkeeps_los. destruct cbk; cbn; rewrite ?nd_send; reflexivity.
  - apply nkeeps_los. destruct (leader (nd s)); [destruct cbk|rewrite nd_call_err]; cbn; rewrite ?nd_send; reflexivity.
Qed.

Lemma nkeeps_check_loop f e st s : nkeeps (nd s) (nd (check_loop f e st s)).
Proof.
  revert s. induction f as [|f IH]; intros s; cbn [check_loop]; [apply nkeeps_refl|].
  destruct (_ <? _)%Z; [|apply nkeeps_refl].
  assert (K : nkeeps (nd s) (nd (match queue (nd s) with
            | [] => s
            | (c, cbk) :: rest =>
              let s := upd (fun n => n <| queue := rest |>) s in
              let s := check_one e c cbk s in
              if ok s then check_loop f e st s else s end))).
  { destruct (queue (nd s)) as [|[c cbk] rest]; [apply nkeeps_refl|]. cbv zeta.
    assert (K1 : nkeeps (nd s) (nd (check_one e c cbk (upd (fun n => n <| queue := rest |>) s)))).
    { eapply nkeeps_trans; [|apply nkeeps_check_one]. apply nkeeps_los. reflexivity. }
    destruct (ok _); [eapply nkeeps_trans; [exact K1|apply IH]|exact K1]. }
  destruct (leader (nd s)); [exact K|]. destruct (wait_leader (cf e)); [apply nkeeps_refl|exact K].
Qed.

Lemma nkeeps_check_commands e s : nkeeps (nd s) (nd (check_commands e s)).
Proof. unfold check_commands. apply nkeeps_check_loop. Qed.

Lemma nkeeps_tick_election e s : nkeeps (nd s) (nd (tick_election e s)).
Proof.
  unfold tick_election. destruct (self (nd s)) as [me|]; [|apply nkeeps_refl].
  destruct (_ && _); [|apply nkeeps_refl].
  match goal with |- nkeeps _ (nd (if majority _ (nd ?s1) then _ else _)) =>
    assert (E : los (nd s1) = los (nd s)) end.
  { rewrite (fr_on_leader_changed los) by reflexivity.
    rewrite (fr_fold los) by (intros; now rewrite nd_send).
    rewrite nd_upd. unfold los. cbn [log others sr set].
    rewrite (fr_set_role log), (fr_set_role others), (fr_set_role sr) by frs. reflexivity. }
  destruct (majority _ _).
  - eapply nkeeps_trans; [apply nkeeps_los; exact E|apply nkeeps_become_leader].
  - apply nkeeps_los; exact E.
Qed.

Lemma nkeeps_tick_send e need s : nkeeps (nd s) (nd (tick_send e need s)).
Proof.
  unfold tick_send. destruct (role (nd s) =? LEADER); [|apply nkeeps_refl].
  destruct (_ || _); [apply nkeeps_send_ae|apply nkeeps_refl].
Qed.

(* ------------------------------------------------------------------------------------------ *)
(* snapshot load, compaction                                                                  *)

Lemma ssorted_filter p l : ssorted l -> ssorted (filter p l).
Proof.
  induction l as [|x l IH]; intros H; [exact I|]. cbn [filter].
  destruct H as [H1 Hl]. specialize (IH Hl). destruct (p x); [|exact IH].
  split; [|exact IH].
  destruct (filter p l) as [|y r] eqn:E; [exact I|].
  assert (Hy : In y (filter p l)) by (rewrite E; now left).
  apply filter_In in Hy. destruct Hy as [Hy _].
  apply (ssorted_lb x l (conj H1 Hl) y). now apply In_smem.
Qed.

Lemma ssorted_apply_membership r es s :
  ssorted (others (nd s)) -> ssorted (others (nd (apply_membership r es s))).
Proof. intros H. destruct (apply_membership_others r es s) as [-> _]. now apply ssorted_fold. Qed.

Lemma load_dump_others_sorted e cl s sn :
  stored (sr (nd s)) = Some (Good sn) -> ssorted (s_cluster sn) -> ssorted (others (nd s)) ->
  ssorted (others (nd (load_dump e cl s))).
Proof.
  intros Hs Hc Ho. unfold load_dump. rewrite Hs.
  destruct (cl && _); [exact Ho|].
  destruct (self_ver (nd s) <? s_ver sn); [exact Ho|].
  cbv zeta.
  match goal with |- context [update_cluster ?l ?s4] => set (s5 := s4); set (new := l) end.
  assert (E5 : others (nd s5) = others (nd s)).
  { subst s5. repeat (match goal with |- context [if ?b then _ else _] => destruct b end; cbn [nd upd others set]);
      reflexivity. }
  destruct (dyn (cf e)); [|now rewrite E5].
  assert (Hn : ssorted (others (nd (update_cluster new s5)))).
  { rewrite others_update_cluster. subst new. now apply ssorted_filter. }
  match goal with |- context [if ?b then apply_membership _ _ _ else _] => destruct b end;
    [now apply ssorted_apply_membership|exact Hn].
Qed.

Lemma load_dump_keeps e cl s : nkeeps0 (nd s) (nd (load_dump e cl s)).
Proof.
  destruct (stored (sr (nd s))) as [[sn|]|] eqn:Est.
  2,3: unfold load_dump; rewrite Est; apply nkeeps0_refl.
  destruct (cl && (eidx (s_e1 sn) <=? applied (nd s))) eqn:Eb.
  { unfold load_dump. rewrite Est, Eb. apply nkeeps_0, nkeeps_los. reflexivity. }
  destruct (self_ver (nd s) <? s_ver sn) eqn:Ev.
  { unfold load_dump. rewrite Est, Eb, Ev. apply nkeeps0_refl. }
  apply N.ltb_ge in Ev.
  destruct (load_dump_loaded e cl s sn Est Eb Ev) as [Hl _].
  split.
  - intros (H1 & H2 & H3). pose proof H3 as (S1 & _). destruct (S1 _ Est) as [Hi Hc].
    split; [|split].
    + rewrite Hl. destruct (snap_kept sn (log (nd s))).
      * unfold delete_to. destruct (_ <? _); [exact H1|now apply consec_skipn].
      * cbn. auto.
    + now apply (load_dump_others_sorted e cl s sn).
    + rewrite (fr_load_dump sr) by frs. exact H3.
  - intros _. rewrite Hl. destruct (snap_kept sn (log (nd s))) eqn:Ek; [|discriminate].
    destruct (snap_kept_split sn _ Ek) as (pre & a & b & r & _ & Hd & _). rewrite Hd. discriminate.
Qed.

Lemma sr_wf_sub z z' :
  sr_wf z -> (forall b, stored z' = Some b -> stored z = Some b \/ blob_wf b) ->
  incoming z' = incoming z -> (forall p, In p (trans z') -> In p (trans z)) -> sr_wf z'.
Proof.
  intros (S1 & S2 & S3) Hs Hi Ht. split; [|split].
  - intros b Hb. destruct (Hs b Hb); auto.
  - intros x b off Hin. eapply S2. apply Ht. exact Hin.
  - rewrite Hi. exact S3.
Qed.

Lemma node_wf_same a b :
  node_wf a -> consec (log b) -> others b = others a -> sr_wf (sr b) -> node_wf b.
Proof. intros (H1 & H2 & H3) L O W. split; [exact L|]. split; [now rewrite O|exact W]. Qed.

Lemma ssorted_cluster_before n res cl : ssorted cl -> ssorted (cluster_before n res cl).
Proof.
  unfold cluster_before. revert cl. induction res as [|en res IH]; intros cl H; cbn [fold_left]; [exact H|].
  apply IH. destruct (membership_of (ecmd en)) as [[a x]|]; [|exact H].
  destruct (self_is x n); [exact H|]. destruct a; [now apply ssorted_sdel|now apply ssorted_sadd].
Qed.

Lemma try_compact_wf e s : node_wf (nd s) -> node_wf (nd (try_compact e s)).
Proof.
  intros Hwf. pose proof Hwf as (H1 & H2 & H3). unfold try_compact.
  set (s1 := if pid (sr (nd s)) =? 0 then s else _).
  assert (E1 : log (nd s1) = log (nd s) /\ others (nd s1) = others (nd s) /\ sr_wf (sr (nd s1))).
  { subst s1. destruct (_ =? 0); [auto|]. split; [reflexivity|]. split; [reflexivity|].
    apply (sr_wf_sub (sr (nd s))); auto. cbn. intros p []. }
  clearbody s1. destruct E1 as (L1 & O1 & W1).
  set (s2 := if pid (sr (nd s)) =? 1 then _ else s1).
  assert (E2 : consec (log (nd s2)) /\ others (nd s2) = others (nd s) /\ sr_wf (sr (nd s2))).
  { subst s2. destruct (_ =? 1); [|rewrite L1; auto]. cbn. rewrite L1. split; [|auto].
    unfold delete_to. destruct (_ <? _); [exact H1|now apply consec_skipn]. }
  clearbody s2. destruct E2 as (L2 & O2 & W2).
  assert (Hsame : node_wf (nd s2)) by (apply (node_wf_same (nd s)); auto).
  destruct (negb _); [exact Hsame|].
  assert (Hupd : forall (f : node -> node), log (f (nd s2)) = log (nd s2) -> others (f (nd s2)) = others (nd s2) ->
                   sr (f (nd s2)) = sr (nd s2) -> node_wf (f (nd s2))).
  { intros f F1 F2 F3. apply (node_wf_same (nd s2)); auto; [now rewrite F1|now rewrite F3]. }
  destruct (_ && _); [exact Hsame|].
  destruct (get_entries (log (nd s2)) (Some (applied (nd s2) - 1)) (Some 2) None) as [|e0 [|e1 r]] eqn:Eg;
    try (rewrite nd_upd; apply Hupd; reflexivity).
  destruct (opt_eqb _ _); [rewrite !nd_upd; apply (node_wf_same (nd s2)); auto|].
  rewrite !nd_upd. apply (node_wf_same (nd s2)); auto. cbn [sr set].
  apply (sr_wf_sub (sr (nd s2))); auto. cbn. intros b Hb. right. inversion Hb; subst b. cbn. split; cbn.
  - pose proof (get_entries_consec (log (nd s2)) (Some (applied (nd s2) - 1)) (Some 2) None L2) as Hc.
    rewrite Eg in Hc. destruct Hc as [Hc _]. exact Hc.
  - apply ssorted_cluster_before. rewrite O2. destruct (self (nd s2)); [now apply ssorted_sadd|exact H2].
Qed.

Lemma try_compact_nonempty e s :
  consec (log (nd s)) -> log (nd s) <> [] ->
  (pid (sr (nd s)) = 1 -> cur_id (sr (nd s)) <= last_idx (log (nd s))) ->
  log (nd (try_compact e s)) <> [].
Proof.
  intros Hc Hne Hok. unfold try_compact.
  set (s1 := if pid (sr (nd s)) =? 0 then s else _).
  assert (E1 : log (nd s1) = log (nd s)) by (subst s1; destruct (_ =? 0); reflexivity).
  clearbody s1.
  set (s2 := if pid (sr (nd s)) =? 1 then _ else s1).
  assert (E2 : log (nd s2) <> []).
  { subst s2. destruct (pid (sr (nd s)) =? 1) eqn:Ep; [|now rewrite E1].
    apply N.eqb_eq in Ep. specialize (Hok Ep). cbn. rewrite E1. unfold delete_to.
    destruct (cur_id (sr (nd s)) <? first_idx (log (nd s))) eqn:El; [exact Hne|].
    apply N.ltb_ge in El. rewrite (consec_last_idx _ Hc Hne) in Hok.
    intros Hnil. apply (f_equal (@length entry)) in Hnil. rewrite skipn_length in Hnil. cbn in Hnil.
    assert (length (log (nd s)) <> 0)%nat by (destruct (log (nd s)); [contradiction|discriminate]). lia. }
  clearbody s2.
  destruct (negb _); [exact E2|]. destruct (_ && _); [exact E2|].
  destruct (get_entries _ _ _ _) as [|e0 [|e1 r]]; try exact E2.
  destruct (opt_eqb _ _); exact E2.
Qed.

(* a received chunk *)
Lemma pieces_first_good ps s :
  (forall p, In p ps -> blob_wf (fst (fst p))) -> assemble_snap ps = Good s -> snap_wf s.
Proof.
  intros H. unfold assemble_snap. destruct ps as [|[[b o] l] r]; [discriminate|].
  destruct b as [s0|]; [|discriminate]. destruct (pieces_contig _ _ _); [|discriminate].
  intros E. inversion E; subst. exact (H _ (or_introl eq_refl)).
Qed.

Lemma set_transmission_keeps p s :
  (match p with SData b _ _ _ _ => blob_wf b | SNone => True end) ->
  nkeeps0 (nd s) (nd (fst (set_transmission p s))).
Proof.
  intros Hp. unfold set_transmission. destruct p as [|b off len first last]; [apply nkeeps0_refl|].
  destruct (if first then Some [] else incoming (sr (nd s))) as [ps|] eqn:Ei; [|apply nkeeps0_refl].
  assert (Hps : sr_wf (sr (nd s)) -> forall p, In p (ps ++ [(b, off, len)]) -> blob_wf (fst (fst p))).
  { intros (S1 & S2 & S3) p Hin. apply in_app_or in Hin. destruct Hin as [Hin|[<-|[]]]; [|exact Hp].
    destruct first; [inversion Ei; subst; contradiction|]. exact (S3 _ Ei _ Hin). }
  destruct last; [destruct (snap_ahead _ _)|]; cbn [fst]; (split; [|cbn; auto]); intros (H1 & H2 & H3);
    (split; [exact H1|split; [exact H2|]]); destruct H3 as (S1 & S2 & S3); cbn; repeat split; auto.
  - intros b0 Hb0. inversion Hb0; subst b0.
    destruct (assemble_snap _) eqn:Ea; [|exact I]. eapply pieces_first_good; [|exact Ea].
    apply Hps. repeat split; auto.
  - intros ? Hq. discriminate.
  - intros ? Hq. discriminate.
  - intros ps0 Hq. inversion Hq; subst ps0. apply Hps. repeat split; auto.
Qed.

Lemma matched_prefix_le a b : (matched_prefix a b <= length a /\ matched_prefix a b <= length b)%nat.
Proof.
  revert b. induction a as [|x a IH]; intros b; cbn; [lia|].
  destruct b as [|y b]; cbn; [lia|]. destruct (_ =? _); cbn; [|lia]. specialize (IH b). lia.
Qed.

(* the log after an accepted append_entries (any setting of dynamic membership) *)
Lemma ae_regular_log e from c pidx pterm new s p0 ptail :
  get_entries (log (nd s)) (Some pidx) None None = p0 :: ptail -> eterm p0 = pterm ->
  let n := nd s in
  let m := matched_prefix ptail new in
  let rest := skipn m ptail in
  let add := skipn m new in
  log (nd (ae_regular e from c (Some (pidx, pterm)) new s)) =
    (if truncating rest add then delete_from (log n) (pidx + 1 + N.of_nat m) else log n) ++ add.
Proof.
  intros Hp Ht. cbv zeta. unfold ae_regular. cbn [option_map fst]. rewrite Hp, Ht, N.eqb_refl. cbn [negb].
  rewrite (fr_ae_commit log) by frs. rewrite nd_send_next_idx.
  set (m := matched_prefix ptail new). set (rest := skipn m ptail). set (add := skipn m new).
  set (s1 := match rest with [] => s | _ :: _ => _ end).
  assert (E1 : log (nd s1) = (if truncating rest add then delete_from (log (nd s)) (pidx + 1 + N.of_nat m) else log (nd s))).
  { subst s1. destruct rest as [|r0 rest']; [reflexivity|]. destruct add as [|a0 add']; [reflexivity|].
    cbn [truncating]. rewrite nd_upd. cbn [log set].
    destruct (dyn (cf e)); rewrite ?(fr_apply_membership log) by frs; reflexivity. }
  clearbody s1.
  destruct (dyn (cf e)); rewrite ?(fr_apply_membership log) by frs; rewrite nd_upd; cbn [log set]; now rewrite E1.
Qed.

Lemma first_idx_firstn k (l : list entry) : first_idx (firstn (Datatypes.S k) l) = first_idx l.
Proof. destruct l; reflexivity. Qed.

Lemma ae_regular_cases e from c prev new s :
  nd (ae_regular e from c prev new s) = nd s \/
  exists pidx pterm p0 ptail,
    prev = Some (pidx, pterm) /\ get_entries (log (nd s)) (Some pidx) None None = p0 :: ptail /\
    eterm p0 = pterm.
Proof.
  unfold ae_regular.
  destruct (get_entries (log (nd s)) (option_map fst prev) None None) as [|p0 ptail] eqn:Ep;
    [left; now rewrite nd_send_next_idx|].
  destruct prev as [[pidx pterm]|]; [|left; now rewrite nd_send_next_idx].
  destruct (negb (eterm p0 =? pterm)) eqn:Et; [left; now rewrite nd_send_next_idx|].
  apply negb_false_iff, N.eqb_eq in Et. right. exists pidx, pterm, p0, ptail. auto.
Qed.

Lemma ae_regular_others_sorted e from c prev new s :
  ssorted (others (nd s)) -> ssorted (others (nd (ae_regular e from c prev new s))).
Proof.
  intros Hs. unfold ae_regular.
  destruct (get_entries _ _ _ _) as [|p0 ptail]; [now rewrite nd_send_next_idx|].
  destruct prev as [[pidx pterm]|]; [|now rewrite nd_send_next_idx].
  destruct (negb _); [now rewrite nd_send_next_idx|].
  rewrite (fr_ae_commit others), nd_send_next_idx by frs.
  match goal with |- context [upd (fun n => n <| log := log n ++ _ |>) ?s1] => set (s2 := s1) end.
  assert (E : ssorted (others (nd s2))).
  { subst s2. destruct (skipn _ ptail); [exact Hs|]. destruct (skipn _ new); [exact Hs|].
    rewrite nd_upd. cbn [others set].
    destruct (dyn (cf e)); [|exact Hs]. now apply ssorted_apply_membership. }
  clearbody s2.
  destruct (dyn (cf e)); [apply ssorted_apply_membership|]; rewrite nd_upd; exact E.
Qed.

Lemma ae_regular_keeps e from c prev new s :
  (match prev with Some (pidx, _) => consec new /\ (new <> [] -> first_idx new = pidx + 1) | None => True end) ->
  nkeeps0 (nd s) (nd (ae_regular e from c prev new s)).
Proof.
  intros Hm.
  destruct (ae_regular_cases e from c prev new s) as [->|(pidx & pterm & p0 & ptail & -> & Hp & Ht)];
    [apply nkeeps0_refl|].
  destruct Hm as [Hcn Hfn].
  pose proof (ae_regular_log e from c pidx pterm new s p0 ptail Hp Ht) as Hlog. cbv zeta in Hlog.
  pose proof (ae_split (log (nd s)) pidx p0 ptail (matched_prefix ptail new) Hp) as Hsplit.
  set (m := matched_prefix ptail new) in *.
  set (rest := skipn m ptail) in *. set (add := skipn m new) in *.
  set (kept := delete_from (log (nd s)) (pidx + 1 + N.of_nat m)) in *.
  split.
  - intros (H1 & H2 & H3). split; [|split; [now apply ae_regular_others_sorted|]].
    2:{ rewrite (fr_ae_regular sr) by frs. exact H3. }
    rewrite Hlog.
    (* positions *)
    assert (Hfi : first_idx (log (nd s)) <= pidx).
    { unfold get_entries in Hp. destruct (pidx <? first_idx (log (nd s))) eqn:E; [discriminate|].
      now apply N.ltb_ge in E. }
    pose proof (matched_prefix_le ptail new) as [Hm1 Hm2]. fold m in Hm1, Hm2.
    assert (Hkept : kept = firstn (N.to_nat (pidx - first_idx (log (nd s))) + 1 + m) (log (nd s))).
    { subst kept. unfold delete_from.
      destruct (pidx + 1 + N.of_nat m <? first_idx (log (nd s))) eqn:E; [apply N.ltb_lt in E; lia|].
      f_equal. lia. }
    assert (Hlen : length (log (nd s)) = (N.to_nat (pidx - first_idx (log (nd s))) + 1 + length ptail)%nat).
    { unfold get_entries in Hp. destruct (pidx <? first_idx (log (nd s))); [discriminate|].
      apply (f_equal (@length entry)) in Hp. rewrite skipn_length in Hp. cbn in Hp. lia. }
    set (base := if truncating rest add then kept else log (nd s)).
    destruct add as [|a0 add'] eqn:Eadd.
    { subst base. destruct rest; cbn [truncating]; rewrite app_nil_r; exact H1. }
    rewrite <- Eadd.
    assert (Hbase : consec base /\ base <> [] /\ last_idx base = pidx + N.of_nat m).
    { assert (Hkk : consec kept /\ kept <> [] /\
                    ((N.to_nat (pidx - first_idx (log (nd s))) + 1 + m <= length (log (nd s)))%nat ->
                     last_idx kept = pidx + N.of_nat m)).
      { rewrite Hkept. split; [now apply consec_firstn|]. split.
        - replace (N.to_nat (pidx - first_idx (log (nd s))) + 1 + m)%nat
            with (Datatypes.S (N.to_nat (pidx - first_idx (log (nd s))) + m)) by lia.
          destruct (log (nd s)); [cbn in Hlen; lia|discriminate].
        - intros Hle.
          rewrite consec_last_idx; [|now apply consec_firstn|].
          + rewrite firstn_length_le by exact Hle.
            replace (N.to_nat (pidx - first_idx (log (nd s))) + 1 + m)%nat
              with (Datatypes.S (N.to_nat (pidx - first_idx (log (nd s))) + m)) by lia.
            rewrite first_idx_firstn. lia.
          + replace (N.to_nat (pidx - first_idx (log (nd s))) + 1 + m)%nat
              with (Datatypes.S (N.to_nat (pidx - first_idx (log (nd s))) + m)) by lia.
            destruct (log (nd s)); [cbn in Hlen; lia|discriminate]. }
      destruct Hkk as (K1 & K2 & K3).
      subst base. destruct (truncating rest (a0 :: add')) eqn:Etr.
      - split; [exact K1|]. split; [exact K2|]. apply K3. lia.
      - (* nothing is cut: the matched entries reach the end of the log *)
        assert (Hrest : rest = []) by (destruct rest; [reflexivity|discriminate]).
        assert (Hmm : m = length ptail).
        { subst rest. apply (f_equal (@length entry)) in Hrest. rewrite skipn_length in Hrest. cbn in Hrest. lia. }
        split; [exact H1|]. split; [destruct (log (nd s)); [cbn in Hlen; lia|discriminate]|].
        rewrite consec_last_idx; [|exact H1|destruct (log (nd s)); [cbn in Hlen; lia|discriminate]].
        rewrite Hlen, Hmm. lia. }
    destruct Hbase as (B1 & B2 & B3).
    apply consec_app; [exact B1|subst add; now apply consec_skipn|].
    intros _ _. rewrite B3.
    assert (Hmlt : (m < length new)%nat).
    { destruct (Nat.lt_ge_cases m (length new)) as [Hl|Hl]; [exact Hl|].
      subst add. rewrite (skipn_all2 new Hl) in Eadd. discriminate. }
    subst add. rewrite (first_idx_skipn m new Hcn Hmlt).
    rewrite Hfn by (destruct new; [cbn in Hmlt; lia|discriminate]). lia.
  - intros Hne. rewrite Hlog. destruct (truncating rest add) eqn:Etr.
    + intros Hnil. apply app_eq_nil in Hnil. destruct Hnil as [_ Hnil].
      destruct rest; [discriminate|]. destruct add; [discriminate|discriminate].
    + intros Hnil. apply app_eq_nil in Hnil. destruct Hnil as [Hnil _]. contradiction.
Qed.

(* the entry reassembled from pieces carries the index of every piece *)
Lemma pieces_ok_idx en off ps p : pieces_ok en off ps = true -> In p ps -> eidx (fst (fst p)) = eidx en.
Proof.
  revert off. induction ps as [|[[e' o] l] r IH]; intros off H Hin; [contradiction|].
  cbn in H. apply andb_prop in H. destruct H as [H Hr]. apply andb_prop in H. destruct H as [He _].
  destruct Hin as [<-|Hin]; [|eauto].
  cbn. unfold entry_eqb in He. apply andb_prop in He. destruct He as [He _].
  apply andb_prop in He. destruct He as [_ He]. apply N.eqb_eq in He. now symmetry.
Qed.

Lemma assemble_entry_idx ps en off len en' :
  assemble_entry (ps ++ [(en, off, len)]) = Some en' -> eidx en' = eidx en.
Proof.
  unfold assemble_entry. destruct (ps ++ [(en, off, len)]) as [|[[e0 o0] l0] r] eqn:E; [discriminate|].
  destruct (pieces_ok e0 0 _) eqn:Eo; [|discriminate]. intros H. inversion H; subst en'.
  symmetry. apply (pieces_ok_idx e0 0 _ (en, off, len) Eo). rewrite <- E. apply in_or_app. right. now left.
Qed.

Lemma ae_body_of_keeps e from m c s : msg_wf m -> nkeeps0 (nd s) (nd (ae_body_of e from m c s)).
Proof.
  intros Hm. unfold ae_body_of. destruct m as [| |t c0 prev es|t c0 prev lab off len en|t c0 p| | |]; try apply nkeeps0_refl.
  - apply ae_regular_keeps. destruct prev as [[pidx pterm]|]; [exact Hm|exact I].
  - destruct (lab =? 1); [rewrite nd_send_next_idx; apply nkeeps_0, nkeeps_los; reflexivity|].
    destruct (recv_t (nd s)) eqn:Er; [apply nkeeps0_refl|].
    destruct (lab =? 2); [rewrite nd_send_next_idx; apply nkeeps_0, nkeeps_los; reflexivity|].
    cbn [nd upd].
    destruct (assemble_entry _) as [en'|] eqn:Ea; [|apply nkeeps_0, nkeeps_los; reflexivity].
    eapply nkeeps0_trans; [|apply ae_regular_keeps].
    + apply nkeeps_0, nkeeps_los; reflexivity.
    + destruct prev as [[pidx pterm]|]; [|exact I]. cbn in Hm.
      cbn [recv_t set] in Ea. apply assemble_entry_idx in Ea.
      split; [cbn; auto|]. intros _. cbn. lia.
  - pose proof (set_transmission_keeps p s) as G.
    assert (Hp : match p with SData b _ _ _ _ => blob_wf b | SNone => True end) by (destruct p; exact Hm).
    specialize (G Hp). destruct (set_transmission p s) as [s2 dn]. cbn [fst] in G.
    destruct (dn && _); [|destruct dn].
    + eapply nkeeps0_trans; [exact G|].
      match goal with |- nkeeps0 _ (nd ?X) =>
        assert (EE : los (nd X) = los (nd (load_dump e true s2)))
          by (rewrite (fr_ae_commit los) by reflexivity; now rewrite nd_send_next_idx) end.
      eapply nkeeps0_trans; [apply (load_dump_keeps e true s2)|apply nkeeps_0, nkeeps_los; exact EE].
    + eapply nkeeps0_trans; [exact G|].
      eapply nkeeps0_trans; [apply (load_dump_keeps e true s2)|].
      apply nkeeps_0, nkeeps_los. apply (fr_ae_commit los); reflexivity.
    + eapply nkeeps0_trans; [exact G|]. apply nkeeps_0, nkeeps_los. apply (fr_ae_commit los); reflexivity.
Qed.

(* C04_log_wf: every message handler *)
Theorem on_message_keeps e from m n : msg_wf m -> nkeeps0 n (nd (on_message e from m n)).
Proof.
  intros Hm. destruct m as [t lli llt|t|t c prev es|t c prev lab off len en|t c p|cm req|req okr a b|t nx r su].
  - apply nkeeps_0, nkeeps_los. apply (fr_msg_request_vote los); reflexivity.
  - unfold on_message. destruct (_ && _); [|apply nkeeps0_refl].
    destruct (majority _ _); [|apply nkeeps_0, nkeeps_los; reflexivity].
    eapply nkeeps0_trans; [|apply nkeeps_0, nkeeps_become_leader]. apply nkeeps_0, nkeeps_los. reflexivity.
  - unfold on_message. rewrite on_append_entries_eq. destruct (_ <? _); [apply nkeeps0_refl|].
    eapply nkeeps0_trans; [|apply ae_body_of_keeps; exact Hm].
    apply nkeeps_0, nkeeps_los. apply (fr_ae_pre los); reflexivity.
  - unfold on_message. rewrite on_append_entries_eq. destruct (_ <? _); [apply nkeeps0_refl|].
    eapply nkeeps0_trans; [|apply ae_body_of_keeps; exact Hm].
    apply nkeeps_0, nkeeps_los. apply (fr_ae_pre los); reflexivity.
  - unfold on_message. rewrite on_append_entries_eq. destruct (_ <? _); [apply nkeeps0_refl|].
    eapply nkeeps0_trans; [|apply ae_body_of_keeps; exact Hm].
    apply nkeeps_0, nkeeps_los. apply (fr_ae_pre los); reflexivity.
  - apply nkeeps_0, nkeeps_los. apply (fr_msg_apply_cmd los); reflexivity.
  - apply nkeeps_0, nkeeps_los. apply (fr_msg_apply_resp los); reflexivity.
  - apply nkeeps_0, nkeeps_los. apply (fr_msg_next_idx los); reflexivity.
Qed.

(* ------------------------------------------------------------------------------------------ *)
(* ticks                                                                                      *)

(* the phases between the dump load and the compaction step *)
Lemma tick_middle_keeps e s :
  nkeeps (nd s)
    (nd ((tick_timer e ;; tick_election e ;; tick_leader e ;;
          (fun s => let (s, need) := apply_entries e s in
                    if ok s then (tick_send e need ;; tick_ready ;; check_commands e) s else s)) s)).
Proof.
  apply andthen_rel; [apply nkeeps_trans|by_frame @fr_tick_timer|intros].
  apply andthen_rel; [apply nkeeps_trans|apply nkeeps_tick_election|intros].
  apply andthen_rel; [apply nkeeps_trans|by_frame @fr_tick_leader|intros].
  pose proof (nkeeps_apply_entries e s'1) as G. destruct (apply_entries e s'1) as [s1 need]. cbn [fst] in G.
  destruct (ok s1); [|exact G]. eapply nkeeps_trans; [exact G|].
  apply andthen_rel; [apply nkeeps_trans|apply nkeeps_tick_send|intros].
  apply andthen_rel; [apply nkeeps_trans|by_frame @fr_tick_ready|intros].
  apply nkeeps_check_commands.
Qed.

Lemma tick_load_keeps e s : nkeeps0 (nd s) (nd (tick_load e s)).
Proof.
  unfold tick_load.
  set (s1 := if need_load (nd s) && file_dump (cf e) then load_dump e false s else s).
  assert (E : nkeeps0 (nd s) (nd s1)).
  { subst s1. destruct (_ && _); [apply load_dump_keeps|apply nkeeps0_refl]. }
  eapply nkeeps0_trans; [exact E|apply nkeeps_0, nkeeps_los; reflexivity].
Qed.

Theorem on_tick_wf e n : node_wf n -> node_wf (nd (on_tick e n)).
Proof.
  apply (on_tick_rel (fun a b => node_wf a -> node_wf b)); auto.
  - intros s. apply tick_load_keeps.
  - intros s. apply nkeeps_los. apply (fr_tick_timer los); reflexivity.
  - intros s. apply nkeeps_tick_election.
  - intros s. apply nkeeps_los. apply (fr_tick_leader los); reflexivity.
  - intros s. apply nkeeps_apply_entries.
  - intros need s. apply nkeeps_tick_send.
  - intros s. apply nkeeps_los. apply (fr_tick_ready los); reflexivity.
  - intros s. apply nkeeps_check_commands.
  - intros s. apply try_compact_wf.
Qed.

(* the pending serializer job covers only entries the log still has; a dump file is not loaded
   in this tick (it is loaded in the first tick of a node, before any job can be pending) *)
Definition compact_ok (e : env) (n : node) : Prop :=
  pid (sr n) = 1 -> need_load n && file_dump (cf e) = false /\ cur_id (sr n) <= last_idx (log n).

Lemma andthen_split f g s : (f ;; g) s = f s \/ (ok (f s) = true /\ (f ;; g) s = g (f s)).
Proof. rewrite andthen_eq. destruct (ok (f s)); auto. Qed.

Theorem on_tick_nonempty e n :
  node_wf n -> log n <> [] -> compact_ok e n -> log (nd (on_tick e n)) <> [].
Proof.
  intros Hwf Hne Hok.
  (* regroup: load ;; (middle ;; compact) *)
  assert (Hshape : on_tick e n =
    (tick_load e ;;
     ((tick_timer e ;; tick_election e ;; tick_leader e ;;
       (fun s => let (s, need) := apply_entries e s in
                 if ok s then (tick_send e need ;; tick_ready ;; check_commands e) s else s)) ;;
      try_compact e)) (start_S e n)).
  { unfold on_tick. rewrite !andthen_eq.
    destruct (ok (tick_load e (start_S e n))) eqn:E1; [|reflexivity].
    destruct (ok (tick_timer e _)) eqn:E2; [|now rewrite ?E2].
    destruct (ok (tick_election e _)) eqn:E3; [|now rewrite ?E3].
    destruct (ok (tick_leader e _)) eqn:E4; [|now rewrite ?E4].
    destruct (apply_entries e _) as [s1 need]. destruct (ok s1) eqn:E5; [|now rewrite ?E5].
    rewrite !andthen_eq.
    destruct (ok (tick_send e need s1)) eqn:E6; [|now rewrite ?E6].
    destruct (ok (tick_ready _)) eqn:E7; [|now rewrite ?E7].
    destruct (ok (check_commands e _)) eqn:E8; now rewrite ?E8. }
  rewrite Hshape. clear Hshape.
  set (s0 := start_S e n).
  pose proof (tick_load_keeps e s0) as [L1 L2].
  rewrite andthen_eq. destruct (ok (tick_load e s0)); [|apply L2; exact Hne].
  set (s1 := tick_load e s0) in *.
  pose proof (tick_middle_keeps e s1) as ((M1 & M2) & M3 & M4 & M5).
  rewrite andthen_eq.
  match goal with |- log (nd (if ok ?X then _ else _)) <> [] => set (s2 := X) in * end.
  destruct (ok s2); [|apply M2, L2; exact Hne].
  apply try_compact_nonempty.
  - apply M1, L1. exact Hwf.
  - apply M2, L2. exact Hne.
  - intros Hp. rewrite M3 in Hp. rewrite M4.
    (* the job was pending at the start of the tick unless tick_load changed it: it does not *)
    assert (Hsr : sr (nd s1) = sr n /\ (pid (sr n) = 1 -> log (nd s1) = log n)).
    { subst s1 s0. unfold tick_load. rewrite nd_upd. cbn [sr log set nd start_S].
      split.
      - destruct (_ && _); [apply (fr_load_dump sr); frs|reflexivity].
      - intros Hp1. destruct (Hok Hp1) as [-> _]. reflexivity. }
    destruct Hsr as [Hsr Hlg]. rewrite Hsr in Hp |- *. destruct (Hok Hp) as [_ Hc].
    specialize (M5 (L2 Hne)). rewrite (Hlg Hp) in M5. lia.
Qed.

(* ------------------------------------------------------------------------------------------ *)
(* the remaining events, construction                                                         *)

Lemma on_connected_keeps x n : nkeeps n (on_connected x n).
Proof. apply nkeeps_los. unfold on_connected. destruct (_ <=? _); reflexivity. Qed.

Lemma on_disconnected_keeps x n : nkeeps n (on_disconnected x n).
Proof.
  unfold on_disconnected. destruct (_ <=? _).
  - eapply nkeeps_trans; [eapply (nkeeps_trans_only n _ (adel x (trans (sr n)))); [reflexivity|]|apply nkeeps_los; reflexivity].
    intros (S1 & S2 & S3) y bl o Hin. apply In_adel in Hin. eapply S2; eauto.
  - eapply nkeeps_trans; [eapply (nkeeps_trans_only n _ (adel x (trans (sr n)))); [reflexivity|]|apply nkeeps_los; reflexivity].
    intros (S1 & S2 & S3) y bl o Hin. apply In_adel in Hin. eapply S2; eauto.
Qed.

(* C04_log_wf: every handler, given well-formed deliveries *)
Theorem nstep_wf c n n' : nstep c msg_wf n n' -> node_wf n -> node_wf n'.
Proof.
  intros H Hwf. destruct H.
  - now apply on_tick_wf.
  - now apply on_message_keeps.
  - now apply on_connected_keeps.
  - now apply on_disconnected_keeps.
  - apply (nkeeps_los n); [|exact Hwf]. unfold api_submit. apply (fr_submit los); reflexivity.
  - apply (nkeeps_los n); [|exact Hwf]. unfold api_admin.
    destruct (dyn (cf e)); [apply (fr_submit los); reflexivity|reflexivity].
  - apply (nkeeps_los n); [|exact Hwf]. unfold api_setver.
    destruct (_ || _); [reflexivity|apply (fr_submit los); reflexivity].
  - apply (nkeeps_los n); [|exact Hwf]. reflexivity.
Qed.

Theorem nstep_nonempty c n n' :
  nstep c msg_wf n n' -> node_wf n -> log n <> [] ->
  (forall e, cf e = c -> compact_ok e n) -> log n' <> [].
Proof.
  intros H Hwf Hne Hok. destruct H.
  - apply on_tick_nonempty; auto.
  - now apply on_message_keeps.
  - now apply on_connected_keeps.
  - now apply on_disconnected_keeps.
  - apply (nkeeps_los n); [|exact Hne]. unfold api_submit. apply (fr_submit los); reflexivity.
  - apply (nkeeps_los n); [|exact Hne]. unfold api_admin.
    destruct (dyn (cf e)); [apply (fr_submit los); reflexivity|reflexivity].
  - apply (nkeeps_los n); [|exact Hne]. unfold api_setver.
    destruct (_ || _); [reflexivity|apply (fr_submit los); reflexivity].
  - apply (nkeeps_los n); [|exact Hne]. reflexivity.
Qed.

Lemma init_node_wf e me oth sv : ssorted oth -> node_wf (init_node e me oth sv) /\ log (init_node e me oth sv) <> [].
Proof.
  intros H. split; [|discriminate]. split; [cbn; auto|]. split; [exact H|].
  cbn. repeat split; intros; try discriminate; contradiction.
Qed.

(* the condition of on_tick_nonempty is needed: a node whose pending job points beyond a log that was
   replaced meanwhile ends with an empty log (state-level witness, not a reachable-state claim) *)
Definition empty_log_env : env :=
  mkEnv (mkConf 10 100 50 300 10 10 true false true 10 10 100 10 false false) 0 30 0 [] 0.
Definition empty_log_node : node :=
  (init_node empty_log_env (Some 1) [2; 3] 0)
    <| need_load := false |>
    <| sr := mkSer 1 9 None [] None |>.

Example compact_ok_needed :
  node_wf empty_log_node /\ log empty_log_node <> [] /\
  log (nd (on_tick empty_log_env empty_log_node)) = [].
Proof.
  split; [|split; [discriminate|vm_compute; reflexivity]].
  split; [cbn; auto|]. split; [cbn; lia|].
  cbn. repeat split; intros; try discriminate; contradiction.
Qed.

(* ------------------------------------------------------------------------------------------ *)
(* C09_install_keeps_suffix: on a well-formed log the install keeps exactly the entries from the
   snapshot's first entry on *)

Lemma delete_to_filter l f :
  consec l -> first_idx l <= f -> delete_to l f = filter (fun en => f <=? eidx en) l.
Proof.
  intros Hc Hf. unfold delete_to. destruct (f <? first_idx l) eqn:E; [apply N.ltb_lt in E; lia|].
  rewrite (skipn_filter _ l Hc). apply filter_ext_in'. intros x _.
  replace (first_idx l + N.of_nat (N.to_nat (f - first_idx l))) with f by lia. reflexivity.
Qed.

Lemma snap_kept_first sn l : snap_kept sn l = true -> first_idx l <= eidx (s_e0 sn).
Proof.
  unfold snap_kept, get_entries. destruct (eidx (s_e0 sn) <? first_idx l) eqn:E; [discriminate|].
  intros _. now apply N.ltb_ge in E.
Qed.

Theorem install_keeps_suffix e from t c p n sn :
  term n <= t -> recv_snapshot p (sr n) = Some (Good sn) ->
  s_ver sn <= self_ver n -> applied n < eidx (s_e1 sn) ->
  consec (log n) -> snap_kept sn (log n) = true ->
  let n' := nd (on_message e from (AESnap t c p) n) in
  log n' = filter (fun en => eidx (s_e0 sn) <=? eidx en) (log n) /\
  (forall en, In en (log n) -> eidx (s_e1 sn) < eidx en -> In en (log n')) /\
  applied n' = eidx (s_e1 sn).
Proof.
  intros Ht Hr Hv Ha Hc Hk. cbv zeta.
  destruct (install_keeps_acknowledged e from t c p n sn Ht Hr Hv Ha) as (H1 & H2 & _ & _). cbv zeta in *.
  destruct (H2 Hk) as (Hd & pre & a & b & r & Hl & Ea & Eb & Hl').
  assert (Hf : log (nd (on_message e from (AESnap t c p) n)) =
               filter (fun en => eidx (s_e0 sn) <=? eidx en) (log n)).
  { rewrite Hd. apply delete_to_filter; [exact Hc|now apply snap_kept_first]. }
  split; [exact Hf|]. split; [|exact H1].
  intros en Hin Hgt. rewrite Hf. apply filter_In. split; [exact Hin|]. apply N.leb_le.
  (* e0 sits right before e1 in the log *)
  rewrite Hl in Hc. apply consec_app_inv in Hc. destruct Hc as [_ [Hab _]].
  apply entry_eqb_eidx in Ea, Eb. lia.
Qed.
