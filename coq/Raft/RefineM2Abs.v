(* Tier CM2, part 1: the relation between L1 with dynamic membership AND log compaction / snapshots
   and AbstractM.  Merge of RefineMAbs.v (membership: member table = fold of the membership entries over
   the start list) and Refine2Abs.v (compaction: the AbstractM log of a voter is its FULL log, the L1 log a
   suffix of it; a snapshot is "the first k entries of the committed log").
   New here: a snapshot also carries the member set of its position: [snap_valid] says that [s_cluster]
   has the elements of [gcfg] of that prefix (sorted).
   The abstraction of membership commands forgets their size fields; in this tier the size fields of a
   membership command are a function [mf] of its content (they are byte lengths), which makes the
   abstraction injective on the entries of the fragment ([absE_inj_small]). *)
From Coq Require Import ZArith NArith List Bool Lia ZifyBool Arith PeanoNat.
From RecordUpdate Require Import RecordSet.
From PSO Require Import Raft.Types Raft.Node Raft.Net.
From PSO Require Import Raft.ProofsElectionBase Raft.ProofsCommitBase Raft.ProofsMembership Raft.ProofsMembershipInv.
From PSO Require Import Raft.RefineMAbs Raft.RefineMEff Raft.RefineMCfg Raft.RefineM2First.
From PSO Require AbstractM.Model AbstractM.Lib AbstractM.Kstep AbstractM.Cfg AbstractM.Safety0_Base
  AbstractM.Safety1_WF AbstractM.Safety2_Election AbstractM.Safety3_LeaderLog AbstractM.Safety4_LogMatching
  AbstractM.Safety6_LC AbstractM.Safety7_SM AbstractM.SafetyAll AbstractM.Theorems.
Import ListNotations.
Import RecordSetNotations.
Open Scope N_scope.
#[local] Arguments firstn : simpl nomatch.
#[local] Arguments skipn : simpl nomatch.

Module S0 := PSO.AbstractM.Safety0_Base.
Module S1 := PSO.AbstractM.Safety1_WF.
Module S2 := PSO.AbstractM.Safety2_Election.
Module S3 := PSO.AbstractM.Safety3_LeaderLog.
Module S4 := PSO.AbstractM.Safety4_LogMatching.
Module S6 := PSO.AbstractM.Safety6_LC.
Module S7 := PSO.AbstractM.Safety7_SM.
Module S8 := PSO.Raft.RefineM2First.
Module SA := PSO.AbstractM.SafetyAll.
Module TH := PSO.AbstractM.Theorems.

Lemma F0_disc : SA.disciplined F0.
Proof. repeat split. Qed.

(* ------------------------------------------------------------------------------------------ *)
(* an L1 log as a suffix of the full log (copied from Refine2Abs.v)                           *)

Definition suffix_of (l full : list entry) : Prop :=
  exists b, l = skipn b full /\ (b < length full)%nat.

Lemma nth_error_skipn {A} (l : list A) k p : nth_error (skipn k l) p = nth_error l (k + p).
Proof. apply ML.nth_error_skipn. Qed.

Lemma skipn_skipn' {A} (x y : nat) (l : list A) : skipn x (skipn y l) = skipn (y + x) l.
Proof.
  revert l. induction y as [|y IH]; intros l; [reflexivity|].
  destruct l as [|a l]; [cbn; rewrite !skipn_nil; reflexivity|]. cbn [skipn plus]. apply IH.
Qed.

Lemma In_skipn_in' {A} k (l : list A) x : In x (skipn k l) -> In x l.
Proof. revert l. induction k as [|k IH]; intros [|a l]; cbn; try tauto. intros H; auto. Qed.

Section Suffix.
Variables (l full : list entry).
Hypothesis W : wf1 full.
Hypothesis Sx : suffix_of l full.

Lemma suffix_base : exists b, l = skipn b full /\ (b < length full)%nat /\ first_idx l = N.of_nat b + 1.
Proof.
  destruct Sx as (b & E & Hb). exists b. split; auto. split; auto.
  destruct (nth_error full b) as [e|] eqn:En; [|apply nth_error_None in En; lia].
  rewrite E, (skipn_nth_cons _ _ _ En). cbn. destruct W as [_ H]. apply (H b e En).
Qed.

Lemma suffix_ne : l <> [].
Proof.
  destruct Sx as (b & E & Hb). intros ->.
  assert (length (skipn b full) = 0%nat) by (rewrite <- E; reflexivity). rewrite skipn_length in H. lia.
Qed.

Lemma suffix_first_pos : 1 <= first_idx l.
Proof. destruct suffix_base as (b & _ & _ & E). lia. Qed.

Lemma suffix_last : last_entry l = last_entry full.
Proof.
  destruct Sx as (b & E & Hb). subst l. clear W Sx. revert full Hb.
  induction b as [|b IH]; intros full Hb; [reflexivity|].
  destruct full as [|a r]; [cbn in Hb; lia|]. cbn [skipn]. rewrite IH by (cbn in Hb; lia).
  destruct r; [cbn in Hb; lia|reflexivity].
Qed.

Lemma suffix_last_idx : last_idx l = last_idx full.
Proof. unfold last_idx. rewrite suffix_last. reflexivity. Qed.

Lemma suffix_last_term : last_term l = last_term full.
Proof. unfold last_term. rewrite suffix_last. reflexivity. Qed.

Lemma suffix_ge f c m : first_idx l <= f -> get_entries l (Some f) c m = get_entries full (Some f) c m.
Proof.
  intros Hf. destruct suffix_base as (b & E & Hb & Efi).
  unfold get_entries. rewrite Efi in *. rewrite (wf1_first_idx full W).
  destruct (f <? N.of_nat b + 1) eqn:E1; [lia|]. destruct (f <? 1) eqn:E2; [lia|].
  apply N.ltb_ge in E1, E2.
  rewrite E, skipn_skipn'.
  assert (Ex : (b + n2 (f - (N.of_nat b + 1)))%nat = n2 (f - 1)) by (clear - E1; lia).
  rewrite Ex. reflexivity.
Qed.

Lemma suffix_lt f c m : f < first_idx l -> get_entries l (Some f) c m = [].
Proof. intros Hf. unfold get_entries. destruct (f <? first_idx l) eqn:E; [reflexivity|lia]. Qed.

Lemma suffix_nth p : first_idx l <= N.of_nat p + 1 ->
  nth_error l (p + 1 - n2 (first_idx l)) = nth_error full p.
Proof.
  intros Hp. destruct suffix_base as (b & E & Hb & Efi). rewrite Efi in *. rewrite E, nth_error_skipn. f_equal. lia.
Qed.

Lemma suffix_In e : In e l -> In e full.
Proof. destruct Sx as (b & E & _). rewrite E. apply In_skipn_in'. Qed.

End Suffix.

Lemma suffix_app l full e : suffix_of l full -> suffix_of (l ++ [e]) (full ++ [e]).
Proof.
  intros (b & E & Hb). exists b. split; [|rewrite app_length; lia].
  rewrite E. rewrite skipn_app. replace (b - length full)%nat with 0%nat by lia. reflexivity.
Qed.

Lemma suffix_apps l full r : suffix_of l full -> suffix_of (l ++ r) (full ++ r).
Proof.
  intros (b & E & Hb). exists b. split; [|rewrite app_length; lia].
  rewrite E. rewrite skipn_app. replace (b - length full)%nat with 0%nat by lia. reflexivity.
Qed.

Lemma suffix_Forall (P : entry -> Prop) l full : suffix_of l full -> Forall P full -> Forall P l.
Proof.
  intros (b & -> & _) H. rewrite Forall_forall in *. intros x Hx. apply H. eapply In_skipn_in'; eauto.
Qed.

(* two sorted lists with the same elements are equal *)
Lemma ssorted_ext a : forall b, ssorted a -> ssorted b -> (forall y, In y a <-> In y b) -> a = b.
Proof.
  induction a as [|x a IH]; intros [|y b] Sa Sb H.
  - reflexivity.
  - exfalso. apply (proj2 (H y)). left. reflexivity.
  - exfalso. apply (proj1 (H x)). left. reflexivity.
  - assert (Sa' : ssorted a) by (destruct Sa; auto). assert (Sb' : ssorted b) by (destruct Sb; auto).
    assert (Exy : x = y).
    { destruct (proj1 (H x) (or_introl eq_refl)) as [E|Hi]; [auto|].
      destruct (proj2 (H y) (or_introl eq_refl)) as [E|Hj]; [auto|].
      pose proof (ssorted_lb y b Sb x (In_smem _ _ Hi)). pose proof (ssorted_lb x a Sa y (In_smem _ _ Hj)). lia. }
    subst y. f_equal. apply IH; auto. intros z. split; intros Hz.
    + destruct (proj1 (H z) (or_intror Hz)) as [E|Hi]; [|exact Hi].
      subst z. pose proof (ssorted_lb x a Sa x (In_smem _ _ Hz)). lia.
    + destruct (proj2 (H z) (or_intror Hz)) as [E|Hi]; [|exact Hi].
      subst z. pose proof (ssorted_lb x b Sb x (In_smem _ _ Hz)). lia.
Qed.

(* ------------------------------------------------------------------------------------------ *)
Section Rel.
Variable c : conf.
Variable mf : N -> N -> N * N.      (* size fields (csz, cpk) of a membership command as a function of (ca, cb) *)
Variable V : list nid.

Notation pk := (pk c).
Notation V' := (absV V).

(* commands of the fragment: smaller than a batch; a membership command names a voter id, is "add"
   (ca = 1) or "rem" (ca = 2) and its size fields are determined by its content *)
Definition canon (x : cmd) : Prop := (ca x = 1 \/ ca x = 2) /\ (csz x, cpk x) = mf (ca x) (cb x).
Definition small_cmd (x : cmd) : Prop := csz x < batch c /\ (ck x = 2 -> cb x < RO_BASE /\ canon x).
Definition small (e : entry) : Prop := small_cmd (ecmd e).

Lemma small_cmd_old x : small_cmd x -> RefineMAbs.small_cmd c x.
Proof. intros [A B]. split; auto. intros H. apply (B H). Qed.

Lemma small_old e : small e -> RefineMAbs.small c e.
Proof. apply small_cmd_old. Qed.

Lemma Forall_small_old l : Forall small l -> Forall (RefineMAbs.small c) l.
Proof. apply Forall_impl. apply small_old. Qed.

Lemma small_noop t i : 1 < batch c -> small (mkEntry (noop_cmd pk) i t).
Proof. intros Hb. split; cbn; [exact Hb|discriminate]. Qed.

Lemma enc_inj_small a b : enc pk a = enc pk b -> small_cmd a -> small_cmd b -> a = b.
Proof.
  intros H [_ Sa] [_ Sb]. apply enc_sim in H as [H|[H Hn]]; [exact H|].
  unfold membership_of in *.
  destruct (ck a =? 2) eqn:Ka; [|contradiction]. destruct (ck b =? 2) eqn:Kb; [|discriminate].
  apply N.eqb_eq in Ka, Kb. destruct (Sa Ka) as (_ & Ca & Ma). destruct (Sb Kb) as (_ & Cb & Mb).
  injection H as H1 H2.
  assert (Eca : ca a = ca b).
  { destruct Ca as [Ca|Ca], Cb as [Cb|Cb]; rewrite Ca, Cb in *; cbn in H1; try discriminate; reflexivity. }
  rewrite Eca, H2 in Ma. rewrite <- Mb in Ma. injection Ma as M1 M2.
  destruct a, b; cbn in *. f_equal; congruence.
Qed.

Lemma absE_inj_small a b : absE pk a = absE pk b -> small a -> small b -> a = b.
Proof.
  unfold absE. intros H Sa Sb. injection H as H1 H2 H3. apply enc_inj_small in H3; auto.
  destruct a, b; cbn in *. f_equal; auto; lia.
Qed.

Lemma absL_inj_small la : forall lb, absL pk la = absL pk lb -> Forall small la -> Forall small lb -> la = lb.
Proof.
  induction la as [|a la IH]; intros [|b lb] H Sa Sb; try discriminate; auto.
  change (absE pk a :: absL pk la = absE pk b :: absL pk lb) in H.
  assert (H1 : absE pk a = absE pk b) by congruence.
  assert (H2 : absL pk la = absL pk lb) by congruence.
  inversion Sa; inversion Sb; subst. f_equal; [apply absE_inj_small; auto|apply IH; auto].
Qed.

(* L1-only facts about a member set carried by a snapshot *)
Definition csmall (cl : list nid) : Prop := ssorted cl /\ Forall (fun y => y < RO_BASE) cl.

Definition bsmall (b : blob) : Prop :=
  match b with
  | Good sn => small (s_e0 sn) /\ small (s_e1 sn) /\ csmall (s_cluster sn)
  | Corrupt _ => True
  end.

(* a snapshot is the image of the first k entries of the committed log, with the member set of
   that prefix *)
Definition snap_valid (s : M.state) (sn : snapshot) : Prop :=
  let k := n2 (eidx (s_e1 sn)) in
  small (s_e0 sn) /\ small (s_e1 sn) /\ csmall (s_cluster sn) /\ (2 <= k)%nat /\
  exists T0 p0 C0, In (T0, p0, C0) (M.direct s) /\ (k <= Sn p0)%nat /\
    nth_error (M.llog s T0) (k - 1) = Some (absE pk (s_e1 sn)) /\
    nth_error (M.llog s T0) (k - 2) = Some (absE pk (s_e0 sn)) /\
    ms (s_cluster sn) (M.gcfg V' (firstn k (M.llog s T0))).

Definition blob_valid (s : M.state) (b : blob) : Prop :=
  match b with Good sn => snap_valid s sn | Corrupt _ => True end.

Lemma blob_valid_small s b : blob_valid s b -> bsmall b.
Proof. destruct b; cbn; auto. intros (A & B & C & _). auto. Qed.

(* the message a receiver needs to install snapshot sn sent in term t to b with leader commit cm:
   an AppendEntries with prev = the common first entry carrying entries 2..k *)
Definition e00 : entry := mkEntry (noop_cmd pk) 1 0.

Lemma absE_e00 : absE pk e00 = M.e0.
Proof. unfold absE, e00. cbn [eidx eterm ecmd]. rewrite enc_noop. reflexivity. Qed.

Definition install_img (t a b cm : N) (sn : snapshot) (s : M.state) : Prop :=
  let k := n2 (eidx (s_e1 sn)) in
  eidx (s_e1 sn) <= cm /\
  exists Wl, In (M.AppendEntries (n2 t) (n2 a) (n2 b) 1 0 (absL pk Wl) (n2 cm)) (M.net s) /\
    (length Wl + 1 = k)%nat /\ Forall small Wl /\
    nth_error (e00 :: Wl) (k - 1) = Some (s_e1 sn) /\
    nth_error (e00 :: Wl) (k - 2) = Some (s_e0 sn).

Definition Rmsg (a b : nid) (m : msg) (s : M.state) : Prop :=
  match m with
  | RequestVote t li lt =>
      a < RO_BASE /\ a <> b /\ In (M.RequestVote (n2 t) (n2 a) (n2 li) (n2 lt)) (M.net s) /\ cand_knows s a t b
  | ResponseVote t =>
      a < RO_BASE /\ a <> b /\ In (M.Vote (n2 t) (n2 a) (n2 b)) (M.net s) /\ cand_knows s b t a
  | AE t cm (Some (pi, pt)) es =>
      a < RO_BASE /\ a <> b /\ Forall small es /\
      (b < RO_BASE -> In (M.AppendEntries (n2 t) (n2 a) (n2 b) (n2 pi) (n2 pt) (absL pk es) (n2 cm)) (M.net s))
  | AE t cm None es => a < RO_BASE /\ a <> b /\ (b < RO_BASE -> some_ae t a b s)
  | AEPiece _ _ _ _ _ _ _ => False
  | AESnap t cm SNone => a < RO_BASE /\ a <> b /\ (b < RO_BASE -> some_ae t a b s)
  | AESnap t cm (SData bl off len first last) =>
      a < RO_BASE /\ a <> b /\ blob_valid s bl /\
      (b < RO_BASE -> some_ae t a b s /\
                      (last = true -> forall sn, bl = Good sn -> install_img t a b cm sn s))
  | ApplyCmd x _ => small_cmd x
  | ApplyResp _ _ _ _ => True
  | NextIdx t nx _ su =>
      su = true -> a < RO_BASE -> In (M.AppendReply (n2 t) (n2 a) true (n2 nx - 1)) (M.net s)
  end.

Definition Ro (a : nid) (os : list out) (s : M.state) : Prop :=
  forall d m, In (Send d m) os -> Rmsg a d m s.

(* a blob held by a voter: valid, and not ahead of the holder's commit index *)
Definition held (x : node) (s : M.state) (bl : blob) : Prop :=
  forall sn, bl = Good sn -> snap_valid s sn /\ eidx (s_e1 sn) <= commit x.

Record Rn (n : nid) (x : node) (s : M.state) : Prop := {
  Rn_up : M.lf (M.nodes s (n2 n)) = M.Up;
  Rn_term : M.term (M.nodes s (n2 n)) = n2 (term x);
  Rn_voted : M.voted (M.nodes s (n2 n)) = option_map n2 (voted x);
  Rn_role : M.rl (M.nodes s (n2 n)) = absR (role x);
  (* the ghost full log: the L1 log is a suffix of it, the member table is its fold *)
  Rn_log : exists full, M.log (M.nodes s (n2 n)) = absL pk full /\ suffix_of (log x) full /\
                        Forall small full /\ others x = fold_members (vminus n V) full (Some n);
  Rn_commit : M.commit (M.nodes s (n2 n)) = n2 (commit x);
  Rn_votes : role x = CANDIDATE ->
               length (M.votesFrom (M.nodes s (n2 n))) = n2 (votes x) /\ In (n2 n) (M.votesFrom (M.nodes s (n2 n)));
  Rn_match : forall f m, In f (others x) -> f <> n -> aget f (match_idx x) = Some m ->
               (n2 m <= M.matchIdx (M.nodes s (n2 n)) (n2 f))%nat;
  Rn_self : voted x = Some n -> In (n2 (term x), n2 n, n2 n) (M.grants s);
  Rn_noop : role x = LEADER -> noop_idx x = Some (N.of_nat (M.noopi (M.nodes s (n2 n))) + 1);
  Rn_stored : forall bl, stored (sr x) = Some bl -> held x s bl;
  Rn_trans : forall d bl off, In (d, (bl, off)) (trans (sr x)) -> held x s bl;
  Rn_incoming : forall ps bl o l, incoming (sr x) = Some ps -> In (bl, o, l) ps -> blob_valid s bl
}.

(* L1-only hygiene of a voter of the fragment *)
Record Hn (x : node) : Prop := {
  H_small : Forall small (log x);
  H_queue : Forall (fun q => small_cmd (fst q)) (queue x);
  H_rinv : replay_idx x <= applied x;
  H_ro : Forall (fun y => RO_BASE <= y) (readonly x);
  H_ac : applied x <= commit x;
  H_fi : first_idx (log x) <= applied x;
  H_cur : pid (sr x) = 1 -> cur_id (sr x) < applied x;
  H_stored : forall bl, stored (sr x) = Some bl -> bsmall bl;
  H_incoming : forall ps bl o l, incoming (sr x) = Some ps -> In (bl, o, l) ps -> bsmall bl;
  H_pend : pend x
}.

(* hygiene of a read-only node (outside the abstract cluster) *)
Record Hr (x : node) : Prop := {
  Hr_queue : Forall (fun q => small_cmd (fst q)) (queue x);
  Hr_rinv : replay_idx x <= applied x;
  Hr_ac : applied x <= commit x
}.

Record R (g : gstate) (st : list nid) (s : M.state) : Prop := {
  R_node : forall v x, aget v (nodes g) = Some x -> v < RO_BASE -> Rn v x s;
  R_init : forall v, In v V -> ~ In v st -> pristine (M.nodes s (n2 v));
  R_fresh : forall y, ~ In y V -> ~ In y st -> M.lf (M.nodes s (n2 y)) = M.Fresh;
  R_msg : forall a b m, In m (chan_get a b g) -> Rmsg a b m s;
  R_el : El g s;
  R_hyg : forall v x, aget v (nodes g) = Some x -> v < RO_BASE -> Hn x /\ self x = Some v;
  R_ro : forall v x, aget v (nodes g) = Some x -> RO_BASE <= v -> Hr x /\ self x = None /\ role x = FOLLOWER
}.

(* ---- the AbstractM invariants of a reachable state ---- *)
Hypothesis NDV : NoDup V.
Hypothesis VNE : V <> [].

Lemma V'_nodup : NoDup V'.
Proof. apply absV_NoDup. exact NDV. Qed.
Lemma V'_ne : V' <> [].
Proof. destruct V; [contradiction|discriminate]. Qed.

Lemma kall s : KS.kreachable V' F0 s -> SA.AllInv V' F0 s.
Proof. apply (TH.k_all V' F0 F0_disc V'_nodup V'_ne). Qed.

Lemma kLC s : KS.kreachable V' F0 s -> S7.LC s.
Proof. intros HR. apply (SA.all_LC V' F0 V'_nodup s (kall s HR)). Qed.

Lemma kLF s : KS.kreachable V' F0 s -> S2.LF s.
Proof. intros HR. apply (SA.all_LF V' F0 F0_disc V'_nodup s (kall s HR)). Qed.

Lemma llog_kstep s s' T :
  KS.kreachable V' F0 s -> KS.kstep V' F0 s s' -> exists r, M.llog s' T = M.llog s T ++ r.
Proof.
  intros HR K. pose proof (kall s HR) as A.
  destruct (S3.kstep_llog V' F0 s s' T (SA.A1 _ _ _ A) (SA.A2 _ _ _ A) (SA.A3 _ _ _ A) (kLF s HR) K) as (r & E & _).
  eauto.
Qed.

(* ---- monotonicity ---- *)
Lemma snap_valid_kstep s s' sn :
  KS.kreachable V' F0 s -> KS.kstep V' F0 s s' -> snap_valid s sn -> snap_valid s' sn.
Proof.
  intros HR K (A & B & C0 & C & T0 & p0 & Cd & D & E & F & G & H).
  split; auto. split; auto. split; auto. split; auto.
  exists T0, p0, Cd. split; [eapply KS.kstep_direct; eauto|]. split; auto.
  destruct (llog_kstep s s' T0 HR K) as (r & ->).
  split; [apply S3.nth_error_app_some; auto|]. split; [apply S3.nth_error_app_some; auto|].
  rewrite ML.firstn_app_le; auto.
  assert (X : (n2 (eidx (s_e1 sn)) - 1 < length (M.llog s T0))%nat) by (apply nth_error_Some; congruence). lia.
Qed.

Lemma snap_valid_kstar s s' sn :
  KS.kreachable V' F0 s -> kstar V s s' -> snap_valid s sn -> snap_valid s' sn.
Proof.
  intros HR K. induction K as [|s1 s2 K IH Ks]; auto. intros H.
  eapply snap_valid_kstep; [|exact Ks|auto]. eapply kstar_kreachable; eauto.
Qed.

Lemma blob_valid_kstar s s' b :
  KS.kreachable V' F0 s -> kstar V s s' -> blob_valid s b -> blob_valid s' b.
Proof. destruct b; cbn; auto. apply snap_valid_kstar. Qed.

Lemma held_kstar x s s' bl : KS.kreachable V' F0 s -> kstar V s s' -> held x s bl -> held x s' bl.
Proof. intros HR K H sn E. destruct (H sn E) as [A B]. split; auto. eapply snap_valid_kstar; eauto. Qed.

Lemma install_img_ext j t a b cm sn s s' : ext j s s' -> install_img t a b cm sn s -> install_img t a b cm sn s'.
Proof.
  intros E (A & W & B & C). split; auto. exists W. split; auto. apply (ext_net _ _ _ E). exact B.
Qed.

Lemma some_ae_ext j t a b s s' : ext j s s' -> some_ae t a b s -> some_ae t a b s'.
Proof.
  intros E (pi & pt & es & lc & H). exists pi, pt, es, lc. apply (ext_net _ _ _ E). exact H.
Qed.

Lemma Rmsg_mono j a b m s s' :
  KS.kreachable V' F0 s -> ksn V j s s' -> Rmsg a b m s -> Rmsg a b m s'.
Proof.
  intros HR K. pose proof (ksn_ext _ _ _ _ K) as E. pose proof (ksn_kstar _ _ _ _ K) as KS.
  pose proof (ext_net _ _ _ E) as Hn0. unfold incl in Hn0. unfold Rmsg.
  destruct m as [t li lt|t|t cm [[pi pt]|] es|t cm prev lab off len en|t cm [|bl off len first last]|x req|req okr a0 b0|t nx r su];
    try solve [firstorder].
  - intros (A & B & C & D). split; [auto|split; [auto|split; [auto|eapply cand_knows_ext; eauto]]].
  - intros (A & B & C & D). split; [auto|split; [auto|split; [auto|eapply cand_knows_ext; eauto]]].
  - intros (A & B & C). repeat split; auto. intros Hb. eapply some_ae_ext; eauto.
  - intros (A & B & C). repeat split; auto. intros Hb. eapply some_ae_ext; eauto.
  - intros (A & B & C & D).
    split; [exact A|]. split; [exact B|]. split; [eapply blob_valid_kstar; eauto|].
    intros Hb. destruct (D Hb) as [D1 D2]. split; [eapply some_ae_ext; eauto|].
    intros Hl sn0 Hb0. eapply install_img_ext; eauto.
Qed.

Lemma Ro_mono j a os s s' : KS.kreachable V' F0 s -> ksn V j s s' -> Ro a os s -> Ro a os s'.
Proof. intros HR K H d m Hin. eapply Rmsg_mono; eauto. Qed.

Lemma Ro_app a os1 os2 s : Ro a os1 s -> Ro a os2 s -> Ro a (os1 ++ os2) s.
Proof. intros A B d m Hin. apply in_app_or in Hin as [H|H]; auto. Qed.

Lemma Ro_nil a s : Ro a [] s.
Proof. intros d m []. Qed.

Lemma Rn_mono j n x s s' :
  KS.kreachable V' F0 s -> ksn V j s s' -> n2 n <> j -> Rn n x s -> Rn n x s'.
Proof.
  intros HR K Hne [A0 A1 A2 A3 A4 A5 A6 A7 A8 A9 A10 A11 A12].
  pose proof (ksn_ext _ _ _ _ K) as E. pose proof (ksn_kstar _ _ _ _ K) as KS.
  pose proof (ext_nodes _ _ _ E (n2 n) Hne) as En.
  constructor; rewrite ?En; auto.
  - intros Hv. apply (ext_grants _ _ _ E). auto.
  - intros bl Hb. eapply held_kstar; eauto.
  - intros d bl off Hb. eapply held_kstar; eauto.
  - intros ps bl o l Hi Hb. eapply blob_valid_kstar; eauto.
Qed.

End Rel.
