(* C10_snapshot_members: the member set a snapshot stores is the one defined by the membership
   commands up to the snapshot's position (after the repair of finding F2: __tryLogCompaction undoes
   the membership requests of the entries behind lastApplied, latest first). *)
From Coq Require Import ZArith NArith List Bool Lia ZifyBool ZifyN.
From RecordUpdate Require Import RecordSet.
From PSO Require Import Raft.Types Raft.Node Raft.Net Raft.Obs Raft.ProofsCommitBase Raft.ProofsCommit
  Raft.ProofsMembership Raft.ProofsCommitLog.
Import ListNotations.
Import RecordSetNotations.
Open Scope N_scope.

(* sorted sets are determined by their members *)
Lemma ssorted_not_head x r : ssorted (x :: r) -> smem x r = false.
Proof.
  intros H. destruct (smem x r) eqn:E; [|reflexivity]. pose proof (ssorted_lb x r H x E). lia.
Qed.

Lemma ssorted_ext a b : ssorted a -> ssorted b -> (forall y, smem y a = smem y b) -> a = b.
Proof.
  revert b. induction a as [|x a IH]; intros b Ha Hb H.
  - destruct b as [|y b]; [reflexivity|]. specialize (H y). cbn in H. rewrite N.eqb_refl in H. discriminate.
  - destruct b as [|y b]; [specialize (H x); cbn in H; rewrite N.eqb_refl in H; discriminate|].
    assert (Hxy : x = y).
    { pose proof (H x) as H1. pose proof (H y) as H2.
      change (smem x (x :: a)) with ((x =? x) || smem x a) in H1.
      change (smem x (y :: b)) with ((x =? y) || smem x b) in H1.
      change (smem y (x :: a)) with ((y =? x) || smem y a) in H2.
      change (smem y (y :: b)) with ((y =? y) || smem y b) in H2.
      rewrite N.eqb_refl in H1, H2. cbn [orb] in H1, H2.
      destruct (N.lt_trichotomy x y) as [L|[E|L]]; [|exact E|].
      - symmetry in H1. apply orb_prop in H1. destruct H1 as [H1|H1]; [apply N.eqb_eq in H1; lia|].
        pose proof (ssorted_lb y b Hb x H1). lia.
      - apply orb_prop in H2. destruct H2 as [H2|H2]; [apply N.eqb_eq in H2; lia|].
        pose proof (ssorted_lb x a Ha y H2). lia. }
    subst y. f_equal. apply IH; [apply Ha|apply Hb|].
    intros z. specialize (H z). cbn in H. destruct (z =? x) eqn:E; [|exact H].
    apply N.eqb_eq in E. subst z. now rewrite (ssorted_not_head x a Ha), (ssorted_not_head x b Hb).
Qed.

Lemma sdel_absent x l : smem x l = false -> sdel x l = l.
Proof.
  induction l as [|z l IH]; intros H; cbn in *; [reflexivity|].
  apply orb_false_elim in H. destruct H as [H1 H2]. rewrite H1. f_equal. auto.
Qed.

Lemma sadd_present x l : ssorted l -> smem x l = true -> sadd x l = l.
Proof.
  intros Hs H. apply ssorted_ext; [now apply ssorted_sadd|exact Hs|].
  intros y. rewrite smem_sadd. destruct (y =? x) eqn:E; [|reflexivity]. apply N.eqb_eq in E. subst. now rewrite H.
Qed.

Definition with_self (me : option nid) (l : list nid) : list nid :=
  match me with Some i => sadd i l | None => l end.

(* one step of __clusterBeforeChange on the set that includes this node *)
Definition cb_step (me : option nid) (cl : list nid) (o : mop) : list nid :=
  if is_me me (snd o) then cl else if fst o then sdel (snd o) cl else sadd (snd o) cl.

Lemma cluster_before_ops n res cl :
  cluster_before n res cl = fold_left (cb_step (self n)) (mem_ops res) cl.
Proof.
  unfold cluster_before. revert cl. induction res as [|en res IH]; intros cl; [reflexivity|].
  cbn [fold_left mem_ops flat_map]. rewrite IH. fold (mem_ops res).
  destruct (membership_of (ecmd en)) as [[a x]|]; cbn [app fold_left]; [|reflexivity].
  unfold cb_step. cbn [fst snd]. rewrite is_me_self. reflexivity.
Qed.

Lemma ssorted_with_self me l : ssorted l -> ssorted (with_self me l).
Proof. destruct me; cbn; auto using ssorted_sadd. Qed.

Lemma with_self_undo me l o :
  ssorted l -> with_self me (step_member me l (flip_op o)) = cb_step me (with_self me l) o.
Proof.
  intros Hs. destruct o as [a x]. unfold step_member, flip_op, cb_step. cbn [fst snd].
  destruct (is_me me x) eqn:Eme; cbn [orb]; [destruct a; reflexivity|].
  destruct a; cbn [negb orb].
  - (* undo of add x: remove x *)
    assert (G : with_self me (sdel x l) = sdel x (with_self me l)).
    { destruct me as [i|]; [|reflexivity]. cbn in *.
      apply ssorted_ext; [now apply ssorted_sadd, ssorted_sdel|now apply ssorted_sdel, ssorted_sadd|].
      intros y. rewrite smem_sadd, !smem_sdel, smem_sadd by auto using ssorted_sadd.
      destruct (y =? i) eqn:E1, (y =? x) eqn:E2; cbn; try reflexivity.
      apply N.eqb_eq in E1, E2. subst. rewrite N.eqb_refl in Eme. discriminate. }
    destruct (smem x l) eqn:Em; cbn [negb]; [exact G|].
    rewrite <- G. now rewrite sdel_absent.
  - (* undo of rem x: put x back *)
    assert (G : with_self me (sadd x l) = sadd x (with_self me l)).
    { destruct me as [i|]; [|reflexivity]. cbn.
      apply ssorted_ext; [now apply ssorted_sadd, ssorted_sadd|now apply ssorted_sadd, ssorted_sadd|].
      intros y. rewrite !smem_sadd. destruct (y =? i), (y =? x); reflexivity. }
    destruct (smem x l) eqn:Em; [|exact G].
    rewrite <- G. now rewrite sadd_present.
Qed.

Lemma with_self_undo_fold me ops l :
  ssorted l ->
  with_self me (fold_left (step_member me) (map flip_op ops) l) = fold_left (cb_step me) ops (with_self me l).
Proof.
  revert l. induction ops as [|o ops IH]; intros l Hs; [reflexivity|]. cbn [map fold_left].
  rewrite IH by now apply ssorted_step. now rewrite with_self_undo.
Qed.

(* the entries up to / behind an index *)
Definition upto (a : N) (l : list entry) : list entry := filter (fun en => eidx en <=? a) l.

Lemma log_split_applied l a :
  consec l -> first_idx l <= a + 1 ->
  l = upto a l ++ get_entries l (Some (a + 1)) None None.
Proof.
  intros Hc Hf. unfold get_entries.
  destruct (a + 1 <? first_idx l) eqn:E; [lia|].
  rewrite <- (firstn_skipn (N.to_nat (a + 1 - first_idx l)) l) at 1. f_equal.
  rewrite (firstn_filter _ l Hc). unfold upto. apply filter_ext_in'. intros x _.
  replace (first_idx l + N.of_nat (N.to_nat (a + 1 - first_idx l))) with (a + 1) by lia. lia.
Qed.

(* what try_compact stores when it starts a serialization *)
Lemma capture_cluster e s :
  pid (sr (nd (try_compact e s))) = 1 ->
  first_idx (log (nd s)) <= applied (nd s) - 1 /\
  exists sn, stored (sr (nd (try_compact e s))) = Some (Good sn) /\
    s_cluster sn = cluster_before (nd s) (rev (get_entries (log (nd s)) (Some (applied (nd s) + 1)) None None))
                     (with_self (self (nd s)) (others (nd s))).
Proof.
  unfold try_compact.
  destruct (pid (sr (nd s)) =? 0) eqn:E0.
  2:{ cbn [negb]. destruct (pid (sr (nd s)) =? 1); unfold upd; cbn; intros H; discriminate. }
  assert (E1 : (pid (sr (nd s)) =? 1) = false) by lia.
  rewrite E1. cbn [negb]. apply N.eqb_eq in E0.
  destruct (_ && _ && _); [intros H; rewrite H in E0; discriminate|].
  destruct (get_entries (log (nd s)) (Some (applied (nd s) - 1)) (Some 2) None) as [|e0 [|e1 tl]] eqn:Eg.
  1,2: unfold upd; cbn; intros H; rewrite H in E0; discriminate.
  destruct (opt_eqb _ _) eqn:Eo; [unfold upd; cbn; intros H; rewrite H in E0; discriminate|].
  intros _.
  assert (Hf : first_idx (log (nd s)) <= applied (nd s) - 1).
  { unfold get_entries in Eg. destruct (applied (nd s) - 1 <? first_idx (log (nd s))) eqn:E; [discriminate|lia]. }
  split; [exact Hf|].
  eexists. split; [reflexivity|]. cbn. unfold with_self. reflexivity.
Qed.

(* C10_snapshot_members *)
Theorem snapshot_members e s base :
  let n := nd s in
  let me := self n in
  let lo := upto (applied n) (log n) in
  let hi := get_entries (log n) (Some (applied n + 1)) None None in
  pid (sr (nd (try_compact e s))) = 1 ->
  consec (log n) -> ssorted base ->
  others n = fold_members base (log n) me ->
  all_undo_ok me (fold_members base lo me) (mem_ops hi) = true ->
  log n = lo ++ hi /\
  exists sn, stored (sr (nd (try_compact e s))) = Some (Good sn) /\
             s_cluster sn = with_self me (fold_members base lo me).
Proof.
  cbv zeta. intros Hp Hc Hb Ho Hu.
  destruct (capture_cluster e s Hp) as (Hf & sn & Hst & Hcl).
  assert (Hsplit : log (nd s) = upto (applied (nd s)) (log (nd s)) ++
                               get_entries (log (nd s)) (Some (applied (nd s) + 1)) None None)
    by (apply log_split_applied; [exact Hc|lia]).
  split; [exact Hsplit|]. exists sn. split; [exact Hst|].
  rewrite Hcl, cluster_before_ops, mem_ops_rev.
  set (lo := upto (applied (nd s)) (log (nd s))) in *.
  set (hi := get_entries (log (nd s)) (Some (applied (nd s) + 1)) None None) in *.
  assert (Ho2 : others (nd s) = fold_left (step_member (self (nd s))) (mem_ops hi) (fold_members base lo (self (nd s)))).
  { rewrite Ho. rewrite Hsplit at 1. now rewrite fold_members_app. }
  rewrite <- with_self_undo_fold.
  - f_equal. rewrite Ho2. apply undo_exact; [apply ssorted_fold; exact Hb|exact Hu].
  - rewrite Ho. apply ssorted_fold. exact Hb.
Qed.

(* ------------------------------------------------------------------------------------------ *)
(* the member set after loading a snapshot: the snapshot's member set (without this node), and - on
   an install that keeps the log's suffix - the kept membership entries behind the snapshot's
   position applied on top of it, in order *)

Lemma load_dump_others e cl s sn :
  stored (sr (nd s)) = Some (Good sn) -> cl && (eidx (s_e1 sn) <=? applied (nd s)) = false ->
  s_ver sn <= self_ver (nd s) ->
  let n' := nd (load_dump e cl s) in
  let base := filter (fun x => negb (self_is x (nd s))) (s_cluster sn) in
  self n' = self (nd s) /\
  others n' =
    (if dyn (cf e)
     then if cl && snap_kept sn (log (nd s))
          then fold_left (step_member (self (nd s)))
                 (mem_ops (get_entries (log n') (Some (eidx (s_e1 sn) + 1)) None None)) base
          else base
     else others (nd s)).
Proof.
  intros Hs Hb Hv. cbv zeta.
  destruct (load_dump_loaded e cl s sn Hs Hb Hv) as [Hlog _].
  revert Hlog. unfold load_dump. rewrite Hs, Hb.
  destruct (self_ver (nd s) <? s_ver sn) eqn:E; [apply N.ltb_lt in E; lia|].
  cbv zeta. cbn [nd upd log set]. fold (snap_kept sn (log (nd s))).
  match goal with |- context [update_cluster ?l ?s4] => set (s5 := s4) end.
  match goal with |- context [update_cluster ?l s5] => set (new := l) end.
  assert (E5 : others (nd s5) = others (nd s) /\ self (nd s5) = self (nd s)).
  { subst s5. repeat (match goal with |- context [if ?b then _ else _] => destruct b end;
                      cbn [nd upd others self set]); split; reflexivity. }
  destruct E5 as [E5o E5s].
  assert (Hnew : new = filter (fun x => negb (self_is x (nd s))) (s_cluster sn)).
  { subst new. apply filter_ext. intros x. cbv beta.
    match goal with |- negb (self_is x ?nx) = _ => assert (Ex : self nx = self (nd s)) end.
    { repeat (match goal with |- context [if ?b then _ else _] => destruct b end; cbn [nd upd self set]);
        reflexivity. }
    unfold self_is. now rewrite Ex. }
  clearbody s5 new. subst new.
  destruct (dyn (cf e)); [|intros _; auto].
  set (u := update_cluster _ s5).
  assert (Eu : others (nd u) = filter (fun x => negb (self_is x (nd s))) (s_cluster sn) /\
               self (nd u) = self (nd s) /\ log (nd u) = log (nd s5)).
  { subst u. rewrite others_update_cluster. split; [reflexivity|].
    rewrite (fr_update_cluster self), (fr_update_cluster log) by frs. auto. }
  clearbody u. destruct Eu as (Eu1 & Eu2 & Eu3).
  destruct (cl && snap_kept sn (log (nd s))).
  - intros Hlog. rewrite (fr_apply_membership log) in Hlog by frs.
    destruct (apply_membership_others false (get_entries (log (nd u)) (Some (eidx (s_e1 sn) + 1)) None None) u)
      as [Ho Hself].
    rewrite Ho, Hself, Eu2, Eu1, map_xorb_false.
    rewrite (fr_apply_membership log) by frs. auto.
  - intros _. auto.
Qed.

(* C09_install_keeps_suffix, member set *)
Theorem install_members e from t c p n sn :
  term n <= t -> recv_snapshot p (sr n) = Some (Good sn) ->
  s_ver sn <= self_ver n -> applied n < eidx (s_e1 sn) ->
  let n' := nd (on_message e from (AESnap t c p) n) in
  let base := filter (fun x => negb (self_is x n)) (s_cluster sn) in
  others n' =
    (if dyn (cf e)
     then if snap_kept sn (log n)
          then fold_left (step_member (self n))
                 (mem_ops (get_entries (log n') (Some (eidx (s_e1 sn) + 1)) None None)) base
          else base
     else others n).
Proof.
  intros Ht Hr Hv Ha. cbv zeta.
  unfold on_message. rewrite on_append_entries_eq. cbn [nd start_S].
  destruct (t <? term n) eqn:Et; [apply N.ltb_lt in Et; lia|].
  set (s0 := ae_pre e from t c (start_S e n)).
  assert (A0 : applied (nd s0) = applied n) by (apply (fr_ae_pre applied); frs).
  assert (L0 : sr (nd s0) = sr n) by (apply (fr_ae_pre sr); frs).
  assert (V0 : self_ver (nd s0) = self_ver n) by (apply (fr_ae_pre self_ver); frs).
  assert (G0 : log (nd s0) = log n) by (apply (fr_ae_pre log); frs).
  assert (O0 : others (nd s0) = others n) by (apply (fr_ae_pre others); frs).
  assert (S0 : self (nd s0) = self n) by (apply (fr_ae_pre self); frs).
  clearbody s0. unfold ae_body_of.
  rewrite <- L0 in Hr.
  assert (Hah : snap_ahead (Good sn) (applied (nd s0)) = true)
    by (cbn; rewrite A0; apply negb_true_iff, N.leb_gt; exact Ha).
  destruct (set_transmission_recv p s0 _ Hr Hah) as [Hd Hst].
  pose proof (fr_set_transmission applied) as F1. specialize (F1 ltac:(frs) p s0).
  pose proof (fr_set_transmission self_ver) as F2. specialize (F2 ltac:(frs) p s0).
  pose proof (fr_set_transmission log) as F3. specialize (F3 ltac:(frs) p s0).
  pose proof (fr_set_transmission others) as F4. specialize (F4 ltac:(frs) p s0).
  pose proof (fr_set_transmission self) as F5. specialize (F5 ltac:(frs) p s0).
  destruct (set_transmission p s0) as [s2 dn]. cbn [fst snd] in *. subst dn.
  assert (Hok : load_dump_ok s2 = true).
  { unfold load_dump_ok. rewrite Hst, F1, A0, F2, V0.
    apply andb_true_intro. split; [apply negb_true_iff, N.leb_gt; exact Ha|apply N.leb_le; exact Hv]. }
  rewrite Hok. cbn [andb].
  assert (Hb : true && (eidx (s_e1 sn) <=? applied (nd s2)) = false)
    by (cbn; apply N.leb_gt; now rewrite F1, A0).
  assert (Hv2 : s_ver sn <= self_ver (nd s2)) by now rewrite F2, V0.
  destruct (load_dump_others e true s2 sn Hst Hb Hv2) as [_ Ho]. cbv zeta in Ho.
  rewrite (fr_ae_commit others), (fr_ae_commit log) by frs. rewrite !nd_send_next_idx.
  rewrite Ho. cbn [andb]. rewrite F3, G0, F4, O0, F5, S0.
  assert (Hfil : filter (fun x => negb (self_is x (nd s2))) (s_cluster sn) =
                 filter (fun x => negb (self_is x n)) (s_cluster sn)).
  { apply filter_ext. intros x. unfold self_is. now rewrite F5, S0. }
  now rewrite Hfil.
Qed.
