(* C10_snapshot_members: the member set a snapshot stores is the one defined by the membership
   commands up to the snapshot's position (after the repair of finding F2: __tryLogCompaction undoes
   the membership requests of the entries behind lastApplied, latest first). *)
From Coq Require Import ZArith NArith List Bool Lia ZifyBool ZifyN.
From RecordUpdate Require Import RecordSet.
From PSO Require Import Raft.Types Raft.Node Raft.Net Raft.Obs Raft.ProofsCommitBase Raft.ProofsCommit
  Raft.ProofsMembership Raft.ProofsCommitLog.
Import ListNotations.
Import RecordSetNotations.
Open Scope N_scope.

(* sorted sets are determined by their members *)
Lemma ssorted_not_head x r : ssorted (x :: r) -> smem x r = false.
Proof.
  intros H. destruct (smem x r) eqn:E; [|reflexivity]. pose proof (ssorted_lb x r H x E). lia.
Qed.

Lemma ssorted_ext a b : ssorted a -> ssorted b -> (forall y, smem y a = smem y b) -> a = b.
Proof.
  revert b. induction a as [|x a IH]; intros b Ha Hb H.
  - destruct b as [|y b]; [reflexivity|]. specialize (H y). cbn in H. rewrite N.eqb_refl in H. discriminate.
  - destruct b as [|y b]; [specialize (H x); cbn in H; rewrite N.eqb_refl in H; discriminate|].
    assert (Hxy : x = y).
    { pose proof (H x) as H1. pose proof (H y) as H2.
      change (smem x (x :: a)) with ((x =? x) || smem x a) in H1.
      change (smem x (y :: b)) with ((x =? y) || smem x b) in H1.
      change (smem y (x :: a)) with ((y =? x) || smem y a) in H2.
      change (smem y (y :: b)) with ((y =? y) || smem y b) in H2.
      rewrite N.eqb_refl in H1, H2. cbn [orb] in H1, H2.
      destruct (N.lt_trichotomy x y) as [L|[E|L]]; [|exact E|].
      - symmetry in H1. apply orb_prop in H1. destruct H1 as [H1|H1]; [apply N.eqb_eq in H1; lia|].
        pose proof (ssorted_lb y b Hb x H1). lia.
      - apply orb_prop in H2. destruct H2 as [H2|H2]; [apply N.eqb_eq in H2; lia|].
        pose proof (ssorted_lb x a Ha y H2). lia. }
    subst y. f_equal. apply IH; [apply Ha|apply Hb|].
    intros z. specialize (H z). cbn in H. destruct (z =? x) eqn:E; [|exact H].
    apply N.eqb_eq in E. subst z. now rewrite (ssorted_not_head x a Ha), (ssorted_not_head x b Hb).
Qed.

Lemma sdel_absent x l : smem x l = false -> sdel x l = l.
Proof.
  induction l as [|z l IH]; intros H; cbn in *; [reflexivity|].
  apply orb_false_elim in H. destruct H as [H1 H2]. rewrite H1. f_equal. auto.
Qed.

Lemma sadd_present x l : ssorted l -> smem x l = true -> sadd x l = l.
Proof.
  intros Hs H. apply ssorted_ext; [now apply ssorted_sadd|exact Hs|].
  intros y. rewrite smem_sadd. destruct (y =? x) eqn:E; [|reflexivity]. apply N.eqb_eq in E. subst. now rewrite H.
Qed.

Definition with_self (me : option nid) (l : list nid) : list nid :=
  match me with Some i => sadd i l | None => l end.

(* one step of __clusterBeforeChange on the set that includes this node *)
Definition cb_step (me : option nid) (cl : list nid) (o : mop) : list nid :=
  if is_me me (snd o) then cl else if fst o then sdel (snd o) cl else sadd (snd o) cl.

Lemma cluster_before_ops n res cl :
  cluster_before n res cl = fold_left (cb_step (self n)) (mem_ops res) cl.
Proof.
  unfold cluster_before. revert cl. induction res as [|en res IH]; intros cl; [reflexivity|].
  cbn [fold_left mem_ops flat_map]. rewrite IH. fold (mem_ops res).
  destruct (membership_of (ecmd en)) as [[a x]|]; cbn [app fold_left]; [|reflexivity].
  unfold cb_step. cbn [fst snd]. rewrite is_me_self. reflexivity.
Qed.

Lemma ssorted_with_self me l : ssorted l -> ssorted (with_self me l).
Proof. destruct me; cbn; auto using ssorted_sadd. Qed.

Lemma with_self_undo me l o :
  ssorted l -> with_self me (step_member me l (flip_op o)) = cb_step me (with_self me l) o.
Proof.
  intros Hs. destruct o as [a x]. unfold step_member, flip_op, cb_step. cbn [fst snd].
  destruct (is_me me x) eqn:Eme; cbn [orb]; [destruct a; reflexivity|].
  destruct a; cbn [negb orb].
  - (* undo of add x: remove x *)
    assert (G : with_self me (sdel x l) = sdel x (with_self me l)).
    { destruct me as [i|]; [|reflexivity]. cbn in *.
      apply ssorted_ext; [now apply ssorted_sadd, ssorted_sdel|now apply ssorted_sdel, ssorted_sadd|].
      intros y. rewrite smem_sadd, !smem_sdel, smem_sadd by auto using ssorted_sadd.
      destruct (y =? i) eqn:E1, (y =? x) eqn:E2; cbn; try reflexivity.
      apply N.eqb_eq in E1, E2. subst. rewrite N.eqb_refl in Eme. discriminate. }
    destruct (smem x l) eqn:Em; cbn [negb]; [exact G|].
    rewrite <- G. now rewrite sdel_absent.
  - (* undo of rem x: put x back *)
    assert (G : with_self me (sadd x l) = sadd x (with_self me l)).
    { destruct me as [i|]; [|reflexivity]. cbn.
      apply ssorted_ext; [now apply ssorted_sadd, ssorted_sadd|now apply ssorted_sadd, ssorted_sadd|].
      intros y. rewrite !smem_sadd. destruct (y =? i), (y =? x); reflexivity. }
    destruct (smem x l) eqn:Em; [|exact G].
    rewrite <- G. now rewrite sadd_present.
Qed.

Lemma with_self_undo_fold me ops l :
  ssorted l ->
  with_self me (fold_left (step_member me) (map flip_op ops) l) = fold_left (cb_step me) ops (with_self me l).
Proof.
  revert l. induction ops as [|o ops IH]; intros l Hs; [reflexivity|]. cbn [map fold_left].
  rewrite IH by now apply ssorted_step. now rewrite with_self_undo.
Qed.

(* the entries up to / behind an index *)
Definition upto (a : N) (l : list entry) : list entry := filter (fun en => eidx en <=? a) l.

Lemma log_split_applied l a :
  consec l -> first_idx l <= a + 1 ->
  l = upto a l ++ get_entries l (Some (a + 1)) None None.
Proof.
  intros Hc Hf. unfold get_entries.
  destruct (a + 1 <? first_idx l) eqn:E; [lia|].
  rewrite <- (firstn_skipn (N.to_nat (a + 1 - first_idx l)) l) at 1. f_equal.
  rewrite (firstn_filter _ l Hc). unfold upto. apply filter_ext_in'. intros x _.
  replace (first_idx l + N.of_nat (N.to_nat (a + 1 - first_idx l))) with (a + 1) by lia. lia.
Qed.

(* what try_compact stores when it starts a serialization *)
Lemma capture_cluster e s :
  pid (sr (nd (try_compact e s))) = 1 ->
  first_idx (log (nd s)) <= applied (nd s) - 1 /\
  exists sn, stored (sr (nd (try_compact e s))) = Some (Good sn) /\
    s_cluster sn = cluster_before (nd s) (rev (get_entries (log (nd s)) (Some (applied (nd s) + 1)) None None))
                     (with_self (self (nd s)) (others (nd s))).
Proof.
  unfold try_compact.
  destruct (pid (sr (nd s)) =? 0) eqn:E0.
  2:{ cbn [negb]. destruct (pid (sr (nd s)) =? 1); unfold upd; cbn; intros H; discriminate. }
  assert (E1 : (pid (sr (nd s)) =? 1) = false) by lia.
  rewrite E1. cbn [negb]. apply N.eqb_eq in E0.
  destruct (_ && _ && _); [intros H; rewrite H in E0; discriminate|].
  destruct (get_entries (log (nd s)) (Some (applied (nd s) - 1)) (Some 2) None) as [|e0 [|e1 tl]] eqn:Eg.
  1,2: unfold upd; cbn; intros H; rewrite H in E0; discriminate.
  destruct (opt_eqb _ _) eqn:Eo; [unfold upd; cbn; intros H; rewrite H in E0; discriminate|].
  intros _.
  assert (Hf : first_idx (log (nd s)) <= applied (nd s) - 1).
  { unfold get_entries in Eg. destruct (applied (nd s) - 1 <? first_idx (log (nd s))) eqn:E; [discriminate|lia]. }
  split; [exact Hf|].
  eexists. split; [reflexivity|]. cbn. unfold with_self. reflexivity.
Qed.

(* C10_snapshot_members *)
Theorem snapshot_members e s base :
  let n := nd s in
  let me := self n in
  let lo := upto (applied n) (log n) in
  let hi := get_entries (log n) (Some (applied n + 1)) None None in
  pid (sr (nd (try_compact e s))) = 1 ->
  consec (log n) -> ssorted base ->
  others n = fold_members base (log n) me ->
  all_undo_ok me (fold_members base lo me) (mem_ops hi) = true ->
  log n = lo ++ hi /\
  exists sn, stored (sr (nd (try_compact e s))) = Some (Good sn) /\
             s_cluster sn = with_self me (fold_members base lo me).
Proof.
  cbv zeta. intros Hp Hc Hb Ho Hu.
  destruct (capture_cluster e s Hp) as (Hf & sn & Hst & Hcl).
  assert (Hsplit : log (nd s) = upto (applied (nd s)) (log (nd s)) ++
                               get_entries (log (nd s)) (Some (applied (nd s) + 1)) None None)
    by (apply log_split_applied; [exact Hc|lia]).
  split; [exact Hsplit|]. exists sn. split; [exact Hst|].
  rewrite Hcl, cluster_before_ops, mem_ops_rev.
  set (lo := upto (applied (nd s)) (log (nd s))) in *.
  set (hi := get_entries (log (nd s)) (Some (applied (nd s) + 1)) None None) in *.
  assert (Ho2 : others (nd s) = fold_left (step_member (self (nd s))) (mem_ops hi) (fold_members base lo (self (nd s)))).
  { rewrite Ho. rewrite Hsplit at 1. now rewrite fold_members_app. }
  rewrite <- with_self_undo_fold.
  - f_equal. rewrite Ho2. apply undo_exact; [apply ssorted_fold; exact Hb|exact Hu].
  - rewrite Ho. apply ssorted_fold. exact Hb.
Qed.
