(* Tier CM2, user-state half of C01, part 2 (the counterpart of Refine6Tick.v): the tick of a voter keeps
   "the user state is the replay of the applied committed prefix" (HI).  The abstract simulation is
   RefineM2TickA/B; here the tick is cut at the apply phase: before it the user state is untouched, the apply
   loop extends it by the replay of the entries it executes (HI_apply, at the abstract state reached after the
   leader phase), afterwards it is untouched again. *)
From Coq Require Import ZArith NArith List Bool Lia ZifyBool Arith PeanoNat.
From RecordUpdate Require Import RecordSet.
From PSO Require Import Raft.Types Raft.Node Raft.Net Raft.ProofsCommitBase Raft.ProofsCommit.
From PSO Require Import Raft.ProofsApplyBase Raft.ProofsApplyLog Raft.ProofsApplyReplay Raft.ProofsCallbacks2.
From PSO Require Import Raft.ProofsElectionBase Raft.ProofsMembership Raft.ProofsMembershipInv.
From PSO Require Import Raft.RefineMAbs Raft.RefineMEff Raft.RefineMCfg Raft.RefineMK Raft.RefineMSpecA
  Raft.RefineMTickA Raft.RefineMTickB.
From PSO Require Import Raft.RefineM2Abs Raft.RefineM2SpecA Raft.RefineM2Sim Raft.RefineM2TickA Raft.RefineM2TickB
  Raft.RefineM2HistBase.
From PSO Require AbstractM.Model AbstractM.Lib AbstractM.Kstep.
Import ListNotations.
Import RecordSetNotations.
Open Scope N_scope.
#[local] Arguments firstn : simpl nomatch.
#[local] Arguments skipn : simpl nomatch.

Section Tick6.
Variable c : conf.
Variable mf : N -> N -> N * N.
Variable V : list nid.
Hypothesis NDV : NoDup V.
Hypothesis SV : ssorted V.
Hypothesis VNE : V <> [].
Hypothesis VRO : forall v, In v V -> v < RO_BASE.
Hypothesis Hb1 : 1 < batch c.
Hypothesis Hdyn : dyn c = true.
Hypothesis Hfd : file_dump c = false.
Variable e : env.
Hypothesis Hc : cf e = c.
Set Default Proof Using "All".

Notation V' := (absV V).
Notation Rn := (Rn c mf V).
Notation ksn := (ksn V).
Notation LS := (LS c mf V).
Notation HI := (HI c).
Notation LS_full := (LS_full c mf V NDV SV VNE VRO Hb1).
Notation HI_kstar := (HI_kstar c mf V NDV SV VNE VRO Hb1).
Notation HI_uview := (HI_uview c mf V NDV SV VNE VRO Hb1).
Notation snap_cond := (snap_cond c mf V e).
Notation tick_tail := (fun s => let (s, need) := apply_entries e s in
                   if ok s then (tick_send e need ;; tick_ready ;; check_commands e ;; try_compact e) s else s).

(* the apply phase, at one abstract state *)
Lemma HI_apply_entries n s S :
  LS n s S -> HI s (nd S) -> LS n s (fst (apply_entries e S)) -> HI s (nd (fst (apply_entries e S))).
Proof.
  intros L H L1.
  destruct (LS_full _ _ _ L) as (full & EL & W & Sx & _).
  pose proof (suffix_log_wf _ _ W Sx) as WF.
  destruct (apply_consecutive e S WF) as (C1 & (a & b & C2) & _ & C4 & _ & _ & _ & C8 & _ & _ & C11 & _).
  eapply (HI_apply c mf V NDV SV VNE VRO Hb1 n s (nd S) _ (applied_now S)).
  - apply (LS_reach _ _ _ _ _ _ L).
  - apply (LS_n _ _ _ _ _ _ L1).
  - apply (H_ac _ _ _ (LS_h _ _ _ _ _ _ L1)).
  - exact H.
  - intros en Hen. rewrite C11, C2. apply in_or_app. right. apply in_or_app. left. exact Hen.
  - exact C1.
  - exact C8.
  - exact C4.
Qed.

(* from the apply phase to the end of the tick *)
Lemma sim6_tick_tail n S s :
  LS n s S -> HI s (nd S) -> snap_cond n s (nd (tick_tail S)) ->
  exists s', ksn (n2 n) s s' /\ LS n s' (tick_tail S) /\ HI s' (nd (tick_tail S)).
Proof.
  intros L H Hsn.
  destruct (sim_tick_tail c mf V NDV SV VNE VRO Hb1 Hdyn Hfd e Hc n S s L Hsn) as (s' & K & L').
  exists s'. split; [exact K|]. split; [exact L'|].
  pose proof (apply_entries_spec e S (H_rinv _ _ _ (LS_h _ _ _ _ _ _ L))) as A.
  pose proof (apply_entries_bound e S (H_ac _ _ _ (LS_h _ _ _ _ _ _ L))) as Bd.
  assert (L1 : LS n s (fst (apply_entries e S))).
  { eapply (LS_app c mf V NDV SV VNE VRO Hb1 Hdyn Hfd e Hc); eauto. }
  pose proof (HI_apply_entries n s S L H L1) as H1.
  apply (HI_kstar s s' _ (LS_reach _ _ _ _ _ _ L) (ksn_kstar _ _ _ _ K)) in H1.
  cbv beta. destruct (apply_entries e S) as [S1 need]. cbn [fst] in H1.
  destruct (ok S1); [|exact H1].
  change ((tick_send e need;; tick_ready;; check_commands e;; try_compact e) S1) with (tick_post e need S1).
  destruct (uview_inv _ _ (ukeep_tick_post e need S1)) as (E1 & E2 & _).
  eapply HI_uview; [exact E1|exact E2|exact H1].
Qed.

Theorem sim6_on_tick n x s :
  LS n s (start_S e x) -> HI s x ->
  (term (nd (on_tick e x)) <> term x -> M.self_member V' (n2 n) (M.nodes s (n2 n)) = true) ->
  snap_cond n s (nd (on_tick e x)) ->
  exists s', ksn (n2 n) s s' /\ LS n s' (on_tick e x) /\ HI s' (nd (on_tick e x)).
Proof.
  intros L H0. unfold on_tick. set (S0 := start_S e x) in *.
  assert (HS0 : HI s (nd S0)) by exact H0.
  rewrite andthen_eq.
  pose proof (LS_tick_load c mf V NDV SV VNE VRO Hb1 Hdyn Hfd e Hc n S0 s L) as L1.
  assert (E1 : term (nd (tick_load e S0)) = term x /\ hist (nd (tick_load e S0)) = hist x /\
               applied (nd (tick_load e S0)) = applied x).
  { unfold tick_load. rewrite Hc, Hfd, andb_false_r. repeat split; reflexivity. }
  destruct E1 as (E1 & U1 & U1').
  assert (HS1 : HI s (nd (tick_load e S0))) by (eapply HI_uview; [exact U1|exact U1'|exact H0]).
  destruct (ok (tick_load e S0)); [|intros _ _; exists s; split; [constructor|split; assumption]].
  set (S1 := tick_load e S0) in *. clearbody S1.
  rewrite andthen_eq.
  pose proof (LS_tick_timer c mf V NDV SV VNE VRO Hb1 Hdyn Hfd e Hc n S1 s L1) as L2.
  assert (E2 : term (nd (tick_timer e S1)) = term x).
  { rewrite <- E1. apply (fr_tick_timer term); frs. }
  assert (HS2 : HI s (nd (tick_timer e S1))).
  { eapply HI_uview; [| |exact HS1]; [apply (fr_tick_timer hist); frs|apply (fr_tick_timer applied); frs]. }
  destruct (ok (tick_timer e S1)); [|intros _ _; exists s; split; [constructor|split; assumption]].
  set (S2 := tick_timer e S1) in *. clearbody S2.
  rewrite <- E2. clear E1 E2 U1 U1' HS0 HS1.
  (* from the election phase on *)
  rewrite andthen_eq. intros Htg.
  assert (Ht : term (nd (if ok (tick_election e S2) then (tick_leader e ;; tick_tail) (tick_election e S2)
                         else tick_election e S2)) = term (nd (tick_election e S2))).
  { destruct (ok (tick_election e S2)); [|reflexivity].
    apply (andthen_rel (fun a b => term b = term a)); [congruence|apply (fr_tick_leader term); frs|intros].
    apply (fr_on_tick_tail term); frs. }
  rewrite Ht in Htg.
  destruct (sim_tick_election c mf V NDV SV VNE VRO Hb1 Hdyn Hfd e Hc n S2 s L2 Htg) as (s1 & K1 & L3).
  assert (HS3 : HI s1 (nd (tick_election e S2))).
  { destruct (uview_inv _ _ (ukeep_tick_election e S2)) as (Q1 & Q2 & _).
    eapply HI_uview; [exact Q1|exact Q2|].
    apply (HI_kstar s s1 _ (LS_reach _ _ _ _ _ _ L) (ksn_kstar _ _ _ _ K1)). exact HS2. }
  destruct (ok (tick_election e S2)); [|intros _; exists s1; auto].
  set (S3 := tick_election e S2) in *. clearbody S3.
  rewrite andthen_eq.
  destruct (sim_tick_leader c mf V NDV SV VNE VRO Hb1 Hdyn Hfd e Hc n S3 s1 L3) as (s2 & K2 & L4).
  assert (K02 : ksn (n2 n) s s2) by (eapply ksn_trans; eauto).
  assert (HS4 : HI s2 (nd (tick_leader e S3))).
  { eapply HI_uview; [apply (fr_tick_leader hist); frs|apply (fr_tick_leader applied); frs|].
    apply (HI_kstar s1 s2 _ (LS_reach _ _ _ _ _ _ L3) (ksn_kstar _ _ _ _ K2)). exact HS3. }
  destruct (ok (tick_leader e S3)); [|intros _; exists s2; auto].
  set (S4 := tick_leader e S3) in *. clearbody S4.
  intros Hsn.
  destruct (sim6_tick_tail n S4 s2 L4 HS4 (snap_cond_ksn c mf V NDV SV VNE VRO Hb1 Hdyn Hfd e Hc n s s2 _ K02 Hsn)) as (s3 & K3 & L5 & H5).
  exists s3. split; [eapply ksn_trans; eauto|]. split; assumption.
Qed.

End Tick6.
