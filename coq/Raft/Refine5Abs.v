(* Tier C3, part 1: the relation between L1 with log compaction / snapshots and L0.
   The L0 log of a voter is its FULL log; the L1 log is a suffix of it ([suffix_of]); compaction
   is invisible in L0.  A snapshot is "the first k entries of the committed log" ([snap_valid]):
   a global, monotone fact about the L0 history, so blobs may travel and be stored anywhere. *)
From Coq Require Import ZArith NArith List Bool Lia ZifyBool Arith PeanoNat.
From RecordUpdate Require Import RecordSet.
From PSO Require Import Raft.Types Raft.Node Raft.Net.
From PSO Require Import Raft.ProofsElectionBase Raft.ProofsElectionFrame Raft.ProofsElectionGhost.
From PSO Require Import Raft.RefineAbs.
From PSO Require Abstract.Model Abstract.Lib Abstract.Kstep Abstract.Safety1_WF Abstract.Safety2_Election
  Abstract.Safety3_LeaderLog Abstract.Safety4_LogMatching Abstract.Safety6_LeaderCompleteness
  Abstract.Safety7_StateMachine Abstract.Safety8_First.
Import ListNotations.
Import RecordSetNotations.
Open Scope N_scope.
#[local] Arguments firstn : simpl nomatch.
#[local] Arguments skipn : simpl nomatch.

Module S1 := PSO.Abstract.Safety1_WF.
Module S2 := PSO.Abstract.Safety2_Election.
Module S3 := PSO.Abstract.Safety3_LeaderLog.
Module S4 := PSO.Abstract.Safety4_LogMatching.
Module S6 := PSO.Abstract.Safety6_LeaderCompleteness.
Module S7 := PSO.Abstract.Safety7_StateMachine.
Module S8 := PSO.Abstract.Safety8_First.

(* Tier C3 drops the hypothesis "commands are smaller than a batch": entries may travel in pieces.
   The smallness predicates of Tier C / C2 are kept as vacuous predicates so that the hygiene records
   and the proof scripts keep their shape. *)
Definition small (c : conf) (e : entry) : Prop := True.
Definition small_cmd (c : conf) (x : cmd) : Prop := True.

(* ------------------------------------------------------------------------------------------ *)
(* an L1 log as a suffix of the full log                                                      *)

Definition suffix_of (l full : list entry) : Prop :=
  exists b, l = skipn b full /\ (b < length full)%nat.

Lemma nth_error_skipn {A} (l : list A) k p : nth_error (skipn k l) p = nth_error l (k + p).
Proof. apply ML.nth_error_skipn. Qed.

Lemma skipn_skipn' {A} (x y : nat) (l : list A) : skipn x (skipn y l) = skipn (y + x) l.
Proof.
  revert l. induction y as [|y IH]; intros l; [reflexivity|].
  destruct l as [|a l]; [cbn; rewrite !skipn_nil; reflexivity|]. cbn [skipn plus]. apply IH.
Qed.

Lemma In_skipn_in' {A} k (l : list A) x : In x (skipn k l) -> In x l.
Proof. revert l. induction k as [|k IH]; intros [|a l]; cbn; try tauto. intros H; auto. Qed.

Section Suffix.
Variables (l full : list entry).
Hypothesis W : wf1 full.
Hypothesis Sx : suffix_of l full.

Lemma suffix_base : exists b, l = skipn b full /\ (b < length full)%nat /\ first_idx l = N.of_nat b + 1.
Proof.
  destruct Sx as (b & E & Hb). exists b. split; auto. split; auto.
  destruct (nth_error full b) as [e|] eqn:En; [|apply nth_error_None in En; lia].
  rewrite E, (skipn_nth_cons _ _ _ En). cbn. destruct W as [_ H]. apply (H b e En).
Qed.

Lemma suffix_ne : l <> [].
Proof.
  destruct Sx as (b & E & Hb). intros ->.
  assert (length (skipn b full) = 0%nat) by (rewrite <- E; reflexivity). rewrite skipn_length in H. lia.
Qed.

Lemma suffix_first_pos : 1 <= first_idx l.
Proof. destruct suffix_base as (b & _ & _ & E). lia. Qed.

Lemma suffix_last : last_entry l = last_entry full.
Proof.
  destruct Sx as (b & E & Hb). subst l. clear W Sx. revert full Hb.
  induction b as [|b IH]; intros full Hb; [reflexivity|].
  destruct full as [|a r]; [cbn in Hb; lia|]. cbn [skipn]. rewrite IH by (cbn in Hb; lia).
  destruct r; [cbn in Hb; lia|reflexivity].
Qed.

Lemma suffix_last_idx : last_idx l = last_idx full.
Proof. unfold last_idx. rewrite suffix_last. reflexivity. Qed.

Lemma suffix_last_term : last_term l = last_term full.
Proof. unfold last_term. rewrite suffix_last. reflexivity. Qed.

Lemma suffix_ge f c m : first_idx l <= f -> get_entries l (Some f) c m = get_entries full (Some f) c m.
Proof.
  intros Hf. destruct suffix_base as (b & E & Hb & Efi).
  unfold get_entries. rewrite Efi in *. rewrite (wf1_first_idx full W).
  destruct (f <? N.of_nat b + 1) eqn:E1; [lia|]. destruct (f <? 1) eqn:E2; [lia|].
  apply N.ltb_ge in E1, E2.
  rewrite E, skipn_skipn'.
  assert (Ex : (b + n2 (f - (N.of_nat b + 1)))%nat = n2 (f - 1)) by (clear - E1; lia).
  rewrite Ex. reflexivity.
Qed.

Lemma suffix_lt f c m : f < first_idx l -> get_entries l (Some f) c m = [].
Proof. intros Hf. unfold get_entries. destruct (f <? first_idx l) eqn:E; [reflexivity|lia]. Qed.

Lemma suffix_nth p : first_idx l <= N.of_nat p + 1 ->
  nth_error l (p + 1 - n2 (first_idx l)) = nth_error full p.
Proof.
  intros Hp. destruct suffix_base as (b & E & Hb & Efi). rewrite Efi in *. rewrite E, nth_error_skipn. f_equal. lia.
Qed.

Lemma suffix_In e : In e l -> In e full.
Proof. destruct Sx as (b & E & _). rewrite E. apply In_skipn_in'. Qed.

End Suffix.

Lemma absL_inj pk la lb : absL pk la = absL pk lb -> la = lb.
Proof.
  revert lb. induction la as [|a la IH]; intros [|b lb] H; try discriminate; auto.
  change (absE pk a :: absL pk la = absE pk b :: absL pk lb) in H.
  assert (H1 : absE pk a = absE pk b) by congruence.
  assert (H2 : absL pk la = absL pk lb) by congruence.
  apply absE_inj in H1. f_equal; auto.
Qed.

(* sub-lists of suffixes *)
Lemma suffix_app l full e : suffix_of l full -> suffix_of (l ++ [e]) (full ++ [e]).
Proof.
  intros (b & E & Hb). exists b. split; [|rewrite app_length; lia].
  rewrite E. rewrite skipn_app. replace (b - length full)%nat with 0%nat by lia. reflexivity.
Qed.

Lemma suffix_apps l full r : suffix_of l full -> suffix_of (l ++ r) (full ++ r).
Proof.
  intros (b & E & Hb). exists b. split; [|rewrite app_length; lia].
  rewrite E. rewrite skipn_app. replace (b - length full)%nat with 0%nat by lia. reflexivity.
Qed.

(* ------------------------------------------------------------------------------------------ *)
Section Rel.
Variable c : conf.
Variable V : list nid.

Notation pk := (pk c).
Notation small := (small c).
Notation small_cmd := (small_cmd c).
Notation V' := (absV V).

(* a snapshot is the image of the first k entries of the committed log *)
(* [Tb]: a bound on the term in which that prefix was committed (the term of the message that carries the
   snapshot / of the node that holds it) *)
Definition snap_valid (s : M.state) (Tb : nat) (sn : snapshot) : Prop :=
  let k := n2 (eidx (s_e1 sn)) in
  small (s_e0 sn) /\ small (s_e1 sn) /\ (2 <= k)%nat /\
  exists T0 p0, In (T0, p0) (M.direct s) /\ (T0 <= Tb)%nat /\ (k <= Sn p0)%nat /\
    nth_error (M.llog s T0) (k - 1) = Some (absE pk (s_e1 sn)) /\
    nth_error (M.llog s T0) (k - 2) = Some (absE pk (s_e0 sn)).

Definition blob_valid (s : M.state) (Tb : nat) (b : blob) : Prop :=
  match b with Good sn => snap_valid s Tb sn | Corrupt _ => True end.

Definition bsmall (b : blob) : Prop :=
  match b with Good sn => small (s_e0 sn) /\ small (s_e1 sn) | Corrupt _ => True end.

Lemma blob_valid_small s Tb b : blob_valid s Tb b -> bsmall b.
Proof. destruct b; cbn; auto. intros (A & B & _). auto. Qed.

Lemma snap_valid_le s Tb Tb' sn : (Tb <= Tb')%nat -> snap_valid s Tb sn -> snap_valid s Tb' sn.
Proof.
  intros Hle (A & B & C & T0 & p0 & D & Ht & E). repeat split; auto. exists T0, p0. split; auto. split; [lia|auto].
Qed.

Lemma blob_valid_le s Tb Tb' b : (Tb <= Tb')%nat -> blob_valid s Tb b -> blob_valid s Tb' b.
Proof. destruct b; cbn; auto. apply snap_valid_le. Qed.

Lemma snap_valid_kstep s s' Tb sn :
  KS.kreachable V' s -> KS.kstep V' s s' -> snap_valid s Tb sn -> snap_valid s' Tb sn.
Proof.
  intros HR K (A & B & C & T0 & p0 & D & Ht & E & F & G).
  repeat split; auto. exists T0, p0. split; [eapply KS.kstep_direct; eauto|]. split; auto. split; auto.
  destruct (S3.kstep_llog V' s s' T0 (S1.inv1_kreachable V' s HR) (S2.inv2_kreachable V' s HR)
              (S3.inv3_kreachable V' s HR) K) as (r & -> & _).
  split; apply S3.nth_error_app_some; auto.
Qed.

Lemma snap_valid_kstar s s' Tb sn :
  KS.kreachable V' s -> kstar V s s' -> snap_valid s Tb sn -> snap_valid s' Tb sn.
Proof.
  intros HR K. induction K as [|s1 s2 K IH Ks]; auto. intros H.
  eapply snap_valid_kstep; [|exact Ks|auto]. eapply kstar_kreachable; eauto.
Qed.

Lemma blob_valid_kstar s s' Tb b :
  KS.kreachable V' s -> kstar V s s' -> blob_valid s Tb b -> blob_valid s' Tb b.
Proof. destruct b; cbn; auto. apply snap_valid_kstar. Qed.

(* the message a receiver needs to install snapshot sn sent in term t with leader commit cm:
   an AppendEntries with prev = the common first entry carrying entries 2..k *)
Definition e00 : entry := mkEntry (noop_cmd pk) 1 0.

Definition install_img (t a cm : N) (sn : snapshot) (s : M.state) : Prop :=
  let k := n2 (eidx (s_e1 sn)) in
  exists Wl, In (M.AppendEntries (n2 t) (n2 a) 1 0 (absL pk Wl) (n2 cm)) (M.net s) /\ (length Wl + 1 = k)%nat /\
    nth_error (e00 :: Wl) (k - 1) = Some (s_e1 sn) /\
    nth_error (e00 :: Wl) (k - 2) = Some (s_e0 sn).

Lemma absE_e00 : absE pk e00 = M.e0.
Proof. unfold absE, e00. cbn. rewrite enc_noop. reflexivity. Qed.

(* an entry that exists in the abstract system: it sits at its index in the leader log of its term *)
Definition legit (s : M.state) (en : entry) : Prop :=
  1 <= eidx en /\ nth_error (M.llog s (n2 (eterm en))) (n2 (eidx en) - 1) = Some (absE pk en).

Lemma legit_kstep s s' en : KS.kreachable V' s -> KS.kstep V' s s' -> legit s en -> legit s' en.
Proof.
  intros HR K [A B]. split; auto.
  destruct (S3.kstep_llog V' s s' (n2 (eterm en)) (S1.inv1_kreachable V' s HR) (S2.inv2_kreachable V' s HR)
              (S3.inv3_kreachable V' s HR) K) as (r & -> & _).
  apply S3.nth_error_app_some; auto.
Qed.

Lemma legit_kstar s s' en : KS.kreachable V' s -> kstar V s s' -> legit s en -> legit s' en.
Proof.
  intros HR K H. induction K as [|sa sb K IH Ks]; auto.
  eapply legit_kstep; [|exact Ks|auto]. eapply kstar_kreachable; eauto.
Qed.

(* two entries of the abstract system that the piece comparison identifies are the same entry *)
Lemma legit_eqb s a b : legit s a -> legit s b -> entry_eqb a b = true -> a = b.
Proof.
  intros [A1 A2] [B1 B2] H. unfold entry_eqb in H.
  apply andb_prop in H as [H Ht]. apply andb_prop in H as [_ Hi].
  apply N.eqb_eq in Ht, Hi. rewrite Ht, Hi in A2. rewrite A2 in B2.
  assert (X : absE pk a = absE pk b) by congruence. apply absE_inj in X. exact X.
Qed.

Definition Rmsg (a b : nid) (m : msg) (s : M.state) : Prop :=
  match m with
  | RequestVote t li lt => a < RO_BASE /\ In (M.RequestVote (n2 t) (n2 a) (n2 li) (n2 lt)) (M.net s)
  | ResponseVote t => a < RO_BASE /\ In (M.Vote (n2 t) (n2 a) (n2 b)) (M.net s)
  | AE t cm (Some (pi, pt)) es =>
      a < RO_BASE /\ a <> b /\ Forall small es /\
      In (M.AppendEntries (n2 t) (n2 a) (n2 pi) (n2 pt) (absL pk es) (n2 cm)) (M.net s)
  | AE t cm None es => a < RO_BASE /\ a <> b /\ some_ae t a s
  | AEPiece t cm prev lab _ _ en =>
      a < RO_BASE /\ a <> b /\ some_ae t a s /\ legit s en /\
      (forall pi pt, prev = Some (pi, pt) ->
         In (M.AppendEntries (n2 t) (n2 a) (n2 pi) (n2 pt) (absL pk [en]) (n2 cm)) (M.net s))
  | AESnap t cm SNone => a < RO_BASE /\ a <> b /\ some_ae t a s
  | AESnap t cm (SData bl off len first last) =>
      a < RO_BASE /\ a <> b /\ some_ae t a s /\ blob_valid s (n2 t) bl /\
      (last = true -> forall sn, bl = Good sn -> install_img t a cm sn s)
  | ApplyCmd x _ => small_cmd x
  | ApplyResp _ _ _ _ => True
  | NextIdx t nx _ su =>
      su = true -> a < RO_BASE -> In (M.AppendReply (n2 t) (n2 a) true (n2 nx - 1)) (M.net s)
  end.

Definition Ro (a : nid) (os : list out) (s : M.state) : Prop :=
  forall d m, In (Send d m) os -> Rmsg a d m s.

(* a blob held by a voter: valid, committed in a term not above the holder's *)
Definition held (x : node) (s : M.state) (bl : blob) : Prop := blob_valid s (n2 (term x)) bl.

Record Rn (n : nid) (x : node) (s : M.state) : Prop := {
  Rn_term : M.term (M.nodes s (n2 n)) = n2 (term x);
  Rn_voted : M.voted (M.nodes s (n2 n)) = option_map n2 (voted x);
  Rn_role : M.rl (M.nodes s (n2 n)) = absR (role x);
  Rn_log : exists full, M.log (M.nodes s (n2 n)) = absL pk full /\ suffix_of (log x) full;
  Rn_commit : M.commit (M.nodes s (n2 n)) = n2 (commit x);
  Rn_votes : role x = CANDIDATE ->
               length (M.votesFrom (M.nodes s (n2 n))) = n2 (votes x) /\ In (n2 n) (M.votesFrom (M.nodes s (n2 n)));
  Rn_match : forall f m, In f V -> f <> n -> aget f (match_idx x) = Some m ->
               (n2 m <= M.matchIdx (M.nodes s (n2 n)) (n2 f))%nat;
  Rn_self : voted x = Some n -> In (n2 (term x), n2 n, n2 n) (M.grants s);
  Rn_stored : forall bl, stored (sr x) = Some bl -> held x s bl;
  Rn_trans : forall d bl off, In (d, (bl, off)) (trans (sr x)) -> held x s bl;
  Rn_incoming : forall ps bl o l, incoming (sr x) = Some ps -> In (bl, o, l) ps -> blob_valid s (n2 (term x)) bl;
  (* what the node has applied (from its log or from a snapshot) is a committed prefix of its full log *)
  Rn_applied : S7.committed_upto s (n2 (term x)) (M.log (M.nodes s (n2 n))) (n2 (applied x))
}.

(* L1-only hygiene of a node (voter or read-only) *)
Record Hn (x : node) : Prop := {
  H_small : Forall small (log x);
  H_queue : Forall (fun q => small_cmd (fst q)) (queue x);
  H_rinv : replay_idx x <= applied x;
  H_ro : Forall (fun y => RO_BASE <= y) (readonly x);
  H_fi : first_idx (log x) <= applied x;
  H_cur : pid (sr x) = 1 -> cur_id (sr x) < applied x;
  H_stored : forall bl, stored (sr x) = Some bl -> bsmall bl;
  H_incoming : forall ps bl o l, incoming (sr x) = Some ps -> In (bl, o, l) ps -> bsmall bl
}.

(* hygiene of a read-only node: it is outside the abstract cluster; only what its apply loop and its
   forwarding of commands need *)
Record Hr (x : node) : Prop := {
  Hr_queue : Forall (fun q => small_cmd (fst q)) (queue x);
  Hr_rinv : replay_idx x <= applied x
}.

Record R (g : gstate) (gh : ghost) (st : list nid) (s : M.state) : Prop := {
  R_node : forall v x, aget v (nodes g) = Some x -> v < RO_BASE -> Rn v x s;
  R_init : forall v, In v V -> ~ In v st -> pristine (M.nodes s (n2 v));
  R_msg : forall a b m, In m (chan_get a b g) -> Rmsg a b m s;
  R_gh : forall t v cd, In (t, v, cd) (grants gh) ->
           In (n2 t, n2 v, n2 cd) (M.grants s) /\ (v <> cd -> In (M.Vote (n2 t) (n2 v) (n2 cd)) (M.net s));
  R_hyg : forall v x, aget v (nodes g) = Some x -> v < RO_BASE -> Hn x;
  R_ro : forall v x, aget v (nodes g) = Some x -> RO_BASE <= v -> Hr x;
  R_recv : forall v x en o l, aget v (nodes g) = Some x -> v < RO_BASE -> In (en, o, l) (recv_t x) -> legit s en
}.

(* ---- monotonicity along steps of node j ---- *)
Lemma install_img_ext j t a cm sn s s' : ext j s s' -> install_img t a cm sn s -> install_img t a cm sn s'.
Proof.
  intros E (W & B & C). exists W. split; auto. apply (ext_net _ _ _ E). exact B.
Qed.

Lemma some_ae_ext j t a s s' : ext j s s' -> some_ae t a s -> some_ae t a s'.
Proof.
  intros E (pi & pt & es & lc & H). exists pi, pt, es, lc. apply (ext_net _ _ _ E). exact H.
Qed.

Lemma Rmsg_mono j a b m s s' :
  KS.kreachable V' s -> ksn V j s s' -> Rmsg a b m s -> Rmsg a b m s'.
Proof.
  intros HR K. pose proof (ksn_ext _ _ _ _ K) as E. pose proof (ksn_kstar _ _ _ _ K) as KS.
  pose proof (ext_net _ _ _ E) as Hn0. unfold incl in Hn0. unfold Rmsg.
  destruct m as [t li lt|t|t cm [[pi pt]|] es|t cm prev lab off len en|t cm [|bl off len first last]|x req|req okr a0 b0|t nx r su];
    try solve [firstorder].
  - intros (A & B & C). repeat split; auto. eapply some_ae_ext; eauto.
  - intros (A & B & C & D & F).
    split; [exact A|]. split; [exact B|]. split; [eapply some_ae_ext; eauto|].
    split; [eapply legit_kstar; eauto|]. intros pi pt Hp. apply Hn0. eauto.
  - intros (A & B & C). repeat split; auto. eapply some_ae_ext; eauto.
  - intros (A & B & C & D & F).
    split; [exact A|]. split; [exact B|]. split; [eapply some_ae_ext; eauto|].
    split; [eapply blob_valid_kstar; eauto|].
    intros Hl sn0 Hb. eapply install_img_ext; eauto.
Qed.

Lemma Ro_mono j a os s s' : KS.kreachable V' s -> ksn V j s s' -> Ro a os s -> Ro a os s'.
Proof. intros HR K H d m Hin. eapply Rmsg_mono; eauto. Qed.

Lemma Ro_app a os1 os2 s : Ro a os1 s -> Ro a os2 s -> Ro a (os1 ++ os2) s.
Proof. intros A B d m Hin. apply in_app_or in Hin as [H|H]; auto. Qed.

Lemma Ro_nil a s : Ro a [] s.
Proof. intros d m []. Qed.

Lemma held_kstar x s s' bl : KS.kreachable V' s -> kstar V s s' -> held x s bl -> held x s' bl.
Proof. intros HR K H. eapply blob_valid_kstar; eauto. Qed.

Lemma committed_star s1 s2 Tb l k :
  KS.kreachable V' s1 -> kstar V s1 s2 -> S7.committed_upto s1 Tb l k -> S7.committed_upto s2 Tb l k.
Proof.
  intros HR K H. induction K as [|sa sb K IH Ks]; auto.
  assert (HRa : KS.kreachable V' sa) by (eapply kstar_kreachable; eauto).
  eapply (S7.committed_mono V' sa sb Tb Tb); eauto.
  - apply (S1.inv1_kreachable V'); auto.
  - apply S2.inv2_kreachable; auto.
  - apply (S3.inv3_kreachable V'); auto.
Qed.

Lemma Rn_mono j n x s s' :
  KS.kreachable V' s -> ksn V j s s' -> n2 n <> j -> Rn n x s -> Rn n x s'.
Proof.
  intros HR K Hne [A1 A2 A3 A4 A5 A6 A7 A8 A9 A10 A11 A12].
  pose proof (ksn_ext _ _ _ _ K) as E. pose proof (ksn_kstar _ _ _ _ K) as KS.
  pose proof (ext_nodes _ _ _ E (n2 n) Hne) as En.
  constructor; rewrite ?En; auto; [| | | |eapply committed_star; eauto].
  - intros Hv. apply (ext_grants _ _ _ E). auto.
  - intros bl Hb. eapply held_kstar; eauto.
  - intros d bl off Hb. eapply held_kstar; eauto.
  - intros ps bl o l Hi Hb. eapply blob_valid_kstar; eauto.
Qed.

End Rel.
