(* C20, part B: the whole tick of a leader; where last_resp comes from. *)
From Coq Require Import ZArith NArith List Bool Lia ZifyBool ZifyN.
From RecordUpdate Require Import RecordSet.
From PSO Require Import Raft.Types Raft.Node Raft.Net Raft.ProofsReadonlyFrames Raft.ProofsReadonlyA Raft.ProofsFallbackA.
Import ListNotations.
Import RecordSetNotations.
Open Scope N_scope.

(* everything after the leader phase *)
Definition tick_tail (e : env) (s : S) : S :=
  let (s, need) := apply_entries e s in
  if ok s then (tick_send e need ;; tick_ready ;; check_commands e ;; try_compact e) s else s.

Lemma on_tick_eq : forall e n,
  on_tick e n = (tick_load e ;; tick_timer e ;; tick_election e ;; tick_leader e ;; tick_tail e) (start_S e n).
Proof. reflexivity. Qed.

Lemma fr_tick_tail : forall m e s, period_ok e -> fr m s (tick_tail e s).
Proof.
  intros m e s Hp. unfold tick_tail.
  destruct (apply_entries e s) as [s5 need] eqn:E.
  assert (fr m s s5) as H5 by (change s5 with (fst (s5, need)); rewrite <- E; apply fr_apply_entries).
  destruct (ok s5); [|exact H5].
  eapply fr_trans; [exact H5|].
  apply fr_andthen; [apply fr_tick_send; exact Hp|]. intros s6.
  apply fr_andthen; [apply fr_tick_ready|]. intros s7.
  apply fr_andthen; [apply fr_check_commands; exact Hp|]. intros s8.
  apply fr_try_compact.
Qed.

(* the state in which a node that does not load a dump and is not up for election reaches the
   leader phase *)
Definition pre_leader (e : env) (n : node) : S :=
  tick_timer e (upd (fun n => n <| need_load := false |>) (start_S e n)).

Lemma pre_leader_facts : forall e n,
  let s := pre_leader e n in
  exc s = 0 /\ tnow s = t0 e /\ outs s = [] /\ core (nd s) = core n /\ mem_part (nd s) = mem_part n /\
  log (nd s) = log n /\ commit (nd s) = commit n /\ need_load (nd s) = false /\
  applied (nd s) = applied n /\ wait_commit (nd s) = wait_commit n.
Proof.
  intros e n; cbv zeta. unfold pre_leader, tick_timer; cbv zeta.
  destruct (_ <? _)%Z; cbn; repeat split.
Qed.

Lemma tick_election_leader : forall e s, role (nd s) = LEADER -> tick_election e s = s.
Proof.
  intros e s H; unfold tick_election; cbv zeta. rewrite H; cbn.
  destruct (self (nd s)); reflexivity.
Qed.

Lemma on_tick_leader_eq : forall e n,
  role n = LEADER -> need_load n = false ->
  on_tick e n = (tick_leader e ;; tick_tail e) (pre_leader e n).
Proof.
  intros e n Hr Hn. rewrite on_tick_eq.
  destruct (pre_leader_facts e n) as (X & _ & _ & C & _).
  assert (tick_load e (start_S e n) = upd (fun n => n <| need_load := false |>) (start_S e n)) as E1.
  { unfold tick_load. change (need_load (nd (start_S e n))) with (need_load n). rewrite Hn; reflexivity. }
  unfold andthen at 1. rewrite E1. change (ok (upd _ (start_S e n))) with true. cbv iota.
  unfold andthen at 1. fold (pre_leader e n).
  assert (ok (pre_leader e n) = true) as O by (unfold ok; rewrite X; reflexivity). rewrite O.
  unfold andthen at 1. rewrite tick_election_leader; [rewrite O; reflexivity|].
  destruct (core_fields _ _ C) as (_ & R & _). rewrite R; exact Hr.
Qed.

(* C20_tick_steps_down *)
Theorem C20_tick_steps_down_thm : forall e n,
  period_ok e -> role n = LEADER -> need_load n = false ->
  match_missing n = false -> resp_missing n = false ->
  majority (fresh_count (t0 e - fallback (cf e))%Z n) n = false ->
  let s := on_tick e n in
  role (nd s) = FOLLOWER /\ leader (nd s) = None /\ In (Role LEADER FOLLOWER) (outs s) /\
  (forall a, ~ In (Role a LEADER) (outs s)).
Proof.
  intros e n Hp Hr Hn Hmm Hrm Hmaj; cbv zeta.
  rewrite (on_tick_leader_eq e n Hr Hn).
  destruct (pre_leader_facts e n) as (X & T & O & C & M & _).
  set (s3 := pre_leader e n) in *.
  assert (others (nd s3) = others n /\ last_resp (nd s3) = last_resp n /\ match_idx (nd s3) = match_idx n) as (M1 & M2 & M3)
    by (unfold mem_part in M; inversion M; auto).
  destruct (core_fields _ _ C) as (_ & R & _).
  assert (role (nd s3) = LEADER) as Hr3 by congruence.
  assert (resp_missing (nd s3) = false) as Hrm3 by (unfold resp_missing; rewrite M1, M2; exact Hrm).
  assert (match_missing (nd s3) = false) as Hmm3 by (unfold match_missing; rewrite M1, M3; exact Hmm).
  assert (majority (fresh_count (tnow s3 - fallback (cf e)) (nd s3)) (nd s3) = false) as Hmaj3.
  { rewrite T. unfold fresh_count, majority in *. rewrite M1, M2. exact Hmaj. }
  destruct (C20_fallback_step_thm e s3 Hr3 X) as [(A & _ & [B | B]) | (A & _ & B & _)];
    [rewrite Hrm3 in B; discriminate B | rewrite Hmm3 in B; discriminate B |].
  destruct (B Hmaj3) as (B1 & B2 & B3).
  assert (ok (tick_leader e s3) = true) as OK4 by (unfold ok; rewrite A; reflexivity).
  unfold andthen. rewrite OK4.
  pose proof (fr_tick_tail true e (tick_leader e s3) Hp) as F.
  destruct (core_fields _ _ (fr_core _ _ _ F)) as (_ & F2 & _ & _ & _ & F6).
  destruct (fr_outs _ _ _ F) as (ex & Ho & Hb).
  split; [rewrite F2; exact B1|]. split; [rewrite F6; exact B2|]. rewrite Ho.
  split; [apply in_or_app; left; exact B3|].
  intros a Hin. apply in_app_or in Hin as [Hin | Hin].
  - (* outputs of the leader phase: only the step-down *)
    clear -Hin Hr3 X O Hrm3 Hmaj3. revert Hin.
    rewrite tick_leader_eq, Hr3; cbn [N.eqb LEADER Pos.eqb].
    destruct (commit_phase s3) as [s1 nc] eqn:E.
    pose proof (commit_phase_cases s3) as H; rewrite E in H; cbn [fst] in H.
    destruct H as [-> | ->].
    + unfold ok; rewrite X; cbn [N.eqb].
      destruct (store_commit_frame nc s3) as (F1 & F2 & F3 & F4 & F5 & F6 & F7 & _).
      destruct (fallback_phase_spec e (store_commit nc s3)) as [(_ & ->) | [(_ & _ & ->) | (_ & _ & ->)]].
      * cbn. rewrite F7, O. intros [].
      * cbn. rewrite F7, O. intros [].
      * unfold set_role; cbn. rewrite F1, Hr3; cbn. rewrite F7, O; cbn. intros [Hc | []]. discriminate Hc.
    + cbn. rewrite O. intros [].
  - rewrite Forall_forall in Hb. apply (Hb _ Hin).
Qed.

(* ================= where last_resp comes from ================= *)
Definition lrs (s s' : S) : Prop :=
  exists ex, outs s' = outs s ++ ex /\ (tnow s <= tnow s')%Z /\
    forall x v, aget x (last_resp (nd s')) = Some v ->
      aget x (last_resp (nd s)) = Some v \/
      ((In (TAdd x) ex \/ exists o, In (Role o LEADER) ex) /\ (tnow s <= v <= tnow s')%Z).

Lemma lrs_refl : forall s, lrs s s.
Proof. intros; exists []; rewrite app_nil_r. split; [reflexivity|]. split; [lia|]. auto. Qed.

Lemma lrs_trans : forall a b c, lrs a b -> lrs b c -> lrs a c.
Proof.
  intros a b c (e1 & O1 & T1 & L1) (e2 & O2 & T2 & L2). exists (e1 ++ e2).
  split; [rewrite O2, O1, app_assoc; reflexivity|]. split; [lia|].
  intros x v H. destruct (L2 x v H) as [H2 | ([H2 | (o & H2)] & H3)].
  - destruct (L1 x v H2) as [H1 | ([H1 | (o & H1)] & H4)]; [left; exact H1 | right | right].
    + split; [left; apply in_or_app; auto | lia].
    + split; [right; exists o; apply in_or_app; auto | lia].
  - right. split; [left; apply in_or_app; auto | lia].
  - right. split; [right; exists o; apply in_or_app; auto | lia].
Qed.

Lemma fr_lrs : forall m s s', fr m s s' -> lrs s s'.
Proof.
  intros m s s' (ex & O & B & C & M & T & L & _). exists ex. split; [exact O|]. split; [exact T|].
  intros x v H. destruct (L x v H) as [H1 | (H1 & H2)]; auto.
Qed.

Lemma lrs_same : forall s s', last_resp (nd s') = last_resp (nd s) -> tnow s' = tnow s ->
  (exists ex, outs s' = outs s ++ ex) -> lrs s s'.
Proof.
  intros s s' Hl Ht (ex & O). exists ex. split; [exact O|]. split; [lia|].
  intros x v H. left. rewrite <- Hl; exact H.
Qed.

Lemma lrs_upd : forall f s, (forall n, last_resp (f n) = last_resp n) -> lrs s (upd f s).
Proof. intros f s H. apply lrs_same; [apply H | reflexivity | exists []; cbn; rewrite app_nil_r; reflexivity]. Qed.

Lemma lrs_emit : forall o s, lrs s (emit o s).
Proof. intros. apply lrs_same; [reflexivity | reflexivity | exists [o]; reflexivity]. Qed.

Lemma lrs_send : forall d m s, lrs s (send d m s).
Proof. intros; unfold send. destruct (smem d _); [apply lrs_emit | apply lrs_refl]. Qed.

Lemma lrs_set_role : forall r s, lrs s (set_role r s).
Proof.
  intros; unfold set_role; cbv zeta. destruct (role (nd s) =? r).
  - apply lrs_upd; reflexivity.
  - eapply lrs_trans; [| apply lrs_emit]. apply lrs_upd; reflexivity.
Qed.

Lemma lrs_fold : forall {A} (f : S -> A -> S) (l : list A) s,
  (forall s x, lrs s (f s x)) -> lrs s (fold_left f l s).
Proof.
  intros A f l; induction l as [|a l IH]; intros s H; cbn; [apply lrs_refl|].
  eapply lrs_trans; [apply H | apply IH; exact H].
Qed.

Lemma lrs_if : forall (b : bool) s x y, lrs s x -> lrs s y -> lrs s (if b then x else y).
Proof. intros [] s x y; auto. Qed.

Ltac lrs0 :=
  lazymatch goal with
  | |- lrs _ (set_role _ _) => apply lrs_set_role
  | |- lrs _ (upd _ _) => apply lrs_upd; intros; reflexivity
  | |- lrs _ (emit _ _) => apply lrs_emit
  | |- lrs _ (send _ _ _) => apply lrs_send
  | |- _ => first [ apply (fr_lrs true); fr0 | apply (fr_lrs false); fr0 ]
  end.
Ltac lrs1 := first [ apply lrs_refl | lrs0 ].
Ltac lrschain := repeat (first [ lrs1 | eapply lrs_trans; [| lrs0] | apply lrs_if ]).

Lemma become_leader_fold_resp : forall (g : node -> N -> node) now,
  (forall n x, last_resp (g n x) = aset x now (last_resp n)) ->
  forall l n x v, aget x (last_resp (fold_left g l n)) = Some v -> v = now \/ aget x (last_resp n) = Some v.
Proof.
  intros g now Hg l; induction l as [|a l IH]; intros n x v H; cbn in H; [right; exact H|].
  destruct (IH _ _ _ H) as [H1 | H1]; [left; exact H1|]. rewrite Hg in H1.
  destruct (N.eq_dec x a) as [->|Hne].
  - rewrite aget_aset_same in H1. inversion H1; left; reflexivity.
  - rewrite aget_aset_other in H1; auto.
Qed.

Lemma lrs_become_leader : forall e s, period_ok e -> role (nd s) <> LEADER -> lrs s (become_leader e s).
Proof.
  intros e s Hp Hr. unfold become_leader; cbv zeta.
  match goal with |- lrs s (andthen ?f ?g ?X) => assert (lrs s X) as H0 end.
  { exists [Role (role (nd s)) LEADER]. unfold set_role; cbn.
    destruct (role (nd s) =? LEADER) eqn:E; [apply N.eqb_eq in E; contradiction|]. cbn.
    split; [reflexivity|]. split; [lia|].
    intros x v H. right. split; [right; exists (role (nd s)); left; reflexivity|].
    eapply become_leader_fold_resp in H; [|intros; reflexivity]. cbn in H. destruct H as [-> | H]; [lia | discriminate]. }
  unfold andthen.
  match goal with |- lrs s (if ok ?Y then _ else _) => assert (lrs s Y) as H1 end.
  { destruct (use_batch (cf e)); [exact H0|].
    eapply lrs_trans; [exact H0 | apply (fr_lrs true); apply fr_send_ae; exact Hp]. }
  destruct (ok _); [|exact H1].
  eapply lrs_trans; [exact H1 | apply (fr_lrs true); apply fr_send_ae; exact Hp].
Qed.

Lemma nd_send : forall d m s, nd (send d m s) = nd s.
Proof. intros; unfold send. destruct (smem d _); reflexivity. Qed.

Lemma nd_fold_send : forall (f : nid -> msg) l s, nd (fold_left (fun s x => send x (f x) s) l s) = nd s.
Proof. intros f l; induction l as [|a l IH]; intros s; cbn; [reflexivity|]. rewrite IH. apply nd_send. Qed.

Lemma role_set_role : forall r s, role (nd (set_role r s)) = r.
Proof. intros; unfold set_role; cbv zeta. destruct (_ =? r); reflexivity. Qed.

Lemma lrs_tick_election : forall e s, period_ok e -> lrs s (tick_election e s).
Proof.
  intros e s Hp; unfold tick_election; cbv zeta.
  destruct (self (nd s)) as [me|]; [|lrs1].
  destruct (_ && _); [|lrs1].
  match goal with |- lrs s (if majority _ (nd ?X) then _ else _) =>
    assert (lrs s X /\ role (nd X) = CANDIDATE) as (H0 & HR) end.
  { split.
    - eapply lrs_trans; [| apply (fr_lrs true); apply fr_on_leader_changed].
      eapply lrs_trans; [| apply lrs_fold; intros s0 x; apply lrs_send].
      lrschain.
    - match goal with |- role (nd (on_leader_changed ?Y)) = _ =>
        destruct (core_fields _ _ (fr_core _ _ _ (fr_on_leader_changed true Y))) as (_ & -> & _) end.
      match goal with |- role (nd (fold_left (fun s x => send x (@?f x) s) ?l ?Y)) = _ =>
        rewrite (nd_fold_send f l Y) end.
      cbn. apply role_set_role. }
  destruct (majority _ _); [|exact H0].
  eapply lrs_trans; [exact H0 | apply lrs_become_leader; [exact Hp | rewrite HR; discriminate]].
Qed.

Lemma lrs_tick_leader : forall e s, lrs s (tick_leader e s).
Proof.
  intros; unfold tick_leader; cbv zeta.
  destruct (role (nd s) =? LEADER); [|lrs1].
  destruct (commit_loop _ _ _ s) as [s1 nc] eqn:E.
  assert (lrs s s1) as H1.
  { change s1 with (fst (s1, nc)); rewrite <- E; apply (fr_lrs true); apply fr_commit_loop. }
  destruct (ok s1); [|exact H1].
  match goal with |- context [existsb ?f (others (nd ?X))] => assert (lrs s X) as H2 end.
  { eapply lrs_trans; [|lrs0]. destruct (commit (nd s1) =? nc); [exact H1|].
    eapply lrs_trans; [exact H1 | lrs0]. }
  destruct (existsb _ _); [eapply lrs_trans; [exact H2 | apply (fr_lrs true); apply fr_raise]|].
  destruct (negb _); [|exact H2].
  eapply lrs_trans; [exact H2|]. lrschain.
Qed.

Lemma lrs_andthen : forall f g s, lrs s (f s) -> (forall s', lrs s' (g s')) -> lrs s ((f ;; g) s).
Proof.
  intros f g s Hf Hg; unfold andthen. destruct (ok (f s)); [|exact Hf].
  eapply lrs_trans; [exact Hf | apply Hg].
Qed.

Lemma lrs_on_tick : forall e n, period_ok e -> lrs (start_S e n) (on_tick e n).
Proof.
  intros e n Hp. rewrite on_tick_eq.
  apply lrs_andthen; [apply (fr_lrs false); apply fr_tick_load|]. intros s1.
  apply lrs_andthen; [apply (fr_lrs true); apply fr_tick_timer|]. intros s2.
  apply lrs_andthen; [apply lrs_tick_election; exact Hp|]. intros s3.
  apply lrs_andthen; [apply lrs_tick_leader|]. intros s4.
  apply (fr_lrs true); apply fr_tick_tail; exact Hp.
Qed.

Definition is_next_idx (m : msg) : bool := match m with NextIdx _ _ _ _ => true | _ => false end.

Lemma lrs_on_message : forall e from m n, period_ok e -> is_next_idx m = false ->
  lrs (start_S e n) (on_message e from m n).
Proof.
  intros e from m n Hp Hm. unfold on_message; cbv zeta.
  assert (forall t c s, lrs s (on_append_entries e from m t c s)) as HAE.
  { intros. rewrite on_append_entries_eq. destruct (t <? _); [lrs1|].
    eapply lrs_trans; [| apply (fr_lrs false); apply fr_ae_tail].
    unfold ae_head; cbv zeta. lrschain. }
  destruct m as [t lli llt|t|? ? ? ?|? ? ? ? ? ? ?|? ? ?|cm req|req okr a b|t next reset success]; try apply HAE.
  - destruct (self (nd (start_S e n))); [|lrs1].
    match goal with |- lrs ?s0 (if (role (nd ?X) =? _) || _ then _ else _) => assert (lrs s0 X) as H0 end.
    { destruct (_ <? t); lrschain. }
    destruct (_ || _); [|exact H0]. destruct (_ <=? t); [|exact H0].
    destruct (llt <? _); [exact H0|]. destruct (_ && _); [exact H0|].
    destruct (voted _); [exact H0|]. eapply lrs_trans; [exact H0|]. lrschain.
  - destruct ((role (nd (start_S e n)) =? CANDIDATE) && _) eqn:EC; [|lrs1].
    apply andb_true_iff in EC as (EC & _). apply N.eqb_eq in EC.
    destruct (majority _ _); [|lrs0].
    eapply lrs_trans; [|apply lrs_become_leader; [exact Hp|]]; [lrs0|].
    cbn in *. rewrite EC; discriminate.
  - apply (fr_lrs true); apply fr_submit.
  - destruct (aget req _); [|lrs1].
    destruct (negb okr); [lrschain|]. destruct (a <=? _); lrschain.
  - discriminate Hm.
Qed.

(* a NextIdx message refreshes exactly the sender's slot, and only at a leader of the same term *)
Lemma next_idx_last_resp : forall e from t next reset success n,
  let s := on_message e from (NextIdx t next reset success) n in
  outs s = [] /\ tnow s = t0 e /\
  (last_resp (nd s) = last_resp n \/
   (role n = LEADER /\ t = term n /\ last_resp (nd s) = aset from (t0 e) (last_resp n))).
Proof.
  intros e from t next reset success n; cbv zeta. unfold on_message; cbv zeta.
  destruct ((role (nd (start_S e n)) =? LEADER) && (t =? term (nd (start_S e n)))) eqn:EC; [|cbn; auto].
  apply andb_true_iff in EC as (E1 & E2). apply N.eqb_eq in E1, E2. cbn in E1, E2.
  match goal with |- context [if ok ?X then _ else _] => set (Y := X) end.
  assert (outs Y = [] /\ tnow Y = t0 e /\ last_resp (nd Y) = last_resp n) as (A1 & A2 & A3).
  { subst Y. destruct success.
    - destruct reset; cbn; (destruct (aget from _); [destruct (_ <? _)|]); cbn; auto.
    - destruct reset; cbn; auto. }
  clearbody Y. destruct (ok Y); [|auto].
  unfold upd; cbn. rewrite A1, A2, A3. split; [reflexivity|]. split; [reflexivity|]. right; auto.
Qed.

(* ================= a node cut off from its peers: node-level steps ================= *)
(* with need_load = false every tick starts the election phase in pre_leader *)
Lemma on_tick_noload_eq : forall e n,
  need_load n = false ->
  on_tick e n = (tick_election e ;; tick_leader e ;; tick_tail e) (pre_leader e n).
Proof.
  intros e n Hn. rewrite on_tick_eq.
  destruct (pre_leader_facts e n) as (X & _).
  assert (tick_load e (start_S e n) = upd (fun n => n <| need_load := false |>) (start_S e n)) as E1.
  { unfold tick_load. change (need_load (nd (start_S e n))) with (need_load n). rewrite Hn; reflexivity. }
  unfold andthen at 1. rewrite E1. change (ok (upd _ (start_S e n))) with true. cbv iota.
  unfold andthen at 1. fold (pre_leader e n).
  assert (ok (pre_leader e n) = true) as O by (unfold ok; rewrite X; reflexivity). rewrite O.
  reflexivity.
Qed.

(* the leader phase never touches membership, match_idx, last_resp; the commit index only moves to an
   index that a majority (self included) has matched *)
Definition mem3 (n : node) := (others n, last_resp n, match_idx n).

Lemma tick_leader_mem : forall e s,
  mem3 (nd (tick_leader e s)) = mem3 (nd s) /\ need_load (nd (tick_leader e s)) = need_load (nd s) /\
  (exists ex, outs (tick_leader e s) = outs s ++ ex /\ Forall nomem ex) /\
  (role (nd (tick_leader e s)) = role (nd s) \/ role (nd (tick_leader e s)) = FOLLOWER) /\
  (commit (nd (tick_leader e s)) = commit (nd s) \/
   (role (nd s) = LEADER /\ commit (nd s) < commit (nd (tick_leader e s)) /\
    majority (match_count (commit (nd (tick_leader e s))) (nd s)) (nd s) = true)).
Proof.
  intros e s. rewrite tick_leader_eq.
  destruct (role (nd s) =? LEADER) eqn:ER; [|repeat split; auto; exists []; rewrite app_nil_r; auto].
  apply N.eqb_eq in ER.
  destruct (commit_phase s) as [s1 nc] eqn:E.
  pose proof (commit_phase_cases s) as H; rewrite E in H; cbn [fst] in H.
  assert (nd s1 = nd s /\ outs s1 = outs s) as (N1 & O1) by (destruct H as [-> | ->]; auto).
  destruct (ok s1).
  2:{ rewrite N1, O1. repeat split; auto. exists []; rewrite app_nil_r; auto. }
  assert (nc = commit (nd s) \/ (commit (nd s) < nc /\ majority (match_count nc (nd s)) (nd s) = true)) as HC.
  { assert (snd (commit_phase s) = nc) as <- by (rewrite E; reflexivity). unfold commit_phase.
    destruct (commit_loop_result (Datatypes.S (N.to_nat (last_idx (log (nd s)) - commit (nd s)))) (commit (nd s)) (commit (nd s)) s)
      as [-> | ((A & _) & B)]; auto. }
  assert (mem3 (nd (store_commit nc s1)) = mem3 (nd s) /\ need_load (nd (store_commit nc s1)) = need_load (nd s) /\
          outs (store_commit nc s1) = outs s /\ role (nd (store_commit nc s1)) = role (nd s) /\
          commit (nd (store_commit nc s1)) = nc) as (A1 & A2 & A5 & A6 & A7).
  { unfold store_commit. destruct (_ =? nc) eqn:EN; cbn; rewrite ?N1, ?O1; repeat split.
    apply N.eqb_eq in EN. rewrite <- EN, N1; reflexivity. }
  assert (nc = commit (nd s) \/ role (nd s) = LEADER /\ commit (nd s) < nc /\
          majority (match_count nc (nd s)) (nd s) = true) as HC' by (destruct HC as [-> | (X1 & X2)]; auto).
  destruct (fallback_phase_spec e (store_commit nc s1)) as [(_ & ->) | [(_ & _ & ->) | (_ & _ & ->)]].
  - cbn. rewrite A2, A5, A6, A7. split; [exact A1|]. repeat split; auto. exists []; rewrite app_nil_r; auto.
  - cbn. rewrite A2, A5, A6, A7. split; [exact A1|]. repeat split; auto. exists []; rewrite app_nil_r; auto.
  - unfold set_role; cbn. destruct (role (nd (store_commit nc s1)) =? FOLLOWER); cbn;
      rewrite A2, A5, A7; (split; [exact A1|]); repeat split; auto.
    + exists []; rewrite app_nil_r; auto.
    + eexists; split; [reflexivity|]. repeat constructor.
Qed.

(* phases that leave membership / match_idx / last_resp / need_load alone and emit no TAdd/TDrop *)
Definition mq (s s' : S) : Prop :=
  mem_part (nd s') = mem_part (nd s) /\ need_load (nd s') = need_load (nd s) /\
  exists ex, outs s' = outs s ++ ex /\ Forall nomem ex.

Lemma mq_refl : forall s, mq s s.
Proof. intros; split; [reflexivity|]. split; [reflexivity|]. exists []; rewrite app_nil_r; auto. Qed.

Lemma mq_trans : forall a b c, mq a b -> mq b c -> mq a c.
Proof.
  intros a b c (M1 & N1 & e1 & O1 & F1) (M2 & N2 & e2 & O2 & F2).
  split; [congruence|]. split; [congruence|]. exists (e1 ++ e2).
  split; [rewrite O2, O1, app_assoc; reflexivity | apply Forall_app; auto].
Qed.

Lemma mq_upd : forall f s, (forall n, mem_part (f n) = mem_part n) -> (forall n, need_load (f n) = need_load n) ->
  mq s (upd f s).
Proof.
  intros f s H1 H2. split; [apply H1|]. split; [apply H2|]. exists []; cbn; rewrite app_nil_r; auto.
Qed.

Lemma mq_emit : forall o s, nomem o -> mq s (emit o s).
Proof. intros o s H. split; [reflexivity|]. split; [reflexivity|]. exists [o]; split; [reflexivity | auto]. Qed.

Lemma mq_send : forall d m s, mq s (send d m s).
Proof. intros; unfold send. destruct (smem d _); [apply mq_emit; exact I | apply mq_refl]. Qed.

Lemma mq_set_role : forall r s, mq s (set_role r s).
Proof.
  intros; unfold set_role; cbv zeta. destruct (role (nd s) =? r).
  - apply mq_upd; reflexivity.
  - eapply mq_trans; [| apply mq_emit; exact I]. apply mq_upd; reflexivity.
Qed.

Lemma mq_fire : forall c r e s, mq s (fire c r e s).
Proof. intros; unfold fire; destruct c; try apply mq_refl. apply mq_emit; exact I. Qed.

Lemma mq_fold : forall {A} (f : S -> A -> S) (l : list A) s,
  (forall s x, mq s (f s x)) -> mq s (fold_left f l s).
Proof.
  intros A f l; induction l as [|a l IH]; intros s H; cbn; [apply mq_refl|].
  eapply mq_trans; [apply H | apply IH; exact H].
Qed.

Lemma mq_on_leader_changed : forall s, mq s (on_leader_changed s).
Proof.
  intros; unfold on_leader_changed.
  eapply mq_trans; [| apply mq_upd; reflexivity]. apply mq_fold; intros; apply mq_fire.
Qed.

(* a quiet phase in the sense of fr that emitted no membership output is mq *)
Lemma fr_mq : forall s s', fr true s s' -> (forall ex, outs s' = outs s ++ ex -> Forall nomem ex) ->
  need_load (nd s) = false -> mq s s'.
Proof.
  intros s s' (ex & O & B & C & M & T & L & Nl) H Hn.
  pose proof (H ex O) as Hnm.
  split; [apply M; auto|]. split; [rewrite Hn; apply Nl; exact Hn|]. exists ex; auto.
Qed.

(* an election that cannot be won alone *)
Lemma tick_election_alone : forall e s,
  role (nd s) <> LEADER -> majority 1 (nd s) = false ->
  role (nd (tick_election e s)) <> LEADER /\ mq s (tick_election e s).
Proof.
  intros e s Hr Hm. unfold tick_election; cbv zeta.
  destruct (self (nd s)) as [me|]; [|split; [exact Hr | apply mq_refl]].
  destruct (_ && _); [|split; [exact Hr | apply mq_refl]].
  match goal with |- context [if majority (votes (nd ?X)) (nd ?X) then _ else _] => set (Y := X) end.
  assert (mq s Y) as HY.
  { subst Y. eapply mq_trans; [|apply mq_on_leader_changed].
    eapply mq_trans; [|apply mq_fold; intros; apply mq_send].
    eapply mq_trans; [|apply mq_upd; reflexivity].
    eapply mq_trans; [|apply mq_set_role]. apply mq_upd; reflexivity. }
  assert (role (nd Y) = CANDIDATE /\ votes (nd Y) = 1) as (B1 & B2).
  { subst Y.
    match goal with |- context [on_leader_changed ?Z] =>
      destruct (core_fields _ _ (fr_core _ _ _ (fr_on_leader_changed true Z))) as (_ & -> & _ & _ & -> & _) end.
    match goal with |- context [nd (fold_left (fun s x => send x (@?f x) s) ?l ?Z)] => rewrite (nd_fold_send f l Z) end.
    cbn. split; [apply role_set_role | reflexivity]. }
  assert (majority (votes (nd Y)) (nd Y) = false) as HM.
  { rewrite B2. destruct HY as (HM & _). unfold majority in *. unfold mem_part in HM.
    assert (others (nd Y) = others (nd s)) as -> by congruence. exact Hm. }
  rewrite HM. split; [rewrite B1; discriminate | exact HY].
Qed.

Lemma mem_part_mem3 : forall a b, mem_part a = mem_part b -> mem3 a = mem3 b /\ commit a = commit b.
Proof. unfold mem_part, mem3; intros a b H; inversion H; auto. Qed.

Lemma match_count_mem3 : forall k a b, mem3 a = mem3 b -> match_count k a = match_count k b.
Proof. unfold mem3, match_count; intros k a b H; inversion H as [[H1 H2 H3]]. rewrite H1, H3; reflexivity. Qed.

Lemma majority_mem3 : forall k a b, mem3 a = mem3 b -> majority k a = majority k b.
Proof. unfold mem3; intros k a b H; inversion H as [[H1 H2 H3]]. apply majority_others; exact H1. Qed.

(* one tick of a node that cannot win an election alone and whose membership does not change *)
Lemma cut_tick : forall e n,
  period_ok e -> need_load n = false -> majority 1 n = false -> Forall nomem (outs (on_tick e n)) ->
  let s := on_tick e n in
  mem3 (nd s) = mem3 n /\ need_load (nd s) = false /\ (role n <> LEADER -> role (nd s) <> LEADER) /\
  (commit (nd s) = commit n \/
   (role n = LEADER /\ commit n < commit (nd s) /\ majority (match_count (commit (nd s)) n) n = true)).
Proof.
  intros e n Hp Hn Hm Hout; cbv zeta. rewrite (on_tick_noload_eq e n Hn) in *. unfold andthen in Hout |- *.
  destruct (pre_leader_facts e n) as (X & _ & O & C & M & _ & _ & NL & _).
  set (P := pre_leader e n) in *.
  destruct (core_fields _ _ C) as (_ & R & _).
  destruct (mem_part_mem3 _ _ M) as (M3 & MC).
  (* election phase *)
  assert (mq P (tick_election e P) /\ (role n <> LEADER -> role (nd (tick_election e P)) <> LEADER) /\
          (role n = LEADER -> tick_election e P = P)) as (QE & RE & RE').
  { destruct (N.eq_dec (role n) LEADER) as [Hl | Hl].
    - rewrite tick_election_leader by congruence. split; [apply mq_refl|]. split; [congruence | auto].
    - destruct (tick_election_alone e P) as (A & B); [congruence | rewrite (majority_mem3 _ _ _ M3); exact Hm |].
      split; [exact B|]. split; [auto | contradiction]. }
  set (E := tick_election e P) in *.
  destruct QE as (QE1 & QE2 & exE & OE & FE).
  destruct (mem_part_mem3 _ _ QE1) as (ME3 & MEC).
  destruct (ok E).
  2:{ split; [congruence|]. split; [congruence|]. split; [exact RE | left; congruence]. }
  (* leader phase *)
  destruct (tick_leader_mem e E) as (T1 & T2 & (exT & OT & FT) & T4 & T5).
  set (T := tick_leader e E) in *.
  assert (role n <> LEADER -> role (nd T) <> LEADER) as RT.
  { intros Hl. destruct T4 as [-> | ->]; [auto | discriminate]. }
  assert (commit (nd T) = commit n \/
          (role n = LEADER /\ commit n < commit (nd T) /\ majority (match_count (commit (nd T)) n) n = true)) as CT.
  { destruct T5 as [-> | (A & B & D)]; [left; congruence|]. right.
    destruct (N.eq_dec (role n) LEADER) as [Hl | Hl]; [|exfalso; apply (RE Hl); exact A].
    split; [exact Hl|]. split; [rewrite <- MC, <- MEC; exact B|].
    rewrite <- (match_count_mem3 _ _ _ M3), <- (match_count_mem3 _ _ _ ME3).
    rewrite <- (majority_mem3 _ _ _ M3), <- (majority_mem3 _ _ _ ME3). exact D. }
  destruct (ok T).
  2:{ split; [congruence|]. split; [congruence|]. split; [exact RT | exact CT]. }
  (* the rest of the tick *)
  pose proof (fr_tick_tail true e T Hp) as (ex & OF & _ & CF & MF & _ & _ & NF).
  rewrite OF, OT, OE, O in Hout. cbn in Hout.
  apply Forall_app in Hout as (_ & Hex).
  destruct (mem_part_mem3 _ _ (MF eq_refl Hex)) as (MF3 & MFC).
  destruct (core_fields _ _ CF) as (_ & RF & _).
  split; [congruence|]. split; [apply NF; congruence|].
  split; [intros Hl; rewrite RF; auto|].
  rewrite MFC. exact CT.
Qed.
