(* C10, local parts: the leader-side gate, the member set follows the log on the append / leader /
   apply paths, a removed node is not counted, majorities of consecutive configurations meet. *)
From Coq Require Import ZArith NArith List Bool Lia.
From RecordUpdate Require Import RecordSet.
From PSO Require Import Raft.Types Raft.Node Raft.Net Raft.Obs Raft.ProofsCommitBase Raft.ProofsCommit.
Import ListNotations.
Import RecordSetNotations.
Open Scope N_scope.

(* ------------------------------------------------------------------------------------------ *)
(* sorted sets                                                                                *)

Fixpoint ssorted (l : list N) : Prop :=
  match l with
  | [] => True
  | x :: r => match r with [] => True | y :: _ => x < y end /\ ssorted r
  end.

Lemma ssorted_lb x r : ssorted (x :: r) -> forall y, smem y r = true -> x < y.
Proof.
  revert x. induction r as [|z r IH]; intros x H y Hy; cbn in Hy; [discriminate|].
  destruct H as [Hxz Hr]. apply orb_prop in Hy. destruct Hy as [Hy|Hy].
  - apply N.eqb_eq in Hy. subst. exact Hxz.
  - specialize (IH z Hr y Hy). lia.
Qed.

Lemma smem_sadd x y l : smem y (sadd x l) = (y =? x) || smem y l.
Proof.
  induction l as [|z l IH]; cbn; [now rewrite orb_false_r|].
  destruct (x <? z); cbn; [reflexivity|].
  destruct (x =? z) eqn:E; cbn.
  - apply N.eqb_eq in E. subst. destruct (y =? z); reflexivity.
  - rewrite IH. destruct (y =? z), (y =? x); reflexivity.
Qed.

Lemma ssorted_sadd x l : ssorted l -> ssorted (sadd x l).
Proof.
  induction l as [|z l IH]; intros H; cbn; [auto|].
  destruct (x <? z) eqn:E1; [apply N.ltb_lt in E1; cbn; auto|].
  destruct (x =? z) eqn:E2; [exact H|].
  apply N.ltb_ge in E1. apply N.eqb_neq in E2.
  destruct H as [Hz Hl]. specialize (IH Hl). split; [|exact IH].
  destruct l as [|w l]; cbn; [lia|].
  destruct (x <? w) eqn:E3; [lia|]. destruct (x =? w); [exact Hz|exact Hz].
Qed.

Lemma ssorted_sdel x l : ssorted l -> ssorted (sdel x l).
Proof.
  induction l as [|z l IH]; intros H; cbn; [auto|].
  destruct H as [Hz Hl]. destruct (x =? z); [exact Hl|].
  specialize (IH Hl). split; [|exact IH].
  destruct l as [|w l]; cbn; [auto|].
  destruct (x =? w); [|exact Hz].
  destruct l as [|v l]; [auto|]. destruct Hl as [Hw _]. lia.
Qed.

Lemma smem_sdel x y l : ssorted l -> smem y (sdel x l) = negb (y =? x) && smem y l.
Proof.
  induction l as [|z l IH]; intros H; cbn; [now rewrite andb_false_r|].
  destruct (x =? z) eqn:E.
  - apply N.eqb_eq in E. subst z. destruct (y =? x) eqn:E2; cbn; [|reflexivity].
    apply N.eqb_eq in E2. subst y.
    destruct (smem x l) eqn:E3; [|reflexivity].
    pose proof (ssorted_lb x l H x E3). lia.
  - cbn. destruct H as [_ Hl]. rewrite (IH Hl).
    destruct (y =? z) eqn:E2; cbn; [|reflexivity].
    apply N.eqb_eq in E2. subst z. rewrite N.eqb_sym, E. reflexivity.
Qed.

Lemma sdel_sadd x l : smem x l = false -> sdel x (sadd x l) = l.
Proof.
  induction l as [|z l IH]; intros H; cbn; [now rewrite N.eqb_refl|].
  cbn in H. apply orb_false_elim in H. destruct H as [H1 H2].
  destruct (x <? z); cbn; [now rewrite N.eqb_refl|].
  rewrite H1. cbn. rewrite H1, (IH H2). reflexivity.
Qed.

Lemma sadd_sdel x l : ssorted l -> smem x l = true -> sadd x (sdel x l) = l.
Proof.
  induction l as [|z l IH]; intros Hs H; cbn in *; [discriminate|].
  destruct (x =? z) eqn:E.
  - apply N.eqb_eq in E. subst z. destruct l as [|w l]; cbn; [reflexivity|].
    destruct Hs as [Hw _]. apply N.ltb_lt in Hw. now rewrite Hw.
  - cbn in H. destruct Hs as [Hz Hl].
    pose proof (ssorted_lb z l (conj Hz Hl) x H) as Hlt.
    cbn. destruct (x <? z) eqn:E1; [apply N.ltb_lt in E1; lia|]. rewrite E.
    now rewrite (IH Hl H).
Qed.

(* association lists with sorted keys *)
Fixpoint asorted {V} (l : list (N * V)) : Prop :=
  match l with
  | [] => True
  | (k, _) :: r => match r with [] => True | (k', _) :: _ => k < k' end /\ asorted r
  end.

Lemma asorted_lb {V} k v (r : list (N * V)) : asorted ((k, v) :: r) -> forall y, aget y r <> None -> k < y.
Proof.
  revert k v. induction r as [|[k' v'] r IH]; intros k v H y Hy; cbn in Hy; [congruence|].
  destruct H as [Hk Hr]. destruct (y =? k') eqn:E.
  - apply N.eqb_eq in E. subst. exact Hk.
  - specialize (IH k' v' Hr y Hy). lia.
Qed.

Lemma aget_adel_same {V} k (l : list (N * V)) : asorted l -> aget k (adel k l) = None.
Proof.
  induction l as [|[k' v'] r IH]; intros H; cbn; [reflexivity|].
  destruct (k =? k') eqn:E.
  - apply N.eqb_eq in E. subst k'.
    destruct (aget k r) eqn:E2; [|reflexivity].
    assert (Hne : aget k r <> None) by congruence.
    pose proof (asorted_lb k v' r H k Hne). lia.
  - cbn. rewrite E. destruct H as [_ Hr]. exact (IH Hr).
Qed.

(* ------------------------------------------------------------------------------------------ *)
(* the member set as a function of the membership commands                                    *)

Definition mop := (bool * nid)%type.          (* (true, x) = add x, (false, x) = rem x *)

Definition is_me (me : option nid) (x : nid) : bool :=
  match me with Some i => i =? x | None => false end.

(* __doChangeCluster on the set of other nodes *)
Definition step_member (me : option nid) (l : list nid) (o : mop) : list nid :=
  if fst o then (if is_me me (snd o) || smem (snd o) l then l else sadd (snd o) l)
  else (if is_me me (snd o) || negb (smem (snd o) l) then l else sdel (snd o) l).

Definition flip_op (o : mop) : mop := (negb (fst o), snd o).

Definition mem_ops (es : list entry) : list mop :=
  flat_map (fun e => match membership_of (ecmd e) with Some p => [p] | None => [] end) es.

Definition fold_members (base : list nid) (es : list entry) (me : option nid) : list nid :=
  fold_left (step_member me) (mem_ops es) base.

Lemma mem_ops_app a b : mem_ops (a ++ b) = mem_ops a ++ mem_ops b.
Proof. unfold mem_ops. apply flat_map_app. Qed.

Lemma mem_ops_rev es : mem_ops (rev es) = rev (mem_ops es).
Proof.
  induction es as [|e es IH]; [reflexivity|]. cbn [rev]. rewrite mem_ops_app, IH.
  cbn. destruct (membership_of (ecmd e)); cbn; [reflexivity|now rewrite app_nil_r].
Qed.

Lemma fold_members_app base a b me :
  fold_members base (a ++ b) me = fold_members (fold_members base a me) b me.
Proof. unfold fold_members. now rewrite mem_ops_app, fold_left_app. Qed.

Lemma ssorted_step me l o : ssorted l -> ssorted (step_member me l o).
Proof.
  intros H. unfold step_member. destruct (fst o).
  - destruct (_ || _); [exact H|now apply ssorted_sadd].
  - destruct (_ || _); [exact H|now apply ssorted_sdel].
Qed.

Lemma ssorted_fold me ops l : ssorted l -> ssorted (fold_left (step_member me) ops l).
Proof. revert l. induction ops as [|o ops IH]; intros l H; cbn; auto using ssorted_step. Qed.

(* the command changed the set when it was applied *)
Definition effective (me : option nid) (l : list nid) (o : mop) : bool :=
  negb (is_me me (snd o)) && (if fst o then negb (smem (snd o) l) else smem (snd o) l).

(* the condition under which undoing the command restores the set: it names this node (a no-op
   in both directions) or it was effective *)
Definition undo_ok (me : option nid) (l : list nid) (o : mop) : bool :=
  is_me me (snd o) || effective me l o.

Fixpoint all_undo_ok (me : option nid) (l : list nid) (ops : list mop) : bool :=
  match ops with
  | [] => true
  | o :: r => undo_ok me l o && all_undo_ok me (step_member me l o) r
  end.

(* for one command the condition is exact *)
Lemma undo_one_exact me l o :
  ssorted l ->
  (step_member me (step_member me l o) (flip_op o) = l <-> undo_ok me l o = true).
Proof.
  intros Hs. destruct o as [a x]. unfold undo_ok, effective, step_member, flip_op. cbn [fst snd].
  destruct (is_me me x) eqn:Eme; cbn [orb negb andb].
  { destruct a; cbn [negb]; rewrite ?Eme; cbn [orb]; tauto. }
  destruct a; cbn [negb].
  - destruct (smem x l) eqn:Em; cbn [negb].
    + rewrite Em. cbn [negb orb]. split; [|discriminate]. intros H.
      assert (Hx : smem x (sdel x l) = true) by (rewrite H; exact Em).
      rewrite smem_sdel in Hx by exact Hs. rewrite N.eqb_refl in Hx. discriminate.
    + rewrite smem_sadd, N.eqb_refl. cbn [orb negb]. rewrite sdel_sadd by exact Em. tauto.
  - destruct (smem x l) eqn:Em; cbn [negb].
    + rewrite smem_sdel, N.eqb_refl by exact Hs. cbn [negb andb orb].
      rewrite sadd_sdel by assumption. tauto.
    + rewrite Em. cbn [negb orb]. split; [|discriminate]. intros H.
      assert (Hx : smem x (sadd x l) = false) by (rewrite H; exact Em).
      rewrite smem_sadd, N.eqb_refl in Hx. discriminate.
Qed.

Lemma undo_exact me ops l :
  ssorted l -> all_undo_ok me l ops = true ->
  fold_left (step_member me) (map flip_op (rev ops)) (fold_left (step_member me) ops l) = l.
Proof.
  revert l. induction ops as [|o ops IH]; intros l Hs H; [reflexivity|].
  cbn in H. apply andb_prop in H. destruct H as [H1 H2].
  cbn [rev fold_left]. rewrite map_app, fold_left_app. cbn [map fold_left].
  rewrite IH by auto using ssorted_step.
  now apply undo_one_exact.
Qed.

(* ------------------------------------------------------------------------------------------ *)
(* what the model's helpers do to [others]                                                    *)

Lemma is_me_self x n : self_is x n = is_me (self n) x.
Proof. reflexivity. Qed.

Lemma do_change_cluster_others a x r s :
  others (nd (fst (do_change_cluster a x r s))) = step_member (self (nd s)) (others (nd s)) (xorb a r, x) /\
  self (nd (fst (do_change_cluster a x r s))) = self (nd s).
Proof.
  unfold do_change_cluster, step_member. cbn [fst snd]. rewrite is_me_self.
  destruct (xorb a r).
  - destruct (is_me (self (nd s)) x || smem x (others (nd s))); [now split|].
    cbn. destruct (role (nd s) =? LEADER); cbn; now split.
  - destruct (is_me (self (nd s)) x); cbn [orb fst]; [now split|].
    destruct (smem x (others (nd s))); cbn; now split.
Qed.

Lemma do_change_cluster_ok a x r s :
  snd (do_change_cluster a x r s) = effective (self (nd s)) (others (nd s)) (xorb a r, x).
Proof.
  unfold do_change_cluster, effective. cbn [fst snd]. rewrite is_me_self.
  destruct (xorb a r).
  - destruct (is_me (self (nd s)) x); cbn; [reflexivity|]. destruct (smem x (others (nd s))); reflexivity.
  - destruct (is_me (self (nd s)) x); cbn; [reflexivity|]. destruct (smem x (others (nd s))); reflexivity.
Qed.

Lemma do_change_cluster_refused a x r s :
  snd (do_change_cluster a x r s) = false -> fst (do_change_cluster a x r s) = s.
Proof.
  unfold do_change_cluster. destruct (xorb a r).
  - destruct (_ || _); [reflexivity|discriminate].
  - destruct (self_is x (nd s)); [reflexivity|]. destruct (negb _); [reflexivity|discriminate].
Qed.

Lemma apply_membership_others r es s :
  others (nd (apply_membership r es s)) =
    fold_left (step_member (self (nd s))) (map (fun o => (xorb (fst o) r, snd o)) (mem_ops es)) (others (nd s)) /\
  self (nd (apply_membership r es s)) = self (nd s).
Proof.
  unfold apply_membership. revert s. induction es as [|en es IH]; intros s; cbn [fold_left]; [now split|].
  destruct (IH (match membership_of (ecmd en) with
                | Some (a, x) => fst (do_change_cluster a x r s) | None => s end)) as [I1 I2].
  rewrite I1, I2. cbn [mem_ops flat_map].
  destruct (membership_of (ecmd en)) as [[a x]|]; cbn [app map fold_left fst snd].
  - destruct (do_change_cluster_others a x r s) as [-> ->]. now split.
  - now split.
Qed.

Lemma map_xorb_false ops : map (fun o : mop => (xorb (fst o) false, snd o)) ops = ops.
Proof.
  induction ops as [|[a x] ops IH]; cbn; [reflexivity|]. rewrite IH, xorb_false_r. reflexivity.
Qed.

Lemma map_xorb_true ops : map (fun o : mop => (xorb (fst o) true, snd o)) ops = map flip_op ops.
Proof.
  induction ops as [|[a x] ops IH]; cbn; [reflexivity|]. rewrite IH, xorb_true_r. reflexivity.
Qed.

(* ------------------------------------------------------------------------------------------ *)
(* C10_gate                                                                                   *)

Definition gate_open (n : node) : Prop :=
  (exists i, noop_idx n = Some i /\ i <= applied n) /\
  (change_idx n = None \/ exists j, change_idx n = Some j /\ j <= applied n).

(* the REQUEST_DENIED answer *)
Definition denied_out (cbk : cbref) (s : S) : S :=
  match cbk with
  | CbRemote rn rid => send rn (ApplyResp rid false REQUEST_DENIED 0) s
  | CbLocal id => emit (Fired id 0 REQUEST_DENIED) s
  | CbNone => s
  end.

(* the state the request is answered from: the input state, possibly with a stale pending-change
   marker cleared *)
Definition gate_state (s s0 : S) : Prop :=
  (nd s0 = nd s \/ (nd s0 = nd s <| change_idx := None |> /\
                    exists j, change_idx (nd s) = Some j /\ j <= applied (nd s))) /\
  outs s0 = outs s /\ exc s0 = exc s /\ tnow s0 = tnow s /\ used s0 = used s /\ jmp s0 = jmp s /\ njmp s0 = njmp s.

Lemma change_cluster_spec a x s :
  let n := nd s in
  (gate_open n /\ exists s0, gate_state s s0 /\ change_idx (nd s0) = None /\
                             change_cluster a x s = do_change_cluster a x false s0) \/
  (~ gate_open n /\ exists s0, gate_state s s0 /\ change_cluster a x s = (s0, false)).
Proof.
  cbv zeta. unfold change_cluster, gate_open.
  assert (Hrefl : gate_state s s) by (unfold gate_state; tauto).
  destruct (noop_idx (nd s)) as [i|] eqn:En.
  2:{ right. cbn. split; [intros [(i & Hi & _) _]; discriminate|]. exists s. split; [exact Hrefl|reflexivity]. }
  destruct (i <=? applied (nd s)) eqn:Ei; cbn [negb].
  2:{ right. split; [|exists s; split; [exact Hrefl|reflexivity]].
      intros [(i' & Hi' & Hle) _]. inversion Hi'; subst. apply N.leb_gt in Ei. lia. }
  apply N.leb_le in Ei.
  destruct (change_idx (nd s)) as [ci|] eqn:Ec.
  - destruct (ci <=? applied (nd s)) eqn:Eci.
    + apply N.leb_le in Eci. left. split.
      * split; [exists i; auto|right; exists ci; auto].
      * exists (upd (fun n => n <| change_idx := None |>) s). split; [|split; reflexivity].
        unfold gate_state. cbn. split; [right; split; [reflexivity|eauto]|tauto].
    + right. rewrite Ec. split; [|exists s; split; [exact Hrefl|reflexivity]].
      intros [_ [H|(j & Hj & Hle)]]; [discriminate|]. inversion Hj; subst. apply N.leb_gt in Eci. lia.
  - left. rewrite Ec. split.
    + split; [exists i; auto|now left].
    + exists s. split; [exact Hrefl|]. split; [exact Ec|reflexivity].
Qed.

Lemma nd_denied_out cbk s : nd (denied_out cbk s) = nd s.
Proof. destruct cbk; cbn; auto using nd_send. Qed.

Theorem gate e c cbk s a x :
  dyn (cf e) = true -> role (nd s) = LEADER -> membership_of c = Some (a, x) ->
  let n := nd s in
  let s' := check_one e c cbk s in
  let idx := last_idx (log n) + 1 in
  (gate_open n /\ effective (self n) (others n) (a, x) = true /\
   log (nd s') = log n ++ [mkEntry c idx (term n)] /\
   change_idx (nd s') = Some idx /\
   others (nd s') = step_member (self n) (others n) (a, x))
  \/
  ((~ gate_open n \/ effective (self n) (others n) (a, x) = false) /\
   exists s0, gate_state s s0 /\ s' = denied_out cbk s0).
Proof.
  intros Hd Hr Hm. cbv zeta. unfold check_one. rewrite Hr, Hd, Hm. cbn [N.eqb Pos.eqb LEADER].
  change (2 =? 2) with true. cbv iota.
  destruct (change_cluster_spec a x s) as [(Hg & s0 & Hgs & Hc0 & ->)|(Hg & s0 & Hgs & ->)]; cbv zeta in *.
  2:{ right. split; [now left|]. exists s0. split; [exact Hgs|]. destruct cbk; reflexivity. }
  assert (Hs0 : self (nd s0) = self (nd s) /\ others (nd s0) = others (nd s) /\ log (nd s0) = log (nd s)).
  { destruct Hgs as [[->|[-> _]] _]; cbn; auto. }
  destruct Hs0 as (Hself & Hoth & Hlog).
  pose proof (do_change_cluster_ok a x false s0) as Hok.
  pose proof (do_change_cluster_others a x false s0) as [Hot _].
  pose proof (fr_do_change_cluster log) as Hl. specialize (Hl ltac:(frs) ltac:(frs) ltac:(frs) ltac:(frs) ltac:(frs) a x false s0).
  rewrite xorb_false_r, Hself, Hoth in Hok, Hot.
  pose proof (do_change_cluster_refused a x false s0) as Href.
  destruct (do_change_cluster a x false s0) as [s1 acc]. cbn [fst snd] in *.
  destruct acc.
  - left. split; [exact Hg|]. split; [now symmetry|].
    set (s2 := upd _ (upd (log_add _) s1)).
    assert (E2 : log (nd s2) = log (nd s) ++ [mkEntry c (last_idx (log (nd s)) + 1) (term (nd s))] /\
                 change_idx (nd s2) = Some (last_idx (log (nd s)) + 1) /\
                 others (nd s2) = step_member (self (nd s)) (others (nd s)) (a, x)).
    { subst s2. cbn. rewrite Hl, Hlog, Hot. auto. }
    clearbody s2. destruct E2 as (E2a & E2b & E2c).
    set (s3 := match cbk with CbNone => s2 | _ => _ end).
    assert (E3 : log (nd s3) = log (nd s2) /\ change_idx (nd s3) = change_idx (nd s2) /\
                 others (nd s3) = others (nd s2)).
    { subst s3. destruct cbk; cbn; rewrite ?nd_send; auto. }
    clearbody s3. destruct E3 as (E3a & E3b & E3c).
    destruct (use_batch (cf e)).
    + rewrite E3a, E3b, E3c. auto.
    + rewrite (fr_send_ae log), (fr_send_ae change_idx), (fr_send_ae others) by frs.
      rewrite E3a, E3b, E3c. auto.
  - right. split; [right; now symmetry|]. exists s1. split; [|destruct cbk; reflexivity].
    (* a refused __doChangeCluster leaves the state as it is *)
    rewrite (Href eq_refl). exact Hgs.
Qed.
