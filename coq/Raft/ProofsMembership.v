(* C10, local parts: the leader-side gate, the member set follows the log on the append / leader /
   apply paths, a removed node is not counted, majorities of consecutive configurations meet. *)
From Coq Require Import ZArith NArith List Bool Lia.
From RecordUpdate Require Import RecordSet.
From PSO Require Import Raft.Types Raft.Node Raft.Net Raft.Obs Raft.ProofsCommitBase Raft.ProofsCommit.
Import ListNotations.
Import RecordSetNotations.
Open Scope N_scope.

(* ------------------------------------------------------------------------------------------ *)
(* sorted sets                                                                                *)

Fixpoint ssorted (l : list N) : Prop :=
  match l with
  | [] => True
  | x :: r => match r with [] => True | y :: _ => x < y end /\ ssorted r
  end.

Lemma ssorted_lb x r : ssorted (x :: r) -> forall y, smem y r = true -> x < y.
Proof.
  revert x. induction r as [|z r IH]; intros x H y Hy; cbn in Hy; [discriminate|].
  destruct H as [Hxz Hr]. apply orb_prop in Hy. destruct Hy as [Hy|Hy].
  - apply N.eqb_eq in Hy. subst. exact Hxz.
  - specialize (IH z Hr y Hy). lia.
Qed.

Lemma smem_sadd x y l : smem y (sadd x l) = (y =? x) || smem y l.
Proof.
  induction l as [|z l IH]; cbn; [now rewrite orb_false_r|].
  destruct (x <? z); cbn; [reflexivity|].
  destruct (x =? z) eqn:E; cbn.
  - apply N.eqb_eq in E. subst. destruct (y =? z); reflexivity.
  - rewrite IH. destruct (y =? z), (y =? x); reflexivity.
Qed.

Lemma ssorted_sadd x l : ssorted l -> ssorted (sadd x l).
Proof.
  induction l as [|z l IH]; intros H; cbn; [auto|].
  destruct (x <? z) eqn:E1; [apply N.ltb_lt in E1; cbn; auto|].
  destruct (x =? z) eqn:E2; [exact H|].
  apply N.ltb_ge in E1. apply N.eqb_neq in E2.
  destruct H as [Hz Hl]. specialize (IH Hl). split; [|exact IH].
  destruct l as [|w l]; cbn; [lia|].
  destruct (x <? w) eqn:E3; [lia|]. destruct (x =? w); [exact Hz|exact Hz].
Qed.

Lemma ssorted_sdel x l : ssorted l -> ssorted (sdel x l).
Proof.
  induction l as [|z l IH]; intros H; cbn; [auto|].
  destruct H as [Hz Hl]. destruct (x =? z); [exact Hl|].
  specialize (IH Hl). split; [|exact IH].
  destruct l as [|w l]; cbn; [auto|].
  destruct (x =? w); [|exact Hz].
  destruct l as [|v l]; [auto|]. destruct Hl as [Hw _]. lia.
Qed.

Lemma smem_sdel x y l : ssorted l -> smem y (sdel x l) = negb (y =? x) && smem y l.
Proof.
  induction l as [|z l IH]; intros H; cbn; [now rewrite andb_false_r|].
  destruct (x =? z) eqn:E.
  - apply N.eqb_eq in E. subst z. destruct (y =? x) eqn:E2; cbn; [|reflexivity].
    apply N.eqb_eq in E2. subst y.
    destruct (smem x l) eqn:E3; [|reflexivity].
    pose proof (ssorted_lb x l H x E3). lia.
  - cbn. destruct H as [_ Hl]. rewrite (IH Hl).
    destruct (y =? z) eqn:E2; cbn; [|reflexivity].
    apply N.eqb_eq in E2. subst z. rewrite N.eqb_sym, E. reflexivity.
Qed.

Lemma sdel_sadd x l : smem x l = false -> sdel x (sadd x l) = l.
Proof.
  induction l as [|z l IH]; intros H; cbn; [now rewrite N.eqb_refl|].
  cbn in H. apply orb_false_elim in H. destruct H as [H1 H2].
  destruct (x <? z); cbn; [now rewrite N.eqb_refl|].
  rewrite H1. cbn. rewrite H1, (IH H2). reflexivity.
Qed.

Lemma sadd_sdel x l : ssorted l -> smem x l = true -> sadd x (sdel x l) = l.
Proof.
  induction l as [|z l IH]; intros Hs H; cbn in *; [discriminate|].
  destruct (x =? z) eqn:E.
  - apply N.eqb_eq in E. subst z. destruct l as [|w l]; cbn; [reflexivity|].
    destruct Hs as [Hw _]. apply N.ltb_lt in Hw. now rewrite Hw.
  - cbn in H. destruct Hs as [Hz Hl].
    pose proof (ssorted_lb z l (conj Hz Hl) x H) as Hlt.
    cbn. destruct (x <? z) eqn:E1; [apply N.ltb_lt in E1; lia|]. rewrite E.
    now rewrite (IH Hl H).
Qed.

(* association lists with sorted keys *)
Fixpoint asorted {V} (l : list (N * V)) : Prop :=
  match l with
  | [] => True
  | (k, _) :: r => match r with [] => True | (k', _) :: _ => k < k' end /\ asorted r
  end.

Lemma asorted_lb {V} k v (r : list (N * V)) : asorted ((k, v) :: r) -> forall y, aget y r <> None -> k < y.
Proof.
  revert k v. induction r as [|[k' v'] r IH]; intros k v H y Hy; cbn in Hy; [congruence|].
  destruct H as [Hk Hr]. destruct (y =? k') eqn:E.
  - apply N.eqb_eq in E. subst. exact Hk.
  - specialize (IH k' v' Hr y Hy). lia.
Qed.

Lemma aget_adel_same {V} k (l : list (N * V)) : asorted l -> aget k (adel k l) = None.
Proof.
  induction l as [|[k' v'] r IH]; intros H; cbn; [reflexivity|].
  destruct (k =? k') eqn:E.
  - apply N.eqb_eq in E. subst k'.
    destruct (aget k r) eqn:E2; [|reflexivity].
    assert (Hne : aget k r <> None) by congruence.
    pose proof (asorted_lb k v' r H k Hne). lia.
  - cbn. rewrite E. destruct H as [_ Hr]. exact (IH Hr).
Qed.

(* ------------------------------------------------------------------------------------------ *)
(* the member set as a function of the membership commands                                    *)

Definition mop := (bool * nid)%type.          (* (true, x) = add x, (false, x) = rem x *)

Definition is_me (me : option nid) (x : nid) : bool :=
  match me with Some i => i =? x | None => false end.

(* __doChangeCluster on the set of other nodes *)
Definition step_member (me : option nid) (l : list nid) (o : mop) : list nid :=
  if fst o then (if is_me me (snd o) || smem (snd o) l then l else sadd (snd o) l)
  else (if is_me me (snd o) || negb (smem (snd o) l) then l else sdel (snd o) l).

Definition flip_op (o : mop) : mop := (negb (fst o), snd o).

Definition mem_ops (es : list entry) : list mop :=
  flat_map (fun e => match membership_of (ecmd e) with Some p => [p] | None => [] end) es.

Definition fold_members (base : list nid) (es : list entry) (me : option nid) : list nid :=
  fold_left (step_member me) (mem_ops es) base.

Lemma mem_ops_app a b : mem_ops (a ++ b) = mem_ops a ++ mem_ops b.
Proof. unfold mem_ops. apply flat_map_app. Qed.

Lemma mem_ops_rev es : mem_ops (rev es) = rev (mem_ops es).
Proof.
  induction es as [|e es IH]; [reflexivity|]. cbn [rev]. rewrite mem_ops_app, IH.
  cbn. destruct (membership_of (ecmd e)); cbn; [reflexivity|now rewrite app_nil_r].
Qed.

Lemma fold_members_app base a b me :
  fold_members base (a ++ b) me = fold_members (fold_members base a me) b me.
Proof. unfold fold_members. now rewrite mem_ops_app, fold_left_app. Qed.

Lemma ssorted_step me l o : ssorted l -> ssorted (step_member me l o).
Proof.
  intros H. unfold step_member. destruct (fst o).
  - destruct (_ || _); [exact H|now apply ssorted_sadd].
  - destruct (_ || _); [exact H|now apply ssorted_sdel].
Qed.

Lemma ssorted_fold me ops l : ssorted l -> ssorted (fold_left (step_member me) ops l).
Proof. revert l. induction ops as [|o ops IH]; intros l H; cbn; auto using ssorted_step. Qed.

(* the command changed the set when it was applied *)
Definition effective (me : option nid) (l : list nid) (o : mop) : bool :=
  negb (is_me me (snd o)) && (if fst o then negb (smem (snd o) l) else smem (snd o) l).

(* the condition under which undoing the command restores the set: it names this node (a no-op
   in both directions) or it was effective *)
Definition undo_ok (me : option nid) (l : list nid) (o : mop) : bool :=
  is_me me (snd o) || effective me l o.

Fixpoint all_undo_ok (me : option nid) (l : list nid) (ops : list mop) : bool :=
  match ops with
  | [] => true
  | o :: r => undo_ok me l o && all_undo_ok me (step_member me l o) r
  end.

(* for one command the condition is exact *)
Lemma undo_one_exact me l o :
  ssorted l ->
  (step_member me (step_member me l o) (flip_op o) = l <-> undo_ok me l o = true).
Proof.
  intros Hs. destruct o as [a x]. unfold undo_ok, effective, step_member, flip_op. cbn [fst snd].
  destruct (is_me me x) eqn:Eme; cbn [orb negb andb].
  { destruct a; cbn [negb]; rewrite ?Eme; cbn [orb]; tauto. }
  destruct a; cbn [negb].
  - destruct (smem x l) eqn:Em; cbn [negb].
    + rewrite Em. cbn [negb orb]. split; [|discriminate]. intros H.
      assert (Hx : smem x (sdel x l) = true) by (rewrite H; exact Em).
      rewrite smem_sdel in Hx by exact Hs. rewrite N.eqb_refl in Hx. discriminate.
    + rewrite smem_sadd, N.eqb_refl. cbn [orb negb]. rewrite sdel_sadd by exact Em. tauto.
  - destruct (smem x l) eqn:Em; cbn [negb].
    + rewrite smem_sdel, N.eqb_refl by exact Hs. cbn [negb andb orb].
      rewrite sadd_sdel by assumption. tauto.
    + rewrite Em. cbn [negb orb]. split; [|discriminate]. intros H.
      assert (Hx : smem x (sadd x l) = false) by (rewrite H; exact Em).
      rewrite smem_sadd, N.eqb_refl in Hx. discriminate.
Qed.

Lemma undo_exact me ops l :
  ssorted l -> all_undo_ok me l ops = true ->
  fold_left (step_member me) (map flip_op (rev ops)) (fold_left (step_member me) ops l) = l.
Proof.
  revert l. induction ops as [|o ops IH]; intros l Hs H; [reflexivity|].
  cbn in H. apply andb_prop in H. destruct H as [H1 H2].
  cbn [rev fold_left]. rewrite map_app, fold_left_app. cbn [map fold_left].
  rewrite IH by auto using ssorted_step.
  now apply undo_one_exact.
Qed.

(* ------------------------------------------------------------------------------------------ *)
(* what the model's helpers do to [others]                                                    *)

Lemma is_me_self x n : self_is x n = is_me (self n) x.
Proof. reflexivity. Qed.

Lemma do_change_cluster_others a x r s :
  others (nd (fst (do_change_cluster a x r s))) = step_member (self (nd s)) (others (nd s)) (xorb a r, x) /\
  self (nd (fst (do_change_cluster a x r s))) = self (nd s).
Proof.
  unfold do_change_cluster, step_member. cbn [fst snd]. rewrite is_me_self.
  destruct (xorb a r).
  - destruct (is_me (self (nd s)) x || smem x (others (nd s))); [now split|].
    cbn. destruct (role (nd s) =? LEADER); cbn; now split.
  - destruct (is_me (self (nd s)) x); cbn [orb fst]; [now split|].
    destruct (smem x (others (nd s))); cbn; now split.
Qed.

Lemma do_change_cluster_ok a x r s :
  snd (do_change_cluster a x r s) = effective (self (nd s)) (others (nd s)) (xorb a r, x).
Proof.
  unfold do_change_cluster, effective. cbn [fst snd]. rewrite is_me_self.
  destruct (xorb a r).
  - destruct (is_me (self (nd s)) x); cbn; [reflexivity|]. destruct (smem x (others (nd s))); reflexivity.
  - destruct (is_me (self (nd s)) x); cbn; [reflexivity|]. destruct (smem x (others (nd s))); reflexivity.
Qed.

Lemma do_change_cluster_refused a x r s :
  snd (do_change_cluster a x r s) = false -> fst (do_change_cluster a x r s) = s.
Proof.
  unfold do_change_cluster. destruct (xorb a r).
  - destruct (_ || _); [reflexivity|discriminate].
  - destruct (self_is x (nd s)); [reflexivity|]. destruct (negb _); [reflexivity|discriminate].
Qed.

Lemma apply_membership_others r es s :
  others (nd (apply_membership r es s)) =
    fold_left (step_member (self (nd s))) (map (fun o => (xorb (fst o) r, snd o)) (mem_ops es)) (others (nd s)) /\
  self (nd (apply_membership r es s)) = self (nd s).
Proof.
  unfold apply_membership. revert s. induction es as [|en es IH]; intros s; cbn [fold_left]; [now split|].
  destruct (IH (match membership_of (ecmd en) with
                | Some (a, x) => fst (do_change_cluster a x r s) | None => s end)) as [I1 I2].
  rewrite I1, I2. cbn [mem_ops flat_map].
  destruct (membership_of (ecmd en)) as [[a x]|]; cbn [app map fold_left fst snd].
  - destruct (do_change_cluster_others a x r s) as [-> ->]. now split.
  - now split.
Qed.

Lemma map_xorb_false ops : map (fun o : mop => (xorb (fst o) false, snd o)) ops = ops.
Proof.
  induction ops as [|[a x] ops IH]; cbn; [reflexivity|]. rewrite IH, xorb_false_r. reflexivity.
Qed.

Lemma map_xorb_true ops : map (fun o : mop => (xorb (fst o) true, snd o)) ops = map flip_op ops.
Proof.
  induction ops as [|[a x] ops IH]; cbn; [reflexivity|]. rewrite IH, xorb_true_r. reflexivity.
Qed.

(* ------------------------------------------------------------------------------------------ *)
(* C10_gate                                                                                   *)

Definition gate_open (n : node) : Prop :=
  (exists i, noop_idx n = Some i /\ i <= applied n) /\
  (change_idx n = None \/ exists j, change_idx n = Some j /\ j <= applied n).

(* the REQUEST_DENIED answer *)
Definition denied_out (cbk : cbref) (s : S) : S :=
  match cbk with
  | CbRemote rn rid => send rn (ApplyResp rid false REQUEST_DENIED 0) s
  | CbLocal id => emit (Fired id 0 REQUEST_DENIED) s
  | CbNone => s
  end.

(* the state the request is answered from: the input state, possibly with a stale pending-change
   marker cleared *)
Definition gate_state (s s0 : S) : Prop :=
  (nd s0 = nd s \/ (nd s0 = nd s <| change_idx := None |> /\
                    exists j, change_idx (nd s) = Some j /\ j <= applied (nd s))) /\
  outs s0 = outs s /\ exc s0 = exc s /\ tnow s0 = tnow s /\ used s0 = used s /\ jmp s0 = jmp s /\ njmp s0 = njmp s.

Lemma change_cluster_spec a x s :
  let n := nd s in
  (gate_open n /\ exists s0, gate_state s s0 /\ change_idx (nd s0) = None /\
                             change_cluster a x s = do_change_cluster a x false s0) \/
  (~ gate_open n /\ exists s0, gate_state s s0 /\ change_cluster a x s = (s0, false)).
Proof.
  cbv zeta. unfold change_cluster, gate_open.
  assert (Hrefl : gate_state s s) by (unfold gate_state; tauto).
  destruct (noop_idx (nd s)) as [i|] eqn:En.
  2:{ right. cbn. split; [intros [(i & Hi & _) _]; discriminate|]. exists s. split; [exact Hrefl|reflexivity]. }
  destruct (i <=? applied (nd s)) eqn:Ei; cbn [negb].
  2:{ right. split; [|exists s; split; [exact Hrefl|reflexivity]].
      intros [(i' & Hi' & Hle) _]. inversion Hi'; subst. apply N.leb_gt in Ei. lia. }
  apply N.leb_le in Ei.
  destruct (change_idx (nd s)) as [ci|] eqn:Ec.
  - destruct (ci <=? applied (nd s)) eqn:Eci.
    + apply N.leb_le in Eci. left. split.
      * split; [exists i; auto|right; exists ci; auto].
      * exists (upd (fun n => n <| change_idx := None |>) s). split; [|split; reflexivity].
        unfold gate_state. cbn. split; [right; split; [reflexivity|eauto]|tauto].
    + right. rewrite Ec. split; [|exists s; split; [exact Hrefl|reflexivity]].
      intros [_ [H|(j & Hj & Hle)]]; [discriminate|]. inversion Hj; subst. apply N.leb_gt in Eci. lia.
  - left. rewrite Ec. split.
    + split; [exists i; auto|now left].
    + exists s. split; [exact Hrefl|]. split; [exact Ec|reflexivity].
Qed.

Lemma nd_denied_out cbk s : nd (denied_out cbk s) = nd s.
Proof. destruct cbk; cbn; auto using nd_send. Qed.

Theorem gate e c cbk s a x :
  dyn (cf e) = true -> role (nd s) = LEADER -> membership_of c = Some (a, x) ->
  let n := nd s in
  let s' := check_one e c cbk s in
  let idx := last_idx (log n) + 1 in
  (gate_open n /\ effective (self n) (others n) (a, x) = true /\
   log (nd s') = log n ++ [mkEntry c idx (term n)] /\
   change_idx (nd s') = Some idx /\
   others (nd s') = step_member (self n) (others n) (a, x))
  \/
  ((~ gate_open n \/ effective (self n) (others n) (a, x) = false) /\
   exists s0, gate_state s s0 /\ s' = denied_out cbk s0).
Proof.
  intros Hd Hr Hm. cbv zeta. unfold check_one. rewrite Hr, Hd, Hm. cbn [N.eqb Pos.eqb LEADER].
  change (2 =? 2) with true. cbv iota.
  destruct (change_cluster_spec a x s) as [(Hg & s0 & Hgs & Hc0 & ->)|(Hg & s0 & Hgs & ->)]; cbv zeta in *.
  2:{ right. split; [now left|]. exists s0. split; [exact Hgs|]. destruct cbk; reflexivity. }
  assert (Hs0 : self (nd s0) = self (nd s) /\ others (nd s0) = others (nd s) /\ log (nd s0) = log (nd s)).
  { destruct Hgs as [[->|[-> _]] _]; cbn; auto. }
  destruct Hs0 as (Hself & Hoth & Hlog).
  pose proof (do_change_cluster_ok a x false s0) as Hok.
  pose proof (do_change_cluster_others a x false s0) as [Hot _].
  pose proof (fr_do_change_cluster log) as Hl. specialize (Hl ltac:(frs) ltac:(frs) ltac:(frs) ltac:(frs) ltac:(frs) a x false s0).
  rewrite xorb_false_r, Hself, Hoth in Hok, Hot.
  pose proof (do_change_cluster_refused a x false s0) as Href.
  destruct (do_change_cluster a x false s0) as [s1 acc]. cbn [fst snd] in *.
  destruct acc.
  - left. split; [exact Hg|]. split; [now symmetry|].
    set (s2 := upd _ (upd (log_add _) s1)).
    assert (E2 : log (nd s2) = log (nd s) ++ [mkEntry c (last_idx (log (nd s)) + 1) (term (nd s))] /\
                 change_idx (nd s2) = Some (last_idx (log (nd s)) + 1) /\
                 others (nd s2) = step_member (self (nd s)) (others (nd s)) (a, x)).
    { subst s2. cbn. rewrite Hl, Hlog, Hot. auto. }
    clearbody s2. destruct E2 as (E2a & E2b & E2c).
    set (s3 := match cbk with CbNone => s2 | _ => _ end).
    assert (E3 : log (nd s3) = log (nd s2) /\ change_idx (nd s3) = change_idx (nd s2) /\
                 others (nd s3) = others (nd s2)).
    { subst s3. destruct cbk; cbn; rewrite ?nd_send; auto. }
    clearbody s3. destruct E3 as (E3a & E3b & E3c).
    destruct (use_batch (cf e)).
    + rewrite E3a, E3b, E3c. auto.
    + rewrite (fr_send_ae log), (fr_send_ae change_idx), (fr_send_ae others) by frs.
      rewrite E3a, E3b, E3c. auto.
  - right. split; [right; now symmetry|]. exists s1. split; [|destruct cbk; reflexivity].
    (* a refused __doChangeCluster leaves the state as it is *)
    rewrite (Href eq_refl). exact Hgs.
Qed.

(* ------------------------------------------------------------------------------------------ *)
(* C10_members_follow_log: the follower's append path                                         *)

Lemma skipn_add {A} (a b : nat) (l : list A) : skipn a (skipn b l) = skipn (a + b) l.
Proof.
  revert l. induction b as [|b IH]; intros l; [now rewrite Nat.add_0_r|].
  rewrite Nat.add_succ_r. destruct l as [|x l]; [now rewrite !skipn_nil|]. cbn [skipn]. apply IH.
Qed.

Lemma ae_split l pidx p0 ptail m :
  get_entries l (Some pidx) None None = p0 :: ptail ->
  l = delete_from l (pidx + 1 + N.of_nat m) ++ skipn m ptail.
Proof.
  unfold get_entries, delete_from. intros H.
  destruct (pidx <? first_idx l) eqn:E; [discriminate|]. apply N.ltb_ge in E.
  destruct (pidx + 1 + N.of_nat m <? first_idx l) eqn:E2; [apply N.ltb_lt in E2; lia|].
  replace (N.to_nat (pidx + 1 + N.of_nat m - first_idx l))
    with (m + (1 + N.to_nat (pidx - first_idx l)))%nat by lia.
  rewrite <- (firstn_skipn (m + (1 + N.to_nat (pidx - first_idx l))) l) at 1.
  f_equal. rewrite <- skipn_add, <- skipn_add. rewrite H. reflexivity.
Qed.

Definition truncating (rest add : list entry) : bool :=
  match rest, add with _ :: _, _ :: _ => true | _, _ => false end.

(* what an accepted append_entries does to the log and to the member set *)
Lemma ae_regular_membership e from c pidx pterm new s p0 ptail :
  dyn (cf e) = true ->
  get_entries (log (nd s)) (Some pidx) None None = p0 :: ptail -> eterm p0 = pterm ->
  let n := nd s in
  let m := matched_prefix ptail new in
  let rest := skipn m ptail in
  let add := skipn m new in
  let n' := nd (ae_regular e from c (Some (pidx, pterm)) new s) in
  log n' = (if truncating rest add then delete_from (log n) (pidx + 1 + N.of_nat m) else log n) ++ add /\
  others n' = fold_left (step_member (self n)) (mem_ops add)
                (if truncating rest add
                 then fold_left (step_member (self n)) (map flip_op (rev (mem_ops rest))) (others n)
                 else others n) /\
  self n' = self n.
Proof.
  intros Hd Hp Ht. cbv zeta. unfold ae_regular. cbn [option_map fst]. rewrite Hp, Ht, N.eqb_refl. cbn [negb].
  rewrite Hd.
  rewrite (fr_ae_commit log), (fr_ae_commit others), (fr_ae_commit self) by frs.
  rewrite !nd_send_next_idx.
  set (m := matched_prefix ptail new). set (rest := skipn m ptail). set (add := skipn m new).
  set (s1 := match rest with [] => s | _ :: _ => _ end).
  assert (E1 : log (nd s1) = (if truncating rest add then delete_from (log (nd s)) (pidx + 1 + N.of_nat m) else log (nd s)) /\
               others (nd s1) = (if truncating rest add
                 then fold_left (step_member (self (nd s))) (map flip_op (rev (mem_ops rest))) (others (nd s))
                 else others (nd s)) /\
               self (nd s1) = self (nd s)).
  { subst s1. destruct rest as [|r0 rest']; [cbn; auto|]. destruct add as [|a0 add']; [cbn; auto|].
    cbn [truncating]. rewrite nd_upd. cbn [log others self set].
    destruct (apply_membership_others true (rev (r0 :: rest')) s) as [-> ->].
    rewrite (fr_apply_membership log) by frs.
    rewrite map_xorb_true, mem_ops_rev. auto. }
  clearbody s1. destruct E1 as (E1a & E1b & E1c).
  destruct (apply_membership_others false add (upd (fun n => n <| log := log n ++ add |>) s1)) as [-> ->].
  rewrite (fr_apply_membership log) by frs. rewrite nd_upd. cbn [log others self set].
  rewrite map_xorb_false, E1a, E1b, E1c. auto.
Qed.

(* C10_members_follow_log (append path) *)
Theorem members_follow_log_append e from c pidx pterm new s p0 ptail base :
  dyn (cf e) = true ->
  get_entries (log (nd s)) (Some pidx) None None = p0 :: ptail -> eterm p0 = pterm ->
  let n := nd s in
  let me := self n in
  let m := matched_prefix ptail new in
  let rest := skipn m ptail in
  let add := skipn m new in
  let kept := delete_from (log n) (pidx + 1 + N.of_nat m) in
  let n' := nd (ae_regular e from c (Some (pidx, pterm)) new s) in
  ssorted base ->
  others n = fold_members base (log n) me ->
  (truncating rest add = true -> all_undo_ok me (fold_members base kept me) (mem_ops rest) = true) ->
  log n = kept ++ rest /\
  log n' = (if truncating rest add then kept else log n) ++ add /\
  others n' = fold_members base (log n') me.
Proof.
  intros Hd Hp Ht. cbv zeta. intros Hsb Hoth Hundo.
  destruct (ae_regular_membership e from c pidx pterm new s p0 ptail Hd Hp Ht) as (E1 & E2 & E3).
  cbv zeta in *.
  pose proof (ae_split (log (nd s)) pidx p0 ptail (matched_prefix ptail new) Hp) as Hsplit.
  split; [exact Hsplit|]. split; [exact E1|].
  rewrite E2, E1. destruct (truncating _ _) eqn:Etr.
  - rewrite fold_members_app. unfold fold_members at 1. f_equal.
    rewrite Hoth. rewrite Hsplit at 1. rewrite fold_members_app. unfold fold_members at 1.
    apply undo_exact; [apply ssorted_fold; exact Hsb|]. apply Hundo. reflexivity.
  - rewrite fold_members_app. unfold fold_members at 1. now rewrite Hoth.
Qed.

(* without the side condition the undo is not exact: an `add x` that found x already a member
   is a no-op whose reversal removes x *)
Definition refute_env : env :=
  mkEnv (mkConf 10 100 50 300 10 10 true true true 10 10 100 10 false false) 0 30 0 [] 0.
Definition refute_node : node :=
  (init_node refute_env (Some 1) [2; 3] 0).
Definition refute_entry : entry := mkEntry (mkCmd 2 1 3 5 20) 2 1.     (* add 3 at index 2, term 1 *)

Theorem undo_not_exact_refuted :
  exists (s : S) (es : list entry),
    ssorted (others (nd s)) /\
    others (nd (apply_membership true (rev es) (apply_membership false es s))) <> others (nd s).
Proof.
  exists (start_S refute_env refute_node), [refute_entry]. split; [cbn; lia|].
  vm_compute. discriminate.
Qed.

(* the same on the message level: a follower with members {2,3} accepts `add 3` at index 2 and
   later has it replaced by a no-op of a newer term; its member set is then {2} although its log
   holds no membership command at all *)
Definition refute_msg1 : msg := AE 1 1 (Some (1, 0)) [refute_entry].
Definition refute_msg2 : msg := AE 2 1 (Some (1, 0)) [mkEntry (noop_cmd 10) 2 2].

Theorem undo_not_exact_refuted_msgs :
  let n1 := nd (on_message refute_env 2 refute_msg1 refute_node) in
  let n2 := nd (on_message refute_env 3 refute_msg2 n1) in
  others refute_node = fold_members [2; 3] (log refute_node) (Some 1) /\
  others n1 = fold_members [2; 3] (log n1) (Some 1) /\
  mem_ops (log n2) = [] /\
  others n2 = [2] /\ others n2 <> fold_members [2; 3] (log n2) (Some 1).
Proof. vm_compute. repeat split; discriminate. Qed.

(* C10_members_follow_log (leader path): the change is applied when the entry is appended *)
Corollary members_follow_log_leader e c cbk s a x base :
  dyn (cf e) = true -> role (nd s) = LEADER -> membership_of c = Some (a, x) ->
  let n := nd s in
  let n' := nd (check_one e c cbk s) in
  others n = fold_members base (log n) (self n) ->
  others n' = fold_members base (log n') (self n).
Proof.
  intros Hd Hr Hm. cbv zeta. intros Hoth.
  destruct (gate e c cbk s a x Hd Hr Hm) as [(_ & _ & Hl & _ & Ho)|(_ & s0 & Hgs & ->)]; cbv zeta in *.
  - rewrite Ho, Hl, fold_members_app, <- Hoth. unfold fold_members, mem_ops. cbn. rewrite Hm. reflexivity.
  - rewrite nd_denied_out. destruct Hgs as [[->|[-> _]] _]; exact Hoth.
Qed.

(* ------------------------------------------------------------------------------------------ *)
(* C10_members_follow_log: the apply path (after the D20 repair)                              *)

Lemma do_apply_no_reapply c s :
  replay_idx (nd s) <= applied (nd s) ->
  others (nd (fst (do_apply c s))) = others (nd s) /\
  replay_idx (nd (fst (do_apply c s))) = replay_idx (nd s) /\
  applied (nd (fst (do_apply c s))) = applied (nd s).
Proof.
  intros H. unfold do_apply. destruct (ck c =? 3); [destruct (_ <? _); cbn; auto|].
  destruct (membership_of c) as [[a x]|].
  - destruct (applied (nd s) <? replay_idx (nd s)) eqn:E; [apply N.ltb_lt in E; lia|]. cbn. auto.
  - destruct (ck c =? 0); [destruct (cb c =? 1)|]; cbn; auto.
Qed.

Lemma apply_one_no_reapply en s :
  replay_idx (nd s) <= applied (nd s) ->
  others (nd (fst (apply_one en s))) = others (nd s) /\
  replay_idx (nd (fst (apply_one en s))) <= applied (nd (fst (apply_one en s))).
Proof.
  intros H. unfold apply_one.
  match goal with |- context [do_apply ?c ?s1] =>
    destruct (do_apply_no_reapply c s1) as (D1 & D2 & D3); [exact H|] end.
  destruct (do_apply _ _) as [s3 ar]. cbn [fst] in *. cbn in D1, D2, D3.
  destruct ar; cbn [fst]; try (split; [exact D1|lia]); rewrite nd_upd; cbn [others replay_idx applied set];
    rewrite nd_fold_fire; (split; [exact D1|lia]).
Qed.

Lemma apply_list_no_reapply es s :
  replay_idx (nd s) <= applied (nd s) ->
  others (nd (apply_list es s)) = others (nd s) /\
  replay_idx (nd (apply_list es s)) <= applied (nd (apply_list es s)).
Proof.
  revert s. induction es as [|en es IH]; intros s H; cbn [apply_list]; [auto|].
  destruct (apply_one_no_reapply en s H) as [A1 A2].
  destruct (apply_one en s) as [s1 go]. cbn [fst] in *.
  destruct go; [|auto]. destruct (IH s1 A2) as [B1 B2]. rewrite B1. auto.
Qed.

(* C10_apply_does_not_reapply, handler-local form: a node that is not replaying a journal
   (replay_idx <= applied) never changes its member set by applying committed entries *)
Theorem apply_does_not_reapply e s :
  replay_idx (nd s) <= applied (nd s) ->
  others (nd (fst (apply_entries e s))) = others (nd s) /\
  replay_idx (nd (fst (apply_entries e s))) <= applied (nd (fst (apply_entries e s))).
Proof.
  intros H. unfold apply_entries. destruct (_ <? _); cbn [fst]; [apply apply_list_no_reapply; exact H|auto].
Qed.

(* ------------------------------------------------------------------------------------------ *)
(* C10_removed_cannot_count                                                                   *)

Theorem removed_has_no_state x s :
  ssorted (others (nd s)) -> asorted (next_idx (nd s)) -> asorted (match_idx (nd s)) ->
  ssorted (tconn (nd s)) ->
  snd (do_change_cluster false x false s) = true ->
  let s' := fst (do_change_cluster false x false s) in
  smem x (others (nd s')) = false /\
  aget x (next_idx (nd s')) = None /\ aget x (match_idx (nd s')) = None /\
  smem x (tconn (nd s')) = false /\
  outs s' = outs s ++ [TDrop x].
Proof.
  intros H1 H2 H3 H4. unfold do_change_cluster. cbn [xorb].
  destruct (self_is x (nd s)); [discriminate|].
  destruct (negb (smem x (others (nd s)))); [discriminate|]. intros _. cbn.
  rewrite !smem_sdel, N.eqb_refl by assumption. cbn.
  rewrite !aget_adel_same by assumption. auto.
Qed.

(* the three counting loops only read the slots of members *)
Definition resp_count (dl : Z) (n : node) : N :=
  1 + N.of_nat (length (filter (fun x => match aget x (last_resp n) with
                                         | Some t => (dl <? t)%Z | None => false end) (others n))).

Lemma filter_ext_in' {A} (f g : A -> bool) l : (forall x, In x l -> f x = g x) -> filter f l = filter g l.
Proof.
  induction l as [|x l IH]; intros H; cbn; [reflexivity|].
  rewrite (H x (or_introl eq_refl)), IH; [reflexivity|]. intros y Hy. apply H. now right.
Qed.

Lemma existsb_ext_in {A} (f g : A -> bool) l : (forall x, In x l -> f x = g x) -> existsb f l = existsb g l.
Proof.
  induction l as [|x l IH]; intros H; cbn; [reflexivity|].
  rewrite (H x (or_introl eq_refl)), IH; [reflexivity|]. intros y Hy. apply H. now right.
Qed.

Lemma match_count_members ci n1 n2 :
  others n1 = others n2 ->
  (forall y, In y (others n1) -> aget y (match_idx n1) = aget y (match_idx n2)) ->
  match_count ci n1 = match_count ci n2 /\ slot_missing n1 = slot_missing n2.
Proof.
  intros Ho Hm. unfold match_count, slot_missing. rewrite <- Ho. split.
  - do 3 f_equal. apply filter_ext_in'. intros y Hy. now rewrite (Hm y Hy).
  - apply existsb_ext_in. intros y Hy. now rewrite (Hm y Hy).
Qed.

Lemma majority_members cnt n1 n2 : others n1 = others n2 -> majority cnt n1 = majority cnt n2.
Proof. intros H. unfold majority. now rewrite H. Qed.

(* the leader's commit decision depends on match_idx only through the slots of the members *)
Theorem commit_loop_members f ci nx s1 s2 :
  others (nd s1) = others (nd s2) -> log (nd s1) = log (nd s2) -> term (nd s1) = term (nd s2) ->
  (forall y, In y (others (nd s1)) -> aget y (match_idx (nd s1)) = aget y (match_idx (nd s2))) ->
  snd (commit_loop f ci nx s1) = snd (commit_loop f ci nx s2) /\
  ((exc (fst (commit_loop f ci nx s1)) = exc s1 /\ exc (fst (commit_loop f ci nx s2)) = exc s2) \/
   (exc (fst (commit_loop f ci nx s1)) = EXC_KEY /\ exc (fst (commit_loop f ci nx s2)) = EXC_KEY)).
Proof.
  intros Ho Hl Ht Hm. revert ci nx. induction f as [|f IH]; intros ci nx; cbn [commit_loop]; [cbn; tauto|].
  rewrite <- Hl. destruct (ci <? last_idx (log (nd s1))); [|cbn; tauto].
  fold (slot_missing (nd s1)) (slot_missing (nd s2)).
  fold (match_count (ci + 1) (nd s1)) (match_count (ci + 1) (nd s2)).
  destruct (match_count_members (ci + 1) (nd s1) (nd s2) Ho Hm) as [<- <-].
  rewrite <- (majority_members _ (nd s1) (nd s2) Ho).
  destruct (slot_missing (nd s1)) eqn:Esm; [cbn; tauto|].
  destruct (negb _); [cbn; tauto|].
  rewrite <- Ht. destruct (get_entries _ _ _ _) as [|en r]; [apply IH|].
  destruct (eterm en =? term (nd s1)); apply IH.
Qed.

Lemma resp_count_members dl n1 n2 :
  others n1 = others n2 ->
  (forall y, In y (others n1) -> aget y (last_resp n1) = aget y (last_resp n2)) ->
  resp_count dl n1 = resp_count dl n2.
Proof.
  intros Ho Hm. unfold resp_count. rewrite <- Ho. do 3 f_equal.
  apply filter_ext_in'. intros y Hy. now rewrite (Hm y Hy).
Qed.

Lemma In_smem x l : In x l -> smem x l = true.
Proof.
  induction l as [|z l IH]; [contradiction|]. cbn.
  intros [->|Hin]; [now rewrite N.eqb_refl|]. rewrite (IH Hin). apply orb_true_r.
Qed.

(* so after a successful rem x nothing the leader counts mentions x: the loops range over
   [others], x is not in it, and x has no slot left *)
Theorem removed_cannot_count x s :
  ssorted (others (nd s)) ->
  snd (do_change_cluster false x false s) = true ->
  let n' := nd (fst (do_change_cluster false x false s)) in
  ~ In x (others n') /\
  (forall ci (m2 : list (nid * N)),
     (forall y, y <> x -> aget y m2 = aget y (match_idx n')) ->
     match_count ci (n' <| match_idx := m2 |>) = match_count ci n' /\
     slot_missing (n' <| match_idx := m2 |>) = slot_missing n') /\
  (forall dl (r2 : list (nid * Z)),
     (forall y, y <> x -> aget y r2 = aget y (last_resp n')) ->
     resp_count dl (n' <| last_resp := r2 |>) = resp_count dl n') /\
  (forall cnt, majority cnt n' = (N.of_nat (length (others n')) + 1 <? 2 * cnt)).
Proof.
  intros Hs Hok. cbv zeta.
  set (n' := nd (fst (do_change_cluster false x false s))).
  assert (Hnin : ~ In x (others n')).
  { subst n'. revert Hok. unfold do_change_cluster. cbn [xorb].
    destruct (self_is x (nd s)); [discriminate|].
    destruct (negb (smem x (others (nd s)))); [discriminate|]. intros _. cbn.
    intros Hin. apply In_smem in Hin.
    rewrite smem_sdel, N.eqb_refl in Hin by exact Hs. discriminate. }
  split; [exact Hnin|]. split; [|split].
  - intros ci m2 Hm2. apply match_count_members; [reflexivity|].
    intros y Hy. cbn. apply Hm2. intros ->. contradiction.
  - intros dl r2 Hr2. apply resp_count_members; [reflexivity|].
    intros y Hy. cbn. apply Hr2. intros ->. contradiction.
  - reflexivity.
Qed.

(* observations on messages from a node that is not (or no longer) a member *)

(* a candidate counts every ResponseVote of its term, whoever sent it *)
Theorem response_vote_sender_irrelevant e f1 f2 t n :
  on_message e f1 (ResponseVote t) n = on_message e f2 (ResponseVote t) n.
Proof. reflexivity. Qed.

(* a success reply of the current term from an id without a match_idx slot raises KeyError *)
Theorem next_idx_without_slot_raises e from nx r n :
  role n = LEADER -> aget from (match_idx n) = None ->
  exc (on_message e from (NextIdx (term n) nx r true) n) = EXC_KEY.
Proof.
  intros Hr Hm. unfold on_message. cbn [nd start_S]. rewrite Hr, (N.eqb_refl (term n)).
  cbn [N.eqb Pos.eqb LEADER andb].
  set (s1 := if r then _ else start_S e n).
  assert (E : aget from (match_idx (nd s1)) = None) by (subst s1; destruct r; exact Hm).
  clearbody s1. rewrite E. reflexivity.
Qed.

(* a failure reply from such an id creates next_idx / last_resp slots for it *)
Theorem next_idx_failure_from_stranger e from nx n :
  role n = LEADER ->
  let n' := nd (on_message e from (NextIdx (term n) nx true false) n) in
  aget from (next_idx n') = Some (match aget from (next_idx n) with Some cur => N.min nx cur | None => nx end) /\
  aget from (last_resp n') = Some (t0 e) /\
  others n' = others n.
Proof.
  intros Hr. cbv zeta. unfold on_message. cbn [nd start_S]. rewrite Hr, (N.eqb_refl (term n)).
  cbn. rewrite !aget_aset, N.eqb_refl. auto.
Qed.

(* ------------------------------------------------------------------------------------------ *)
(* C10_single_change_majorities_intersect                                                     *)

Definition is_majority_of (q members : list nid) : Prop :=
  NoDup q /\ incl q members /\ (length members < 2 * length q)%nat.

Lemma disjoint_incl_length (q1 q2 c : list nid) :
  NoDup q1 -> NoDup q2 -> incl q1 c -> incl q2 c -> (forall x, In x q1 -> ~ In x q2) ->
  (length q1 + length q2 <= length c)%nat.
Proof.
  intros H1 H2 I1 I2 Hd. rewrite <- app_length. apply NoDup_incl_length.
  - clear I1 I2. induction q1 as [|a q1 IH]; [exact H2|]. cbn. inversion H1; subst.
    constructor.
    + intros Hin. apply in_app_or in Hin. destruct Hin as [Hin|Hin]; [contradiction|].
      apply (Hd a); [now left|exact Hin].
    + apply IH; [assumption|]. intros x Hx. apply Hd. now right.
  - intros x Hx. apply in_app_or in Hx. destruct Hx; auto.
Qed.

(* B is A with one id added or removed *)
Definition single_change (A B : list nid) : Prop :=
  exists x, (~ In x A /\ forall y, In y B <-> y = x \/ In y A) \/
            (~ In x B /\ forall y, In y A <-> y = x \/ In y B).

Theorem single_change_majorities_intersect A B qa qb :
  NoDup A -> NoDup B -> single_change A B ->
  is_majority_of qa A -> is_majority_of qb B ->
  exists y, In y qa /\ In y qb.
Proof.
  assert (Hmain : forall A B qa qb x, NoDup A -> NoDup B -> ~ In x A ->
            (forall y, In y B <-> y = x \/ In y A) ->
            is_majority_of qa A -> is_majority_of qb B -> exists y, In y qa /\ In y qb).
  { intros A0 B0 qa0 qb0 x HA HB Hx HBA (Na & Ia & La) (Nb & Ib & Lb).
    assert (HlenB : length B0 = Datatypes.S (length A0)).
    { apply Nat.le_antisymm.
      - apply (NoDup_incl_length (l' := x :: A0) HB). intros y Hy. apply HBA in Hy. destruct Hy; [left; auto|now right].
      - apply (NoDup_incl_length (l := x :: A0) (l' := B0)); [constructor; assumption|].
        intros y [<-|Hy]; apply HBA; auto. }
    destruct (existsb (fun y => smem y qb0) qa0) eqn:Eex.
    - apply existsb_exists in Eex. destruct Eex as (y & Hy1 & Hy2). exists y. split; [exact Hy1|].
      clear - Hy2. induction qb0 as [|z l IH]; [discriminate|]. cbn in Hy2.
      apply orb_prop in Hy2. destruct Hy2 as [H|H]; [apply N.eqb_eq in H; now left|right; auto].
    - exfalso.
      assert (Hd : forall y, In y qa0 -> ~ In y qb0).
      { intros y Hy Hy2. apply In_smem in Hy2.
        assert (existsb (fun y => smem y qb0) qa0 = true) by (apply existsb_exists; eauto). congruence. }
      pose proof (disjoint_incl_length qa0 qb0 B0 Na Nb) as Hlen.
      assert (Ia' : incl qa0 B0) by (intros y Hy; apply HBA; right; apply Ia; exact Hy).
      specialize (Hlen Ia' Ib Hd). lia. }
  intros HA HB (x & [[Hx HBA]|[Hx HAB]]) Ha Hb.
  - exact (Hmain A B qa qb x HA HB Hx HBA Ha Hb).
  - destruct (Hmain B A qb qa x HB HA Hx HAB Hb Ha) as (y & H1 & H2). eauto.
Qed.

(* the model's majority test is exactly "more than half of others + self" *)
Lemma majority_is_majority cnt n :
  majority cnt n = true <-> (length (others n) + 1 < 2 * N.to_nat cnt)%nat.
Proof. unfold majority. rewrite N.ltb_lt. lia. Qed.

(* C03/C04 with dynamic membership (staged: needs Log Matching / Leader Completeness on L1) *)
Definition C10_safety_under_change_full : Prop :=
  forall c evs g,
    dyn c = true -> run_trace c ginit evs = Some g ->
    (* one leader per term *)
    (forall x y nx ny, aget x (nodes g) = Some nx -> aget y (nodes g) = Some ny ->
       role nx = LEADER -> role ny = LEADER -> term nx = term ny -> x = y) /\
    (* committed prefixes agree *)
    (forall x y nx ny ex ey, aget x (nodes g) = Some nx -> aget y (nodes g) = Some ny ->
       In ex (log nx) -> In ey (log ny) -> eidx ex = eidx ey ->
       eidx ex <= commit nx -> eidx ey <= commit ny -> entry_eqb ex ey = true).
