(* Election safety (C03/C07), part 4: what one handler call does to the election core.
   Every step of a node is `passive` (follower-like: term may grow, at most one vote
   granted), a new candidacy (`cand`, ticks only) or a counted vote (`count`, delivery of a
   ResponseVote only). *)
From Coq Require Import ZArith NArith List Bool Lia.
From RecordUpdate Require Import RecordSet.
From PSO Require Import Raft.Types Raft.Node Raft.ProofsElectionBase Raft.ProofsElectionFrame
  Raft.ProofsElectionFrame2.
Import ListNotations.
Import RecordSetNotations.
Open Scope N_scope.

Lemma same0_proj s s' : rel K0 s s' ->
  self (nd s') = self (nd s) /\ role (nd s') = role (nd s) /\ term (nd s') = term (nd s) /\
  voted (nd s') = voted (nd s) /\ votes (nd s') = votes (nd s) /\ loud (outs s') = loud (outs s).
Proof. intros [Hc Hl]. unfold core in Hc. injection Hc; intros. auto 10. Qed.

Lemma sameB_proj s s' : rel KB s s' -> others (nd s') = others (nd s) /\ (rinv (nd s) -> rinv (nd s')).
Proof. intros H; exact H. Qed.

Lemma majority_others c n n' : others n = others n' -> majority c n = majority c n'.
Proof. unfold majority. intros ->. reflexivity. Qed.

(* ---------- KB through the non-quiet helpers ---------- *)
Lemma relB_emit o s s0 : rel KB s s0 -> rel KB s (emit o s0).
Proof. intros H. eapply rel_trans; [exact H|]. simpl. split; auto. Qed.

Lemma relB_send d m s s0 : rel KB s s0 -> rel KB s (send d m s0).
Proof. intros H. unfold send. destruct (smem d (tconn (nd s0))); exact H. Qed.

Lemma set_role_relB r s s0 : rel KB s s0 -> rel KB s (set_role r s0).
Proof.
  intros H. unfold set_role. cbv zeta. destruct (role (nd s0) =? r).
  - apply relB_upd; [intro; split; [reflexivity | auto] | exact H].
  - apply relB_emit. apply relB_upd; [intro; split; [reflexivity | auto] | exact H].
Qed.

Ltac frB2 := repeat first [ fr1 | apply relB_upd; [intro; split; [reflexivity | unfold rinv; cbn; intros; lia]|]
                          | apply relB_emit | apply relB_send | apply set_role_relB ].

Lemma andthen_rel k (f g : S -> S) s s0 :
  (forall s1, rel k s s1 -> rel k s (f s1)) -> (forall s1, rel k s s1 -> rel k s (g s1)) ->
  rel k s s0 -> rel k s ((f ;; g) s0).
Proof. intros Hf Hg H. unfold andthen. cbv zeta. destruct (ok (f s0)); auto. Qed.

Lemma fold_big (g : node -> nid -> node) l n : (forall n x, big (g n x) = big n) -> big (fold_left g l n) = big n.
Proof. intros Hg. revert n. induction l as [|a l IH]; simpl; intros n; auto. rewrite IH. apply Hg. Qed.

(* everything in become_leader after the role change is quiet *)
Lemma become_leader_tail k e s :
  rel k (set_role LEADER (upd (fun n => n <| leader := self n |>) s)) (become_leader e s).
Proof.
  unfold become_leader. cbv zeta.
  apply andthen_rel.
  - intros s1 H1. destruct (use_batch (cf e)); auto. apply send_ae_rel; auto.
  - intros s1 H1. apply send_ae_rel; auto.
  - apply rel_upd; [intro; reflexivity|].
    apply rel_upd; [intro; apply fold_big; intros; reflexivity|].
    apply rel_upd; [intro; reflexivity|].
    apply rel_refl.
Qed.

Lemma become_leader_relB e s s0 : rel KB s s0 -> rel KB s (become_leader e s0).
Proof.
  intros H. eapply rel_trans; [|apply become_leader_tail]. frB2.
Qed.

Lemma become_leader_spec e s :
  let s' := become_leader e s in
  self (nd s') = self (nd s) /\ term (nd s') = term (nd s) /\ voted (nd s') = voted (nd s) /\
  votes (nd s') = votes (nd s) /\ role (nd s') = LEADER /\
  loud (outs s') = loud (outs s) ++ (if role (nd s) =? LEADER then [] else [Role (role (nd s)) LEADER]).
Proof.
  intros s'. subst s'.
  destruct (same0_proj _ _ (become_leader_tail K0 e s)) as (A & B & C & D & E & F).
  rewrite A, B, C, D, E, F. clear.
  unfold set_role. cbv zeta.
  change (role (nd (upd (fun n => n <| leader := self n |>) s))) with (role (nd s)).
  destruct (role (nd s) =? LEADER) eqn:R; cbn.
  - repeat split; auto. rewrite app_nil_r. reflexivity.
  - repeat split; auto. rewrite loud_app. cbn. reflexivity.
Qed.

(* ---------- calm: the core may only lose its role ---------- *)
Definition calm (s s' : S) : Prop :=
  self (nd s') = self (nd s) /\ term (nd s') = term (nd s) /\ voted (nd s') = voted (nd s) /\
  votes (nd s') = votes (nd s) /\ (role (nd s') = role (nd s) \/ role (nd s') = FOLLOWER) /\
  loud (outs s') = loud (outs s).

Lemma rel0_calm s s' : rel K0 s s' -> calm s s'.
Proof. intros H. destruct (same0_proj _ _ H) as (A & B & C & D & E & F). unfold calm. auto 10. Qed.

Lemma calm_refl s : calm s s.
Proof. unfold calm; auto 10. Qed.

Lemma calm_trans s a b : calm s a -> calm a b -> calm s b.
Proof.
  unfold calm. intros (A & B & C & D & E & F) (A' & B' & C' & D' & E' & F').
  repeat split; try congruence. destruct E' as [E'|E']; [rewrite E'; auto | auto].
Qed.

Lemma tick_leader_calm e s : calm s (tick_leader e s).
Proof.
  unfold tick_leader. cbv zeta.
  destruct (role (nd s) =? LEADER); [|apply calm_refl].
  match goal with |- context [commit_loop ?f ?a ?b s] =>
    pose proof (commit_loop_rel K0 f a b s s (rel_refl _ _)) as H1;
    destruct (commit_loop f a b s) as [s1 nc] end.
  cbn [fst] in H1.
  destruct (ok s1); [|apply rel0_calm; auto].
  match goal with |- calm _ (if _ then raise _ ?x else _) => assert (H2 : rel K0 s x) by fr0; set (s2 := x) in * end.
  destruct (existsb _ _); [apply rel0_calm; fr0|].
  destruct (negb _); [|apply rel0_calm; auto].
  eapply calm_trans; [apply rel0_calm; exact H2|].
  unfold calm, set_role. cbv zeta. destruct (role (nd s2) =? FOLLOWER) eqn:R; cbn.
  - repeat split; auto.
  - repeat split; auto. rewrite loud_app. cbn. apply app_nil_r.
Qed.

Lemma tick_leader_relB e s s0 : rel KB s s0 -> rel KB s (tick_leader e s0).
Proof.
  intros H. unfold tick_leader. cbv zeta.
  destruct (role (nd s0) =? LEADER); auto.
  match goal with |- context [commit_loop ?f ?a ?b s0] =>
    pose proof (commit_loop_rel KB f a b s s0 H) as H1;
    destruct (commit_loop f a b s0) as [s1 nc] end.
  cbn [fst] in H1.
  frB2.
Qed.

(* ---------- tick_election ---------- *)
Definition newcand (s s' : S) : Prop :=
  exists me, self (nd s) = Some me /\ self (nd s') = self (nd s) /\ term (nd s') = term (nd s) + 1 /\
    voted (nd s') = Some me /\ votes (nd s') = 1 /\
    (loud (outs s') = loud (outs s) \/
     (loud (outs s') = loud (outs s) ++ [Role CANDIDATE LEADER] /\ majority 1 (nd s) = true)).

Lemma tick_election_relB e s s0 : rel KB s s0 -> rel KB s (tick_election e s0).
Proof.
  intros H. unfold tick_election. cbv zeta.
  destruct (self (nd s0)); auto. destruct (_ && _); auto.
  match goal with |- rel _ _ (if _ then become_leader _ ?x else _) => assert (H2 : rel KB s x) end.
  { apply on_leader_changed_rel. apply fold_rel; [intros; apply relB_send; auto|]. frB2. }
  destruct (majority _ _); auto. apply become_leader_relB; auto.
Qed.

Lemma tick_election_spec e s : rel K0 s (tick_election e s) \/ newcand s (tick_election e s).
Proof.
  unfold tick_election. cbv zeta.
  destruct (self (nd s)) as [me|] eqn:Es; [|left; apply rel_refl].
  destruct (_ && _); [|left; apply rel_refl].
  right. exists me.
  match goal with |- context [fold_left _ _ ?a] => set (s3 := a) end.
  match goal with |- context [on_leader_changed ?a] => set (s4 := on_leader_changed a) end.
  assert (F3 : self (nd s3) = Some me /\ term (nd s3) = term (nd s) + 1 /\ voted (nd s3) = Some me /\
               votes (nd s3) = 1 /\ role (nd s3) = CANDIDATE /\ others (nd s3) = others (nd s) /\
               loud (outs s3) = loud (outs s)).
  { subst s3. unfold set_role. cbv zeta. cbn. destruct (role (nd s) =? CANDIDATE); cbn.
    - repeat split; auto.
    - repeat split; auto. rewrite loud_app. cbn. apply app_nil_r. }
  destruct F3 as (A3 & B3 & C3 & D3 & E3 & O3 & L3).
  assert (H34 : rel K0 s3 s4).
  { subst s4. apply on_leader_changed_rel. apply fold_rel; [|apply rel_refl].
    intros s1 a H1. apply rel_send; auto. }
  assert (H34B : rel KB s3 s4).
  { subst s4. apply on_leader_changed_rel. apply fold_rel; [|apply rel_refl].
    intros s1 a H1. apply relB_send; auto. }
  destruct (same0_proj _ _ H34) as (A4 & R4 & B4 & C4 & D4 & L4).
  destruct H34B as [O4 _].
  destruct (majority (votes (nd s4)) (nd s4)) eqn:M.
  - destruct (become_leader_spec e s4) as (A5 & B5 & C5 & D5 & R5 & L5).
    rewrite A5, B5, C5, D5, L5, A4, B4, C4, D4, L4, R4, A3, B3, C3, D3, E3, L3.
    repeat split; auto. right. split; [reflexivity|].
    rewrite D4, D3 in M. rewrite <- M. apply majority_others. congruence.
  - rewrite A4, B4, C4, D4, L4, A3, B3, C3, D3, L3. repeat split; auto.
Qed.

(* ---------- on_append_entries ---------- *)
Lemma oae_tail0 e from m c s :
  rel K0 s (match m with
    | AE _ _ prev es => ae_regular e from c prev es s
    | AEPiece _ _ prev lab off len en =>
      if lab =? 1 then
        send_next_idx from None false false (upd (fun n => n <| recv_t := [(en, off, len)] |>) s)
      else
        match recv_t (nd s) with
        | [] => raise EXC_TYPE s
        | _ =>
          let s := upd (fun n => n <| recv_t := recv_t n ++ [(en, off, len)] |>) s in
          if lab =? 2 then send_next_idx from None false false s
          else
            match assemble_entry (recv_t (nd s)) with
            | None => raise EXC_DECODE s
            | Some en' => ae_regular e from c prev [en'] (upd (fun n => n <| recv_t := [] |>) s)
            end
        end
    | AESnap _ _ p =>
      let (s, done) := set_transmission p s in
      if done && load_dump_ok s then
        let s := load_dump e true s in
        let v := applied (nd s) in
        let s := send_next_idx from (Some (v + 1)) false true s in
        ae_commit c (Some v) s
      else if done then ae_commit c None (load_dump e true s) else ae_commit c None s
    | _ => s
    end).
Proof.
  destruct m; try apply rel_refl; cbv zeta.
  - apply ae_regular_rel0, rel_refl.
  - repeat first [apply ae_regular_rel0 | fr1].
  - destruct (set_transmission p s) as [s1 done] eqn:E.
    assert (H1 : rel K0 s s1).
    { replace s1 with (fst (set_transmission p s)) by (rewrite E; reflexivity).
      apply set_transmission_rel, rel_refl. }
    repeat first [apply load_dump_rel0 | fr1].
Qed.

Lemma oae_tailB e from m c s s0 : dyn (cf e) = false -> rel KB s s0 ->
  rel KB s (match m with
    | AE _ _ prev es => ae_regular e from c prev es s0
    | AEPiece _ _ prev lab off len en =>
      if lab =? 1 then
        send_next_idx from None false false (upd (fun n => n <| recv_t := [(en, off, len)] |>) s0)
      else
        match recv_t (nd s0) with
        | [] => raise EXC_TYPE s0
        | _ =>
          let s := upd (fun n => n <| recv_t := recv_t n ++ [(en, off, len)] |>) s0 in
          if lab =? 2 then send_next_idx from None false false s
          else
            match assemble_entry (recv_t (nd s)) with
            | None => raise EXC_DECODE s
            | Some en' => ae_regular e from c prev [en'] (upd (fun n => n <| recv_t := [] |>) s)
            end
        end
    | AESnap _ _ p =>
      let (s, done) := set_transmission p s0 in
      if done && load_dump_ok s then
        let s := load_dump e true s in
        let v := applied (nd s) in
        let s := send_next_idx from (Some (v + 1)) false true s in
        ae_commit c (Some v) s
      else if done then ae_commit c None (load_dump e true s) else ae_commit c None s
    | _ => s0
    end).
Proof.
  intros St H. destruct m; auto; cbv zeta.
  - apply ae_regular_relB; auto.
  - repeat first [apply ae_regular_relB; [exact St|] | fr1].
  - destruct (set_transmission p s0) as [s1 done] eqn:E.
    assert (H1 : rel KB s s1).
    { replace s1 with (fst (set_transmission p s0)) by (rewrite E; reflexivity).
      apply set_transmission_rel; auto. }
    repeat first [apply load_dump_relB; [exact St|] | fr1].
Qed.

Lemma on_append_entries_relB e from m t c s s0 : dyn (cf e) = false -> rel KB s s0 ->
  rel KB s (on_append_entries e from m t c s0).
Proof.
  intros St H. unfold on_append_entries. cbv zeta.
  destruct (t <? term (nd s0)); auto.
  apply oae_tailB; auto. frB2.
Qed.

Lemma on_append_entries_spec e from m t c s :
  let s' := on_append_entries e from m t c s in
  (t <? term (nd s) = true -> s' = s) /\
  (t <? term (nd s) = false ->
     self (nd s') = self (nd s) /\ votes (nd s') = votes (nd s) /\ role (nd s') = FOLLOWER /\
     term (nd s') = (if term (nd s) <? t then t else term (nd s)) /\
     voted (nd s') = (if term (nd s) <? t then None else voted (nd s)) /\
     loud (outs s') = loud (outs s)).
Proof.
  intros s'. subst s'. unfold on_append_entries. cbv zeta.
  destruct (t <? term (nd s)) eqn:Et; split; intros Hx; try discriminate; auto.
  match goal with |- context [upd (fun n => n <| leader_commit := Some c |>) ?a] =>
    set (s6 := upd (fun n => n <| leader_commit := Some c |>) a) end.
  pose proof (same0_proj _ _ (oae_tail0 e from m c s6)) as T. cbv zeta in T.
  destruct T as (A & B & C & D & E & F).
  rewrite A, B, C, D, E, F. clear A B C D E F.
  subst s6. unfold set_role. cbv zeta.
  match goal with |- context [upd (fun n => n <| leader := Some from |>) ?a] => set (s2 := a) end.
  assert (H2 : rel K0 s s2).
  { subst s2. destruct (opt_eqb _ _); fr0. }
  destruct (same0_proj _ _ H2) as (A & B & C & D & E & F).
  destruct (term (nd (upd (fun n => n <| leader := Some from |>) s2)) <? t) eqn:Et2;
    change (term (nd (upd (fun n => n <| leader := Some from |>) s2))) with (term (nd s2)) in Et2;
    rewrite C in Et2; rewrite Et2.
  - cbn. destruct (role (nd s2) =? FOLLOWER); cbn; rewrite ?loud_app; cbn; rewrite ?app_nil_r;
      repeat split; auto.
  - cbn. destruct (role (nd s2) =? FOLLOWER); cbn; rewrite ?loud_app; cbn; rewrite ?app_nil_r;
      repeat split; auto.
Qed.

(* ---------- the three kinds of step ---------- *)
Definition passive (x : node) (s : S) : Prop :=
  self (nd s) = self x /\ votes (nd s) = votes x /\ term x <= term (nd s) /\
  (term (nd s) = term x ->
     (voted (nd s) = voted x \/ voted x = None) /\ (role (nd s) = role x \/ role (nd s) = FOLLOWER)) /\
  (term x < term (nd s) -> role (nd s) = FOLLOWER) /\
  (loud (outs s) = [] \/
   exists d, self x <> None /\ loud (outs s) = [Send d (ResponseVote (term (nd s)))] /\
             voted (nd s) = Some d /\ (term x < term (nd s) \/ voted x = None)).

Definition cand (x : node) (s : S) (maj : Prop) : Prop :=
  exists me, self x = Some me /\ self (nd s) = self x /\ term (nd s) = term x + 1 /\
    voted (nd s) = Some me /\ votes (nd s) = 1 /\
    (loud (outs s) = [] \/ (loud (outs s) = [Role CANDIDATE LEADER] /\ maj)).

Definition count (x : node) (m : msg) (s : S) : Prop :=
  m = ResponseVote (term x) /\ role x = CANDIDATE /\ self (nd s) = self x /\ term (nd s) = term x /\
  voted (nd s) = voted x /\ votes (nd s) = votes x + 1 /\ others (nd s) = others x /\
  ((loud (outs s) = [] /\ role (nd s) = CANDIDATE) \/
   (loud (outs s) = [Role CANDIDATE LEADER] /\ role (nd s) = LEADER /\
    majority (votes (nd s)) (nd s) = true)).

Lemma calm_passive e x s : calm (start_S e x) s -> passive x s.
Proof.
  unfold calm, passive. cbn. intros (A & B & C & D & E & F).
  rewrite A, B, C, D, F. repeat split; auto; try lia.
Qed.

Lemma rel0_passive e x s : rel K0 (start_S e x) s -> passive x s.
Proof. intros H. apply (calm_passive e). apply rel0_calm; auto. Qed.

Lemma emit_nd o s : nd (emit o s) = nd s.
Proof. reflexivity. Qed.
Lemma emit_loud o s : loud (outs (emit o s)) = loud (outs s) ++ loud [o].
Proof. change (outs (emit o s)) with (outs s ++ [o]). apply loud_app. Qed.
Lemma upd_outs f s : outs (upd f s) = outs s.
Proof. reflexivity. Qed.
Lemma upd_nd f s : nd (upd f s) = f (nd s).
Proof. reflexivity. Qed.

(* ---------- on_message ---------- *)
Lemma on_message_relB e from m x :
  dyn (cf e) = false -> rel KB (start_S e x) (on_message e from m x).
Proof.
  intros St. unfold on_message. cbv zeta.
  destruct m.
  - frB2.
  - destruct (_ && _); [|apply rel_refl].
    destruct (majority _ _); [apply become_leader_relB|]; frB2.
  - apply on_append_entries_relB; auto. apply rel_refl.
  - apply on_append_entries_relB; auto. apply rel_refl.
  - apply on_append_entries_relB; auto. apply rel_refl.
  - frB2.
  - frB2.
  - frB2.
Qed.

Lemma oae_passive e from m t c x :
  passive x (on_append_entries e from m t c (start_S e x)).
Proof.
  destruct (on_append_entries_spec e from m t c (start_S e x)) as [H1 H2].
  cbn in H1, H2.
  destruct (t <? term x) eqn:Et.
  - rewrite (H1 eq_refl). apply (rel0_passive e). apply rel_refl.
  - destruct (H2 eq_refl) as (A & B & C & D & E & F). unfold passive.
    rewrite A, B, C, D, E, F.
    destruct (term x <? t) eqn:Et2; [apply N.ltb_lt in Et2 | apply N.ltb_ge in Et2];
      repeat split; auto; try lia.
Qed.

Lemma on_message_spec e from m x :
  passive x (on_message e from m x) \/ count x m (on_message e from m x).
Proof.
  destruct m.
  - (* RequestVote *)
    left. unfold on_message. cbv zeta.
    change (nd (start_S e x)) with x.
    destruct (self x) as [me|] eqn:Es; [|apply (rel0_passive e); apply rel_refl].
    match goal with |- context [role (nd ?a) =? FOLLOWER] => set (s1 := a) end.
    assert (F1 : self (nd s1) = self x /\ votes (nd s1) = votes x /\
                 term (nd s1) = (if term x <? t then t else term x) /\
                 voted (nd s1) = (if term x <? t then None else voted x) /\
                 (role (nd s1) = (if term x <? t then FOLLOWER else role x)) /\
                 loud (outs s1) = []).
    { subst s1. destruct (term x <? t); [|cbn; auto 10].
      unfold set_role. cbv zeta. cbn. destruct (role x =? FOLLOWER) eqn:R; cbn; auto 10. }
    destruct F1 as (A1 & B1 & C1 & D1 & E1 & L1).
    assert (P1 : passive x s1).
    { unfold passive. rewrite A1, B1, C1, D1, E1, L1.
      destruct (term x <? t) eqn:Et; [apply N.ltb_lt in Et | apply N.ltb_ge in Et];
        repeat split; auto; try lia. }
    destruct (_ || _); auto.
    destruct (term (nd s1) <=? t) eqn:Le; auto.
    destruct (llt <? _); auto.
    destruct (_ && _); auto.
    destruct (voted (nd s1)) eqn:V1; auto.
    apply N.leb_le in Le.
    assert (Tt : term (nd s1) = t).
    { rewrite C1 in *. destruct (term x <? t) eqn:Et; auto. apply N.ltb_ge in Et. lia. }
    clearbody s1.
    unfold send.
    match goal with |- passive _ (if ?b then _ else _) => destruct b end.
    + unfold passive. rewrite emit_nd, emit_loud, upd_outs, upd_nd. cbn.
      rewrite A1, B1, C1, E1, L1, Es. cbn.
      rewrite D1 in V1.
      destruct (term x <? t) eqn:Et; [apply N.ltb_lt in Et | apply N.ltb_ge in Et].
      * repeat split; auto; try lia. right. exists from. repeat split; auto. discriminate.
      * rewrite C1 in Tt. subst t. repeat split; auto; try lia.
        right. exists from. repeat split; auto. discriminate.
    + unfold passive. rewrite upd_outs, upd_nd. cbn. rewrite A1, B1, C1, E1, L1.
      rewrite D1 in V1.
      destruct (term x <? t) eqn:Et; [apply N.ltb_lt in Et | apply N.ltb_ge in Et];
        repeat split; auto; try lia.
  - (* ResponseVote *)
    unfold on_message. cbv zeta. change (nd (start_S e x)) with x.
    destruct (_ && _) eqn:C; [|left; apply (rel0_passive e); apply rel_refl].
    apply andb_true_iff in C as [C1 C2]. apply N.eqb_eq in C1, C2. subst t.
    right. unfold count.
    match goal with |- context [become_leader e ?a] => set (s1 := a) end.
    assert (F1 : self (nd s1) = self x /\ term (nd s1) = term x /\ voted (nd s1) = voted x /\
                 votes (nd s1) = votes x + 1 /\ others (nd s1) = others x /\ role (nd s1) = CANDIDATE /\
                 loud (outs s1) = []).
    { subst s1. cbn. auto 10. }
    destruct F1 as (A1 & B1 & C1' & D1 & O1 & R1 & L1).
    destruct (majority (votes (nd s1)) (nd s1)) eqn:M.
    + destruct (become_leader_spec e s1) as (A5 & B5 & C5 & D5 & R5 & L5).
      destruct (become_leader_relB e s1 s1 (rel_refl _ _)) as [O5 _].
      rewrite A5, B5, C5, D5, O5, L5, R5, A1, B1, C1', D1, O1, R1, L1.
      repeat split; auto. right. repeat split; auto.
      rewrite <- D1. rewrite <- M. apply majority_others. congruence.
    + rewrite A1, B1, C1', D1, O1, R1, L1. repeat split; auto.
  - left. apply oae_passive.
  - left. apply oae_passive.
  - left. apply oae_passive.
  - left. apply (rel0_passive e). unfold on_message. cbv zeta. fr0.
  - left. apply (rel0_passive e). unfold on_message. cbv zeta. fr0.
  - left. apply (rel0_passive e). unfold on_message. cbv zeta. fr0.
Qed.

(* ---------- on_tick ---------- *)
Definition tick_rest (e : env) (s : S) : S :=
  let (s, need) := apply_entries e s in
  if ok s then (tick_send e need ;; tick_ready ;; check_commands e ;; try_compact e) s else s.

Lemma tick_rest_rel0 e s s0 : rel K0 s s0 -> rel K0 s (tick_rest e s0).
Proof.
  intros H. unfold tick_rest. destruct (apply_entries e s0) as [s1 need] eqn:E.
  assert (H1 : rel K0 s s1).
  { replace s1 with (fst (apply_entries e s0)) by (rewrite E; reflexivity). apply apply_entries_rel0; auto. }
  destruct (ok s1); auto.
  apply andthen_rel; [intros; apply tick_send_rel; auto | | exact H1].
  intros s2 H2. apply andthen_rel; [intros; apply tick_ready_rel; auto | | exact H2].
  intros s3 H3. apply andthen_rel; [intros; apply check_commands_rel0; auto | | exact H3].
  intros; apply try_compact_rel; auto.
Qed.

Lemma tick_rest_relB e s s0 : dyn (cf e) = false -> rinv (nd s) -> rel KB s s0 -> rel KB s (tick_rest e s0).
Proof.
  intros St R H. unfold tick_rest. destruct (apply_entries e s0) as [s1 need] eqn:E.
  assert (H1 : rel KB s s1).
  { replace s1 with (fst (apply_entries e s0)) by (rewrite E; reflexivity). apply apply_entries_relB; auto. }
  destruct (ok s1); auto.
  apply andthen_rel; [intros; apply tick_send_rel; auto | | exact H1].
  intros s2 H2. apply andthen_rel; [intros; apply tick_ready_rel; auto | | exact H2].
  intros s3 H3. apply andthen_rel; [intros; apply check_commands_relB; auto | | exact H3].
  intros; apply try_compact_rel; auto.
Qed.

Lemma on_tick_eq e n :
  on_tick e n = (tick_load e ;; tick_timer e ;; tick_election e ;; tick_leader e ;; tick_rest e) (start_S e n).
Proof. reflexivity. Qed.

Lemma on_tick_relB e x : dyn (cf e) = false -> tickp e x -> rinv x -> rel KB (start_S e x) (on_tick e x).
Proof.
  intros St Tp R. rewrite on_tick_eq.
  assert (H1 : rel KB (start_S e x) (tick_load e (start_S e x))).
  { apply tick_load_relB; [exact Tp|apply rel_refl]. }
  unfold andthen at 1. cbv zeta. destruct (ok (tick_load e (start_S e x))); [|exact H1].
  set (s1 := tick_load e (start_S e x)) in *. clearbody s1.
  apply andthen_rel; [intros; apply tick_timer_rel; auto | | exact H1].
  intros s2 H2. apply andthen_rel; [intros; apply tick_election_relB; auto | | exact H2].
  intros s3 H3. apply andthen_rel; [intros; apply tick_leader_relB; auto | | exact H3].
  intros; apply tick_rest_relB; auto.
Qed.

Definition tick_maj (e : env) (x : node) : Prop :=
  exists n1, majority 1 n1 = true /\ (tickp e x -> others n1 = others x).

Lemma tick_post_calm e s : calm s ((tick_leader e ;; tick_rest e) s).
Proof.
  unfold andthen. cbv zeta. pose proof (tick_leader_calm e s) as H.
  destruct (ok (tick_leader e s)); auto.
  eapply calm_trans; [exact H|]. apply rel0_calm. apply tick_rest_rel0. apply rel_refl.
Qed.

Lemma on_tick_spec e x :
  calm (start_S e x) (on_tick e x) \/ cand x (on_tick e x) (tick_maj e x).
Proof.
  rewrite on_tick_eq.
  set (s0 := start_S e x).
  set (s1 := tick_load e s0). set (s2 := tick_timer e s1). set (s3 := tick_election e s2).
  set (s4 := if ok s3 then (tick_leader e ;; tick_rest e) s3 else s3).
  assert (Eq : (tick_load e ;; tick_timer e ;; tick_election e ;; tick_leader e ;; tick_rest e) s0
               = if ok s1 then (if ok s2 then s4 else s2) else s1) by reflexivity.
  rewrite Eq. clear Eq.
  assert (H1 : rel K0 s0 s1) by (apply tick_load_rel0, rel_refl).
  assert (H2 : rel K0 s0 s2) by (apply tick_timer_rel; auto).
  pose proof (tick_election_spec e s2) as H3. fold s3 in H3.
  assert (H4 : calm s3 s4).
  { subst s4. destruct (ok s3); [apply tick_post_calm | apply calm_refl]. }
  destruct (ok s1); [|left; apply rel0_calm; auto].
  destruct (ok s2); [|left; apply rel0_calm; auto].
  clearbody s4.
  destruct H3 as [H3|H3].
  - left. eapply calm_trans; [|exact H4]. apply rel0_calm.
    eapply rel_trans; eauto.
  - right. destruct H3 as (me & A & B & C & D & E & F).
    destruct (same0_proj _ _ H2) as (A2 & R2 & B2 & C2 & D2 & L2). cbn in A2, R2, B2, C2, D2, L2.
    destruct H4 as (A4 & B4 & C4 & D4 & R4 & L4).
    exists me. rewrite A4, B4, C4, D4, L4, B, C, D, E, A2, B2.
    rewrite A2 in A. repeat split; auto.
    rewrite L2 in F. cbn in F. destruct F as [F|[F M]]; [left; auto|right; split; auto].
    exists (nd s2). split; auto. intros Tp.
    assert (HB : rel KB s0 s2).
    { subst s2 s1. apply tick_timer_rel. apply tick_load_relB; [exact Tp|]. apply rel_refl. }
    destruct HB as [O _]. exact O.
Qed.

(* ---------- the other entry points ---------- *)
Lemma api_submit_spec e c cbk x : rel K0 (start_S e x) (api_submit e c cbk x) /\ rel KB (start_S e x) (api_submit e c cbk x).
Proof. unfold api_submit. split; apply submit_rel; apply rel_refl. Qed.

Lemma api_admin_spec e c cbk x : rel K0 (start_S e x) (api_admin e c cbk x) /\ rel KB (start_S e x) (api_admin e c cbk x).
Proof. unfold api_admin. cbv zeta. split; fr. Qed.

Lemma api_setver_spec e c cbk x : rel K0 (start_S e x) (api_setver e c cbk x) /\ rel KB (start_S e x) (api_setver e c cbk x).
Proof. unfold api_setver. cbv zeta. split; fr. Qed.

Lemma on_connected_big b x : big (on_connected b x) = big x.
Proof. unfold on_connected. destruct (RO_BASE <=? b); reflexivity. Qed.

Lemma on_disconnected_big b x : big (on_disconnected b x) = big x.
Proof. unfold on_disconnected. destruct (RO_BASE <=? b); reflexivity. Qed.

Lemma api_compact_big x : big (api_compact x) = big x.
Proof. reflexivity. Qed.
