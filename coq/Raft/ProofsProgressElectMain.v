(* C05, elections resolve, part 4: the composition over the global step, for every cluster size.
   From a quiet state, the tick of x at its deadline, the delivery of its RequestVote to a set ys of
   responders that completes a majority, and the delivery of their ResponseVotes make x leader of the
   next term and every responder its follower; the delivery of the append_entries x sent on winning
   tells every responder who the leader is. *)
From Coq Require Import ZArith NArith List Bool Lia.
From RecordUpdate Require Import RecordSet.
From PSO Require Import Raft.Types Raft.Node Raft.Net Raft.Obs Raft.ProofsSnapshotBase Raft.ProofsCommitBase
  Raft.ProofsProgressElectBase Raft.ProofsProgressElectTick Raft.ProofsProgressElectVote.
Import ListNotations.
Import RecordSetNotations.
Open Scope N_scope.

(* ---------- schedules ---------- *)
(* for every y of ys, in order, the head of the channel x -> y is delivered (any clock, any oracle inputs) *)
Inductive delivers_to (x : nid) : list nid -> list event -> Prop :=
| dt_nil : delivers_to x [] []
| dt_cons y ys now rnd ord evs :
    delivers_to x ys evs -> delivers_to x (y :: ys) (EDeliver x y now rnd ord :: evs).

(* for every y of ys, in order, the head of the channel y -> x is delivered *)
Inductive delivers_from (x : nid) : list nid -> list event -> Prop :=
| df_nil : delivers_from x [] []
| df_cons y ys now rnd ord evs :
    delivers_from x ys evs -> delivers_from x (y :: ys) (EDeliver y x now rnd ord :: evs).

Lemma run_trace_cons c g ev r g1 o :
  gstep c g ev = Some (g1, o) -> run_trace c g (ev :: r) = run_trace c g1 r.
Proof. intros H. cbn [run_trace]. rewrite H. reflexivity. Qed.

(* ---------- the hypotheses on the start state ---------- *)
Record quiet_for (c : conf) (g : gstate) (x : nid) (nx : node) (ys : list nid) : Prop := {
  q_node : aget x (nodes g) = Some nx;
  q_self : self nx = Some x;
  q_role : role nx = FOLLOWER \/ role nx = CANDIDATE;
  q_load : need_load nx && file_dump c = false;
  q_replay : replay_done nx;
  q_queue : queue nx = [] \/ wait_leader c = true;
  q_others : NoDup (others nx);
  q_ys : NoDup ys /\ incl ys (others nx) /\ ~ In x ys;
  q_major : majority (1 + N.of_nat (length ys)) nx = true;
  q_log : log_wf (log nx) /\ log nx <> [];
  q_compact : pid (sr nx) = 1 -> delete_to (log nx) (cur_id (sr nx)) <> [];
  q_peer : forall y, In y ys ->
    smem y (tconn nx) = true /\ smem y (connected nx) = true /\
    chan_get x y g = [] /\ chan_get y x g = [] /\
    exists ny, aget y (nodes g) = Some ny /\ self ny <> None /\ term ny <= term nx /\
               log_ok_for (last_idx (log nx)) (last_term (log nx)) ny /\ smem x (tconn ny) = true
}.

(* ---------- a fan-out of deliveries x -> y, y in ys ---------- *)
Definition local (x : nid) (P : nid -> gstate -> Prop) : Prop :=
  forall y g g', aget y (nodes g') = aget y (nodes g) -> chan_get x y g' = chan_get x y g ->
                 chan_get y x g' = chan_get y x g -> P y g -> P y g'.

Lemma fanout c x (Pre Post : nid -> gstate -> Prop) :
  local x Pre -> local x Post ->
  (forall y g now rnd ord, y <> x -> Pre y g ->
     exists g' o, gstep c g (EDeliver x y now rnd ord) = Some (g', o) /\ same_except y g g' /\ Post y g') ->
  forall ys evs, delivers_to x ys evs -> forall g,
  NoDup ys -> ~ In x ys -> (forall y, In y ys -> Pre y g) ->
  exists g', run_trace c g evs = Some g' /\ (forall y, In y ys -> Post y g') /\
    (forall z, ~ In z ys -> aget z (nodes g') = aget z (nodes g)) /\
    (forall a d, ~ In a ys -> ~ In d ys -> chan_get a d g' = chan_get a d g).
Proof.
  intros LPre LPost Step ys evs D. induction D as [|y ys now rnd ord evs D IH]; intros g ND Hx HPre.
  - exists g. cbn. repeat split; auto. intros y [].
  - inversion ND as [|? ? Hy ND']; subst.
    assert (Hyx : y <> x) by (intros ->; apply Hx; left; reflexivity).
    destruct (Step y g now rnd ord Hyx (HPre y (or_introl eq_refl))) as (g1 & o & E1 & (S1 & S2) & P1).
    destruct (IH g1 ND') as (g' & R & Po & Fn & Fc).
    { intros H. apply Hx. right. exact H. }
    { intros y' Hy'. assert (y' <> y) by (intros ->; contradiction).
      assert (y' <> x) by (intros ->; apply Hx; right; exact Hy').
      apply (LPre y' g g1); auto. apply HPre. right. exact Hy'. }
    exists g'. split; [rewrite (run_trace_cons _ _ _ _ _ _ E1); exact R|]. split; [|split].
    + intros y' [<-|Hy']; [|apply Po; exact Hy'].
      assert (Hxys : ~ In x ys) by (intros H; apply Hx; right; exact H).
      apply (LPost y g1 g'); auto.
    + intros z Hz. rewrite Fn by (intros H; apply Hz; right; exact H).
      apply S1. intros ->. apply Hz. left. reflexivity.
    + intros a d Ha Hd. rewrite Fc; [ | intros H; apply Ha; right; exact H | intros H; apply Hd; right; exact H].
      apply S2; intros ->; [apply Ha|apply Hd]; left; reflexivity.
Qed.

(* ---------- round 1: the RequestVotes ---------- *)
Section Round1.
Variables (c : conf) (g0 : gstate) (x : nid) (T lli llt : N).

Definition pre1 (y : nid) (g : gstate) : Prop :=
  chan_get x y g = [RequestVote T lli llt] /\ chan_get y x g = [] /\
  exists ny, aget y (nodes g) = Some ny /\ aget y (nodes g0) = Some ny /\
    self ny <> None /\ term ny < T /\ log_ok_for lli llt ny /\ smem x (tconn ny) = true.

Definition voted_for (y : nid) (g : gstate) : Prop :=
  exists ny ny', aget y (nodes g0) = Some ny /\ aget y (nodes g) = Some ny' /\
    role ny' = FOLLOWER /\ term ny' = T /\ voted ny' = Some x /\ leader ny' = None /\ log ny' = log ny /\
    self ny' = self ny.

Definition post1 (y : nid) (g : gstate) : Prop :=
  chan_get x y g = [] /\ chan_get y x g = [ResponseVote T] /\ voted_for y g.

Lemma local_pre1 : local x pre1.
Proof. intros y g g' H1 H2 H3 (A & B & ny & C & D). unfold pre1. rewrite H1, H2, H3. eauto. Qed.

Lemma local_post1 : local x post1.
Proof.
  intros y g g' H1 H2 H3 (A & B & ny & ny' & C & D & E). unfold post1, voted_for. rewrite H1, H2, H3.
  repeat split; auto. exists ny, ny'. auto.
Qed.

Lemma step1 y g now rnd ord : y <> x -> pre1 y g ->
  exists g' o, gstep c g (EDeliver x y now rnd ord) = Some (g', o) /\ same_except y g g' /\ post1 y g'.
Proof.
  intros Hyx (A & B & ny & C & C0 & Hs & Ht & Hl & Hc).
  pose proof (deliver_step c g x y now rnd ord ny _ _ C A) as E. cbv zeta in E.
  pose proof (deliver_same_except c g x y now rnd ord ny _ _ C A) as SE. cbv zeta in SE.
  set (e := mk_env c now rnd DEFAULT_BUDGET ord 0) in *.
  destruct (vote_granted e x T lli llt ny Hs (or_introl Ht) Hl Hc)
    as (V1 & V2 & V3 & V4 & V5 & V6 & V7 & V8 & V9). cbv zeta in V1, V2, V3, V4, V5, V6, V7, V8, V9.
  set (s := on_message e x (RequestVote T lli llt) ny) in *.
  assert (NT : no_tdrop (outs s)).
  { apply no_tdrop_wire. rewrite V9. intros z [H|[]]. discriminate. }
  eexists. eexists. split; [exact E|]. split; [exact SE|].
  unfold post1. split; [|split].
  - rewrite finish_chan_other by (auto). apply pe_chan_get_set_same.
  - rewrite finish_chan_src by exact NT.
    rewrite pe_chan_get_set_other by (left; exact Hyx). rewrite B.
    rewrite <- sent_to_wire, V9. cbn. rewrite N.eqb_refl. reflexivity.
  - exists ny, (nd s). rewrite finish_node.
    assert (B0 : term ny <? T = true) by (apply N.ltb_lt; exact Ht). rewrite B0 in V8.
    repeat split; auto.
Qed.
End Round1.

(* ---------- round 2: the ResponseVotes ---------- *)
Section Round2.
Variables (c : conf) (x : nid) (T : N) (ys : list nid).
Variables (OT RO CN TC : list nid).
Hypothesis Hnoop : 0 < noop_pk c.
Hypothesis Hys_sub : incl ys OT.
Hypothesis Hys_conn : forall y, In y ys -> smem y TC = true /\ smem y CN = true.
Hypothesis Hmaj : forall n, others n = OT -> majority (1 + N.of_nat (length ys)) n = true.

(* the candidate / leader x between two ResponseVotes *)
Definition xframe (n : node) : Prop :=
  self n = Some x /\ others n = OT /\ readonly n = RO /\ connected n = CN /\ tconn n = TC /\
  term n = T /\ voted n = Some x.

Definition is_cand (todo : list nid) (g : gstate) (n : node) : Prop :=
  role n = CANDIDATE /\ log_wf (log n) /\ log n <> [] /\
  votes n + N.of_nat (length todo) = 1 + N.of_nat (length ys) /\ majority (votes n) n = false /\
  forall y, In y ys -> chan_get x y g = [].

Definition is_lead (g : gstate) (n : node) : Prop :=
  role n = LEADER /\ leader n = Some x /\
  forall y, In y ys -> exists m rest, chan_get x y g = m :: rest /\ is_ae T m = true.

Definition r2 (todo : list nid) (g : gstate) : Prop :=
  (forall y, In y todo -> chan_get y x g = [ResponseVote T]) /\
  exists n, aget x (nodes g) = Some n /\ xframe n /\ (is_cand todo g n \/ is_lead g n).

Lemma step2 y todo g now rnd ord :
  ~ In y todo -> y <> x -> ~ In x todo -> r2 (y :: todo) g ->
  exists g' o, gstep c g (EDeliver y x now rnd ord) = Some (g', o) /\ same_except x g g' /\ r2 todo g'.
Proof.
  intros Hy Hyx Hxt (Hch & n & Hn & Fr & St).
  assert (A : chan_get y x g = [ResponseVote T]) by (apply Hch; left; reflexivity).
  pose proof (deliver_step c g y x now rnd ord n _ _ Hn A) as E. cbv zeta in E.
  pose proof (deliver_same_except c g y x now rnd ord n _ _ Hn A) as SE. cbv zeta in SE.
  set (e := mk_env c now rnd DEFAULT_BUDGET ord 0) in *.
  pose proof Fr as (f1 & f2 & f3 & f4 & f5 & f6 & f7).
  set (g1 := chan_set y x [] g) in *.
  assert (Hch1 : forall y', In y' todo -> chan_get y' x g1 = [ResponseVote T]).
  { intros y' H'. subst g1. rewrite pe_chan_get_set_other.
    - apply Hch. right. exact H'.
    - left. intros ->. contradiction. }
  assert (Hxy1 : forall y', chan_get x y' g1 = chan_get x y' g).
  { intros y'. subst g1. apply pe_chan_get_set_other. left. intros ->. congruence. }
  assert (Hne : forall y', In y' todo -> y' <> x) by (intros y' H' ->; contradiction).
  set (s := on_message e y (ResponseVote T) n) in *.
  assert (Es : s = on_message e y (ResponseVote (term n)) n) by (subst s; rewrite f6; reflexivity).
  eexists. eexists. split; [exact E|]. split; [exact SE|].
  destruct St as [(C1 & C2 & C3 & C4 & C5 & C6)|(L1 & L2 & L3)].
  - (* a candidate *)
    destruct (majority (votes n + 1) n) eqn:Mj.
    + (* this vote completes the majority *)
      assert (Hpk : 0 < noop_pk (cf e)) by exact Hnoop.
      destruct (majority_elects e y n x f1 C1 Mj C2 C3 Hpk)
        as (M1 & M2 & M3 & M4 & M5 & M6 & M7 & M8 & M9 & M10 & M11 & M12).
      cbv zeta in M1, M2, M3, M4, M5, M6, M7, M8, M9, M10, M11, M12.
      rewrite <- Es in *. clearbody s.
      unfold r2. split.
      * intros y' H'. rewrite finish_chan_other; auto.
      * exists (nd s). split; [apply finish_node|]. split.
        -- unfold xframe. rewrite M1, M2, M3, M4, M5, M7, M8. auto 10.
        -- right. unfold is_lead. split; [exact M6|]. split; [exact M9|].
           intros y' H'. rewrite finish_chan_src by exact M10. rewrite Hxy1, (C6 y' H'). cbn [app].
           destruct (Hys_conn y' H') as (c1 & c2).
           assert (Hs : sent_to y' (outs s) <> []).
           { apply M12; [rewrite f2; apply Hys_sub; exact H' | rewrite f4; exact c2 | rewrite f5; exact c1]. }
           destruct (sent_to y' (outs s)) as [|m rest] eqn:Eq; [congruence|].
           exists m, rest. split; [reflexivity|]. rewrite <- f6. apply (M11 y'). rewrite Eq. left. reflexivity.
    + (* one more vote, not enough yet *)
      pose proof (vote_counted e y n C1 Mj) as V. rewrite <- Es in V. clearbody s.
      assert (V1 : nd s = n <| votes := votes n + 1 |>) by (rewrite V; reflexivity).
      assert (V2 : outs s = []) by (rewrite V; reflexivity).
      assert (NT : no_tdrop (outs s)) by (rewrite V2; intros z []).
      unfold r2. split.
      * intros y' H'. rewrite finish_chan_other; auto.
      * exists (nd s). split; [apply finish_node|]. rewrite V1. split.
        -- exact Fr.
        -- left. unfold is_cand. cbn [role log votes set]. repeat split; auto.
           ++ cbn [length] in C4. lia.
           ++ intros y' H'. rewrite finish_chan_src by exact NT. rewrite V2, Hxy1, (C6 y' H'). reflexivity.
  - (* already the leader: the vote is dropped *)
    assert (V : s = start_S e n).
    { subst s. apply late_vote_ignored. left. rewrite L1. discriminate. }
    clearbody s. clear Es. subst s.
    assert (NT : no_tdrop (outs (start_S e n))) by (intros z []).
    unfold r2. split.
    + intros y' H'. rewrite finish_chan_other; auto.
    + exists n. split; [apply finish_node|]. split; [exact Fr|]. right.
      unfold is_lead. split; [exact L1|]. split; [exact L2|].
      intros y' H'. rewrite finish_chan_src by exact NT. cbn [outs start_S sent_to flat_map].
      rewrite app_nil_r, Hxy1. apply L3. exact H'.
Qed.

Lemma round2 todo evs : delivers_from x todo evs -> forall g,
  NoDup todo -> ~ In x todo -> r2 todo g ->
  exists g', run_trace c g evs = Some g' /\ r2 [] g' /\
    (forall z, z <> x -> aget z (nodes g') = aget z (nodes g)).
Proof.
  intros D. induction D as [|y todo now rnd ord evs D IH]; intros g ND Hx R.
  - exists g. cbn. auto.
  - inversion ND as [|? ? Hy ND']; subst.
    assert (Hyx : y <> x) by (intros ->; apply Hx; left; reflexivity).
    assert (Hxt : ~ In x todo) by (intros H; apply Hx; right; exact H).
    destruct (step2 y todo g now rnd ord Hy Hyx Hxt R) as (g1 & o & E1 & (S1 & _) & R1).
    destruct (IH g1 ND' Hxt R1) as (g' & Rn & R' & Fn).
    exists g'. split; [rewrite (run_trace_cons _ _ _ _ _ _ E1); exact Rn|]. split; [exact R'|].
    intros z Hz. rewrite Fn by exact Hz. apply S1. exact Hz.
Qed.

Lemma r2_end g : r2 [] g ->
  exists n, aget x (nodes g) = Some n /\ xframe n /\ is_lead g n.
Proof.
  intros (_ & n & Hn & Fr & [(C1 & C2 & C3 & C4 & C5 & C6)|L]).
  - exfalso. destruct Fr as (_ & f2 & _). pose proof (Hmaj n f2) as M.
    cbn [length] in C4. replace (votes n) with (1 + N.of_nat (length ys)) in C5 by lia. congruence.
  - exists n. auto.
Qed.
End Round2.

(* ---------- round 3: the first append_entries of the new leader ---------- *)
Section Round3.
Variables (c : conf) (x : nid) (T : N).

Definition pre3 (y : nid) (g : gstate) : Prop :=
  exists ny m rest, aget y (nodes g) = Some ny /\ term ny <= T /\ chan_get x y g = m :: rest /\ is_ae T m = true.

Definition post3 (y : nid) (g : gstate) : Prop :=
  exists ny', aget y (nodes g) = Some ny' /\ role ny' = FOLLOWER /\ term ny' = T /\ leader ny' = Some x.

Lemma local_pre3 : local x pre3.
Proof. intros y g g' H1 H2 H3 (ny & m & rest & A). unfold pre3. rewrite H1, H2. eauto. Qed.

Lemma local_post3 : local x post3.
Proof. intros y g g' H1 H2 H3 (ny & A). unfold post3. rewrite H1. eauto. Qed.

Lemma step3 y g now rnd ord : y <> x -> pre3 y g ->
  exists g' o, gstep c g (EDeliver x y now rnd ord) = Some (g', o) /\ same_except y g g' /\ post3 y g'.
Proof.
  intros Hyx (ny & m & rest & A & B & C & D).
  pose proof (deliver_step c g x y now rnd ord ny _ _ A C) as E. cbv zeta in E.
  pose proof (deliver_same_except c g x y now rnd ord ny _ _ A C) as SE. cbv zeta in SE.
  set (e := mk_env c now rnd DEFAULT_BUDGET ord 0) in *.
  destruct (ae_sets_leader e x m ny T D B) as (V1 & V2 & V3 & V4 & V5). cbv zeta in V1, V2, V3, V4, V5.
  eexists. eexists. split; [exact E|]. split; [exact SE|].
  eexists. split; [apply finish_node|]. auto.
Qed.

(* C05_leader_known *)
Lemma leader_known ys evs g :
  delivers_to x ys evs -> NoDup ys -> ~ In x ys -> (forall y, In y ys -> pre3 y g) ->
  exists g', run_trace c g evs = Some g' /\ (forall y, In y ys -> post3 y g') /\
             aget x (nodes g') = aget x (nodes g).
Proof.
  intros D ND Hx HP.
  destruct (fanout c x pre3 post3 local_pre3 local_post3 step3 ys evs D g ND Hx HP) as (g' & R & Po & Fn & _).
  exists g'. split; [exact R|]. split; [exact Po|]. apply Fn. exact Hx.
Qed.
End Round3.

(* ---------- small facts used by the composition ---------- *)
Lemma sent_to_map_send y m l : NoDup l -> In y l -> sent_to y (map (fun z => Send z m) l) = [m].
Proof.
  induction l as [|a l IH]; intros ND Hy; [destruct Hy|].
  inversion ND as [|? ? Ha ND']; subst. cbn [map sent_to flat_map].
  destruct Hy as [->|Hy].
  - rewrite N.eqb_refl. cbn [app]. f_equal.
    assert (E : forall l', ~ In y l' -> flat_map (fun o => match o with Send d' m0 => if d' =? y then [m0] else [] | _ => [] end)
                                  (map (fun z => Send z m) l') = []).
    { induction l' as [|b l' IH']; intros Hn; cbn; auto.
      destruct (b =? y) eqn:Eb; [apply N.eqb_eq in Eb; subst; exfalso; apply Hn; left; reflexivity|].
      apply IH'. intros H; apply Hn; right; exact H. }
    apply E. exact Ha.
  - destruct (a =? y) eqn:Ea; [apply N.eqb_eq in Ea; subst; contradiction|].
    cbn [app]. apply IH; auto.
Qed.

Lemma log_wf_delete_to l i : log_wf l -> log_wf (delete_to l i).
Proof.
  intros H. unfold delete_to. destruct (i <? first_idx l); auto.
  eapply consec_wf. apply consec_skipn. exact H.
Qed.

Lemma majority_one_false n : others n <> [] -> majority 1 n = false.
Proof. intros H. unfold majority. destruct (others n); [congruence|]. cbn [length]. apply N.ltb_ge. lia. Qed.

Lemma majority_others_eq k n n' : others n = others n' -> majority k n = majority k n'.
Proof. unfold majority. intros ->. reflexivity. Qed.

Lemma delivers_to_nil x evs : delivers_to x [] evs -> evs = [].
Proof. intros H. inversion H. reflexivity. Qed.
Lemma delivers_from_nil x evs : delivers_from x [] evs -> evs = [].
Proof. intros H. inversion H. reflexivity. Qed.

(* ---------- C05_election_resolves ---------- *)
Definition follows (g0 : gstate) (x : nid) (T : N) (y : nid) (g : gstate) : Prop := voted_for g0 x T y g.

Lemma election_resolves c g x nx ys now rnd bud ord sl evs1 evs2 :
  quiet_for c g x nx ys -> 0 < noop_pk c -> (deadline nx < now)%Z ->
  delivers_to x ys evs1 -> delivers_from x ys evs2 ->
  exists g' nx',
    run_trace c g (ETick x now rnd bud ord sl :: evs1 ++ evs2) = Some g' /\
    aget x (nodes g') = Some nx' /\
    role nx' = LEADER /\ term nx' = term nx + 1 /\ leader nx' = Some x /\ voted nx' = Some x /\
    forall y, In y ys ->
      follows g x (term nx + 1) y g' /\
      exists m rest, chan_get x y g' = m :: rest /\ is_ae (term nx + 1) m = true.
Proof.
  intros Q Hpk Hd D1 D2.
  destruct Q as [q1 q2 q3 q4 q5 q6 q7 (q8a & q8b & q8c) q9 (q10a & q10b) q11 q12].
  pose proof (tick_step c g x now rnd bud ord sl nx q1) as E0. cbv zeta in E0.
  set (e := mk_env c now rnd bud ord sl) in *.
  destruct (others nx) as [|o1 orest] eqn:Eo.
  - (* alone *)
    assert (ys = []) by (destruct ys as [|y9 ys9]; auto; exfalso; apply (q8b y9); left; reflexivity).
    subst ys. apply delivers_to_nil in D1. apply delivers_from_nil in D2. subst evs1 evs2.
    destruct (single_node_elects e nx x q2 q3 q4 Hd Eo) as (S1 & S2 & S3 & S4 & S5).
    cbv zeta in S1, S2, S3, S4, S5.
    eexists. eexists. split; [cbn [app]; apply (run_trace_one _ _ _ _ _ E0)|].
    split; [apply finish_node|]. split; [exact S2|]. split; [exact S3|]. split; [exact S5|]. split; [exact S4|].
    intros y [].
  - (* at least one other member *)
    assert (Ho : others nx <> []) by (rewrite Eo; discriminate).
    rewrite <- Eo in *. clear Eo o1 orest.
    assert (Hy0 : exists y0, In y0 ys).
    { destruct ys as [|y0 ys']; [|exists y0; left; reflexivity].
      exfalso. cbn in q9. rewrite (majority_one_false nx Ho) in q9. discriminate. }
    assert (Hc : connected_to_anyone nx = true).
    { destruct Hy0 as (y0 & H0). destruct (q12 y0 H0) as (_ & c2 & _).
      unfold connected_to_anyone. destruct (connected nx); [discriminate|reflexivity]. }
    destruct (candidate_start e nx x q2 q3 q4 q5 q6 Hd Hc Ho)
      as (A1 & A2 & A3 & A4 & A5 & A6 & A7 & A8 & A9 & A10 & A11 & A12).
    cbv zeta in A1, A2, A3, A4, A5, A6, A7, A8, A9, A10, A11, A12.
    set (s := on_tick e nx) in *. clearbody s.
    set (g1 := finish x s g) in *.
    set (T := term nx + 1) in *.
    assert (NT : no_tdrop (outs s)).
    { apply no_tdrop_wire. rewrite A11. intros z Hz. apply in_map_iff in Hz as (w & Hw & _). discriminate. }
    assert (Hlog : log_wf (log (nd s)) /\ log (nd s) <> []).
    { destruct A12 as [->|(P & ->)]; [auto|]. split; [apply log_wf_delete_to; exact q10a | apply q11; exact P]. }
    destruct (finish_same_except x s g) as (SE1 & SE2). fold g1 in SE1, SE2.
    (* round 1 *)
    assert (P1 : forall y, In y ys -> pre1 g x T (last_idx (log nx)) (last_term (log nx)) y g1).
    { intros y Hy. destruct (q12 y Hy) as (c1 & c2 & c3 & c4 & ny & c5 & c6 & c7 & c8 & c9).
      assert (Hyx : y <> x) by (intros ->; contradiction).
      unfold pre1. split; [|split].
      - subst g1. rewrite finish_chan_src by exact NT. rewrite c3. cbn [app].
        rewrite <- sent_to_wire, A11. unfold rv_of. fold T.
        apply sent_to_map_send.
        + unfold rv_targets. apply NoDup_filter. exact q7.
        + unfold rv_targets. apply filter_In. split; [apply q8b; exact Hy | exact c1].
      - subst g1. rewrite finish_chan_other by auto. exact c4.
      - exists ny. rewrite SE1 by exact Hyx. repeat split; auto. subst T. lia. }
    destruct (fanout c x _ _ (local_pre1 g x T _ _) (local_post1 g x T)
                (step1 c g x T _ _) ys evs1 D1 g1 q8a q8c P1) as (g2 & R2 & Po2 & Fn2 & Fc2).
    (* round 2 *)
    assert (Hconn : forall y, In y ys -> smem y (tconn nx) = true /\ smem y (connected nx) = true).
    { intros y Hy. destruct (q12 y Hy) as (c1 & c2 & _). auto. }
    assert (Hmj : forall n, others n = others nx -> majority (1 + N.of_nat (length ys)) n = true).
    { intros n Hn. rewrite (majority_others_eq _ n nx Hn). exact q9. }
    assert (R0 : r2 x T ys (others nx) (readonly nx) (connected nx) (tconn nx) ys g2).
    { unfold r2. split.
      - intros y Hy. destruct (Po2 y Hy) as (_ & B & _). exact B.
      - exists (nd s). split.
        + rewrite Fn2 by exact q8c. subst g1. apply finish_node.
        + split; [unfold xframe; auto 10|]. left. unfold is_cand.
          destruct Hlog as (l1 & l2). repeat split; auto.
          * rewrite A9. reflexivity.
          * rewrite A9. rewrite (majority_others_eq _ _ nx A2). apply majority_one_false. exact Ho.
          * intros y Hy. destruct (Po2 y Hy) as (B & _). exact B. }
    destruct (round2 c x T ys (others nx) (readonly nx) (connected nx) (tconn nx) Hpk q8b Hconn Hmj
                ys evs2 D2 g2 q8a q8c R0) as (g3 & R3 & Re & Fn3).
    destruct (r2_end c x T ys (others nx) (readonly nx) (connected nx) (tconn nx) Hpk Hconn Hmj g3 Re)
      as (n3 & N1 & (f1 & f2 & f3 & f4 & f5 & f6 & f7) & (L1 & L2 & L3)).
    exists g3, n3. split.
    { rewrite (run_trace_cons _ _ _ _ _ _ E0). fold g1. rewrite (run_trace_app _ _ _ _ _ R2). exact R3. }
    split; [exact N1|]. split; [exact L1|]. split; [exact f6|]. split; [exact L2|]. split; [exact f7|].
    intros y Hy. split.
    + assert (Hyx : y <> x) by (intros ->; contradiction).
      destruct (Po2 y Hy) as (_ & _ & ny & ny' & B1 & B2 & B3).
      unfold follows, voted_for. exists ny, ny'. rewrite Fn3 by exact Hyx. auto.
    + apply L3. exact Hy.
Qed.

(* C05_election_resolves_full: ... and after the delivery of the append_entries the new leader sent on
   winning, every responder knows the leader *)
Lemma election_resolves_full c g x nx ys now rnd bud ord sl evs1 evs2 evs3 :
  quiet_for c g x nx ys -> 0 < noop_pk c -> (deadline nx < now)%Z ->
  delivers_to x ys evs1 -> delivers_from x ys evs2 -> delivers_to x ys evs3 ->
  exists g' nx',
    run_trace c g (ETick x now rnd bud ord sl :: evs1 ++ evs2 ++ evs3) = Some g' /\
    aget x (nodes g') = Some nx' /\
    role nx' = LEADER /\ term nx' = term nx + 1 /\ leader nx' = Some x /\
    forall y, In y ys ->
      exists ny', aget y (nodes g') = Some ny' /\ role ny' = FOLLOWER /\ term ny' = term nx + 1 /\
                  leader ny' = Some x.
Proof.
  intros Q Hpk Hd D1 D2 D3.
  destruct (election_resolves c g x nx ys now rnd bud ord sl evs1 evs2 Q Hpk Hd D1 D2)
    as (g3 & n3 & R & N1 & L1 & L2 & L3 & L4 & Fo).
  destruct Q as [_ _ _ _ _ _ _ (q8a & _ & q8c) _ _ _ _].
  assert (P3 : forall y, In y ys -> pre3 x (term nx + 1) y g3).
  { intros y Hy. destruct (Fo y Hy) as ((ny & ny' & B1 & B2 & B3 & B4 & _) & m & rest & C1 & C2).
    exists ny', m, rest. repeat split; auto. lia. }
  destruct (leader_known c x (term nx + 1) ys evs3 g3 D3 q8a q8c P3) as (g4 & R4 & Po & Fx).
  exists g4, n3. split.
  { rewrite app_assoc.
    change (ETick x now rnd bud ord sl :: (evs1 ++ evs2) ++ evs3)
      with ((ETick x now rnd bud ord sl :: evs1 ++ evs2) ++ evs3).
    rewrite (run_trace_app _ _ _ _ _ R). exact R4. }
  split; [rewrite Fx; exact N1|]. split; [exact L1|]. split; [exact L2|]. split; [exact L3|].
  intros y Hy. exact (Po y Hy).
Qed.

(* C05_election_resolves_all_voters: the same with every other voter responding, hypotheses spelled out *)
Lemma election_resolves_all c g x nx now rnd bud ord sl evs1 evs2 evs3 :
  aget x (nodes g) = Some nx -> self nx = Some x ->
  (role nx = FOLLOWER \/ role nx = CANDIDATE) ->
  need_load nx && file_dump c = false ->
  replay_done nx ->
  (queue nx = [] \/ wait_leader c = true) ->
  NoDup (others nx) -> ~ In x (others nx) ->
  log_wf (log nx) -> log nx <> [] ->
  (pid (sr nx) = 1 -> delete_to (log nx) (cur_id (sr nx)) <> []) ->
  (forall y, In y (others nx) ->
     smem y (tconn nx) = true /\ smem y (connected nx) = true /\
     chan_get x y g = [] /\ chan_get y x g = [] /\
     exists ny, aget y (nodes g) = Some ny /\ self ny <> None /\ term ny <= term nx /\
                log_ok_for (last_idx (log nx)) (last_term (log nx)) ny /\ smem x (tconn ny) = true) ->
  0 < noop_pk c -> (deadline nx < now)%Z ->
  delivers_to x (others nx) evs1 -> delivers_from x (others nx) evs2 -> delivers_to x (others nx) evs3 ->
  exists g1 g2 nx1 nx2,
    (* after the votes *)
    run_trace c g (ETick x now rnd bud ord sl :: evs1 ++ evs2) = Some g1 /\
    aget x (nodes g1) = Some nx1 /\
    role nx1 = LEADER /\ term nx1 = term nx + 1 /\ leader nx1 = Some x /\
    (forall y, In y (others nx) ->
       exists ny ny1, aget y (nodes g) = Some ny /\ aget y (nodes g1) = Some ny1 /\
         role ny1 = FOLLOWER /\ term ny1 = term nx + 1 /\ voted ny1 = Some x /\ log ny1 = log ny) /\
    (* after the first append_entries of the new leader *)
    run_trace c g1 evs3 = Some g2 /\
    run_trace c g (ETick x now rnd bud ord sl :: evs1 ++ evs2 ++ evs3) = Some g2 /\
    aget x (nodes g2) = Some nx2 /\
    role nx2 = LEADER /\ term nx2 = term nx + 1 /\ leader nx2 = Some x /\
    (forall y, In y (others nx) ->
       exists ny2, aget y (nodes g2) = Some ny2 /\ role ny2 = FOLLOWER /\ term ny2 = term nx + 1 /\
                   leader ny2 = Some x).
Proof.
  intros H1 H2 H3 H4 H5 H6 H7 H8 H9 H10 H11 H12 Hpk Hd D1 D2 D3.
  assert (Q : quiet_for c g x nx (others nx)).
  { constructor; auto.
    - split; [exact H7|]. split; [apply incl_refl|exact H8].
    - unfold majority. apply N.ltb_lt. lia. }
  destruct (election_resolves c g x nx (others nx) now rnd bud ord sl evs1 evs2 Q Hpk Hd D1 D2)
    as (g3 & n3 & R & N1 & L1 & L2 & L3 & L4 & Fo).
  assert (P3 : forall y, In y (others nx) -> pre3 x (term nx + 1) y g3).
  { intros y Hy. destruct (Fo y Hy) as ((ny & ny' & B1 & B2 & B3 & B4 & _) & m & rest & C1 & C2).
    exists ny', m, rest. repeat split; auto. lia. }
  destruct (leader_known c x (term nx + 1) (others nx) evs3 g3 D3 H7 H8 P3) as (g4 & R4 & Po & Fx).
  exists g3, g4, n3, n3.
  split; [exact R|]. split; [exact N1|]. split; [exact L1|]. split; [exact L2|]. split; [exact L3|].
  split.
  { intros y Hy. destruct (Fo y Hy) as ((ny & ny' & B1 & B2 & B3 & B4 & B5 & B6 & B7 & B8) & _).
    exists ny, ny'. auto 10. }
  split; [exact R4|]. split.
  { rewrite app_assoc.
    change (ETick x now rnd bud ord sl :: (evs1 ++ evs2) ++ evs3)
      with ((ETick x now rnd bud ord sl :: evs1 ++ evs2) ++ evs3).
    rewrite (run_trace_app _ _ _ _ _ R). exact R4. }
  split; [rewrite Fx; exact N1|]. split; [exact L1|]. split; [exact L2|]. split; [exact L3|].
  intros y Hy. exact (Po y Hy).
Qed.
