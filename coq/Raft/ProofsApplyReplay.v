(* C01_state_is_replay, step form: how each event of a node may change its user state.
   Only two things ever touch (hist, applied, enabled_ver): loading a dump (the snapshot's
   state replaces them) and the apply loop (hist is extended by the replay of the consecutive
   entries it executes).  Everything else leaves them alone. *)
From Coq Require Import ZArith NArith List Bool Lia ZifyBool ZifyN.
From RecordUpdate Require Import RecordSet.
From PSO Require Raft.ProofsCommitBase.
From PSO Require Import Raft.Types Raft.Node Raft.Net Raft.Obs Raft.ProofsApplyBase Raft.ProofsApply
  Raft.ProofsApplyLog Raft.ProofsCallbacks Raft.ProofsCallbacks2.
Import ListNotations.
Import RecordSetNotations.
Open Scope N_scope.

Definition ukeep (f : S -> S) : Prop := forall s, uview_of (f s) = uview_of s.

Lemma ukeep_view : forall f, quiet f -> ukeep f.
Proof. intros f H s. apply view_uview, H. Qed.
Lemma ukeep_sview : forall f, squiet f -> ukeep f.
Proof. intros f H s. apply sview_uview, H. Qed.
Lemma ukeep_id : ukeep (fun s => s).
Proof. intros s. reflexivity. Qed.
Lemma ukeep_comp : forall f g, ukeep f -> ukeep g -> ukeep (fun s => g (f s)).
Proof. intros f g Hf Hg s. now rewrite Hg, Hf. Qed.
Lemma ukeep_andthen : forall f g, ukeep f -> ukeep g -> ukeep (f ;; g).
Proof. intros f g Hf Hg s. unfold andthen. destruct (ok (f s)); [rewrite Hg|]; apply Hf. Qed.

Lemma ukeep_tick_election : forall e, ukeep (tick_election e).
Proof.
  intros e s. unfold tick_election.
  destruct (self (nd s)) as [me|]; auto.
  destruct (((role (nd s) =? FOLLOWER) || (role (nd s) =? CANDIDATE)) &&
            (deadline (nd s) <? tnow s)%Z && connected_to_anyone (nd s)); auto.
  set (s1 := upd (fun n => n <| deadline := (tnow s + gen_timeout e)%Z |> <| leader := None |>) s).
  set (s2 := set_role CANDIDATE s1).
  set (s3 := upd (fun n => n <| term := term n + 1 |> <| voted := Some me |> <| votes := 1 |>) s2).
  assert (V3 : view_of s3 = view_of s).
  { unfold s3, s2, s1. rewrite view_upd by reflexivity. rewrite view_set_role. now rewrite view_upd by reflexivity. }
  set (s4 := fold_left (fun s x => send x (RequestVote (term (nd s3)) (last_idx (log (nd s3))) (last_term (log (nd s3)))) s)
                       (others (nd s3)) s3).
  assert (V4 : view_of s4 = view_of s).
  { unfold s4. rewrite view_fold; auto. intros. now apply view_send. }
  apply view_uview in V4.
  destruct (majority (votes (nd (on_leader_changed s4))) (nd (on_leader_changed s4))).
  - now rewrite (sview_uview _ _ (sview_become_leader e _)), uview_on_leader_changed.
  - now rewrite uview_on_leader_changed.
Qed.

Lemma ukeep_check_loop : forall fuel e start, ukeep (check_loop fuel e start).
Proof.
  induction fuel as [|f IH]; intros e start s; cbn [check_loop]; auto.
  destruct (tnow s - start <? period (cf e))%Z; auto.
  assert (G : uview_of (match queue (nd s) with
                  | [] => s
                  | (c, cbk) :: rest =>
                    let s0 := upd (fun n => n <| queue := rest |>) s in
                    let s1 := check_one e c cbk s0 in if ok s1 then check_loop f e start s1 else s1 end) = uview_of s).
  { destruct (queue (nd s)) as [|[c cbk] rest]; auto. cbn zeta.
    set (s0 := upd (fun n => n <| queue := rest |>) s).
    destruct (check_one_spec e c cbk s0) as (_ & U & _). cbn zeta in U.
    destruct (ok (check_one e c cbk s0)); [rewrite IH|]; rewrite U; reflexivity. }
  destruct (leader (nd s)); auto. destruct (wait_leader (cf e)); auto.
Qed.

Lemma ukeep_tick_post : forall e need, ukeep (tick_post e need).
Proof.
  intros e need. unfold tick_post. repeat apply ukeep_andthen.
  - apply ukeep_view. intros s. apply view_tick_send.
  - apply ukeep_view. intros s. apply view_tick_ready.
  - intros s. unfold check_commands. apply ukeep_check_loop.
  - apply ukeep_sview. intros s. apply sview_try_compact.
Qed.

(* the user state after the optional dump load at the start of a tick *)
Definition loaded (e : env) (n : node) : option snapshot :=
  if need_load n && file_dump (cf e) then
    match stored (sr n) with
    | Some (Good sn) => if self_ver n <? s_ver sn then None else Some sn
    | _ => None
    end
  else None.

Lemma uview_tick_load : forall e n,
  uview_of (tick_load e (start_S e n)) =
  match loaded e n with
  | Some sn => (s_hist sn, eidx (s_e1 sn), s_ver sn, self_ver n)
  | None => (hist n, applied n, enabled_ver n, self_ver n)
  end.
Proof.
  intros e n. unfold tick_load, loaded. change (nd (start_S e n)) with n.
  destruct (need_load n && file_dump (cf e)); [|reflexivity].
  change (uview_of (upd (fun n0 => n0 <| need_load := false |>) (load_dump e false (start_S e n))))
    with (uview_of (load_dump e false (start_S e n))).
  destruct (stored (sr n)) as [[sn|len]|] eqn:ST.
  - destruct (self_ver n <? s_ver sn) eqn:V.
    + unfold load_dump. change (nd (start_S e n)) with n. rewrite ST, V. reflexivity.
    + destruct (load_dump_installs e false (start_S e n) sn ST) as (H1 & H2 & H3 & H4 & _).
      { change (nd (start_S e n)) with n. lia. }
      { discriminate. }
      unfold uview_of. now rewrite H1, H2, H3, H4.
  - unfold load_dump. change (nd (start_S e n)) with n. now rewrite ST.
  - unfold load_dump. change (nd (start_S e n)) with n. now rewrite ST.
Qed.

(* C01_state_is_replay_partial, tick: the user state after a tick is the state after the optional
   dump load extended by the replay of the entries executed in this tick, which (for a
   well-formed log) are the consecutive indices following `applied` *)
Theorem tick_state_is_replay : forall e n,
  let s0 := tick_pre e (start_S e n) in
  let es := applied_in_tick s0 in
  let '(h0, a0, v0, sv) := match loaded e n with
                           | Some sn => (s_hist sn, eidx (s_e1 sn), s_ver sn, self_ver n)
                           | None => (hist n, applied n, enabled_ver n, self_ver n)
                           end in
  uview_of s0 = (h0, a0, v0, sv) /\
  (ok s0 = false -> on_tick e n = s0) /\
  (ok s0 = true ->
   hist (nd (on_tick e n)) = h0 ++ replay es /\
   applied (nd (on_tick e n)) = a0 + N.of_nat (length es) /\
   enabled_ver (nd (on_tick e n)) = ver_after v0 es /\
   (log_wf (log (nd s0)) -> consec (a0 + 1) es /\ exists a b, log (nd s0) = a ++ es ++ b)).
Proof.
  intros e n. cbn zeta.
  assert (U0 : uview_of (tick_pre e (start_S e n)) = uview_of (tick_load e (start_S e n))).
  { unfold tick_pre, andthen.
    destruct (ok (tick_load e (start_S e n))); auto.
    destruct (ok (tick_timer e (tick_load e (start_S e n)))).
    - destruct (ok (tick_election e (tick_timer e (tick_load e (start_S e n))))).
      + now rewrite (view_uview _ _ (view_tick_leader e _)), ukeep_tick_election, (view_uview _ _ (view_tick_timer e _)).
      + now rewrite ukeep_tick_election, (view_uview _ _ (view_tick_timer e _)).
    - now rewrite (view_uview _ _ (view_tick_timer e _)). }
  rewrite uview_tick_load in U0.
  destruct (match loaded e n with
            | Some sn => (s_hist sn, eidx (s_e1 sn), s_ver sn, self_ver n)
            | None => (hist n, applied n, enabled_ver n, self_ver n) end) as [[[h0 a0] v0] sv] eqn:L.
  split; auto.
  rewrite on_tick_split. cbn zeta. split; [intros ->; reflexivity|]. intros O. rewrite O.
  set (s0 := tick_pre e (start_S e n)) in *.
  unfold uview_of in U0. injection U0 as U1 U2 U3 U4.
  assert (AE_ : hist (nd (fst (apply_entries e s0))) = hist (nd s0) ++ replay (applied_in_tick s0) /\
                applied (nd (fst (apply_entries e s0))) = applied (nd s0) + N.of_nat (length (applied_in_tick s0)) /\
                enabled_ver (nd (fst (apply_entries e s0))) = ver_after (enabled_ver (nd s0)) (applied_in_tick s0)).
  { rewrite apply_entries_unfold. unfold applied_in_tick.
    destruct (applied (nd s0) <? commit (nd s0)).
    - destruct (apply_list_spec (get_entries (log (nd s0)) (Some (applied (nd s0) + 1))
                                  (Some (commit (nd s0) - applied (nd s0))) None) s0) as (A1 & A2 & A3 & _). auto.
    - cbn. now rewrite app_nil_r, N.add_0_r. }
  destruct AE_ as (A1 & A2 & A3).
  assert (FIN : uview_of (if ok (fst (apply_entries e s0))
                          then tick_post e (snd (apply_entries e s0)) (fst (apply_entries e s0))
                          else fst (apply_entries e s0)) = uview_of (fst (apply_entries e s0))).
  { destruct (ok (fst (apply_entries e s0))); auto. apply ukeep_tick_post. }
  apply uview_inv in FIN as (F1 & F2 & F3 & _).
  rewrite F1, F2, F3, A1, A2, A3, U1, U2, U3. repeat split; auto.
  - destruct (apply_consecutive e s0 H) as (C1 & C2 & _). fold (applied_in_tick s0) in C1.
    unfold applied_now in C1. fold (applied_in_tick s0) in C1. now rewrite U2 in C1.
  - destruct (apply_consecutive e s0 H) as (_ & C2 & _). exact C2.
Qed.

Definition installed (m : msg) (sv : N) (s' : S) : Prop :=
  exists t c p sn,
    m = AESnap t c p /\
    s_ver sn <= sv /\
    hist (nd s') = s_hist sn /\ applied (nd s') = eidx (s_e1 sn) /\ enabled_ver (nd s') = s_ver sn /\
    self_ver (nd s') = sv /\
    (* the log is [e0; e1], or - when the node held the snapshot's two entries - starts with them *)
    (log (nd s') = [s_e0 sn; s_e1 sn] \/
     exists a b r, log (nd s') = a :: b :: r /\ entry_eqb a (s_e0 sn) = true /\ entry_eqb b (s_e1 sn) = true) /\
    stored (sr (nd s')) = Some (Good sn).

Lemma oae_cases : forall e from m t c s (P : S -> Prop),
  (forall s', uview_of s' = uview_of s -> P s') ->
  (forall s', installed m (self_ver (nd s)) s' -> P s') ->
  P (on_append_entries e from m t c s).
Proof.
  intros e from m t c s P HU HI. unfold on_append_entries.
  destruct (t <? term (nd s)); [now apply HU|].
  set (s1 := upd (fun n => n <| deadline := (tnow s + gen_timeout e)%Z |>) s).
  set (s2 := if opt_eqb (leader (nd s1)) (Some from) then s1 else on_leader_changed s1).
  assert (U2 : uview_of s2 = uview_of s).
  { unfold s2. destruct (opt_eqb (leader (nd s1)) (Some from)); auto. now rewrite uview_on_leader_changed. }
  set (s3 := upd (fun n => n <| leader := Some from |>) s2).
  set (s4 := if term (nd s3) <? t then upd (fun n => n <| term := t |> <| voted := None |>) s3 else s3).
  set (s5 := set_role FOLLOWER s4).
  set (s6 := upd (fun n => n <| leader_commit := Some c |>) s5).
  assert (V6 : view_of s6 = view_of s2).
  { unfold s6, s5, s4, s3. rewrite view_upd by reflexivity. rewrite view_set_role.
    destruct (term (nd (upd (fun n => n <| leader := Some from |>) s2)) <? t); auto. }
  apply view_uview in V6. rewrite U2 in V6. clearbody s6. clear s5 s4 s3.
  destruct m as [| |tt cc prev es|tt cc prev lab off len en|tt cc p| | |]; try (now apply HU).
  - apply HU. now rewrite (sview_uview _ _ (sview_ae_regular _ _ _ _ _ _)).
  - apply HU. destruct (lab =? 1).
    + now rewrite (view_uview _ _ (view_send_next_idx _ _ _ _ _)).
    + destruct (recv_t (nd s6)); auto. destruct (lab =? 2).
      * now rewrite (view_uview _ _ (view_send_next_idx _ _ _ _ _)).
      * destruct (assemble_entry _); auto.
        now rewrite (sview_uview _ _ (sview_ae_regular _ _ _ _ _ _)).
  - destruct (set_transmission p s6) as [s7 done] eqn:ST.
    assert (C7 : sview_of s7 = sview_of s6).
    { change s7 with (fst (s7, done)). rewrite <- ST. apply sview_set_transmission. }
    apply sview_uview in C7. rewrite V6 in C7.
    destruct (done && load_dump_ok s7) eqn:DL.
    + apply HI. apply andb_prop in DL as [_ LK]. unfold load_dump_ok in LK.
      destruct (stored (sr (nd s7))) as [[sn|]|] eqn:SS; try discriminate.
      apply uview_inv in C7 as (_ & _ & _ & SV).
      destruct (load_dump_installs e true s7 sn SS ltac:(lia) ltac:(intros _; lia)) as (H1 & H2 & H3 & H4 & H5 & _ & H7).
      cbn zeta in *.
      set (L := load_dump e true s7) in *.
      set (s8 := send_next_idx from (Some (applied (nd L) + 1)) false true L).
      pose proof (view_send_next_idx from (Some (applied (nd L) + 1)) false true L) as V8. fold s8 in V8.
      pose proof (view_ae_commit c (Some (applied (nd L))) s8) as V9.
      rewrite V8 in V9.
      apply view_inv in V9 as (_ & _ & _ & X4 & X5 & X6 & X7 & _ & _ & X10 & X11 & _).
      exists tt, cc, p, sn. split; auto. split; [lia|].
      fold s8. rewrite X4, X5, X6, X7, X10, X11, H1, H2, H3, H4.
      split; [reflexivity|]. split; [reflexivity|]. split; [reflexivity|]. split; [auto|].
      split.
      { destruct H7 as [H7|(a & b & r & H7 & Ea & Eb & _)]; [now left|right; exists a, b, r; auto]. }
      (* the stored blob is untouched by load_dump *)
      subst L. rewrite (ProofsCommitBase.fr_load_dump (fun n => stored (sr n))) by (intros; reflexivity). exact SS.
    + apply HU. destruct done; [|now rewrite (view_uview _ _ (view_ae_commit _ _ _))].
      rewrite (view_uview _ _ (view_ae_commit _ _ _)). rewrite <- C7.
      (* a complete snapshot that is not loadable (corrupt, newer code version, not ahead of the
         node's position) leaves the user state alone *)
      cbn [andb] in DL. clear -DL. unfold load_dump, load_dump_ok in *.
      destruct (stored (sr (nd s7))) as [[sn|]|]; auto. cbn [andb].
      destruct (eidx (s_e1 sn) <=? applied (nd s7)); [reflexivity|].
      cbn [negb andb] in DL. destruct (self_ver (nd s7) <? s_ver sn) eqn:V; [reflexivity|lia].
Qed.

(* a delivered message either leaves the user state alone or (last chunk of a snapshot whose
   code version the node supports) installs the snapshot: user state := snapshot state,
   applied := index of its last entry, log := [e0; e1] *)
Theorem message_state : forall e from m n,
  let s' := on_message e from m n in
  uview_of s' = uview_of (start_S e n) \/ installed m (self_ver n) s'.
Proof.
  intros e from m n. cbn zeta.
  assert (AE_ : forall t c,
     uview_of (on_append_entries e from m t c (start_S e n)) = uview_of (start_S e n) \/
     installed m (self_ver n) (on_append_entries e from m t c (start_S e n))).
  { intros t c. apply oae_cases; auto. }
  unfold on_message.
  destruct m as [t lli llt|t|t c prev es|t c prev lab off len en|t c p|c req|req okr a b|t next reset success];
    try apply AE_; left.
  - destruct (self (nd (start_S e n))); auto.
    match goal with |- context [if term (nd (start_S e n)) <? t then ?A else ?B] =>
      set (s1 := if term (nd (start_S e n)) <? t then A else B) end.
    assert (V1 : view_of s1 = view_of (start_S e n)).
    { unfold s1. destruct (term (nd (start_S e n)) <? t); auto.
      rewrite view_upd by reflexivity. rewrite view_set_role. reflexivity. }
    apply view_uview in V1.
    destruct ((role (nd s1) =? FOLLOWER) || (role (nd s1) =? CANDIDATE)); auto.
    destruct (term (nd s1) <=? t); auto.
    destruct (llt <? last_term (log (nd s1))); auto.
    destruct ((llt =? last_term (log (nd s1))) && (lli <? last_idx (log (nd s1)))); auto.
    destruct (voted (nd s1)); auto.
    now rewrite uview_send.
  - destruct ((role (nd (start_S e n)) =? CANDIDATE) && (t =? term (nd (start_S e n)))); auto.
    match goal with |- context [if ?b then _ else _] => destruct b end; auto.
    now rewrite (sview_uview _ _ (sview_become_leader e _)).
  - unfold submit. destruct (qsize (cf e) <? N.of_nat (length (queue (nd (start_S e n))))); auto.
    unfold uview_of. now rewrite nd_call_err.
  - now destruct (apply_resp_spec e from req okr a b n) as (_ & _ & U & _).
  - destruct ((role (nd (start_S e n)) =? LEADER) && (t =? term (nd (start_S e n)))); auto.
    match goal with |- context [ok ?X] => set (s2 := X) end.
    assert (C2 : uview_of s2 = uview_of (start_S e n)).
    { unfold s2. destruct reset, success; auto;
        match goal with |- context [aget from ?l] => destruct (aget from l) as [m0|] end; auto;
        destruct (m0 <? next - 1); auto. }
    destruct (ok s2); auto.
Qed.

(* the other events never touch the user state *)
Theorem other_events_state : forall (api : env -> cmd -> cbref -> node -> S) e c cbk n x,
  (api = api_submit \/ api = api_admin \/ api = api_setver) ->
  uview_of (api e c cbk n) = uview_of (start_S e n) /\
  uview_of (idle_S (on_connected x n)) = uview_of (idle_S n) /\
  uview_of (idle_S (on_disconnected x n)) = uview_of (idle_S n) /\
  uview_of (idle_S (api_compact n)) = uview_of (idle_S n).
Proof.
  intros api e c cbk n x H. split; [|split; [|split]].
  - assert (SB : uview_of (submit e c cbk (start_S e n)) = uview_of (start_S e n)).
    { unfold submit. destruct (qsize (cf e) <? N.of_nat (length (queue (nd (start_S e n))))); auto.
      unfold uview_of. now rewrite nd_call_err. }
    destruct H as [->|[->| ->]]; auto.
    + unfold api_admin. destruct (dyn (cf e)); auto.
    + unfold api_setver. destruct ((self_ver n <? ca c) || (ca c <? enabled_ver n)); auto.
  - unfold on_connected. destruct (RO_BASE <=? x); reflexivity.
  - unfold on_disconnected. destruct (RO_BASE <=? x); reflexivity.
  - reflexivity.
Qed.

(* ------------------------------------------------------------------ *)
(* full statements that are NOT proved here (they need Log Matching +   *)
(* Leader Completeness, staged in DESIGN 5)                             *)
(* ------------------------------------------------------------------ *)

(* no two nodes apply different commands at the same index *)
Definition C01_state_machine_safety_full (valid : conf -> list event -> Prop) : Prop :=
  forall c evs g a b na nb ea eb,
    valid c evs -> run_trace c ginit evs = Some g ->
    aget a (nodes g) = Some na -> aget b (nodes g) = Some nb ->
    In ea (log na) -> In eb (log nb) -> eidx ea = eidx eb ->
    eidx ea <= applied na -> eidx eb <= applied nb ->
    entry_eqb ea eb = true.

(* a node's user state is the replay of one cluster-wide sequence up to `applied` *)
Definition C01_state_is_replay_full (valid : conf -> list event -> Prop) : Prop :=
  forall c evs, valid c evs ->
    exists sigma : list entry,
      forall evs1 evs2 g x n, evs = evs1 ++ evs2 -> run_trace c ginit evs1 = Some g ->
        aget x (nodes g) = Some n ->
        exists k, hist n = replay (firstn k sigma) /\ N.of_nat k + 1 = applied n.
