(* C20: the reachable-state invariant "a LEADER has a match_idx and a last_resp slot for every member of
   others", which discharges the last two state hypotheses of C20_bound.  Node level. *)
From Coq Require Import ZArith NArith List Bool Lia ZifyBool ZifyN.
From RecordUpdate Require Import RecordSet.
From PSO Require Import Raft.Types Raft.Node Raft.Net.
From PSO Require Import Raft.ProofsReadonlyFrames Raft.ProofsReadonlyA Raft.ProofsReadonlyB.
From PSO Require Import Raft.ProofsFallbackA Raft.ProofsFallbackB Raft.ProofsFallbackInv.
Import ListNotations.
Import RecordSetNotations.
Open Scope N_scope.

Lemma slots_ok_follower : forall n, srt (others n) -> role n <> LEADER -> slots_ok n.
Proof. intros n H1 H2. split; [exact H1 | intros H; contradiction]. Qed.

Lemma fr_slots : forall s s', fr true s s' -> slots_ok (nd s) -> slots_ok (nd s').
Proof. intros s s' (ex & _ & _ & _ & _ & _ & _ & _ & Q). apply Q; reflexivity. Qed.

(* ---- become_leader fills every slot ---- *)
Lemma In_sadd_keep : forall x y l, In y l -> In y (sadd x l).
Proof.
  intros x y l; induction l as [|z l IH]; cbn; [intros []|].
  intros Hy. destruct (x <? z); [right; exact Hy|]. destruct (x =? z); [exact Hy|].
  destruct Hy as [<-|Hy]; [left; reflexivity | right; auto].
Qed.

Lemma In_sunion_l : forall a b y, In y a -> In y (sunion a b).
Proof.
  intros a b; revert a. unfold sunion. induction b as [|x b IH]; intros a y H; cbn; [exact H|].
  apply IH. apply In_sadd_keep; exact H.
Qed.

Definition bl_step (now : Z) (n : node) (x : nid) : node :=
  n <| next_idx := aset x (last_idx (log n) + 1) (next_idx n) |>
    <| match_idx := aset x 0 (match_idx n) |>
    <| last_resp := aset x now (last_resp n) |>
    <| sr := (sr n) <| trans := adel x (trans (sr n)) |> |>.

Lemma bl_fold_facts : forall now l n,
  role (fold_left (bl_step now) l n) = role n /\ others (fold_left (bl_step now) l n) = others n /\
  (forall x, In x l \/ (aget x (match_idx n) <> None /\ aget x (last_resp n) <> None) ->
     aget x (match_idx (fold_left (bl_step now) l n)) <> None /\
     aget x (last_resp (fold_left (bl_step now) l n)) <> None).
Proof.
  intros now l; induction l as [|a l IH]; intros n; cbn [fold_left].
  - split; [reflexivity|]. split; [reflexivity|]. intros x [[]|H]; exact H.
  - destruct (IH (bl_step now n a)) as (R & O & K). split; [exact R|]. split; [exact O|].
    intros x [[<-|Hx]|(H1 & H2)].
    + apply K. right.
      change (aget a (aset a 0 (match_idx n)) <> None /\ aget a (aset a now (last_resp n)) <> None).
      rewrite !aget_aset_same; split; discriminate.
    + apply K. left; exact Hx.
    + apply K. right.
      change (aget x (aset a 0 (match_idx n)) <> None /\ aget x (aset a now (last_resp n)) <> None).
      split; apply aget_aset_some; assumption.
Qed.

Lemma slots_after_fold : forall now l n en i,
  srt (others n) -> (forall x, In x (others n) -> In x l) ->
  slots_ok ((log_add en (fold_left (bl_step now) l n)) <| noop_idx := i |>).
Proof.
  intros now l n en i Hs Hl. destruct (bl_fold_facts now l n) as (R & O & K).
  revert R O K. generalize (fold_left (bl_step now) l n). intros F R O K.
  unfold slots_ok, log_add. cbn. rewrite O. split; [exact Hs|]. intros _ x Hx. apply K. left. apply Hl; exact Hx.
Qed.

Lemma slots_become_leader : forall e s, period_ok e -> srt (others (nd s)) -> slots_ok (nd (become_leader e s)).
Proof.
  intros e s Hp Hs. unfold become_leader; cbv zeta.
  match goal with |- slots_ok (nd (andthen ?f ?g ?X)) => assert (slots_ok (nd X)) as H0 end.
  { cbn [nd upd set].
    apply (slots_after_fold (tnow (upd (fun n => n <| last_resp := [] |>) (set_role LEADER (upd (fun n => n <| leader := self n |>) s))))).
    - unfold set_role; cbn. destruct (_ =? LEADER); exact Hs.
    - intros x Hx. apply In_sunion_l. exact Hx. }
  unfold andthen.
  match goal with |- slots_ok (nd (if ok ?Y then _ else _)) => assert (slots_ok (nd Y)) as H1 end.
  { destruct (use_batch (cf e)); [exact H0|]. eapply fr_slots; [apply fr_send_ae; exact Hp | exact H0]. }
  destruct (ok _); [|exact H1]. eapply fr_slots; [apply fr_send_ae; exact Hp | exact H1].
Qed.

(* ---- the phases of a tick ---- *)
Lemma mq_slots : forall s s', mq s s' -> role (nd s') <> LEADER -> slots_ok (nd s) -> slots_ok (nd s').
Proof.
  intros s s' (M & _) Hr (S1 & _). unfold mem_part in M. injection M as M1 _ _ _.
  apply slots_ok_follower; [rewrite M1; exact S1 | exact Hr].
Qed.

Lemma slots_tick_election : forall e s, period_ok e -> slots_ok (nd s) -> slots_ok (nd (tick_election e s)).
Proof.
  intros e s Hp H. unfold tick_election; cbv zeta.
  destruct (self (nd s)) as [me|]; [|exact H].
  destruct (_ && _); [|exact H].
  match goal with |- context [if majority (votes (nd ?X)) (nd ?X) then _ else _] => set (Y := X) end.
  assert (mq s Y) as HY.
  { subst Y. eapply mq_trans; [|apply mq_on_leader_changed].
    eapply mq_trans; [|apply mq_fold; intros; apply mq_send].
    eapply mq_trans; [|apply mq_upd; reflexivity].
    eapply mq_trans; [|apply mq_set_role]. apply mq_upd; reflexivity. }
  assert (role (nd Y) = CANDIDATE) as RY.
  { subst Y.
    match goal with |- context [on_leader_changed ?Z] =>
      destruct (core_fields _ _ (fr_core _ _ _ (fr_on_leader_changed true Z))) as (_ & -> & _) end.
    match goal with |- context [nd (fold_left (fun s x => send x (@?f x) s) ?l ?Z)] => rewrite (nd_fold_send f l Z) end.
    cbn. apply role_set_role. }
  assert (slots_ok (nd Y)) as SY by (apply (mq_slots s Y HY); [rewrite RY; discriminate | exact H]).
  clearbody Y.
  destruct (majority _ _); [apply slots_become_leader; [exact Hp | apply SY] | exact SY].
Qed.

Lemma slots_tick_leader : forall e s, slots_ok (nd s) -> slots_ok (nd (tick_leader e s)).
Proof.
  intros e s (S1 & S2). destruct (tick_leader_mem e s) as (M & _ & _ & R & _).
  unfold mem3 in M. injection M as M1 M2 M3. unfold slots_ok. rewrite M1, M2, M3. split; [exact S1|].
  intros Hl. apply S2. destruct R as [<- | R]; [exact Hl | rewrite R in Hl; discriminate Hl].
Qed.

Lemma slots_andthen : forall f g s,
  slots_ok (nd (f s)) -> (forall s', slots_ok (nd s') -> slots_ok (nd (g s'))) -> slots_ok (nd ((f ;; g) s)).
Proof. intros f g s Hf Hg. unfold andthen. destruct (ok (f s)); auto. Qed.

(* everything after tick_load *)
Lemma slots_tick_rest : forall e s, period_ok e -> slots_ok (nd s) ->
  slots_ok (nd ((tick_timer e ;; tick_election e ;; tick_leader e ;; tick_tail e) s)).
Proof.
  intros e s Hp H.
  apply slots_andthen; [eapply fr_slots; [apply fr_tick_timer | exact H]|]. intros s2 H2.
  apply slots_andthen; [apply slots_tick_election; assumption|]. intros s3 H3.
  apply slots_andthen; [apply slots_tick_leader; assumption|]. intros s4 H4.
  eapply fr_slots; [apply fr_tick_tail; exact Hp | exact H4].
Qed.

(* the whole tick; the dump-load case needs the sortedness of the loaded member list, which is supplied
   by the caller (ProofsCommitLog.tick_load_keeps) *)
Lemma slots_on_tick : forall e n, period_ok e ->
  slots_ok n -> (need_load n = true -> role n = FOLLOWER) ->
  srt (others (nd (tick_load e (start_S e n)))) ->
  slots_ok (nd (on_tick e n)).
Proof.
  intros e n Hp H Hf Hsort. rewrite on_tick_eq.
  assert (slots_ok (nd (tick_load e (start_S e n)))) as H1.
  { destruct (need_load n) eqn:En.
    - apply slots_ok_follower; [exact Hsort|].
      destruct (core_fields _ _ (fr_core _ _ _ (fr_tick_load e (start_S e n)))) as (_ & -> & _).
      cbn. rewrite (Hf eq_refl). discriminate.
    - eapply fr_slots; [apply fr_tick_load_noload; exact En | exact H]. }
  unfold andthen at 1. destruct (ok (tick_load e (start_S e n))); [|exact H1].
  apply slots_tick_rest; assumption.
Qed.

(* ---- messages ---- *)
Lemma role_ae_head : forall e from t c s, role (nd (ae_head e from t c s)) = FOLLOWER.
Proof. intros; unfold ae_head; cbv zeta. cbn [nd upd set role]. apply role_set_role. Qed.

(* the leader-relevant part of slots_ok after a delivery *)
Definition leader_slots (n : node) : Prop :=
  role n = LEADER -> forall x, In x (others n) -> aget x (match_idx n) <> None /\ aget x (last_resp n) <> None.

Lemma slots_on_message : forall e from m n, period_ok e -> slots_ok n -> leader_slots (nd (on_message e from m n)).
Proof.
  intros e from m n Hp H. unfold on_message; cbv zeta.
  assert (forall s', fr true (start_S e n) s' -> leader_slots (nd s')) as HF
    by (intros s' F; exact (proj2 (fr_slots _ _ F H))).
  assert (forall t c, leader_slots (nd (on_append_entries e from m t c (start_S e n)))) as HAE.
  { intros t c. rewrite on_append_entries_eq. destruct (t <? _); [exact (proj2 H)|].
    intros Hl. exfalso.
    destruct (core_fields _ _ (fr_core _ _ _ (fr_ae_tail e from m c (ae_head e from t c (start_S e n))))) as (_ & R & _).
    rewrite R, role_ae_head in Hl. discriminate Hl. }
  destruct m as [t lli llt|t|? ? ? ?|? ? ? ? ? ? ?|? ? ?|cm req|req okr a b|t next reset success]; try apply HAE.
  - (* RequestVote *)
    destruct (self (nd (start_S e n))); [|exact (proj2 H)].
    match goal with |- leader_slots (nd (if (role (nd ?X) =? _) || _ then _ else _)) => assert (slots_ok (nd X)) as H0 end.
    { destruct (_ <? t); [|exact H]. apply slots_ok_follower; [unfold set_role; cbn; destruct (_ =? FOLLOWER); exact (proj1 H)|].
      cbn [nd upd set role]. rewrite role_set_role. discriminate. }
    match goal with |- leader_slots (nd (if (role (nd ?X) =? _) || _ then _ else _)) => set (Y := X) in * end.
    clearbody Y.
    destruct (_ || _); [|exact (proj2 H0)]. destruct (_ <=? t); [|exact (proj2 H0)].
    destruct (llt <? _); [exact (proj2 H0)|]. destruct (_ && _); [exact (proj2 H0)|].
    destruct (voted _); [exact (proj2 H0)|]. rewrite nd_send. exact (proj2 H0).
  - (* ResponseVote *)
    destruct (_ && _); [|exact (proj2 H)].
    destruct (majority _ _); [|exact (proj2 H)].
    match goal with |- leader_slots (nd (become_leader e ?X)) =>
      assert (srt (others (nd X))) as HX by exact (proj1 H); exact (proj2 (slots_become_leader e X Hp HX)) end.
  - apply HF. apply fr_submit.
  - apply HF. destruct (aget req _); [|fr1]. destruct (negb okr); [frchain|]. destruct (a <=? _); frchain.
  - (* NextIdx: only asets *)
    destruct (_ && _); [|exact (proj2 H)].
    assert (forall s0 : S, slots_ok (nd s0) -> forall k v, slots_ok (nd (upd (fun n => n <| match_idx := aset k v (match_idx n) |>) s0))) as HM.
    { intros s0 (A1 & A2) k v. split; [exact A1|]. intros Hl x Hx. destruct (A2 Hl x Hx) as (B1 & B2).
      split; [apply aget_aset_some; exact B1 | exact B2]. }
    assert (forall s0 : S, slots_ok (nd s0) -> forall k v, slots_ok (nd (upd (fun n => n <| last_resp := aset k v (last_resp n) |>) s0))) as HL.
    { intros s0 (A1 & A2) k v. split; [exact A1|]. intros Hl x Hx. destruct (A2 Hl x Hx) as (B1 & B2).
      split; [exact B1 | apply aget_aset_some; exact B2]. }
    match goal with |- leader_slots (nd (if ok ?X then _ else _)) => assert (slots_ok (nd X)) as H0 end.
    { assert (slots_ok (nd (if reset
                 then upd (fun n0 => n0 <| next_idx := aset from (match aget from (next_idx n0) with
                                                                  | Some cur => N.min next cur | None => next end) (next_idx n0) |>) (start_S e n)
                 else start_S e n))) as H1 by (destruct reset; exact H).
      match type of H1 with slots_ok (nd ?Z) => set (W := Z) in * end. clearbody W.
      destruct success; [|exact H1].
      destruct (aget from (match_idx (nd W))); [|exact H1].
      destruct (_ <? _); [|exact H1].
      destruct H1 as (A1 & A2). split; [exact A1|]. intros Hl x Hx. destruct (A2 Hl x Hx) as (B1 & B2).
      split; [apply aget_aset_some; exact B1 | exact B2]. }
    destruct (ok _); [|exact (proj2 H0)]. exact (proj2 (HL _ H0 _ _)).
Qed.
