(* C09: capture point of a snapshot, trimming keeps the snapshot's two entries, loading a
   dump, cancel on disconnect, catch-up index after the last piece. *)
From Coq Require Import ZArith NArith List Bool Lia ZifyBool ZifyN.
From RecordUpdate Require Import RecordSet.
From PSO Require Import Raft.Types Raft.Node Raft.Net Raft.Obs Raft.ProofsSnapshotBase.
From PSO Require Raft.ProofsCommitBase Raft.ProofsCommit.
Import ListNotations.
Import RecordSetNotations.
Open Scope N_scope.

(* ================= capture point ================= *)
Definition cluster_of (n : node) : list nid :=
  match self n with Some i => sadd i (others n) | None => others n end.

(* the member set as of the snapshot's position: the membership requests of the entries behind
   lastApplied are undone, latest first (syncobj.py __clusterBeforeChange) *)
Definition cluster_at_applied (n : node) : list nid :=
  cluster_before n (rev (get_entries (log n) (Some (applied n + 1)) None None)) (cluster_of n).

(* The serializing branch of try_compact is the only one that leaves pid = 1.  The stored
   snapshot is built from the node state at the start of the call. *)
Lemma capture_point : forall e s,
  pid (sr (nd (try_compact e s))) = 1 ->
  pid (sr (nd s)) = 0 /\
  exists sn pre post,
    s_hist sn = hist (nd s) /\ s_ver sn = enabled_ver (nd s) /\
    s_cluster sn = cluster_at_applied (nd s) /\ s_len sn = snaplen e /\
    log (nd s) = pre ++ s_e0 sn :: s_e1 sn :: post /\
    N.of_nat (length pre) = applied (nd s) - 1 - first_idx (log (nd s)) /\
    first_idx (log (nd s)) <= applied (nd s) - 1 /\
    nd (try_compact e s) =
      (nd s) <| force_compact := false |>
             <| sr := (sr (nd s)) <| cur_id := eidx (s_e0 sn) |> <| stored := Some (Good sn) |> <| pid := 1 |> |> /\
    outs (try_compact e s) = outs s /\ exc (try_compact e s) = exc s.
Proof.
  intros e s. unfold try_compact.
  destruct (pid (sr (nd s)) =? 0) eqn:E0.
  2:{ cbn [negb]. destruct (pid (sr (nd s)) =? 1); unfold upd; cbn; intros H; discriminate. }
  assert (E1 : (pid (sr (nd s)) =? 1) = false) by lia.
  rewrite E1. cbn [negb].
  apply N.eqb_eq in E0.
  destruct (_ && _ && _).
  { intros H. rewrite H in E0. discriminate. }
  destruct (get_entries (log (nd s)) (Some (applied (nd s) - 1)) (Some 2) None) as [|e0 [|e1 tl]] eqn:Eg.
  1,2: unfold upd; cbn; intros H; rewrite H in E0; discriminate.
  destruct (opt_eqb _ _).
  { unfold upd; cbn; intros H; rewrite H in E0; discriminate. }
  intros _. split; auto.
  apply get_entries_two_split in Eg. destruct Eg as (_ & pre & post & Hl & Hlen & Hf).
  exists (mkSnap (hist (nd s)) (enabled_ver (nd s)) e1 e0 (cluster_at_applied (nd s)) (snaplen e)), pre, post.
  cbn. repeat split; auto.
Qed.

Lemma capture_point_indices : forall e s,
  pid (sr (nd (try_compact e s))) = 1 -> log_wf (log (nd s)) -> 1 <= applied (nd s) ->
  exists sn, stored (sr (nd (try_compact e s))) = Some (Good sn) /\
    cur_id (sr (nd (try_compact e s))) = applied (nd s) - 1 /\
    eidx (s_e0 sn) = applied (nd s) - 1 /\ eidx (s_e1 sn) = applied (nd s) /\
    In (s_e0 sn) (log (nd s)) /\ In (s_e1 sn) (log (nd s)) /\
    s_hist sn = hist (nd s) /\ s_ver sn = enabled_ver (nd s) /\ s_cluster sn = cluster_at_applied (nd s).
Proof.
  intros e s H Hwf Ha.
  destruct (capture_point e s H) as (_ & sn & pre & post & Hh & Hv & Hc & _ & Hl & Hlen & Hf & Hn & _).
  exists sn. rewrite Hn. cbn.
  rewrite Hl in Hwf. pose proof (wf_two_indices _ _ _ _ Hwf) as [H0 H1]. rewrite <- Hl in H0.
  assert (eidx (s_e0 sn) = applied (nd s) - 1) by lia.
  repeat split; auto; try lia.
  - rewrite Hl. apply in_or_app. right. left. auto.
  - rewrite Hl. apply in_or_app. right. right. left. auto.
Qed.

(* when do the two entries exist *)
Lemma capture_entries_exist : forall l a, log_wf l -> l <> [] -> 1 <= a ->
  ((exists e0 e1, get_entries l (Some (a - 1)) (Some 2) None = [e0; e1]) <->
   first_idx l <= a - 1 /\ a <= last_idx l).
Proof.
  intros l a Hwf Hne Ha. pose proof (consec_last_idx _ _ Hwf Hne) as Hlast.
  unfold get_entries. change (N.to_nat 2) with 2%nat.
  destruct (a - 1 <? first_idx l) eqn:E.
  - split; [intros (e0 & e1 & H); discriminate | lia].
  - remember (N.to_nat (a - 1 - first_idx l)) as k.
    pose proof (skipn_length k l) as Hsl.
    destruct (skipn k l) as [|x [|y r]] eqn:Es; cbn [firstn length] in *.
    + split; [intros (e0 & e1 & H); discriminate | lia].
    + split; [intros (e0 & e1 & H); discriminate | lia].
    + split; [lia | intros _; eauto].
Qed.

(* ================= the next try_compact trims to the snapshot's entries ================= *)
Lemma compaction_trims : forall e s pre e0 e1 post,
  pid (sr (nd s)) = 1 -> cur_id (sr (nd s)) = eidx e0 ->
  log (nd s) = pre ++ e0 :: e1 :: post -> log_wf (log (nd s)) ->
  log (nd (try_compact e s)) = e0 :: e1 :: post /\
  pid (sr (nd (try_compact e s))) = 0 /\ trans (sr (nd (try_compact e s))) = [] /\
  stored (sr (nd (try_compact e s))) = stored (sr (nd s)) /\
  last_ser_entry (nd (try_compact e s)) = Some (eidx e0) /\
  hist (nd (try_compact e s)) = hist (nd s) /\ applied (nd (try_compact e s)) = applied (nd s) /\
  commit (nd (try_compact e s)) = commit (nd s) /\ exc (try_compact e s) = exc s.
Proof.
  intros e s pre e0 e1 post Hp Hc Hl Hwf. unfold try_compact. rewrite Hp. cbn.
  rewrite Hc, Hl. rewrite Hl in Hwf.
  change (eidx e0) with (first_idx (e0 :: e1 :: post)) at 1.
  rewrite delete_to_split by (auto; congruence). repeat split; auto.
Qed.

(* capture, then appends only, then the next try_compact: the log starts with the two
   snapshot entries followed by what followed them and by what was appended meanwhile *)
Lemma compaction_keeps_snapshot_entries : forall e s e' s2 added,
  pid (sr (nd (try_compact e s))) = 1 ->
  sr (nd s2) = sr (nd (try_compact e s)) ->
  log (nd s2) = log (nd s) ++ added -> log_wf (log (nd s2)) ->
  exists sn pre post,
    stored (sr (nd s2)) = Some (Good sn) /\
    log (nd s) = pre ++ s_e0 sn :: s_e1 sn :: post /\
    log (nd (try_compact e' s2)) = s_e0 sn :: s_e1 sn :: post ++ added /\
    stored (sr (nd (try_compact e' s2))) = Some (Good sn) /\
    (2 <= length (log (nd (try_compact e' s2))))%nat.
Proof.
  intros e s e' s2 added H Hsr Hl Hwf.
  destruct (capture_point e s H) as (_ & sn & pre & post & _ & _ & _ & _ & Hls & _ & _ & Hn & _).
  exists sn, pre, post.
  assert (Hst : stored (sr (nd s2)) = Some (Good sn)) by (rewrite Hsr, Hn; reflexivity).
  assert (Hp : pid (sr (nd s2)) = 1) by (rewrite Hsr, Hn; reflexivity).
  assert (Hc : cur_id (sr (nd s2)) = eidx (s_e0 sn)) by (rewrite Hsr, Hn; reflexivity).
  assert (Hl2 : log (nd s2) = pre ++ s_e0 sn :: s_e1 sn :: (post ++ added)).
  { rewrite Hl, Hls, <- app_assoc. reflexivity. }
  destruct (compaction_trims e' s2 _ _ _ _ Hp Hc Hl2 Hwf) as (H1 & _ & _ & H4 & _).
  repeat split; auto.
  - rewrite H4. auto.
  - rewrite H1. cbn. lia.
Qed.

(* ================= loading a dump ================= *)
Definition same_app (n n' : node) : Prop :=
  hist n' = hist n /\ enabled_ver n' = enabled_ver n /\ applied n' = applied n /\ log n' = log n /\
  commit n' = commit n /\ sr n' = sr n /\ self n' = self n /\ self_ver n' = self_ver n /\
  meta_commit n' = meta_commit n /\ replay_idx n' = replay_idx n.

Lemma same_app_refl : forall n, same_app n n.
Proof. intros; unfold same_app; repeat split; auto. Qed.

Lemma same_app_trans : forall a b c, same_app a b -> same_app b c -> same_app a c.
Proof. unfold same_app; intros a b c H1 H2; intuition congruence. Qed.

Lemma update_cluster_frame : forall new s,
  same_app (nd s) (nd (update_cluster new s)) /\ others (nd (update_cluster new s)) = new /\
  exc (update_cluster new s) = exc s /\ tnow (update_cluster new s) = tnow s.
Proof.
  intros new s. unfold update_cluster. cbv zeta.
  match goal with |- context [upd (fun n => n <| others := new |>) ?x] => set (s1 := x) end.
  assert (H1 : same_app (nd s) (nd s1) /\ exc s1 = exc s /\ tnow s1 = tnow s).
  { subst s1. apply fold_left_keeps.
    - intros a b (Ha & Hb & Hc). unfold upd, emit, same_app in *; cbn. intuition.
    - split; [apply same_app_refl | auto]. }
  set (s2 := upd (fun n => n <| others := new |>) s1).
  match goal with |- context [fold_left ?f ?l s2] => set (F := f); set (L := l) end.
  assert (H2 : same_app (nd s) (nd (fold_left F L s2)) /\ others (nd (fold_left F L s2)) = new /\
               exc (fold_left F L s2) = exc s /\ tnow (fold_left F L s2) = tnow s).
  { apply fold_left_keeps.
    - intros a b (Ha & Hb & Hc & Hd). subst F. unfold upd, emit, same_app in *; cbn. intuition.
    - subst s2. unfold upd, same_app in *; cbn. intuition. }
  exact H2.
Qed.

(* a dump that is absent, corrupt or needs a newer code version is not loaded ... *)
Lemma load_dump_fail : forall e clear s,
  load_dump_ok s = false -> snap_behind s = false -> load_dump e clear s = s.
Proof.
  intros e clear s H Hb. unfold load_dump, load_dump_ok, snap_behind in *.
  destruct (stored (sr (nd s))) as [[sn|]|]; auto.
  rewrite Hb in *. rewrite andb_false_r. cbn [negb andb] in H.
  destruct (self_ver (nd s) <? s_ver sn) eqn:E; auto. lia.
Qed.

(* ... and a received snapshot that is not ahead of the node's position is not installed: the
   node only asks for a fresh snapshot of its own *)
Lemma load_dump_behind : forall e s,
  snap_behind s = true ->
  load_dump e true s = upd (fun n => n <| force_compact := true |> <| last_ser_entry := None |>) s.
Proof.
  intros e s Hb. unfold load_dump, snap_behind in *.
  destruct (stored (sr (nd s))) as [[sn|]|]; try discriminate. rewrite Hb. reflexivity.
Qed.

Lemma load_dump_ok_cases : forall s, load_dump_ok s = false <->
  (stored (sr (nd s)) = None \/ (exists l, stored (sr (nd s)) = Some (Corrupt l)) \/
   exists sn, stored (sr (nd s)) = Some (Good sn) /\
              (self_ver (nd s) < s_ver sn \/ eidx (s_e1 sn) <= applied (nd s))).
Proof.
  intros s. unfold load_dump_ok. destruct (stored (sr (nd s))) as [[sn|l]|].
  - split.
    + intros H. right. right. exists sn. split; auto. lia.
    + intros [H|[[l H]|[sn' [H1 H2]]]]; try discriminate. inversion H1; subst. lia.
  - split; auto. intros _. right. left. eauto.
  - split; auto.
Qed.

Lemma exc_do_change_cluster : forall a x r s, exc (fst (do_change_cluster a x r s)) = exc s.
Proof.
  intros. unfold do_change_cluster.
  repeat (match goal with |- context [if ?b then _ else _] => destruct b end; cbn); reflexivity.
Qed.

Lemma exc_apply_membership : forall r es s, exc (apply_membership r es s) = exc s.
Proof.
  intros r es. unfold apply_membership. induction es as [|en es IH]; intros s; cbn [fold_left]; auto.
  rewrite IH. destruct (membership_of (ecmd en)) as [[a x]|]; auto. apply exc_do_change_cluster.
Qed.

(* loading a received snapshot that is ahead of the node's position.  The log keeps its entries from
   the snapshot's position on when it holds the snapshot's two entries (ProofsCommit.snap_kept),
   otherwise it becomes [e0; e1] *)
Lemma load_restores : forall e s sn,
  stored (sr (nd s)) = Some (Good sn) -> s_ver sn <= self_ver (nd s) ->
  applied (nd s) < eidx (s_e1 sn) ->
  let s' := load_dump e true s in
  let kept := ProofsCommit.snap_kept sn (log (nd s)) in
  load_dump_ok s = true /\
  hist (nd s') = s_hist sn /\ enabled_ver (nd s') = s_ver sn /\ applied (nd s') = eidx (s_e1 sn) /\
  log (nd s') = (if kept then delete_to (log (nd s)) (eidx (s_e0 sn)) else [s_e0 sn; s_e1 sn]) /\
  replay_idx (nd s') = (if kept then replay_idx (nd s) else N.min (replay_idx (nd s)) (eidx (s_e1 sn))) /\
  commit (nd s') = commit (nd s) /\ sr (nd s') = sr (nd s) /\ exc s' = exc s /\
  self_ver (nd s') = self_ver (nd s) /\
  (dyn (cf e) = false -> others (nd s') = others (nd s)) /\
  (dyn (cf e) = true -> kept = false ->
   others (nd s') = filter (fun x => negb (self_is x (nd s))) (s_cluster sn)).
Proof.
  intros e s sn Hst Hv Hah s' kept. subst s'.
  assert (Hb : true && (eidx (s_e1 sn) <=? applied (nd s)) = false) by (cbn; lia).
  destruct (ProofsCommit.load_dump_loaded e true s sn Hst Hb Hv) as [Hlog Happ]. fold kept in Hlog.
  split; [unfold load_dump_ok; rewrite Hst; lia|].
  revert Hlog Happ. unfold load_dump. rewrite Hst, Hb.
  destruct (self_ver (nd s) <? s_ver sn) eqn:E; [lia|].
  cbv zeta. cbn [nd upd log set]. fold (ProofsCommit.snap_kept sn (log (nd s))). fold kept.
  match goal with |- context [update_cluster ?l ?s4] => set (S0 := s4) end.
  match goal with |- context [update_cluster ?l S0] => set (NEW := l) end.
  assert (HS0 : hist (nd S0) = s_hist sn /\ enabled_ver (nd S0) = s_ver sn /\
                replay_idx (nd S0) = (if kept then replay_idx (nd s) else N.min (replay_idx (nd s)) (eidx (s_e1 sn))) /\
                commit (nd S0) = commit (nd s) /\ sr (nd S0) = sr (nd s) /\ exc S0 = exc s /\
                self_ver (nd S0) = self_ver (nd s) /\
                others (nd S0) = others (nd s) /\ self (nd S0) = self (nd s)).
  { subst S0. destruct kept eqn:Ek.
    - destruct (ProofsCommit.snap_kept_split sn _ Ek) as (pre & a & b & r & _ & Hd & Ha & Hb2).
      cbn [nd upd log set]. rewrite Hd, Ha, Hb2. unfold upd. cbn. repeat split; auto.
    - cbn [nd upd log set]. rewrite (ProofsCommit.snap_not_kept_head sn _ Ek). unfold upd. cbn. repeat split; auto. }
  destruct HS0 as (A1 & A2 & A5 & A6 & A7 & A8 & A8' & A9 & A10).
  assert (HNEW : NEW = filter (fun x => negb (self_is x (nd s))) (s_cluster sn)).
  { subst NEW. apply filter_ext. intros x. cbv beta.
    match goal with |- negb (self_is x ?nx) = _ => assert (Ex : self nx = self (nd s)) end.
    { repeat (match goal with |- context [if ?b then _ else _] => destruct b end; cbn [nd upd self set]);
        reflexivity. }
    unfold self_is. now rewrite Ex. }
  clearbody S0 NEW.
  destruct (dyn (cf e)) eqn:Ed.
  - destruct (update_cluster_frame NEW S0) as (Hf & Ho & Hx & _).
    unfold same_app in Hf. destruct Hf as (B1 & B2 & B3 & B4 & B5 & B6 & B7 & B8 & B9 & B10).
    cbn [andb]. destruct kept eqn:Ek.
    + intros Hlog Happ.
      rewrite (ProofsCommitBase.fr_apply_membership hist), (ProofsCommitBase.fr_apply_membership enabled_ver),
        (ProofsCommitBase.fr_apply_membership replay_idx), (ProofsCommitBase.fr_apply_membership commit),
        (ProofsCommitBase.fr_apply_membership sr), (ProofsCommitBase.fr_apply_membership self_ver)
        by (intros; reflexivity).
      rewrite exc_apply_membership.
      repeat split; try congruence; try discriminate.
    + intros Hlog Happ. repeat split; try congruence; try discriminate.
  - intros Hlog Happ. repeat split; try congruence; try discriminate.
Qed.

(* frame facts needed for the append_entries handler *)
Lemma fire_nd : forall c r er s, nd (fire c r er s) = nd s /\ exc (fire c r er s) = exc s /\
  forall d m, In (Send d m) (outs (fire c r er s)) -> In (Send d m) (outs s).
Proof.
  intros. unfold fire, emit. destruct c; cbn; repeat split; auto.
  intros d m H. apply in_app_or in H. destruct H as [H|[H|[]]]; auto. discriminate.
Qed.

Definition no_new_send (s s' : S) : Prop := forall d m, In (Send d m) (outs s') -> In (Send d m) (outs s).

Lemma on_leader_changed_frame : forall s,
  same_app (nd s) (nd (on_leader_changed s)) /\ exc (on_leader_changed s) = exc s /\
  no_new_send s (on_leader_changed s) /\ term (nd (on_leader_changed s)) = term (nd s) /\
  tnow (on_leader_changed s) = tnow s.
Proof.
  intros s. unfold on_leader_changed.
  set (s1 := fold_left _ _ s).
  assert (H : nd s1 = nd s /\ exc s1 = exc s /\ no_new_send s s1 /\ tnow s1 = tnow s).
  { subst s1. apply fold_left_keeps.
    - intros a b (Ha & Hb & Hc & Hd). destruct (fire_nd (snd b) 0 LEADER_CHANGED a) as (F1 & F2 & F3).
      repeat split; try congruence.
      + intros d m Hin. apply Hc. apply F3. exact Hin.
      + rewrite <- Hd. unfold fire, emit. destruct (snd b); reflexivity.
    - repeat split; auto. intros d m Hin; exact Hin. }
  destruct H as (H1 & H2 & H3 & H4). unfold upd; cbn. rewrite H1.
  repeat split; auto.
Qed.

Lemma set_role_frame : forall r s,
  same_app (nd s) (nd (set_role r s)) /\ exc (set_role r s) = exc s /\ no_new_send s (set_role r s) /\
  term (nd (set_role r s)) = term (nd s) /\ tnow (set_role r s) = tnow s.
Proof.
  intros r s. unfold set_role, upd, emit. destruct (role (nd s) =? r); cbn; repeat split; auto.
  - intros d m H; exact H.
  - intros d m H. apply in_app_or in H. destruct H as [H|[H|[]]]; auto. discriminate.
Qed.

(* ---- the append_entries handler, snapshot branch ---- *)
Definition ae_header (e : env) (from : nid) (t c : N) (s : S) : S :=
  let s := upd (fun n => n <| deadline := (tnow s + gen_timeout e)%Z |>) s in
  let s := if opt_eqb (leader (nd s)) (Some from) then s else on_leader_changed s in
  let s := upd (fun n => n <| leader := Some from |>) s in
  let s := if term (nd s) <? t then upd (fun n => n <| term := t |> <| voted := None |>) s else s in
  let s := set_role FOLLOWER s in
  upd (fun n => n <| leader_commit := Some c |>) s.

Lemma on_append_entries_snap_unfold : forall e from t c p s,
  on_append_entries e from (AESnap t c p) t c s =
  if t <? term (nd s) then s
  else let (s2, done) := set_transmission p (ae_header e from t c s) in
       if done && load_dump_ok s2 then
         let s3 := load_dump e true s2 in
         let v := applied (nd s3) in
         ae_commit c (Some v) (send_next_idx from (Some (v + 1)) false true s3)
       else if done then ae_commit c None (load_dump e true s2)
       else ae_commit c None s2.
Proof. reflexivity. Qed.

Lemma on_append_entries_ae_unfold : forall e from t c prev es s,
  on_append_entries e from (AE t c prev es) t c s =
  if t <? term (nd s) then s else ae_regular e from c prev es (ae_header e from t c s).
Proof. reflexivity. Qed.

Lemma no_new_send_refl : forall s, no_new_send s s.
Proof. intros s d m H; exact H. Qed.

Lemma no_new_send_trans : forall a b c, no_new_send a b -> no_new_send b c -> no_new_send a c.
Proof. intros a b c H1 H2 d m H. apply H1, H2, H. Qed.

Lemma fire_tconn : forall c r er s, tconn (nd (fire c r er s)) = tconn (nd s).
Proof. intros. unfold fire, emit. destruct c; reflexivity. Qed.

Lemma ae_header_frame : forall e from t c s,
  same_app (nd s) (nd (ae_header e from t c s)) /\ exc (ae_header e from t c s) = exc s /\
  no_new_send s (ae_header e from t c s) /\ tnow (ae_header e from t c s) = tnow s /\
  term (nd (ae_header e from t c s)) = N.max (term (nd s)) t /\
  role (nd (ae_header e from t c s)) = FOLLOWER /\
  tconn (nd (ae_header e from t c s)) = tconn (nd s).
Proof.
  intros e from t c s. unfold ae_header.
  set (s1 := upd _ s).
  assert (H1 : same_app (nd s) (nd s1) /\ exc s1 = exc s /\ no_new_send s s1 /\ tnow s1 = tnow s /\
               term (nd s1) = term (nd s) /\ tconn (nd s1) = tconn (nd s)).
  { subst s1. unfold upd, same_app. cbn. repeat split; auto. intros d m Hin; exact Hin. }
  set (s2 := if opt_eqb (leader (nd s1)) (Some from) then s1 else on_leader_changed s1).
  assert (H2 : same_app (nd s) (nd s2) /\ exc s2 = exc s /\ no_new_send s s2 /\ tnow s2 = tnow s /\
               term (nd s2) = term (nd s) /\ tconn (nd s2) = tconn (nd s)).
  { subst s2. destruct (opt_eqb _ _); auto.
    destruct H1 as (A & B & C & D & E & F).
    destruct (on_leader_changed_frame s1) as (A' & B' & C' & D' & E').
    split; [eapply (same_app_trans _ (nd s1)); eauto|].
    split; [congruence|].
    split; [eapply (no_new_send_trans _ s1); eauto|].
    split; [congruence|]. split; [congruence|].
    + unfold on_leader_changed, upd. cbn.
      match goal with |- tconn (nd (fold_left ?f ?l s1)) = _ => set (s0 := fold_left f l s1) end.
      assert (Hk : tconn (nd s0) = tconn (nd s1)).
      { subst s0. apply fold_left_keeps; auto. intros a b Ha. rewrite <- Ha. apply fire_tconn. }
      rewrite Hk. auto. }
  clearbody s2. clear H1 s1.
  set (s3 := upd (fun n => n <| leader := Some from |>) s2).
  set (s4 := if term (nd s3) <? t then upd (fun n => n <| term := t |> <| voted := None |>) s3 else s3).
  assert (H4 : same_app (nd s) (nd s4) /\ exc s4 = exc s /\ no_new_send s s4 /\ tnow s4 = tnow s /\
               term (nd s4) = N.max (term (nd s)) t /\ tconn (nd s4) = tconn (nd s)).
  { destruct H2 as (A & B & C & D & E & F).
    subst s4 s3. unfold upd, same_app in *. cbn.
    destruct (term (nd s2) <? t) eqn:Et; cbn; intuition; lia. }
  clearbody s4. clear H2 s3 s2.
  destruct H4 as (A & B & C & D & E & F).
  destruct (set_role_frame FOLLOWER s4) as (A' & B' & C' & D' & E').
  unfold upd. cbn.
  split; [unfold same_app in *; cbn; intuition congruence|].
  split; [congruence|].
  split; [eapply (no_new_send_trans _ s4); eauto|].
  split; [congruence|]. split; [congruence|].
  split.
  - unfold set_role, upd, emit. destruct (role (nd s4) =? FOLLOWER) eqn:Er; cbn; auto; lia.
  - rewrite <- F. unfold set_role, upd, emit. destruct (role (nd s4) =? FOLLOWER); reflexivity.
Qed.

Lemma set_transmission_frame : forall p s,
  let s' := fst (set_transmission p s) in
  hist (nd s') = hist (nd s) /\ enabled_ver (nd s') = enabled_ver (nd s) /\
  applied (nd s') = applied (nd s) /\ log (nd s') = log (nd s) /\ commit (nd s') = commit (nd s) /\
  self_ver (nd s') = self_ver (nd s) /\ exc s' = exc s /\ outs s' = outs s /\
  term (nd s') = term (nd s) /\ tconn (nd s') = tconn (nd s).
Proof.
  intros p s. unfold set_transmission. destruct p as [|b off len first last]; cbn.
  - repeat split; auto.
  - destruct (if first then Some [] else incoming (sr (nd s))); cbn.
    + destruct last; [destruct (snap_ahead _ _)|]; unfold upd; cbn; repeat split; auto.
    + repeat split; auto.
Qed.

(* a transfer is complete ("done") when its last piece arrives and the assembled file is a snapshot
   ahead of the node's position *)
Lemma set_transmission_done : forall p s,
  snd (set_transmission p s) =
  match p with
  | SData b off len first true =>
    match (if first then Some [] else incoming (sr (nd s))) with
    | Some ps => snap_ahead (assemble_snap (ps ++ [(b, off, len)])) (applied (nd s))
    | None => false
    end
  | _ => false
  end.
Proof.
  intros p s. unfold set_transmission. destruct p as [|b off len first last]; auto.
  destruct (if first then Some [] else incoming (sr (nd s))) as [ps|]; cbn.
  - destruct last; [destruct (snap_ahead _ _)|]; reflexivity.
  - destruct last; reflexivity.
Qed.

Lemma send_frame : forall d m s, nd (send d m s) = nd s /\ exc (send d m s) = exc s /\ tnow (send d m s) = tnow s.
Proof. intros. unfold send, emit. destruct (smem _ _); cbn; auto. Qed.

Lemma send_outs : forall d m s,
  outs (send d m s) = if smem d (tconn (nd s)) then outs s ++ [Send d m] else outs s.
Proof. intros. unfold send, emit. destruct (smem _ _); reflexivity. Qed.

Lemma load_dump_not_ok_frame : forall e s,
  load_dump_ok s = false ->
  let s' := load_dump e true s in
  commit (nd s') = commit (nd s) /\ log (nd s') = log (nd s) /\ hist (nd s') = hist (nd s) /\
  applied (nd s') = applied (nd s) /\ enabled_ver (nd s') = enabled_ver (nd s) /\
  outs s' = outs s /\ exc s' = exc s.
Proof.
  intros e s H. cbv zeta. destruct (snap_behind s) eqn:Eb.
  - rewrite (load_dump_behind e s Eb). unfold upd. cbn. repeat split; auto.
  - rewrite (load_dump_fail e true s H Eb). repeat split; auto.
Qed.

Lemma set_transmission_ok_ext : forall p s1 s,
  sr (nd s1) = sr (nd s) -> applied (nd s1) = applied (nd s) -> self_ver (nd s1) = self_ver (nd s) ->
  load_dump_ok (fst (set_transmission p s1)) = load_dump_ok (fst (set_transmission p s)).
Proof.
  intros p s1 s H1 H2 H3. unfold set_transmission, load_dump_ok. destruct p as [|b off len first last]; cbn.
  - now rewrite H1, H2, H3.
  - rewrite H1. destruct (if first then Some [] else incoming (sr (nd s))); cbn; [|now rewrite H1, H2, H3].
    rewrite H2. destruct last; [destruct (snap_ahead _ _)|]; unfold upd; cbn; now rewrite ?H1, ?H2, H3.
Qed.

(* C09_load_restores, failure part: a transfer that is incomplete, or that completes a dump which
   cannot be loaded (corrupt, newer code version, not ahead of the node's position) leaves commit,
   log and application state alone and sends nothing *)
Lemma aesnap_no_install : forall e from t c p s,
  let s' := on_append_entries e from (AESnap t c p) t c s in
  load_dump_ok (fst (set_transmission p s)) = false \/ snd (set_transmission p s) = false ->
  commit (nd s') = commit (nd s) /\ log (nd s') = log (nd s) /\ hist (nd s') = hist (nd s) /\
  applied (nd s') = applied (nd s) /\ enabled_ver (nd s') = enabled_ver (nd s) /\
  no_new_send s s' /\ exc s' = exc s.
Proof.
  intros e from t c p s s' H. subst s'. revert H. rewrite on_append_entries_snap_unfold.
  destruct (t <? term (nd s)) eqn:Et.
  { intros _. repeat split; auto. apply no_new_send_refl. }
  destruct (ae_header_frame e from t c s) as (A & B & C & D & E & F & G).
  set (s1 := ae_header e from t c s) in *.
  pose proof (set_transmission_frame p s1) as Hf. cbn zeta in Hf.
  pose proof (set_transmission_done p s1) as Hd.
  pose proof (set_transmission_done p s) as Hd0.
  unfold same_app in A. destruct A as (A1 & A2 & A3 & A4 & A5 & A6 & A7 & A8 & A9 & A10).
  assert (Hinc : incoming (sr (nd s1)) = incoming (sr (nd s))) by now rewrite A6.
  rewrite Hinc, A3, <- Hd0 in Hd. clear Hd0 Hinc.
  pose proof (set_transmission_ok_ext p s1 s A6 A3 A8) as Hok.
  destruct (set_transmission p s1) as [s2 done]. cbn [fst snd] in *.
  destruct Hf as (F1 & F2 & F3 & F4 & F5 & F6 & F7 & F8 & F9 & F10).
  destruct (done && load_dump_ok s2) eqn:Ed.
  - intros H. exfalso. apply andb_true_iff in Ed. destruct Ed as [Ed1 Ed2].
    destruct H as [H|H]; congruence.
  - intros H.
    assert (Hns : no_new_send s s2) by (intros d m Hin; apply C; rewrite <- F8; exact Hin).
    destruct done.
    + cbn in Ed. destruct (load_dump_not_ok_frame e s2 Ed) as (L1 & L2 & L3 & L4 & L5 & L6 & L7).
      unfold ae_commit, upd. cbn. repeat split; try congruence.
      intros d m Hin. apply Hns. rewrite <- L6. exact Hin.
    + unfold ae_commit, upd. cbn. repeat split; try congruence. exact Hns.
Qed.

Lemma update_cluster_term : forall new s, term (nd (update_cluster new s)) = term (nd s).
Proof.
  intros new s. unfold update_cluster. cbv zeta.
  match goal with |- context [upd (fun n => n <| others := new |>) ?x] => set (s1 := x) end.
  assert (H1 : term (nd s1) = term (nd s)).
  { subst s1. apply fold_left_keeps; auto. }
  set (s2 := upd (fun n => n <| others := new |>) s1).
  match goal with |- context [fold_left ?f ?l s2] => set (F := f); set (L := l) end.
  assert (H2 : term (nd (fold_left F L s2)) = term (nd s2)).
  { apply fold_left_keeps; auto. }
  rewrite H2. exact H1.
Qed.

Lemma load_dump_tconn_term : forall e s,
  term (nd (load_dump e true s)) = term (nd s) /\
  forall x, smem x (tconn (nd s)) = true -> dyn (cf e) = false ->
            smem x (tconn (nd (load_dump e true s))) = true.
Proof.
  intros e s. split; [apply (ProofsCommitBase.fr_load_dump term); intros; reflexivity|].
  intros x Hx Hd. unfold load_dump.
  destruct (stored (sr (nd s))) as [[sn|]|]; auto.
  destruct (true && _); [exact Hx|].
  destruct (self_ver (nd s) <? s_ver sn); auto. cbv zeta. rewrite Hd.
  repeat (match goal with |- context [if ?b then _ else _] => destruct b end; cbn [nd upd tconn set]); exact Hx.
Qed.

Lemma load_dump_not_ok_sr : forall e s,
  load_dump_ok s = false ->
  sr (nd (load_dump e true s)) = sr (nd s) /\ applied (nd (load_dump e true s)) = applied (nd s) /\
  self_ver (nd (load_dump e true s)) = self_ver (nd s).
Proof.
  intros e s H. destruct (snap_behind s) eqn:Eb.
  - rewrite (load_dump_behind e s Eb). unfold upd. cbn. auto.
  - rewrite (load_dump_fail e true s H Eb). auto.
Qed.

(* C09_load_restores, success part, as seen by the handler *)
Lemma aesnap_install : forall e from t c p s sn,
  term (nd s) <= t ->
  snd (set_transmission p s) = true ->
  let s' := on_append_entries e from (AESnap t c p) t c s in
  stored (sr (nd s')) = Some (Good sn) -> s_ver sn <= self_ver (nd s) ->
  applied (nd s) < eidx (s_e1 sn) ->
  hist (nd s') = s_hist sn /\ enabled_ver (nd s') = s_ver sn /\ applied (nd s') = eidx (s_e1 sn) /\
  log (nd s') = (if ProofsCommit.snap_kept sn (log (nd s))
                 then delete_to (log (nd s)) (eidx (s_e0 sn)) else [s_e0 sn; s_e1 sn]) /\
  commit (nd s') = (if commit (nd s) <? c then N.max (commit (nd s)) (N.min c (eidx (s_e1 sn))) else commit (nd s)) /\
  (smem from (tconn (nd s)) = true -> dyn (cf e) = false ->
   In (Send from (NextIdx t (eidx (s_e1 sn) + 1) false true)) (outs s')).
Proof.
  intros e from t c p s sn Ht Hdone s'. subst s'. rewrite on_append_entries_snap_unfold.
  destruct (t <? term (nd s)) eqn:Et; [lia|].
  destruct (ae_header_frame e from t c s) as (A & B & C & D & E & F & G).
  set (s1 := ae_header e from t c s) in *.
  pose proof (set_transmission_frame p s1) as Hf. cbn zeta in Hf.
  pose proof (set_transmission_done p s1) as Hd.
  pose proof (set_transmission_done p s) as Hd0.
  assert (Hinc : incoming (sr (nd s1)) = incoming (sr (nd s))).
  { unfold same_app in A. destruct A as (_ & _ & _ & _ & _ & A & _). rewrite A. auto. }
  assert (Happ : applied (nd s1) = applied (nd s)).
  { unfold same_app in A. destruct A as (_ & _ & A & _). exact A. }
  rewrite Hinc, Happ, <- Hd0, Hdone in Hd. clear Hd0 Hinc Happ.
  destruct (set_transmission p s1) as [s2 done]. cbn [fst snd] in *. subst done.
  destruct Hf as (F1 & F2 & F3 & F4 & F5 & F6 & F7 & F8 & F9 & F10).
  unfold same_app in A. destruct A as (A1 & A2 & A3 & A4 & A5 & A6 & A7 & A8 & A9 & A10).
  cbn [andb].
  destruct (load_dump_ok s2) eqn:Eok.
  - unfold load_dump_ok in Eok.
    destruct (stored (sr (nd s2))) as [[sn2|]|] eqn:Est; try discriminate.
    assert (Hv : s_ver sn2 <= self_ver (nd s2)) by lia.
    assert (Hah2 : applied (nd s2) < eidx (s_e1 sn2)) by lia.
    destruct (load_restores e s2 sn2 Est Hv Hah2) as (_ & L1 & L2 & L3 & L4 & L5 & L6 & L7 & L8 & L9 & _).
    destruct (load_dump_tconn_term e s2) as (T1 & T2).
    set (s3 := load_dump e true s2) in *. cbv zeta.
    unfold send_next_idx.
    match goal with |- context [send from ?m s3] => set (M := m) end.
    destruct (send_frame from M s3) as (S1 & S2 & S3).
    pose proof (send_outs from M s3) as So.
    unfold ae_commit, upd. cbn. rewrite S1.
    intros Hst Hsv Hah.
    assert (Hsn : sn2 = sn).
    { destruct (commit (nd s3) <? c); cbn in Hst; rewrite ?S1, L7, Est in Hst; congruence. }
    subst sn2.
    assert (HM : M = NextIdx t (eidx (s_e1 sn) + 1) false true).
    { subst M. rewrite L3, T1, F9, E. f_equal. lia. }
    rewrite L3, L6, F5, A5. rewrite F4, A4 in L4.
    assert (Hsend : smem from (tconn (nd s)) = true -> dyn (cf e) = false ->
                    In (Send from (NextIdx t (eidx (s_e1 sn) + 1) false true)) (outs (send from M s3))).
    { intros Hc Hdyn. rewrite So, T2, HM; auto; [|congruence]. apply in_or_app. right. left. reflexivity. }
    destruct (commit (nd s) <? c) eqn:Ec; cbn; rewrite ?S1; repeat split; auto; try congruence.
  - intros Hst Hsv Hah. exfalso. unfold ae_commit, upd in Hst. cbn in Hst.
    destruct (load_dump_not_ok_sr e s2 Eok) as (N1 & _). rewrite N1 in Hst.
    unfold load_dump_ok in Eok. rewrite Hst in Eok. lia.
Qed.
