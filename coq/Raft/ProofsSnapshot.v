(* C09: capture point of a snapshot, trimming keeps the snapshot's two entries, loading a
   dump, cancel on disconnect, catch-up index after the last piece. *)
From Coq Require Import ZArith NArith List Bool Lia ZifyBool ZifyN.
From RecordUpdate Require Import RecordSet.
From PSO Require Import Raft.Types Raft.Node Raft.Net Raft.Obs Raft.ProofsSnapshotBase.
Import ListNotations.
Import RecordSetNotations.
Open Scope N_scope.

(* ================= capture point ================= *)
Definition cluster_of (n : node) : list nid :=
  match self n with Some i => sadd i (others n) | None => others n end.

(* The serializing branch of try_compact is the only one that leaves pid = 1.  The stored
   snapshot is built from the node state at the start of the call. *)
Lemma capture_point : forall e s,
  pid (sr (nd (try_compact e s))) = 1 ->
  pid (sr (nd s)) = 0 /\
  exists sn pre post,
    s_hist sn = hist (nd s) /\ s_ver sn = enabled_ver (nd s) /\
    s_cluster sn = cluster_of (nd s) /\ s_len sn = snaplen e /\
    log (nd s) = pre ++ s_e0 sn :: s_e1 sn :: post /\
    N.of_nat (length pre) = applied (nd s) - 1 - first_idx (log (nd s)) /\
    first_idx (log (nd s)) <= applied (nd s) - 1 /\
    nd (try_compact e s) =
      (nd s) <| force_compact := false |>
             <| sr := (sr (nd s)) <| cur_id := eidx (s_e0 sn) |> <| stored := Some (Good sn) |> <| pid := 1 |> |> /\
    outs (try_compact e s) = outs s /\ exc (try_compact e s) = exc s.
Proof.
  intros e s. unfold try_compact.
  destruct (pid (sr (nd s)) =? 0) eqn:E0.
  2:{ cbn [negb]. destruct (pid (sr (nd s)) =? 1); unfold upd; cbn; intros H; discriminate. }
  assert (E1 : (pid (sr (nd s)) =? 1) = false) by lia.
  rewrite E1. cbn [negb].
  apply N.eqb_eq in E0.
  destruct (_ && _ && _).
  { intros H. rewrite H in E0. discriminate. }
  destruct (get_entries (log (nd s)) (Some (applied (nd s) - 1)) (Some 2) None) as [|e0 [|e1 tl]] eqn:Eg.
  1,2: unfold upd; cbn; intros H; rewrite H in E0; discriminate.
  destruct (opt_eqb _ _).
  { unfold upd; cbn; intros H; rewrite H in E0; discriminate. }
  intros _. split; auto.
  apply get_entries_two_split in Eg. destruct Eg as (_ & pre & post & Hl & Hlen & Hf).
  exists (mkSnap (hist (nd s)) (enabled_ver (nd s)) e1 e0 (cluster_of (nd s)) (snaplen e)), pre, post.
  cbn. repeat split; auto.
Qed.

Lemma capture_point_indices : forall e s,
  pid (sr (nd (try_compact e s))) = 1 -> log_wf (log (nd s)) -> 1 <= applied (nd s) ->
  exists sn, stored (sr (nd (try_compact e s))) = Some (Good sn) /\
    cur_id (sr (nd (try_compact e s))) = applied (nd s) - 1 /\
    eidx (s_e0 sn) = applied (nd s) - 1 /\ eidx (s_e1 sn) = applied (nd s) /\
    In (s_e0 sn) (log (nd s)) /\ In (s_e1 sn) (log (nd s)) /\
    s_hist sn = hist (nd s) /\ s_ver sn = enabled_ver (nd s) /\ s_cluster sn = cluster_of (nd s).
Proof.
  intros e s H Hwf Ha.
  destruct (capture_point e s H) as (_ & sn & pre & post & Hh & Hv & Hc & _ & Hl & Hlen & Hf & Hn & _).
  exists sn. rewrite Hn. cbn.
  rewrite Hl in Hwf. pose proof (wf_two_indices _ _ _ _ Hwf) as [H0 H1]. rewrite <- Hl in H0.
  assert (eidx (s_e0 sn) = applied (nd s) - 1) by lia.
  repeat split; auto; try lia.
  - rewrite Hl. apply in_or_app. right. left. auto.
  - rewrite Hl. apply in_or_app. right. right. left. auto.
Qed.

(* when do the two entries exist *)
Lemma capture_entries_exist : forall l a, log_wf l -> l <> [] -> 1 <= a ->
  ((exists e0 e1, get_entries l (Some (a - 1)) (Some 2) None = [e0; e1]) <->
   first_idx l <= a - 1 /\ a <= last_idx l).
Proof.
  intros l a Hwf Hne Ha. pose proof (consec_last_idx _ _ Hwf Hne) as Hlast.
  unfold get_entries. change (N.to_nat 2) with 2%nat.
  destruct (a - 1 <? first_idx l) eqn:E.
  - split; [intros (e0 & e1 & H); discriminate | lia].
  - remember (N.to_nat (a - 1 - first_idx l)) as k.
    pose proof (skipn_length k l) as Hsl.
    destruct (skipn k l) as [|x [|y r]] eqn:Es; cbn [firstn length] in *.
    + split; [intros (e0 & e1 & H); discriminate | lia].
    + split; [intros (e0 & e1 & H); discriminate | lia].
    + split; [lia | intros _; eauto].
Qed.

(* ================= the next try_compact trims to the snapshot's entries ================= *)
Lemma compaction_trims : forall e s pre e0 e1 post,
  pid (sr (nd s)) = 1 -> cur_id (sr (nd s)) = eidx e0 ->
  log (nd s) = pre ++ e0 :: e1 :: post -> log_wf (log (nd s)) ->
  log (nd (try_compact e s)) = e0 :: e1 :: post /\
  pid (sr (nd (try_compact e s))) = 0 /\ trans (sr (nd (try_compact e s))) = [] /\
  stored (sr (nd (try_compact e s))) = stored (sr (nd s)) /\
  last_ser_entry (nd (try_compact e s)) = Some (eidx e0) /\
  hist (nd (try_compact e s)) = hist (nd s) /\ applied (nd (try_compact e s)) = applied (nd s) /\
  commit (nd (try_compact e s)) = commit (nd s) /\ exc (try_compact e s) = exc s.
Proof.
  intros e s pre e0 e1 post Hp Hc Hl Hwf. unfold try_compact. rewrite Hp. cbn.
  rewrite Hc, Hl. rewrite Hl in Hwf.
  change (eidx e0) with (first_idx (e0 :: e1 :: post)) at 1.
  rewrite delete_to_split by (auto; congruence). repeat split; auto.
Qed.

(* capture, then appends only, then the next try_compact: the log starts with the two
   snapshot entries followed by what followed them and by what was appended meanwhile *)
Lemma compaction_keeps_snapshot_entries : forall e s e' s2 added,
  pid (sr (nd (try_compact e s))) = 1 ->
  sr (nd s2) = sr (nd (try_compact e s)) ->
  log (nd s2) = log (nd s) ++ added -> log_wf (log (nd s2)) ->
  exists sn pre post,
    stored (sr (nd s2)) = Some (Good sn) /\
    log (nd s) = pre ++ s_e0 sn :: s_e1 sn :: post /\
    log (nd (try_compact e' s2)) = s_e0 sn :: s_e1 sn :: post ++ added /\
    stored (sr (nd (try_compact e' s2))) = Some (Good sn) /\
    (2 <= length (log (nd (try_compact e' s2))))%nat.
Proof.
  intros e s e' s2 added H Hsr Hl Hwf.
  destruct (capture_point e s H) as (_ & sn & pre & post & _ & _ & _ & _ & Hls & _ & _ & Hn & _).
  exists sn, pre, post.
  assert (Hst : stored (sr (nd s2)) = Some (Good sn)) by (rewrite Hsr, Hn; reflexivity).
  assert (Hp : pid (sr (nd s2)) = 1) by (rewrite Hsr, Hn; reflexivity).
  assert (Hc : cur_id (sr (nd s2)) = eidx (s_e0 sn)) by (rewrite Hsr, Hn; reflexivity).
  assert (Hl2 : log (nd s2) = pre ++ s_e0 sn :: s_e1 sn :: (post ++ added)).
  { rewrite Hl, Hls, <- app_assoc. reflexivity. }
  destruct (compaction_trims e' s2 _ _ _ _ Hp Hc Hl2 Hwf) as (H1 & _ & _ & H4 & _).
  repeat split; auto.
  - rewrite H4. auto.
  - rewrite H1. cbn. lia.
Qed.

(* ================= loading a dump ================= *)
Definition same_app (n n' : node) : Prop :=
  hist n' = hist n /\ enabled_ver n' = enabled_ver n /\ applied n' = applied n /\ log n' = log n /\
  commit n' = commit n /\ sr n' = sr n /\ self n' = self n /\ self_ver n' = self_ver n /\
  meta_commit n' = meta_commit n /\ replay_idx n' = replay_idx n.

Lemma same_app_refl : forall n, same_app n n.
Proof. intros; unfold same_app; repeat split; auto. Qed.

Lemma same_app_trans : forall a b c, same_app a b -> same_app b c -> same_app a c.
Proof. unfold same_app; intros a b c H1 H2; intuition congruence. Qed.

Lemma update_cluster_frame : forall new s,
  same_app (nd s) (nd (update_cluster new s)) /\ others (nd (update_cluster new s)) = new /\
  exc (update_cluster new s) = exc s /\ tnow (update_cluster new s) = tnow s.
Proof.
  intros new s. unfold update_cluster.
  set (s1 := fold_left _ (filter _ (others (nd s))) s).
  assert (H1 : same_app (nd s) (nd s1) /\ exc s1 = exc s /\ tnow s1 = tnow s).
  { subst s1. apply fold_left_keeps.
    - intros a b (Ha & Hb & Hc). unfold upd, emit, same_app in *; cbn. intuition.
    - split; [apply same_app_refl | auto]. }
  set (s2 := upd (fun n => n <| others := new |>) s1).
  match goal with |- context [fold_left ?f ?l s2] => set (F := f); set (L := l) end.
  assert (H2 : same_app (nd s) (nd (fold_left F L s2)) /\ others (nd (fold_left F L s2)) = new /\
               exc (fold_left F L s2) = exc s /\ tnow (fold_left F L s2) = tnow s).
  { apply fold_left_keeps.
    - intros a b (Ha & Hb & Hc & Hd). subst F. unfold upd, emit, same_app in *; cbn. intuition.
    - subst s2. unfold upd, same_app in *; cbn. intuition. }
  exact H2.
Qed.

Lemma load_dump_fail : forall e clear s, load_dump_ok s = false -> load_dump e clear s = s.
Proof.
  intros e clear s H. unfold load_dump, load_dump_ok in *.
  destruct (stored (sr (nd s))) as [[sn|]|]; auto.
  destruct (self_ver (nd s) <? s_ver sn) eqn:E; auto. lia.
Qed.

Lemma load_dump_ok_cases : forall s, load_dump_ok s = false <->
  (stored (sr (nd s)) = None \/ (exists l, stored (sr (nd s)) = Some (Corrupt l)) \/
   exists sn, stored (sr (nd s)) = Some (Good sn) /\ self_ver (nd s) < s_ver sn).
Proof.
  intros s. unfold load_dump_ok. destruct (stored (sr (nd s))) as [[sn|l]|].
  - split.
    + intros H. right. right. exists sn. split; auto. lia.
    + intros [H|[[l H]|[sn' [H1 H2]]]]; try discriminate. inversion H1; subst. lia.
  - split; auto. intros _. right. left. eauto.
  - split; auto.
Qed.

Lemma load_restores : forall e s sn,
  stored (sr (nd s)) = Some (Good sn) -> s_ver sn <= self_ver (nd s) ->
  let s' := load_dump e true s in
  load_dump_ok s = true /\
  hist (nd s') = s_hist sn /\ enabled_ver (nd s') = s_ver sn /\ applied (nd s') = eidx (s_e1 sn) /\
  log (nd s') = [s_e0 sn; s_e1 sn] /\
  replay_idx (nd s') = N.min (replay_idx (nd s)) (eidx (s_e1 sn)) /\
  commit (nd s') = commit (nd s) /\ sr (nd s') = sr (nd s) /\ exc s' = exc s /\
  others (nd s') = (if dyn (cf e)
                    then filter (fun x => negb (self_is x (nd s))) (s_cluster sn) else others (nd s)).
Proof.
  intros e s sn Hst Hv s'. subst s'. unfold load_dump, load_dump_ok. rewrite Hst.
  destruct (self_ver (nd s) <? s_ver sn) eqn:E; [lia|].
  split; [lia|]. cbn [orb].
  match goal with |- context [if dyn (cf e) then update_cluster ?new ?s0 else _] =>
    set (S0 := s0); set (NEW := new) end.
  assert (HS0 : hist (nd S0) = s_hist sn /\ enabled_ver (nd S0) = s_ver sn /\
                applied (nd S0) = eidx (s_e1 sn) /\ log (nd S0) = [s_e0 sn; s_e1 sn] /\
                replay_idx (nd S0) = N.min (replay_idx (nd s)) (eidx (s_e1 sn)) /\
                commit (nd S0) = commit (nd s) /\ sr (nd S0) = sr (nd s) /\ exc S0 = exc s /\
                others (nd S0) = others (nd s) /\ self (nd S0) = self (nd s)).
  { subst S0. unfold upd. cbn. repeat split; auto. }
  destruct HS0 as (A1 & A2 & A3 & A4 & A5 & A6 & A7 & A8 & A9 & A10).
  destruct (dyn (cf e)).
  - destruct (update_cluster_frame NEW S0) as (Hf & Ho & Hx & _).
    unfold same_app in Hf. destruct Hf as (B1 & B2 & B3 & B4 & B5 & B6 & B7 & B8 & B9 & B10).
    repeat split; try congruence.
    rewrite Ho. subst NEW. apply filter_ext. intros x. unfold self_is. rewrite A10. reflexivity.
  - repeat split; auto.
Qed.

(* frame facts needed for the append_entries handler *)
Lemma fire_nd : forall c r er s, nd (fire c r er s) = nd s /\ exc (fire c r er s) = exc s /\
  forall d m, In (Send d m) (outs (fire c r er s)) -> In (Send d m) (outs s).
Proof.
  intros. unfold fire, emit. destruct c; cbn; repeat split; auto.
  intros d m H. apply in_app_or in H. destruct H as [H|[H|[]]]; auto. discriminate.
Qed.

Definition no_new_send (s s' : S) : Prop := forall d m, In (Send d m) (outs s') -> In (Send d m) (outs s).

Lemma on_leader_changed_frame : forall s,
  same_app (nd s) (nd (on_leader_changed s)) /\ exc (on_leader_changed s) = exc s /\
  no_new_send s (on_leader_changed s) /\ term (nd (on_leader_changed s)) = term (nd s) /\
  tnow (on_leader_changed s) = tnow s.
Proof.
  intros s. unfold on_leader_changed.
  set (s1 := fold_left _ _ s).
  assert (H : nd s1 = nd s /\ exc s1 = exc s /\ no_new_send s s1 /\ tnow s1 = tnow s).
  { subst s1. apply fold_left_keeps.
    - intros a b (Ha & Hb & Hc & Hd). destruct (fire_nd (snd b) 0 LEADER_CHANGED a) as (F1 & F2 & F3).
      repeat split; try congruence.
      + intros d m Hin. apply Hc. apply F3. exact Hin.
      + rewrite <- Hd. unfold fire, emit. destruct (snd b); reflexivity.
    - repeat split; auto. intros d m Hin; exact Hin. }
  destruct H as (H1 & H2 & H3 & H4). unfold upd; cbn. rewrite H1.
  repeat split; auto.
Qed.

Lemma set_role_frame : forall r s,
  same_app (nd s) (nd (set_role r s)) /\ exc (set_role r s) = exc s /\ no_new_send s (set_role r s) /\
  term (nd (set_role r s)) = term (nd s) /\ tnow (set_role r s) = tnow s.
Proof.
  intros r s. unfold set_role, upd, emit. destruct (role (nd s) =? r); cbn; repeat split; auto.
  - intros d m H; exact H.
  - intros d m H. apply in_app_or in H. destruct H as [H|[H|[]]]; auto. discriminate.
Qed.

(* the AESnap branch when nothing is installed: no reply, commit / log / state unchanged *)
Lemma aesnap_not_installed : forall e from t c p s,
  let s' := on_append_entries e from (AESnap t c p) t c s in
  load_dump_ok s' = false \/ snd (set_transmission p s') = false ->
  load_dump_ok s' = false \/ (match p with SData _ _ _ _ true => False | _ => True end) ->
  True.
Proof. auto. Qed.
