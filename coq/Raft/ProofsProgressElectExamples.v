(* C05, elections resolve, part 6: non-vacuity.  Concrete runs (by computation) that satisfy the
   hypotheses of the theorems: a three-voter cluster whose leader was killed and restarted, a
   five-voter cluster in which two voters are down, a single voter, and a split vote of two. *)
From Coq Require Import ZArith NArith List Bool Lia.
From RecordUpdate Require Import RecordSet.
From PSO Require Import Raft.Types Raft.Node Raft.Net Raft.Obs Raft.ProofsSnapshotBase Raft.ProofsCommitBase
  Raft.ProofsProgressElectBase Raft.ProofsProgressElectTick Raft.ProofsProgressElectVote
  Raft.ProofsProgressElectMain Raft.ProofsProgressElectSplit.
Import ListNotations.
Import RecordSetNotations.
Open Scope N_scope.

(* period tmin tspan fallback batch chunk use_batch dyn wait_leader min_entries min_time qsize noop_pk
   file_dump file_journal *)
Definition pe_conf : conf := mkConf 10 40 20 100 1000 100 true false true 1000 100000 10 5 false false.
Definition peT (z : Z) (n : N) : event := ETick n z 0 30 [] 9.
Definition peD (z : Z) (a b : N) : event := EDeliver a b z 0 [].

(* ---------- three voters; leader 1 is elected, replicates a command to 2 only, is killed and restarted ---------- *)
Definition pe3_pre : list event :=
  [ERestart 1 [2;3] 0 0 1; ERestart 2 [1;3] 0 0 1; ERestart 3 [1;2] 0 0 1;
   EConnect 1 2; EConnect 2 1; EConnect 1 3; EConnect 3 1; EConnect 2 3; EConnect 3 2;
   peT 5 2; peT 5 3;
   peT 50 1; peD 51 1 2; peD 51 1 3; peD 52 2 1; peD 52 3 1;
   peD 53 1 2; peD 53 1 3; peD 54 2 1; peD 54 3 1;
   ESubmit 1 (mkCmd 0 7 0 1 10) 11; peT 65 1; peD 66 1 2; peD 66 1 3; peD 67 2 1; peD 67 3 1;
   peT 76 1; peD 77 1 2; peD 78 2 1;
   EKill 1; EDrop 2 1; EDrop 3 1;
   ERestart 1 [2;3] 80 0 1; EConnect 1 2; EConnect 2 1; EConnect 1 3; EConnect 3 1; peT 85 1; peT 86 3].

Definition pe3_round1 : list event := [peD 131 2 1; peD 131 2 3].
Definition pe3_round2 : list event := [peD 132 1 2; peD 132 3 2].
Definition pe3_round3 : list event := [peD 133 2 1; peD 133 2 3].

Definition pe_view (g : gstate) :=
  map (fun p => (fst p, role (snd p), term (snd p), voted (snd p), leader (snd p),
                 map (fun en => (eidx en, eterm en)) (log (snd p)))) (nodes g).

(* the state before the election: 1 has lost everything, 2 holds one entry more than 3, nobody leads *)
Example pe3_before :
  option_map pe_view (run_trace pe_conf ginit pe3_pre) =
  Some [(1, FOLLOWER, 0, None, None, [(1, 0)]);
        (2, FOLLOWER, 1, Some 1, Some 1, [(1, 0); (2, 1); (3, 1)]);
        (3, FOLLOWER, 1, Some 1, Some 1, [(1, 0); (2, 1)])].
Proof. vm_compute. reflexivity. Qed.

(* the hypotheses of C05_election_resolves hold of it, for x = 2 and both other voters responding *)
Example pe3_quiet :
  exists g nx, run_trace pe_conf ginit pe3_pre = Some g /\ quiet_for pe_conf g 2 nx [1; 3] /\
               (deadline nx < 130)%Z /\ 0 < noop_pk pe_conf /\
               delivers_to 2 [1; 3] pe3_round1 /\ delivers_from 2 [1; 3] pe3_round2 /\
               delivers_to 2 [1; 3] pe3_round3.
Proof.
  eexists. eexists. split; [vm_compute; reflexivity|]. split; [|split; [|split; [|split; [|split]]]].
  - constructor.
    + vm_compute. reflexivity.
    + reflexivity.
    + left. reflexivity.
    + reflexivity.
    + unfold replay_done. vm_compute. discriminate.
    + left. reflexivity.
    + cbn. repeat constructor; cbn; intuition discriminate.
    + split; [repeat constructor; cbn; intuition discriminate|]. split.
      * intros y Hy. exact Hy.
      * cbn. intuition discriminate.
    + reflexivity.
    + split; [vm_compute; repeat split|discriminate].
    + intros H. vm_compute in H. discriminate.
    + intros y [<-|[<-|[]]]; (split; [reflexivity|]); (split; [reflexivity|]); (split; [reflexivity|]);
        (split; [reflexivity|]); eexists; (split; [vm_compute; reflexivity|]);
        (split; [discriminate|]); (split; [vm_compute; discriminate|]); (split; [|reflexivity]).
      * left. vm_compute. reflexivity.
      * right. vm_compute. split; [reflexivity|discriminate].
  - vm_compute. reflexivity.
  - vm_compute. reflexivity.
  - repeat constructor.
  - repeat constructor.
  - repeat constructor.
Qed.

(* the whole sequence runs: 2 is leader of term 2, 1 and 3 follow it and know it *)
Example pe3_after :
  option_map pe_view (run_trace pe_conf ginit (pe3_pre ++ peT 130 2 :: pe3_round1 ++ pe3_round2 ++ pe3_round3)) =
  Some [(1, FOLLOWER, 2, Some 2, Some 2, [(1, 0)]);
        (2, LEADER, 2, Some 2, Some 2, [(1, 0); (2, 1); (3, 1); (4, 2)]);
        (3, FOLLOWER, 2, Some 2, Some 2, [(1, 0); (2, 1)])].
Proof. vm_compute. reflexivity. Qed.

(* and the theorem says so *)
Example pe3_theorem_applies :
  exists g g' nx',
    run_trace pe_conf ginit pe3_pre = Some g /\
    run_trace pe_conf g (peT 130 2 :: pe3_round1 ++ pe3_round2 ++ pe3_round3) = Some g' /\
    aget 2 (nodes g') = Some nx' /\ role nx' = LEADER /\ term nx' = 2 /\ leader nx' = Some 2 /\
    forall y, In y [1; 3] ->
      exists ny', aget y (nodes g') = Some ny' /\ role ny' = FOLLOWER /\ term ny' = 2 /\ leader ny' = Some 2.
Proof.
  destruct pe3_quiet as (g & nx & R & Q & Hd & Hpk & D1 & D2 & D3).
  destruct (election_resolves_full pe_conf g 2 nx [1; 3] 130 0 30 [] 9 _ _ _ Q Hpk Hd D1 D2 D3)
    as (g' & nx' & R' & A1 & A2 & A3 & A4 & A5).
  assert (Et : term nx = 1).
  { pose proof Q as [q1 _ _ _ _ _ _ _ _ _ _ _]. revert q1 R. clear. intros q1 R.
    vm_compute in R. injection R as <-. vm_compute in q1. injection q1 as <-. reflexivity. }
  rewrite Et in *. exists g, g', nx'. auto 10.
Qed.

(* ---------- five voters, 4 and 5 are down: the two reachable ones complete the majority ---------- *)
Definition pe5_pre : list event :=
  [ERestart 1 [2;3;4;5] 0 0 1; ERestart 2 [1;3;4;5] 0 0 1; ERestart 3 [1;2;4;5] 0 0 1;
   EConnect 1 2; EConnect 2 1; EConnect 1 3; EConnect 3 1; EConnect 2 3; EConnect 3 2].
Definition pe5_round1 : list event := [peD 51 1 2; peD 51 1 3].
Definition pe5_round2 : list event := [peD 52 2 1; peD 52 3 1].
Definition pe5_round3 : list event := [peD 53 1 2; peD 53 1 3].

Example pe5_quiet :
  exists g nx, run_trace pe_conf ginit pe5_pre = Some g /\ quiet_for pe_conf g 1 nx [2; 3] /\
               (deadline nx < 50)%Z /\ 0 < noop_pk pe_conf /\
               delivers_to 1 [2; 3] pe5_round1 /\ delivers_from 1 [2; 3] pe5_round2 /\
               delivers_to 1 [2; 3] pe5_round3.
Proof.
  eexists. eexists. split; [vm_compute; reflexivity|]. split; [|split; [|split; [|split; [|split]]]].
  - constructor.
    + vm_compute. reflexivity.
    + reflexivity.
    + left. reflexivity.
    + reflexivity.
    + unfold replay_done. vm_compute. discriminate.
    + left. reflexivity.
    + cbn. repeat constructor; cbn; intuition discriminate.
    + split; [repeat constructor; cbn; intuition discriminate|]. split.
      * intros y [<-|[<-|[]]]; cbn; auto.
      * cbn. intuition discriminate.
    + reflexivity.
    + split; [vm_compute; repeat split|discriminate].
    + intros H. vm_compute in H. discriminate.
    + intros y [<-|[<-|[]]]; (split; [reflexivity|]); (split; [reflexivity|]); (split; [reflexivity|]);
        (split; [reflexivity|]); eexists; (split; [vm_compute; reflexivity|]);
        (split; [discriminate|]); (split; [vm_compute; discriminate|]); (split; [|reflexivity]);
        right; vm_compute; (split; [reflexivity|discriminate]).
  - vm_compute. reflexivity.
  - vm_compute. reflexivity.
  - repeat constructor.
  - repeat constructor.
  - repeat constructor.
Qed.

Example pe5_after :
  option_map pe_view (run_trace pe_conf ginit (pe5_pre ++ peT 50 1 :: pe5_round1 ++ pe5_round2 ++ pe5_round3)) =
  Some [(1, LEADER, 1, Some 1, Some 1, [(1, 0); (2, 1)]);
        (2, FOLLOWER, 1, Some 1, Some 1, [(1, 0); (2, 1)]);
        (3, FOLLOWER, 1, Some 1, Some 1, [(1, 0); (2, 1)])].
Proof. vm_compute. reflexivity. Qed.

(* ---------- a single voter ---------- *)
Example pe1_quiet :
  exists g nx, run_trace pe_conf ginit [ERestart 1 [] 0 0 1] = Some g /\ quiet_for pe_conf g 1 nx [] /\
               (deadline nx < 50)%Z.
Proof.
  eexists. eexists. split; [vm_compute; reflexivity|]. split.
  - constructor.
    + vm_compute. reflexivity.
    + reflexivity.
    + left. reflexivity.
    + reflexivity.
    + unfold replay_done. vm_compute. discriminate.
    + left. reflexivity.
    + constructor.
    + split; [constructor|]. split; [intros y []|intros []].
    + reflexivity.
    + split; [vm_compute; repeat split|discriminate].
    + intros H. vm_compute in H. discriminate.
    + intros y [].
  - vm_compute. reflexivity.
Qed.

Example pe1_after :
  option_map pe_view (run_trace pe_conf ginit [ERestart 1 [] 0 0 1; peT 50 1]) =
  Some [(1, LEADER, 1, Some 1, Some 1, [(1, 0); (2, 1)])].
Proof. vm_compute. reflexivity. Qed.

(* ---------- a split vote of two, and its resolution at the next deadline ---------- *)
Definition pe2_pre : list event :=
  [ERestart 1 [2] 0 0 1; ERestart 2 [1] 0 0 1; EConnect 1 2; EConnect 2 1; peT 50 1; peT 50 2].

(* both are candidates of term 1 and the two requests are in flight *)
Example pe2_split :
  exists g n1 n2, run_trace pe_conf ginit pe2_pre = Some g /\
    aget 1 (nodes g) = Some n1 /\ aget 2 (nodes g) = Some n2 /\
    self n1 = Some 1 /\ role n1 = CANDIDATE /\ term n1 = 1 /\ voted n1 = Some 1 /\
    self n2 = Some 2 /\ role n2 = CANDIDATE /\ term n2 = 1 /\ voted n2 = Some 2 /\
    chan_get 1 2 g = [RequestVote 1 1 0] /\ chan_get 2 1 g = [RequestVote 1 1 0] /\
    need_load n1 && file_dump pe_conf = false /\ replay_done n1 /\ queue n1 = [] /\
    (deadline n1 < 95)%Z /\ connected_to_anyone n1 = true /\ others n1 <> [].
Proof.
  eexists. eexists. eexists. split; [vm_compute; reflexivity|].
  split; [vm_compute; reflexivity|]. split; [vm_compute; reflexivity|].
  repeat (split; [reflexivity|]). split; [unfold replay_done; vm_compute; discriminate|].
  split; [reflexivity|]. split; [reflexivity|]. split; [reflexivity|]. discriminate.
Qed.

(* the requests are refused, both stay candidates; 1's next deadline starts term 2, which it wins *)
Example pe2_after :
  option_map pe_view (run_trace pe_conf ginit (pe2_pre ++ [peD 51 1 2; peD 51 2 1])) =
  Some [(1, CANDIDATE, 1, Some 1, None, [(1, 0)]); (2, CANDIDATE, 1, Some 2, None, [(1, 0)])] /\
  option_map pe_view (run_trace pe_conf ginit (pe2_pre ++ [peD 51 1 2; peD 51 2 1; peT 95 1; peD 96 1 2; peD 97 2 1])) =
  Some [(1, LEADER, 2, Some 1, Some 1, [(1, 0); (2, 2)]); (2, FOLLOWER, 2, Some 1, None, [(1, 0)])].
Proof. split; vm_compute; reflexivity. Qed.

(* ---------- the hypotheses of the node-level lemmas, on the nodes of the three-voter run ---------- *)
Example pe3_node_level :
  exists g n2 n3, run_trace pe_conf ginit pe3_pre = Some g /\
    aget 2 (nodes g) = Some n2 /\ aget 3 (nodes g) = Some n3 /\
    let e := mk_env pe_conf 130 0 30 [] 9 in
    (* C05_candidate_start, for node 2 *)
    (self n2 = Some 2 /\ (role n2 = FOLLOWER \/ role n2 = CANDIDATE) /\
     need_load n2 && file_dump (cf e) = false /\ replay_done n2 /\
     (queue n2 = [] \/ wait_leader (cf e) = true) /\ (deadline n2 < t0 e)%Z /\
     connected_to_anyone n2 = true /\ others n2 <> []) /\
    (* C05_vote_granted, for node 3 and the request of node 2 *)
    (rv_of n2 = RequestVote 2 3 1 /\ self n3 <> None /\ term n3 < 2 /\ log_ok_for 3 1 n3 /\
     smem 2 (tconn n3) = true) /\
    (* C05_majority_elects, for the candidate node 2 has become, and the first vote it receives *)
    (let c2 := nd (on_tick e n2) in
     self c2 = Some 2 /\ role c2 = CANDIDATE /\ term c2 = 2 /\ majority (votes c2 + 1) c2 = true /\
     log_wf (log c2) /\ log c2 <> [] /\ 0 < noop_pk (cf e)) /\
    (* C05_append_entries_names_leader, for node 3 after its vote and the leader's first message *)
    (exists m rest g', run_trace pe_conf g (peT 130 2 :: pe3_round1 ++ pe3_round2) = Some g' /\
       chan_get 2 3 g' = m :: rest /\ is_ae 2 m = true).
Proof.
  eexists. eexists. eexists. split; [vm_compute; reflexivity|].
  split; [vm_compute; reflexivity|]. split; [vm_compute; reflexivity|]. cbv zeta.
  split; [|split; [|split]].
  - split; [reflexivity|]. split; [left; reflexivity|]. split; [reflexivity|].
    split; [unfold replay_done; vm_compute; discriminate|]. split; [left; reflexivity|].
    split; [reflexivity|]. split; [reflexivity|discriminate].
  - split; [reflexivity|]. split; [discriminate|]. split; [reflexivity|].
    split; [|reflexivity]. right. vm_compute. split; [reflexivity|discriminate].
  - split; [vm_compute; reflexivity|]. split; [vm_compute; reflexivity|]. split; [vm_compute; reflexivity|].
    split; [vm_compute; reflexivity|]. split; [vm_compute; repeat split|]. split; [vm_compute; discriminate|reflexivity].
  - eexists. eexists. eexists. split; [vm_compute; reflexivity|]. split; [vm_compute; reflexivity|]. reflexivity.
Qed.
