(* Tier CM, part 3 (copy of RefineSpecA.v over RefineMAbs; L1 only): what __sendAppendEntries and __onBecomeLeader do in the core
   fragment (serializer idle, no compaction, every entry smaller than a batch). *)
From Coq Require Import ZArith NArith List Bool Lia ZifyBool.
From RecordUpdate Require Import RecordSet.
From PSO Require Import Raft.Types Raft.Node Raft.Net Raft.ProofsCommitBase Raft.RefineMAbs.
Import ListNotations.
Import RecordSetNotations.
Open Scope N_scope.
#[local] Arguments firstn : simpl nomatch.
#[local] Arguments skipn : simpl nomatch.

(* the fields the refinement looks at *)
Definition fv (x : node) :=
  (self x, others x, role x, term x, voted x, votes x, log x, commit x, match_idx x,
   sr x, queue x, applied x, replay_idx x, readonly x).

Lemma fv_eq x y : fv x = fv y ->
  self x = self y /\ others x = others y /\ role x = role y /\ term x = term y /\ voted x = voted y /\
  votes x = votes y /\ log x = log y /\ commit x = commit y /\ match_idx x = match_idx y /\
  sr x = sr y /\ queue x = queue y /\ applied x = applied y /\ replay_idx x = replay_idx y /\
  readonly x = readonly y.
Proof. unfold fv. intros H. injection H; intros. repeat split; assumption. Qed.

Lemma fv_intro x y :
  self x = self y -> others x = others y -> role x = role y -> term x = term y -> voted x = voted y ->
  votes x = votes y -> log x = log y -> commit x = commit y -> match_idx x = match_idx y ->
  sr x = sr y -> queue x = queue y -> applied x = applied y -> replay_idx x = replay_idx y ->
  readonly x = readonly y -> fv x = fv y.
Proof. intros. unfold fv. congruence. Qed.

Ltac fvinj H :=
  let h := fresh "Hfv" in
  pose proof (fv_eq _ _ H) as h; cbn in h;
  destruct h as (? & ? & ? & ? & ? & ? & ? & ? & ? & ? & ? & ? & ? & ?).

(* the same with names: [fvinj_n H F] introduces Fself Foth Frole Fterm Fvoted Fvotes Flog Fcommit
   Fmatch Fsr Fqueue Fapplied Freplay Fro *)
Ltac fvinj_n H p :=
  let h := fresh "Hfv" in
  let a1 := fresh p "self" in let a2 := fresh p "oth" in let a3 := fresh p "role" in
  let a4 := fresh p "term" in let a5 := fresh p "voted" in let a6 := fresh p "votes" in
  let a7 := fresh p "log" in let a8 := fresh p "commit" in let a9 := fresh p "match" in
  let a10 := fresh p "sr" in let a11 := fresh p "queue" in let a12 := fresh p "applied" in
  let a13 := fresh p "replay" in let a14 := fresh p "ro" in
  pose proof (fv_eq _ _ H) as h; cbn in h;
  destruct h as (a1 & a2 & a3 & a4 & a5 & a6 & a7 & a8 & a9 & a10 & a11 & a12 & a13 & a14).

Definition Hser (x : node) : Prop := pid (sr x) = 0 /\ stored (sr x) = None /\ trans (sr x) = [].

Lemma Hser_fv x x' : fv x' = fv x -> Hser x -> Hser x'.
Proof. intros H. fvinj H. unfold Hser. intros (A & B & C). repeat split; congruence. Qed.

Definition ae_msg_ok (x : node) (m : msg) : Prop :=
  match m with
  | AE t cm prev es =>
      t = term x /\ cm = commit x /\
      match prev with
      | None => True
      | Some (pi, pt) =>
          1 <= pi /\ (exists pe, nth_error (log x) (n2 pi - 1) = Some pe /\ eterm pe = pt) /\
          exists k, es = firstn k (skipn (n2 pi) (log x))
      end
  | AESnap t cm p => t = term x /\ cm = commit x /\ p = SNone
  | _ => False
  end.

Definition ae_out (x : node) (o : out) : Prop :=
  match o with
  | Send d m => (In d (others x) \/ In d (readonly x)) /\ ae_msg_ok x m
  | _ => False
  end.

Lemma ae_out_fv x x' o : fv x' = fv x -> ae_out x o -> ae_out x' o.
Proof.
  intros H. fvinj H. unfold ae_out, ae_msg_ok.
  repeat match goal with E : _ = _ |- _ => rewrite E; clear E end. auto.
Qed.

Definition ae_rel (s s' : S) : Prop :=
  fv (nd s') = fv (nd s) /\ exists new, outs s' = outs s ++ new /\ Forall (ae_out (nd s)) new.

Lemma ae_rel_refl s : ae_rel s s.
Proof. split; auto. exists []. rewrite app_nil_r. auto. Qed.

Lemma ae_rel_trans a b c : ae_rel a b -> ae_rel b c -> ae_rel a c.
Proof.
  intros [F1 (n1 & O1 & A1)] [F2 (n2' & O2 & A2)]. split; [congruence|].
  exists (n1 ++ n2'). split; [rewrite O2, O1, app_assoc; reflexivity|].
  apply Forall_app. split; auto.
  eapply Forall_impl; [|exact A2]. intros o. apply ae_out_fv. auto.
Qed.

Lemma ae_rel_eq s s1 s2 : nd s2 = nd s1 -> outs s2 = outs s1 -> ae_rel s s1 -> ae_rel s s2.
Proof. intros E1 E2 [F H]. split; rewrite ?E1, ?E2; auto. Qed.

(* ---- small facts ---- *)
Lemma In_firstn_in {A} k (l : list A) x : In x (firstn k l) -> In x l.
Proof.
  revert l. induction k as [|k IH]; intros [|a l]; cbn; try tauto. intros [H|H]; auto.
Qed.

Lemma In_skipn_in {A} k (l : list A) x : In x (skipn k l) -> In x l.
Proof.
  revert l. induction k as [|k IH]; intros [|a l]; cbn; try tauto. intros H; auto.
Qed.

Lemma Forall_firstn {A} (P : A -> Prop) k l : Forall P l -> Forall P (firstn k l).
Proof. rewrite !Forall_forall. intros H x Hx. apply H. eapply In_firstn_in; eauto. Qed.

Lemma Forall_skipn {A} (P : A -> Prop) k l : Forall P l -> Forall P (skipn k l).
Proof. rewrite !Forall_forall. intros H x Hx. apply H. eapply In_skipn_in; eauto. Qed.

Lemma outs_send d m s : outs (send d m s) = outs s \/ outs (send d m s) = outs s ++ [Send d m].
Proof. unfold send. destruct (smem d (tconn (nd s))); auto. Qed.

Lemma outs_delta_read e s : outs (delta_read e s) = outs s.
Proof. unfold delta_read. destruct (_ && _); reflexivity. Qed.

Lemma exc_delta_read e s : exc (delta_read e s) = exc s.
Proof. unfold delta_read. destruct (_ && _); reflexivity. Qed.

Lemma get_transmission_idle e x s : Hser (nd s) -> get_transmission e x s = (s, SNone).
Proof.
  intros (A & B & C). unfold get_transmission. rewrite A. cbn [N.eqb negb]. rewrite C, B. reflexivity.
Qed.

Lemma ser_trans_nil (z : ser) x : trans z = [] -> z <| trans := adel x (trans z) |> = z.
Proof. intros H. destruct z; cbn in *. subst. reflexivity. Qed.

Lemma In_sadd x y l : In x (sadd y l) <-> x = y \/ In x l.
Proof.
  induction l as [|a l IH]; cbn; [intuition congruence|].
  destruct (y <? a); cbn; [intuition congruence|]. destruct (y =? a) eqn:E; cbn.
  - apply N.eqb_eq in E. subst. intuition congruence.
  - rewrite IH. intuition congruence.
Qed.

Lemma In_sunion x a b : In x (sunion a b) <-> In x a \/ In x b.
Proof.
  unfold sunion. revert a. induction b as [|y b IH]; intros a; cbn; [tauto|].
  rewrite IH, In_sadd. intuition congruence.
Qed.

Lemma In_targets e n x : In x (targets e n) -> In x (others n) \/ In x (readonly n).
Proof.
  unfold targets. destruct (is_perm (order e) (sunion (others n) (readonly n))) eqn:E.
  - unfold is_perm in E. apply andb_true_iff in E as [E _]. apply andb_true_iff in E as [_ E].
    rewrite forallb_forall in E. intros H. specialize (E x H).
    apply In_sunion.
    revert E. generalize (sunion (others n) (readonly n)). intros l. induction l as [|y l IH]; cbn; [discriminate|].
    intros E. apply orb_true_iff in E as [E|E]; [apply N.eqb_eq in E; auto|auto].
  - apply In_sunion.
Qed.

(* ---- one message of the loop ---- *)
Lemma get_prev_ok l next :
  wf1 l -> 1 < next ->
  match get_prev l next with
  | Some (pi, pt) => pi = next - 1 /\ exists pe, nth_error l (n2 pi - 1) = Some pe /\ eterm pe = pt
  | None => True
  end.
Proof.
  intros W H. unfold get_prev. rewrite ge_one by (auto; lia).
  destruct (nth_error l (n2 (next - 1) - 1)) as [pe|] eqn:E; auto.
  split; auto. exists pe. auto.
Qed.

Section Spec.
Variable e : env.
Notation smalle := (small (cf e)).

Lemma ae_body_spec x next s :
  Hser (nd s) -> wf1 (log (nd s)) -> Forall smalle (log (nd s)) ->
  (In x (others (nd s)) \/ In x (readonly (nd s))) ->
  ae_rel s (fst (ae_body e x next s)) /\ exc (fst (ae_body e x next s)) = exc s.
Proof.
  intros HS W Sm Hx. unfold ae_body. rewrite (wf1_first_idx _ W).
  destruct (1 <? next) eqn:E1.
  - apply N.ltb_lt in E1.
    pose proof (get_prev_ok (log (nd s)) next W E1) as Hp.
    set (prev := get_prev (log (nd s)) next) in *.
    assert (Hsend : forall s1 es, fv (nd s1) = fv (nd s) -> outs s1 = outs s -> exc s1 = exc s ->
              (exists k, es = firstn k (skipn (n2 next - 1) (log (nd s)))) ->
              ae_rel s (send x (AE (term (nd s)) (commit (nd s)) prev es) s1) /\
              exc (send x (AE (term (nd s)) (commit (nd s)) prev es) s1) = exc s).
    { intros s1 es F O Ex (k & Hk). rewrite exc_send. split; auto. split; [rewrite nd_send; auto|].
      destruct (outs_send x (AE (term (nd s)) (commit (nd s)) prev es) s1) as [Eo|Eo]; rewrite Eo, O.
      - exists []. rewrite app_nil_r. auto.
      - eexists. split; [reflexivity|]. constructor; [|constructor].
        cbn. split; auto. split; auto. split; auto.
        destruct prev as [[pi pt]|]; auto. destruct Hp as (-> & pe & A & B).
        split; [lia|]. split; [eauto|]. exists k. rewrite Hk. do 2 f_equal. lia. }
    destruct (next <=? last_idx (log (nd s))) eqn:E2.
    + rewrite ge_batch by (auto; lia).
      set (es := take_size (batch (cf e)) 0 (skipn (n2 next - 1) (log (nd s)))).
      assert (Hes : exists k, es = firstn k (skipn (n2 next - 1) (log (nd s)))).
      { eexists. apply take_size_firstn. }
      assert (Hin : forall en, In en es -> smalle en).
      { intros en Hen. destruct Hes as (k & Hk). rewrite Hk in Hen.
        apply In_firstn_in in Hen. apply In_skipn_in in Hen.
        rewrite Forall_forall in Sm. apply Sm. exact Hen. }
      destruct es as [|e1 [|e2 r]] eqn:Ees.
      * cbn [fst]. apply Hsend; auto.
      * assert (Hb : batch (cf e) <=? csz (ecmd e1) = false).
        { specialize (Hin e1 (or_introl eq_refl)). unfold small, small_cmd in Hin. lia. }
        rewrite Hb. cbn [fst]. apply Hsend; auto.
      * cbn [fst]. apply Hsend; auto.
    + cbn [fst]. apply Hsend; auto. exists 0%nat. reflexivity.
  - rewrite (get_transmission_idle e x s HS). cbn [fst].
    rewrite exc_send. split; auto. split; [rewrite nd_send; auto|].
    destruct (outs_send x (AESnap (term (nd s)) (commit (nd s)) SNone) s) as [Eo|Eo]; rewrite Eo.
    + exists []. rewrite app_nil_r. auto.
    + eexists. split; [reflexivity|]. constructor; [|constructor]. cbn. auto.
Qed.

Lemma ae_loop_spec fuel start x single ser_ s :
  Hser (nd s) -> wf1 (log (nd s)) -> Forall smalle (log (nd s)) ->
  (In x (others (nd s)) \/ In x (readonly (nd s))) ->
  ae_rel s (ae_loop fuel e start x single ser_ s).
Proof.
  revert s single ser_. induction fuel as [|f IH]; intros s single ser_ HS W Sm Hx; cbn [ae_loop].
  - apply (ae_rel_eq s s); auto. apply ae_rel_refl.
  - destruct (aget x (next_idx (nd s))) as [next|]; [|apply (ae_rel_eq s s); auto; apply ae_rel_refl].
    destruct ((next <=? last_idx (log (nd s))) || single || ser_); [|apply ae_rel_refl].
    destruct (ae_body_spec x next s HS W Sm Hx) as [A B].
    destruct (ae_body e x next s) as [s1 ser'] eqn:Eb. cbn [fst] in A, B.
    destruct (ok s1); auto.
    assert (A2 : ae_rel s (delta_read e s1)).
    { apply (ae_rel_eq s s1); auto using nd_delta_read, outs_delta_read. }
    destruct (period (cf e) <? tnow (delta_read e s1) - start)%Z; auto.
    eapply ae_rel_trans; [exact A2|].
    destruct A2 as [F _]. fvinj F.
    apply IH.
    + eapply Hser_fv; eauto.
    + congruence.
    + congruence.
    + rewrite nd_delta_read in *. destruct Hx; [left|right]; congruence.
Qed.

Lemma cancel_transmission_idle x s : Hser (nd s) -> fv (nd (cancel_transmission x s)) = fv (nd s).
Proof.
  intros (A & B & C). unfold cancel_transmission. rewrite nd_upd. unfold fv. cbn.
  rewrite (ser_trans_nil _ x C). reflexivity.
Qed.

Lemma send_ae_spec s :
  Hser (nd s) -> wf1 (log (nd s)) -> Forall smalle (log (nd s)) -> ae_rel s (send_ae e s).
Proof.
  intros HS W Sm. unfold send_ae.
  set (s0 := upd _ _).
  assert (A0 : ae_rel s s0).
  { subst s0. split; [reflexivity|]. exists []. cbn. rewrite app_nil_r. auto. }
  assert (Ht : forall x, In x (targets e (nd s0)) -> In x (others (nd s)) \/ In x (readonly (nd s))).
  { intros x Hx. apply In_targets in Hx. subst s0. exact Hx. }
  generalize dependent (targets e (nd s0)). intros l Ht.
  set (fuel := Datatypes.S _). clearbody fuel.
  set (start := tnow s0). clearbody start.
  clearbody s0. revert s0 A0. induction l as [|x l IH]; intros s0 A0; cbn [fold_left]; auto.
  apply IH; [intros y Hy; apply Ht; right; auto|].
  destruct (ok s0); auto.
  pose proof A0 as [F _]. fvinj F.
  assert (HS0 : Hser (nd s0)) by (eapply Hser_fv; eauto).
  destruct (negb (smem x (connected (nd s0)))).
  - eapply ae_rel_trans; [exact A0|]. split; [apply cancel_transmission_idle; auto|].
    exists []. cbn. rewrite app_nil_r. auto.
  - eapply ae_rel_trans; [exact A0|]. apply ae_loop_spec; auto; try congruence.
    destruct (Ht x (or_introl eq_refl)); [left|right]; congruence.
Qed.

(* ---- __onBecomeLeader ---- *)
Definition bl_fold (now : Z) (l : list nid) (n : node) : node :=
  fold_left (fun n x => n <| next_idx := aset x (last_idx (log n) + 1) (next_idx n) |>
                          <| match_idx := aset x 0 (match_idx n) |>
                          <| last_resp := aset x now (last_resp n) |>
                          <| sr := (sr n) <| trans := adel x (trans (sr n)) |> |>) l n.

Definition fv_noidx (x : node) :=
  (self x, others x, role x, term x, voted x, votes x, log x, commit x,
   queue x, applied x, replay_idx x, readonly x).

Lemma bl_fold_spec now l n :
  trans (sr n) = [] ->
  fv_noidx (bl_fold now l n) = fv_noidx n /\ sr (bl_fold now l n) = sr n /\
  forall f, In f l \/ aget f (match_idx n) = Some 0 -> aget f (match_idx (bl_fold now l n)) = Some 0.
Proof.
  unfold bl_fold. revert n. induction l as [|x l IH]; intros n Ht; cbn [fold_left].
  - split; auto. split; auto. intros f [[]|H]; auto.
  - match goal with |- context [fold_left ?F l ?N] => set (n1 := N) end.
    assert (E1 : sr n1 = sr n) by (subst n1; cbn; apply ser_trans_nil; auto).
    destruct (IH n1) as (A & B & C); [rewrite E1; auto|].
    split; [rewrite A; reflexivity|]. split; [congruence|].
    intros f Hf. apply C. subst n1. cbn. rewrite aget_aset.
    destruct (f =? x) eqn:E; auto. apply N.eqb_neq in E.
    destruct Hf as [[Hf|Hf]|Hf]; auto. congruence.
Qed.

Definition noop_entry (n : node) : entry :=
  mkEntry (noop_cmd (noop_pk (cf e))) (last_idx (log n) + 1) (term n).

Lemma bl_tail_fv (x x3 : node) mi :
  fv_noidx x3 = fv_noidx (x <| leader := self x |> <| role := LEADER |> <| last_resp := [] |>) ->
  sr x3 = sr x -> mi = match_idx x3 ->
  fv ((log_add (mkEntry (noop_cmd (noop_pk (cf e))) (last_idx (log x3) + 1) (term x3)) x3)
        <| noop_idx := Some (last_idx (log x3) + 1) |>) =
  fv (x <| role := LEADER |> <| match_idx := mi |> <| log := log x ++ [noop_entry x] |>).
Proof.
  intros A B C. unfold fv_noidx in A. cbn in A. injection A; intros.
  unfold fv, log_add, noop_entry. cbn. subst mi. clear A.
  repeat match goal with E : _ x3 = _ |- _ => rewrite E; clear E end. reflexivity.
Qed.

Lemma become_leader_spec s :
  Hser (nd s) -> wf1 (log (nd s)) -> Forall smalle (log (nd s)) -> 1 < batch (cf e) ->
  exists mi r new,
    fv (nd (become_leader e s)) =
      fv ((nd s) <| role := LEADER |> <| match_idx := mi |> <| log := log (nd s) ++ [noop_entry (nd s)] |>) /\
    (forall f, In f (others (nd s)) -> aget f mi = Some 0) /\
    outs (become_leader e s) = outs s ++ r ++ new /\
    (forall d m, ~ In (Send d m) r) /\
    Forall (ae_out (nd (become_leader e s))) new.
Proof.
  intros HS W Sm Hb. unfold become_leader.
  set (s1 := set_role LEADER (upd (fun n => n <| leader := self n |>) s)).
  assert (R1 : exists r, outs s1 = outs s ++ r /\ (forall d m, ~ In (Send d m) r) /\
                         nd s1 = (nd s) <| leader := self (nd s) |> <| role := LEADER |>).
  { subst s1. unfold set_role. cbn. destruct (role (nd s) =? LEADER).
    - exists []. rewrite app_nil_r. split; [reflexivity|]. split; [intros d m []|reflexivity].
    - eexists. split; [reflexivity|]. split; [intros d m [H|[]]; discriminate|reflexivity]. }
  destruct R1 as (r & O1 & Hr & N1).
  set (s2 := upd (fun n => n <| last_resp := [] |>) s1).
  set (s3 := upd (fun n => fold_left _ (sunion (others n) (readonly n)) n) s2).
  set (s4 := upd _ s3).
  assert (N3 : nd s3 = bl_fold (tnow s2) (sunion (others (nd s2)) (readonly (nd s2))) (nd s2)) by reflexivity.
  destruct HS as (P1 & P2 & P3).
  destruct (bl_fold_spec (tnow s2) (sunion (others (nd s2)) (readonly (nd s2))) (nd s2)) as (A & B & C).
  { subst s2. cbn. rewrite N1. cbn. auto. }
  rewrite <- N3 in A, B, C.
  assert (F4 : fv (nd s4) = fv ((nd s) <| role := LEADER |> <| match_idx := match_idx (nd s3) |>
                                 <| log := log (nd s) ++ [noop_entry (nd s)] |>)).
  { assert (E2 : nd s2 = (nd s) <| leader := self (nd s) |> <| role := LEADER |> <| last_resp := [] |>).
    { unfold s2. rewrite nd_upd, N1. reflexivity. }
    apply (bl_tail_fv (nd s) (nd s3)); auto.
    - rewrite A, E2. reflexivity.
    - rewrite B, E2. reflexivity. }
  assert (O4 : outs s4 = outs s ++ r) by (subst s4 s3 s2; cbn; auto).
  assert (C4 : forall f, In f (others (nd s)) -> aget f (match_idx (nd s3)) = Some 0).
  { intros f Hf. apply C. left. apply In_sunion. left.
    unfold s2. rewrite nd_upd, N1. exact Hf. }
  set (mi := match_idx (nd s3)) in *. clearbody mi.
  clearbody s4. clear A B C N3. clear s3 s2. clear O1 N1. clear s1.
  assert (HS4 : Hser (nd s4)).
  { fvinj F4. unfold Hser. split; [congruence|]. split; congruence. }
  assert (W4 : wf1 (log (nd s4))).
  { fvinj F4. replace (log (nd s4)) with (log (nd s) ++ [noop_entry (nd s)]) by congruence.
    apply wf1_app; [exact W|reflexivity]. }
  assert (Sm4 : Forall smalle (log (nd s4))).
  { fvinj F4. replace (log (nd s4)) with (log (nd s) ++ [noop_entry (nd s)]) by congruence.
    apply Forall_app. split; [exact Sm|]. constructor; [|constructor]. unfold small, small_cmd. cbn.
    split; [exact Hb|discriminate]. }
  assert (Hfin : forall s5, ae_rel s4 s5 ->
            exists mi r0 new,
              fv (nd s5) = fv ((nd s) <| role := LEADER |> <| match_idx := mi |>
                                 <| log := log (nd s) ++ [noop_entry (nd s)] |>) /\
              (forall f, In f (others (nd s)) -> aget f mi = Some 0) /\
              outs s5 = outs s ++ r0 ++ new /\ (forall d m, ~ In (Send d m) r0) /\
              Forall (ae_out (nd s5)) new).
  { intros s5 [F5 (new & O5 & A5)]. exists mi, r, new.
    split; [rewrite F5; exact F4|]. split; [exact C4|].
    split; [rewrite O5, O4, app_assoc; reflexivity|]. split; auto.
    eapply Forall_impl; [|exact A5]. intros o. apply ae_out_fv. auto. }
  rewrite andthen_eq.
  destruct (use_batch (cf e)).
  - change (ok s4) with (ok s4). destruct (ok s4) eqn:Eo.
    + apply Hfin. apply send_ae_spec; auto.
    + apply Hfin. apply ae_rel_refl.
  - pose proof (send_ae_spec s4 HS4 W4 Sm4) as A1.
    destruct (ok (send_ae e s4)).
    + apply Hfin. eapply ae_rel_trans; [exact A1|].
      destruct A1 as [F _]. fvinj F.
      apply send_ae_spec; [eapply Hser_fv; eauto|congruence|congruence].
    + apply Hfin. exact A1.
Qed.

End Spec.
