(* Tier C5, part 4: the phases of _onTick with compacted logs, first half. *)
From Coq Require Import ZArith NArith List Bool Lia ZifyBool Arith PeanoNat.
From RecordUpdate Require Import RecordSet.
From PSO Require Import Raft.Types Raft.Node Raft.Net Raft.ProofsCommitBase Raft.ProofsCommit.
From PSO Require Import Raft.ProofsElectionBase Raft.RefineAbs Raft.RefineK Raft.RefineSpecA Raft.RefineTickA.
From PSO Require Import Raft.Refine5Abs Raft.Refine5SpecA Raft.Refine5Sim.
From PSO Require Raft.ProofsElectionFrame2.
From PSO Require Abstract.Model Abstract.Lib Abstract.Kstep.
Import ListNotations.
Import RecordSetNotations.
Open Scope N_scope.
#[local] Arguments firstn : simpl nomatch.
#[local] Arguments skipn : simpl nomatch.

(* (RefineTickA.count_le, restated outside its section) *)
Lemma count_le4 (h g : nid -> bool) n L :
  NoDup L -> (forall f, In f L -> f <> n -> h f = true -> g f = true) -> g n = true ->
  (length (filter h (vminus n L)) + (if in_dec N.eq_dec n L then 1 else 0) <= length (filter g L))%nat.
Proof.
  intros ND H Hgn. induction L as [|a L IH]; [cbn; lia|].
  inversion ND as [|? ? Hna ND']; subst.
  assert (IH' := IH ND' (fun f Hf => H f (or_intror Hf))). clear IH.
  unfold vminus in *. cbn [filter].
  destruct (N.eq_dec a n) as [->|Hne].
  - rewrite N.eqb_refl. cbn [negb]. rewrite Hgn. cbn [length].
    destruct (in_dec N.eq_dec n (n :: L)) as [_|Hn]; [|exfalso; apply Hn; left; auto].
    destruct (in_dec N.eq_dec n L) as [Hin|_]; [contradiction|]. lia.
  - assert (En : (a =? n) = false) by (apply N.eqb_neq; auto). rewrite En. cbn [negb filter].
    assert (Hin_eq : ((if in_dec N.eq_dec n (a :: L) then 1 else 0) = (if in_dec N.eq_dec n L then 1 else 0))%nat).
    { destruct (in_dec N.eq_dec n (a :: L)) as [[H1|H1]|H1], (in_dec N.eq_dec n L) as [H2|H2]; auto; try congruence.
      - exfalso. apply H1. right. auto. }
    rewrite Hin_eq.
    destruct (h a) eqn:Eh.
    + rewrite (H a (or_introl eq_refl) Hne Eh). cbn [length]. lia.
    + destruct (g a); cbn [length]; lia.
Qed.

Section Tick.
Variable c : conf.
Variable V : list nid.
Hypothesis NDV : NoDup V.
Hypothesis VRO : forall v, In v V -> v < RO_BASE.
Hypothesis VNE : V <> [].
Hypothesis Hb1 : 1 < batch c.
Hypothesis Hdyn : dyn c = false.
Variable e : env.
Hypothesis Hc : cf e = c.

Notation V' := (absV V).
Notation Rn := (Rn c V).
Notation Rmsg := (Rmsg c).
Notation Ro := (Ro c).
Notation Hn := (Hn c).
Notation ksn := (ksn V).
Notation LS := (LS c V).
Notation simf := (simf c V).
Notation pk := (pk c).
Set Default Proof Using "All".
Notation LS_ksn := (LS_ksn c V NDV VRO VNE Hb1).
Notation LS_full := (LS_full c V NDV VRO VNE Hb1).
Notation LS_j := (LS_j c V NDV VRO VNE Hb1).
Notation LS_stutter := (LS_stutter c V NDV VRO VNE Hb1).
Notation LS_same := (LS_same c V NDV VRO VNE Hb1).
Notation Rn_intro := (Rn_intro c V NDV VRO VNE Hb1).
Notation Rn_rv := (Rn_rv c V NDV VRO VNE Hb1).
Notation Hn_hv := (Hn_hv c V NDV VRO VNE Hb1).
Notation Rn_same_nodes := (Rn_same_nodes c V NDV VRO VNE Hb1).
Notation sim_ae_outs := (sim_ae_outs c V NDV VRO VNE Hb1).
Notation sim_become_leader := (sim_become_leader c V NDV VRO VNE Hb1).
Notation nth_abs := (nth_abs c V NDV VRO VNE Hb1).

Definition okout (n : nid) (s : M.state) (o : out) : Prop :=
  match o with Send d m => Rmsg n d m s | _ => True end.

Lemma grow_Ro (P : out -> Prop) n s (S S' : Node.S) : (forall o, P o -> okout n s o) -> grow P S S' ->
  exists new, outs S' = outs S ++ new /\ Ro n new s.
Proof.
  intros H (new & O & A). exists new. split; auto. intros d m Hin.
  rewrite Forall_forall in A. apply (H _ (A _ Hin)).
Qed.

Lemma nosend_okout n s o : nosend o -> okout n s o.
Proof. destruct o; cbn; auto. intros []. Qed.

Lemma LS_quiet n s (S S' : Node.S) : LS n s S -> fv (nd S') = fv (nd S) -> grow nosend S S' -> LS n s S'.
Proof.
  intros L F G. eapply LS_stutter; eauto.
  apply (grow_Ro nosend n s S S'); [intros o; apply nosend_okout|exact G].
Qed.

(* ---- tick_load, tick_timer, tick_ready ---- *)
(* the first tick loads the dump file if there is one: nothing is stored yet (fragment condition) *)
Lemma sim_tick_load n S s :
  ProofsElectionFrame2.tickp e (nd S) -> LS n s S -> LS n s (tick_load e S).
Proof.
  intros Tp L. unfold tick_load.
  destruct (need_load (nd S) && file_dump (cf e)) eqn:E.
  - unfold load_dump. rewrite (Tp E). apply (LS_quiet n s S); [exact L|reflexivity|apply grow_upd].
  - apply (LS_quiet n s S); [exact L|reflexivity|apply grow_upd].
Qed.

Lemma sim_tick_timer n : simf n (tick_timer e).
Proof.
  intros S s L. exists s. split; [constructor|]. unfold tick_timer.
  destruct (_ <? _)%Z; [|exact L]. apply (LS_quiet n s S); [exact L|reflexivity|apply grow_upd].
Qed.

Lemma sim_tick_ready n : simf n tick_ready.
Proof.
  intros S s L. exists s. split; [constructor|]. unfold tick_ready.
  destruct (_ && _); [|exact L]. apply (LS_quiet n s S); [exact L|reflexivity|apply grow_upd].
Qed.

(* ---- send_ae by a leader ---- *)
Lemma sim_send_ae n S s :
  LS n s S -> role (nd S) = LEADER -> exists s', ksn (n2 n) s s' /\ LS n s' (send_ae e S).
Proof.
  intros L Hr. destruct (LS_full _ _ _ L) as (full & EL & W & Sx).
  pose proof (LS_h _ _ _ _ _ L) as HH.
  assert (Sm : Forall (small (cf e)) (log (nd S))) by (rewrite Hc; apply (H_small _ _ HH)).
  destruct (send_ae_spec e full S W Sx Sm) as (F & T & new & O & A).
  destruct (sim_ae_outs e Hc n (nd S) full new s) as (s1 & K1 & E1 & R1); auto.
  - apply (LS_reach _ _ _ _ _ L).
  - apply (LS_n _ _ _ _ _ L).
  - apply (LS_in _ _ _ _ _ L).
  - apply (LS_others _ _ _ _ _ L).
  - apply (H_ro _ _ HH).
  - exists s1. split; auto.
    fwinj_n F F.
    apply (LS_ksn n s s1 S); auto.
    + eapply Rn_rv; [apply fw_rv; exact F|exact Fapplied|exact T|].
      eapply Rn_same_nodes; eauto; [apply (LS_reach _ _ _ _ _ L)|apply (LS_n _ _ _ _ _ L)].
    + eapply Hn_hv; [apply fw_hv; exact F|exact HH].
    + rewrite Fself. apply (LS_self _ _ _ _ _ L).
    + rewrite Foth. apply (LS_others _ _ _ _ _ L).
    + exists new. auto.
Qed.

(* ---- the election timeout ---- *)
Lemma sim_tick_election n : simf n (tick_election e).
Proof.
  intros S s L. unfold tick_election. rewrite (LS_self _ _ _ _ _ L).
  destruct (_ && _) eqn:G; [|exists s; split; [constructor|exact L]].
  apply andb_true_iff in G as [G _]. apply andb_true_iff in G as [G _].
  set (x := nd S) in *.
  set (s1 := upd (fun n0 => n0 <| deadline := (tnow S + gen_timeout e)%Z |> <| leader := None |>) S).
  set (s3 := upd (fun n0 => n0 <| term := term n0 + 1 |> <| voted := Some n |> <| votes := 1 |>)
                 (set_role CANDIDATE s1)).
  set (m := RequestVote (term (nd s3)) (last_idx (log (nd s3))) (last_term (log (nd s3)))).
  set (s4 := fold_left (fun s0 x0 => send x0 m s0) (others (nd s3)) s3).
  set (s5 := on_leader_changed s4).
  assert (N3 : nd s3 = x <| deadline := (tnow S + gen_timeout e)%Z |> <| leader := None |>
                         <| role := CANDIDATE |> <| term := term x + 1 |> <| voted := Some n |> <| votes := 1 |>).
  { unfold s3. rewrite nd_upd, nd_set_role. reflexivity. }
  assert (Hm : m = RequestVote (term x + 1) (last_idx (log x)) (last_term (log x))).
  { unfold m. rewrite N3. reflexivity. }
  assert (N5 : fv (nd s5) = fv (x <| role := CANDIDATE |> <| term := term x + 1 |> <| voted := Some n |> <| votes := 1 |>)).
  { unfold s5. rewrite olc_nd. unfold s4. rewrite fold_rv_nd, N3. reflexivity. }
  assert (G5 : grow (fun o => nosend o \/ exists d, o = Send d m) S s5).
  { set (P := fun o => nosend o \/ exists d, o = Send d m).
    assert (G1 : grow P S s1) by (unfold s1; apply grow_upd).
    assert (G2 : grow P s1 (set_role CANDIDATE s1)) by (apply grow_set_role; unfold P; auto).
    assert (G3 : grow P (set_role CANDIDATE s1) s3) by (unfold s3; apply grow_upd).
    assert (G4 : grow P s3 s4) by (unfold s4; apply fold_rv_grow).
    assert (G6 : grow P s4 s5) by (unfold s5; apply olc_grow; unfold P; auto).
    eapply grow_trans; [exact G1|]. eapply grow_trans; [exact G2|]. eapply grow_trans; [exact G3|].
    eapply grow_trans; [exact G4|exact G6]. }
  clearbody s5. clear s4. rewrite Hm in G5. clear Hm. clear m. clear N3. clear s3. clear s1.
  pose proof (LS_n _ _ _ _ _ L) as RN. destruct (LS_full _ _ _ L) as (full & EL & W & Sx).
  pose proof (LS_j _ _ _ L) as Hj. fold x in RN, Sx.
  (* the L0 timeout *)
  assert (Hnl : M.rl (M.nodes s (n2 n)) <> M.Leader).
  { rewrite (Rn_role _ _ _ _ _ RN). intros Hx. apply absR_leader in Hx. rewrite Hx in G. discriminate. }
  destruct (t_timeout_ok V' (n2 n) s Hj Hnl) as [K E].
  set (s1 := t_timeout (n2 n) s) in *.
  assert (K1 : ksn (n2 n) s s1) by (apply ksn_one; auto).
  pose proof (fv_trans _ _ N5) as Ft. cbn in Ft.
  fvinj_n N5 F.
  assert (RN1 : Rn n (nd s5) s1).
  { apply (Rn_intro n x (nd s5) s s1); auto.
    - apply (LS_reach _ _ _ _ _ L).
    - eapply ksn_kstar; eauto.
    - congruence.
    - apply tr_ok_same. exact Ft.
    - congruence.
    - rewrite Fterm. lia.
    - unfold s1, t_timeout; cbn [M.nodes]; rewrite upd_eq; cbn [M.term]. rewrite Fterm, (Rn_term _ _ _ _ _ RN). lia.
    - unfold s1, t_timeout; cbn [M.nodes]; rewrite upd_eq; cbn [M.voted]. rewrite Fvoted. reflexivity.
    - unfold s1, t_timeout; cbn [M.nodes]; rewrite upd_eq; cbn [M.rl]. rewrite Frole. reflexivity.
    - unfold s1, t_timeout; cbn [M.nodes]; rewrite upd_eq; cbn [M.log]. rewrite Flog. exists full. auto.
    - unfold s1, t_timeout; cbn [M.nodes]; rewrite upd_eq; cbn [M.commit]. rewrite Fcommit. apply (Rn_commit _ _ _ _ _ RN).
    - intros _. unfold s1, t_timeout; cbn [M.nodes]; rewrite upd_eq; cbn [M.votesFrom]. rewrite Fvotes.
      split; [reflexivity|left; reflexivity].
    - intros f m0 Hf Hne Hg. unfold s1, t_timeout; cbn [M.nodes]; rewrite upd_eq; cbn [M.matchIdx].
      rewrite Fmatch in Hg. apply (Rn_match _ _ _ _ _ RN f m0 Hf Hne Hg).
    - intros _. unfold s1, t_timeout. cbn [M.grants]. left. rewrite Fterm, (Rn_term _ _ _ _ _ RN). f_equal. f_equal. lia.
    - eapply (applied_same c V NDV VRO VNE Hb1 n x); eauto.
      + apply (LS_reach _ _ _ _ _ L).
      + eapply ksn_kstar; eauto.
      + rewrite Fterm. lia.
      + unfold s1, t_timeout; cbn [M.nodes]; rewrite upd_eq; reflexivity. }
  assert (L5 : LS n s1 s5).
  { apply (LS_ksn n s s1 S); auto.
    - eapply Hn_hv; [|apply (LS_h _ _ _ _ _ L)]. rewrite (fv_hv _ _ N5). reflexivity.
    - rewrite Fself. apply (LS_self _ _ _ _ _ L).
    - rewrite Foth. apply (LS_others _ _ _ _ _ L).
    - eapply grow_Ro; [|exact G5]. intros o [Ho|(d & ->)]; [apply nosend_okout; auto|].
      cbn. split; [apply VRO; apply (LS_in _ _ _ _ _ L)|].
      unfold s1, t_timeout. cbn [M.net]. left.
      rewrite (Rn_term _ _ _ _ _ RN), EL, absL_length, absL_lastTerm.
      rewrite (suffix_last_idx _ _ Sx), (suffix_last_term _ _ Sx), (wf1_last_idx _ W). f_equal; lia. }
  destruct (majority (votes (nd s5)) (nd s5)) eqn:Mj.
  - destruct (sim_become_leader e Hc n s5 s1 L5) as (s2 & K2 & L2); auto.
    exists s2. split; auto. eapply ksn_trans; eauto.
  - exists s1. split; auto.
Qed.

(* ---- the leader: commit advance and fallback ---- *)
Lemma sim_commit n S s nc :
  LS n s S -> role (nd S) = LEADER -> commit (nd S) < nc -> nc <= last_idx (log (nd S)) ->
  own_term_at (nd S) nc = true -> majority (match_count nc (nd S)) (nd S) = true ->
  exists s', ksn (n2 n) s s' /\ LS n s' (upd (fun x => set_commit_meta (x <| commit := nc |>)) S).
Proof.
  intros L Hr Hlt Hle Hown Hmaj.
  pose proof (LS_n _ _ _ _ _ L) as RN. destruct (LS_full _ _ _ L) as (full & EL & W & Sx).
  pose proof (LS_j _ _ _ L) as Hj. pose proof (LS_in _ _ _ _ _ L) as Hin.
  pose proof (LS_others _ _ _ _ _ L) as Hoth. pose proof (LS_h _ _ _ _ _ L) as HH.
  set (x := nd S) in *.
  assert (Hl : M.rl (M.nodes s (n2 n)) = M.Leader) by (rewrite (Rn_role _ _ _ _ _ RN), Hr; reflexivity).
  set (p := (n2 nc - 1)%nat).
  assert (Hlen : length (M.log (M.nodes s (n2 n))) = n2 (last_idx (log x))).
  { rewrite EL, absL_length, (suffix_last_idx _ _ Sx), (wf1_last_idx _ W). lia. }
  assert (Hfi : first_idx (log x) <= nc).
  { destruct (N.le_gt_cases (first_idx (log x)) nc) as [H|H]; [exact H|]. exfalso.
    unfold own_term_at, entry_at in Hown. rewrite suffix_lt in Hown by exact H. discriminate. }
  (* the entry at nc *)
  unfold own_term_at, entry_at in Hown. rewrite (suffix_ge _ _ W Sx) in Hown by exact Hfi.
  rewrite ge_one in Hown by (auto; pose proof (suffix_first_pos _ _ W Sx); lia).
  destruct (nth_error full (n2 nc - 1)) as [en|] eqn:Een; [|discriminate].
  apply N.eqb_eq in Hown.
  assert (K : KS.kstep V' s (M.do_commit (n2 n) p s) /\ ext (n2 n) s (M.do_commit (n2 n) p s)).
  { apply t_commit_ok; auto.
    - rewrite (Rn_commit _ _ _ _ _ RN). unfold p. lia.
    - rewrite Hlen. unfold p. lia.
    - rewrite EL. fold p in Een. rewrite (nth_abs _ _ _ Een). cbn. rewrite (Rn_term _ _ _ _ _ RN). congruence.
    - unfold M.majority, M.commit_count. apply Nat.ltb_lt. rewrite absV_length.
      unfold absV. rewrite filter_map_length.
      apply (majority_static _ x n V NDV Hin Hoth) in Hmaj.
      unfold match_count in Hmaj. rewrite Hoth in Hmaj.
      pose proof (count_le4 (fun f => match aget f (match_idx x) with Some m => nc <=? m | None => false end)
                    (fun f => (n2 f =? (n2 n))%nat || (Sn p <=? M.matchIdx (M.nodes s (n2 n)) (n2 f))%nat) n V NDV) as Hc0.
      destruct (in_dec N.eq_dec n V) as [_|Hx]; [|contradiction].
      assert (H1 : forall f : nid, In f V -> f <> n ->
                match aget f (match_idx x) with Some m => nc <=? m | None => false end = true ->
                ((n2 f =? (n2 n))%nat || (Sn p <=? M.matchIdx (M.nodes s (n2 n)) (n2 f))%nat) = true).
      { intros f Hf Hne Hh. destruct (aget f (match_idx x)) as [m|] eqn:Eg; [|discriminate].
        pose proof (Rn_match _ _ _ _ _ RN f m Hf Hne Eg) as A7. apply orb_true_iff. right. apply Nat.leb_le.
        unfold p. lia. }
      assert (H2 : ((n2 n =? (n2 n))%nat || (Sn p <=? M.matchIdx (M.nodes s (n2 n)) (n2 n))%nat) = true).
      { apply orb_true_iff. left. apply Nat.eqb_eq. reflexivity. }
      specialize (Hc0 H1 H2). cbv beta. clear -Hc0 Hmaj. unfold nid in *. lia. }
  destruct K as [K E].
  exists (M.do_commit (n2 n) p s). split; [apply ksn_one; auto|].
  apply (LS_ksn n s (M.do_commit (n2 n) p s) S).
  - apply ksn_one; auto.
  - exact L.
  - assert (HA : S7.committed_upto (M.do_commit (n2 n) p s) (n2 (term x))
                   (M.log (M.nodes (M.do_commit (n2 n) p s) (n2 n))) (n2 (applied x))).
    { apply (applied_same c V NDV VRO VNE Hb1 n x x s (M.do_commit (n2 n) p s));
        [apply (LS_reach _ _ _ _ _ L)|eapply ksn_kstar; apply ksn_one; eauto|exact RN|apply N.le_refl
        |reflexivity|unfold M.do_commit; cbn [M.nodes]; rewrite upd_eq; reflexivity]. }
    rewrite nd_upd. apply (Rn_intro n x _ s (M.do_commit (n2 n) p s)); auto;
      try (unfold M.do_commit; cbn [M.nodes M.grants]; rewrite ?upd_eq;
           cbn [M.term M.voted M.rl M.log M.commit M.votesFrom M.matchIdx]).
    + apply (LS_reach _ _ _ _ _ L).
    + eapply ksn_kstar. apply ksn_one; eauto.
    + apply tr_ok_same. reflexivity.
    + apply N.le_refl.
    + apply (Rn_term _ _ _ _ _ RN).
    + apply (Rn_voted _ _ _ _ _ RN).
    + apply (Rn_role _ _ _ _ _ RN).
    + exists full. auto.
    + cbn. unfold p. lia.
    + apply (Rn_votes _ _ _ _ _ RN).
    + apply (Rn_match _ _ _ _ _ RN).
    + apply (Rn_self _ _ _ _ _ RN).
  - destruct HH as [B1 B2 B3 B4 B6 B7 B8 B9].
    constructor; rewrite ?nd_upd; cbn; auto.
  - apply (LS_self _ _ _ _ _ L).
  - apply (LS_others _ _ _ _ _ L).
  - exists []. rewrite app_nil_r. split; auto. apply Ro_nil.
Qed.

Lemma sim_stepdown n S s :
  LS n s S -> role (nd S) = LEADER ->
  exists s', ksn (n2 n) s s' /\ LS n s' (upd (fun x => x <| leader := None |>) (set_role FOLLOWER S)).
Proof.
  intros L Hr.
  pose proof (LS_n _ _ _ _ _ L) as RN. pose proof (LS_j _ _ _ L) as Hj.
  assert (Hl : M.rl (M.nodes s (n2 n)) = M.Leader) by (rewrite (Rn_role _ _ _ _ _ RN), Hr; reflexivity).
  destruct (t_stepdown_ok V' (n2 n) s Hj Hl) as [K E].
  exists (M.do_stepdown (n2 n) s). split; [apply ksn_one; auto|].
  apply (LS_ksn n s (M.do_stepdown (n2 n) s) S).
  - apply ksn_one; auto.
  - exact L.
  - assert (HA : S7.committed_upto (M.do_stepdown (n2 n) s) (n2 (term (nd S)))
                   (M.log (M.nodes (M.do_stepdown (n2 n) s) (n2 n))) (n2 (applied (nd S)))).
    { apply (applied_same c V NDV VRO VNE Hb1 n (nd S) (nd S) s (M.do_stepdown (n2 n) s));
        [apply (LS_reach _ _ _ _ _ L)|eapply ksn_kstar; apply ksn_one; eauto|exact RN|apply N.le_refl
        |reflexivity|unfold M.do_stepdown, M.set_node; cbn [M.nodes]; rewrite upd_eq; reflexivity]. }
    rewrite nd_upd, nd_set_role.
    apply (Rn_intro n (nd S) _ s (M.do_stepdown (n2 n) s)); auto;
      try (unfold M.do_stepdown, M.set_node; cbn [M.nodes M.grants]; rewrite ?upd_eq;
           cbn [M.term M.voted M.rl M.log M.commit M.votesFrom M.matchIdx]).
    + apply (LS_reach _ _ _ _ _ L).
    + eapply ksn_kstar. apply ksn_one; eauto.
    + apply tr_ok_same. reflexivity.
    + cbn. lia.
    + apply (Rn_term _ _ _ _ _ RN).
    + apply (Rn_voted _ _ _ _ _ RN).
    + reflexivity.
    + apply (Rn_log _ _ _ _ _ RN).
    + apply (Rn_commit _ _ _ _ _ RN).
    + intros Hx. compute in Hx. discriminate.
    + apply (Rn_match _ _ _ _ _ RN).
    + apply (Rn_self _ _ _ _ _ RN).
  - eapply Hn_hv; [|apply (LS_h _ _ _ _ _ L)]. rewrite nd_upd, nd_set_role. reflexivity.
  - rewrite nd_upd, nd_set_role. apply (LS_self _ _ _ _ _ L).
  - rewrite nd_upd, nd_set_role. apply (LS_others _ _ _ _ _ L).
  - apply (grow_Ro nosend); [intros o; apply nosend_okout|].
    eapply grow_trans; [|apply grow_upd]. apply grow_set_role. auto.
Qed.

Lemma sim_tick_leader n : simf n (tick_leader e).
Proof.
  intros S s L. unfold tick_leader.
  destruct (role (nd S) =? LEADER) eqn:Er; [|exists s; split; [constructor|exact L]].
  apply N.eqb_eq in Er.
  set (fuel := Datatypes.S (N.to_nat (last_idx (log (nd S)) - commit (nd S)))).
  pose proof (nd_commit_loop fuel (commit (nd S)) (commit (nd S)) S) as N1.
  pose proof (outs_commit_loop fuel (commit (nd S)) (commit (nd S)) S) as O1.
  destruct (commit_loop_spec fuel (commit (nd S)) (commit (nd S)) S) as (stop & T1 & T2 & T3 & T4 & _).
  cbv zeta in T4.
  destruct (commit_loop fuel (commit (nd S)) (commit (nd S)) S) as [s1 nc] eqn:Ecl.
  cbn [fst snd] in *.
  assert (L1 : LS n s s1) by (eapply LS_same; eauto).
  destruct (ok s1); [|exists s; split; [constructor|exact L1]].
  assert (Hstep : exists s2, ksn (n2 n) s s2 /\
            LS n s2 (if commit (nd s1) =? nc then s1 else upd (fun x => set_commit_meta (x <| commit := nc |>)) s1) /\
            role (nd (if commit (nd s1) =? nc then s1 else upd (fun x => set_commit_meta (x <| commit := nc |>)) s1)) = LEADER).
  { destruct (commit (nd s1) =? nc) eqn:Ec.
    - exists s. split; [constructor|]. split; auto. rewrite N1. exact Er.
    - apply N.eqb_neq in Ec. rewrite N1 in Ec.
      destruct T4 as [[T4 _]|(T4 & T5 & _)]; [congruence|].
      assert (B0 : role (nd s1) = LEADER) by (rewrite N1; exact Er).
      assert (B1 : commit (nd s1) < nc) by (rewrite N1; lia).
      assert (B2 : nc <= last_idx (log (nd s1))) by (rewrite N1; destruct T2; lia).
      assert (B3 : own_term_at (nd s1) nc = true) by (rewrite N1; exact T5).
      assert (B4 : majority (match_count nc (nd s1)) (nd s1) = true) by (rewrite N1; apply T3; lia).
      destruct (sim_commit n s1 s nc L1 B0 B1 B2 B3 B4) as (s2 & K2 & L2).
      exists s2. split; [exact K2|]. split; [exact L2|]. rewrite nd_upd. cbn. exact B0. }
  destruct Hstep as (s2 & K2 & L2 & Hr2).
  set (S2 := if commit (nd s1) =? nc then s1 else _) in *. clearbody S2.
  set (S3 := upd (fun n0 => n0 <| leader_commit := Some (commit n0) |>) S2).
  assert (L3 : LS n s2 S3).
  { apply (LS_quiet n s2 S2); [exact L2|reflexivity|apply grow_upd]. }
  assert (Hr3 : role (nd S3) = LEADER) by exact Hr2.
  cbv zeta.
  match goal with |- context [existsb ?f ?l] => destruct (existsb f l) end.
  - exists s2. split; auto. eapply LS_same; eauto.
  - match goal with |- context [negb ?b] => destruct b end; cbn [negb].
    + exists s2. split; auto.
    + destruct (sim_stepdown n S3 s2 L3 Hr3) as (s3 & K3 & L4).
      exists s3. split; auto. eapply ksn_trans; eauto.
Qed.

End Tick.
