(* C18: final statements over Obs.run_trace. *)
From Coq Require Import ZArith NArith List Bool Lia ZifyBool ZifyN.
From RecordUpdate Require Import RecordSet.
From PSO Require Import Raft.Types Raft.Node Raft.Net Raft.Obs.
From PSO Require Import Raft.ProofsReadonlyFrames Raft.ProofsReadonlyA Raft.ProofsReadonlyB Raft.ProofsReadonlyC
  Raft.ProofsReadonlyD Raft.ProofsReadonlyE Raft.ProofsReadonlyF Raft.ProofsFallbackA Raft.ProofsFallbackB.
Import ListNotations.
Import RecordSetNotations.
Open Scope N_scope.

Lemma run_trace_is_run : forall c evs g, run_trace c g evs = run c g evs.
Proof. intros c evs; induction evs as [|ev evs IH]; intros g; cbn; [reflexivity|]. destruct (gstep c g ev) as [[g' r]|]; auto. Qed.

(* states reachable from ginit by a list of events that all satisfy V *)
Definition reach (V : event -> Prop) (c : conf) (g : gstate) : Prop :=
  exists evs, Forall V evs /\ run_trace c ginit evs = Some g.

Lemma reach_reachable_by : forall V c g, reach V c g <-> reachable_by V c g.
Proof.
  intros V c g; unfold reach, reachable_by.
  split; intros (evs & H1 & H2); exists evs; (split; [exact H1|]); [rewrite <- run_trace_is_run | rewrite run_trace_is_run]; exact H2.
Qed.

Definition all_events (ev : event) : Prop := True.

(* validity used for C18_not_counted: voters are named by ids < RO_BASE in every command the
   environment submits and in every constructor argument *)
Definition voters_named_below_RO_BASE : event -> Prop := valid_ev.

Theorem C18_never_candidate_or_leader_final : forall c g,
  (0 <= period c)%Z -> reach all_events c g ->
  (forall x n, aget x (nodes g) = Some n -> self n = None -> role n = FOLLOWER) /\
  (forall ev g' x s, gstep c g ev = Some (g', Some (x, s)) -> self (nd s) = None ->
     role (nd s) = FOLLOWER /\ forall a b, ~ In (Role a b) (outs s)).
Proof. intros c g Hp Hr. apply C18_never_candidate_or_leader_thm; [exact Hp | apply reach_reachable_by; exact Hr]. Qed.

Theorem C18_never_votes_final : forall c g ev g' x s,
  (0 <= period c)%Z -> reach all_events c g -> gstep c g ev = Some (g', Some (x, s)) -> self (nd s) = None ->
  (forall d t lli llt, ~ In (Send d (RequestVote t lli llt)) (outs s)) /\
  (forall d t, ~ In (Send d (ResponseVote t)) (outs s)) /\
  voted (nd s) = None /\ votes (nd s) = 0 /\
  (forall n, aget x (nodes g) = Some n -> (forall oth now rnd sv, ev <> ERestart x oth now rnd sv) ->
     voted n = None /\ votes n = 0 /\
     (term (nd s) = term n \/
      exists a now rnd ord m rest t, ev = EDeliver a x now rnd ord /\ chan_get a x g = m :: rest /\
                                     ae_term m = Some t /\ term n < t /\ term (nd s) = t)).
Proof.
  intros c g ev g' x s Hp Hr. apply (C18_never_votes_thm c g ev g' x s Hp). apply reach_reachable_by; exact Hr.
Qed.

Theorem C18_not_counted_final : forall c g x n y,
  reach voters_named_below_RO_BASE c g -> aget x (nodes g) = Some n -> RO_BASE <= y -> ~ In y (others n).
Proof. intros c g x n y Hr. apply (C18_not_counted_thm c g x n y). apply reach_reachable_by; exact Hr. Qed.

(* ================= Examples ================= *)
Definition ro_conf : conf := mkConf 50 400 1000 1500 100 1000 true false true 5 1000 100 40 false false.

(* three voters, 0 elected; then a read-only node 100 attaches to the leader, is fed, answers, and drops *)
Definition ro_trace : list event :=
  [ERestart 0 [1;2] 0 0 0; ERestart 1 [0;2] 0 500 0; ERestart 2 [0;1] 0 900 0;
   EConnect 0 1; EConnect 1 0; EConnect 0 2; EConnect 2 0; EConnect 1 2; EConnect 2 1;
   ETick 0 500 0 30 [] 0;
   EDeliver 0 1 510 100 []; EDeliver 0 2 510 100 [];
   EDeliver 1 0 520 0 []; EDeliver 2 0 525 0 [];
   ERestart 100 [0;1;2] 600 300 0; EConnect 0 100; EConnect 100 0;
   ETick 0 650 0 30 [] 0; EDeliver 0 100 660 300 []; ETick 100 700 300 30 [] 0; EDeliver 100 0 710 0 []].

Definition ro_g : gstate := match run_trace ro_conf ginit ro_trace with Some g => g | None => ginit end.

Example ro_trace_reach :
  (0 <= period ro_conf)%Z /\ reach voters_named_below_RO_BASE ro_conf ro_g /\ reach all_events ro_conf ro_g.
Proof.
  split; [vm_compute; discriminate|].
  assert (run_trace ro_conf ginit ro_trace = Some ro_g) as E by (vm_compute; reflexivity).
  split; exists ro_trace; (split; [|exact E]).
  - repeat constructor; cbn; unfold vid; try exact I; try (repeat constructor; vm_compute; reflexivity).
  - repeat constructor.
Qed.

(* the read-only node follows (term 1, leader 0) but is a non-voting FOLLOWER; the leader feeds it
   (slots for 100) and does not count it (others = [1; 2]) *)
Example ro_trace_state :
  exists n100 n0,
    aget 100 (nodes ro_g) = Some n100 /\ aget 0 (nodes ro_g) = Some n0 /\
    self n100 = None /\ role n100 = FOLLOWER /\ voted n100 = None /\ votes n100 = 0 /\ term n100 = 1 /\
    leader n100 = Some 0 /\
    role n0 = LEADER /\ others n0 = [1; 2] /\ readonly n0 = [100] /\
    aget 100 (match_idx n0) = Some 0 /\ aget 100 (last_resp n0) = Some 710%Z.
Proof.
  destruct (aget 100 (nodes ro_g)) as [a|] eqn:Ea; [|vm_compute in Ea; discriminate Ea].
  destruct (aget 0 (nodes ro_g)) as [b|] eqn:Eb; [|vm_compute in Eb; discriminate Eb].
  exists a, b. split; [reflexivity|]. split; [reflexivity|].
  vm_compute in Ea. inversion Ea; subst a. vm_compute in Eb. inversion Eb; subst b. vm_compute. repeat split.
Qed.


(* a step of the read-only node: adopting term 1 from the leader's append_entries (its log does not yet
   reach the leader's prevLogIndex, so it asks for a reset) *)
Example ro_step_example :
  exists g g' s n,
    run_trace ro_conf ginit (firstn 18 ro_trace) = Some g /\
    gstep ro_conf g (EDeliver 0 100 660 300 []) = Some (g', Some (100, s)) /\
    aget 100 (nodes g) = Some n /\ self (nd s) = None /\ term n = 0 /\ term (nd s) = 1 /\
    role (nd s) = FOLLOWER /\ voted (nd s) = None /\
    outs s = [Send 0 (NextIdx 1 2 true false)].
Proof.
  destruct (run_trace ro_conf ginit (firstn 18 ro_trace)) as [g|] eqn:E; [|vm_compute in E; discriminate E].
  vm_compute in E. inversion E; subst g. clear E.
  eexists _, _, _, _. split; [reflexivity|].
  split; [vm_compute; reflexivity|]. split; [vm_compute; reflexivity|]. vm_compute. repeat split.
Qed.

(* the reply of 100 touches only slot 100 of the leader; dropping 100 afterwards changes no decision *)
Example ro_decisions_example :
  exists n0, aget 0 (nodes ro_g) = Some n0 /\ ~ In 100 (others n0) /\
    same_votersview (on_disconnected 100 n0) n0 /\
    verdict (tick_leader (mk_env ro_conf 800 0 30 [] 0) (start_S (mk_env ro_conf 800 0 30 [] 0) (on_disconnected 100 n0)))
    = verdict (tick_leader (mk_env ro_conf 800 0 30 [] 0) (start_S (mk_env ro_conf 800 0 30 [] 0) n0)).
Proof.
  destruct (aget 0 (nodes ro_g)) as [b|] eqn:Eb; [|vm_compute in Eb; discriminate Eb].
  exists b. split; [reflexivity|].
  assert (~ In 100 (others b)) as Hn.
  { destruct ro_trace_reach as (_ & Hr & _). apply (C18_not_counted_final ro_conf ro_g 0 b 100 Hr Eb). vm_compute; discriminate. }
  split; [exact Hn|].
  destruct (ProofsReadonlyF.ro_events_same_view b 100 Hn) as (_ & V & _). split; [exact V|].
  vm_compute in Eb. inversion Eb; subst b. vm_compute. reflexivity.
Qed.
