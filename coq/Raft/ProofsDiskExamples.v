(* Concrete instances of the hypotheses of the C06 theorems, taken from traces of the model. *)
From Coq Require Import ZArith NArith List Bool Lia ZifyBool ZifyN.
From RecordUpdate Require Import RecordSet.
From PSO Require Import Raft.Types Raft.Node Raft.Net Raft.Obs Raft.ProofsSnapshotBase Raft.ProofsSnapshot
  Raft.ProofsDisk Raft.ProofsDiskAck Raft.ProofsSnapshotExamples.
Import ListNotations.
Import RecordSetNotations.
Open Scope N_scope.

(* one voter with a journal AND a dump file *)
Definition cj : conf := mkConf 10 40 20 100 1000 4 true false true 2 1000 10 5 true true.
Definition ej : env := mk_env cj 210 0 30 [] 9.

Definition disk_after (c : conf) (evs : list event) (x : nid) : option disk :=
  match run_trace c ginit evs with Some g => aget x (disks g) | None => None end.

(* killed after the dump (entries 2, 3; history [7]) was written and before the journal was
   trimmed: journal [1;2;3;4], flushed commit index 3 *)
Definition trk : list event := firstn 7 pre18 ++ [EKill 1].

Example ex_disk_has_log :
  exists n d, node_after cj (firstn 7 pre18) 1 = Some n /\ disk_of cj n = Some d /\
    map eidx (d_log d) = [1; 2; 3; 4] /\ d_meta d = 3.
Proof.
  eexists. eexists. split; [vm_compute; reflexivity|]. split; [vm_compute; reflexivity|].
  vm_compute. split; reflexivity.
Qed.

Example ex_kill_restart :
  exists d n2, disk_after cj trk 1 = Some d /\ d_log d <> [] /\
    node_after cj (trk ++ [ERestart 1 [] 200 0 0]) 1 = Some n2 /\
    log n2 = d_log d /\ commit n2 = 3 /\ applied n2 = 1 /\ term n2 = 0 /\ voted n2 = None /\ need_load n2 = true.
Proof.
  eexists. eexists. split; [vm_compute; reflexivity|]. split; [vm_compute; discriminate|].
  split; [vm_compute; reflexivity|]. vm_compute. repeat split; reflexivity.
Qed.

Example ex_first_tick_rebuilds :
  exists d sn, disk_after cj trk 1 = Some d /\
    let pre := firstn 1 (d_log d) in let post := skipn 3 (d_log d) in
    file_dump (cf ej) = true /\ d_dump d = Some (Good sn) /\ s_ver sn <= 0 /\
    d_log d = pre ++ s_e0 sn :: s_e1 sn :: post /\ log_wf (d_log d) /\
    map eidx pre = [1] /\ map eidx post = [4] /\ s_hist sn = [7] /\ d_meta d = 3 /\
    let s1 := tick_load ej (start_S ej (init_from_disk ej (Some 1) [] 0 d)) in
    map eidx (log (nd s1)) = [2; 3; 4] /\ hist (nd s1) = [7] /\ applied (nd s1) = 3.
Proof.
  eexists. eexists. split; [vm_compute; reflexivity|]. cbv zeta.
  split; [reflexivity|]. split; [vm_compute; reflexivity|]. split; [vm_compute; discriminate|].
  split; [vm_compute; reflexivity|].
  split; [vm_compute; repeat split; reflexivity|].
  vm_compute. repeat split; reflexivity.
Qed.

(* killed one tick later (journal already trimmed to [2;3;4], the commit index 4 not yet
   flushed: .meta still says 3) *)
Example ex_first_tick_after_trim :
  exists d, disk_after cj (firstn 8 pre18 ++ [EKill 1]) 1 = Some d /\
    map eidx (d_log d) = [2; 3; 4] /\ d_meta d = 3 /\
    let s1 := tick_load ej (start_S ej (init_from_disk ej (Some 1) [] 0 d)) in
    let s2 := fst (apply_entries ej s1) in
    map eidx (log (nd s2)) = [2; 3; 4] /\ hist (nd s2) = [7] /\ applied (nd s2) = 3 /\ commit (nd s2) = 3.
Proof.
  eexists. split; [vm_compute; reflexivity|]. vm_compute. repeat split; reflexivity.
Qed.

(* no dump file: replay from index 2 *)
Example ex_first_tick_no_dump :
  exists d, disk_after c18 (firstn 8 pre18 ++ [EKill 1]) 1 = Some d /\ d_log d <> [] /\
    file_dump (cf (mk_env c18 210 0 30 [] 9)) = false /\
    let e := mk_env c18 210 0 30 [] 9 in
    let s2 := fst (apply_entries e (tick_load e (start_S e (init_from_disk e (Some 1) [] 0 d)))) in
    map eidx (log (nd s2)) = [2; 3; 4] /\ hist (nd s2) = [7] /\ applied (nd s2) = 3.
Proof.
  eexists. split; [vm_compute; reflexivity|]. split; [vm_compute; discriminate|].
  vm_compute. repeat split; reflexivity.
Qed.

(* a follower holding [1;2;3(term 1)] receives prev = (2, term 0... ) *)
Definition flog : list entry :=
  [mkEntry (noop_cmd 5) 1 0; mkEntry (noop_cmd 5) 2 1; mkEntry (cmd18 7) 3 1].
Definition fnode : node := fresh2 <| log := flog |> <| term := 2 |>.

Example ex_ack_covered :
  let new := [mkEntry (cmd18 8) 3 2; mkEntry (cmd18 9) 4 2] in
  let s := start_S ex fnode in
  let s' := ae_regular ex 1 4 (Some (2, 1)) new s in
  log_wf (log (nd s)) /\ consec (2 + 1) new /\
  outs s' = [Send 1 (NextIdx 2 5 false true)] /\ map eidx (log (nd s')) = [1; 2; 3; 4] /\
  map eterm (log (nd s')) = [0; 1; 2; 2] /\ last_idx (log (nd s')) = 4.
Proof. vm_compute. repeat split; reflexivity. Qed.

(* meta_commit <= commit along a trace with a restart *)
Example ex_meta_le_commit :
  exists n, node_after c18 (pre18 ++ post18) 1 = Some n /\ meta_commit n = 5 /\ commit n = 6.
Proof. eexists. split; [vm_compute; reflexivity|]. vm_compute. split; reflexivity. Qed.

Example ex_restart_commit_not_ahead :
  exists g n g1 r1 g2 r2,
    file_journal c18 = true /\ 1 < RO_BASE /\
    run_trace c18 ginit pre18 = Some g /\ aget 1 (nodes g) = Some n /\ log n <> [] /\
    gstep c18 g (EKill 1) = Some (g1, r1) /\
    gstep c18 g1 (ERestart 1 [] 200 0 0) = Some (g2, r2) /\ commit n = 4 /\ meta_commit n = 4.
Proof.
  eexists. eexists. eexists. eexists. eexists. eexists.
  split; [reflexivity|]. split; [vm_compute; reflexivity|].
  split; [vm_compute; reflexivity|]. split; [vm_compute; reflexivity|].
  split; [vm_compute; discriminate|]. split; [vm_compute; reflexivity|].
  split; [vm_compute; reflexivity|]. vm_compute. split; reflexivity.
Qed.
