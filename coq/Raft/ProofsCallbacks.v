(* C02, resource part: a callback id is never duplicated.  Every local callback id lives in the
   queue, in wait_reply, in wait_commit of the node it was submitted to, or has been fired; each
   helper moves or consumes ids, none copies one.  Counting argument: for every id x,
   (#x in the tables of the node) + (#x fired in this handler run) never grows, except by one
   when x is submitted. *)
From Coq Require Import ZArith NArith List Bool Lia ZifyBool ZifyN.
From RecordUpdate Require Import RecordSet.
From PSO Require Import Raft.Types Raft.Node Raft.Net Raft.Obs Raft.ProofsApplyBase Raft.ProofsApply.
Import ListNotations.
Import RecordSetNotations.
Open Scope N_scope.

Definition cnt (x : N) (l : list N) : nat := count_occ N.eq_dec l x.

Lemma cnt_app : forall x a b, cnt x (a ++ b) = (cnt x a + cnt x b)%nat.
Proof. intros. unfold cnt. apply count_occ_app. Qed.

Lemma cnt_nil : forall x, cnt x [] = 0%nat.
Proof. reflexivity. Qed.

Definition cb_id (c : cbref) : list N := match c with CbLocal id => [id] | _ => [] end.
Definition q_ids (q : list (cmd * cbref)) : list N := flat_map (fun x => cb_id (snd x)) q.
Definition r_ids (w : list (N * cbref)) : list N := flat_map (fun x => cb_id (snd x)) w.
Definition subs_ids (l : list (N * cbref)) : list N := flat_map (fun tc => cb_id (snd tc)) l.
Definition c_ids (w : list (N * list (N * cbref))) : list N := flat_map (fun kv => subs_ids (snd kv)) w.

(* the callback ids a node holds *)
Definition node_ids (n : node) : list N := q_ids (queue n) ++ r_ids (wait_reply n) ++ c_ids (wait_commit n).

Definition fired_ids (os : list out) : list N := map (fun x => fst (fst x)) (fired os).

Definition total (x : N) (s : S) : nat := (cnt x (node_ids (nd s)) + cnt x (fired_ids (outs s)))%nat.

#[global] Arguments cnt : simpl never.
#[global] Arguments q_ids : simpl never.
#[global] Arguments r_ids : simpl never.
#[global] Arguments c_ids : simpl never.
#[global] Arguments subs_ids : simpl never.
#[global] Arguments fired_ids : simpl never.
#[global] Arguments fired : simpl never.

Lemma total_cview : forall x s s', cview_of s = cview_of s' -> total x s = total x s'.
Proof.
  intros x s s' H. apply cview_inv in H as (H1 & H2 & H3 & _ & _ & H6).
  unfold total, node_ids, fired_ids. now rewrite H1, H2, H3, H6.
Qed.

Lemma total_view : forall x s s', view_of s = view_of s' -> total x s = total x s'.
Proof. intros. now apply total_cview, view_cview. Qed.

Lemma total_sview : forall x s s', sview_of s = sview_of s' -> total x s = total x s'.
Proof. intros. now apply total_cview, sview_cview. Qed.

Lemma fired_ids_app : forall a b, fired_ids (a ++ b) = fired_ids a ++ fired_ids b.
Proof. intros. unfold fired_ids. now rewrite fired_app, map_app. Qed.

(* ---- counting in association lists ---- *)
Section Assoc.
  Context {V : Type} (f : V -> list N).
  Let F := fun kv : N * V => f (snd kv).
  Definition oget (o : option V) : list N := match o with Some v => f v | None => [] end.

  Lemma cnt_adel : forall x k l,
    (cnt x (flat_map F (adel k l)) + cnt x (oget (aget k l)))%nat = cnt x (flat_map F l).
  Proof.
    induction l as [|[k0 v0] r IH]; cbn [adel aget flat_map oget]; auto.
    destruct (k =? k0); cbn [flat_map oget].
    - rewrite cnt_app. unfold F in *; cbn [snd] in *. lia.
    - rewrite !cnt_app. lia.
  Qed.

  Lemma cnt_aset_le : forall x k v l,
    (cnt x (flat_map F (aset k v l)) <= cnt x (flat_map F l) + cnt x (f v))%nat.
  Proof.
    induction l as [|[k0 v0] r IH]; cbn [aset flat_map].
    - rewrite app_nil_r. unfold F in *; cbn [snd] in *. cbn. lia.
    - destruct (k <? k0) eqn:E1.
      + cbn [flat_map]. rewrite !cnt_app. unfold F in *; cbn [snd] in *. lia.
      + destruct (k =? k0) eqn:E2; cbn [flat_map].
        * rewrite !cnt_app. unfold F in *; cbn [snd] in *. lia.
        * rewrite !cnt_app. lia.
  Qed.

  Lemma cnt_aset : forall x k v l lo, asorted lo l ->
    (cnt x (flat_map F (aset k v l)) + cnt x (oget (aget k l)))%nat = (cnt x (flat_map F l) + cnt x (f v))%nat.
  Proof.
    induction l as [|[k0 v0] r IH]; intros lo SO; cbn [aset aget flat_map oget].
    - rewrite app_nil_r. unfold F in *; cbn [snd] in *. cbn. lia.
    - destruct SO as [_ SO]. destruct (k <? k0) eqn:E1.
      + assert (E2 : k =? k0 = false) by lia. rewrite E2. cbn [flat_map]. rewrite !cnt_app. unfold F in *; cbn [snd] in *.
        rewrite (aget_below r k0 k SO) by lia. cbn [oget]. rewrite cnt_nil. lia.
      + destruct (k =? k0) eqn:E2; cbn [flat_map oget].
        * rewrite !cnt_app. unfold F in *; cbn [snd] in *. lia.
        * rewrite !cnt_app. specialize (IH _ SO). lia.
  Qed.
End Assoc.

(* ------------------------------------------------------------------ *)
(* steps that never duplicate an id                                     *)
(* ------------------------------------------------------------------ *)

Definition wc_ok (s : S) : Prop := asorted None (wait_commit (nd s)).

Lemma wc_ok_cview : forall s s', cview_of s = cview_of s' -> wc_ok s' -> wc_ok s.
Proof. intros s s' H. apply cview_inv in H as (_ & _ & H3 & _). unfold wc_ok. now rewrite H3. Qed.

(* sortedness of the subscriber table is kept and no id count grows *)
Definition step_le (f : S -> S) : Prop :=
  forall s, wc_ok s -> wc_ok (f s) /\ forall x, (total x (f s) <= total x s)%nat.

Lemma step_le_cview : forall f, (forall s, cview_of (f s) = cview_of s) -> step_le f.
Proof.
  intros f H s W. split. - eapply wc_ok_cview; eauto. - intros x. rewrite (total_cview x _ _ (H s)). lia.
Qed.

Lemma step_le_view : forall f, quiet f -> step_le f.
Proof. intros f H. apply step_le_cview. intros s. apply view_cview, H. Qed.

Lemma step_le_sview : forall f, squiet f -> step_le f.
Proof. intros f H. apply step_le_cview. intros s. apply sview_cview, H. Qed.

Lemma step_le_id : step_le (fun s => s).
Proof. intros s W. split; auto. Qed.

Lemma step_le_comp : forall f g, step_le f -> step_le g -> step_le (fun s => g (f s)).
Proof.
  intros f g Hf Hg s W. destruct (Hf s W) as [W1 L1]. destruct (Hg (f s) W1) as [W2 L2].
  split; auto. intros x. specialize (L1 x). specialize (L2 x). lia.
Qed.

Lemma step_le_andthen : forall f g, step_le f -> step_le g -> step_le (f ;; g).
Proof.
  intros f g Hf Hg s W. unfold andthen. destruct (ok (f s)).
  - apply (step_le_comp f g Hf Hg s W).
  - apply Hf, W.
Qed.

(* ---- fire / call_err ---- *)
Lemma total_fire : forall x c r e s, total x (fire c r e s) = (total x s + cnt x (cb_id c))%nat.
Proof.
  intros. destruct c as [|id|n q]; cbn [fire cb_id]; rewrite ?cnt_nil; try lia.
  unfold total. change (nd (emit (Fired id r e) s)) with (nd s).
  change (outs (emit (Fired id r e) s)) with (outs s ++ [Fired id r e]).
  rewrite fired_ids_app, cnt_app. change (fired_ids [Fired id r e]) with [id]. lia.
Qed.

Lemma total_call_err : forall x err c s, total x (call_err err c s) = (total x s + cnt x (cb_id c))%nat.
Proof.
  intros. destruct c as [|id|n r]; cbn [call_err cb_id]; rewrite ?cnt_nil; try lia.
  - change (emit (Fired id 0 err) s) with (fire (CbLocal id) 0 err s). apply total_fire.
  - rewrite (total_cview x _ _ (cview_send n _ s)). lia.
Qed.

Lemma nd_call_err : forall err c s, nd (call_err err c s) = nd s.
Proof. intros. destruct c as [|id|n r]; cbn; auto. unfold send. destruct (smem n (tconn (nd s))); auto. Qed.

(* ---- __onLeaderChanged: every pending forwarded request is fired once and forgotten ---- *)
Lemma olc_fold : forall x l s,
  let s' := fold_left (fun s kv => fire (snd kv) 0 LEADER_CHANGED s) l s in
  nd s' = nd s /\ total x s' = (total x s + cnt x (r_ids l))%nat.
Proof.
  induction l as [|kv l IH]; intros s; cbn zeta; cbn [fold_left].
  - cbn. split; auto.
  - destruct (IH (fire (snd kv) 0 LEADER_CHANGED s)) as [H1 H2]. cbn zeta in H1, H2.
    rewrite H1, H2, fire_nd, total_fire. split; auto.
    unfold r_ids. cbn [flat_map]. rewrite cnt_app. lia.
Qed.

Lemma step_on_leader_changed : forall s x,
  total x (on_leader_changed s) = total x s /\ wait_commit (nd (on_leader_changed s)) = wait_commit (nd s).
Proof.
  intros. unfold on_leader_changed.
  destruct (olc_fold x (wait_reply (nd s)) s) as [H1 H2]. cbn zeta in H1, H2.
  set (s1 := fold_left _ (wait_reply (nd s)) s) in *.
  split.
  - unfold total in *. cbn [upd nd outs]. cbn. unfold node_ids in *. cbn.
    rewrite H1 in *. rewrite !cnt_app in *. rewrite cnt_nil. lia.
  - cbn. now rewrite H1.
Qed.

Lemma step_le_on_leader_changed : step_le on_leader_changed.
Proof.
  intros s W. split.
  - unfold wc_ok. now rewrite (proj2 (step_on_leader_changed s 0)).
  - intros x. rewrite (proj1 (step_on_leader_changed s x)). lia.
Qed.

Lemma uview_on_leader_changed : forall s, uview_of (on_leader_changed s) = uview_of s.
Proof.
  intros. unfold on_leader_changed.
  destruct (olc_fold 0 (wait_reply (nd s)) s) as [H1 _]. cbn zeta in H1.
  unfold uview_of. cbn. now rewrite H1.
Qed.

(* ---- _applyCommand ---- *)
Lemma q_ids_app : forall a b, q_ids (a ++ b) = q_ids a ++ q_ids b.
Proof. intros. unfold q_ids. now rewrite flat_map_app. Qed.

Lemma step_submit : forall e c cbk s,
  (wc_ok s -> wc_ok (submit e c cbk s)) /\
  forall x, total x (submit e c cbk s) = (total x s + cnt x (cb_id cbk))%nat.
Proof.
  intros. unfold submit.
  destruct (qsize (cf e) <? N.of_nat (length (queue (nd s)))).
  - split. + unfold wc_ok. now rewrite nd_call_err. + intros; apply total_call_err.
  - split; auto. intros x. unfold total, node_ids. cbn. rewrite q_ids_app, !cnt_app.
    unfold q_ids at 2. cbn. rewrite app_nil_r. lia.
Qed.

(* ---- _checkCommandsToApply ---- *)
Lemma view_change_cluster : forall a x s, view_of (fst (change_cluster a x s)) = view_of s.
Proof.
  intros. unfold change_cluster.
  destruct (negb match noop_idx (nd s) with Some i => i <=? applied (nd s) | None => false end); auto.
  set (s1 := match change_idx (nd s) with Some ci => _ | None => s end).
  assert (V : view_of s1 = view_of s).
  { unfold s1. destruct (change_idx (nd s)) as [ci|]; auto. destruct (ci <=? applied (nd s)); auto. }
  destruct (change_idx (nd s1)); auto. now rewrite view_do_change_cluster.
Qed.

Lemma subs_ids_app : forall a b, subs_ids (a ++ b) = subs_ids a ++ subs_ids b.
Proof. intros. unfold subs_ids. now rewrite flat_map_app. Qed.

Lemma c_ids_aset_sub : forall x idx tm cbk wc,
  asorted None wc ->
  cnt x (c_ids (aset idx (subs_of idx wc ++ [(tm, cbk)]) wc)) = (cnt x (c_ids wc) + cnt x (cb_id cbk))%nat.
Proof.
  intros x idx tm cbk wc SO. unfold c_ids.
  pose proof (cnt_aset subs_ids x idx (subs_of idx wc ++ [(tm, cbk)]) wc None SO) as A.
  unfold subs_of in *. rewrite subs_ids_app, cnt_app in A.
  change (subs_ids [(tm, cbk)]) with (cb_id cbk ++ []) in A. rewrite app_nil_r in A.
  destruct (aget idx wc) as [l|]; cbn [oget] in A; rewrite ?cnt_nil in A;
    change (subs_ids []) with (@nil N) in A; rewrite ?cnt_nil in A; lia.
Qed.

Lemma step_check_one : forall e c cbk s,
  wc_ok s ->
  wc_ok (check_one e c cbk s) /\
  forall x, (total x (check_one e c cbk s) <= total x s + cnt x (cb_id cbk))%nat.
Proof.
  intros e c cbk s W. unfold check_one.
  destruct (role (nd s) =? LEADER).
  - (* leader *)
    set (req := if dyn (cf e) then membership_of c else None).
    assert (CC : exists s1 acc, (match req with None => (s, true) | Some (a, x) => change_cluster a x s end) = (s1, acc)
                                /\ view_of s1 = view_of s).
    { destruct req as [[a x]|].
      - destruct (change_cluster a x s) as [s1 acc] eqn:E. exists s1, acc. split; auto.
        change s1 with (fst (s1, acc)). rewrite <- E. apply view_change_cluster.
      - exists s, true. auto. }
    destruct CC as (s1 & acc & CC & V1). rewrite CC.
    assert (W1 : wc_ok s1) by (eapply wc_ok_cview; [apply view_cview; eauto|auto]).
    assert (T1 : forall x, total x s1 = total x s) by (intros; now apply total_view).
    destruct acc.
    + set (s2 := upd (log_add _) s1).
      set (s3 := match req with Some _ => upd _ s2 | None => s2 end).
      assert (C3 : cview_of s3 = cview_of s1) by (unfold s3; destruct req; reflexivity).
      assert (L3 : forall s4, (wc_ok s4 /\ forall x, (total x s4 <= total x s3 + cnt x (cb_id cbk))%nat) ->
                   wc_ok (if use_batch (cf e) then s4 else send_ae e s4) /\
                   forall x, (total x (if use_batch (cf e) then s4 else send_ae e s4) <= total x s + cnt x (cb_id cbk))%nat).
      { intros s4 [W4 T4].
        assert (T3 : forall x, total x s3 = total x s) by (intros x; rewrite <- T1; now apply total_cview).
        destruct (use_batch (cf e)).
        - split; auto. intros x. rewrite <- T3. apply T4.
        - split. + eapply wc_ok_cview; [apply view_cview, view_send_ae|auto].
          + intros x. rewrite (total_view x _ _ (view_send_ae e s4)), <- T3. apply T4. }
      apply L3. destruct cbk as [|id|rn rid].
      * split. { eapply wc_ok_cview; eauto. } intros; lia.
      * split.
        -- unfold wc_ok. cbn [upd nd]. cbn. apply asorted_aset; auto.
           apply cview_inv in C3 as (_ & _ & C3 & _). rewrite C3. exact W1.
        -- intros x. unfold total, node_ids. cbn [upd nd outs]. cbn.
           fold (subs_of (last_idx (log (nd s)) + 1) (wait_commit (nd s3))).
           rewrite !cnt_app, c_ids_aset_sub.
           ++ cbn [cb_id]. lia.
           ++ apply cview_inv in C3 as (_ & _ & C3 & _). rewrite C3. exact W1.
      * split. { eapply wc_ok_cview; [apply cview_send|]. eapply wc_ok_cview; eauto. }
        intros x. rewrite (total_cview x _ _ (cview_send _ _ _)). lia.
    + destruct cbk as [|id|rn rid].
      * split; auto. intros x. rewrite T1. lia.
      * split. { exact W1. }
        intros x. change (emit (Fired id 0 REQUEST_DENIED) s1) with (fire (CbLocal id) 0 REQUEST_DENIED s1).
        rewrite total_fire, T1. lia.
      * split. { eapply wc_ok_cview; [apply cview_send|auto]. }
        intros x. rewrite (total_cview x _ _ (cview_send _ _ _)), T1. lia.
  - destruct (leader (nd s)) as [l|].
    + destruct cbk as [|id|rn rid].
      * split. { eapply wc_ok_cview; [apply cview_send|auto]. }
        intros x. rewrite (total_cview x _ _ (cview_send _ _ _)). lia.
      * split. { eapply wc_ok_cview; [apply cview_send|]. exact W. }
        intros x. rewrite (total_cview x _ _ (cview_send _ _ _)).
        unfold total, node_ids. cbn [upd nd outs]. cbn. rewrite !cnt_app.
        pose proof (cnt_aset_le (fun c : cbref => cb_id c) x (local_ctr (nd s) + 1) (CbLocal id) (wait_reply (nd s))) as A.
        unfold r_ids. cbn [cb_id] in *. lia.
      * split. { eapply wc_ok_cview; [apply cview_send|auto]. }
        intros x. rewrite (total_cview x _ _ (cview_send _ _ _)). lia.
    + split. { unfold wc_ok. now rewrite nd_call_err. }
      intros x. rewrite total_call_err. lia.
Qed.

Lemma step_le_check_loop : forall fuel e start, step_le (check_loop fuel e start).
Proof.
  induction fuel as [|f IH]; intros e start s W; cbn [check_loop]. { split; auto. }
  destruct (tnow s - start <? period (cf e))%Z; [|split; auto].
  assert (G : wc_ok (match queue (nd s) with
                     | [] => s
                     | (c, cbk) :: rest =>
                       let s0 := upd (fun n => n <| queue := rest |>) s in
                       let s1 := check_one e c cbk s0 in if ok s1 then check_loop f e start s1 else s1 end) /\
              forall x, (total x (match queue (nd s) with
                     | [] => s
                     | (c, cbk) :: rest =>
                       let s0 := upd (fun n => n <| queue := rest |>) s in
                       let s1 := check_one e c cbk s0 in if ok s1 then check_loop f e start s1 else s1 end) <= total x s)%nat).
  { destruct (queue (nd s)) as [|[c cbk] rest] eqn:Q; [split; auto|]. cbn zeta.
    set (s0 := upd (fun n => n <| queue := rest |>) s).
    assert (W0 : wc_ok s0) by exact W.
    assert (T0 : forall x, (total x s0 + cnt x (cb_id cbk))%nat = total x s).
    { intros x. unfold total, node_ids, s0. cbn [upd nd outs]. cbn. rewrite Q.
      change (q_ids ((c, cbk) :: rest)) with (cb_id cbk ++ q_ids rest). rewrite !cnt_app. lia. }
    destruct (step_check_one e c cbk s0 W0) as [W1 T1].
    destruct (ok (check_one e c cbk s0)).
    - destruct (IH e start _ W1) as [W2 T2]. split; auto.
      intros x. specialize (T2 x). specialize (T1 x). specialize (T0 x). lia.
    - split; auto. intros x. specialize (T1 x). specialize (T0 x). lia. }
  destruct (leader (nd s)); auto. destruct (wait_leader (cf e)); auto; split; auto.
Qed.

Lemma step_le_check_commands : forall e, step_le (check_commands e).
Proof. intros e s. unfold check_commands. apply step_le_check_loop. Qed.

(* ---- the apply loop ---- *)
Lemma c_ids_adel : forall x k wc,
  (cnt x (c_ids (adel k wc)) + cnt x (subs_ids (subs_of k wc)))%nat = cnt x (c_ids wc).
Proof.
  intros. unfold c_ids, subs_of. pose proof (cnt_adel subs_ids x k wc) as A.
  destruct (aget k wc); cbn [oget] in A; auto.
Qed.

Lemma sub_fired_ids : forall en r subs,
  map (fun y : N * N * N => fst (fst y)) (flat_map (sub_fired en r) subs) = subs_ids subs.
Proof.
  induction subs as [|tc subs IH]; auto.
  cbn [flat_map]. rewrite map_app, IH.
  change (subs_ids (tc :: subs)) with (cb_id (snd tc) ++ subs_ids subs). f_equal.
  unfold sub_fired. destruct (snd tc); auto. destruct (fst tc =? eterm en); auto.
Qed.

Lemma step_le_apply_one : forall en, step_le (fun s => fst (apply_one en s)).
Proof.
  intros en s W. destruct (needs_ver (self_ver (nd s)) (ecmd en)) eqn:B.
  - rewrite apply_one_blocked by auto. cbn [fst]. split.
    + unfold wc_ok, pop_wc. cbn. now apply asorted_adel.
    + intros x. unfold total, node_ids, pop_wc. cbn [upd nd outs]. cbn. rewrite !cnt_app.
      pose proof (c_ids_adel x (eidx en) (wait_commit (nd s))). lia.
  - destruct (apply_one_ok en s B) as (_ & _ & _ & _ & _ & A5 & A6 & A7 & _ & _ & A10).
    split.
    + unfold wc_ok. rewrite A5. now apply asorted_adel.
    + intros x. unfold total, node_ids, fired_ids. rewrite A5, A6, A7, A10, map_app, sub_fired_ids, !cnt_app.
      pose proof (c_ids_adel x (eidx en) (wait_commit (nd s))). lia.
Qed.

Lemma step_le_apply_list : forall es, step_le (apply_list es).
Proof.
  induction es as [|en r IH]; intros s W. { split; auto. }
  rewrite apply_list_cons. destruct (step_le_apply_one en s W) as [W1 T1].
  destruct (snd (apply_one en s)).
  - destruct (IH _ W1) as [W2 T2]. split; auto. intros x. specialize (T1 x). specialize (T2 x). lia.
  - split; auto.
Qed.

Lemma step_le_apply_entries : forall e, step_le (fun s => fst (apply_entries e s)).
Proof.
  intros e s W. unfold apply_entries.
  destruct (applied (nd s) <? commit (nd s)); cbn [fst]. - now apply step_le_apply_list. - split; auto.
Qed.

(* ---- dump load: replaces the user state and the log, keeps the callback tables ---- *)
Lemma cview_load_dump : forall e clear s, cview_of (load_dump e clear s) = cview_of s.
Proof.
  intros. unfold load_dump.
  destruct (stored (sr (nd s))) as [[sn|]|]; auto.
  destruct (clear && (eidx (s_e1 sn) <=? applied (nd s))); auto.
  destruct (self_ver (nd s) <? s_ver sn); auto.
  cbv zeta.
  match goal with |- context [update_cluster ?l ?s4] => set (s5 := s4) end.
  assert (C5 : cview_of s5 = cview_of s).
  { subst s5. repeat (match goal with |- context [if ?b then _ else _] => destruct b end); reflexivity. }
  clearbody s5.
  destruct (dyn (cf e)); auto.
  match goal with |- context [if ?b then apply_membership _ _ _ else _] => destruct b end;
    rewrite ?(view_cview _ _ (view_apply_membership _ _ _)), (view_cview _ _ (view_update_cluster _ _)); auto.
Qed.

Lemma step_le_tick_load : forall e, step_le (tick_load e).
Proof.
  intros e. apply step_le_cview. intros s. unfold tick_load.
  destruct (need_load (nd s) && file_dump (cf e)).
  - change (cview_of (load_dump e false s) = cview_of s). apply cview_load_dump.
  - reflexivity.
Qed.

(* ---- election timeout ---- *)
Lemma step_le_tick_election : forall e, step_le (tick_election e).
Proof.
  intros e s W. unfold tick_election.
  destruct (self (nd s)) as [me|]; [|split; auto].
  destruct (((role (nd s) =? FOLLOWER) || (role (nd s) =? CANDIDATE)) &&
            (deadline (nd s) <? tnow s)%Z && connected_to_anyone (nd s)); [|split; auto].
  set (s1 := upd (fun n => n <| deadline := (tnow s + gen_timeout e)%Z |> <| leader := None |>) s).
  set (s2 := set_role CANDIDATE s1).
  set (s3 := upd (fun n => n <| term := term n + 1 |> <| voted := Some me |> <| votes := 1 |>) s2).
  assert (V3 : view_of s3 = view_of s).
  { unfold s3, s2, s1. rewrite view_upd by reflexivity. rewrite view_set_role. now rewrite view_upd by reflexivity. }
  set (s4 := fold_left (fun s x => send x (RequestVote (term (nd s3)) (last_idx (log (nd s3))) (last_term (log (nd s3)))) s)
                       (others (nd s3)) s3).
  assert (V4 : view_of s4 = view_of s).
  { unfold s4. rewrite view_fold; auto. intros. now apply view_send. }
  assert (W4 : wc_ok s4) by (eapply wc_ok_cview; [apply view_cview; eauto|auto]).
  destruct (step_le_on_leader_changed s4 W4) as [W5 T5].
  assert (T4 : forall x, total x s4 = total x s) by (intros; now apply total_view).
  destruct (majority (votes (nd (on_leader_changed s4))) (nd (on_leader_changed s4))).
  - split.
    + eapply wc_ok_cview; [apply sview_cview, sview_become_leader|auto].
    + intros x. rewrite (total_sview x _ _ (sview_become_leader e _)). specialize (T5 x). rewrite T4 in T5. exact T5.
  - split; auto. intros x. specialize (T5 x). rewrite T4 in T5. exact T5.
Qed.

(* ---- _onTick ---- *)
Lemma total_start : forall x e n, total x (start_S e n) = cnt x (node_ids n).
Proof. intros. unfold total, start_S. cbn [nd outs]. change (fired_ids []) with (@nil N). rewrite cnt_nil. lia. Qed.

Lemma step_le_tick_rest : forall e,
  step_le (fun s => let (s, need) := apply_entries e s in
             if ok s then (tick_send e need ;; tick_ready ;; check_commands e ;; try_compact e) s else s).
Proof.
  intros e s W.
  destruct (step_le_apply_entries e s W) as [W1 T1].
  destruct (apply_entries e s) as [s1 need]. cbn [fst] in *.
  destruct (ok s1); [|split; auto].
  assert (R : step_le (tick_send e need ;; tick_ready ;; check_commands e ;; try_compact e)).
  { repeat apply step_le_andthen.
    - apply step_le_view. intros s0. apply view_tick_send.
    - apply step_le_view. intros s0. apply view_tick_ready.
    - apply step_le_check_commands.
    - apply step_le_sview. intros s0. apply sview_try_compact. }
  destruct (R s1 W1) as [W2 T2]. split; auto. intros x. specialize (T1 x). specialize (T2 x). lia.
Qed.

Theorem on_tick_ids : forall e n,
  asorted None (wait_commit n) ->
  asorted None (wait_commit (nd (on_tick e n))) /\
  forall x, (total x (on_tick e n) <= cnt x (node_ids n))%nat.
Proof.
  intros e n W. unfold on_tick.
  assert (R : step_le (tick_load e ;; tick_timer e ;; tick_election e ;; tick_leader e ;;
     (fun s => let (s, need) := apply_entries e s in
             if ok s then (tick_send e need ;; tick_ready ;; check_commands e ;; try_compact e) s else s))).
  { repeat apply step_le_andthen.
    - apply step_le_tick_load.
    - apply step_le_view. intros s0. apply view_tick_timer.
    - apply step_le_tick_election.
    - apply step_le_view. intros s0. apply view_tick_leader.
    - apply step_le_tick_rest. }
  destruct (R (start_S e n) W) as [W1 T1]. split; auto.
  intros x. specialize (T1 x). now rewrite total_start in T1.
Qed.

(* ---- __onMessageReceived ---- *)
Lemma step_le_on_append_entries : forall e from m t c, step_le (on_append_entries e from m t c).
Proof.
  intros e from m t c s W. unfold on_append_entries.
  destruct (t <? term (nd s)); [split; auto|].
  set (s1 := upd (fun n => n <| deadline := (tnow s + gen_timeout e)%Z |>) s).
  set (s2 := if opt_eqb (leader (nd s1)) (Some from) then s1 else on_leader_changed s1).
  assert (W1 : wc_ok s1) by exact W.
  assert (T1 : forall x, total x s1 = total x s) by (intros; apply total_cview; reflexivity).
  assert (P2 : wc_ok s2 /\ forall x, (total x s2 <= total x s)%nat).
  { unfold s2. destruct (opt_eqb (leader (nd s1)) (Some from)).
    - split; auto; intros x; rewrite T1; lia.
    - destruct (step_le_on_leader_changed s1 W1) as [A B]. split; auto; intros x; rewrite <- T1; apply B. }
  destruct P2 as [W2 T2].
  set (s3 := upd (fun n => n <| leader := Some from |>) s2).
  set (s4 := if term (nd s3) <? t then upd (fun n => n <| term := t |> <| voted := None |>) s3 else s3).
  set (s5 := set_role FOLLOWER s4).
  set (s6 := upd (fun n => n <| leader_commit := Some c |>) s5).
  assert (V6 : view_of s6 = view_of s2).
  { unfold s6, s5, s4, s3. rewrite view_upd by reflexivity. rewrite view_set_role.
    destruct (term (nd (upd (fun n => n <| leader := Some from |>) s2)) <? t); auto. }
  assert (W6 : wc_ok s6) by (eapply wc_ok_cview; [apply view_cview; eauto|auto]).
  assert (T6 : forall x, (total x s6 <= total x s)%nat) by (intros x; rewrite (total_view x _ _ V6); apply T2).
  clearbody s6. clear V6 s5 s4 s3.
  assert (K : forall s7, cview_of s7 = cview_of s6 -> wc_ok s7 /\ forall x, (total x s7 <= total x s)%nat).
  { intros s7 C. split. - eapply wc_ok_cview; eauto. - intros x. rewrite (total_cview x _ _ C). apply T6. }
  destruct m as [| |tt cc prev es|tt cc prev lab off len en|tt cc p| | |]; try (apply K; reflexivity).
  - apply K, sview_cview, sview_ae_regular.
  - destruct (lab =? 1).
    + apply K. rewrite (view_cview _ _ (view_send_next_idx _ _ _ _ _)). reflexivity.
    + destruct (recv_t (nd s6)) eqn:R; [apply K; reflexivity|].
      destruct (lab =? 2).
      * apply K. rewrite (view_cview _ _ (view_send_next_idx _ _ _ _ _)). reflexivity.
      * destruct (assemble_entry _); [|apply K; reflexivity].
        apply K. rewrite (sview_cview _ _ (sview_ae_regular _ _ _ _ _ _)). reflexivity.
  - destruct (set_transmission p s6) as [s7 done] eqn:ST.
    assert (C7 : cview_of s7 = cview_of s6).
    { change s7 with (fst (s7, done)). rewrite <- ST. apply sview_cview, sview_set_transmission. }
    destruct (done && load_dump_ok s7); [|destruct done].
    + apply K. rewrite (view_cview _ _ (view_ae_commit _ _ _)), (view_cview _ _ (view_send_next_idx _ _ _ _ _)).
      now rewrite cview_load_dump.
    + apply K. rewrite (view_cview _ _ (view_ae_commit _ _ _)). now rewrite cview_load_dump.
    + apply K. now rewrite (view_cview _ _ (view_ae_commit _ _ _)).
Qed.

Lemma r_ids_adel : forall x k wr cbk, aget k wr = Some cbk ->
  (cnt x (r_ids (adel k wr)) + cnt x (cb_id cbk))%nat = cnt x (r_ids wr).
Proof.
  intros x k wr cbk H. pose proof (cnt_adel (fun c : cbref => cb_id c) x k wr) as A.
  rewrite H in A. exact A.
Qed.

Theorem on_message_ids : forall e from m n,
  asorted None (wait_commit n) ->
  asorted None (wait_commit (nd (on_message e from m n))) /\
  forall x, (total x (on_message e from m n) <= cnt x (node_ids n))%nat.
Proof.
  intros e from m n W.
  assert (K : forall s7, cview_of s7 = cview_of (start_S e n) ->
              asorted None (wait_commit (nd s7)) /\ forall x, (total x s7 <= cnt x (node_ids n))%nat).
  { intros s7 C. split.
    - apply (wc_ok_cview s7 (start_S e n) C). exact W.
    - intros x. rewrite (total_cview x _ _ C), total_start. lia. }
  assert (AE_ : forall t c, asorted None (wait_commit (nd (on_append_entries e from m t c (start_S e n)))) /\
             forall x, (total x (on_append_entries e from m t c (start_S e n)) <= cnt x (node_ids n))%nat).
  { intros t c. destruct (step_le_on_append_entries e from m t c (start_S e n) W) as [A B].
    split; auto. intros x. rewrite <- total_start with (e := e). apply B. }
  unfold on_message.
  destruct m as [t lli llt|t|t c prev es|t c prev lab off len en|t c p|c req|req okr a b|t next reset success];
    try apply AE_.
  - (* RequestVote *)
    destruct (self (nd (start_S e n))); [|apply K; reflexivity].
    match goal with |- context [if term (nd (start_S e n)) <? t then ?A else ?B] =>
      set (s1 := if term (nd (start_S e n)) <? t then A else B) end.
    assert (V1 : view_of s1 = view_of (start_S e n)).
    { unfold s1. destruct (term (nd (start_S e n)) <? t); auto.
      rewrite view_upd by reflexivity. rewrite view_set_role. reflexivity. }
    apply view_cview in V1.
    destruct ((role (nd s1) =? FOLLOWER) || (role (nd s1) =? CANDIDATE)); [|now apply K].
    destruct (term (nd s1) <=? t); [|now apply K].
    destruct (llt <? last_term (log (nd s1))); [now apply K|].
    destruct ((llt =? last_term (log (nd s1))) && (lli <? last_idx (log (nd s1)))); [now apply K|].
    destruct (voted (nd s1)); [now apply K|].
    apply K. rewrite cview_send. exact V1.
  - (* ResponseVote *)
    destruct ((role (nd (start_S e n)) =? CANDIDATE) && (t =? term (nd (start_S e n)))); [|apply K; reflexivity].
    match goal with |- context [if ?b then _ else _] => destruct b end.
    + apply K. rewrite (sview_cview _ _ (sview_become_leader _ _)). reflexivity.
    + apply K. reflexivity.
  - (* ApplyCmd: a forwarded command enters the queue with a remote reference *)
    destruct (step_submit e c (match req with Some r => CbRemote from r | None => CbNone end) (start_S e n)) as [A B].
    split. + apply A, W.
    + intros x. rewrite B, total_start. destruct req; cbn [cb_id]; rewrite cnt_nil; lia.
  - (* ApplyResp *)
    destruct (aget req (wait_reply (nd (start_S e n)))) as [cbk|] eqn:G; [|apply K; reflexivity].
    cbn [nd start_S] in G.
    set (s1 := upd (fun n => n <| wait_reply := adel req (wait_reply n) |>) (start_S e n)).
    assert (T1 : forall x, (total x s1 + cnt x (cb_id cbk))%nat = cnt x (node_ids n)).
    { intros x. unfold total, node_ids, s1. cbn [upd nd outs start_S]. cbn.
      change (fired_ids []) with (@nil N). rewrite !cnt_app, cnt_nil.
      pose proof (r_ids_adel x req (wait_reply n) cbk G). lia. }
    destruct (negb okr).
    + split. * rewrite fire_nd. exact W. * intros x. rewrite total_fire, <- (T1 x). lia.
    + destruct (a <=? applied (nd s1)).
      * split. -- rewrite fire_nd. exact W. -- intros x. rewrite total_fire, <- (T1 x). lia.
      * split.
        -- cbn. apply asorted_aset; auto.
        -- intros x. unfold total, node_ids. cbn [upd nd outs]. cbn.
           fold (subs_of a (wait_commit n)). rewrite !cnt_app, c_ids_aset_sub by exact W.
           specialize (T1 x). unfold total, node_ids, s1 in T1. cbn [upd nd outs start_S] in T1. cbn in T1.
           rewrite !cnt_app in T1. lia.
  - (* NextIdx *)
    destruct ((role (nd (start_S e n)) =? LEADER) && (t =? term (nd (start_S e n)))); [|apply K; reflexivity].
    set (s1 := if reset then _ else start_S e n).
    assert (C1 : cview_of s1 = cview_of (start_S e n)) by (unfold s1; destruct reset; reflexivity).
    set (s2 := if success then _ else s1).
    assert (C2 : cview_of s2 = cview_of (start_S e n)).
    { unfold s2. destruct success; auto. destruct (aget from (match_idx (nd s1))); auto.
      destruct (n0 <? next - 1); auto. }
    destruct (ok s2); apply K; auto.
Qed.

(* ---- the remaining events of a node ---- *)
Lemma api_ids : forall (api : env -> cmd -> cbref -> node -> S) e c cbk n,
  (api = api_submit \/ api = api_admin \/ api = api_setver) ->
  asorted None (wait_commit n) ->
  asorted None (wait_commit (nd (api e c cbk n))) /\
  forall x, (total x (api e c cbk n) <= cnt x (node_ids n) + cnt x (cb_id cbk))%nat.
Proof.
  intros api e c cbk n H W.
  assert (SB : asorted None (wait_commit (nd (submit e c cbk (start_S e n)))) /\
               forall x, (total x (submit e c cbk (start_S e n)) <= cnt x (node_ids n) + cnt x (cb_id cbk))%nat).
  { destruct (step_submit e c cbk (start_S e n)) as [A B]. split. - apply A, W.
    - intros x. rewrite B, total_start. lia. }
  assert (RS : asorted None (wait_commit (nd (raise EXC_GENERIC (start_S e n)))) /\
               forall x, (total x (raise EXC_GENERIC (start_S e n)) <= cnt x (node_ids n) + cnt x (cb_id cbk))%nat).
  { split; [exact W|]. intros x. change (total x (raise EXC_GENERIC (start_S e n))) with (total x (start_S e n)).
    rewrite total_start. lia. }
  destruct H as [->|[->| ->]].
  - exact SB.
  - unfold api_admin. destruct (dyn (cf e)); auto.
  - unfold api_setver. destruct ((self_ver n <? ca c) || (ca c <? enabled_ver n)); auto.
Qed.

Lemma node_ids_connected : forall x n, node_ids (on_connected x n) = node_ids n /\
  wait_commit (on_connected x n) = wait_commit n.
Proof. intros. unfold on_connected. destruct (RO_BASE <=? x); split; reflexivity. Qed.

Lemma node_ids_disconnected : forall x n, node_ids (on_disconnected x n) = node_ids n /\
  wait_commit (on_disconnected x n) = wait_commit n.
Proof. intros. unfold on_disconnected. destruct (RO_BASE <=? x); split; reflexivity. Qed.

Lemma total_idle : forall x n, total x (idle_S n) = cnt x (node_ids n).
Proof. intros. unfold total, idle_S. cbn [nd outs]. change (fired_ids []) with (@nil N). rewrite cnt_nil. lia. Qed.

(* ------------------------------------------------------------------ *)
(* the cluster                                                          *)
(* ------------------------------------------------------------------ *)

(* callback ids submitted by an event (0 = no callback) *)
Definition ev_ids (ev : event) : list N :=
  match ev with
  | ESubmit _ _ cb | EAdmin _ _ cb | ESetVer _ _ cb => cb_id (cb_of cb)
  | _ => []
  end.

Definition out_ids (o : option (nid * S)) : list N :=
  match o with Some (_, s) => fired_ids (outs s) | None => [] end.

(* every callback id fired during a run, in order *)
Fixpoint run_fired (c : conf) (g : gstate) (evs : list event) : option (gstate * list N) :=
  match evs with
  | [] => Some (g, [])
  | ev :: r =>
    match gstep c g ev with
    | None => None
    | Some (g', o) =>
      match run_fired c g' r with
      | None => None
      | Some (g'', f) => Some (g'', out_ids o ++ f)
      end
    end
  end.

Lemma run_fired_trace : forall c evs g,
  run_trace c g evs = option_map fst (run_fired c g evs).
Proof.
  induction evs as [|ev r IH]; intros g; cbn; auto.
  destruct (gstep c g ev) as [[g' o]|]; auto. rewrite IH.
  destruct (run_fired c g' r) as [[g'' f]|]; auto.
Qed.

Definition g_ids (g : gstate) : list N := flat_map (fun kv : N * node => node_ids (snd kv)) (nodes g).

Definition G_inv (g : gstate) : Prop :=
  asorted None (nodes g) /\ forall n x, aget n (nodes g) = Some x -> asorted None (wait_commit x).

Lemma nodes_route : forall a os g, nodes (route a os g) = nodes g.
Proof.
  intros a os. induction os as [|o os IH]; intros g; cbn [route fold_left]; auto.
  unfold route in IH. rewrite IH. destruct o; reflexivity.
Qed.

Lemma G_inv_nodes : forall g g', nodes g' = nodes g -> G_inv g -> G_inv g'.
Proof. unfold G_inv. intros g g' H. now rewrite H. Qed.

Lemma g_ids_nodes : forall g g', nodes g' = nodes g -> g_ids g' = g_ids g.
Proof. unfold g_ids. intros g g' H. now rewrite H. Qed.

Lemma node_update : forall g g1 n x0 s extra,
  G_inv g -> nodes g1 = nodes g -> aget n (nodes g) = Some x0 ->
  asorted None (wait_commit (nd s)) ->
  (forall x, (total x s <= cnt x (node_ids x0) + cnt x extra)%nat) ->
  G_inv (finish n s g1) /\
  forall x, (cnt x (g_ids (finish n s g1)) + cnt x (fired_ids (outs s)) <= cnt x (g_ids g) + cnt x extra)%nat.
Proof.
  intros g g1 n x0 s extra [SO WC] NG GET W T.
  assert (NF : nodes (finish n s g1) = aset n (nd s) (nodes g)).
  { unfold finish. rewrite nodes_route. unfold put_node. cbn. now rewrite NG. }
  split.
  - unfold G_inv. rewrite NF. split. + now apply asorted_aset.
    + intros m x. destruct (N.eq_dec m n) as [->|NE].
      * rewrite aget_aset_same. intros E. injection E as <-. exact W.
      * rewrite aget_aset_other by auto. apply WC.
  - intros x. unfold g_ids. rewrite NF.
    pose proof (cnt_aset node_ids x n (nd s) (nodes g) None SO) as A. rewrite GET in A. cbn [oget] in A.
    specialize (T x). unfold total in T. lia.
Qed.

Lemma gstep_ids : forall c g ev g' o,
  G_inv g -> gstep c g ev = Some (g', o) ->
  G_inv g' /\ forall x, (cnt x (g_ids g') + cnt x (out_ids o) <= cnt x (g_ids g) + cnt x (ev_ids ev))%nat.
Proof.
  intros c g ev g' o GI ST. pose proof GI as [SO WC].
  destruct ev as [n now rnd bud ord sl|a b now rnd ord|a b|a b k|a b|n cm cb|n cm cb|n cm cb|n|n|n oth now rnd sv];
    cbn [gstep] in ST.
  - (* ETick *)
    destruct (aget n (nodes g)) as [x0|] eqn:G; [|discriminate]. injection ST as <- <-.
    destruct (on_tick_ids (mk_env c now rnd bud ord sl) x0 (WC _ _ G)) as [A B].
    cbn [out_ids ev_ids]. apply (node_update g g n x0 _ []); auto.
    intros x. rewrite cnt_nil. specialize (B x). lia.
  - (* EDeliver *)
    destruct (aget b (nodes g)) as [x0|] eqn:G; [|discriminate].
    destruct (chan_get a b g) as [|m rest]; [discriminate|]. injection ST as <- <-.
    destruct (on_message_ids (mk_env c now rnd DEFAULT_BUDGET ord 0) a m x0 (WC _ _ G)) as [A B].
    cbn [out_ids ev_ids]. apply (node_update g _ b x0 _ []); auto.
    intros x. rewrite cnt_nil. specialize (B x). lia.
  - (* EDrop *)
    destruct (aget a (nodes g)) as [x0|] eqn:G; [|discriminate]. injection ST as <- <-.
    destruct (node_ids_disconnected b x0) as [A B].
    assert (H1 : asorted None (wait_commit (nd (idle_S (on_disconnected b x0))))) by (cbn; rewrite B; eauto).
    assert (H2 : forall x, (total x (idle_S (on_disconnected b x0)) <= cnt x (node_ids x0) + cnt x [])%nat)
      by (intros x; rewrite total_idle, A, cnt_nil; lia).
    destruct (node_update g g a x0 _ [] GI eq_refl G H1 H2) as [P Q].
    split.
    + eapply G_inv_nodes; [|exact P]. reflexivity.
    + intros x. cbn [out_ids ev_ids].
      match goal with |- (cnt x (g_ids ?G) + _ <= _)%nat => rewrite (g_ids_nodes (finish a (idle_S (on_disconnected b x0)) g) G eq_refl) end.
      apply Q.
  - (* ELose *)
    injection ST as <- <-. split. + eapply G_inv_nodes; [|exact GI]. reflexivity.
    + intros x. cbn [out_ids ev_ids].
      match goal with |- (cnt x (g_ids ?G) + _ <= _)%nat => rewrite (g_ids_nodes g G eq_refl) end. lia.
  - (* EConnect *)
    destruct (aget a (nodes g)) as [x0|] eqn:G; [|discriminate]. injection ST as <- <-.
    destruct (node_ids_connected b x0) as [A B].
    cbn [out_ids ev_ids].
    assert (H1 : asorted None (wait_commit (nd (idle_S (on_connected b x0))))) by (cbn; rewrite B; eauto).
    assert (H2 : forall x, (total x (idle_S (on_connected b x0)) <= cnt x (node_ids x0) + cnt x [])%nat)
      by (intros x; rewrite total_idle, A, cnt_nil; lia).
    apply (node_update g _ a x0 _ [] GI); auto.
    destruct (match aget b (nodes g) with Some y => negb (smem a (tconn y)) | None => true end); reflexivity.
  - (* ESubmit *)
    destruct (aget n (nodes g)) as [x0|] eqn:G; [|discriminate]. injection ST as <- <-.
    destruct (api_ids api_submit (mk_env c 0 0 DEFAULT_BUDGET [] 0) cm (cb_of cb) x0 (or_introl eq_refl) (WC _ _ G)) as [A B].
    cbn [out_ids ev_ids]. apply (node_update g g n x0 _ (cb_id (cb_of cb))); auto.
  - (* EAdmin *)
    destruct (aget n (nodes g)) as [x0|] eqn:G; [|discriminate]. injection ST as <- <-.
    destruct (api_ids api_admin (mk_env c 0 0 DEFAULT_BUDGET [] 0) cm (cb_of cb) x0 (or_intror (or_introl eq_refl)) (WC _ _ G)) as [A B].
    cbn [out_ids ev_ids]. apply (node_update g g n x0 _ (cb_id (cb_of cb))); auto.
  - (* ESetVer *)
    destruct (aget n (nodes g)) as [x0|] eqn:G; [|discriminate]. injection ST as <- <-.
    destruct (api_ids api_setver (mk_env c 0 0 DEFAULT_BUDGET [] 0) cm (cb_of cb) x0 (or_intror (or_intror eq_refl)) (WC _ _ G)) as [A B].
    cbn [out_ids ev_ids]. apply (node_update g g n x0 _ (cb_id (cb_of cb))); auto.
  - (* ECompact *)
    destruct (aget n (nodes g)) as [x0|] eqn:G; [|discriminate]. injection ST as <- <-.
    assert (H1 : asorted None (wait_commit (nd (idle_S (api_compact x0))))) by (cbn; eauto).
    assert (H2 : forall x, (total x (idle_S (api_compact x0)) <= cnt x (node_ids x0) + cnt x [])%nat)
      by (intros x; rewrite total_idle, cnt_nil; unfold api_compact, node_ids; cbn; lia).
    cbn [out_ids ev_ids]. apply (node_update g g n x0 _ [] GI); auto.
  - (* EKill: the node and everything it held are gone *)
    injection ST as <- <-.
    assert (NG : forall g0, nodes g0 = nodes g ->
                 nodes (g0 <| nodes := adel n (nodes g0) |>
                           <| chan := filter (fun c => negb ((fst (fst c) =? n) || (snd (fst c) =? n))) (chan g0) |>)
                 = adel n (nodes g)) by (intros g0 H; cbn; now rewrite H).
    match goal with |- G_inv ?G /\ _ => assert (NN : nodes G = adel n (nodes g)) end.
    { apply NG. destruct (aget n (nodes g)) as [x0|]; auto. destruct (disk_of c x0); reflexivity. }
    split.
    + unfold G_inv. rewrite NN. split. * now apply asorted_adel.
      * intros m x. destruct (N.eq_dec m n) as [->|NE].
        -- rewrite (aget_adel_same _ None) by auto. discriminate.
        -- rewrite aget_adel_other by auto. apply WC.
    + intros x. cbn [out_ids ev_ids]. unfold g_ids. rewrite NN.
      pose proof (cnt_adel node_ids x n (nodes g)). lia.
  - (* ERestart: a fresh object holds no callback *)
    injection ST as <- <-.
    match goal with |- context [put_node n ?X ?G] => set (x1 := X); set (g1 := G) end.
    assert (E1 : node_ids x1 = [] /\ wait_commit x1 = []).
    { unfold x1. destruct (aget n (disks g)) as [d|]; [destruct (if RO_BASE <=? n then None else Some n)|]; auto.
      unfold init_from_disk. destruct (d_log d); split; reflexivity. }
    destruct E1 as [E1 E2].
    assert (NN : nodes (put_node n x1 g1) = aset n x1 (nodes g)) by reflexivity.
    split.
    + unfold G_inv. rewrite NN. split. * now apply asorted_aset.
      * intros m x. destruct (N.eq_dec m n) as [->|NE].
        -- rewrite aget_aset_same. intros E. injection E as <-. rewrite E2. exact I.
        -- rewrite aget_aset_other by auto. apply WC.
    + intros x. cbn [out_ids ev_ids idle_S outs]. change (fired_ids []) with (@nil N). unfold g_ids. rewrite NN.
      pose proof (cnt_aset node_ids x n x1 (nodes g) None SO) as A. rewrite E1, !cnt_nil in *. lia.
Qed.

Lemma G_inv_init : G_inv ginit.
Proof. split. - exact I. - intros n x H. discriminate. Qed.

Theorem run_ids : forall c evs g g' f,
  G_inv g -> run_fired c g evs = Some (g', f) ->
  G_inv g' /\ forall x, (cnt x (g_ids g') + cnt x f <= cnt x (g_ids g) + cnt x (flat_map ev_ids evs))%nat.
Proof.
  induction evs as [|ev r IH]; intros g g' f GI R; cbn [run_fired flat_map] in *.
  - injection R as <- <-. split; auto.
  - destruct (gstep c g ev) as [[g1 o]|] eqn:ST; [|discriminate].
    destruct (run_fired c g1 r) as [[g2 f2]|] eqn:R2; [|discriminate]. injection R as <- <-.
    destruct (gstep_ids _ _ _ _ _ GI ST) as [GI1 L1].
    destruct (IH _ _ _ GI1 R2) as [GI2 L2]. split; auto.
    intros x. rewrite !cnt_app. specialize (L1 x). specialize (L2 x). lia.
Qed.

(* C02_at_most_once: with pairwise distinct callback ids every id is fired at most once in the
   whole run, whatever the schedule: leader changes, forwarding, retries, kills and restarts
   (a killed node forgets its ids: they never fire). *)
Theorem at_most_once : forall (c : conf) (evs : list event) (g' : gstate) (f : list N),
  NoDup (flat_map ev_ids evs) ->
  run_fired c ginit evs = Some (g', f) ->
  NoDup f.
Proof.
  intros c evs g' f ND R.
  destruct (run_ids c evs ginit g' f G_inv_init R) as [_ L].
  apply (NoDup_count_occ N.eq_dec). intros x. specialize (L x).
  rewrite (NoDup_count_occ N.eq_dec) in ND. specialize (ND x).
  unfold cnt, g_ids in *. cbn in L. lia.
Qed.

(* the same from any state whose tables hold distinct ids not used by later submissions *)
Theorem at_most_once_from : forall (c : conf) (evs : list event) (g g' : gstate) (f : list N),
  G_inv g ->
  NoDup (g_ids g ++ flat_map ev_ids evs) ->
  run_fired c g evs = Some (g', f) ->
  NoDup f /\ NoDup (g_ids g' ++ f).
Proof.
  intros c evs g g' f GI ND R.
  destruct (run_ids c evs g g' f GI R) as [_ L].
  rewrite (NoDup_count_occ N.eq_dec) in ND.
  split; apply (NoDup_count_occ N.eq_dec); intros x; specialize (L x); specialize (ND x);
    unfold cnt in *; rewrite ?count_occ_app in *; lia.
Qed.
