(* Tier C7, part 6: non-vacuity.  A run of the Tier C5 fragment with three voters and two read-only nodes:
   node 100 is attached to the leader from the start, receives entries 2..4 by append_entries, applies
   them, compacts its own log and stores its own snapshot; node 101 is started after the leader has cut its
   log, is refused once, receives the leader's snapshot in pieces, installs it (user state := [7],
   applied := 3) and then applies entry 4 from its log.  The one sequence sigma of the theorem explains
   both, at the end of the run and at an earlier moment. *)
From Coq Require Import ZArith NArith List Bool Lia.
From RecordUpdate Require Import RecordSet.
From PSO Require Import Raft.Types Raft.Node Raft.Net Raft.Obs Raft.ProofsApplyBase.
From PSO Require Import Raft.ProofsElectionGhost Raft.RefineAbs Raft.Refine5Abs Raft.Refine5Main Raft.Refine5Final.
From PSO Require Import Raft.Refine5Example Raft.Refine7ROFinal.
Import ListNotations.
Import RecordSetNotations.
Open Scope N_scope.

Definition t7_RO : nid := 100.
Definition t7_RO2 : nid := 101.

(* election of node 1, entry 3 (command 7) committed; the read-only node 100 is connected to node 1 *)
Definition t7_boot : list event :=
  [ERestart 1 [2;3] 0 0 1; ERestart 2 [1;3] 0 0 1; ERestart 3 [1;2] 0 0 1; ERestart t7_RO [1;2;3] 0 0 1;
   EConnect 1 2; EConnect 2 1; EConnect 1 3; EConnect 3 1; EConnect 2 3; EConnect 3 2;
   EConnect 1 t7_RO; EConnect t7_RO 1;
   t5T 50 1; t5D 51 1 3; t5D 52 3 1;
   ELose 1 2 2;
   t5D 53 1 3; t5D 54 3 1;
   ESubmit 1 (t5_cmd 7) 11; t5T 60 1; t5T 71 1;
   t5D 72 1 2;
   t5D 73 1 3; t5D 74 3 1;
   t5T 82 1;
   t5D 83 1 2;
   t5D 84 2 1].

(* node 100 receives entries 2 and 3 and applies them; the leader appends command 8, compacts at 3 and
   cuts its log; node 101 starts, is refused, receives the snapshot in pieces and installs it *)
Definition t7_mid : list event := t7_boot ++
  [t5D 85 1 t7_RO; t5D 85 1 t7_RO; t5D 85 1 t7_RO; t5T 86 t7_RO;
   t5T 93 1;
   ESubmit 1 (t5_cmd 8) 12; t5T 104 1;
   ECompact 1; t5T 115 1;
   t5T 126 1;
   ERestart t7_RO2 [1;2;3] 126 0 1; EConnect 1 t7_RO2; EConnect t7_RO2 1;
   t5T 137 1;
   t5D 138 1 t7_RO2; t5D 139 t7_RO2 1; t5T 148 1;
   t5D 149 1 t7_RO2; t5D 149 1 t7_RO2; t5D 149 1 t7_RO2; t5T 150 t7_RO2;
   t5D 151 1 t7_RO; t5D 151 1 t7_RO; t5D 151 1 t7_RO; t5D 151 1 t7_RO; t5D 151 1 t7_RO; t5T 152 t7_RO].

(* voter 3 acknowledges entry 4, the leader commits it; both read-only nodes apply it; node 100 compacts *)
Definition t7_trace : list event := t7_mid ++
  [t5D 153 1 3; t5D 153 1 3; t5D 153 1 3; t5D 153 1 3; t5D 153 1 3; t5D 153 1 3; t5D 153 1 3;
   t5D 154 3 1; t5D 154 3 1; t5D 154 3 1; t5D 154 3 1; t5D 154 3 1; t5D 154 3 1; t5D 154 3 1;
   t5T 160 1;
   t5D 161 1 t7_RO2; t5T 162 t7_RO2; t5D 163 1 t7_RO; t5D 163 1 t7_RO; t5T 164 t7_RO;
   ECompact t7_RO; t5T 170 t7_RO; t5T 180 t7_RO].

Example t7_in_fragment : core_frag5 t5_conf t5_V t7_trace.
Proof. repeat split; vm_compute; reflexivity. Qed.

Definition t7_snap (x : node) : option (list N * N) :=
  match stored (sr x) with Some (Good sn) => Some (s_hist sn, eidx (s_e1 sn)) | _ => None end.

(* what happened in the run *)
Example t7_runs :
  exists gm m100 m101 g n1 n3 n100 n101,
    run_trace t5_conf ginit t7_mid = Some gm /\
    aget t7_RO (nodes gm) = Some m100 /\ aget t7_RO2 (nodes gm) = Some m101 /\
    run_trace t5_conf ginit t7_trace = Some g /\
    aget 1 (nodes g) = Some n1 /\ aget 3 (nodes g) = Some n3 /\
    aget t7_RO (nodes g) = Some n100 /\ aget t7_RO2 (nodes g) = Some n101 /\
    (* in the middle: 100 has applied entry 3 from its log, 101 has installed the leader's snapshot *)
    (self m100, hist m100, applied m100, t5_view m100) = (None, [7], 3, [(0, 1, 0); (0, 2, 1); (7, 3, 1); (8, 4, 1)]) /\
    (self m101, hist m101, applied m101, t5_view m101, t7_snap m101) =
      (None, [7], 3, [(0, 2, 1); (7, 3, 1); (8, 4, 1)], Some ([7], 3)) /\
    (* at the end *)
    (role n1, hist n1, applied n1) = (LEADER, [7; 8], 4) /\ (hist n3, applied n3) = ([], 1) /\
    (hist n100, applied n100, t5_view n100, t7_snap n100) = ([7; 8], 4, [(7, 3, 1); (8, 4, 1)], Some ([7; 8], 4)) /\
    (hist n101, applied n101, t5_view n101, t7_snap n101) = ([7; 8], 4, [(0, 2, 1); (7, 3, 1); (8, 4, 1)], Some ([7], 3)).
Proof.
  do 8 eexists.
  split; [vm_compute; reflexivity|]. split; [vm_compute; reflexivity|]. split; [vm_compute; reflexivity|].
  split; [vm_compute; reflexivity|]. split; [vm_compute; reflexivity|]. split; [vm_compute; reflexivity|].
  split; [vm_compute; reflexivity|]. split; [vm_compute; reflexivity|].
  vm_compute. repeat split; reflexivity.
Qed.

(* reading the theorem at a moment where [applied] is known *)
Lemma at_moment7 c sigma evs :
  (forall evs1 evs2 g x n, evs = evs1 ++ evs2 -> run_trace c ginit evs1 = Some g ->
     aget x (nodes g) = Some n ->
     exists k, hist n = replay (firstn k sigma) /\ N.of_nat k + 1 = applied n) ->
  forall evs1 evs2 g x n (a : nat), evs = evs1 ++ evs2 -> run_trace c ginit evs1 = Some g ->
    aget x (nodes g) = Some n -> applied n = N.of_nat a + 1 ->
    hist n = replay (firstn a sigma).
Proof.
  intros H evs1 evs2 g x n a E R Hx Ea.
  destruct (H evs1 evs2 g x n E R Hx) as (k & Hk & Ek).
  assert (k = a) by lia. subst. exact Hk.
Qed.

(* ONE sigma explains the leader, the voter that has applied nothing, and both read-only nodes, at the
   end of the run and in the middle; and the snapshots the read-only nodes store *)
Example t7_one_sequence :
  exists sigma,
    (exists g n1 n3 n100 n101,
       run_trace t5_conf ginit t7_trace = Some g /\
       aget 1 (nodes g) = Some n1 /\ aget 3 (nodes g) = Some n3 /\
       aget t7_RO (nodes g) = Some n100 /\ aget t7_RO2 (nodes g) = Some n101 /\
       hist n1 = replay (firstn 3 sigma) /\ hist n3 = replay (firstn 0 sigma) /\
       hist n100 = replay (firstn 3 sigma) /\ hist n101 = replay (firstn 3 sigma) /\
       hist n100 = [7; 8] /\ hist n101 = [7; 8] /\
       (forall sn, stored (sr n100) = Some (Good sn) ->
          exists k, s_hist sn = replay (firstn k sigma) /\ N.of_nat k + 1 = eidx (s_e1 sn)) /\
       (forall sn, stored (sr n101) = Some (Good sn) ->
          exists k, s_hist sn = replay (firstn k sigma) /\ N.of_nat k + 1 = eidx (s_e1 sn))) /\
    (exists gm m100 m101,
       run_trace t5_conf ginit t7_mid = Some gm /\
       aget t7_RO (nodes gm) = Some m100 /\ aget t7_RO2 (nodes gm) = Some m101 /\
       hist m100 = replay (firstn 2 sigma) /\ hist m101 = replay (firstn 2 sigma) /\
       hist m100 = [7] /\ hist m101 = [7]).
Proof.
  destruct t7_in_fragment as (A & C & D & E).
  destruct (TierC7_one_common_sequence_all_snapshots t5_conf t5_V t7_trace A C D E) as (sigma & H).
  assert (H' : forall evs1 evs2 g x n, t7_trace = evs1 ++ evs2 -> run_trace t5_conf ginit evs1 = Some g ->
     aget x (nodes g) = Some n ->
     exists k, hist n = replay (firstn k sigma) /\ N.of_nat k + 1 = applied n).
  { intros evs1 evs2 g x n E1 R Hx. apply (H evs1 evs2 g x n E1 R Hx). }
  pose proof (at_moment7 t5_conf sigma t7_trace H') as M.
  exists sigma. split.
  - do 5 eexists.
    split; [vm_compute; reflexivity|]. split; [vm_compute; reflexivity|]. split; [vm_compute; reflexivity|].
    split; [vm_compute; reflexivity|]. split; [vm_compute; reflexivity|].
    split; [eapply (M t7_trace [] _ 1 _ 3%nat); [symmetry; apply app_nil_r|vm_compute; reflexivity|vm_compute; reflexivity|reflexivity]|].
    split; [eapply (M t7_trace [] _ 3 _ 0%nat); [symmetry; apply app_nil_r|vm_compute; reflexivity|vm_compute; reflexivity|reflexivity]|].
    split; [eapply (M t7_trace [] _ t7_RO _ 3%nat); [symmetry; apply app_nil_r|vm_compute; reflexivity|vm_compute; reflexivity|reflexivity]|].
    split; [eapply (M t7_trace [] _ t7_RO2 _ 3%nat); [symmetry; apply app_nil_r|vm_compute; reflexivity|vm_compute; reflexivity|reflexivity]|].
    split; [reflexivity|]. split; [reflexivity|].
    split.
    + eapply (H t7_trace [] _ t7_RO _); [symmetry; apply app_nil_r|vm_compute; reflexivity|vm_compute; reflexivity].
    + eapply (H t7_trace [] _ t7_RO2 _); [symmetry; apply app_nil_r|vm_compute; reflexivity|vm_compute; reflexivity].
  - do 3 eexists.
    split; [vm_compute; reflexivity|]. split; [vm_compute; reflexivity|]. split; [vm_compute; reflexivity|].
    split; [eapply (M t7_mid _ _ t7_RO _ 2%nat); [reflexivity|vm_compute; reflexivity|vm_compute; reflexivity|reflexivity]|].
    split; [eapply (M t7_mid _ _ t7_RO2 _ 2%nat); [reflexivity|vm_compute; reflexivity|vm_compute; reflexivity|reflexivity]|].
    split; reflexivity.
Qed.

(* C18 instance: the read-only node that installed a snapshot and the leader agree on every applied entry *)
Example t7_agree_instance :
  forall g n1 n101 ea eb, run_trace t5_conf ginit t7_trace = Some g ->
    aget 1 (nodes g) = Some n1 -> aget t7_RO2 (nodes g) = Some n101 ->
    In ea (log n1) -> In eb (log n101) -> eidx ea = eidx eb -> eidx ea <= applied n1 -> eidx ea <= applied n101 ->
    ea = eb.
Proof.
  intros g n1 n101 ea eb Hr H1 H2.
  destruct t7_in_fragment as (A & C & D & E).
  apply (TierC7_applied_entries_agree_all t5_conf t5_V t7_trace g 1 t7_RO2 n1 n101 ea eb A C D E Hr H1 H2).
Qed.
