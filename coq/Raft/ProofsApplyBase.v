(* The apply loop of the L1 model (apply_one / apply_list / apply_entries):
   exact characterisation, used by C12 (raising methods), C01 (local part) and C02. *)
From Coq Require Import ZArith NArith List Bool Lia.
From RecordUpdate Require Import RecordSet.
From PSO Require Import Raft.Types Raft.Node Raft.Net.
Import ListNotations.
Import RecordSetNotations.
Open Scope N_scope.

(* ------------------------------------------------------------------ *)
(* vocabulary                                                           *)
(* ------------------------------------------------------------------ *)

(* the entry needs a code version the node does not have *)
Definition needs_ver (sv : N) (c : cmd) : bool := (ck c =? 3) && (sv <? ca c).

(* a REGULAR command whose method raises *)
Definition raises (c : cmd) : bool := (ck c =? 0) && (cb c =? 1).

(* the prefix of es the apply loop gets through: everything before the first blocker *)
Fixpoint runnable (sv : N) (es : list entry) : list entry :=
  match es with
  | [] => []
  | e :: r => if needs_ver sv (ecmd e) then [] else e :: runnable sv r
  end.

(* the first blocker, if any *)
Fixpoint blocker (sv : N) (es : list entry) : option entry :=
  match es with
  | [] => None
  | e :: r => if needs_ver sv (ecmd e) then Some e else blocker sv r
  end.

(* effect of one command on the user state (the list of executed command ids) *)
Definition cmd_effect (c : cmd) : list N :=
  if (ck c =? 0) && negb (cb c =? 1) then [ca c] else [].

Definition replay (es : list entry) : list N := flat_map (fun e => cmd_effect (ecmd e)) es.

(* enabled code version after executing es *)
Definition ver_after (v : N) (es : list entry) : N :=
  fold_left (fun v e => if ck (ecmd e) =? 3 then ca (ecmd e) else v) es v.

(* what the callbacks of one applied entry are told: h = user state before the entry *)
Definition result_of (h : list N) (c : cmd) : N :=
  if ck c =? 0 then
    if cb c =? 1 then 1 (* the exception object *)
    else N.of_nat (length (h ++ [ca c])) + 1
  else 0.

Definition fire_out (c : cbref) (res err : N) : list out :=
  match c with CbLocal id => [Fired id res err] | _ => [] end.

Definition sub_out (en : entry) (r : N) (tc : N * cbref) : list out :=
  if fst tc =? eterm en then fire_out (snd tc) r SUCCESS else fire_out (snd tc) 0 DISCARDED.

Definition subs_of (i : N) (wc : list (N * list (N * cbref))) : list (N * cbref) :=
  match aget i wc with Some l => l | None => [] end.

(* ------------------------------------------------------------------ *)
(* small facts                                                          *)
(* ------------------------------------------------------------------ *)

Lemma runnable_app_full : forall sv a b,
  runnable sv a = a -> runnable sv (a ++ b) = a ++ runnable sv b.
Proof.
  induction a as [|e a IH]; intros b H; cbn in *; auto.
  destruct (needs_ver sv (ecmd e)); [discriminate|].
  injection H as H. now rewrite IH.
Qed.

Lemma runnable_app_blocked : forall sv a b,
  runnable sv a <> a -> runnable sv (a ++ b) = runnable sv a.
Proof.
  induction a as [|e a IH]; intros b H; cbn in *; [congruence|].
  destruct (needs_ver sv (ecmd e)); auto.
  f_equal. apply IH. congruence.
Qed.

Lemma runnable_idem : forall sv es, runnable sv (runnable sv es) = runnable sv es.
Proof.
  induction es as [|e r IH]; cbn; auto.
  destruct (needs_ver sv (ecmd e)) eqn:E; cbn; auto. now rewrite E, IH.
Qed.

Lemma runnable_prefix : forall sv es, exists tl, es = runnable sv es ++ tl.
Proof.
  induction es as [|e r [tl IH]]; cbn. { now exists []. }
  destruct (needs_ver sv (ecmd e)). { now exists (e :: r). }
  exists tl. cbn. now f_equal.
Qed.

Lemma runnable_blocker : forall sv es,
  match blocker sv es with
  | None => runnable sv es = es
  | Some b => exists tl, es = runnable sv es ++ b :: tl /\ needs_ver sv (ecmd b) = true
  end.
Proof.
  induction es as [|e r IH]; cbn; auto.
  destruct (needs_ver sv (ecmd e)) eqn:E.
  - exists r. auto.
  - destruct (blocker sv r).
    + destruct IH as [tl [H1 H2]]. exists tl. split; auto. cbn. now f_equal.
    + now f_equal.
Qed.

Lemma runnable_none : forall sv es, (forall e, In e es -> needs_ver sv (ecmd e) = false) -> runnable sv es = es.
Proof.
  induction es as [|e r IH]; intros H; cbn; auto.
  rewrite (H e (or_introl eq_refl)). f_equal. apply IH. intros; apply H; now right.
Qed.

Lemma replay_app : forall a b, replay (a ++ b) = replay a ++ replay b.
Proof. intros. unfold replay. now rewrite flat_map_app. Qed.

Lemma ver_after_app : forall v a b, ver_after v (a ++ b) = ver_after (ver_after v a) b.
Proof. intros. unfold ver_after. now rewrite fold_left_app. Qed.

Lemma raises_effect : forall c, raises c = true -> cmd_effect c = [].
Proof.
  unfold raises, cmd_effect. intros c H. apply andb_prop in H as [H1 H2]. now rewrite H1, H2.
Qed.

(* ------------------------------------------------------------------ *)
(* fire and the subscriber loop                                         *)
(* ------------------------------------------------------------------ *)

Lemma fire_nd : forall c r e s, nd (fire c r e s) = nd s.
Proof. destruct c; reflexivity. Qed.
Lemma fire_exc : forall c r e s, exc (fire c r e s) = exc s.
Proof. destruct c; reflexivity. Qed.
Lemma fire_tnow : forall c r e s, tnow (fire c r e s) = tnow s.
Proof. destruct c; reflexivity. Qed.
Lemma fire_outs : forall c r e s, outs (fire c r e s) = outs s ++ fire_out c r e.
Proof. destruct c; cbn; intros; now rewrite ?app_nil_r. Qed.
Lemma fire_rest : forall c r e s,
  used (fire c r e s) = used s /\ jmp (fire c r e s) = jmp s /\ njmp (fire c r e s) = njmp s.
Proof. destruct c; cbn; auto. Qed.

Definition sub_loop (en : entry) (r : N) (subs : list (N * cbref)) (s : S) : S :=
  fold_left (fun s tc => if fst tc =? eterm en then fire (snd tc) r SUCCESS s
                         else fire (snd tc) 0 DISCARDED s) subs s.

Definition sub_step (en : entry) (r : N) (tc : N * cbref) (s : S) : S :=
  if fst tc =? eterm en then fire (snd tc) r SUCCESS s else fire (snd tc) 0 DISCARDED s.

Lemma sub_loop_cons : forall en r tc subs s,
  sub_loop en r (tc :: subs) s = sub_loop en r subs (sub_step en r tc s).
Proof. reflexivity. Qed.

Lemma sub_step_spec : forall en r tc s,
  nd (sub_step en r tc s) = nd s /\
  exc (sub_step en r tc s) = exc s /\
  tnow (sub_step en r tc s) = tnow s /\
  used (sub_step en r tc s) = used s /\
  jmp (sub_step en r tc s) = jmp s /\
  njmp (sub_step en r tc s) = njmp s /\
  outs (sub_step en r tc s) = outs s ++ sub_out en r tc.
Proof.
  intros. unfold sub_step, sub_out.
  destruct (fst tc =? eterm en); rewrite fire_nd, fire_exc, fire_tnow, fire_outs;
    match goal with |- context [fire ?c ?a ?b s] => destruct (fire_rest c a b s) as (F1 & F2 & F3) end;
    rewrite F1, F2, F3; auto 10.
Qed.

Lemma sub_loop_spec : forall en r subs s,
  nd (sub_loop en r subs s) = nd s /\
  exc (sub_loop en r subs s) = exc s /\
  tnow (sub_loop en r subs s) = tnow s /\
  used (sub_loop en r subs s) = used s /\
  jmp (sub_loop en r subs s) = jmp s /\
  njmp (sub_loop en r subs s) = njmp s /\
  outs (sub_loop en r subs s) = outs s ++ flat_map (sub_out en r) subs.
Proof.
  induction subs as [|tc subs IH]; intros s.
  - cbn. now rewrite app_nil_r.
  - rewrite sub_loop_cons.
    destruct (IH (sub_step en r tc s)) as (H1 & H2 & H3 & H4 & H5 & H6 & H7).
    destruct (sub_step_spec en r tc s) as (G1 & G2 & G3 & G4 & G5 & G6 & G7).
    rewrite H1, H2, H3, H4, H5, H6, H7, G1, G2, G3, G4, G5, G6, G7.
    cbn [flat_map]. rewrite <- app_assoc. auto 10.
Qed.

(* ------------------------------------------------------------------ *)
(* the part of a handler state the callback / apply theorems talk about *)
(* ------------------------------------------------------------------ *)

(* the Fired outputs, in order: (callback id, result, FAIL_REASON) *)
Definition fired (os : list out) : list (N * N * N) :=
  flat_map (fun o => match o with Fired c r e => [(c, r, e)] | _ => [] end) os.

Lemma fired_app : forall a b, fired (a ++ b) = fired a ++ fired b.
Proof. intros. unfold fired. now rewrite flat_map_app. Qed.

Lemma fired_nil : fired [] = [].
Proof. reflexivity. Qed.

(* the apply_command_response messages sent, in order: (dst, request id, ok, a, b) *)
Definition aresps (os : list out) : list (nid * N * bool * N * N) :=
  flat_map (fun o => match o with Send d (ApplyResp q k a b) => [(d, q, k, a, b)] | _ => [] end) os.

Lemma aresps_app : forall a b, aresps (a ++ b) = aresps a ++ aresps b.
Proof. intros. unfold aresps. now rewrite flat_map_app. Qed.

Definition nview (n : node) :=
  (queue n, wait_reply n, wait_commit n, hist n, applied n, enabled_ver n, self_ver n, local_ctr n,
   log n, stored (sr n), pid (sr n), cur_id (sr n)).

(* the full view: callback tables, user state, log, stored snapshot, Fired outputs *)
Definition view_of (s : S) :=
  (queue (nd s), wait_reply (nd s), wait_commit (nd s), hist (nd s), applied (nd s),
   enabled_ver (nd s), self_ver (nd s), local_ctr (nd s), fired (outs s),
   log (nd s), stored (sr (nd s)), aresps (outs s), pid (sr (nd s)), cur_id (sr (nd s))).

Lemma view_of_eq : forall s s', nview (nd s) = nview (nd s') -> fired (outs s) = fired (outs s') ->
  aresps (outs s) = aresps (outs s') -> view_of s = view_of s'.
Proof. unfold view_of, nview. intros s s' H F A. injection H as -> -> -> -> -> -> -> -> -> -> -> ->. now rewrite F, A. Qed.

Lemma view_inv_sr : forall s s', view_of s = view_of s' ->
  pid (sr (nd s)) = pid (sr (nd s')) /\ cur_id (sr (nd s)) = cur_id (sr (nd s')).
Proof. unfold view_of. intros s s' H. injection H. auto. Qed.

Lemma view_inv : forall s s', view_of s = view_of s' ->
  queue (nd s) = queue (nd s') /\ wait_reply (nd s) = wait_reply (nd s') /\
  wait_commit (nd s) = wait_commit (nd s') /\ hist (nd s) = hist (nd s') /\
  applied (nd s) = applied (nd s') /\ enabled_ver (nd s) = enabled_ver (nd s') /\
  self_ver (nd s) = self_ver (nd s') /\ local_ctr (nd s) = local_ctr (nd s') /\
  fired (outs s) = fired (outs s') /\ log (nd s) = log (nd s') /\ stored (sr (nd s)) = stored (sr (nd s')) /\
  aresps (outs s) = aresps (outs s').
Proof. unfold view_of. intros s s' H. injection H. auto 16. Qed.

(* the same without the log and the stored snapshot *)
Definition snview (n : node) :=
  (queue n, wait_reply n, wait_commit n, hist n, applied n, enabled_ver n, self_ver n, local_ctr n).

Definition sview_of (s : S) :=
  (queue (nd s), wait_reply (nd s), wait_commit (nd s), hist (nd s), applied (nd s),
   enabled_ver (nd s), self_ver (nd s), local_ctr (nd s), fired (outs s), aresps (outs s)).

Lemma sview_of_eq : forall s s', snview (nd s) = snview (nd s') -> fired (outs s) = fired (outs s') ->
  aresps (outs s) = aresps (outs s') -> sview_of s = sview_of s'.
Proof. unfold sview_of, snview. intros s s' H F A. injection H as -> -> -> -> -> -> -> ->. now rewrite F, A. Qed.

Lemma sview_inv : forall s s', sview_of s = sview_of s' ->
  queue (nd s) = queue (nd s') /\ wait_reply (nd s) = wait_reply (nd s') /\
  wait_commit (nd s) = wait_commit (nd s') /\ hist (nd s) = hist (nd s') /\
  applied (nd s) = applied (nd s') /\ enabled_ver (nd s) = enabled_ver (nd s') /\
  self_ver (nd s) = self_ver (nd s') /\ local_ctr (nd s) = local_ctr (nd s') /\
  fired (outs s) = fired (outs s') /\ aresps (outs s) = aresps (outs s').
Proof. unfold sview_of. intros s s' H. injection H. auto 12. Qed.

Lemma view_sview : forall s s', view_of s = view_of s' -> sview_of s = sview_of s'.
Proof.
  intros s s' H. apply view_inv in H as (H1 & H2 & H3 & H4 & H5 & H6 & H7 & H8 & H9 & _ & _ & H12).
  unfold sview_of. now rewrite H1, H2, H3, H4, H5, H6, H7, H8, H9, H12.
Qed.

(* a helper that neither touches the callback tables / user state nor fires a callback *)
Definition quiet (f : S -> S) : Prop := forall s, view_of (f s) = view_of s.

Lemma view_upd : forall f s, nview (f (nd s)) = nview (nd s) -> view_of (upd f s) = view_of s.
Proof. intros. apply view_of_eq; auto. Qed.

Lemma view_emit : forall o s, fired [o] = [] -> aresps [o] = [] -> view_of (emit o s) = view_of s.
Proof.
  intros o s H A. apply view_of_eq; auto; cbn.
  - rewrite fired_app, H. now rewrite app_nil_r.
  - rewrite aresps_app, A. now rewrite app_nil_r.
Qed.

Lemma view_send : forall d m s, aresps [Send d m] = [] -> view_of (send d m s) = view_of s.
Proof. intros. unfold send. destruct (smem d (tconn (nd s))); auto. now apply view_emit. Qed.

Lemma view_raise : forall c s, view_of (raise c s) = view_of s.
Proof. reflexivity. Qed.

Lemma view_set_role : forall r s, view_of (set_role r s) = view_of s.
Proof.
  intros. unfold set_role. destruct (role (nd s) =? r).
  - now apply view_upd.
  - rewrite view_emit by reflexivity. now apply view_upd.
Qed.

Lemma view_send_next_idx : forall d nx r su s, view_of (send_next_idx d nx r su s) = view_of s.
Proof. intros. unfold send_next_idx. now apply view_send. Qed.

Lemma view_fold : forall {A} (f : S -> A -> S) (l : list A),
  (forall a s, view_of (f s a) = view_of s) -> forall s, view_of (fold_left f l s) = view_of s.
Proof.
  induction l as [|a l IH]; intros H s; cbn; auto. rewrite IH; auto.
Qed.

Lemma view_andthen : forall f g, quiet f -> quiet g -> quiet (f ;; g).
Proof.
  intros f g Hf Hg s. unfold andthen. destruct (ok (f s)); [rewrite Hg|]; apply Hf.
Qed.

Lemma view_do_change_cluster : forall a x r s, view_of (fst (do_change_cluster a x r s)) = view_of s.
Proof.
  intros. unfold do_change_cluster.
  destruct (xorb a r).
  - destruct (self_is x (nd s) || smem x (others (nd s))); cbn [fst]; auto.
    rewrite view_emit by reflexivity.
    apply view_of_eq; auto. cbn. destruct (role (nd s) =? LEADER); reflexivity.
  - destruct (self_is x (nd s)); cbn [fst]; auto.
    destruct (negb (smem x (others (nd s)))); cbn [fst]; auto.
    rewrite view_emit by reflexivity. apply view_of_eq; auto.
Qed.

Lemma exc_do_change_cluster : forall a x r s, exc (fst (do_change_cluster a x r s)) = exc s.
Proof.
  intros. unfold do_change_cluster.
  repeat match goal with |- context [if ?b then _ else _] => destruct b end; reflexivity.
Qed.

Lemma view_apply_membership : forall r es s, view_of (apply_membership r es s) = view_of s.
Proof.
  intros. unfold apply_membership. apply view_fold. intros e s0.
  destruct (membership_of (ecmd e)) as [[a x]|]; auto. apply view_do_change_cluster.
Qed.

Lemma view_update_cluster : forall new s, view_of (update_cluster new s) = view_of s.
Proof.
  intros. unfold update_cluster.
  rewrite view_fold.
  - rewrite view_upd by reflexivity. rewrite view_fold; auto.
    intros a s0. rewrite view_emit by reflexivity. now apply view_upd.
  - intros a s0. rewrite view_upd by reflexivity. now apply view_emit.
Qed.

(* the callback-only part (load_dump replaces the user state but keeps this) *)
Definition cview_of (s : S) :=
  (queue (nd s), wait_reply (nd s), wait_commit (nd s), local_ctr (nd s), self_ver (nd s), fired (outs s)).

Lemma sview_cview : forall s s', sview_of s = sview_of s' -> cview_of s = cview_of s'.
Proof.
  intros s s' H. apply sview_inv in H as (H1 & H2 & H3 & H4 & H5 & H6 & H7 & H8 & H9 & _).
  unfold cview_of. now rewrite H1, H2, H3, H7, H8, H9.
Qed.

Lemma view_cview : forall s s', view_of s = view_of s' -> cview_of s = cview_of s'.
Proof. intros. now apply sview_cview, view_sview. Qed.

Lemma cview_inv : forall s s', cview_of s = cview_of s' ->
  queue (nd s) = queue (nd s') /\ wait_reply (nd s) = wait_reply (nd s') /\
  wait_commit (nd s) = wait_commit (nd s') /\ local_ctr (nd s) = local_ctr (nd s') /\
  self_ver (nd s) = self_ver (nd s') /\ fired (outs s) = fired (outs s').
Proof. unfold cview_of. intros s s' H. injection H. auto 12. Qed.


(* ---- the same primitives for the small view ---- *)
Definition squiet (f : S -> S) : Prop := forall s, sview_of (f s) = sview_of s.

Lemma quiet_squiet : forall f, quiet f -> squiet f.
Proof. intros f H s. apply view_sview, H. Qed.

Lemma sview_upd : forall f s, snview (f (nd s)) = snview (nd s) -> sview_of (upd f s) = sview_of s.
Proof. intros. apply sview_of_eq; auto. Qed.

Lemma sview_andthen : forall f g, squiet f -> squiet g -> squiet (f ;; g).
Proof.
  intros f g Hf Hg s. unfold andthen. destruct (ok (f s)); [rewrite Hg|]; apply Hf.
Qed.

Lemma sview_fold : forall {A} (f : S -> A -> S) (l : list A),
  (forall a s, sview_of (f s a) = sview_of s) -> forall s, sview_of (fold_left f l s) = sview_of s.
Proof.
  induction l as [|a l IH]; intros H s; cbn; auto. rewrite IH; auto.
Qed.

(* ---- serializer ---- *)
Lemma view_get_transmission : forall e x s, view_of (fst (get_transmission e x s)) = view_of s.
Proof.
  intros. unfold get_transmission.
  destruct (negb (pid (sr (nd s)) =? 0)); cbn [fst]; auto.
  destruct (match aget x (trans (sr (nd s))) with Some t => Some t | None => _ end) as [[b off]|]; cbn [fst]; auto.
Qed.

Lemma view_cancel_transmission : forall x s, view_of (cancel_transmission x s) = view_of s.
Proof. intros. unfold cancel_transmission. now apply view_upd. Qed.

Lemma sview_set_transmission : forall p s, sview_of (fst (set_transmission p s)) = sview_of s.
Proof.
  intros. unfold set_transmission. destruct p as [|b off len first last]; cbn [fst]; auto.
  destruct (if first then Some [] else incoming (sr (nd s))); cbn [fst]; auto.
  destruct last; [destruct (snap_ahead _ _)|]; cbn [fst]; now apply sview_upd.
Qed.

Lemma log_set_transmission : forall p s, log (nd (fst (set_transmission p s))) = log (nd s).
Proof.
  intros. unfold set_transmission. destruct p as [|b off len first last]; cbn [fst]; auto.
  destruct (if first then Some [] else incoming (sr (nd s))); cbn [fst]; auto.
  destruct last; [destruct (snap_ahead _ _)|]; reflexivity.
Qed.

(* ---- __sendAppendEntries ---- *)
Lemma view_delta_read : forall e s, view_of (delta_read e s) = view_of s.
Proof.
  intros. unfold delta_read.
  destruct ((budget e <? used s + 1) && negb (jmp (s <| used := used s + 1 |>))); reflexivity.
Qed.

Lemma view_send_pieces : forall fuel x e prev b pos s, view_of (send_pieces fuel x e prev b pos s) = view_of s.
Proof.
  induction fuel as [|f IH]; intros; cbn [send_pieces]; auto.
  destruct (psize e <=? pos); auto. rewrite IH. now apply view_send.
Qed.

Lemma view_ae_body : forall e x next s, view_of (fst (ae_body e x next s)) = view_of s.
Proof.
  intros. unfold ae_body.
  destruct (first_idx (log (nd s)) <? next).
  - destruct (next <=? last_idx (log (nd s))).
    + match goal with |- context [get_entries ?l ?a ?b ?c] => generalize (get_entries l a b c) end.
      intros es. destruct es as [|e1 [|e2 r]]; cbn [fst].
      * rewrite view_send by reflexivity. now apply view_upd.
      * destruct (batch (cf e) <=? csz (ecmd e1)); cbn [fst].
        -- rewrite view_send_pieces. now apply view_upd.
        -- rewrite view_send by reflexivity. now apply view_upd.
      * rewrite view_send by reflexivity. now apply view_upd.
    + cbn [fst]. now apply view_send.
  - destruct (get_transmission e x s) as [s1 td] eqn:G.
    assert (V : view_of s1 = view_of s) by (change s1 with (fst (s1, td)); rewrite <- G; apply view_get_transmission).
    destruct td as [|b off len first last]; cbn [fst].
    + now rewrite view_send by reflexivity.
    + destruct last; cbn [fst].
      * destruct (log (nd (send x (AESnap (term (nd s)) (commit (nd s)) (SData b off len first true)) s1))) as [|a [|e1 r]]; cbn [fst];
          rewrite ?view_raise; try (rewrite view_upd by reflexivity); now rewrite view_send by reflexivity.
      * now rewrite view_send by reflexivity.
Qed.

Lemma view_ae_loop : forall fuel e start x single ser_ s, view_of (ae_loop fuel e start x single ser_ s) = view_of s.
Proof.
  induction fuel as [|f IH]; intros; cbn [ae_loop]; auto.
  destruct (aget x (next_idx (nd s))) as [next|]; auto.
  destruct ((next <=? last_idx (log (nd s))) || single || ser_); auto.
  destruct (ae_body e x next s) as [s1 ser'] eqn:B.
  assert (V : view_of s1 = view_of s) by (change s1 with (fst (s1, ser')); rewrite <- B; apply view_ae_body).
  destruct (ok s1); auto.
  destruct (period (cf e) <? tnow (delta_read e s1) - start)%Z.
  - now rewrite view_delta_read.
  - now rewrite IH, view_delta_read.
Qed.

Lemma view_send_ae : forall e s, view_of (send_ae e s) = view_of s.
Proof.
  intros. unfold send_ae.
  rewrite view_fold.
  - rewrite view_upd by reflexivity. reflexivity.
  - intros x s0. destruct (ok s0); auto.
    destruct (negb (smem x (connected (nd s0)))).
    + apply view_cancel_transmission.
    + apply view_ae_loop.
Qed.

Lemma quiet_send_ae : forall e, quiet (send_ae e).
Proof. intros e s. apply view_send_ae. Qed.

Lemma nview_fold_leader : forall (l : list nid) now n,
  nview (fold_left (fun n x => n <| next_idx := aset x (last_idx (log n) + 1) (next_idx n) |>
                                 <| match_idx := aset x 0 (match_idx n) |>
                                 <| last_resp := aset x now (last_resp n) |>
                                 <| sr := (sr n) <| trans := adel x (trans (sr n)) |> |>) l n) = nview n.
Proof. induction l as [|x l IH]; intros; cbn [fold_left]; auto. now rewrite IH. Qed.

Lemma sview_become_leader : forall e s, sview_of (become_leader e s) = sview_of s.
Proof.
  intros. unfold become_leader.
  rewrite (sview_andthen _ _ (quiet_squiet _ (fun s => match use_batch (cf e) as b return
              view_of ((if b then (fun s => s) else send_ae e) s) = view_of s with
              | true => eq_refl | false => view_send_ae e s end)) (quiet_squiet _ (quiet_send_ae e))).
  rewrite sview_upd by reflexivity.
  apply view_sview.
  rewrite view_upd by (cbv beta; apply nview_fold_leader).
  rewrite view_upd by reflexivity.
  rewrite view_set_role. now apply view_upd.
Qed.

(* ---- tick phases ---- *)
Lemma view_commit_loop : forall fuel ci next s, view_of (fst (commit_loop fuel ci next s)) = view_of s.
Proof.
  induction fuel as [|f IH]; intros; cbn [commit_loop fst]; auto.
  destruct (ci <? last_idx (log (nd s))); cbn [fst]; auto.
  match goal with |- context [if existsb ?f ?l then _ else _] => destruct (existsb f l) end; cbn [fst]; auto.
  match goal with |- context [if negb ?b then _ else _] => destruct (negb b) end; cbn [fst]; auto.
  destruct (get_entries (log (nd s)) (Some (ci + 1)) (Some 1) None) as [|en r]; auto.
  destruct (eterm en =? term (nd s)); auto.
Qed.

Lemma view_tick_leader : forall e s, view_of (tick_leader e s) = view_of s.
Proof.
  intros. unfold tick_leader.
  destruct (role (nd s) =? LEADER); auto.
  destruct (commit_loop _ (commit (nd s)) (commit (nd s)) s) as [s1 nc] eqn:C.
  assert (V : view_of s1 = view_of s) by (change s1 with (fst (s1, nc)); rewrite <- C; apply view_commit_loop).
  destruct (ok s1); auto.
  set (s2 := if commit (nd s1) =? nc then s1 else upd (fun n => set_commit_meta (n <| commit := nc |>)) s1).
  assert (V2 : view_of s2 = view_of s).
  { unfold s2. destruct (commit (nd s1) =? nc); auto. }
  set (s3 := upd (fun n => n <| leader_commit := Some (commit n) |>) s2).
  assert (V3 : view_of s3 = view_of s) by (unfold s3; now rewrite view_upd by reflexivity).
  match goal with |- context [if existsb ?f ?l then _ else _] => destruct (existsb f l) end; auto.
  match goal with |- context [if negb ?b then _ else _] => destruct (negb b) end; auto.
  rewrite view_upd by reflexivity. now rewrite view_set_role.
Qed.

Lemma view_tick_send : forall e need s, view_of (tick_send e need s) = view_of s.
Proof.
  intros. unfold tick_send. destruct (role (nd s) =? LEADER); auto.
  destruct ((new_ae_time (nd s) <? tnow s)%Z || need); auto. apply view_send_ae.
Qed.

Lemma view_tick_ready : forall s, view_of (tick_ready s) = view_of s.
Proof.
  intros. unfold tick_ready.
  destruct (negb (ready_called (nd s)) && opt_eqb (Some (applied (nd s))) (leader_commit (nd s))); auto.
  all: try (now apply view_upd).
Qed.

Lemma view_tick_timer : forall e s, view_of (tick_timer e s) = view_of s.
Proof.
  intros. unfold tick_timer. destruct (sec_dumps (nd s) <? tnow s - start_time (nd s))%Z; auto.
  all: try (now apply view_upd).
Qed.

Lemma sview_try_compact : forall e s, sview_of (try_compact e s) = sview_of s.
Proof.
  intros. unfold try_compact.
  set (s1 := if pid (sr (nd s)) =? 0 then s else upd _ s).
  assert (V1 : sview_of s1 = sview_of s) by (unfold s1; destruct (pid (sr (nd s)) =? 0); auto).
  set (s2 := if pid (sr (nd s)) =? 1 then upd _ s1 else s1).
  assert (V2 : sview_of s2 = sview_of s) by (unfold s2; destruct (pid (sr (nd s)) =? 1); auto).
  destruct (negb (pid (sr (nd s)) =? 0)); auto.
  destruct ((N.of_nat (length (log (nd s2))) <=? min_entries (cf e)) &&
            (tnow s - last_ser_time (nd s2) <=? min_time (cf e))%Z && negb (force_compact (nd s2))); auto.
  destruct (get_entries (log (nd s2)) (Some (applied (nd s2) - 1)) (Some 2) None) as [|e0 [|e1 r]].
  - now rewrite !sview_upd by reflexivity.
  - now rewrite !sview_upd by reflexivity.
  - destruct (opt_eqb (Some (eidx e0)) (last_ser_entry (nd s2))); now rewrite !sview_upd by reflexivity.
Qed.

(* ---- append_entries handler ---- *)
Lemma view_ae_commit : forall c v s, view_of (ae_commit c v s) = view_of s.
Proof.
  intros. unfold ae_commit. rewrite view_upd by reflexivity.
  destruct v as [v|]; auto. destruct (commit (nd s) <? c); auto.
Qed.

Lemma sview_ae_regular : forall e from c prev new s, sview_of (ae_regular e from c prev new s) = sview_of s.
Proof.
  intros. unfold ae_regular.
  destruct (get_entries (log (nd s)) (option_map fst prev) None None) as [|p0 ptail].
  - apply view_sview, view_send_next_idx.
  - destruct prev as [[pidx pterm]|]; [|apply view_sview, view_send_next_idx].
    destruct (negb (eterm p0 =? pterm)); [apply view_sview, view_send_next_idx|].
    rewrite (view_sview _ _ (view_ae_commit _ _ _)), (view_sview _ _ (view_send_next_idx _ _ _ _ _)).
    match goal with |- sview_of (if dyn (cf e) then apply_membership false ?a ?s0 else ?s0) = _ =>
      assert (V : sview_of (if dyn (cf e) then apply_membership false a s0 else s0) = sview_of s0)
        by (destruct (dyn (cf e)); auto; apply view_sview, view_apply_membership); rewrite V; clear V end.
    rewrite sview_upd by reflexivity.
    destruct (skipn (matched_prefix ptail new) ptail); auto.
    destruct (skipn (matched_prefix ptail new) new); auto.
    rewrite sview_upd by reflexivity.
    destruct (dyn (cf e)); auto. apply view_sview, view_apply_membership.
Qed.

(* the user-state part (the callback plumbing keeps this) *)
Definition uview_of (s : S) := (hist (nd s), applied (nd s), enabled_ver (nd s), self_ver (nd s)).

Lemma sview_uview : forall s s', sview_of s = sview_of s' -> uview_of s = uview_of s'.
Proof.
  intros s s' H. apply sview_inv in H as (H1 & H2 & H3 & H4 & H5 & H6 & H7 & H8 & H9 & _).
  unfold uview_of. now rewrite H4, H5, H6, H7.
Qed.

Lemma view_uview : forall s s', view_of s = view_of s' -> uview_of s = uview_of s'.
Proof. intros. now apply sview_uview, view_sview. Qed.

Lemma uview_inv : forall s s', uview_of s = uview_of s' ->
  hist (nd s) = hist (nd s') /\ applied (nd s) = applied (nd s') /\
  enabled_ver (nd s) = enabled_ver (nd s') /\ self_ver (nd s) = self_ver (nd s').
Proof. unfold uview_of. intros s s' H. injection H. auto. Qed.

Lemma sview_split : forall s s', cview_of s = cview_of s' -> uview_of s = uview_of s' ->
  aresps (outs s) = aresps (outs s') -> sview_of s = sview_of s'.
Proof.
  intros s s' C U A. apply cview_inv in C as (C1 & C2 & C3 & C4 & C5 & C6).
  apply uview_inv in U as (U1 & U2 & U3 & U4).
  unfold sview_of. now rewrite C1, C2, C3, C4, C6, U1, U2, U3, U4, A.
Qed.

Lemma cview_send : forall d m s, cview_of (send d m s) = cview_of s.
Proof.
  intros. unfold send. destruct (smem d (tconn (nd s))); auto.
  unfold cview_of. cbn. rewrite fired_app. destruct m; cbn; now rewrite app_nil_r.
Qed.

Lemma uview_send : forall d m s, uview_of (send d m s) = uview_of s.
Proof. intros. unfold send. destruct (smem d (tconn (nd s))); reflexivity. Qed.

(* ---- sorted association lists (wait_commit, wait_reply are kept sorted by aset/adel) ---- *)
Fixpoint asorted {V} (lo : option N) (l : list (N * V)) : Prop :=
  match l with
  | [] => True
  | (k, _) :: r => match lo with Some b => b < k | None => True end /\ asorted (Some k) r
  end.

Lemma asorted_weaken : forall {V} (l : list (N * V)) a b, a <= b -> asorted (Some b) l -> asorted (Some a) l.
Proof. destruct l as [|[k v] r]; cbn; auto. intros a b L [H1 H2]. split; auto. lia. Qed.

Lemma asorted_any : forall {V} (l : list (N * V)) lo, asorted lo l -> asorted None l.
Proof. destruct l as [|[k v] r]; cbn; auto. intros lo [_ H]. auto. Qed.

Lemma aget_below : forall {V} (l : list (N * V)) b k, asorted (Some b) l -> k <= b -> aget k l = None.
Proof.
  induction l as [|[k' v] r IH]; cbn; auto. intros b k [H1 H2] L.
  destruct (k =? k') eqn:E. { apply N.eqb_eq in E. lia. }
  apply (IH k'); auto. lia.
Qed.

Lemma asorted_aset : forall {V} (l : list (N * V)) lo k v,
  asorted lo l -> match lo with Some b => b < k | None => True end -> asorted lo (aset k v l).
Proof.
  induction l as [|[k' v'] r IH]; intros lo k v H L; cbn in *; auto.
  destruct H as [H1 H2].
  destruct (k <? k') eqn:E1; cbn.
  - apply N.ltb_lt in E1. auto.
  - destruct (k =? k') eqn:E2; cbn.
    + apply N.eqb_eq in E2. subst. auto.
    + split; auto. apply IH; auto. apply N.ltb_ge in E1. apply N.eqb_neq in E2. lia.
Qed.

Lemma asorted_adel : forall {V} (l : list (N * V)) lo k, asorted lo l -> asorted lo (adel k l).
Proof.
  induction l as [|[k' v'] r IH]; intros lo k H; cbn in *; auto.
  destruct H as [H1 H2].
  destruct (k =? k') eqn:E; cbn.
  - destruct lo as [b|]; [|eapply asorted_any; eauto].
    eapply asorted_weaken; [|eauto]. lia.
  - split; auto.
Qed.

Lemma aget_adel_same : forall {V} (l : list (N * V)) lo k, asorted lo l -> aget k (adel k l) = None.
Proof.
  induction l as [|[k' v'] r IH]; intros lo k H; cbn in *; auto.
  destruct H as [H1 H2].
  destruct (k =? k') eqn:E; cbn.
  - apply N.eqb_eq in E. subst. eapply aget_below; eauto. lia.
  - rewrite E. eauto.
Qed.

Lemma aget_adel_other : forall {V} (l : list (N * V)) k k', k <> k' -> aget k (adel k' l) = aget k l.
Proof.
  induction l as [|[k0 v0] r IH]; intros k k' NE; cbn; auto.
  destruct (k' =? k0) eqn:E1.
  - apply N.eqb_eq in E1. subst. destruct (k =? k0) eqn:E2; auto. apply N.eqb_eq in E2. congruence.
  - cbn. destruct (k =? k0); auto.
Qed.

Lemma adel_absent : forall {V} (l : list (N * V)) k, aget k l = None -> adel k l = l.
Proof.
  induction l as [|[k0 v0] r IH]; intros k H; cbn in *; auto.
  destruct (k =? k0); [discriminate|]. f_equal. auto.
Qed.

Lemma aget_aset_same : forall {V} (l : list (N * V)) k v, aget k (aset k v l) = Some v.
Proof.
  induction l as [|[k0 v0] r IH]; intros; cbn.
  - now rewrite N.eqb_refl.
  - destruct (k <? k0) eqn:E1; cbn. { now rewrite N.eqb_refl. }
    destruct (k =? k0) eqn:E2; cbn. { now rewrite N.eqb_refl. }
    rewrite E2. apply IH.
Qed.

Lemma aget_aset_other : forall {V} (l : list (N * V)) k k' v, k <> k' -> aget k (aset k' v l) = aget k l.
Proof.
  induction l as [|[k0 v0] r IH]; intros k k' v NE; cbn.
  - destruct (k =? k') eqn:E; auto. apply N.eqb_eq in E. congruence.
  - destruct (k' <? k0) eqn:E1; cbn.
    + destruct (k =? k') eqn:E; auto. apply N.eqb_eq in E. congruence.
    + destruct (k' =? k0) eqn:E2; cbn.
      * apply N.eqb_eq in E2. subst.
        destruct (k =? k0) eqn:E; auto. apply N.eqb_eq in E. congruence.
      * destruct (k =? k0); auto.
Qed.

Lemma NoDup_app_l : forall {A} (a b : list A), NoDup (a ++ b) -> NoDup a.
Proof.
  induction a as [|x a IH]; intros b H; [constructor|].
  inversion H as [|? ? NI ND]; subst. constructor; eauto.
  intros I. apply NI. apply in_or_app. now left.
Qed.

Lemma NoDup_app_r : forall {A} (a b : list A), NoDup (a ++ b) -> NoDup b.
Proof.
  induction a as [|x a IH]; intros b H; auto.
  inversion H; subst. eauto.
Qed.
