(* Tier C7, part 4: the learner invariant [LI] (every running read-only node satisfies [Lr] with respect to
   the abstract state) proved on top of the Tier C5 / C6 simulation: a further induction over the run
   that uses [step6] for the abstract state after each step. *)
From Coq Require Import ZArith NArith List Bool Lia ZifyBool Arith PeanoNat.
From RecordUpdate Require Import RecordSet.
From PSO Require Import Raft.Types Raft.Node Raft.Net Raft.Obs Raft.ProofsCommitBase.
From PSO Require Import Raft.ProofsApplyBase Raft.ProofsApplyLog Raft.ProofsApplyReplay.
From PSO Require Import Raft.ProofsElectionBase Raft.ProofsElectionFrame Raft.ProofsElectionStep
  Raft.ProofsElectionGhost Raft.ProofsElectionInv Raft.ProofsElectionMain.
From PSO Require Import Raft.RefineAbs Raft.RefineK Raft.RefineSpecA Raft.RefineTickA Raft.RefineGlobal.
From PSO Require Raft.RefineMain Raft.RefineFinal.
From PSO Require Import Raft.Refine5Abs Raft.Refine5SpecA Raft.Refine5Sim Raft.Refine5TickA Raft.Refine5TickB
  Raft.Refine5Global Raft.Refine5Main Raft.Refine5Final.
From PSO Require Import Raft.Refine6Base Raft.Refine6Snaps Raft.Refine6Tick Raft.Refine6Main.
From PSO Require Import Raft.Refine7ROBase Raft.Refine7ROMsg Raft.Refine7ROTick.
From PSO Require Abstract.Model Abstract.Lib Abstract.Kstep Abstract.Safety1_WF Abstract.Safety2_Election.
Import ListNotations.
Import RecordSetNotations.
Open Scope N_scope.
#[local] Arguments firstn : simpl nomatch.
#[local] Arguments skipn : simpl nomatch.

(* small frames of the events that are neither a tick nor a delivery *)
Lemma lq_on_connected b x : lq (on_connected b x) = lq x.
Proof. unfold on_connected. destruct (RO_BASE <=? b); reflexivity. Qed.

Lemma lq_api_submit e cm cbk x : lq (nd (api_submit e cm cbk x)) = lq x.
Proof.
  unfold api_submit, submit. cbn [nd start_S].
  destruct (_ <? _); [rewrite nd_call_err|]; reflexivity.
Qed.

Lemma lq_api_admin e cm cbk x : lq (nd (api_admin e cm cbk x)) = lq x.
Proof. unfold api_admin. destruct (dyn (cf e)); [apply lq_api_submit|reflexivity]. Qed.

Lemma lq_api_setver e cm cbk x : lq (nd (api_setver e cm cbk x)) = lq x.
Proof. unfold api_setver. destruct (_ || _); [reflexivity|apply lq_api_submit]. Qed.

Lemma lq_api_compact x : lq (api_compact x) = lq x.
Proof. reflexivity. Qed.

(* a dropped connection only forgets the transmission to that peer *)
Lemma disc_fields b x :
  let y := on_disconnected b x in
  log y = log x /\ term y = term x /\ applied y = applied x /\ commit y = commit x /\ recv_t y = recv_t x /\
  replay_idx y = replay_idx x /\ hist y = hist x /\ pid (sr y) = pid (sr x) /\ cur_id (sr y) = cur_id (sr x).
Proof. cbv zeta. unfold on_disconnected. destruct (RO_BASE <=? b); repeat split; reflexivity. Qed.

Section Main7.
Variable c : conf.
Variable V : list nid.
Hypothesis NDV : NoDup V.
Hypothesis VRO : forall v, In v V -> v < RO_BASE.
Hypothesis VNE : V <> [].
Hypothesis Hb1 : 1 < batch c.
Hypothesis Hdyn : dyn c = false.
Set Default Proof Using "All".

Notation V' := (absV V).
Notation Rmsg := (Rmsg c).
Notation R := (R c V).
Notation kstar := (kstar V).
Notation GI := (GI c V).
Notation J := (J c).
Notation HI := (HI c).
Notation SH := (SH c).
Notation Lr := (Lr c).
Notation QS := (QS c).
Notation Lr_kstar := (Lr_kstar c V NDV VRO VNE Hb1).
Notation Lr_lq := (Lr_lq c V NDV VRO VNE Hb1).
Notation Lr_init := (Lr_init c V NDV VRO VNE Hb1).

(* every running read-only node is a learner of the abstract state *)
Definition LI (g : gstate) (s : M.state) : Prop :=
  forall v x, aget v (nodes g) = Some x -> RO_BASE <= v -> Lr x s.

Lemma LI_init : LI ginit (M.init V').
Proof. intros v x H. cbn in H. discriminate. Qed.

Lemma LI_kstar g s s' : KS.kreachable V' s -> kstar s s' -> LI g s -> LI g s'.
Proof. intros HR K H v x Hx Hv. eapply Lr_kstar; eauto. Qed.

Lemma LI_shrink g g' s :
  LI g s -> (forall v y, aget v (nodes g') = Some y -> aget v (nodes g) = Some y) -> LI g' s.
Proof. intros H Hn v y Hy Hv. eauto. Qed.

(* the common ending of a step of node n *)
Lemma LI_finish g g0 g' s s' n (S : Node.S) :
  KS.kreachable V' s -> kstar s s' -> LI g s -> nodes g0 = nodes g -> nodes g' = nodes (finish n S g0) ->
  (RO_BASE <= n -> Lr (nd S) s) -> LI g' s'.
Proof.
  intros HR K L En Hn' Hv.
  assert (Nf : nodes g' = aset n (nd S) (nodes g)).
  { rewrite Hn'. destruct (finish_nodes n S g0) as [Nf _]. rewrite Nf, En. reflexivity. }
  intros v x Hx Hge. rewrite Nf, ProofsElectionBase.aget_aset in Hx. destruct (v =? n) eqn:Ev.
  - apply N.eqb_eq in Ev. subst v. injection Hx as <-. eapply Lr_kstar; eauto.
  - eapply Lr_kstar; eauto.
Qed.

Lemma Lr_on_disconnected b x s : Lr x s -> Lr (on_disconnected b x) s.
Proof.
  intros [A B C D E]. destruct (disc_fields b x) as (E1 & E2 & E3 & E4 & E5 & E6 & E7 & E8 & E9).
  cbv zeta in *. constructor.
  - eapply (Lg_eq c V NDV VRO VNE Hb1); eauto.
  - intros en o l Hin. rewrite E5 in Hin. eauto.
  - eapply (Lh_eq c V NDV VRO VNE Hb1); eauto.
  - rewrite E2. apply nsn_on_disconnected. exact D.
  - eapply (HI_eq c V NDV VRO VNE Hb1); eauto.
Qed.

(* ---- one step ---- *)
Theorem step7 g gh st s ev g' r :
  GI g gh st s -> J g s -> LI g s -> ev_ok V st ev = true -> tick_okb c g ev = true ->
  gstep c g ev = Some (g', r) ->
  exists s', kstar s s' /\ GI g' (ghost_step ev g r gh) (st_after st ev) s' /\ J g' s' /\ LI g' s'.
Proof.
  intros G JJ L Hev Htb Hstep.
  destruct (step6 c V NDV VRO VNE Hb1 Hdyn g gh st s ev g' r G JJ Hev Htb Hstep) as (s' & K & G' & J').
  exists s'. split; auto. split; auto. split; auto.
  pose proof G as [I HR RR]. pose proof G' as [I' HR' RR'].
  assert (Htk : tick_ok c g ev) by (apply tick_okb_ok; exact Htb).
  assert (Hro : forall v x, aget v (nodes g) = Some x -> RO_BASE <= v -> self x = None /\ role x = FOLLOWER).
  { intros v x Hx Hge. destruct (I_node _ _ _ _ I v x Hx) as (_ & _ & H). exact (H Hge). }
  (* a handler that leaves everything the relation reads alone *)
  assert (Hkeep : forall n x (S : Node.S), aget n (nodes g) = Some x -> lq (nd S) = lq x ->
            RO_BASE <= n -> Lr (nd S) s).
  { intros n x S Hx E Hge. eapply Lr_lq; [exact E|]. apply (L n x Hx Hge). }
  destruct ev as [n now rnd bud ord sl | a b now rnd ord | a b | a b k | a b | n cm cb | n cm cb | n cm cb
                 | n | n | n oth now rnd sv]; unfold gstep in Hstep.
  - (* ETick *)
    destruct (aget n (nodes g)) as [x|] eqn:Hx; [|discriminate].
    injection Hstep as <- <-.
    set (e := mk_env c now rnd bud ord sl) in *.
    apply (LI_finish g g _ s s' n (on_tick e x) HR K L eq_refl eq_refl).
    intros Hge. destruct (Hro n x Hx Hge) as [Hs Hr].
    apply (Lr_on_tick c V NDV VRO VNE Hb1 Hdyn e eq_refl x s HR Hs Hr (Htk x Hx)). apply (L n x Hx Hge).
  - (* EDeliver *)
    destruct (aget b (nodes g)) as [x|] eqn:Hx; [|discriminate].
    destruct (chan_get a b g) as [|m rest] eqn:Hch; [discriminate|].
    injection Hstep as <- <-.
    set (e := mk_env c now rnd DEFAULT_BUDGET ord 0) in *.
    apply (LI_finish g (chan_set a b rest g) _ s s' b (on_message e a m x) HR K L eq_refl eq_refl).
    intros Hge. destruct (Hro b x Hx Hge) as [Hs Hr].
    apply (Lr_on_message c V NDV VRO VNE Hb1 Hdyn e eq_refl a b m x s HR Hs Hr (L b x Hx Hge)).
    + apply (R_msg _ _ _ _ _ _ RR a b m). rewrite Hch. left. reflexivity.
    + apply (J_msg _ _ _ JJ a b m). rewrite Hch. left. reflexivity.
  - (* EDrop *)
    destruct (aget a (nodes g)) as [x|] eqn:Hx; [|discriminate].
    injection Hstep as <- <-.
    apply (LI_finish g g (chan_set b a [] (finish a (idle_S (on_disconnected b x)) g)) s s' a
             (idle_S (on_disconnected b x)) HR K L eq_refl eq_refl).
    intros Hge. cbn [nd idle_S]. apply Lr_on_disconnected. apply (L a x Hx Hge).
  - (* ELose *)
    injection Hstep as <- <-.
    apply (LI_kstar _ s s' HR K). apply (LI_shrink g _ s L). intros v y Hy. exact Hy.
  - (* EConnect *)
    destruct (aget a (nodes g)) as [x|] eqn:Hx; [|discriminate].
    injection Hstep as <- <-.
    match goal with |- context [finish a _ ?G1] => set (g1 := G1) in * end.
    assert (En : nodes g1 = nodes g).
    { subst g1. destruct (match aget b (nodes g) with Some y => negb (smem a (tconn y)) | None => true end); reflexivity. }
    apply (LI_finish g g1 _ s s' a (idle_S (on_connected b x)) HR K L En eq_refl).
    intros Hge. apply (Hkeep a x _ Hx); [apply lq_on_connected|exact Hge].
  - (* ESubmit *)
    destruct (aget n (nodes g)) as [x|] eqn:Hx; [|discriminate].
    injection Hstep as <- <-.
    set (e := mk_env c 0 0 DEFAULT_BUDGET [] 0) in *.
    apply (LI_finish g g _ s s' n (api_submit e cm (cb_of cb) x) HR K L eq_refl eq_refl).
    intros Hge. apply (Hkeep n x _ Hx); [apply lq_api_submit|exact Hge].
  - (* EAdmin *)
    destruct (aget n (nodes g)) as [x|] eqn:Hx; [|discriminate].
    injection Hstep as <- <-.
    set (e := mk_env c 0 0 DEFAULT_BUDGET [] 0) in *.
    apply (LI_finish g g _ s s' n (api_admin e cm (cb_of cb) x) HR K L eq_refl eq_refl).
    intros Hge. apply (Hkeep n x _ Hx); [apply lq_api_admin|exact Hge].
  - (* ESetVer *)
    destruct (aget n (nodes g)) as [x|] eqn:Hx; [|discriminate].
    injection Hstep as <- <-.
    set (e := mk_env c 0 0 DEFAULT_BUDGET [] 0) in *.
    apply (LI_finish g g _ s s' n (api_setver e cm (cb_of cb) x) HR K L eq_refl eq_refl).
    intros Hge. apply (Hkeep n x _ Hx); [apply lq_api_setver|exact Hge].
  - (* ECompact *)
    destruct (aget n (nodes g)) as [x|] eqn:Hx; [|discriminate].
    injection Hstep as <- <-.
    apply (LI_finish g g _ s s' n (idle_S (api_compact x)) HR K L eq_refl eq_refl).
    intros Hge. apply (Hkeep n x _ Hx); [apply lq_api_compact|exact Hge].
  - (* EKill *)
    injection Hstep as <- <-.
    set (g1 := match aget n (nodes g) with
               | Some x => match disk_of c x with
                           | Some d => g <| disks := aset n d (disks g) |>
                           | None => g <| disks := adel n (disks g) |> end
               | None => g end) in *.
    assert (N1 : nodes g1 = nodes g).
    { subst g1. destruct (aget n (nodes g)); [destruct (disk_of c n0)|]; auto. }
    apply (LI_kstar _ s s' HR K). apply (LI_shrink g _ s L).
    intros v y Hy. cbn in Hy. rewrite N1 in Hy.
    destruct (N.eq_dec v n) as [->|Hne].
    + rewrite aget_adel_same in Hy; [discriminate|]. apply (I_sorted _ _ _ _ I).
    + rewrite aget_adel_neq in Hy; auto.
  - (* ERestart *)
    injection Hstep as <- <-.
    set (e := mk_env c now rnd DEFAULT_BUDGET [] 0) in *.
    intros v y Hy Hge. unfold put_node in Hy. cbn in Hy. rewrite ProofsElectionBase.aget_aset in Hy.
    destruct (v =? n) eqn:Ev.
    + apply N.eqb_eq in Ev. subst v. injection Hy as <-.
      assert (Hle : RO_BASE <=? n = true) by (apply N.leb_le; exact Hge).
      rewrite Hle.
      assert (Ex : match aget n (disks g) with
                   | Some d => match @None nid with Some _ => init_from_disk e None oth sv d | None => init_node e None oth sv end
                   | None => init_node e None oth sv end = init_node e None oth sv).
      { destruct (aget n (disks g)); reflexivity. }
      cbv beta iota in Ex. rewrite Ex.
      apply (Lr_init s' (init_node e None oth sv) HR'); reflexivity.
    + apply (Lr_kstar y s s' HR K). apply (L v y Hy Hge).
Qed.

(* ---- the run, remembering every intermediate moment ---- *)
Theorem run_sim7_all evs : forall g gh st s g' gh',
  GI g gh st s -> J g s -> LI g s -> valid_from V st evs = true -> run_ok5 c g evs = true ->
  grun c g gh evs = Some (g', gh') ->
  exists s', kstar s s' /\ KS.kreachable V' s' /\
    (forall evs1 evs3 g1, evs = evs1 ++ evs3 -> run_trace c g evs1 = Some g1 ->
      exists gh1 st1 s1, GI g1 gh1 st1 s1 /\ J g1 s1 /\ LI g1 s1 /\ kstar s1 s').
Proof.
  induction evs as [|ev evs IH]; intros g gh st s g' gh' G JJ L Hv Hr Hg; cbn in *.
  - exists s. split; [constructor|]. split; [apply (GI_reach _ _ _ _ _ _ G)|].
    intros evs1 evs3 g1 E R1. destruct evs1; [|discriminate]. cbn in R1. injection R1 as <-.
    exists gh, st, s. split; auto. split; auto. split; auto. constructor.
  - apply andb_true_iff in Hv as [Hev Hv].
    apply andb_true_iff in Hr as [Htb Hr].
    destruct (gstep c g ev) as [[g1 r]|] eqn:Est; [|discriminate].
    destruct (step7 g gh st s ev g1 r G JJ L Hev Htb Est) as (s1 & K1 & G1 & J1 & L1).
    destruct (IH g1 _ _ s1 g' gh' G1 J1 L1 Hv Hr Hg) as (s2 & K2 & HR2 & Hall).
    assert (K : kstar s s2) by (eapply kstar_trans; eauto).
    exists s2. split; auto. split; auto.
    intros evs1 evs3 g2 E R1. destruct evs1 as [|ev1 evs1].
    + cbn in R1. injection R1 as <-. exists gh, st, s. auto.
    + cbn in E. injection E as <- E. cbn in R1. rewrite Est in R1.
      exact (Hall evs1 evs3 g2 E R1).
Qed.

End Main7.
