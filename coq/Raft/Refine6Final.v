(* Tier C6, part 5: C01 capstone.  For every run of the Tier C5 fragment there is ONE sequence sigma of log
   entries (the committed log at the end of the run, read back from L0) such that at every moment of the
   run the user state of every voter is the replay of the first [applied - 1] entries of sigma (the log
   starts with a term-0 entry at index 1, so index i of the log is position i-2 of sigma) - also right
   after the voter compacted its log or installed a snapshot. *)
From Coq Require Import ZArith NArith List Bool Lia ZifyBool Arith PeanoNat.
From RecordUpdate Require Import RecordSet.
From PSO Require Import Raft.Types Raft.Node Raft.Net Raft.Obs Raft.ProofsCommitBase.
From PSO Require Import Raft.ProofsApplyBase Raft.ProofsApplyLog.
From PSO Require Raft.ProofsApplyReplay.
From PSO Require Import Raft.ProofsElectionBase Raft.ProofsElectionGhost Raft.ProofsElectionInv Raft.ProofsElectionMain.
From PSO Require Import Raft.RefineAbs.
From PSO Require Raft.RefineFinal.
From PSO Require Import Raft.Refine5Abs Raft.Refine5SpecA Raft.Refine5Sim Raft.Refine5Global Raft.Refine5Main
  Raft.Refine5Final.
From PSO Require Import Raft.Refine6Base Raft.Refine6Snaps Raft.Refine6Tick Raft.Refine6Main.
From PSO Require Abstract.Model Abstract.Lib Abstract.Kstep.
Import ListNotations.
Import RecordSetNotations.
Open Scope N_scope.
#[local] Arguments firstn : simpl nomatch.
#[local] Arguments skipn : simpl nomatch.

(* ---- runs and their prefixes ---- *)
Lemma run_trace_app c g a b g1 : run_trace c g a = Some g1 -> run_trace c g (a ++ b) = run_trace c g1 b.
Proof.
  revert g. induction a as [|ev a IH]; intros g H; cbn in *.
  - injection H as <-. reflexivity.
  - destruct (gstep c g ev) as [[g' r]|]; [|discriminate]. apply IH. exact H.
Qed.

(* the longest prefix of an event list that can be executed: every executable prefix is a prefix of it *)
Lemma longest_run c evs : forall g0,
  exists evsA evsB gA, evs = evsA ++ evsB /\ run_trace c g0 evsA = Some gA /\
    forall evs1 evs2 g, evs = evs1 ++ evs2 -> run_trace c g0 evs1 = Some g -> exists evs3, evsA = evs1 ++ evs3.
Proof.
  induction evs as [|ev evs IH]; intros g0.
  - exists [], [], g0. split; [reflexivity|]. split; [reflexivity|].
    intros evs1 evs2 g E _. destruct evs1; [|discriminate]. exists []. reflexivity.
  - destruct (gstep c g0 ev) as [[g1 r]|] eqn:Est.
    + destruct (IH g1) as (evsA & evsB & gA & E & RA & Hmax).
      exists (ev :: evsA), evsB, gA. split; [cbn; rewrite E; reflexivity|]. split; [cbn; rewrite Est; exact RA|].
      intros evs1 evs2 g E1 R1. destruct evs1 as [|ev1 evs1]; [exists (ev :: evsA); reflexivity|].
      cbn in E1. injection E1 as <- E1. cbn in R1. rewrite Est in R1.
      destruct (Hmax evs1 evs2 g E1 R1) as (evs3 & ->). exists evs3. reflexivity.
    + exists [], (ev :: evs), g0. split; [reflexivity|]. split; [reflexivity|].
      intros evs1 evs2 g E1 R1. destruct evs1 as [|ev1 evs1]; [exists []; reflexivity|].
      cbn in E1. injection E1 as <- E1. cbn in R1. rewrite Est in R1. discriminate.
Qed.

Section Final6.
Variable c : conf.
Variable V : list nid.
Hypothesis NDV : NoDup V.
Hypothesis VRO : forall v, In v V -> v < RO_BASE.
Hypothesis VNE : V <> [].
Hypothesis Hb1 : 1 < batch c.
Hypothesis Hdyn : dyn c = false.
Set Default Proof Using "All".

Notation V' := (absV V).
Notation kstar := (kstar V).
Notation GI := (GI c V).
Notation J := (J c).
Notation HI := (HI c).
Notation pk := (pk c).
Notation cpre_fun := (cpre_fun c V NDV VRO VNE Hb1).
Notation cpre_le := (cpre_le c V NDV VRO VNE Hb1).
Notation cpre_length := (cpre_length c V NDV VRO VNE Hb1).
Notation cpre_head := (cpre_head c V NDV VRO VNE Hb1).
Notation direct_len := (direct_len c V NDV VRO VNE Hb1).
Notation HI_kstar := (HI_kstar c V NDV VRO VNE Hb1).

(* ---- the whole committed log of an L0 state ---- *)
Lemma max_committed_list s D :
  KS.kreachable V' s -> (forall d, In d D -> In d (M.direct s)) ->
  exists C, (forall T p, In (T, p) D -> (Sn p <= length C)%nat) /\ (C = [] \/ cpre s (length C) C).
Proof.
  intros HR. induction D as [|[T p] D IH]; intros HD.
  - exists []. split; [intros T p []|left; reflexivity].
  - destruct IH as (C' & HL & HC); [intros d Hd; apply HD; right; exact Hd|].
    destruct (Nat.le_gt_cases (Sn p) (length C')) as [Hle|Hgt].
    + exists C'. split; auto. intros T0 p0 [E|H]; [injection E as <- <-; exact Hle|eauto].
    + assert (Dp : In (T, p) (M.direct s)) by (apply HD; left; reflexivity).
      pose proof (direct_len s T p HR Dp) as Hlen.
      assert (El : length (firstn (Sn p) (M.llog s T)) = Sn p) by (rewrite firstn_length; lia).
      exists (firstn (Sn p) (M.llog s T)). rewrite El. split.
      * intros T0 p0 [E|H]; [injection E as <- <-; lia|]. specialize (HL _ _ H). lia.
      * right. exists T, p. split; auto.
Qed.

Lemma max_committed s :
  KS.kreachable V' s -> exists C, forall k l, cpre s k l -> l = firstn k C.
Proof.
  intros HR. destruct (max_committed_list s (M.direct s) HR (fun d H => H)) as (C & HL & HC).
  exists C. intros k l Hc. pose proof Hc as (T0 & p0 & D0 & Hk & El).
  specialize (HL _ _ D0).
  destruct HC as [->|HC]; [cbn in HL; lia|].
  eapply cpre_fun; [exact HR|exact Hc|].
  apply (cpre_le s (length C) k C); [lia|exact HC].
Qed.

(* ---- the run, remembering every intermediate moment ---- *)
Lemma run_sim6_all evs : forall g gh st s g' gh',
  GI g gh st s -> J g s -> valid_from V st evs = true -> run_ok5 c g evs = true ->
  grun c g gh evs = Some (g', gh') ->
  exists s', kstar s s' /\ KS.kreachable V' s' /\
    (forall evs1 evs3 g1, evs = evs1 ++ evs3 -> run_trace c g evs1 = Some g1 ->
      exists gh1 st1 s1, GI g1 gh1 st1 s1 /\ J g1 s1 /\ kstar s1 s').
Proof.
  induction evs as [|ev evs IH]; intros g gh st s g' gh' G JJ Hv Hr Hg; cbn in *.
  - exists s. split; [constructor|]. split; [apply (GI_reach _ _ _ _ _ _ G)|].
    intros evs1 evs3 g1 E R1. destruct evs1; [|discriminate]. cbn in R1. injection R1 as <-.
    exists gh, st, s. split; auto. split; auto. constructor.
  - apply andb_true_iff in Hv as [Hev Hv].
    apply andb_true_iff in Hr as [Htb Hr].
    destruct (gstep c g ev) as [[g1 r]|] eqn:Est; [|discriminate].
    destruct (step6 c V NDV VRO VNE Hb1 Hdyn g gh st s ev g1 r G JJ Hev Htb Est) as (s1 & K1 & G1 & J1).
    destruct (IH g1 _ _ s1 g' gh' G1 J1 Hv Hr Hg) as (s2 & K2 & HR2 & Hall).
    assert (K : kstar s s2) by (eapply kstar_trans; eauto).
    exists s2. split; auto. split; auto.
    intros evs1 evs3 g2 E R1. destruct evs1 as [|ev1 evs1].
    + cbn in R1. injection R1 as <-. exists gh, st, s. auto.
    + cbn in E. injection E as <- E. cbn in R1. rewrite Est in R1.
      exact (Hall evs1 evs3 g2 E R1).
Qed.

(* the replay of a committed prefix, in terms of the whole committed log without its first entry *)
Lemma replay_cpre sf C l (ka : nat) :
  KS.kreachable V' sf -> (forall k l, cpre sf k l -> l = firstn k C) -> (1 <= ka)%nat -> cpre sf ka l ->
  replay (decL pk l) = replay (firstn (ka - 1) (tl (decL pk C))).
Proof.
  intros HRf HC Ha Cl. pose proof (HC _ _ Cl) as El.
  destruct (cpre_head sf _ l HRf Cl Ha) as (r & Er).
  set (k := (ka - 1)%nat) in *.
  assert (Ek : ka = Sn k) by (unfold k; lia).
  rewrite Ek in El. rewrite El.
  destruct C as [|a C2]; [rewrite El in Er; discriminate|].
  assert (Ea : a = M.e0) by (rewrite El in Er; cbn [firstn] in Er; congruence).
  subst a. cbn [firstn tl decL map]. unfold replay at 1. cbn [flat_map].
  change (cmd_effect (ecmd (decE pk M.e0))) with (@nil N). cbn [app].
  fold (replay (map (decE pk) (firstn k C2))). rewrite <- firstn_map. reflexivity.
Qed.

(* ---- the theorem, for a fixed voter set ---- *)
Theorem one_common_sequence_strong evs :
  valid_from V [] evs = true -> run_ok5 c ginit evs = true ->
  exists sigma : list entry,
    forall evs1 evs2 g x n, evs = evs1 ++ evs2 -> run_trace c ginit evs1 = Some g ->
      aget x (nodes g) = Some n -> x < RO_BASE ->
      (exists k, hist n = replay (firstn k sigma) /\ N.of_nat k + 1 = applied n) /\
      (forall sn, stored (sr n) = Some (Good sn) ->
         exists k, s_hist sn = replay (firstn k sigma) /\ N.of_nat k + 1 = eidx (s_e1 sn)).
Proof.
  intros Hv Hok.
  destruct (longest_run c evs ginit) as (evsA & evsB & gA & E & RA & Hmax).
  rewrite E in Hv, Hok.
  rewrite RefineFinal.valid_from_app in Hv. apply andb_true_iff in Hv as [HvA _].
  rewrite (run_ok5_app c ginit evsA evsB gA RA) in Hok. apply andb_true_iff in Hok as [HokA _].
  destruct (proj1 (grun_run_trace c ginit gh0 evsA gA) RA) as [ghA HgA].
  destruct (run_sim6_all evsA ginit gh0 [] (M.init V') gA ghA (GI_init c V) (J_init c V NDV VRO VNE Hb1 Hdyn) HvA HokA HgA)
    as (sf & _ & HRf & Hall).
  destruct (max_committed sf HRf) as (C & HC).
  exists (tl (decL pk C)).
  intros evs1 evs2 g x n E1 R1 Hx Hlt.
  destruct (Hmax evs1 evs2 g E1 R1) as (evs3 & EA).
  destruct (Hall evs1 evs3 g EA R1) as (gh1 & st1 & s1 & G1 & J1 & K1).
  pose proof (GI_reach _ _ _ _ _ _ G1) as HR1. pose proof (GI_R _ _ _ _ _ _ G1) as RR1.
  pose proof (R_node _ _ _ _ _ _ RR1 x n Hx Hlt) as RN. pose proof (R_hyg _ _ _ _ _ _ RR1 x n Hx Hlt) as HH.
  split.
  - pose proof (J_hist _ _ _ J1 x n Hx Hlt) as H1.
    apply (HI_kstar s1 sf n HR1 K1) in H1. destruct H1 as (l & Cl & Eh).
    assert (Ha : 1 <= applied n).
    { destruct (Rn_full c V NDV VRO VNE Hb1 x n s1 HR1 RN) as (full & _ & W & Sx).
      pose proof (suffix_first_pos _ _ W Sx). pose proof (H_fi _ _ HH). lia. }
    exists (n2 (applied n) - 1)%nat. split; [|lia].
    rewrite Eh. apply (replay_cpre sf C l _ HRf HC); [lia|exact Cl].
  - intros sn Hst.
    destruct (J_node _ _ _ J1 x n Hx Hlt) as (X & _). pose proof (X _ Hst) as H1. cbn [bq] in H1.
    apply (SH_kstar c V NDV VRO VNE Hb1 s1 sf sn HR1 K1) in H1. destruct H1 as (l & Cl & Eh).
    pose proof (Rn_stored _ _ _ _ _ RN _ Hst) as (_ & _ & H2 & _).
    exists (n2 (eidx (s_e1 sn)) - 1)%nat. split; [|lia].
    rewrite Eh. apply (replay_cpre sf C l _ HRf HC); [lia|exact Cl].
Qed.

End Final6.

(* ------------------------------------------------------------------------------------------ *)
(* the statements with the fragment hypotheses spelled out (exported by Props/TierC6.v)        *)

Lemma TierC6_one_common_sequence :
  forall (c : conf) (V : list nid) (evs : list event),
    dyn c = false -> 1 < batch c -> valid V evs = true -> run_ok5 c ginit evs = true ->
    exists sigma : list entry,
      forall evs1 evs2 g x n, evs = evs1 ++ evs2 -> run_trace c ginit evs1 = Some g ->
        aget x (nodes g) = Some n -> x < RO_BASE ->
        exists k, hist n = replay (firstn k sigma) /\ N.of_nat k + 1 = applied n.
Proof.
  intros c V evs H1 H3 H4 H5.
  destruct (core_frag_facts c V evs (core_frag_intro c V evs H1 H3 H4 H5)) as (ND & HV & HNE & Hb & Hd & Hv & Hok).
  destruct (one_common_sequence_strong c V ND HV HNE Hb Hd evs Hv Hok) as (sigma & H).
  exists sigma. intros evs1 evs2 g x n E R Hx Hlt. apply (H evs1 evs2 g x n E R Hx Hlt).
Qed.

(* the same sequence also explains every snapshot a voter stores (the one it serialized when compacting
   its log, or the one it received and installed or refused) *)
Lemma TierC6_one_common_sequence_snapshots :
  forall (c : conf) (V : list nid) (evs : list event),
    dyn c = false -> 1 < batch c -> valid V evs = true -> run_ok5 c ginit evs = true ->
    exists sigma : list entry,
      forall evs1 evs2 g x n, evs = evs1 ++ evs2 -> run_trace c ginit evs1 = Some g ->
        aget x (nodes g) = Some n -> x < RO_BASE ->
        (exists k, hist n = replay (firstn k sigma) /\ N.of_nat k + 1 = applied n) /\
        (forall sn, stored (sr n) = Some (Good sn) ->
           exists k, s_hist sn = replay (firstn k sigma) /\ N.of_nat k + 1 = eidx (s_e1 sn)).
Proof.
  intros c V evs H1 H3 H4 H5.
  destruct (core_frag_facts c V evs (core_frag_intro c V evs H1 H3 H4 H5)) as (ND & HV & HNE & Hb & Hd & Hv & Hok).
  exact (one_common_sequence_strong c V ND HV HNE Hb Hd evs Hv Hok).
Qed.

(* the user states of two voters, at any two moments of a run, are comparable: the one that has applied
   less is a prefix of the other *)
Lemma TierC6_states_comparable :
  forall (c : conf) (V : list nid) (evs ea ea' eb eb' : list event) (ga gb : gstate) (a b : nid) (na nb : node),
    dyn c = false -> 1 < batch c -> valid V evs = true -> run_ok5 c ginit evs = true ->
    evs = ea ++ ea' -> evs = eb ++ eb' ->
    run_trace c ginit ea = Some ga -> run_trace c ginit eb = Some gb ->
    aget a (nodes ga) = Some na -> aget b (nodes gb) = Some nb -> a < RO_BASE -> b < RO_BASE ->
    applied na <= applied nb -> exists r, hist nb = hist na ++ r.
Proof.
  intros c V evs ea ea' eb eb' ga gb a b na nb H1 H3 H4 H5 Ea Eb Ra Rb Ha Hb La Lb Hle.
  destruct (TierC6_one_common_sequence c V evs H1 H3 H4 H5) as (sigma & H).
  destruct (H ea ea' ga a na Ea Ra Ha La) as (ka & Eha & Eka).
  destruct (H eb eb' gb b nb Eb Rb Hb Lb) as (kb & Ehb & Ekb).
  exists (replay (firstn (kb - ka) (skipn ka sigma))).
  rewrite Eha, Ehb, <- replay_app. f_equal.
  replace kb with (ka + (kb - ka))%nat at 1 by lia. apply ML.firstn_add.
Qed.

(* the same with the fragment as one predicate *)
Lemma TierC6_one_common_sequence_frag :
  forall (c : conf) (V : list nid) (evs : list event), core_frag5 c V evs ->
    exists sigma : list entry,
      forall evs1 evs2 g x n, evs = evs1 ++ evs2 -> run_trace c ginit evs1 = Some g ->
        aget x (nodes g) = Some n -> x < RO_BASE ->
        exists k, hist n = replay (firstn k sigma) /\ N.of_nat k + 1 = applied n.
Proof. intros c V evs (A & B & C & D). exact (TierC6_one_common_sequence c V evs A B C D). Qed.

(* C01_state_is_replay_full of ProofsApplyReplay.v speaks about EVERY node; what is proved is the statement
   for the voters (ids below RO_BASE).  Read-only nodes are outside the abstract cluster of the refinement
   (Tier C5 keeps no relation between their logs and L0): for them the statement is open. *)
Definition C01_state_is_replay_voters (valid : conf -> list event -> Prop) : Prop :=
  forall c evs, valid c evs ->
    exists sigma : list entry,
      forall evs1 evs2 g x n, evs = evs1 ++ evs2 -> run_trace c ginit evs1 = Some g ->
        aget x (nodes g) = Some n -> x < RO_BASE ->
        exists k, hist n = replay (firstn k sigma) /\ N.of_nat k + 1 = applied n.

Definition C01_one_common_sequence_all_nodes_full : Prop :=
  ProofsApplyReplay.C01_state_is_replay_full (fun c evs => exists V, core_frag5 c V evs).

Lemma TierC6_state_is_replay_voters :
  C01_state_is_replay_voters (fun c evs => exists V, core_frag5 c V evs).
Proof. intros c evs (V & F). exact (TierC6_one_common_sequence_frag c V evs F). Qed.
