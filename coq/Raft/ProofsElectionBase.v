(* Election safety (C03/C07), part 1: generic list / assoc-list / counting lemmas,
   majority arithmetic and the pigeonhole argument. *)
From Coq Require Import ZArith NArith List Bool Lia.
From PSO Require Import Raft.Types Raft.Node.
Import ListNotations.
Open Scope N_scope.

(* ---------- association lists ---------- *)
Lemma aget_aset {V} (k k' : N) (v : V) l :
  aget k (aset k' v l) = if k =? k' then Some v else aget k l.
Proof.
  induction l as [|[k0 v0] r IH]; simpl.
  - destruct (k =? k'); reflexivity.
  - destruct (k' <? k0) eqn:E1; simpl.
    + destruct (k =? k'); reflexivity.
    + destruct (k' =? k0) eqn:E2; simpl.
      * apply N.eqb_eq in E2; subst k0. destruct (k =? k'); reflexivity.
      * rewrite IH. destruct (k =? k0) eqn:E3; auto.
        apply N.eqb_eq in E3; subst k0.
        destruct (k =? k') eqn:E4; auto. apply N.eqb_eq in E4; subst k'.
        rewrite N.eqb_refl in E2; discriminate.
Qed.

Lemma aget_adel_neq {V} (k k' : N) (l : list (N * V)) : k <> k' -> aget k (adel k' l) = aget k l.
Proof.
  intros Hne. induction l as [|[k0 v0] r IH]; simpl; auto.
  destruct (k' =? k0) eqn:E1.
  - apply N.eqb_eq in E1; subst k0. destruct (k =? k') eqn:E; auto. apply N.eqb_eq in E; congruence.
  - simpl. rewrite IH. reflexivity.
Qed.

Lemma aget_In {V} (k : N) (v : V) l : aget k l = Some v -> In (k, v) l.
Proof.
  induction l as [|[k0 v0] r IH]; simpl; [discriminate|].
  destruct (k =? k0) eqn:E.
  - apply N.eqb_eq in E; subst. intros H; injection H as ->. auto.
  - auto.
Qed.

Lemma aget_none_keys {V} (k : N) (l : list (N * V)) : aget k l = None <-> ~ In k (map fst l).
Proof.
  induction l as [|[k0 v0] r IH]; simpl.
  - tauto.
  - destruct (k =? k0) eqn:E.
    + apply N.eqb_eq in E; subst. split; [discriminate|]. intros H; exfalso; apply H; auto.
    + apply N.eqb_neq in E. rewrite IH. split; intros H; [intros [H1|H1]; congruence | tauto].
Qed.

Lemma keys_aset {V} (k k' : N) (v : V) l :
  In k (map fst (aset k' v l)) <-> k = k' \/ In k (map fst l).
Proof.
  induction l as [|[k0 v0] r IH]; simpl.
  - intuition.
  - destruct (k' <? k0) eqn:E1; simpl; [intuition|].
    destruct (k' =? k0) eqn:E2; simpl.
    + apply N.eqb_eq in E2; subst. intuition.
    + rewrite IH. intuition.
Qed.

Lemma keys_adel {V} (k k' : N) (l : list (N * V)) : In k (map fst (adel k' l)) -> In k (map fst l).
Proof.
  induction l as [|[k0 v0] r IH]; simpl; auto.
  destruct (k' =? k0); simpl; intuition.
Qed.

Lemma In_aset {V} (k k' : N) (v v' : V) l :
  In (k, v) (aset k' v' l) -> (k = k' /\ v = v') \/ In (k, v) l.
Proof.
  induction l as [|[k0 v0] r IH]; simpl.
  - intros [H|[]]; injection H as <- <-; auto.
  - destruct (k' <? k0) eqn:E1; simpl.
    + intros [H|H]; [injection H as <- <-; auto | auto].
    + destruct (k' =? k0) eqn:E2; simpl.
      * intros [H|H]; [injection H as <- <-; auto | auto].
      * intros [H|H]; auto. apply IH in H. tauto.
Qed.

Lemma In_adel {V} (p : N * V) k l : In p (adel k l) -> In p l.
Proof.
  induction l as [|[k0 v0] r IH]; simpl; auto.
  destruct (k =? k0); simpl; intuition.
Qed.

(* keys strictly increasing: what aset/adel maintain from [] *)
Fixpoint ksorted {V} (l : list (N * V)) : Prop :=
  match l with
  | [] => True
  | p :: r => (forall k', In k' (map fst r) -> fst p < k') /\ ksorted r
  end.

Lemma ksorted_aset {V} (k : N) (v : V) l : ksorted l -> ksorted (aset k v l).
Proof.
  induction l as [|[k0 v0] r IH]; simpl; intros H.
  - split; auto. intros k' [].
  - destruct H as [H1 H2].
    destruct (k <? k0) eqn:E1.
    + apply N.ltb_lt in E1. simpl. split; [|split; auto].
      intros k' [<-|Hk]; auto. specialize (H1 _ Hk). simpl in H1. lia.
    + destruct (k =? k0) eqn:E2.
      * apply N.eqb_eq in E2; subst. simpl. split; auto.
      * apply N.eqb_neq in E2. apply N.ltb_ge in E1. simpl. split; auto.
        intros k' Hk. apply keys_aset in Hk as [->|Hk]; [lia|]. apply (H1 _ Hk).
Qed.

Lemma ksorted_adel {V} (k : N) (l : list (N * V)) : ksorted l -> ksorted (adel k l).
Proof.
  induction l as [|[k0 v0] r IH]; simpl; intros H; auto.
  destruct H as [H1 H2]. destruct (k =? k0); auto.
  simpl. split; auto. intros k' Hk. apply keys_adel in Hk. auto.
Qed.

Lemma aget_adel_same {V} (k : N) (l : list (N * V)) : ksorted l -> aget k (adel k l) = None.
Proof.
  induction l as [|[k0 v0] r IH]; simpl; intros H; auto.
  destruct H as [H1 H2]. destruct (k =? k0) eqn:E.
  - apply N.eqb_eq in E; subst. apply aget_none_keys. intros Hk. specialize (H1 _ Hk). simpl in H1. lia.
  - simpl. rewrite E. auto.
Qed.

Lemma ksorted_filter {V} (f : N * V -> bool) l : ksorted l -> ksorted (filter f l).
Proof.
  induction l as [|p r IH]; simpl; intros H; auto.
  destruct H as [H1 H2]. destruct (f p); simpl; auto. split; auto.
  intros k' Hk. apply H1. apply in_map_iff in Hk as [q [<- Hq]]. apply filter_In in Hq as [Hq _].
  apply in_map; auto.
Qed.

(* ---------- counting ---------- *)
Definition cnt {A} (f : A -> bool) (l : list A) : nat := length (filter f l).

Lemma cnt_app {A} (f : A -> bool) l1 l2 : cnt f (l1 ++ l2) = (cnt f l1 + cnt f l2)%nat.
Proof. unfold cnt; rewrite filter_app, app_length; auto. Qed.

Lemma cnt_cons {A} (f : A -> bool) a l : cnt f (a :: l) = ((if f a then 1 else 0) + cnt f l)%nat.
Proof. unfold cnt; simpl. destruct (f a); simpl; auto. Qed.

Lemma cnt_nil {A} (f : A -> bool) : cnt f [] = 0%nat.
Proof. reflexivity. Qed.

Lemma cnt_zero {A} (f : A -> bool) l : (forall x, In x l -> f x = false) -> cnt f l = 0%nat.
Proof.
  unfold cnt. induction l as [|h t IH]; simpl; intros H; auto.
  rewrite (H h (or_introl eq_refl)). apply IH; intros; apply H; auto.
Qed.

Lemma cnt_firstn_le {A} (f : A -> bool) k l : (cnt f (firstn k l) <= cnt f l)%nat.
Proof.
  revert k; induction l as [|h t IH]; intros [|k]; simpl; auto; try (unfold cnt; simpl; lia).
  rewrite !cnt_cons. specialize (IH k). lia.
Qed.

(* ---------- the fixed voter set ---------- *)
Definition vminus (v : nid) (V : list nid) : list nid := filter (fun x => negb (x =? v)) V.

Lemma vminus_length v V : NoDup V -> In v V -> (length (vminus v V) + 1 = length V)%nat.
Proof.
  unfold vminus. induction V as [|a V IH]; simpl; intros ND HIn; [contradiction|].
  inversion ND as [|? ? Hn ND']; subst.
  destruct (a =? v) eqn:E; simpl.
  - apply N.eqb_eq in E; subst a.
    assert (filter (fun x => negb (x =? v)) V = V) as ->; [|lia].
    clear IH ND ND' HIn. induction V as [|b V IH]; simpl; auto.
    destruct (b =? v) eqn:E; simpl.
    + apply N.eqb_eq in E; subst. exfalso; apply Hn; simpl; auto.
    + f_equal. apply IH. intros H; apply Hn; simpl; auto.
  - destruct HIn as [->|HIn]; [rewrite N.eqb_refl in E; discriminate|].
    specialize (IH ND' HIn). lia.
Qed.

Lemma vminus_not_in v V : ~ In v (vminus v V).
Proof. unfold vminus. intros H. apply filter_In in H as [_ H]. rewrite N.eqb_refl in H. discriminate. Qed.

(* ---------- majority arithmetic ---------- *)
Lemma majority_arith (count : N) (n : node) :
  majority count n = true <-> N.of_nat (length (others n)) + 1 < 2 * count.
Proof. unfold majority. apply N.ltb_lt. Qed.

(* Python: count > (len(others)+1) / 2 with true division, i.e. over the rationals *)
Lemma majority_arith_Q (count : N) (n : node) :
  majority count n = true <-> (Z.of_N (N.of_nat (length (others n))) + 1 < 2 * Z.of_N count)%Z.
Proof. rewrite majority_arith. lia. Qed.

Lemma majority_static (count : N) (n : node) v V :
  NoDup V -> In v V -> others n = vminus v V ->
  (majority count n = true <-> (length V < 2 * N.to_nat count)%nat).
Proof.
  intros ND HIn E. rewrite majority_arith, E.
  pose proof (vminus_length v V ND HIn). lia.
Qed.

(* ---------- two majorities of one set intersect ---------- *)
Lemma disjoint_length (A B U : list N) :
  NoDup A -> NoDup B -> incl A U -> incl B U ->
  (forall x, In x A -> In x B -> False) -> (length A + length B <= length U)%nat.
Proof.
  intros NA NB HA HB D.
  assert (ND : NoDup (A ++ B)).
  { clear HA HB. induction A as [|a A IH]; simpl; auto. inversion NA; subst. constructor.
    - intros H. apply in_app_or in H as [H|H]; auto. apply (D a); simpl; auto.
    - apply IH; auto. intros x Hx; apply D; simpl; auto. }
  assert (HI : incl (A ++ B) U) by (apply incl_app; auto).
  apply NoDup_incl_length in HI; auto. rewrite app_length in HI. auto.
Qed.

Lemma majorities_intersect (A B U : list N) :
  NoDup A -> NoDup B -> incl A U -> incl B U ->
  (length U < 2 * length A)%nat -> (length U < 2 * length B)%nat ->
  exists x, In x A /\ In x B.
Proof.
  intros NA NB HA HB LA LB.
  assert (Hdec : (exists x, In x A /\ In x B) \/ (forall x, In x A -> In x B -> False)).
  { clear. induction A as [|a A IH].
    - right. intros x [].
    - destruct (in_dec N.eq_dec a B) as [Hin|Hnin].
      + left. exists a; simpl; auto.
      + destruct IH as [[x [H1 H2]]|IH].
        * left. exists x; simpl; auto.
        * right. intros x [<-|Hx] Hb; eauto. }
  destruct Hdec as [H|H]; auto.
  pose proof (disjoint_length A B U NA NB HA HB H). lia.
Qed.
