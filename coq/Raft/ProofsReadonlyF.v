(* C18: read-only nodes and the decisions of a voter; partial non-interference and its limit. *)
From Coq Require Import ZArith NArith List Bool Lia ZifyBool ZifyN.
From RecordUpdate Require Import RecordSet.
From PSO Require Import Raft.Types Raft.Node Raft.Net.
From PSO Require Import Raft.ProofsReadonlyFrames Raft.ProofsReadonlyA Raft.ProofsReadonlyB Raft.ProofsReadonlyC
  Raft.ProofsReadonlyD Raft.ProofsReadonlyE Raft.ProofsFallbackA Raft.ProofsFallbackB.
Import ListNotations.
Import RecordSetNotations.
Open Scope N_scope.

(* ---- events of a read-only node leave the voters' view of a node unchanged ---- *)
Lemma same_votersview_refl : forall n, same_votersview n n.
Proof. intros n; repeat split; auto. Qed.

Theorem ro_events_same_view : forall n x,
  ~ In x (others n) ->
  same_votersview (on_connected x n) n /\ same_votersview (on_disconnected x n) n /\
  (forall e t nx r su, same_votersview (nd (on_message e x (NextIdx t nx r su) n)) n).
Proof.
  intros n x Hx. split; [|split].
  - unfold on_connected. destruct (RO_BASE <=? x); cbn; [|repeat split; auto].
    repeat split; auto. intros y Hy. apply aget_aset_other. intros ->; contradiction.
  - unfold on_disconnected. destruct (RO_BASE <=? x); cbn; [|repeat split; auto].
    repeat split; auto. intros y Hy. apply aget_adel_other. intros ->; contradiction.
  - intros e t nx r su.
    destruct (C18_responses_only_update_own_slot_thm e x t nx r su n) as (_ & ni & mi & lr & -> & H).
    cbn. repeat split; auto; intros y Hy; apply H; intros ->; contradiction.
Qed.

(* C18_not_counted, decision part: in a reachable state, whatever a read-only node x does at a node
   (connect, disconnect, reply), the commit advance and the fallback decision of the next leader phase
   and every election count come out the same *)
Theorem C18_not_counted_decisions_thm : forall c g L n x,
  valid_reachable c g -> aget L (nodes g) = Some n -> RO_BASE <= x ->
  forall n', (n' = on_connected x n \/ n' = on_disconnected x n \/
              exists e t nx r su, n' = nd (on_message e x (NextIdx t nx r su) n)) ->
    (forall e s s', nd s = n' -> nd s' = n -> tnow s = tnow s' -> exc s = exc s' ->
                    verdict (tick_leader e s) = verdict (tick_leader e s')) /\
    (forall k, majority k n' = majority k n) /\
    role n' = role n /\ term n' = term n /\ votes n' = votes n /\ voted n' = voted n /\ commit n' = commit n.
Proof.
  intros c g L n x Hr Hx Hro n' Hn'.
  pose proof (C18_not_counted_thm c g L n x Hr Hx Hro) as Hnot.
  destruct (ro_events_same_view n x Hnot) as (V1 & V2 & V3).
  assert (same_votersview n' n /\ role n' = role n /\ term n' = term n /\ votes n' = votes n /\ voted n' = voted n /\
          commit n' = commit n /\ leader n' = leader n) as (V & R1 & R2 & R3 & R4 & R5 & R6).
  { destruct Hn' as [-> | [-> | (e & t & nx & r & su & ->)]].
    - split; [exact V1|]. unfold on_connected; destruct (_ <=? x); repeat split.
    - split; [exact V2|]. unfold on_disconnected; destruct (_ <=? x); repeat split.
    - split; [apply V3|].
      destruct (C18_responses_only_update_own_slot_thm e x t nx r su n) as (_ & ni & mi & lr & -> & _). repeat split. }
  split; [|split; [intros k; apply majority_others; apply V | auto 10]].
  intros e s s' E1 E2 Ht He. apply leader_phase_ignores_nonmembers; rewrite ?E1, ?E2; auto.
Qed.

(* ---- non-interference: erasing a read-only node from a voter ---- *)
Definition erase_ro (x : nid) (n : node) : node :=
  mkNode (self n) (others n) (sdel x (readonly n)) (sdel x (connected n)) (sdel x (tconn n))
         (role n) (term n) (voted n) (votes n) (leader n) (deadline n) (log n) (commit n) (applied n)
         (adel x (next_idx n)) (adel x (match_idx n)) (adel x (last_resp n))
         (last_ser_time n) (last_ser_entry n) (force_compact n) (leader_commit n) (ready_called n)
         (change_idx n) (noop_idx n) (recv_t n) (start_time n) (sec_dumps n) (need_load n) (new_ae_time n)
         (wait_commit n) (local_ctr n) (wait_reply n) (queue n)
         (mkSer (pid (sr n)) (cur_id (sr n)) (stored (sr n)) (adel x (trans (sr n))) (incoming (sr n)))
         (hist n) (enabled_ver n) (self_ver n) (meta_commit n) (meta_dirty n) (replay_idx n).

Definition not_to (x : nid) (o : out) : bool := match o with Send d _ => negb (d =? x) | _ => true end.

Definition erase_S (x : nid) (s : S) : S :=
  mkS (erase_ro x (nd s)) (filter (not_to x) (outs s)) (exc s) (tnow s) (used s) (jmp s) (njmp s).

(* the full statement: one tick / one delivery of a voter, with and without an attached read-only node
   x, agree up to x's slots and the outputs addressed to x, when no send loop is cut by the clock *)
Definition C18_noninterference_full : Prop :=
  forall e n x, RO_BASE <= x -> ~ In x (others n) -> self n <> None ->
    njmp (on_tick e n) = 0 -> njmp (on_tick e (erase_ro x n)) = 0 ->
    erase_S x (on_tick e n) = on_tick e (erase_ro x n).

(* It is false of the model (and of the code): `__connectedToAnyone` counts read-only connections, so
   a voter whose only connection is a read-only node starts elections that it would not start alone. *)
Definition ni_conf : conf := mkConf 50 400 1000 1500 100 1000 true false true 5 1000 100 40 false false.
Definition ni_env0 : env := mk_env ni_conf 0 300 DEFAULT_BUDGET [] 0.
Definition ni_node : node := on_connected 100 (init_node ni_env0 (Some 0) [1] 0).
Definition ni_env : env := mk_env ni_conf 2000 300 DEFAULT_BUDGET [] 0.

Theorem C18_noninterference_refuted : ~ C18_noninterference_full.
Proof.
  intros H. specialize (H ni_env ni_node 100).
  assert (role (nd (erase_S 100 (on_tick ni_env ni_node))) = role (nd (on_tick ni_env (erase_ro 100 ni_node)))) as E.
  { rewrite H; [reflexivity | vm_compute; discriminate | vm_compute; intros [E | []]; discriminate E
               | vm_compute; discriminate | vm_compute; reflexivity | vm_compute; reflexivity]. }
  vm_compute in E. discriminate E.
Qed.

(* what the witness shows: with the read-only node attached the isolated voter becomes candidate and
   raises its term; without it, it does not *)
Example ni_witness :
  role (nd (on_tick ni_env ni_node)) = CANDIDATE /\ term (nd (on_tick ni_env ni_node)) = 1 /\
  role (nd (on_tick ni_env (erase_ro 100 ni_node))) = FOLLOWER /\ term (nd (on_tick ni_env (erase_ro 100 ni_node))) = 0.
Proof. vm_compute. repeat split. Qed.

