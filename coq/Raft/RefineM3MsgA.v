(* Tier CM3 (copy of RefineMMsgA.v, target [kstep3]: a vote is granted over a link); Tier CM, part 7 (copy-and-adapt of RefineMsgA.v): message handlers of a voter, first half: RequestVote, ResponseVote, NextIdx,
   ApplyCmd, ApplyResp. *)
From Coq Require Import ZArith NArith List Bool Lia ZifyBool Arith PeanoNat.
From RecordUpdate Require Import RecordSet.
From PSO Require Import Raft.Types Raft.Node Raft.Net Raft.ProofsCommitBase Raft.ProofsCommit.
From PSO Require Import Raft.ProofsElectionBase Raft.ProofsMembership Raft.ProofsMembershipInv.
From PSO Require Import Raft.RefineMAbs Raft.RefineM3Abs Raft.RefineMEff Raft.RefineM3Eff Raft.RefineMCfg Raft.RefineM3K Raft.RefineMSpecA Raft.RefineM3Sim
  Raft.RefineM3TickA Raft.RefineM3TickB.
From PSO Require AbstractM.Model AbstractM.Lib AbstractM.Kstep AbstractM.Cfg AbstractM.Safety10_NoTguardD.
Import ListNotations.
Import RecordSetNotations.
Open Scope N_scope.
#[local] Arguments firstn : simpl nomatch.
#[local] Arguments skipn : simpl nomatch.

Section Msg.
Variable c : conf.
Variable V : list nid.
Hypothesis NDV : NoDup V.
Hypothesis SV : ssorted V.
Hypothesis VNE : V <> [].
Hypothesis VRO : forall v, In v V -> v < RO_BASE.
Hypothesis Hb1 : 1 < batch c.
Hypothesis Hdyn : dyn c = true.
Hypothesis Hfd : file_dump c = false.
Variable e : env.
Hypothesis Hc : cf e = c.
Set Default Proof Using "All".

Notation V' := (absV V).
Notation Rn := (Rn c).
Notation Rmsg := (Rmsg c).
Notation Ro := (Ro c).
Notation Hn := (Hn c V).
Notation ksn := (ksn V).
Notation LS := (LS c V).
Notation pk := (pk c).
Notation LS_wf := (LS_wf c V NDV SV VNE VRO Hb1).
Notation LS_up := (LS_up c V NDV SV VNE VRO Hb1).
Notation LS_ms := (LS_ms c V NDV SV VNE VRO Hb1).
Notation LS_not_self := (LS_not_self c V NDV SV VNE VRO Hb1).
Notation LS_in_cfg := (LS_in_cfg c V NDV SV VNE VRO Hb1).
Notation LS_stutter := (LS_stutter c V NDV SV VNE VRO Hb1).
Notation LS_same := (LS_same c V NDV SV VNE VRO Hb1).
Notation LS_ksn := (LS_ksn c V NDV SV VNE VRO Hb1).
Notation Rn_rv := (Rn_rv c V NDV SV VNE VRO Hb1).
Notation Hn_hv := (Hn_hv c V NDV SV VNE VRO Hb1).
Notation Hn_sorted := (Hn_sorted c V NDV SV VNE VRO Hb1).
Notation sim_become_leader := (sim_become_leader c V NDV SV VNE VRO Hb1).
Notation LS_quiet := (LS_quiet c V NDV SV VNE VRO Hb1 Hdyn Hfd e Hc).
Notation grow_Ro := (grow_Ro c V NDV SV VNE VRO Hb1 Hdyn Hfd e Hc).
Notation nosend_okout := (nosend_okout c V NDV SV VNE VRO Hb1 Hdyn Hfd e Hc).
Notation Hn_hv0 := (Hn_hv0 c V NDV SV VNE VRO Hb1 Hdyn Hfd e Hc).
Notation LS_keep := (LS_keep c V NDV SV VNE VRO Hb1 Hdyn Hfd e Hc).
Notation okout := (okout c).

Lemma LS_oth_lt n s S f : LS n s S -> In f (others (nd S)) -> f < RO_BASE.
Proof.
  intros L Hf. pose proof (LS_h _ _ _ _ _ L) as HH. rewrite (H_oth _ _ _ _ HH) in Hf.
  eapply fold_members_lt; [|apply (H_small _ _ _ _ HH)|exact Hf].
  intros y Hy. apply VRO. unfold vminus in Hy. apply filter_In in Hy. tauto.
Qed.

(* ---- adopting a higher term (the RequestVote flavour: role := FOLLOWER, leader := None) ---- *)
Lemma sim_bump n S s t :
  LS n s S -> term (nd S) < t ->
  exists s', ksn (n2 n) s s' /\
    LS n s' (upd (fun x => x <| leader := None |>)
                 (set_role FOLLOWER (upd (fun x => x <| term := t |> <| voted := None |>) S))).
Proof.
  intros L Ht.
  pose proof (LS_n _ _ _ _ _ L) as RN. pose proof (LS_up _ _ _ L) as Hj.
  destruct RN as [A0 A1 A2 A3 A4 A5 A6 A7 A8 A9].
  assert (Hlt : (M.term (M.nodes s (n2 n)) < n2 t)%nat) by (rewrite A1; lia).
  destruct (t_adopt_ok V' (n2 n) (n2 t) s Hj Hlt) as [K E].
  exists (t_adopt (n2 n) (n2 t) s). split; [apply ksn_one; auto|].
  apply (LS_ksn n s (t_adopt (n2 n) (n2 t) s) S).
  - apply ksn_one; auto.
  - exact L.
  - constructor; unfold t_adopt, M.set_node, M.bump; cbn [M.nodes M.grants]; rewrite ?upd_eq;
      cbn [M.term M.voted M.rl M.log M.commit M.votesFrom M.matchIdx M.lf M.noopi]; rewrite ?nd_upd, ?nd_set_role; cbn; auto.
    all: intros Hx; try (compute in Hx); discriminate.
  - eapply Hn_hv0; [| |apply (LS_h _ _ _ _ _ L)]; [rewrite nd_upd, nd_set_role; reflexivity|].
    apply pend_not_leader. rewrite nd_upd, nd_set_role. cbn. discriminate.
  - rewrite nd_upd, nd_set_role. apply (LS_self _ _ _ _ _ L).
  - apply (grow_Ro nosend); [intros o; apply nosend_okout|].
    eapply grow_trans; [|apply grow_upd]. eapply grow_trans; [apply grow_upd|]. apply grow_set_role. auto.
Qed.

(* ---- RequestVote ---- *)
Lemma sim_grant n a S s t lli llt :
  LS n s S -> Rmsg a n (RequestVote t lli llt) s ->
  ((role (nd S) =? FOLLOWER) || (role (nd S) =? CANDIDATE)) = true ->
  term (nd S) = t -> (llt <? last_term (log (nd S))) = false ->
  ((llt =? last_term (log (nd S))) && (lli <? last_idx (log (nd S)))) = false ->
  voted (nd S) = None -> M.linked s (n2 a) (n2 n) = true ->
  exists s', ksn (n2 n) s s' /\
    LS n s' (send a (ResponseVote t)
              (upd (fun x => x <| voted := Some a |> <| deadline := (tnow S + gen_timeout e)%Z |>) S)).
Proof.
  intros L (Ha & Hab & Hm & Hck) Hrole Ht H1 H2 Hv Hlk.
  pose proof (LS_n _ _ _ _ _ L) as RN. pose proof (LS_up _ _ _ L) as Hj.
  assert (Hna : n2 n <> n2 a) by lia.
  pose proof (LS_wf _ _ _ L) as W.
  destruct RN as [A0 A1 A2 A3 A4 A5 A6 A7 A8 A9].
  assert (Hnl : M.rl (M.nodes s (n2 n)) <> M.Leader).
  { rewrite A3. intros Hx. apply absR_leader in Hx. rewrite Hx in Hrole. discriminate. }
  assert (Htm : M.term (M.nodes s (n2 n)) = n2 t) by (rewrite A1, Ht; reflexivity).
  assert (Hup : M.up_to_date (M.log (M.nodes s (n2 n))) (n2 lli) (n2 llt) = true).
  { unfold M.up_to_date. rewrite A4, absL_lastTerm, absL_length.
    pose proof (wf1_last_idx _ W) as HL.
    apply negb_true_iff. apply orb_false_iff. split.
    - apply Nat.ltb_ge. apply N.ltb_ge in H1. lia.
    - apply andb_false_iff. apply andb_false_iff in H2 as [H2|H2].
      + left. apply Nat.eqb_neq. apply N.eqb_neq in H2. lia.
      + right. apply Nat.ltb_ge. apply N.ltb_ge in H2. lia. }
  assert (Hvn : M.voted (M.nodes s (n2 n)) = None) by (rewrite A2, Hv; reflexivity).
  destruct (t_grant_ok V' (n2 n) (n2 t) (n2 a) (n2 lli) (n2 llt) s Hj Hm Hnl Htm Hup Hvn Hna Hlk) as [K E].
  set (s' := M.do_grant (n2 n) (n2 t) (n2 a) s) in *.
  exists s'. split; [apply ksn_one; auto|].
  apply (LS_ksn n s s' S).
  - apply ksn_one; auto.
  - exact L.
  - constructor; unfold s', M.do_grant; cbn [M.nodes M.grants]; rewrite ?upd_eq;
      cbn [M.term M.voted M.rl M.log M.commit M.votesFrom M.matchIdx M.lf M.noopi]; rewrite ?nd_send, ?nd_upd; cbn; auto.
    + intros Hx. injection Hx as ->. left. rewrite Ht. reflexivity.
  - eapply Hn_hv; [|apply (LS_h _ _ _ _ _ L)]. rewrite nd_send, nd_upd. reflexivity.
  - rewrite nd_send, nd_upd. apply (LS_self _ _ _ _ _ L).
  - apply (grow_Ro (okout n s')); [auto|].
    eapply grow_trans; [apply grow_upd|]. apply grow_send. cbn.
    split; [apply (LS_lt _ _ _ _ _ L)|]. split; [congruence|].
    split; [unfold s', M.do_grant; cbn; left; reflexivity|].
    eapply cand_knows_ext; [exact E|exact Hck].
Qed.

(* the link a <-> n survives steps of n that keep its log *)
Lemma linked_keep n a s s1 S0 S1 :
  LS n s S0 -> LS n s1 S1 -> log (nd S1) = log (nd S0) -> ext (n2 n) s s1 -> a <> n ->
  M.linked s (n2 a) (n2 n) = true -> M.linked s1 (n2 a) (n2 n) = true.
Proof.
  intros L0 L1 El E Hne H. unfold M.linked in *.
  assert (Ea : M.nodes s1 (n2 a) = M.nodes s (n2 a)) by (apply (ext_nodes _ _ _ E); lia).
  rewrite Ea. rewrite (LS_up _ _ _ L1). rewrite (LS_up _ _ _ L0) in H.
  assert (Eo : M.others (n2 n) (M.nodes s1 (n2 n)) = M.others (n2 n) (M.nodes s (n2 n))).
  { unfold M.others. rewrite (base_abs c V NDV SV VNE VRO Hb1 n s1 (LS_reach _ _ _ _ _ L1)).
    rewrite (base_abs c V NDV SV VNE VRO Hb1 n s (LS_reach _ _ _ _ _ L0)).
    rewrite (Rn_log _ _ _ _ (LS_n _ _ _ _ _ L1)), (Rn_log _ _ _ _ (LS_n _ _ _ _ _ L0)), El. reflexivity. }
  rewrite Eo. exact H.
Qed.

Lemma sim_msg_rv n a x s t lli llt :
  LS n s (start_S e x) -> Rmsg a n (RequestVote t lli llt) s -> M.linked s (n2 a) (n2 n) = true ->
  exists s', ksn (n2 n) s s' /\ LS n s' (on_message e a (RequestVote t lli llt) x).
Proof.
  intros L Hm Hlk. unfold on_message. set (S0 := start_S e x) in *.
  rewrite (LS_self _ _ _ _ _ L).
  (* the term bump *)
  assert (Hb : exists s1 S1, ksn (n2 n) s s1 /\ LS n s1 S1 /\ tnow S1 = tnow S0 /\
             S1 = (if term (nd S0) <? t
                   then upd (fun n0 => n0 <| leader := None |>)
                            (set_role FOLLOWER (upd (fun n0 => n0 <| term := t |> <| voted := None |>) S0))
                   else S0)).
  { destruct (term (nd S0) <? t) eqn:Et.
    - apply N.ltb_lt in Et. destruct (sim_bump n S0 s t L Et) as (s1 & K1 & L1).
      eexists s1, _. split; [exact K1|]. split; [exact L1|]. split; [|reflexivity].
      unfold set_role. cbn. destruct (_ =? _); reflexivity.
    - exists s, S0. split; [constructor|]. auto. }
  destruct Hb as (s1 & S1 & K1 & L1 & Tn & ES).
  assert (Hlog : log (nd S1) = log (nd S0)).
  { rewrite ES. destruct (term (nd S0) <? t); [rewrite nd_upd, nd_set_role, nd_upd; reflexivity|reflexivity]. }
  rewrite <- ES.
  assert (Hm1 : Rmsg a n (RequestVote t lli llt) s1).
  { eapply Rmsg_ext; [apply (ksn_ext _ _ _ _ K1)|exact Hm]. }
  assert (Hlk1 : M.linked s1 (n2 a) (n2 n) = true).
  { apply (linked_keep n a s s1 S0 S1 L L1 Hlog (ksn_ext _ _ _ _ K1)); [|exact Hlk].
    destruct Hm as (_ & Hab & _). exact Hab. }
  cbv zeta.
  destruct ((role (nd S1) =? FOLLOWER) || (role (nd S1) =? CANDIDATE)) eqn:Er; [|exists s1; auto].
  destruct (term (nd S1) <=? t) eqn:Et; [|exists s1; auto].
  destruct (llt <? last_term (log (nd S1))) eqn:E1; [exists s1; auto|].
  destruct ((llt =? last_term (log (nd S1))) && (lli <? last_idx (log (nd S1)))) eqn:E2; [exists s1; auto|].
  destruct (voted (nd S1)) eqn:Ev; [exists s1; auto|].
  assert (Htt : term (nd S1) = t).
  { apply N.leb_le in Et. destruct (term (nd S0) <? t) eqn:E0.
    - rewrite ES. rewrite nd_upd, nd_set_role. reflexivity.
    - apply N.ltb_ge in E0. rewrite ES in Et. rewrite ES. lia. }
  destruct (sim_grant n a S1 s1 t lli llt L1 Hm1 Er Htt E1 E2 Ev Hlk1) as (s2 & K2 & L2).
  exists s2. split; [eapply ksn_trans; eauto|]. exact L2.
Qed.

(* ---- ResponseVote ---- *)
Lemma sim_msg_vote n a x s t :
  LS n s (start_S e x) ->
  (role x = CANDIDATE -> t = term x ->
     ~ In (n2 a) (M.votesFrom (M.nodes s (n2 n))) /\ In (M.Vote (n2 t) (n2 a) (n2 n)) (M.net s) /\
     In (n2 a) (M.cfg (n2 n) (M.nodes s (n2 n)))) ->
  exists s', ksn (n2 n) s s' /\ LS n s' (on_message e a (ResponseVote t) x) /\
    (role (nd (on_message e a (ResponseVote t) x)) = CANDIDATE ->
     forall v, In v (M.votesFrom (M.nodes s' (n2 n))) -> v = n2 a \/ In v (M.votesFrom (M.nodes s (n2 n)))).
Proof.
  intros L Hcnt. unfold on_message. set (S0 := start_S e x) in *.
  destruct ((role (nd S0) =? CANDIDATE) && (t =? term (nd S0))) eqn:G;
    [|exists s; split; [constructor|split; [exact L|auto]]].
  apply andb_true_iff in G as [G1 G2]. apply N.eqb_eq in G1, G2.
  destruct (Hcnt G1 G2) as (Hv & Hin & Hcfg). set (v := n2 a) in *.
  pose proof (LS_n _ _ _ _ _ L) as RN. pose proof (LS_up _ _ _ L) as Hj.
  destruct RN as [A0 A1 A2 A3 A4 A5 A6 A7 A8 A9].
  assert (Hcand : M.rl (M.nodes s (n2 n)) = M.Candidate) by (rewrite A3, G1; reflexivity).
  assert (Hin' : In (M.Vote (M.term (M.nodes s (n2 n))) v (n2 n)) (M.net s)).
  { rewrite A1, <- G2. exact Hin. }
  assert (Hmc : M.mem v (M.cfg (n2 n) (M.nodes s (n2 n))) = true) by (apply MC.mem_In; exact Hcfg).
  destruct (t_count_ok V' (n2 n) v s Hj Hin' Hcand Hmc) as [K E].
  set (s1 := t_count (n2 n) v s) in *.
  set (S1 := upd (fun n0 => n0 <| votes := votes n0 + 1 |>) S0).
  assert (Hmem : M.mem v (M.votesFrom (M.nodes s (n2 n))) = false).
  { apply MC.mem_not_In. exact Hv. }
  assert (L1 : LS n s1 S1).
  { apply (LS_ksn n s s1 S0).
    - apply ksn_one; auto.
    - exact L.
    - constructor; unfold s1, t_count, M.set_node; cbn [M.nodes M.grants]; rewrite ?upd_eq;
        cbn [M.term M.voted M.rl M.log M.commit M.votesFrom M.matchIdx M.lf M.noopi]; unfold S1; rewrite ?nd_upd;
        [exact A0|exact A1|exact A2|exact A3|exact A4|exact A5| |exact A7|exact A8|exact A9].
      intros Hx. rewrite Hmem. destruct (A6 Hx) as [A6a A6b]. split; [|right; exact A6b].
      cbn [length]. rewrite A6a.
      change (votes (nd S0 <| votes := votes (nd S0) + 1 |>)) with (votes (nd S0) + 1). lia.
    - eapply Hn_hv; [|apply (LS_h _ _ _ _ _ L)]. reflexivity.
    - apply (LS_self _ _ _ _ _ L).
    - exists []. rewrite app_nil_r. split; auto. apply Ro_nil. }
  destruct (majority (votes (nd S1)) (nd S1)) eqn:Mj.
  - destruct (sim_become_leader e n S1 s1 Hc L1) as (s2 & K2 & L2); auto.
    exists s2. split; [eapply ksn_trans; [apply ksn_one; eauto|exact K2]|]. split; [exact L2|].
    destruct (become_leader_p5 e S1) as (P1 & _). cbv zeta in P1. rewrite P1. discriminate.
  - exists s1. split; [apply ksn_one; auto|]. split; [exact L1|]. intros _ w Hw.
    unfold s1, t_count, M.set_node in Hw. cbn [M.nodes] in Hw. rewrite upd_eq in Hw. cbn [M.votesFrom] in Hw.
    rewrite Hmem in Hw. destruct Hw as [<-|Hw]; auto.
Qed.

(* ---- NextIdx ---- *)
Lemma sim_msg_nextidx n a x s t nx rs su :
  LS n s (start_S e x) -> Rmsg a n (NextIdx t nx rs su) s ->
  exists s', ksn (n2 n) s s' /\ LS n s' (on_message e a (NextIdx t nx rs su) x).
Proof.
  intros L Hm. unfold on_message. set (S0 := start_S e x) in *.
  destruct ((role (nd S0) =? LEADER) && (t =? term (nd S0))) eqn:G; [|exists s; split; [constructor|exact L]].
  apply andb_true_iff in G as [G1 G2]. apply N.eqb_eq in G1, G2.
  set (S1 := if rs then upd _ S0 else S0).
  assert (L1 : LS n s S1).
  { unfold S1. destruct rs; [|exact L]. apply (LS_quiet n s S0); [exact L|reflexivity|apply grow_upd]. }
  assert (R1 : role (nd S1) = LEADER /\ term (nd S1) = term (nd S0) /\ match_idx (nd S1) = match_idx (nd S0)).
  { unfold S1. destruct rs; auto. }
  destruct R1 as (R1 & R2 & R3).
  assert (E1 : exc S1 = 0) by (unfold S1; destruct rs; reflexivity).
  clearbody S1.
  (* the final bookkeeping *)
  assert (Hfin : forall s2 S2, LS n s2 S2 ->
            LS n s2 (if ok S2 then upd (fun n0 => n0 <| last_resp := aset a (tnow S2) (last_resp n0) |>) S2 else S2)).
  { intros s2 S2 L2. destruct (ok S2); auto.
    apply (LS_quiet n s2 S2); [exact L2|reflexivity|apply grow_upd]. }
  destruct su; [|exists s; split; [constructor|apply Hfin; exact L1]].
  destruct (aget a (match_idx (nd S1))) as [m0|] eqn:Eg.
  2:{ exists s. split; [constructor|]. apply Hfin. eapply LS_same; eauto. }
  destruct (m0 <? nx - 1) eqn:Elt; [|exists s; split; [constructor|apply Hfin; exact L1]].
  apply N.ltb_lt in Elt.
  set (S2 := upd (fun n0 => n0 <| match_idx := aset a (nx - 1) (match_idx n0) |>
                              <| next_idx := aset a nx (next_idx n0) |>) S1).
  destruct (N.ltb_spec a RO_BASE) as [Hlt|Hge].
  - (* a voter's acknowledgement *)
    pose proof (LS_n _ _ _ _ _ L1) as RN. pose proof (LS_up _ _ _ L1) as Hj.
    destruct RN as [A0 A1 A2 A3 A4 A5 A6 A7 A8 A9].
    assert (Hl : M.rl (M.nodes s (n2 n)) = M.Leader) by (rewrite A3, R1; reflexivity).
    assert (Hin : In (M.AppendReply (M.term (M.nodes s (n2 n))) (n2 a) true (n2 nx - 1)) (M.net s)).
    { rewrite A1, R2, <- G2. apply Hm; auto. }
    destruct (t_ar_ok V' (n2 n) (n2 a) (n2 nx - 1) s Hj Hin Hl) as [K E].
    set (s1 := t_ar (n2 n) (n2 a) (n2 nx - 1) s) in *.
    exists s1. split; [apply ksn_one; auto|]. apply Hfin.
    apply (LS_ksn n s s1 S1).
    + apply ksn_one; auto.
    + exact L1.
    + constructor; unfold s1, t_ar, M.set_node; cbn [M.nodes M.grants]; rewrite ?upd_eq;
        cbn [M.term M.voted M.rl M.log M.commit M.votesFrom M.matchIdx M.lf M.noopi]; unfold S2; rewrite ?nd_upd; cbn; auto.
      intros f m Hf Hne Hg. rewrite ProofsCommitBase.aget_aset in Hg. unfold M.upd.
      destruct (f =? a) eqn:Efa.
      * apply N.eqb_eq in Efa. subst f. injection Hg as <-. rewrite Nat.eqb_refl. lia.
      * apply N.eqb_neq in Efa. destruct (Nat.eqb_spec (n2 f) (n2 a)) as [Ex|Ex]; [lia|]. eauto.
    + eapply Hn_hv; [|apply (LS_h _ _ _ _ _ L1)]. reflexivity.
    + apply (LS_self _ _ _ _ _ L1).
    + exists []. rewrite app_nil_r. split; auto. apply Ro_nil.
  - (* a read-only node: no abstract counterpart *)
    exists s. split; [constructor|]. apply Hfin.
    apply (LS_ksn n s s S1 S2).
    + constructor.
    + exact L1.
    + pose proof (LS_n _ _ _ _ _ L1) as RN. destruct RN as [A0 A1 A2 A3 A4 A5 A6 A7 A8 A9].
      constructor; unfold S2; rewrite ?nd_upd;
        [exact A0|exact A1|exact A2|exact A3|exact A4|exact A5|exact A6| |exact A8|exact A9].
      intros f m Hf Hne Hg.
      change (match_idx (nd S1 <| match_idx := aset a (nx - 1) (match_idx (nd S1)) |>
                               <| next_idx := aset a nx (next_idx (nd S1)) |>))
        with (aset a (nx - 1) (match_idx (nd S1))) in Hg.
      change (others (nd S1 <| match_idx := aset a (nx - 1) (match_idx (nd S1)) |>
                               <| next_idx := aset a nx (next_idx (nd S1)) |>))
        with (others (nd S1)) in Hf.
      rewrite ProofsCommitBase.aget_aset in Hg.
      destruct (f =? a) eqn:Efa; [|eauto].
      apply N.eqb_eq in Efa. subst f. pose proof (LS_oth_lt _ _ _ _ L1 Hf). lia.
    + eapply Hn_hv; [|apply (LS_h _ _ _ _ _ L1)]. reflexivity.
    + apply (LS_self _ _ _ _ _ L1).
    + exists []. rewrite app_nil_r. split; auto. apply Ro_nil.
Qed.

(* ---- ApplyCmd / ApplyResp ---- *)
Lemma sim_submit n cm cbk S s :
  LS n s S -> small_cmd c cm -> LS n s (submit e cm cbk S).
Proof.
  intros L Hs. unfold submit. destruct (_ <? _).
  - apply (LS_stutter n s S); [exact L|rewrite nd_call_err; reflexivity|].
    apply (grow_Ro (okout n s)); [auto|].
    destruct cbk as [|id|rn rid]; cbn [call_err]; [apply grow_refl|apply grow_emit; exact I|apply grow_send; exact I].
  - apply (LS_keep n s S); auto; try reflexivity; [|apply grow_upd].
    destruct (LS_h _ _ _ _ _ L) as [B1 B2 B3 B4 B5 B6 B7]. constructor; rewrite ?nd_upd; cbn; auto.
    apply Forall_app. split; auto.
Qed.

Lemma sim_msg_applycmd n a x s cm req :
  LS n s (start_S e x) -> Rmsg a n (ApplyCmd cm req) s ->
  exists s', ksn (n2 n) s s' /\ LS n s' (on_message e a (ApplyCmd cm req) x).
Proof.
  intros L Hm. exists s. split; [constructor|]. unfold on_message. apply sim_submit; auto.
Qed.

Lemma sim_msg_applyresp n a x s req okr p q :
  LS n s (start_S e x) ->
  exists s', ksn (n2 n) s s' /\ LS n s' (on_message e a (ApplyResp req okr p q) x).
Proof.
  intros L. exists s. split; [constructor|]. unfold on_message. set (S0 := start_S e x) in *.
  destruct (aget req (wait_reply (nd S0))) as [cbk|]; [|exact L].
  set (S1 := upd _ S0).
  assert (L1 : LS n s S1) by (apply (LS_quiet n s S0); [exact L|reflexivity|apply grow_upd]).
  clearbody S1.
  destruct (negb okr).
  - apply (LS_quiet n s S1); [exact L1|rewrite nd_fire; reflexivity|apply grow_fire; auto].
  - destruct (p <=? applied (nd S1)).
    + apply (LS_quiet n s S1); [exact L1|rewrite nd_fire; reflexivity|apply grow_fire; auto].
    + apply (LS_quiet n s S1); [exact L1|reflexivity|apply grow_upd].
Qed.

End Msg.
