(* Tier CM2, user-state half of C01, part 4 (the counterpart of Refine6Final.v): ONE sequence sigma - the
   committed entries of the run from index 2 on, read back from the AbstractM history - such that at every
   moment of a run of core_fragM2 the user state of every running voter is the replay of a prefix of sigma
   (of length applied - 1), and so is the user state in every snapshot a voter stores. *)
From Coq Require Import ZArith NArith List Bool Lia ZifyBool Arith PeanoNat.
From RecordUpdate Require Import RecordSet.
From PSO Require Import Raft.Types Raft.Node Raft.Net Raft.Obs Raft.ProofsCommitBase.
From PSO Require Import Raft.ProofsApplyBase Raft.ProofsApplyLog Raft.ProofsApplyReplay.
From PSO Require Import Raft.ProofsElectionBase Raft.ProofsElectionGhost Raft.ProofsMembership.
From PSO Require Import Raft.RefineMAbs Raft.RefineMMain Raft.Refine6Snaps.
From PSO Require Import Raft.RefineM2Abs Raft.RefineM2SpecA Raft.RefineM2Sim Raft.RefineM2Ghost
  Raft.RefineM2Main Raft.RefineM2Final Raft.RefineM2Final2 Raft.RefineM2HistBase Raft.RefineM2HistTick Raft.RefineM2HistMain.
From PSO Require AbstractM.Model AbstractM.Lib AbstractM.Kstep.
Import ListNotations.
Import RecordSetNotations.
Open Scope N_scope.
#[local] Arguments firstn : simpl nomatch.
#[local] Arguments skipn : simpl nomatch.

(* ---- runs and their prefixes (from Refine6Final.v) ---- *)
Lemma longest_run c evs : forall g0,
  exists evsA evsB gA, evs = evsA ++ evsB /\ run_trace c g0 evsA = Some gA /\
    forall evs1 evs2 g, evs = evs1 ++ evs2 -> run_trace c g0 evs1 = Some g -> exists evs3, evsA = evs1 ++ evs3.
Proof.
  induction evs as [|ev evs IH]; intros g0.
  - exists [], [], g0. split; [reflexivity|]. split; [reflexivity|].
    intros evs1 evs2 g E _. destruct evs1; [|discriminate]. exists []. reflexivity.
  - destruct (gstep c g0 ev) as [[g1 r]|] eqn:Est.
    + destruct (IH g1) as (evsA & evsB & gA & E & RA & Hmax).
      exists (ev :: evsA), evsB, gA. split; [cbn; rewrite E; reflexivity|]. split; [cbn; rewrite Est; exact RA|].
      intros evs1 evs2 g E1 R1. destruct evs1 as [|ev1 evs1]; [exists (ev :: evsA); reflexivity|].
      cbn in E1. injection E1 as <- E1. cbn in R1. rewrite Est in R1.
      destruct (Hmax evs1 evs2 g E1 R1) as (evs3 & ->). exists evs3. reflexivity.
    + exists [], (ev :: evs), g0. split; [reflexivity|]. split; [reflexivity|].
      intros evs1 evs2 g E1 R1. destruct evs1 as [|ev1 evs1]; [exists []; reflexivity|].
      cbn in E1. injection E1 as <- E1. cbn in R1. rewrite Est in R1. discriminate.
Qed.

Section Final6.
Variable c : conf.
Variable mf : N -> N -> N * N.
Variable V : list nid.
Hypothesis NDV : NoDup V.
Hypothesis SV : ssorted V.
Hypothesis VNE : V <> [].
Hypothesis VRO : forall v, In v V -> v < RO_BASE.
Hypothesis Hb1 : 1 < batch c.
Hypothesis Hdyn : dyn c = true.
Hypothesis Hfd : file_dump c = false.
Hypothesis H_on_tick : sim_on_tick_stmt c mf V.
Hypothesis H_ae : sim_msg_ae_stmt c mf V.
Hypothesis H_aesnap : sim_msg_aesnap_stmt c mf V.
Set Default Proof Using "All".

Notation V' := (absV V).
Notation kstar := (kstar V).
Notation GI := (GI c mf V).
Notation J := (J c).
Notation HI := (HI c).
Notation pk := (pk c).
Notation cpre_fun := (cpre_fun c mf V NDV SV VNE VRO Hb1).
Notation cpre_le := (cpre_le c mf V NDV SV VNE VRO Hb1).
Notation cpre_head := (cpre_head c mf V NDV SV VNE VRO Hb1).
Notation direct_len := (direct_len c mf V NDV SV VNE VRO Hb1).
Notation HI_kstar := (HI_kstar c mf V NDV SV VNE VRO Hb1).

(* ---- the whole committed log of an AbstractM state ---- *)
Lemma max_committed_list s D :
  KS.kreachable V' F0 s -> (forall d, In d D -> In d (M.direct s)) ->
  exists C, (forall T p C0, In (T, p, C0) D -> (Sn p <= length C)%nat) /\ (C = [] \/ cpre s (length C) C).
Proof.
  intros HR. induction D as [|[[T p] C0] D IH]; intros HD.
  - exists []. split; [intros T p C0 []|left; reflexivity].
  - destruct IH as (C' & HL & HC); [intros d Hd; apply HD; right; exact Hd|].
    destruct (Nat.le_gt_cases (Sn p) (length C')) as [Hle|Hgt].
    + exists C'. split; auto. intros T0 p0 C1 [E|H]; [injection E as <- <- <-; exact Hle|eauto].
    + assert (Dp : In (T, p, C0) (M.direct s)) by (apply HD; left; reflexivity).
      pose proof (direct_len s T p C0 HR Dp) as Hlen.
      assert (El : length (firstn (Sn p) (M.llog s T)) = Sn p) by (rewrite firstn_length; lia).
      exists (firstn (Sn p) (M.llog s T)). rewrite El. split.
      * intros T0 p0 C1 [E|H]; [injection E as <- <- <-; lia|]. specialize (HL _ _ _ H). lia.
      * right. exists T, p, C0. split; auto.
Qed.

Lemma max_committed s :
  KS.kreachable V' F0 s -> exists C, forall k l, cpre s k l -> l = firstn k C.
Proof.
  intros HR. destruct (max_committed_list s (M.direct s) HR (fun d H => H)) as (C & HL & HC).
  exists C. intros k l Hc. pose proof Hc as (T0 & p0 & C0 & D0 & Hk & El).
  specialize (HL _ _ _ D0).
  destruct HC as [->|HC]; [cbn in HL; lia|].
  eapply cpre_fun; [exact HR|exact Hc|].
  apply (cpre_le s (length C) k C); [lia|exact HC].
Qed.

(* the replay of a committed prefix, in terms of the whole committed log without its first entry *)
Lemma replay_cpre sf C l (ka : nat) :
  KS.kreachable V' F0 sf -> (forall k l, cpre sf k l -> l = firstn k C) -> (1 <= ka)%nat -> cpre sf ka (absL pk l) ->
  replay l = replay (firstn (ka - 1) (tl (decL pk C))).
Proof.
  intros HRf HC Ha Cl. pose proof (HC _ _ Cl) as El.
  destruct (cpre_head sf _ _ HRf Cl Ha) as (r & Er).
  rewrite <- (replay_dec pk l). rewrite El.
  set (k := (ka - 1)%nat) in *.
  assert (Ek : ka = Sn k) by (unfold k; lia).
  rewrite Ek in El |- *.
  destruct C as [|a C2]; [rewrite El in Er; discriminate|].
  assert (Ea : a = M.e0) by (rewrite El in Er; cbn [firstn] in Er; congruence).
  subst a. cbn [firstn tl decL map]. unfold replay at 1. cbn [flat_map].
  rewrite effect_e0. cbn [app].
  fold (replay (map (decE pk) (firstn k C2))). rewrite <- firstn_map. reflexivity.
Qed.

(* ---- the run, remembering every intermediate moment ---- *)
Lemma run_sim6_all evs : forall g st gm s g',
  GI g st gm s -> J g s -> valid_fromM V st evs = true -> run_okM2 c mf V g gm evs = true ->
  run_trace c g evs = Some g' ->
  exists s', kstar s s' /\ KS.kreachable V' F0 s' /\
    (forall evs1 evs3 g1, evs = evs1 ++ evs3 -> run_trace c g evs1 = Some g1 ->
      exists st1 gm1 s1, GI g1 st1 gm1 s1 /\ J g1 s1 /\ kstar s1 s').
Proof.
  induction evs as [|ev evs IH]; intros g st gm s g' G JJ Hv Hr Hg; cbn in *.
  - exists s. split; [constructor|]. split; [destruct G as [G0 _]; apply (GI_reach _ _ _ _ _ _ G0)|].
    intros evs1 evs3 g1 E R1. destruct evs1; [|discriminate]. cbn in R1. injection R1 as <-.
    exists st, gm, s. split; auto. split; auto. constructor.
  - apply andb_true_iff in Hv as [Hev Hv].
    apply andb_true_iff in Hr as [Hsm Hr]. apply andb_true_iff in Hsm as [Hsm Hros].
    apply andb_true_iff in Hsm as [Hsm Hver]. apply andb_true_iff in Hsm as [Hsm Hnr].
    destruct (gstep c g ev) as [[g1 r]|] eqn:Est; [|discriminate].
    apply andb_true_iff in Hr as [Hid Hr]. apply andb_true_iff in Hid as [Hid Hsan].
    apply andb_true_iff in Hid as [Htg Hsn].
    destruct (step6 c mf V NDV SV VNE VRO Hb1 Hdyn Hfd H_on_tick H_ae H_aesnap g st gm s ev g1 r
                G JJ Hev Hnr Hsm Hver Hros Est Htg Hsn Hsan) as (s1 & K1 & G1 & J1).
    destruct (IH g1 _ _ s1 g' G1 J1 Hv Hr Hg) as (s2 & K2 & HR2 & Hall).
    assert (K : kstar s s2) by (eapply kstar_trans; eauto).
    exists s2. split; auto. split; auto.
    intros evs1 evs3 g2 E R1. destruct evs1 as [|ev1 evs1].
    + cbn in R1. injection R1 as <-. exists st, gm, s. auto.
    + cbn in E. injection E as <- E. cbn in R1. rewrite Est in R1.
      exact (Hall evs1 evs3 g2 E R1).
Qed.

(* ---- the theorem, for a fixed voter set ---- *)
Theorem one_common_sequence_strong evs :
  valid_fromM V [] evs = true -> run_okM2 c mf V ginit [] evs = true ->
  exists sigma : list entry,
    forall evs1 evs2 g x n, evs = evs1 ++ evs2 -> run_trace c ginit evs1 = Some g ->
      aget x (nodes g) = Some n -> x < RO_BASE ->
      (exists k, hist n = replay (firstn k sigma) /\ N.of_nat k + 1 = applied n) /\
      (forall sn, stored (sr n) = Some (Good sn) ->
         exists k, s_hist sn = replay (firstn k sigma) /\ N.of_nat k + 1 = eidx (s_e1 sn)).
Proof.
  intros Hv Hok.
  destruct (longest_run c evs ginit) as (evsA & evsB & gA & E & RA & Hmax).
  rewrite E in Hv, Hok.
  rewrite valid_fromM_app2 in Hv. apply andb_true_iff in Hv as [HvA _].
  rewrite (run_okM2_app c mf V ginit [] evsA evsB gA RA) in Hok. apply andb_true_iff in Hok as [HokA _].
  destruct (run_sim6_all evsA ginit [] [] (M.init V') gA
              (GI_init c mf V NDV SV VNE VRO Hb1 Hdyn Hfd H_on_tick H_ae H_aesnap)
              (J_init c mf V NDV SV VNE VRO Hb1 Hdyn Hfd H_on_tick H_ae H_aesnap) HvA HokA RA) as (sf & _ & HRf & Hall).
  destruct (max_committed sf HRf) as (C & HC).
  exists (tl (decL pk C)).
  intros evs1 evs2 g x n E1 R1 Hx Hlt.
  destruct (Hmax evs1 evs2 g E1 R1) as (evs3 & EA).
  destruct (Hall evs1 evs3 g EA R1) as (st1 & gm1 & s1 & G1 & J1 & K1).
  destruct G1 as [G0 _].
  pose proof (GI_reach _ _ _ _ _ _ G0) as HR1. pose proof (GI_R _ _ _ _ _ _ G0) as RR1.
  pose proof (R_node _ _ _ _ _ _ RR1 x n Hx Hlt) as RN. destruct (R_hyg _ _ _ _ _ _ RR1 x n Hx Hlt) as [HH _].
  split.
  - pose proof (J_hist _ _ _ J1 x n Hx Hlt) as H1.
    apply (HI_kstar s1 sf n HR1 K1) in H1. destruct H1 as (l & Cl & Eh).
    assert (Ha : 1 <= applied n).
    { destruct (Rn_full c mf V NDV SV VNE VRO Hb1 x n s1 HR1 RN) as (full & _ & W & Sx & _).
      pose proof (suffix_first_pos _ _ W Sx). pose proof (H_fi _ _ _ HH). lia. }
    exists (n2 (applied n) - 1)%nat. split; [|lia].
    rewrite Eh. apply (replay_cpre sf C l _ HRf HC); [lia|exact Cl].
  - intros sn Hst.
    destruct (J_node _ _ _ J1 x n Hx Hlt) as (X & _). pose proof (X _ Hst) as H1. cbn [bq] in H1.
    apply (SH_kstar c mf V NDV SV VNE VRO Hb1 s1 sf sn HR1 K1) in H1. destruct H1 as (l & Cl & Eh).
    destruct (Rn_stored _ _ _ _ _ _ RN _ Hst sn eq_refl) as [(_ & _ & _ & H2 & _) _].
    exists (n2 (eidx (s_e1 sn)) - 1)%nat. split; [|lia].
    rewrite Eh. apply (replay_cpre sf C l _ HRf HC); [lia|exact Cl].
Qed.

End Final6.

(* ------------------------------------------------------------------------------------------ *)
(* the statements with the fragment hypotheses spelled out (exported by Props/TierCM2c.v)      *)

Lemma TierCM2_one_common_sequence_snapshots :
  forall (c : conf) (mf : N -> N -> N * N) (V : list nid) (evs : list event),
    dyn c = true -> file_dump c = false -> 1 < batch c -> validM V evs = true ->
    run_okM2 c mf V ginit [] evs = true ->
    exists sigma : list entry,
      forall evs1 evs2 g x n, evs = evs1 ++ evs2 -> run_trace c ginit evs1 = Some g ->
        aget x (nodes g) = Some n -> x < RO_BASE ->
        (exists k, hist n = replay (firstn k sigma) /\ N.of_nat k + 1 = applied n) /\
        (forall sn, stored (sr n) = Some (Good sn) ->
           exists k, s_hist sn = replay (firstn k sigma) /\ N.of_nat k + 1 = eidx (s_e1 sn)).
Proof.
  intros c mf V evs H1 H2 H3 H4 H5.
  destruct (frag_args c mf V evs (core_fragM2_intro c mf V evs H1 H2 H3 H4 H5))
    as (ND & SV & HNE & HV & Hb & Hd & Hf & Hv & Hok & T1 & T2 & T3).
  exact (one_common_sequence_strong c mf V ND SV HNE HV Hb Hd Hf T1 T2 T3 evs Hv Hok).
Qed.

Lemma TierCM2_one_common_sequence :
  forall (c : conf) (mf : N -> N -> N * N) (V : list nid) (evs : list event),
    dyn c = true -> file_dump c = false -> 1 < batch c -> validM V evs = true ->
    run_okM2 c mf V ginit [] evs = true ->
    exists sigma : list entry,
      forall evs1 evs2 g x n, evs = evs1 ++ evs2 -> run_trace c ginit evs1 = Some g ->
        aget x (nodes g) = Some n -> x < RO_BASE ->
        exists k, hist n = replay (firstn k sigma) /\ N.of_nat k + 1 = applied n.
Proof.
  intros c mf V evs H1 H2 H3 H4 H5.
  destruct (TierCM2_one_common_sequence_snapshots c mf V evs H1 H2 H3 H4 H5) as (sigma & H).
  exists sigma. intros evs1 evs2 g x n E R Hx Hlt. apply (H evs1 evs2 g x n E R Hx Hlt).
Qed.

(* the user states of two voters, at any two moments of a run, are comparable *)
Lemma TierCM2_states_comparable :
  forall (c : conf) (mf : N -> N -> N * N) (V : list nid) (evs ea ea' eb eb' : list event) (ga gb : gstate)
         (a b : nid) (na nb : node),
    dyn c = true -> file_dump c = false -> 1 < batch c -> validM V evs = true ->
    run_okM2 c mf V ginit [] evs = true ->
    evs = ea ++ ea' -> evs = eb ++ eb' ->
    run_trace c ginit ea = Some ga -> run_trace c ginit eb = Some gb ->
    aget a (nodes ga) = Some na -> aget b (nodes gb) = Some nb -> a < RO_BASE -> b < RO_BASE ->
    applied na <= applied nb -> exists r, hist nb = hist na ++ r.
Proof.
  intros c mf V evs ea ea' eb eb' ga gb a b na nb H1 H2 H3 H4 H5 Ea Eb Ra Rb Ha Hb La Lb Hle.
  destruct (TierCM2_one_common_sequence c mf V evs H1 H2 H3 H4 H5) as (sigma & H).
  destruct (H ea ea' ga a na Ea Ra Ha La) as (ka & Eha & Eka).
  destruct (H eb eb' gb b nb Eb Rb Hb Lb) as (kb & Ehb & Ekb).
  exists (replay (firstn (kb - ka) (skipn ka sigma))).
  rewrite Eha, Ehb, <- replay_app. f_equal.
  replace kb with (ka + (kb - ka))%nat at 1 by lia. apply ML.firstn_add.
Qed.
