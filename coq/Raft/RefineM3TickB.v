(* Tier CM3 (copy of RefineMTickB.v, target [kstep3]); Tier CM, part 6 (copy-and-adapt of RefineTickB.v): the phases of _onTick, second half: applying entries, heartbeats, the command
   queue, log compaction (idle in the fragment), and the whole tick. *)
From Coq Require Import ZArith NArith List Bool Lia ZifyBool Arith PeanoNat.
From RecordUpdate Require Import RecordSet.
From PSO Require Import Raft.Types Raft.Node Raft.Net Raft.ProofsCommitBase Raft.ProofsCommit.
From PSO Require Import Raft.ProofsElectionBase Raft.ProofsMembership Raft.ProofsMembershipInv.
From PSO Require Import Raft.RefineMAbs Raft.RefineM3Abs Raft.RefineMEff Raft.RefineM3Eff Raft.RefineMCfg Raft.RefineM3K Raft.RefineMSpecA Raft.RefineM3Sim
  Raft.RefineM3TickA.
From PSO Require AbstractM.Model AbstractM.Lib AbstractM.Kstep AbstractM.Cfg AbstractM.Safety10_NoTguardD.
Import ListNotations.
Import RecordSetNotations.
Open Scope N_scope.
#[local] Arguments firstn : simpl nomatch.
#[local] Arguments skipn : simpl nomatch.

(* everything the refinement reads except [applied] *)
Definition fvA (x : node) :=
  (self x, others x, role x, term x, voted x, votes x, log x, commit x, match_idx x,
   sr x, queue x, replay_idx x, readonly x, noop_idx x, change_idx x).

Lemma fvA_eq x y : fvA x = fvA y ->
  self x = self y /\ others x = others y /\ rv x = rv y /\
  sr x = sr y /\ log x = log y /\ queue x = queue y /\ replay_idx x = replay_idx y /\ readonly x = readonly y /\
  role x = role y /\ noop_idx x = noop_idx y /\ change_idx x = change_idx y.
Proof. unfold fvA, rv. intros H. injection H; intros. repeat split; congruence. Qed.

Definition app_rel (s s' : S) : Prop :=
  fvA (nd s') = fvA (nd s) /\ applied (nd s) <= applied (nd s') /\ grow nosend s s'.

Lemma app_rel_refl s : app_rel s s.
Proof. split; auto. split; [lia|apply grow_refl]. Qed.

Lemma app_rel_trans a b c : app_rel a b -> app_rel b c -> app_rel a c.
Proof.
  intros (A1 & A2 & A3) (B1 & B2 & B3). split; [congruence|]. split; [lia|]. eapply grow_trans; eauto.
Qed.

Lemma do_apply_spec cm s :
  replay_idx (nd s) <= applied (nd s) ->
  fvm (nd (fst (do_apply cm s))) = fvm (nd s) /\ outs (fst (do_apply cm s)) = outs s.
Proof.
  intros Hr. unfold do_apply.
  destruct (ck cm =? 3).
  - destruct (self_ver (nd s) <? ca cm); cbn; auto.
  - destruct (membership_of cm) as [[a x]|].
    + destruct (applied (nd s) <? replay_idx (nd s)) eqn:E; [lia|]. cbn. auto.
    + destruct (ck cm =? 0); [|cbn; auto]. destruct (cb cm =? 1); cbn; auto.
Qed.

Lemma fold_fire_nd (f : S -> N * cbref -> S) l s :
  (forall s tc, nd (f s tc) = nd s) -> nd (fold_left f l s) = nd s.
Proof. apply nd_fold. Qed.

Lemma apply_one_spec en s :
  replay_idx (nd s) <= applied (nd s) -> app_rel s (fst (apply_one en s)).
Proof.
  intros Hr. unfold apply_one.
  set (s0 := upd (fun n => n <| wait_commit := adel (eidx en) (wait_commit n) |>) s).
  destruct (do_apply_spec (ecmd en) s0) as [F O]; [exact Hr|].
  assert (A0 : app_rel s (fst (do_apply (ecmd en) s0))).
  { split; [|split].
    - pose proof (fvm_noop _ _ F) as F1. pose proof (fvm_change _ _ F) as F2. apply fvm_fv in F.
      fvinj_n F F. unfold fvA. unfold rv. cbn in *. congruence.
    - apply fvm_fv in F. fvinj_n F F. cbn in *. lia.
    - apply grow_eq. rewrite O. reflexivity. }
  destruct (do_apply (ecmd en) s0) as [s1 ar]. cbn [fst] in *.
  assert (Hfin : forall r, app_rel s
     (upd (fun n => n <| applied := applied n + 1 |>)
        (fold_left (fun s2 tc => if fst tc =? eterm en then fire (snd tc) r SUCCESS s2
                                 else fire (snd tc) 0 DISCARDED s2)
                   match aget (eidx en) (wait_commit (nd s)) with Some l => l | None => [] end s1))).
  { intros r. eapply app_rel_trans; [exact A0|].
    set (l := match aget (eidx en) (wait_commit (nd s)) with Some l => l | None => [] end).
    set (f := fun (s2 : S) (tc : N * cbref) => if fst tc =? eterm en then fire (snd tc) r SUCCESS s2
                                 else fire (snd tc) 0 DISCARDED s2).
    assert (Nf : nd (fold_left f l s1) = nd s1).
    { apply nd_fold. intros s2 tc. unfold f. destruct (_ =? _); apply nd_fire. }
    split; [|split].
    - rewrite nd_upd, Nf. reflexivity.
    - rewrite nd_upd, Nf. cbn. lia.
    - eapply grow_trans; [|apply grow_upd]. apply grow_fold. intros s2 tc. unfold f.
      destruct (_ =? _); apply grow_fire; auto. }
  destruct ar; cbn [fst]; auto.
Qed.

Lemma app_rel_rinv s s' : app_rel s s' -> replay_idx (nd s) <= applied (nd s) -> replay_idx (nd s') <= applied (nd s').
Proof.
  intros (A & B & _) H. destruct (fvA_eq _ _ A) as (_ & _ & _ & _ & _ & _ & E & _). lia.
Qed.

Lemma apply_list_spec es s :
  replay_idx (nd s) <= applied (nd s) -> app_rel s (apply_list es s).
Proof.
  revert s. induction es as [|en es IH]; intros s Hr; cbn [apply_list]; [apply app_rel_refl|].
  pose proof (apply_one_spec en s Hr) as A.
  destruct (apply_one en s) as [s1 go]. cbn [fst] in A.
  destruct go; auto. eapply app_rel_trans; [exact A|]. apply IH. eapply app_rel_rinv; eauto.
Qed.

Lemma apply_entries_spec e s :
  replay_idx (nd s) <= applied (nd s) -> app_rel s (fst (apply_entries e s)).
Proof.
  intros Hr. unfold apply_entries. destruct (applied (nd s) <? commit (nd s)); cbn [fst].
  - apply apply_list_spec; auto.
  - apply app_rel_refl.
Qed.

(* the apply loop never runs ahead of the commit index *)
Lemma applied_do_apply cm s : applied (nd (fst (do_apply cm s))) = applied (nd s).
Proof.
  unfold do_apply. destruct (ck cm =? 3).
  - destruct (self_ver (nd s) <? ca cm); reflexivity.
  - destruct (membership_of cm) as [[a x]|].
    + destruct (applied (nd s) <? replay_idx (nd s)); [|reflexivity].
      unfold do_change_cluster. destruct (xorb a false).
      * destruct (_ || _); [reflexivity|]. cbn. destruct (role (nd s) =? LEADER); reflexivity.
      * destruct (self_is x (nd s)); [reflexivity|]. destruct (negb _); reflexivity.
    + destruct (ck cm =? 0); [|reflexivity]. destruct (cb cm =? 1); reflexivity.
Qed.

Lemma apply_one_bound en s : applied (nd (fst (apply_one en s))) <= applied (nd s) + 1.
Proof.
  unfold apply_one.
  set (s0 := upd (fun n => n <| wait_commit := adel (eidx en) (wait_commit n) |>) s).
  pose proof (applied_do_apply (ecmd en) s0) as A.
  destruct (do_apply (ecmd en) s0) as [s1 ar]. cbn [fst] in A.
  assert (Hfin : forall r,
     applied (nd (upd (fun n => n <| applied := applied n + 1 |>)
        (fold_left (fun s2 tc => if fst tc =? eterm en then fire (snd tc) r SUCCESS s2
                                 else fire (snd tc) 0 DISCARDED s2)
                   match aget (eidx en) (wait_commit (nd s)) with Some l => l | None => [] end s1)))
     <= applied (nd s) + 1).
  { intros r. rewrite nd_upd.
    match goal with |- context [fold_left ?f ?l s1] =>
      assert (Nf : nd (fold_left f l s1) = nd s1)
        by (apply nd_fold; intros s2 tc; destruct (_ =? _); apply nd_fire); rewrite Nf end.
    cbn. rewrite A. unfold s0. cbn. lia. }
  destruct ar; cbn [fst]; auto. rewrite A. unfold s0. cbn. lia.
Qed.

Lemma apply_list_bound es s : applied (nd (apply_list es s)) <= applied (nd s) + N.of_nat (length es).
Proof.
  revert s. induction es as [|en es IH]; intros s; cbn [apply_list length]; [lia|].
  pose proof (apply_one_bound en s) as A.
  destruct (apply_one en s) as [s1 go]. cbn [fst] in A.
  destruct go; [specialize (IH s1)|]; lia.
Qed.

Lemma ge_count_length l f k : (length (get_entries l (Some f) (Some k) None) <= N.to_nat k)%nat.
Proof. unfold get_entries. destruct (_ <? _); [cbn; lia|]. apply firstn_le_length. Qed.

Lemma apply_entries_bound e s :
  applied (nd s) <= commit (nd s) -> applied (nd (fst (apply_entries e s))) <= commit (nd s).
Proof.
  intros H. unfold apply_entries. destruct (applied (nd s) <? commit (nd s)) eqn:E; cbn [fst]; auto.
  apply N.ltb_lt in E.
  pose proof (apply_list_bound (get_entries (log (nd s)) (Some (applied (nd s) + 1))
                                  (Some (commit (nd s) - applied (nd s))) None) s) as B.
  pose proof (ge_count_length (log (nd s)) (applied (nd s) + 1) (commit (nd s) - applied (nd s))) as L.
  lia.
Qed.

Section Tick.
Variable c : conf.
Variable V : list nid.
Hypothesis NDV : NoDup V.
Hypothesis SV : ssorted V.
Hypothesis VNE : V <> [].
Hypothesis VRO : forall v, In v V -> v < RO_BASE.
Hypothesis Hb1 : 1 < batch c.
Hypothesis Hdyn : dyn c = true.
Hypothesis Hfd : file_dump c = false.
Variable e : env.
Hypothesis Hc : cf e = c.
Set Default Proof Using "All".

Notation V' := (absV V).
Notation Rn := (Rn c).
Notation Rmsg := (Rmsg c).
Notation Ro := (Ro c).
Notation Hn := (Hn c V).
Notation ksn := (ksn V).
Notation LS := (LS c V).
Notation simf := (simf c V).
Notation simc := (simc c V).
Notation pk := (pk c).
Notation LS_wf := (LS_wf c V NDV SV VNE VRO Hb1).
Notation LS_up := (LS_up c V NDV SV VNE VRO Hb1).
Notation LS_ms := (LS_ms c V NDV SV VNE VRO Hb1).
Notation LS_not_self := (LS_not_self c V NDV SV VNE VRO Hb1).
Notation LS_stutter := (LS_stutter c V NDV SV VNE VRO Hb1).
Notation LS_ksn := (LS_ksn c V NDV SV VNE VRO Hb1).
Notation simf_andthen := (simf_andthen c V NDV SV VNE VRO Hb1).
Notation simc_andthen := (simc_andthen c V NDV SV VNE VRO Hb1).
Notation Rn_rv := (Rn_rv c V NDV SV VNE VRO Hb1).
Notation Hn_sorted := (Hn_sorted c V NDV SV VNE VRO Hb1).
Notation LS_quiet := (LS_quiet c V NDV SV VNE VRO Hb1 Hdyn Hfd e Hc).
Notation grow_Ro := (grow_Ro c V NDV SV VNE VRO Hb1 Hdyn Hfd e Hc).
Notation sim_send_ae := (sim_send_ae c V NDV SV VNE VRO Hb1 Hdyn Hfd e Hc).
Notation okout := (okout c).
Notation nosend_okout := (nosend_okout c V NDV SV VNE VRO Hb1 Hdyn Hfd e Hc).

(* a step that keeps the abstract view, re-establishing hygiene by hand *)
Lemma LS_keep n s (S S' : Node.S) :
  LS n s S -> rv (nd S') = rv (nd S) -> Hn n (nd S') -> self (nd S') = self (nd S) ->
  grow (okout n s) S S' -> LS n s S'.
Proof.
  intros L Hrv HH Hs G.
  apply (LS_ksn n s s S S').
  - constructor.
  - exact L.
  - eapply Rn_rv; [exact Hrv|apply (LS_n _ _ _ _ _ L)].
  - exact HH.
  - rewrite Hs. apply (LS_self _ _ _ _ _ L).
  - apply (grow_Ro (okout n s)); auto.
Qed.

Lemma LS_app n s (S S' : Node.S) :
  LS n s S -> app_rel S S' -> applied (nd S') <= commit (nd S) -> LS n s S'.
Proof.
  intros L (A & B & G) Hac.
  destruct (fvA_eq _ _ A) as (E1 & E2 & E3 & E4 & E5 & E6 & E7 & E8 & E9 & E10 & E11).
  destruct (rv_eq _ _ E3) as (_ & _ & _ & _ & _ & Ec & _).
  apply (LS_keep n s S S'); auto.
  - destruct (LS_h _ _ _ _ _ L) as [B1 B2 B3 B4 B5 B6 B7 B8 B9 B10]. constructor; try congruence; try lia.
    eapply pend_weaken; [| | | |exact E11|exact B10]; try congruence; try lia.
  - eapply grow_mono; [|exact G]. intros o. apply nosend_okout.
Qed.

(* ---- tick_send ---- *)
Lemma sim_tick_send n need : simf n (tick_send e need).
Proof.
  intros S s L. unfold tick_send.
  destruct (role (nd S) =? LEADER) eqn:Er; [|exists s; split; [constructor|exact L]].
  apply N.eqb_eq in Er.
  destruct (_ || need); [|exists s; split; [constructor|exact L]].
  apply (sim_send_ae n S s L Er).
Qed.

(* ---- the leader-side gate of __changeCluster is AbstractM's gate ---- *)
Lemma In_skipn_nth {A} k (l : list A) x : In x (skipn k l) -> exists p, (k <= p)%nat /\ nth_error l p = Some x.
Proof.
  intros H. apply In_nth_error in H as [q Hq]. rewrite ML.nth_error_skipn in Hq. exists (k + q)%nat. split; [lia|auto].
Qed.

Lemma gate_abs n s S :
  LS n s S -> role (nd S) = LEADER -> gate_open (nd S) -> M.gate F3 (M.nodes s (n2 n)) = true.
Proof.
  intros L Hr [(i & Hi & Hia) Hch].
  pose proof (LS_n _ _ _ _ _ L) as RN. pose proof (LS_h _ _ _ _ _ L) as HH. pose proof (LS_wf _ _ _ L) as W.
  pose proof (Rn_noop _ _ _ _ RN Hr) as Hno. rewrite Hi in Hno. injection Hno as Hno.
  pose proof (H_ac _ _ _ _ HH) as Hac.
  unfold M.gate. cbn [M.gateA F3]. apply andb_true_iff. split.
  - apply Nat.ltb_lt. rewrite (Rn_commit _ _ _ _ RN). lia.
  - unfold M.no_cfg_from. apply forallb_forall. intros e0 Hin.
    rewrite (Rn_log _ _ _ _ RN), (Rn_commit _ _ _ _ RN), <- absL_skipn in Hin.
    apply in_map_iff in Hin as (e1 & <- & Hin). cbn [absE M.ecmd]. rewrite enc_cfg.
    apply In_skipn_nth in Hin as (p & Hp & Hnth).
    pose proof (proj2 W p e1 Hnth) as Hidx.
    destruct (membership_of (ecmd e1)) as [q|] eqn:Em; [|reflexivity]. exfalso.
    destruct (H_pend _ _ _ _ HH Hr) as (i' & Hi' & Hpe). rewrite Hi in Hi'. injection Hi' as <-.
    assert (Hm : is_mem e1 = true) by (unfold is_mem; rewrite Em; reflexivity).
    assert (Hc1 : change_idx (nd S) = Some (eidx e1)).
    { apply Hpe; auto; [eapply nth_error_In; eauto|lia|lia]. }
    destruct Hch as [Hch|(j & Hj & Hle)]; [congruence|]. rewrite Hc1 in Hj. injection Hj as <-. lia.
Qed.

Lemma eff_abs n s S cm a x :
  LS n s S -> membership_of cm = Some (a, x) -> effective (Some n) (others (nd S)) (a, x) = true ->
  M.effective (n2 n) (M.nodes s (n2 n)) (enc pk cm) = true.
Proof.
  intros L Hm He. pose proof (LS_ms _ _ _ L) as Hms.
  unfold effective, is_me in He. cbn [fst snd] in He. apply andb_true_iff in He as [He1 He2].
  apply negb_true_iff in He1. apply N.eqb_neq in He1.
  unfold enc. rewrite Hm.
  set (o := M.others (n2 n) (M.nodes s (n2 n))) in *.
  assert (Hcfg : M.cfg (n2 n) (M.nodes s (n2 n)) = n2 n :: o) by reflexivity.
  assert (Hmem : M.mem (n2 x) (n2 n :: o) = (n2 x =? n2 n)%nat || M.mem (n2 x) o) by reflexivity.
  assert (Hne : (n2 x =? n2 n)%nat = false) by (apply Nat.eqb_neq; lia).
  destruct a; cbn [M.effective]; rewrite Hcfg, Hmem, Hne, (ms_mem _ _ x Hms); cbn [orb negb andb]; exact He2.
Qed.

(* ---- appending a client command: K_client ---- *)
Lemma sim_client n s S S1 cm :
  LS n s S -> role (nd S) = LEADER ->
  M.client_ok F3 (n2 n) (M.nodes s (n2 n)) (enc pk cm) = true ->
  role (nd S1) = LEADER -> term (nd S1) = term (nd S) -> voted (nd S1) = voted (nd S) ->
  commit (nd S1) = commit (nd S) -> noop_idx (nd S1) = noop_idx (nd S) ->
  log (nd S1) = log (nd S) ++ [mkEntry cm (last_idx (log (nd S)) + 1) (term (nd S))] ->
  (forall f m, In f (others (nd S1)) -> f <> n -> aget f (match_idx (nd S1)) = Some m ->
       (n2 m <= M.match_after (M.nodes s (n2 n)) (enc pk cm) (n2 f))%nat) ->
  Hn n (nd S1) -> self (nd S1) = Some n -> grow nosend S S1 ->
  exists s', ksn (n2 n) s s' /\ LS n s' S1.
Proof.
  intros L Er Hok Hr1 Ht1 Hv1 Hc1 Hn1 Hl1 Hm1 HH1 Hs1 G.
  pose proof (LS_n _ _ _ _ _ L) as RN. pose proof (LS_wf _ _ _ L) as W.
  pose proof (LS_up _ _ _ L) as Hj.
  destruct RN as [A0 A1 A2 A3 A4 A5 A6 A7 A8 A9].
  assert (Hl : M.rl (M.nodes s (n2 n)) = M.Leader) by (rewrite A3, Er; reflexivity).
  destruct (t_client_ok V' (n2 n) (enc pk cm) s Hj Hl Hok) as [K E].
  set (s' := M.do_client (n2 n) (enc pk cm) s) in *.
  assert (K1 : ksn (n2 n) s s') by (apply ksn_one; auto).
  exists s'. split; [exact K1|].
  apply (LS_ksn n s s' S S1); auto.
  - constructor; unfold s', M.do_client; cbn [M.nodes M.grants]; rewrite ?upd_eq;
      cbn [M.term M.voted M.rl M.log M.commit M.votesFrom M.matchIdx M.lf M.noopi].
    + exact A0.
    + congruence.
    + congruence.
    + rewrite Hr1, A3, Er. reflexivity.
    + rewrite Hl1, absL_app, A4. f_equal. unfold absL, absE. cbn. rewrite A1, map_length, (wf1_last_idx _ W).
      f_equal. f_equal. lia.
    + congruence.
    + intros Hx. rewrite Hr1 in Hx. discriminate.
    + exact Hm1.
    + intros Hv. rewrite Ht1. apply A8. congruence.
    + intros _. rewrite Hn1. apply A9. exact Er.
  - apply (grow_Ro nosend); [intros o; apply nosend_okout|exact G].
Qed.

Lemma dcc_facts a x r (s0 : Node.S) : snd (do_change_cluster a x r s0) = true ->
  match_idx (nd (fst (do_change_cluster a x r s0))) =
    (if xorb a r then aset x 0 (match_idx (nd s0)) else adel x (match_idx (nd s0))) /\
  grow nosend s0 (fst (do_change_cluster a x r s0)).
Proof.
  unfold do_change_cluster. destruct (xorb a r).
  - destruct (_ || _); [discriminate|]. intros _. cbn [fst]. split.
    + cbn. destruct (role (nd s0) =? LEADER); reflexivity.
    + exists [TAdd x]. split; [reflexivity|]. constructor; [exact I|constructor].
  - destruct (self_is x (nd s0)); [discriminate|]. destruct (negb _); [discriminate|]. intros _. cbn [fst]. split.
    + reflexivity.
    + exists [TDrop x]. split; [reflexivity|]. constructor; [exact I|constructor].
Qed.

Lemma pend_snoc_reg x y en :
  pend x -> role y = role x -> noop_idx y = noop_idx x -> applied y = applied x -> change_idx y = change_idx x ->
  log y = log x ++ [en] -> is_mem en = false -> pend y.
Proof.
  intros P E1 E2 E3 E4 E5 Hm Hr. rewrite E1 in Hr. destruct (P Hr) as (i & Hi & H).
  exists i. rewrite E2, E3, E4, E5. split; [exact Hi|].
  intros en' Hin Hm' Hlt Hap. apply in_app_or in Hin as [Hin|[<-|[]]]; [apply H; auto|congruence].
Qed.

Lemma pend_snoc_chg x y en :
  pend x -> gate_open x -> role y = role x -> noop_idx y = noop_idx x -> applied y = applied x ->
  change_idx y = Some (eidx en) -> log y = log x ++ [en] -> pend y.
Proof.
  intros P [_ Hch] E1 E2 E3 E4 E5 Hr. rewrite E1 in Hr. destruct (P Hr) as (i & Hi & H).
  exists i. rewrite E2, E3, E4, E5. split; [exact Hi|].
  intros en' Hin Hm' Hlt Hap. apply in_app_or in Hin as [Hin|[<-|[]]]; [|reflexivity].
  exfalso. specialize (H en' Hin Hm' Hlt Hap).
  destruct Hch as [Hn0|(j & Hj & Hle)]; [congruence|]. rewrite Hj in H. injection H as ->. lia.
Qed.

(* the state a change request is answered from *)
Lemma LS_gate_state n s S s0 : LS n s S -> gate_state S s0 -> LS n s s0.
Proof.
  intros L ([E|[E (j & Hj & Hle)]] & O & _).
  - eapply (LS_keep n s S s0); eauto; rewrite ?E; auto.
    + apply (LS_h _ _ _ _ _ L).
    + apply grow_eq. exact O.
  - eapply (LS_keep n s S s0); eauto; rewrite ?E; auto.
    + destruct (LS_h _ _ _ _ _ L) as [B1 B2 B3 B4 B5 B6 B7 B8 B9 B10]. constructor; auto.
      eapply pend_clear; eauto.
    + apply grow_eq. exact O.
Qed.

Lemma LS_denied n s S cbk : LS n s S -> LS n s (denied_out cbk S).
Proof.
  intros L. destruct cbk as [|id|rn rid]; cbn [denied_out]; [exact L| |].
  - apply (LS_quiet n s S); [exact L|reflexivity|apply grow_emit; exact I].
  - apply (LS_stutter n s S); [exact L|rewrite nd_send; reflexivity|].
    apply (grow_Ro (okout n s)); [auto|]. apply grow_send. exact I.
Qed.

(* after the entry is in the log: the callback registration and the immediate send *)
Lemma sim_check_tail n s' S2 idx tm cbk :
  LS n s' S2 -> role (nd S2) = LEADER ->
  exists s'', ksn (n2 n) s' s'' /\
    LS n s'' (let s := match cbk with
                        | CbRemote rn rid => send rn (ApplyResp rid true idx tm) S2
                        | CbLocal _ =>
                            upd (fun n0 => n0 <| wait_commit :=
                               aset idx ((match aget idx (wait_commit n0) with Some l => l | None => [] end)
                                    ++ [(tm, cbk)]) (wait_commit n0) |>) S2
                        | CbNone => S2
                        end in
              if use_batch (cf e) then s else send_ae e s).
Proof.
  intros L1 Hr1. cbv zeta.
  match goal with |- context [if _ then ?X else _] => set (S3 := X) end.
  assert (L2 : LS n s' S3 /\ role (nd S3) = LEADER).
  { subst S3. split.
    - destruct cbk as [|id|rn rid].
      + exact L1.
      + apply (LS_quiet n s' S2); [exact L1|reflexivity|apply grow_upd].
      + apply (LS_stutter n s' S2); [exact L1|rewrite nd_send; reflexivity|].
        apply (grow_Ro (okout n s')); [auto|]. apply grow_send. exact I.
    - destruct cbk; rewrite ?nd_send; auto. }
  destruct L2 as [L2 Hr2]. clearbody S3.
  destruct (use_batch (cf e)).
  - exists s'. split; [constructor|exact L2].
  - apply (sim_send_ae n S3 s' L2 Hr2).
Qed.

(* ---- a membership change accepted by the gate ---- *)
Lemma sim_change n s s0 cm a x :
  LS n s s0 -> role (nd s0) = LEADER -> small_cmd c cm -> membership_of cm = Some (a, x) ->
  gate_open (nd s0) -> change_idx (nd s0) = None ->
  snd (do_change_cluster a x false s0) = true ->
  let en := mkEntry cm (last_idx (log (nd s0)) + 1) (term (nd s0)) in
  let S2 := upd (fun n0 => n0 <| change_idx := Some (eidx en) |>)
                (upd (log_add en) (fst (do_change_cluster a x false s0))) in
  exists s', ksn (n2 n) s s' /\ LS n s' S2 /\ role (nd S2) = LEADER.
Proof.
  intros L0 Er Hsm Em Hg0 Hc0 Hacc. cbv zeta.
  set (en := mkEntry cm (last_idx (log (nd s0)) + 1) (term (nd s0))).
  pose proof (do_change_cluster_ok a x false s0) as Hok. rewrite Hacc, xorb_false_r, (LS_self _ _ _ _ _ L0) in Hok.
  pose proof (do_change_cluster_others a x false s0) as [Hot Hse]. rewrite xorb_false_r, (LS_self _ _ _ _ _ L0) in Hot.
  destruct (dcc_facts a x false s0 Hacc) as [Hmi Hgr]. rewrite xorb_false_r in Hmi.
  assert (Fr : forall {T} (π : node -> T),
             (forall n0 v, π (n0 <| others := v |>) = π n0) -> (forall n0 v, π (n0 <| tconn := v |>) = π n0) ->
             (forall n0 v, π (n0 <| next_idx := v |>) = π n0) -> (forall n0 v, π (n0 <| match_idx := v |>) = π n0) ->
             (forall n0 v, π (n0 <| last_resp := v |>) = π n0) ->
             π (nd (fst (do_change_cluster a x false s0))) = π (nd s0)).
  { intros T π H1 H2 H3 H4 H5. apply (fr_do_change_cluster π); auto. }
  set (s1 := fst (do_change_cluster a x false s0)) in *. clearbody s1.
  set (S2 := upd _ (upd (log_add en) s1)).
  assert (N2 : nd S2 = (nd s1) <| log := log (nd s1) ++ [en] |> <| change_idx := Some (eidx en) |>) by reflexivity.
  pose proof (LS_h _ _ _ _ _ L0) as HH. pose proof (LS_n _ _ _ _ _ L0) as RN.
  pose proof (Hn_sorted _ _ HH) as Hso.
  assert (Hok' : M.client_ok F3 (n2 n) (M.nodes s (n2 n)) (enc pk cm) = true).
  { unfold M.client_ok. rewrite enc_cfg, Em. apply andb_true_iff. split.
    - apply (gate_abs n s s0 L0 Er Hg0).
    - apply (eff_abs n s s0 cm a x L0 Em). symmetry. exact Hok. }
  assert (Heff : is_me (Some n) x = false /\ smem x (others (nd s0)) = negb a).
  { symmetry in Hok. unfold effective in Hok. cbn [fst snd] in Hok. apply andb_true_iff in Hok as [H1 H2].
    apply negb_true_iff in H1. split; [exact H1|]. destruct a; [apply negb_true_iff in H2|]; rewrite H2; reflexivity. }
  destruct Heff as [Hme Hsx].
  assert (Hoth2 : others (nd s1) = if a then sadd x (others (nd s0)) else sdel x (others (nd s0))).
  { rewrite Hot. unfold step_member. cbn [fst snd]. rewrite Hme, Hsx. destruct a; reflexivity. }
  destruct (sim_client n s s0 S2 cm L0 Er Hok') as (s' & K & L2).
  - rewrite N2. cbn. rewrite (Fr _ role) by frs. exact Er.
  - rewrite N2. cbn. apply (Fr _ term); frs.
  - rewrite N2. cbn. apply (Fr _ voted); frs.
  - rewrite N2. cbn. apply (Fr _ commit); frs.
  - rewrite N2. cbn. apply (Fr _ noop_idx); frs.
  - rewrite N2. cbn. rewrite (Fr _ log) by frs. reflexivity.
  - intros f m Hf Hne Hg. rewrite N2 in Hf, Hg. cbn in Hf, Hg. rewrite Hoth2 in Hf. rewrite Hmi in Hg.
    unfold enc. rewrite Em. destruct a; cbn [M.match_after].
    + apply In_sadd' in Hf. rewrite aget_aset in Hg. unfold M.upd.
      destruct (N.eqb_spec f x) as [->|Hfx].
      * injection Hg as <-. lia.
      * destruct Hf as [Hf|Hf]; [contradiction|].
        destruct (Nat.eqb_spec (n2 f) (n2 x)) as [E|_]; [lia|]. apply (Rn_match _ _ _ _ RN f m Hf Hne Hg).
    + apply In_sdel in Hf; [|exact Hso]. destruct Hf as [Hf Hfx].
      rewrite aget_adel_ne in Hg by exact Hfx. apply (Rn_match _ _ _ _ RN f m Hf Hne Hg).
  - destruct HH as [B1 B2 B3 B4 B5 B6 B7 B8 B9 B10].
    assert (Hoth3 : others (nd S2) = fold_members (vminus n V) (log (nd S2)) (Some n)).
    { change (others (nd S2)) with (others (nd s1)). change (log (nd S2)) with (log (nd s1) ++ [en]).
      rewrite (Fr _ log) by frs.
      rewrite Hot, B9, fold_members_snoc. cbn [ecmd en]. rewrite Em. reflexivity. }
    rewrite N2 in Hoth3 |- *.
    constructor; [| | | | | | | |exact Hoth3|]; cbn; rewrite ?(Fr _ sr), ?(Fr _ log), ?(Fr _ queue), ?(Fr _ replay_idx), ?(Fr _ applied),
      ?(Fr _ readonly), ?(Fr _ commit) by frs; auto.
    + apply Forall_app. split; [exact B4|]. constructor; [exact Hsm|constructor].
    + eapply (pend_snoc_chg (nd s0) _ en); [exact B10|exact Hg0| | | | |]; cbn;
        rewrite ?(Fr _ role), ?(Fr _ noop_idx), ?(Fr _ applied), ?(Fr _ log) by frs; reflexivity.
  - rewrite N2. cbn. rewrite Hse. apply (LS_self _ _ _ _ _ L0).
  - eapply grow_trans; [exact Hgr|]. eapply grow_trans; apply grow_upd.
  - exists s'. split; [exact K|]. split; [exact L2|]. rewrite N2. cbn. rewrite (Fr _ role) by frs. exact Er.
Qed.

(* ---- one queued command ---- *)
Lemma sim_check_one n cm cbk S s :
  LS n s S -> small_cmd c cm -> exists s', ksn (n2 n) s s' /\ LS n s' (check_one e cm cbk S).
Proof.
  intros L Hsm. unfold check_one.
  destruct (role (nd S) =? LEADER) eqn:Er.
  - (* leader *)
    apply N.eqb_eq in Er. replace (dyn (cf e)) with true by (rewrite Hc, Hdyn; reflexivity).
    destruct (membership_of cm) as [[a x]|] eqn:Em.
    + (* a membership change: the gate *)
      destruct (change_cluster_spec a x S) as [(Hg & s0 & Hgs & Hc0 & Ecc)|(Hg & s0 & Hgs & Ecc)]; cbv zeta in *.
      2:{ rewrite Ecc. exists s. split; [constructor|].
          pose proof (LS_denied n s s0 cbk (LS_gate_state n s S s0 L Hgs)) as LD.
          destruct cbk; exact LD. }
      rewrite Ecc.
      pose proof (LS_gate_state n s S s0 L Hgs) as L0.
      assert (Hsame : noop_idx (nd s0) = noop_idx (nd S) /\ applied (nd s0) = applied (nd S) /\
                      log (nd s0) = log (nd S) /\ term (nd s0) = term (nd S) /\ role (nd s0) = role (nd S)).
      { destruct Hgs as [[->|[-> _]] _]; cbn; auto. }
      destruct Hsame as (Q1 & Q2 & Q3 & Q4 & Q5).
      assert (Hg0 : gate_open (nd s0)).
      { destruct Hg as [(i & Hi & Hia) _]. split; [exists i; rewrite Q1, Q2; auto|left; exact Hc0]. }
      assert (Er0 : role (nd s0) = LEADER) by congruence.
      pose proof (do_change_cluster_refused a x false s0) as Href.
      pose proof (sim_change n s s0 cm a x L0 Er0 Hsm Em Hg0 Hc0) as Hch. cbv zeta in Hch.
      rewrite Q3, Q4 in Hch.
      destruct (do_change_cluster a x false s0) as [s1 acc]. cbn [fst snd] in *.
      destruct acc.
      * destruct (Hch eq_refl) as (s' & K & L2 & Hr2).
        destruct (sim_check_tail n s' _ (last_idx (log (nd S)) + 1) (term (nd S)) cbk L2 Hr2) as (s'' & K2 & L3).
        exists s''. split; [eapply ksn_trans; eauto|]. exact L3.
      * rewrite (Href eq_refl). exists s. split; [constructor|].
        pose proof (LS_denied n s s0 cbk L0) as LD. destruct cbk; exact LD.
    + (* a regular command *)
      set (en := mkEntry cm (last_idx (log (nd S)) + 1) (term (nd S))).
      set (S2 := upd (log_add en) S).
      assert (Hok' : M.client_ok F3 (n2 n) (M.nodes s (n2 n)) (enc pk cm) = true).
      { unfold M.client_ok. rewrite enc_cfg, Em. reflexivity. }
      pose proof (LS_h _ _ _ _ _ L) as HH. pose proof (LS_n _ _ _ _ _ L) as RN.
      destruct (sim_client n s S S2 cm L Er Hok') as (s' & K & L2); try reflexivity.
      * exact Er.
      * intros f m Hf Hne Hg. unfold enc. rewrite Em. cbn [M.match_after].
        apply (Rn_match _ _ _ _ RN f m Hf Hne Hg).
      * destruct HH as [B1 B2 B3 B4 B5 B6 B7 B8 B9 B10].
        assert (Hoth3 : others (nd S2) = fold_members (vminus n V) (log (nd S2)) (Some n)).
        { change (others (nd S2)) with (others (nd S)). change (log (nd S2)) with (log (nd S) ++ [en]).
          rewrite B9 at 1. rewrite fold_members_snoc. cbn [ecmd en]. rewrite Em. reflexivity. }
        constructor; [| | | | | | | |exact Hoth3|]; auto.
        -- change (log (nd S2)) with (log (nd S) ++ [en]). apply Forall_app. split; [exact B4|].
           constructor; [exact Hsm|constructor].
        -- eapply (pend_snoc_reg (nd S) (nd S2) en); try reflexivity; auto. unfold is_mem. cbn. rewrite Em. reflexivity.
      * apply (LS_self _ _ _ _ _ L).
      * apply grow_upd.
      * destruct (sim_check_tail n s' S2 (last_idx (log (nd S)) + 1) (term (nd S)) cbk L2 Er) as (s'' & K2 & L3).
        exists s''. split; [eapply ksn_trans; eauto|]. exact L3.
  - (* not the leader: forward or fail *)
    exists s. split; [constructor|].
    destruct (leader (nd S)) as [l|].
    + destruct cbk as [|id|rn rid].
      * apply (LS_stutter n s S); [exact L|rewrite nd_send; reflexivity|].
        apply (grow_Ro (okout n s)); [auto|]. apply grow_send. exact Hsm.
      * apply (LS_stutter n s S); [exact L|rewrite nd_send; reflexivity|].
        apply (grow_Ro (okout n s)); [auto|]. eapply grow_trans; [apply grow_upd|]. apply grow_send. exact Hsm.
      * apply (LS_stutter n s S); [exact L|rewrite nd_send; reflexivity|].
        apply (grow_Ro (okout n s)); [auto|]. apply grow_send. exact I.
    + apply (LS_stutter n s S); [exact L|rewrite nd_call_err; reflexivity|].
      apply (grow_Ro (okout n s)); [auto|].
      destruct cbk as [|id|rn rid]; cbn [call_err].
      * apply grow_refl.
      * apply grow_emit. exact I.
      * apply grow_send. exact I.
Qed.

Lemma sim_check_loop n fuel start : simf n (check_loop fuel e start).
Proof.
  induction fuel as [|f IH]; intros S s L; cbn [check_loop]; [exists s; split; [constructor|exact L]|].
  destruct (_ <? _)%Z; [|exists s; split; [constructor|exact L]].
  assert (Hgo : exists s', ksn (n2 n) s s' /\
            LS n s' (match queue (nd S) with
                     | [] => S
                     | (cm, cbk) :: rest =>
                         let s0 := upd (fun n0 => n0 <| queue := rest |>) S in
                         let s0 := check_one e cm cbk s0 in
                         if ok s0 then check_loop f e start s0 else s0
                     end)).
  { destruct (queue (nd S)) as [|[cm cbk] rest] eqn:Eq; [exists s; split; [constructor|exact L]|].
    cbv zeta.
    pose proof (LS_h _ _ _ _ _ L) as HH.
    assert (Hq : Forall (fun q => small_cmd c (fst q)) ((cm, cbk) :: rest)) by (rewrite <- Eq; apply (H_queue _ _ _ _ HH)).
    pose proof (Forall_inv Hq) as Hcm. pose proof (Forall_inv_tail Hq) as Hrest. cbn [fst] in Hcm.
    set (s0 := upd (fun n0 => n0 <| queue := rest |>) S).
    assert (L0 : LS n s s0).
    { apply (LS_keep n s S s0); auto; try reflexivity.
      - destruct HH as [B1 B2 B3 B4 B5 B6 B7 B8 B9 B10]. constructor; unfold s0; rewrite ?nd_upd; cbn; auto.
      - apply grow_upd. }
    destruct (sim_check_one n cm cbk s0 s L0 Hcm) as (s1 & K1 & L1).
    destruct (ok (check_one e cm cbk s0)); [|exists s1; auto].
    destruct (IH _ _ L1) as (s2 & K2 & L2). exists s2. split; auto. eapply ksn_trans; eauto. }
  destruct (leader (nd S)); [exact Hgo|].
  destruct (wait_leader (cf e)); [exists s; split; [constructor|exact L]|exact Hgo].
Qed.

Lemma sim_check_commands n : simf n (check_commands e).
Proof. intros S s L. unfold check_commands. apply sim_check_loop. exact L. Qed.

(* ---- log compaction never starts (hypothesis on the run: the serializer stays idle) ---- *)
Lemma sim_try_compact n : simc n (try_compact e).
Proof.
  intros S s L. exists s. split; [constructor|]. revert H. unfold try_compact. cbv zeta.
  rewrite (H_pid _ _ _ _ (LS_h _ _ _ _ _ L)). cbn [N.eqb negb].
  destruct (_ && _); [intros _; exact L|].
  destruct (get_entries _ _ _ _) as [|e0 [|e1 r]].
  - intros _. apply (LS_quiet n s S); [exact L|reflexivity|].
    eapply grow_trans; apply grow_upd.
  - intros _. apply (LS_quiet n s S); [exact L|reflexivity|].
    eapply grow_trans; apply grow_upd.
  - destruct (opt_eqb _ _).
    + intros _. apply (LS_quiet n s S); [exact L|reflexivity|].
      eapply grow_trans; apply grow_upd.
    + intros P. cbn in P. discriminate.
Qed.

(* ---- the whole tick ---- *)
Notation tick_tail := (fun s => let (s, need) := apply_entries e s in
                   if ok s then (tick_send e need ;; tick_ready ;; check_commands e ;; try_compact e) s else s).

Lemma sim_tick_tail n : simc n tick_tail.
Proof.
  intros S s L.
  pose proof (apply_entries_spec e S (H_rinv _ _ _ _ (LS_h _ _ _ _ _ L))) as A.
  pose proof (apply_entries_bound e S (H_ac _ _ _ _ (LS_h _ _ _ _ _ L))) as Bd.
  destruct (apply_entries e S) as [S1 need]. cbn [fst] in A, Bd.
  assert (L1 : LS n s S1) by (eapply LS_app; eauto).
  destruct (ok S1); [|intros _; exists s; split; [constructor|exact L1]].
  assert (T : simc n (tick_send e need ;; tick_ready ;; check_commands e ;; try_compact e)).
  { apply simc_andthen; [apply sim_tick_send|].
    apply simc_andthen; [eapply sim_tick_ready; eauto|].
    apply simc_andthen; [apply sim_check_commands|].
    apply sim_try_compact. }
  exact (T S1 s L1).
Qed.

(* from the election phase on; the election timeout needs the node to be a member by its own log
   or a pure joiner *)
Lemma sim_from_election n S2 s :
  LS n s S2 -> pid (sr (nd ((tick_election e ;; tick_leader e ;; tick_tail) S2))) = 0 ->
  (term (nd ((tick_election e ;; tick_leader e ;; tick_tail) S2)) <> term (nd S2) ->
   memb c V n (nd S2) = true \/ purej1 V n (nd S2) = true) ->
  exists s', ksn (n2 n) s s' /\ LS n s' ((tick_election e ;; tick_leader e ;; tick_tail) S2).
Proof.
  intros L. rewrite andthen_eq. intros P Htg.
  assert (Ht : term (nd (if ok (tick_election e S2) then (tick_leader e ;; tick_tail) (tick_election e S2)
                         else tick_election e S2)) = term (nd (tick_election e S2))).
  { destruct (ok (tick_election e S2)); [|reflexivity].
    apply (andthen_rel (fun a b => term b = term a)); [congruence|apply (fr_tick_leader term); frs|intros].
    apply (fr_on_tick_tail term); frs. }
  rewrite Ht in Htg.
  destruct (sim_tick_election c V NDV SV VNE VRO Hb1 Hdyn Hfd e Hc n S2 s L Htg) as (s1 & K1 & L1).
  destruct (ok (tick_election e S2)); [|exists s1; auto].
  assert (T : simc n (tick_leader e ;; tick_tail)).
  { apply simc_andthen; [eapply sim_tick_leader; eauto|apply sim_tick_tail]. }
  destruct (T _ _ L1 P) as (s2 & K2 & L2). exists s2. split; auto. eapply ksn_trans; eauto.
Qed.

Lemma sim_on_tick n x s :
  LS n s (start_S e x) -> pid (sr (nd (on_tick e x))) = 0 ->
  (term (nd (on_tick e x)) <> term x -> memb c V n x = true \/ purej1 V n x = true) ->
  exists s', ksn (n2 n) s s' /\ LS n s' (on_tick e x).
Proof.
  intros L. unfold on_tick. set (S0 := start_S e x) in *.
  rewrite andthen_eq.
  destruct (sim_tick_load c V NDV SV VNE VRO Hb1 Hdyn Hfd e Hc n S0 s L) as (s1 & K1 & L1).
  assert (E1 : term (nd (tick_load e S0)) = term x /\ log (nd (tick_load e S0)) = log x).
  { unfold tick_load. rewrite Hc, Hfd, andb_false_r. split; reflexivity. }
  destruct (ok (tick_load e S0)); [|intros _ _; exists s1; auto].
  set (S1 := tick_load e S0) in *. clearbody S1.
  rewrite andthen_eq.
  destruct (sim_tick_timer c V NDV SV VNE VRO Hb1 Hdyn Hfd e Hc n S1 s1 L1) as (s2 & K2 & L2).
  assert (E2 : term (nd (tick_timer e S1)) = term x /\ log (nd (tick_timer e S1)) = log x).
  { destruct E1 as [<- <-]. split; [apply (fr_tick_timer term)|apply (fr_tick_timer log)]; frs. }
  destruct (ok (tick_timer e S1)); [|intros _ _; exists s2; split; auto; eapply ksn_trans; eauto].
  set (S2 := tick_timer e S1) in *. clearbody S2.
  intros P Htg. destruct E2 as [E2t E2l].
  destruct (sim_from_election n S2 s2 L2 P) as (s3 & K3 & L3).
  - intros Hne. unfold RefineMTickA.memb, purej1. rewrite E2l. apply Htg. rewrite <- E2t. exact Hne.
  - exists s3. split; auto. eapply ksn_trans; [exact K1|]. eapply ksn_trans; eauto.
Qed.

End Tick.
