(* Concrete instances for the hypotheses of the C10 theorems (states cut out of the 3-node trace of
   ProofsCommitExamples, and a one-node cluster whose handler chain is spelled out for nreach). *)
From Coq Require Import ZArith NArith List Bool Lia.
From RecordUpdate Require Import RecordSet.
From PSO Require Import Raft.Types Raft.Node Raft.Net Raft.Obs Raft.ProofsCommitBase Raft.ProofsCommit
  Raft.ProofsMembership Raft.ProofsCommitLog Raft.ProofsMembershipInv Raft.ProofsCommitExamples.
Import ListNotations.
Import RecordSetNotations.
Open Scope N_scope.

(* ---- C10_gate ---- *)

(* accepted: the leader of tr1 just before the tick that takes `add 4` out of the queue has applied
   its no-op (index 2) and has no pending change *)
Definition g0 := g_after (firstn 18 tr1).
Definition s_gate_open : S := start_S (tick_env 221) (node_of 1 g0).

Example gate_accept_example :
  dyn (cf (tick_env 221)) = true /\ role (nd s_gate_open) = LEADER /\
  membership_of add4 = Some (true, 4) /\
  noop_idx (nd s_gate_open) = Some 2 /\ applied (nd s_gate_open) = 2 /\ change_idx (nd s_gate_open) = None /\
  let s' := check_one (tick_env 221) add4 (CbLocal 7) s_gate_open in
  map eidx (log (nd s')) = [1; 2; 3] /\ change_idx (nd s') = Some 3 /\ others (nd s') = [2; 3; 4].
Proof. vm_compute. repeat split; reflexivity. Qed.

(* refused: the same leader one tick later (`add 4` at index 3 is not applied yet) answers a second
   request with REQUEST_DENIED and appends nothing *)
Definition s_gate_closed : S := start_S (tick_env 232) (node_of 1 g1).

Example gate_denied_example :
  role (nd s_gate_closed) = LEADER /\ change_idx (nd s_gate_closed) = Some 3 /\ applied (nd s_gate_closed) = 2 /\
  let s' := check_one (tick_env 232) rem3 (CbLocal 8) s_gate_closed in
  log (nd s') = log (nd s_gate_closed) /\ others (nd s') = others (nd s_gate_closed) /\
  outs s' = [Fired 8 0 REQUEST_DENIED].
Proof. vm_compute. repeat split; reflexivity. Qed.

(* the pending-change marker is not reset by an election: a re-elected leader whose marker points
   beyond everything it will apply soon refuses every membership change (it cannot wrongly allow
   one: the no-op condition covers all entries of earlier terms) *)
Definition stale_marker_node : node := (node_of 1 g0) <| change_idx := Some 10 |>.
Example stale_change_idx_blocks :
  let s := start_S (tick_env 221) stale_marker_node in
  role (nd s) = LEADER /\ noop_idx (nd s) = Some 2 /\ applied (nd s) = 2 /\ last_idx (log (nd s)) = 2 /\
  forallb (fun en => negb (is_mem en)) (log (nd s)) = true /\
  outs (check_one (tick_env 221) add4 (CbLocal 7) s) = [Fired 7 0 REQUEST_DENIED].
Proof. vm_compute. repeat split; reflexivity. Qed.

(* ---- C10_one_pending_change / nreach: a one-node cluster ---- *)
Definition e1 (now : Z) : env := mk_env xc now 0 30 [] 0.
Definition n_a : node := init_node (e1 0) (Some 1) [] 0.
Definition n_b : node := nd (on_tick (e1 200) n_a).                          (* elects itself, commits the no-op *)
Definition n_c : node := nd (api_admin (e1 0) (mkCmd 2 1 2 5 20) (CbLocal 5) n_b).
Definition n_d : node := nd (on_tick (e1 211) n_c).                          (* `add 2` appended, pending *)

Lemma n_d_reach : nreach xc n_d /\ freach xc n_d.
Proof.
  assert (Ha : nreach xc n_a /\ freach xc n_a).
  { split; [apply (nr_init xc (e1 0) (Some 1) [] 0)|apply (fr_init xc (e1 0) (Some 1) [] 0)];
      try reflexivity; exact I. }
  assert (Hb : nreach xc n_b /\ freach xc n_b).
  { destruct Ha. split; [apply (nr_step xc n_a)|apply (fr_step xc n_a)]; auto;
      apply (ns_tick xc msg_wf n_a (e1 200)); reflexivity. }
  assert (Hc : nreach xc n_c /\ freach xc n_c).
  { destruct Hb. split; [apply (nr_step xc n_b)|apply (fr_step xc n_b)]; auto;
      apply (ns_admin xc msg_wf n_b (e1 0)); reflexivity. }
  destruct Hc. split; [apply (nr_step xc n_c)|apply (fr_step xc n_c)]; auto;
    apply (ns_tick xc msg_wf n_c (e1 211)); reflexivity.
Qed.

Example one_pending_example :
  dyn xc = true /\ nreach xc n_d /\ role n_d = LEADER /\ noop_idx n_d = Some 2 /\ applied n_d = 2 /\
  map (fun en => (eidx en, is_mem en)) (log n_d) = [(1, false); (2, false); (3, true)] /\
  change_idx n_d = Some 3.
Proof. split; [reflexivity|]. split; [apply n_d_reach|]. vm_compute. repeat split; reflexivity. Qed.

Example gate_open_example : role n_b = LEADER /\ gate_open n_b /\ nreach xc n_b.
Proof.
  split; [vm_compute; reflexivity|]. split.
  - split; [exists 2; vm_compute; split; [reflexivity|discriminate]|left; vm_compute; reflexivity].
  - apply (nr_step xc n_a); [apply (nr_init xc (e1 0) (Some 1) [] 0); [reflexivity|exact I]|].
    apply (ns_tick xc msg_wf n_a (e1 200)); reflexivity.
Qed.

(* C10_apply_does_not_reapply: the fresh node above *)
Example apply_fresh_example :
  freach xc n_d /\ replay_idx n_d = 1 /\ applied n_d = 2.
Proof. split; [apply n_d_reach|vm_compute; auto]. Qed.

(* ---- C10_members_follow_log ---- *)
Definition entries_brief (l : list entry) := map (fun en => (eidx en, eterm en, membership_of (ecmd en))) l.

(* every node of the final state of the trace has others = fold of its log from its start list *)
Example members_follow_log_trace :
  others (node_of 1 g3) = fold_members [2; 3] (log (node_of 1 g3)) (Some 1) /\
  others (node_of 2 g3) = fold_members [1; 3] (log (node_of 2 g3)) (Some 2) /\
  others (node_of 3 g3) = fold_members [1; 2] (log (node_of 3 g3)) (Some 3) /\
  others (node_of 1 g3) = [2; 4] /\ others (node_of 2 g3) = [1; 3; 4].
Proof. vm_compute. repeat split; reflexivity. Qed.

(* the append path with a truncation whose side condition holds: a follower {2,3} holding
   `add 4` (idx 2, term 1) receives a conflicting `rem 3` (idx 2, term 2) *)
Definition fe : env := mkEnv xc 0 30 0 [] 0.
Definition f0 : node := (init_node fe (Some 1) [2; 3] 0).
Definition f1 : node := nd (on_message fe 2 (AE 1 1 (Some (1, 0)) [mkEntry add4 2 1]) f0).
Definition conflict : list entry := [mkEntry rem3 2 2].

Example members_follow_log_append_example :
  let s := start_S fe f1 in
  dyn (cf fe) = true /\
  get_entries (log (nd s)) (Some 1) None None = [mkEntry (noop_cmd 10) 1 0; mkEntry add4 2 1] /\
  others f1 = [2; 3; 4] /\ others f1 = fold_members [2; 3] (log f1) (self f1) /\ ssorted [2; 3] /\
  matched_prefix [mkEntry add4 2 1] conflict = 0%nat /\
  truncating [mkEntry add4 2 1] conflict = true /\
  all_undo_ok (Some 1) (fold_members [2; 3] [mkEntry (noop_cmd 10) 1 0] (Some 1)) (mem_ops [mkEntry add4 2 1]) = true /\
  others (nd (ae_regular fe 3 1 (Some (1, 0)) conflict s)) = [2].
Proof. vm_compute. repeat split; try reflexivity; try lia. Qed.

(* undo_one_exact in both directions *)
Example undo_exact_examples :
  undo_ok (Some 1) [2; 3] (true, 4) = true /\ undo_ok (Some 1) [2; 3] (true, 1) = true /\
  undo_ok (Some 1) [2; 3] (true, 3) = false /\ undo_ok (Some 1) [2; 3] (false, 4) = false.
Proof. vm_compute. auto. Qed.

(* ---- C10_removed_cannot_count ---- *)
(* the accepted `rem 3` of the trace: node 3 loses its slots and its connection *)
Definition s_rem : S := start_S (tick_env 287) (node_of 1 (g_after (tr1 ++ tr2 ++ firstn 5 tr3))).
Fixpoint asortedb {V} (l : list (N * V)) : bool :=
  match l with
  | [] => true
  | (k, _) :: r => match r with [] => true | (k', _) :: _ => k <? k' end && asortedb r
  end.
Lemma asortedb_ok {V} (l : list (N * V)) : asortedb l = true -> asorted l.
Proof.
  induction l as [|[k v] r IH]; [intros _; exact I|]. intros H. destruct r as [|[k' v'] r']; [cbn; auto|].
  change (((k <? k') && asortedb ((k', v') :: r')) = true) in H.
  apply andb_prop in H. destruct H as [H1 H2]. split; [now apply N.ltb_lt|auto].
Qed.

Example removed_example :
  ssorted (others (nd s_rem)) /\ asorted (next_idx (nd s_rem)) /\ asorted (match_idx (nd s_rem)) /\
  ssorted (tconn (nd s_rem)) /\
  snd (do_change_cluster false 3 false s_rem) = true /\
  others (nd s_rem) = [2; 3; 4] /\ match_idx (nd s_rem) = [(2, 3); (3, 3); (4, 0)] /\
  match_idx (nd (fst (do_change_cluster false 3 false s_rem))) = [(2, 3); (4, 0)].
Proof.
  split; [apply ssortedb_ok; vm_compute; reflexivity|].
  split; [apply asortedb_ok; vm_compute; reflexivity|].
  split; [apply asortedb_ok; vm_compute; reflexivity|].
  split; [apply ssortedb_ok; vm_compute; reflexivity|].
  vm_compute. repeat split; reflexivity.
Qed.

(* a success reply from the removed node 3 afterwards raises KeyError in the leader *)
Example removed_reply_example :
  let n := node_of 1 g3 in
  role n = LEADER /\ aget 3 (match_idx n) = None /\ term n = 1 /\
  exc (on_message (mk_env xc 290 0 DEFAULT_BUDGET [] 0) 3 (NextIdx 1 4 false true) n) = EXC_KEY.
Proof. vm_compute. repeat split; reflexivity. Qed.

(* ---- C10_single_change_majorities_intersect ---- *)
Example majorities_example :
  NoDup [1; 2; 3] /\ NoDup [1; 2; 3; 4] /\ single_change [1; 2; 3] [1; 2; 3; 4] /\
  is_majority_of [2; 3] [1; 2; 3] /\ is_majority_of [1; 3; 4] [1; 2; 3; 4].
Proof.
  assert (N3 : NoDup [1; 2; 3]).
  { repeat constructor; cbn; intuition lia. }
  assert (N4 : NoDup [1; 2; 3; 4]).
  { repeat constructor; cbn; intuition lia. }
  split; [exact N3|]. split; [exact N4|]. split.
  - exists 4. left. split; [cbn; intuition lia|]. intros y. cbn. intuition lia.
  - split.
    + split; [repeat constructor; cbn; intuition lia|]. split; [intros y; cbn; intuition lia|cbn; lia].
    + split; [repeat constructor; cbn; intuition lia|]. split; [intros y; cbn; intuition lia|cbn; lia].
Qed.

(* ---- the global theorems (ProofsCommitGlobal): the 49-event trace satisfies their hypotheses ---- *)
From PSO Require Import Raft.ProofsCommitGlobal.

Lemma trace_ev_ok : Forall ev_ok (tr1 ++ tr2 ++ tr3).
Proof. repeat (constructor; [cbn; repeat split; try lia; exact I|]). constructor. Qed.

Example global_example :
  dyn xc = true /\ file_journal xc = false /\ Forall ev_ok (tr1 ++ tr2 ++ tr3) /\
  run_trace xc ginit (tr1 ++ tr2 ++ tr3) = Some g3 /\
  aget 1 (nodes g3) = Some (node_of 1 g3) /\ role (node_of 1 g3) = LEADER /\
  noop_idx (node_of 1 g3) = Some 2 /\ applied (node_of 1 g3) = 3 /\
  map (fun en => (eidx en, is_mem en)) (log (node_of 1 g3)) = [(1, false); (2, false); (3, true); (4, true)].
Proof.
  split; [reflexivity|]. split; [reflexivity|]. split; [exact trace_ev_ok|].
  vm_compute. repeat split; reflexivity.
Qed.

(* ---- candidate finding: the pending-change marker survives a lost leadership ----
   Node 1 (leader, term 1) appends seven commands and `add 4` (index 10, marker := 10) while cut
   off; node 2 is elected (term 2) and commits its no-op at index 3; node 1 rejoins, its entries
   3..10 are cut (the `add 4` is undone) - the marker stays 10.  Node 1 is elected again (term 3),
   commits and applies its no-op (index 4).  Its log holds no membership entry, yet `add 4` is
   answered REQUEST_DENIED, and will be until seven more entries have been applied. *)
Definition reg (k : N) : cmd := mkCmd 0 k 0 5 20.
Definition stale_trace : list event := firstn 17 tr1 ++
  [ EDrop 1 2; EDrop 1 3; EDrop 2 1; EDrop 3 1;
    ESubmit 1 (reg 1) 11; ESubmit 1 (reg 2) 12; ESubmit 1 (reg 3) 13; ESubmit 1 (reg 4) 14;
    ESubmit 1 (reg 5) 15; ESubmit 1 (reg 6) 16; ESubmit 1 (reg 7) 17;
    ETick 1 221 0 30 [] 0;
    EAdmin 1 add4 7;
    ETick 1 232 0 30 [] 0;
    ETick 2 400 0 30 [] 0;
    EDeliver 2 3 401 0 []; EDeliver 3 2 402 0 [];
    EDeliver 2 3 403 0 []; EDeliver 3 2 404 0 [];
    ETick 2 411 0 30 [] 0;
    ETick 2 422 0 30 [] 0;
    EDeliver 2 3 423 0 []; EDeliver 3 2 424 0 [];
    ETick 2 433 0 30 [] 0;
    EDeliver 2 3 434 0 []; EDeliver 3 2 435 0 [];
    ETick 2 444 0 30 [] 0;
    EDeliver 2 3 445 0 []; EDeliver 3 2 446 0 [];
    ETick 2 455 0 30 [] 0;
    ETick 1 600 0 30 [] 0;
    EConnect 1 2; EConnect 2 1; EConnect 1 3; EConnect 3 1;
    ETick 2 610 0 30 [] 0;
    EDeliver 2 1 611 0 []; EDeliver 1 2 612 0 [];
    ETick 2 621 0 30 [] 0;
    EDeliver 2 1 622 0 []; EDeliver 1 2 623 0 [];
    ETick 1 630 0 30 [] 0;
    ETick 1 900 0 30 [] 0;
    EDeliver 1 3 901 0 []; EDeliver 3 1 902 0 [];
    EDeliver 1 2 903 0 [];
    EDeliver 1 3 904 0 []; EDeliver 3 1 905 0 [];
    ETick 1 911 0 30 [] 0;
    EAdmin 1 add4 9 ].

Definition g_stale : gstate := g_after stale_trace.

Lemma stale_trace_ev_ok : Forall ev_ok stale_trace.
Proof. repeat (constructor; [cbn; repeat split; try lia; exact I|]). constructor. Qed.

Theorem stale_pending_marker_refuted :
  let n := node_of 1 g_stale in
  let s' := on_tick (tick_env 922) n in
  dyn xc = true /\ Forall ev_ok stale_trace /\ run_trace xc ginit stale_trace = Some g_stale /\
  aget 1 (nodes g_stale) = Some n /\
  role n = LEADER /\ term n = 3 /\ noop_idx n = Some 4 /\ applied n = 4 /\
  forallb (fun en => negb (is_mem en)) (log n) = true /\
  queue n = [(add4, CbLocal 9)] /\ effective (self n) (others n) (true, 4) = true /\
  change_idx n = Some 10 /\
  In (Fired 9 0 REQUEST_DENIED) (outs s') /\ log (nd s') = log n /\ others (nd s') = others n.
Proof.
  cbv zeta. split; [reflexivity|]. split; [exact stale_trace_ev_ok|].
  vm_compute. repeat split; try reflexivity. right. right. now left.
Qed.

(* ---- finding F2 (repaired in the code): a snapshot used to carry the capturer's whole-log member set ----
   Leader 1 (members 1,2,3) has applied index 3, appends `add 4` at index 4 while cut off from 2,
   compacts, and ships the snapshot to the lagging node 3; the append_entries that follows (with
   `add 4`) is lost and node 1 is cut off.  Node 2 is elected (term 2), commits its no-op at index 4;
   node 1 rejoins and cuts its `add 4`.  Before the repair the snapshot stored {1,2,3,4} and node 3
   kept 4 as a member for good; now it stores the member set as of index 3 and all nodes agree. *)
Definition snap_trace : list event := firstn 17 tr1 ++
  [ EDrop 1 3; EDrop 3 1;
    ESubmit 1 (reg 1) 11; ETick 1 221 0 30 [] 0; ETick 1 232 0 30 [] 0;
    EDeliver 1 2 233 0 []; EDeliver 2 1 234 0 []; EDeliver 1 2 235 0 []; EDeliver 2 1 236 0 []; ETick 1 243 0 30 [] 0;
    EDrop 1 2; EDrop 2 1; EAdmin 1 add4 7; ETick 1 254 0 30 [] 0;
    ECompact 1; ETick 1 265 0 30 [] 100; ETick 1 276 0 30 [] 100;
    EConnect 1 3; EConnect 3 1;
    ETick 1 287 0 30 [] 100;
    EDeliver 1 3 288 0 []; EDeliver 3 1 289 0 [];
    ETick 1 298 0 30 [] 100;
    ELose 1 3 1; EDeliver 1 3 299 0 []; EDeliver 1 3 300 0 [];
    EDrop 1 3; EDrop 3 1;
    ETick 2 500 0 30 [] 0;
    EDeliver 2 3 501 0 []; EDeliver 3 2 502 0 [];
    EDeliver 2 3 503 0 []; EDeliver 3 2 504 0 [];
    ETick 2 511 0 30 [] 0;
    ETick 1 700 0 30 [] 0;
    EConnect 1 2; EConnect 2 1; EConnect 1 3; EConnect 3 1;
    ETick 2 710 0 30 [] 0;
    EDeliver 2 1 711 0 []; EDeliver 1 2 712 0 [];
    ETick 2 721 0 30 [] 0;
    EDeliver 2 1 722 0 []; EDeliver 1 2 723 0 [];
    ETick 1 730 0 30 [] 0 ].

Definition g_snap : gstate := g_after snap_trace.

Lemma snap_trace_ev_ok : Forall ev_ok snap_trace.
Proof. repeat (constructor; [cbn; repeat split; try lia; exact I|]). constructor. Qed.

Definition no_membership (n : node) : bool := forallb (fun en => negb (is_mem en)) (log n).

Example snapshot_members_trace :
  dyn xc = true /\ Forall ev_ok snap_trace /\ run_trace xc ginit snap_trace = Some g_snap /\
  map fst (nodes g_snap) = [1; 2; 3] /\
  no_membership (node_of 1 g_snap) = true /\ no_membership (node_of 2 g_snap) = true /\
  no_membership (node_of 3 g_snap) = true /\
  map eidx (log (node_of 3 g_snap)) = [2; 3; 4] /\ map eterm (log (node_of 3 g_snap)) = [1; 1; 2] /\
  map eterm (log (node_of 1 g_snap)) = [1; 1; 2] /\
  role (node_of 2 g_snap) = LEADER /\ commit (node_of 2 g_snap) = 4 /\
  others (node_of 1 g_snap) = [2; 3] /\ others (node_of 2 g_snap) = [1; 3] /\
  others (node_of 3 g_snap) = [1; 2].
Proof.
  split; [reflexivity|]. split; [exact snap_trace_ev_ok|].
  vm_compute. repeat split; reflexivity.
Qed.

(* C10_snapshot_members: the hypotheses hold for node 1 at the tick of snap_trace that captures the
   snapshot (event 33: applied = 3, `add 4` at index 4 unapplied), and the stored member set is
   {1,2,3}; the pre-repair rule (self + others) would have stored {1,2,3,4} *)
From PSO Require Import Raft.ProofsMembershipSnap.
Definition g_cap : gstate := g_after (firstn 32 snap_trace).
Definition s_cap : S := start_S (mk_env xc 265 0 30 [] 100) (node_of 1 g_cap).

Example snapshot_members_example :
  let n := nd s_cap in
  pid (sr (nd (try_compact (mk_env xc 265 0 30 [] 100) s_cap))) = 1 /\
  consec (log n) /\ ssorted [2; 3] /\ applied n = 3 /\
  map (fun en => (eidx en, is_mem en)) (log n) = [(1, false); (2, false); (3, false); (4, true)] /\
  others n = fold_members [2; 3] (log n) (self n) /\
  all_undo_ok (self n) (fold_members [2; 3] (upto (applied n) (log n)) (self n))
              (mem_ops (get_entries (log n) (Some (applied n + 1)) None None)) = true /\
  (exists sn, stored (sr (nd (try_compact (mk_env xc 265 0 30 [] 100) s_cap))) = Some (Good sn) /\
              s_cluster sn = [1; 2; 3]) /\
  with_self (self n) (others n) = [1; 2; 3; 4].
Proof.
  cbv zeta. split; [vm_compute; reflexivity|]. split; [apply consecb_ok; vm_compute; reflexivity|].
  split; [cbn; lia|]. vm_compute. repeat split; try reflexivity. eexists. split; reflexivity.
Qed.
