(* C18: replies of a node only touch its own slots; the majority computations ignore non-members. *)
From Coq Require Import ZArith NArith List Bool Lia ZifyBool ZifyN.
From RecordUpdate Require Import RecordSet.
From PSO Require Import Raft.Types Raft.Node Raft.Net.
From PSO Require Import Raft.ProofsReadonlyFrames Raft.ProofsReadonlyA Raft.ProofsFallbackA Raft.ProofsFallbackB.
Import ListNotations.
Import RecordSetNotations.
Open Scope N_scope.

Lemma node_eta3 : forall n, n = n <| next_idx := next_idx n |> <| match_idx := match_idx n |> <| last_resp := last_resp n |>.
Proof. intros n; destruct n; reflexivity. Qed.

(* a NextIdx from x changes nothing but next_idx[x], match_idx[x], last_resp[x] of the receiver,
   and sends nothing *)
Theorem C18_responses_only_update_own_slot_thm : forall e x t next reset success n,
  let s := on_message e x (NextIdx t next reset success) n in
  outs s = [] /\
  exists ni mi lr,
    nd s = n <| next_idx := ni |> <| match_idx := mi |> <| last_resp := lr |> /\
    forall y, y <> x ->
      aget y ni = aget y (next_idx n) /\ aget y mi = aget y (match_idx n) /\ aget y lr = aget y (last_resp n).
Proof.
  intros e x t next reset success n; cbv zeta. unfold on_message; cbv zeta.
  assert (forall ni mi lr,
            (forall y, y <> x -> aget y ni = aget y (next_idx n) /\ aget y mi = aget y (match_idx n) /\
                                 aget y lr = aget y (last_resp n)) ->
            exists ni' mi' lr',
              n <| next_idx := ni |> <| match_idx := mi |> <| last_resp := lr |> =
              n <| next_idx := ni' |> <| match_idx := mi' |> <| last_resp := lr' |> /\
              forall y, y <> x -> aget y ni' = aget y (next_idx n) /\ aget y mi' = aget y (match_idx n) /\
                                  aget y lr' = aget y (last_resp n)) as HE by (intros; eauto 6).
  destruct ((role (nd (start_S e n)) =? LEADER) && (t =? term (nd (start_S e n)))).
  2:{ split; [reflexivity|]. cbn. exists (next_idx n), (match_idx n), (last_resp n). split; [apply node_eta3 | auto]. }
  set (s1 := if reset then upd (fun n => n <| next_idx := aset x (match aget x (next_idx n) with
                                                             | Some cur => N.min next cur | None => next end)
                                                            (next_idx n) |>) (start_S e n) else start_S e n).
  assert (outs s1 = [] /\ exists ni, nd s1 = n <| next_idx := ni |> /\ (forall y, y <> x -> aget y ni = aget y (next_idx n)) /\
          match_idx (nd s1) = match_idx n /\ last_resp (nd s1) = last_resp n) as (O1 & ni1 & N1 & A1 & M1 & L1).
  { subst s1. destruct reset; cbn.
    - split; [reflexivity|]. eexists; split; [reflexivity|]. split; [|auto]. intros y Hy. apply aget_aset_other; exact Hy.
    - split; [reflexivity|]. exists (next_idx n). split; [destruct n; reflexivity | auto]. }
  clearbody s1.
  set (s2 := if success then
               match aget x (match_idx (nd s1)) with
               | None => raise EXC_KEY s1
               | Some m0 => if m0 <? next - 1
                            then upd (fun n => n <| match_idx := aset x (next - 1) (match_idx n) |>
                                                 <| next_idx := aset x next (next_idx n) |>) s1
                            else s1
               end
             else s1).
  assert (outs s2 = [] /\ exists ni mi, nd s2 = n <| next_idx := ni |> <| match_idx := mi |> /\
          (forall y, y <> x -> aget y ni = aget y (next_idx n) /\ aget y mi = aget y (match_idx n)) /\
          last_resp (nd s2) = last_resp n) as (O2 & ni2 & mi2 & N2 & A2 & L2).
  { assert (outs s1 = [] /\ exists ni mi, nd s1 = n <| next_idx := ni |> <| match_idx := mi |> /\
            (forall y, y <> x -> aget y ni = aget y (next_idx n) /\ aget y mi = aget y (match_idx n)) /\
            last_resp (nd s1) = last_resp n) as Hs1.
    { split; [exact O1|]. exists ni1, (match_idx n). rewrite N1. split; [destruct n; reflexivity|]. split; [auto | rewrite N1 in L1; exact L1]. }
    subst s2. destruct success; [|exact Hs1].
    destruct (aget x (match_idx (nd s1))); [|exact Hs1].
    destruct (_ <? _); [|exact Hs1].
    cbn. split; [exact O1|]. rewrite N1. cbn.
    exists (aset x next ni1), (aset x (next - 1) (match_idx n)). split; [reflexivity|].
    split; [|reflexivity]. intros y Hy. rewrite !aget_aset_other by exact Hy. auto. }
  clearbody s2.
  destruct (ok s2).
  - cbn. split; [exact O2|]. rewrite N2. cbn. exists ni2, mi2, (aset x (tnow s2) (last_resp n)).
    split; [reflexivity|]. intros y Hy. destruct (A2 y Hy). rewrite aget_aset_other by exact Hy. auto.
  - split; [exact O2|]. rewrite N2. exists ni2, mi2, (last_resp n).
    split; [destruct n; reflexivity|]. intros y Hy. destruct (A2 y Hy). auto.
Qed.

(* ---- the leader phase (commit advance + fallback) reads match_idx / last_resp only at members ---- *)
Lemma same_votersview_trans_upd : forall a b (f : node -> node),
  same_votersview a b ->
  (forall n, others (f n) = others n /\ log (f n) = log n /\ term (f n) = term n /\
             match_idx (f n) = match_idx n /\ last_resp (f n) = last_resp n) ->
  same_votersview (f a) (f b).
Proof.
  intros a b f (H1 & H2 & H3 & H4 & H5) Hf.
  destruct (Hf a) as (A1 & A2 & A3 & A4 & A5). destruct (Hf b) as (B1 & B2 & B3 & B4 & B5).
  unfold same_votersview. rewrite A1, A2, A3, A4, A5, B1, B2, B3, B4, B5. auto.
Qed.

Definition verdict (s : S) := (exc s, role (nd s), commit (nd s), match leader (nd s) with None => true | Some _ => false end).

Theorem leader_phase_ignores_nonmembers : forall e s s',
  same_votersview (nd s) (nd s') ->
  role (nd s) = role (nd s') -> commit (nd s) = commit (nd s') -> leader (nd s) = leader (nd s') ->
  tnow s = tnow s' -> exc s = exc s' ->
  verdict (tick_leader e s) = verdict (tick_leader e s').
Proof.
  intros e s s' Hv Hr Hc Hl Ht Hx. rewrite !tick_leader_eq. rewrite <- Hr.
  destruct (role (nd s) =? LEADER); [|unfold verdict; rewrite Hx, Hr, Hc, Hl; reflexivity].
  unfold commit_phase. destruct Hv as (V1 & V2 & V3 & V4 & V5).
  pose proof (commit_loop_ext (Datatypes.S (N.to_nat (last_idx (log (nd s)) - commit (nd s)))) (commit (nd s)) (commit (nd s)) s s'
                (conj V1 (conj V2 (conj V3 (conj V4 V5))))) as (E1 & E2).
  rewrite <- V2, <- Hc.
  destruct (commit_loop _ _ _ s) as [s1 nc]. destruct (commit_loop _ _ _ s') as [s1' nc'].
  cbn [fst snd] in E1, E2. subst nc'.
  destruct E2 as [(-> & ->) | (-> & ->)].
  2:{ cbn. unfold verdict; cbn. rewrite Hr, Hc, Hl; reflexivity. }
  unfold ok; rewrite <- Hx. destruct (exc s =? 0); [|unfold verdict; rewrite Hx, Hr, Hc, Hl; reflexivity].
  (* store_commit *)
  assert (same_votersview (nd (store_commit nc s)) (nd (store_commit nc s')) /\
          role (nd (store_commit nc s)) = role (nd (store_commit nc s')) /\
          commit (nd (store_commit nc s)) = commit (nd (store_commit nc s')) /\
          leader (nd (store_commit nc s)) = leader (nd (store_commit nc s')) /\
          tnow (store_commit nc s) = tnow (store_commit nc s') /\ exc (store_commit nc s) = exc (store_commit nc s'))
    as (W1 & W2 & W3 & W4 & W5 & W6).
  { unfold store_commit. rewrite <- Hc. destruct (commit (nd s) =? nc); cbn; repeat split; auto. }
  generalize dependent (store_commit nc s'). generalize dependent (store_commit nc s).
  clear. intros a b Hv Hr Hc Hl Ht Hx.
  destruct (fallback_phase_spec e a) as [(A1 & ->) | [(A1 & A2 & ->) | (A1 & A2 & ->)]];
  destruct (fallback_phase_spec e b) as [(B1 & ->) | [(B1 & B2 & ->) | (B1 & B2 & ->)]];
    rewrite (resp_missing_ext _ _ Hv) in A1; try congruence;
    try (rewrite (fresh_count_ext _ _ _ Hv), (majority_others _ _ _ (proj1 Hv)), Ht in A2; congruence).
  - unfold verdict; cbn. rewrite Hr, Hc, Hl; reflexivity.
  - unfold verdict; cbn. rewrite Hx, Hr, Hc, Hl; reflexivity.
  - unfold verdict, set_role; cbn. rewrite <- Hr. destruct (role (nd a) =? FOLLOWER); cbn; rewrite Hx, Hc; reflexivity.
Qed.

(* the instance used for read-only nodes: slots of keys outside `others` do not matter *)
Corollary leader_phase_ignores_slot : forall e s x nx mi lr,
  ~ In x (others (nd s)) ->
  verdict (tick_leader e (upd (fun n => n <| next_idx := nx |> <| match_idx := aset x mi (match_idx n) |>
                                          <| last_resp := aset x lr (last_resp n) |>) s))
  = verdict (tick_leader e s).
Proof.
  intros e s x nx mi lr Hx. apply leader_phase_ignores_nonmembers; try reflexivity.
  cbn. repeat split; auto; intros y Hy; apply aget_aset_other; intros ->; contradiction.
Qed.

Corollary leader_phase_ignores_slot_del : forall e s x nx,
  ~ In x (others (nd s)) ->
  verdict (tick_leader e (upd (fun n => n <| next_idx := nx |> <| match_idx := adel x (match_idx n) |>) s))
  = verdict (tick_leader e s).
Proof.
  intros e s x nx Hx. apply leader_phase_ignores_nonmembers; try reflexivity.
  cbn. repeat split; auto; intros y Hy; apply aget_adel_other; intros ->; contradiction.
Qed.

(* the election count reads nothing but the number of members *)
Lemma election_majority_members_only : forall k a b, length (others a) = length (others b) -> majority k a = majority k b.
Proof. intros k a b H; unfold majority; rewrite H; reflexivity. Qed.
