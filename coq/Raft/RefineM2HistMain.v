(* Tier CM2, user-state half of C01, part 3 (the counterpart of Refine6Main.v): the invariant J - every voter's
   user state is the replay of the committed prefix it has applied; every snapshot held by a voter or in
   flight carries the replay of the committed prefix up to its last entry - along the steps of a run of
   core_fragM2, on top of RefineM2Main.step_sim. *)
From Coq Require Import ZArith NArith List Bool Lia ZifyBool Arith PeanoNat.
From RecordUpdate Require Import RecordSet.
From PSO Require Import Raft.Types Raft.Node Raft.Net Raft.Obs Raft.ProofsCommitBase.
From PSO Require Import Raft.ProofsApplyBase Raft.ProofsApplyLog Raft.ProofsApplyReplay.
From PSO Require Import Raft.ProofsElectionBase Raft.ProofsElectionFrame Raft.ProofsElectionStep Raft.ProofsElectionGhost.
From PSO Require Import Raft.ProofsMembership Raft.ProofsMembershipInv.
From PSO Require Import Raft.RefineMAbs Raft.RefineMEff Raft.RefineMCfg Raft.RefineMK Raft.RefineMSpecA
  Raft.RefineMGlobal Raft.RefineMMain.
From PSO Require Import Raft.Refine6Snaps.
From PSO Require Import Raft.RefineM2Abs Raft.RefineM2SpecA Raft.RefineM2Sim Raft.RefineM2Global Raft.RefineM2Ghost
  Raft.RefineM2Main Raft.RefineM2HistBase Raft.RefineM2HistTick.
From PSO Require AbstractM.Model AbstractM.Lib AbstractM.Kstep.
Import ListNotations.
Import RecordSetNotations.
Open Scope N_scope.
#[local] Arguments firstn : simpl nomatch.
#[local] Arguments skipn : simpl nomatch.

(* the snapshot try_compact takes sits at [applied] *)
Lemma fresh_idx full x sn : wf1 full -> suffix_of (log x) full -> fresh x sn -> eidx (s_e1 sn) = applied x.
Proof.
  intros W Sx (_ & e0 & r & Ege).
  assert (Hge : first_idx (log x) <= applied x - 1).
  { destruct (N.le_gt_cases (first_idx (log x)) (applied x - 1)); auto.
    rewrite (suffix_lt (log x) (applied x - 1)) in Ege by lia. discriminate. }
  pose proof (suffix_first_pos _ _ W Sx) as Hfp.
  rewrite (suffix_ge _ _ W Sx) in Ege by exact Hge. rewrite ge_count in Ege by (auto; lia).
  change (n2 2) with 2%nat in Ege.
  set (q := (n2 (applied x - 1) - 1)%nat) in *.
  assert (H1 : nth_error (firstn 2 (skipn q full)) 1 = Some (s_e1 sn)) by (rewrite Ege; reflexivity).
  rewrite ML.nth_error_firstn_lt, RefineM2Abs.nth_error_skipn in H1 by lia.
  destruct W as [_ Hw]. rewrite (Hw _ _ H1). unfold q. lia.
Qed.

Section Main6.
Variable c : conf.
Variable mf : N -> N -> N * N.
Variable V : list nid.
Hypothesis NDV : NoDup V.
Hypothesis SV : ssorted V.
Hypothesis VNE : V <> [].
Hypothesis VRO : forall v, In v V -> v < RO_BASE.
Hypothesis Hb1 : 1 < batch c.
Hypothesis Hdyn : dyn c = true.
Hypothesis Hfd : file_dump c = false.
Hypothesis H_on_tick : sim_on_tick_stmt c mf V.
Hypothesis H_ae : sim_msg_ae_stmt c mf V.
Hypothesis H_aesnap : sim_msg_aesnap_stmt c mf V.
Set Default Proof Using "All".

Notation V' := (absV V).
Notation Rn := (Rn c mf V).
Notation Rmsg := (Rmsg c mf V).
Notation R := (R c mf V).
Notation ksn := (ksn V).
Notation kstar := (kstar V).
Notation LS := (LS c mf V).
Notation GI := (GI c mf V).
Notation GI0 := (GI0 c mf V).
Notation HI := (HI c).
Notation SH := (SH c).
Notation HI_kstar := (HI_kstar c mf V NDV SV VNE VRO Hb1).
Notation SH_kstar := (SH_kstar c mf V NDV SV VNE VRO Hb1).
Notation HI_uview := (HI_uview c mf V NDV SV VNE VRO Hb1).
Notation HI_of_SH := (HI_of_SH c mf V NDV SV VNE VRO Hb1).
Notation SH_of_HI := (SH_of_HI c mf V NDV SV VNE VRO Hb1).
Notation Rn_full := (Rn_full c mf V NDV SV VNE VRO Hb1).

Record J (g : gstate) (s : M.state) : Prop := {
  J_hist : forall v x, aget v (nodes g) = Some x -> v < RO_BASE -> HI s x;
  J_node : forall v x, aget v (nodes g) = Some x -> v < RO_BASE -> nsn (SH s) x;
  J_msg : forall a b m, In m (chan_get a b g) -> msn (SH s) m
}.

Lemma J_kstar g s s' : KS.kreachable V' F0 s -> kstar s s' -> J g s -> J g s'.
Proof.
  intros HR K [A B C]. constructor.
  - intros v x Hx Hv. eapply HI_kstar; eauto.
  - intros v x Hx Hv. eapply srq_impl; [|apply (B v x Hx Hv)]. intros sn. apply SH_kstar; auto.
  - intros a b m Hm. eapply msn_impl; [|apply (C a b m Hm)]. intros sn. apply SH_kstar; auto.
Qed.

Lemma J_shrink g g' s :
  J g s -> (forall v y, aget v (nodes g') = Some y -> aget v (nodes g) = Some y) ->
  (forall a b m, In m (chan_get a b g') -> In m (chan_get a b g)) -> J g' s.
Proof. intros [A B C] Hn Hc. constructor; eauto. Qed.

Lemma J_init : J ginit (M.init V').
Proof.
  constructor.
  - intros v x H. cbn in H. discriminate.
  - intros v x H. cbn in H. discriminate.
  - intros a b m H. cbn in H. destruct H.
Qed.

Lemma msn_plain (Q : snapshot -> Prop) m :
  (forall t cm b off len f l, m <> AESnap t cm (SData b off len f l)) -> msn Q m.
Proof.
  intros H. destruct m as [| | | |t cm [|b off len f l]| | |]; cbn; auto. exfalso. eapply H. reflexivity.
Qed.

(* the common ending of a step of node n *)
Lemma J_finish g g0 g' s' n (S : Node.S) :
  J g s' -> nodes g0 = nodes g -> (forall a b m, In m (chan_get a b g0) -> In m (chan_get a b g)) ->
  nodes g' = nodes (finish n S g0) ->
  (forall a b m, In m (chan_get a b g') -> In m (chan_get a b (finish n S g0))) ->
  (forall a b m, In m (chan_get a b g') -> Rmsg a b m s') ->
  (n < RO_BASE -> HI s' (nd S) /\ SS (SH s') S) ->
  J g' s'.
Proof.
  intros [A B C] En Hch Hn' Hch' HR' Hv.
  assert (Nf : nodes g' = aset n (nd S) (nodes g)).
  { rewrite Hn', nodes_finish, En. reflexivity. }
  constructor.
  - intros v x Hx Hlt. rewrite Nf, ProofsElectionBase.aget_aset in Hx. destruct (v =? n) eqn:Ev.
    + apply N.eqb_eq in Ev. subst v. injection Hx as <-. apply Hv. exact Hlt.
    + eauto.
  - intros v x Hx Hlt. rewrite Nf, ProofsElectionBase.aget_aset in Hx. destruct (v =? n) eqn:Ev.
    + apply N.eqb_eq in Ev. subst v. injection Hx as <-. destruct (Hv Hlt) as [_ [X _]]. exact X.
    + eauto.
  - intros a b m Hm. pose proof (HR' a b m Hm) as Rm.
    apply Hch' in Hm. apply finish_chan in Hm as [Hm|[-> Hm]]; [eauto|].
    destruct (N.ltb_spec n RO_BASE) as [Hlt|Hge].
    + destruct (Hv Hlt) as [_ [_ X]]. eapply X; eauto.
    + apply msn_plain. intros t cm bl off len f l ->. cbn in Rm. destruct Rm as (Hlt & _). lia.
Qed.


(* ---- one step, first the abstract state (and HI for the tick of a voter) ---- *)
Lemma step_sim6 g st gm s ev g' r :
  GI g st gm s -> J g s -> ev_okM V st ev = true -> join_ok V g ev = true -> small_evM2 c mf ev = true ->
  ver_okb c g ev = true -> ro_snap_okb g ev = true ->
  gstep c g ev = Some (g', r) ->
  tg_ok2 g gm ev r = true -> snap_ok g (flag_upd V g gm ev r) ev r = true -> san_ok g ev r = true ->
  exists s', kstar s s' /\ GI g' (st_after st ev) (flag_upd V g gm ev r) s' /\
    match ev with
    | ETick n now rnd bud ord sl =>
        forall x, aget n (nodes g) = Some x -> n < RO_BASE ->
                  HI s' (nd (on_tick (mk_env c now rnd bud ord sl) x))
    | _ => True
    end.
Proof.
  intros GG JJ Hev Hnr Hsm Hver Hros Hstep Htg Hsn Hsan.
  assert (Hgen : (match ev with ETick n _ _ _ _ _ => RO_BASE <= n | _ => True end) ->
            exists s', kstar s s' /\ GI g' (st_after st ev) (flag_upd V g gm ev r) s' /\
              match ev with
              | ETick n now rnd bud ord sl =>
                  forall x, aget n (nodes g) = Some x -> n < RO_BASE ->
                            HI s' (nd (on_tick (mk_env c now rnd bud ord sl) x))
              | _ => True
              end).
  { intros Hne.
    destruct (step_sim c mf V NDV SV VNE VRO Hb1 Hdyn Hfd H_on_tick H_ae H_aesnap g st gm s ev g' r GG Hev Hnr Hsm Hver Hros Hstep Htg Hsn Hsan) as (s' & K & G').
    exists s'. split; auto. split; auto. destruct ev; auto. intros x _ Hlt. lia. }
  destruct ev as [n now rnd bud ord sl | | | | | | | | | | ]; try (apply Hgen; exact Logic.I).
  destruct (N.ltb_spec n RO_BASE) as [Hlt|Hge]; [|apply Hgen; exact Hge]. clear Hgen.
  pose proof GG as [G Hg]. pose proof G as [Gs Gr Gd HR RR].
  pose proof Hstep as Hstep0. unfold gstep in Hstep. cbn [st_after].
  destruct (aget n (nodes g)) as [x|] eqn:Hx; [|discriminate].
  injection Hstep as <- <-.
  set (e := mk_env c now rnd bud ord sl) in *.
  destruct (tick_hyps_of_flags c mf V NDV SV VNE VRO Hb1 Hdyn Hfd H_on_tick H_ae H_aesnap g st gm s n now rnd bud ord sl x GG Hx Hlt Htg Hsn Hsan) as [Ht Hs].
  pose proof (LS_start c mf V NDV SV VNE VRO Hb1 g st s e n x HR RR Hx Hlt) as L0.
  destruct (sim6_on_tick c mf V NDV SV VNE VRO Hb1 Hdyn Hfd e eq_refl n x s L0 (J_hist _ _ JJ n x Hx Hlt) Ht Hs)
    as (s' & K & L & H).
  pose proof (ksn_kstar _ _ _ _ K) as KS.
  destruct (spec_tick e x) as (T1 & T2 & T3). cbv zeta in T1, T2, T3.
  assert (G0' : GI0 (finish n (on_tick e x) g) st s').
  { apply (GI_finish c mf V NDV SV VNE VRO Hb1 Hdyn Hfd H_on_tick H_ae H_aesnap g g st s s' n x (on_tick e x) G Hx Hlt eq_refl eq_refl (fun _ _ _ H => H)
             (fun _ _ _ => le_n _) K L T1 T2).
    intros Hr0 Ht0. left. auto. }
  exists s'. split; [exact KS|]. split; [|intros x0 Hx0 _; injection Hx0 as <-; exact H].
  split; [exact G0'|].
  (* the flags, as in RefineM2Main.step_sim *)
  pose proof (GI_R _ _ _ _ _ _ G0') as RR'.
  cbn [flag_upd san_ok]. cbn [san_ok] in Hsan. rewrite Hx in *. rewrite (Hg n x Hx Hlt).
  assert (Hro : RO_BASE <=? n = false) by (apply N.leb_gt; exact Hlt). rewrite Hro in Hsan. cbn [orb] in Hsan.
  apply andb_true_iff in Hsan as [Hs1 Hs2]. apply N.leb_le in Hs1, Hs2.
  set (S1 := on_tick e x) in *.
  assert (Hn1 : aget n (nodes (finish n S1 g)) = Some (nd S1)).
  { rewrite nodes_finish, ProofsElectionBase.aget_aset, N.eqb_refl. reflexivity. }
  apply (Gm_aset c mf V NDV SV VNE VRO Hb1 Hdyn Hfd H_on_tick H_ae H_aesnap g _ st gm _ s s' n (nd S1) G Hg KS (nodes_finish _ _ _)).
  - intros v Hv. rewrite ProofsElectionBase.aget_aset. apply N.eqb_neq in Hv. rewrite Hv. reflexivity.
  - intros _. rewrite ProofsElectionBase.aget_aset, N.eqb_refl. f_equal. symmetry.
    apply (mflag_step c mf V NDV SV VNE VRO Hb1 n x (nd S1) s s' HR KS
             (R_node _ _ _ _ _ _ RR n x Hx Hlt) (R_node _ _ _ _ _ _ RR' n (nd S1) Hn1 Hlt)); auto.
    + apply (H_ac _ _ _ (proj1 (R_hyg _ _ _ _ _ _ RR n x Hx Hlt))).
    + apply (H_ac _ _ _ (proj1 (R_hyg _ _ _ _ _ _ RR' n (nd S1) Hn1 Hlt))).
Qed.


(* ---- one step ---- *)
Theorem step6 g st gm s ev g' r :
  GI g st gm s -> J g s -> ev_okM V st ev = true -> join_ok V g ev = true -> small_evM2 c mf ev = true ->
  ver_okb c g ev = true -> ro_snap_okb g ev = true ->
  gstep c g ev = Some (g', r) ->
  tg_ok2 g gm ev r = true -> snap_ok g (flag_upd V g gm ev r) ev r = true -> san_ok g ev r = true ->
  exists s', kstar s s' /\ GI g' (st_after st ev) (flag_upd V g gm ev r) s' /\ J g' s'.
Proof.
  intros GG JJ Hev Hnr Hsm Hver Hros Hstep Htg Hsn Hsan.
  destruct (step_sim6 g st gm s ev g' r GG JJ Hev Hnr Hsm Hver Hros Hstep Htg Hsn Hsan) as (s' & K & GG' & Htick).
  exists s'. split; auto. split; auto.
  pose proof GG as [G _]. pose proof GG' as [G' _].
  pose proof G as [Gs Gr Gd HR RR]. pose proof G' as [Gs' Gr' Gd' HR' RR'].
  pose proof (J_kstar g s s' HR K JJ) as J0.
  pose proof (R_msg _ _ _ _ _ _ RR') as Hmsg'.
  assert (Hfull : forall v y, aget v (nodes g') = Some y -> v < RO_BASE ->
            exists full, wf1 full /\ suffix_of (log y) full).
  { intros v y Hy Hv. destruct (Rn_full v y s' HR' (R_node _ _ _ _ _ _ RR' v y Hy Hv)) as (full & _ & W & Sx & _). eauto. }
  (* a handler that leaves the user state alone *)
  assert (Hkeep : forall n x (S : Node.S), aget n (nodes g) = Some x -> n < RO_BASE ->
            uview_of S = uview_of (idle_S x) -> HI s' (nd S)).
  { intros n x S Hx Hlt U. destruct (uview_inv _ _ U) as (E1 & E2 & _).
    eapply HI_uview; [exact E1|exact E2|]. apply (J_hist _ _ J0 n x Hx Hlt). }
  destruct ev as [n now rnd bud ord sl | a b now rnd ord | a b | a b k | a b | n cm cb | n cm cb | n cm cb
                 | n | n | n oth now rnd sv]; unfold gstep in Hstep.
  - (* ETick *)
    destruct (aget n (nodes g)) as [x|] eqn:Hx; [|discriminate].
    injection Hstep as <- <-.
    set (e := mk_env c now rnd bud ord sl) in *.
    apply (J_finish g g _ s' n (on_tick e x) J0 eq_refl (fun _ _ _ H => H) eq_refl (fun _ _ _ H => H) Hmsg').
    intros Hlt. pose proof (Htick x eq_refl Hlt) as H. split; [exact H|].
    apply SS_on_tick; [apply (J_node _ _ J0 n x Hx Hlt)|].
    intros sn Hf.
    destruct (Hfull n (nd (on_tick e x))) as (full & W & Sx); auto.
    { rewrite nodes_finish, ProofsElectionBase.aget_aset, N.eqb_refl. reflexivity. }
    eapply SH_of_HI; [apply (proj1 Hf)|eapply fresh_idx; eauto|exact H].
  - (* EDeliver *)
    destruct (aget b (nodes g)) as [x|] eqn:Hx; [|discriminate].
    destruct (chan_get a b g) as [|m rest] eqn:Hch; [discriminate|].
    injection Hstep as <- <-.
    set (e := mk_env c now rnd DEFAULT_BUDGET ord 0) in *.
    assert (Hc1 : forall a' b' m', In m' (chan_get a' b' (chan_set a b rest g)) -> In m' (chan_get a' b' g)).
    { intros a' b' m' Hin. rewrite chan_get_set in Hin.
      destruct ((a' =? a) && (b' =? b)) eqn:E; auto.
      apply andb_true_iff in E as [E1 E2]. apply N.eqb_eq in E1, E2. subst. rewrite Hch. right. exact Hin. }
    apply (J_finish g (chan_set a b rest g) _ s' b (on_message e a m x) J0 eq_refl Hc1 eq_refl (fun _ _ _ H => H) Hmsg').
    intros Hlt.
    assert (HS : SS (SH s') (on_message e a m x)).
    { apply SS_on_message; [apply (J_node _ _ J0 b x Hx Hlt)|].
      apply (J_msg _ _ J0 a b m). rewrite Hch. left. reflexivity. }
    split; [|exact HS].
    destruct (message_state e a m x) as [U|(t & cm & p & sn & _ & _ & Eh & Ea & _ & _ & _ & Est)].
    + apply (Hkeep b x _ Hx Hlt). exact U.
    + eapply HI_of_SH; [exact Eh|exact Ea|].
      destruct HS as [(X & _) _]. apply (X (Good sn) Est).
  - (* EDrop *)
    destruct (aget a (nodes g)) as [x|] eqn:Hx; [|discriminate].
    injection Hstep as <- <-.
    apply (J_finish g g (chan_set b a [] (finish a (idle_S (on_disconnected b x)) g)) s' a (idle_S (on_disconnected b x))
             J0 eq_refl (fun _ _ _ H => H) eq_refl); auto.
    + intros a' b' m' Hin. rewrite chan_get_set in Hin. destruct (_ && _); [destruct Hin|exact Hin].
    + intros Hlt. split.
      * apply (Hkeep a x _ Hx Hlt).
        destruct (other_events_state api_submit (mk_env c 0 0 0 [] 0) (noop_cmd 0) CbNone x b (or_introl eq_refl))
          as (_ & _ & U & _). exact U.
      * apply SS_idle. apply nsn_on_disconnected. apply (J_node _ _ J0 a x Hx Hlt).
  - (* ELose *)
    injection Hstep as <- <-.
    apply (J_shrink g _ s' J0); auto.
    intros a' b' m' Hin. rewrite chan_get_set in Hin. destruct (_ && _) eqn:E; auto.
    apply andb_true_iff in E as [E1 E2]. apply N.eqb_eq in E1, E2. subst.
    eapply In_firstn_in; eauto.
  - (* EConnect *)
    destruct (aget a (nodes g)) as [x|] eqn:Hx; [|discriminate].
    injection Hstep as <- <-.
    match goal with |- context [finish a _ ?G1] => set (g1 := G1) in * end.
    assert (En : nodes g1 = nodes g).
    { subst g1. destruct (match aget b (nodes g) with Some y => negb (smem a (tconn y)) | None => true end); reflexivity. }
    assert (Hc1 : forall a' b' m', In m' (chan_get a' b' g1) -> In m' (chan_get a' b' g)).
    { intros a' b' m' Hin. subst g1.
      destruct (match aget b (nodes g) with Some y => negb (smem a (tconn y)) | None => true end); auto.
      rewrite !chan_get_set in Hin. destruct (_ && _); [destruct Hin|]. destruct (_ && _); [destruct Hin|exact Hin]. }
    apply (J_finish g g1 _ s' a (idle_S (on_connected b x)) J0 En Hc1 eq_refl (fun _ _ _ H => H) Hmsg').
    intros Hlt. split.
    + apply (Hkeep a x _ Hx Hlt).
      destruct (other_events_state api_submit (mk_env c 0 0 0 [] 0) (noop_cmd 0) CbNone x b (or_introl eq_refl))
        as (_ & U & _). exact U.
    + apply SS_idle. apply nsn_on_connected. apply (J_node _ _ J0 a x Hx Hlt).
  - (* ESubmit *)
    destruct (aget n (nodes g)) as [x|] eqn:Hx; [|discriminate].
    injection Hstep as <- <-.
    set (e := mk_env c 0 0 DEFAULT_BUDGET [] 0) in *.
    apply (J_finish g g _ s' n (api_submit e cm (cb_of cb) x) J0 eq_refl (fun _ _ _ H => H) eq_refl (fun _ _ _ H => H) Hmsg').
    intros Hlt. split.
    + apply (Hkeep n x _ Hx Hlt).
      destruct (other_events_state api_submit e cm (cb_of cb) x 0 (or_introl eq_refl)) as (U & _). exact U.
    + apply SS_api_submit. apply (J_node _ _ J0 n x Hx Hlt).
  - (* EAdmin *)
    destruct (aget n (nodes g)) as [x|] eqn:Hx; [|discriminate].
    injection Hstep as <- <-.
    set (e := mk_env c 0 0 DEFAULT_BUDGET [] 0) in *.
    apply (J_finish g g _ s' n (api_admin e cm (cb_of cb) x) J0 eq_refl (fun _ _ _ H => H) eq_refl (fun _ _ _ H => H) Hmsg').
    intros Hlt. split.
    + apply (Hkeep n x _ Hx Hlt).
      destruct (other_events_state api_admin e cm (cb_of cb) x 0 (or_intror (or_introl eq_refl))) as (U & _). exact U.
    + apply SS_api_admin. apply (J_node _ _ J0 n x Hx Hlt).
  - (* ESetVer *)
    destruct (aget n (nodes g)) as [x|] eqn:Hx; [|discriminate].
    injection Hstep as <- <-.
    set (e := mk_env c 0 0 DEFAULT_BUDGET [] 0) in *.
    apply (J_finish g g _ s' n (api_setver e cm (cb_of cb) x) J0 eq_refl (fun _ _ _ H => H) eq_refl (fun _ _ _ H => H) Hmsg').
    intros Hlt. split.
    + apply (Hkeep n x _ Hx Hlt).
      destruct (other_events_state api_setver e cm (cb_of cb) x 0 (or_intror (or_intror eq_refl))) as (U & _). exact U.
    + apply SS_api_setver. apply (J_node _ _ J0 n x Hx Hlt).
  - (* ECompact *)
    destruct (aget n (nodes g)) as [x|] eqn:Hx; [|discriminate].
    injection Hstep as <- <-.
    apply (J_finish g g _ s' n (idle_S (api_compact x)) J0 eq_refl (fun _ _ _ H => H) eq_refl (fun _ _ _ H => H) Hmsg').
    intros Hlt. split.
    + apply (Hkeep n x _ Hx Hlt). reflexivity.
    + apply SS_idle. apply nsn_api_compact. apply (J_node _ _ J0 n x Hx Hlt).
  - (* EKill *)
    injection Hstep as <- <-.
    set (g1 := match aget n (nodes g) with
               | Some x => match disk_of c x with
                           | Some d => g <| disks := aset n d (disks g) |>
                           | None => g <| disks := adel n (disks g) |> end
               | None => g end) in *.
    assert (N1 : nodes g1 = nodes g /\ chan g1 = chan g).
    { subst g1. destruct (aget n (nodes g)); [destruct (disk_of c n0)|]; auto. }
    destruct N1 as [N1 C1].
    apply (J_shrink g _ s' J0).
    + intros v y Hy. cbn in Hy. rewrite N1 in Hy.
      destruct (N.eq_dec v n) as [->|Hne].
      * rewrite ProofsElectionBase.aget_adel_same in Hy; [discriminate|exact Gs].
      * rewrite aget_adel_neq in Hy; auto.
    + intros a' b' m' Hin.
      assert (Hin2 : In m' (chan_get a' b' (g <| chan := filter (fun c0 => negb ((fst (fst c0) =? n) || (snd (fst c0) =? n))) (chan g) |>))).
      { unfold chan_get in *. cbn [chan set] in *. rewrite C1 in Hin. exact Hin. }
      apply chan_get_kill in Hin2. exact Hin2.
  - (* ERestart *)
    injection Hstep as <- <-.
    set (e := mk_env c now rnd DEFAULT_BUDGET [] 0) in *.
    assert (Hnodes : forall x0 v y, aget v (nodes (put_node n x0
                (g <| chan := filter (fun c0 => negb ((fst (fst c0) =? n) || (snd (fst c0) =? n))) (chan g) |>))) = Some y ->
              (v = n /\ y = x0) \/ (v <> n /\ aget v (nodes g) = Some y)).
    { intros x0 v y Hy. unfold put_node in Hy. cbn in Hy. rewrite ProofsElectionBase.aget_aset in Hy.
      destruct (v =? n) eqn:Ev.
      - apply N.eqb_eq in Ev. injection Hy as <-. auto.
      - apply N.eqb_neq in Ev. auto. }
    assert (Hchan : forall x0 a' b' m', In m' (chan_get a' b' (put_node n x0
                (g <| chan := filter (fun c0 => negb ((fst (fst c0) =? n) || (snd (fst c0) =? n))) (chan g) |>))) ->
              In m' (chan_get a' b' g)).
    { intros x0 a' b' m' Hin. unfold put_node in Hin. apply chan_get_kill in Hin. exact Hin. }
    destruct (N.ltb_spec n RO_BASE) as [Hro|Hge].
    + cbn [ev_okM] in Hev. assert (Hlt : n <? RO_BASE = true) by (apply N.ltb_lt; auto). rewrite Hlt in *.
      apply andb_true_iff in Hev as [H2 H3].
      assert (Hnst : ~ In n st).
      { intros Hin. apply smem_In in Hin. rewrite Hin in H2. discriminate. }
      assert (Hle : RO_BASE <=? n = false) by (apply N.leb_gt; exact Hro).
      rewrite Hle in *.
      assert (Hd : aget n (disks g) = None).
      { destruct (aget n (disks g)) as [d|] eqn:E; auto. exfalso. apply Hnst.
        apply ProofsElectionBase.aget_In in E. apply (Gd n d E Hro). }
      rewrite Hd in *.
      set (x0 := init_node e (Some n) oth sv) in *.
      constructor.
      * intros v y Hy Hv. pose proof Hy as Hy0. apply Hnodes in Hy as [[-> ->]|[Hne Hy]]; [|apply (J_hist _ _ J0 v y Hy Hv)].
        apply (HI_init c mf V NDV SV VNE VRO Hb1 s' n x0 HR' (R_node _ _ _ _ _ _ RR' n x0 Hy0 Hv)); reflexivity.
      * intros v y Hy Hv. apply Hnodes in Hy as [[-> ->]|[Hne Hy]]; [|apply (J_node _ _ J0 v y Hy Hv)].
        unfold nsn, srq, x0, init_node. cbn. repeat split; intros; try discriminate. contradiction.
      * intros a' b' m' Hin. apply (J_msg _ _ J0 a' b' m'). eapply Hchan; eauto.
    + assert (Hle : RO_BASE <=? n = true) by (apply N.leb_le; exact Hge).
      rewrite Hle in *.
      constructor.
      * intros v y Hy Hv. apply Hnodes in Hy as [[-> ->]|[Hne Hy]]; [lia|apply (J_hist _ _ J0 v y Hy Hv)].
      * intros v y Hy Hv. apply Hnodes in Hy as [[-> ->]|[Hne Hy]]; [lia|apply (J_node _ _ J0 v y Hy Hv)].
      * intros a' b' m' Hin. apply (J_msg _ _ J0 a' b' m'). eapply Hchan; eauto.
Qed.


End Main6.
