(* Tier C5, part 7: the append_entries handler of a voter whose log may be compacted.
   Regular AppendEntries: the follower's surgery on the suffix it still holds is L0's [merge] on
   the ghost full log.  General forms of the two L0 answers (K_ae_fail / K_ae_ok) that also allow
   the snapshot store of the L1 node to move (used by the snapshot branch in Refine5MsgC). *)
From Coq Require Import ZArith NArith List Bool Lia ZifyBool Arith PeanoNat.
From RecordUpdate Require Import RecordSet.
From PSO Require Import Raft.Types Raft.Node Raft.Net Raft.ProofsCommitBase.
From PSO Require Import Raft.ProofsElectionBase Raft.RefineAbs Raft.RefineK Raft.RefineSpecA Raft.RefineTickA
  Raft.RefineMsgB.
From PSO Require Import Raft.Refine5Abs Raft.Refine5SpecA Raft.Refine5Sim Raft.Refine5TickA Raft.Refine5TickB.
From PSO Require Abstract.Model Abstract.Lib Abstract.Kstep Abstract.Safety1_WF.
Import ListNotations.
Import RecordSetNotations.
Open Scope N_scope.
#[local] Arguments firstn : simpl nomatch.
#[local] Arguments skipn : simpl nomatch.

(* ------------------------------------------------------------------------------------------ *)
(* lists                                                                                      *)

Lemma firstn_skipn_comm' {A} m n (l : list A) : firstn m (skipn n l) = skipn n (firstn (n + m) l).
Proof.
  revert l. induction n as [|n IH]; intros l; [reflexivity|].
  destruct l as [|a l]; [cbn; rewrite firstn_nil; reflexivity|]. cbn [skipn plus firstn]. apply IH.
Qed.

Lemma first_idx_app_firstn (l r : list entry) q :
  l <> [] -> (1 <= q)%nat -> first_idx (firstn q l ++ r) = first_idx l.
Proof. intros Hl Hq. destruct l as [|a l]; [contradiction|]. destruct q; [lia|]. reflexivity. Qed.

Lemma matched_prefix_le old new : (matched_prefix old new <= length old)%nat.
Proof.
  revert new. induction old as [|o old IH]; intros [|n new]; cbn; try lia.
  destruct (eterm o =? eterm n); [|lia]. specialize (IH new). lia.
Qed.

(* the follower's surgery on the suffix it holds is the merge on the full log *)
Lemma suffix_merge l full pidx es :
  wf1 full -> suffix_of l full -> first_idx l <= pidx -> (n2 pidx <= length full)%nat ->
  let ptail := skipn (n2 pidx) full in
  let m := matched_prefix ptail es in
  let tr := truncating (skipn m ptail) (skipn m es) in
  let lg := (if tr then delete_from l (pidx + 1 + N.of_nat m) else l) ++ skipn m es in
  suffix_of lg (firstn (n2 pidx) full ++ l1merge ptail es) /\ first_idx lg = first_idx l.
Proof.
  intros W Sx Hf Hlen. cbv zeta.
  destruct (suffix_base l full W Sx) as (b & E & Hb & Efi).
  pose proof (matched_prefix_le (skipn (n2 pidx) full) es) as Hm. rewrite skipn_length in Hm.
  unfold l1merge.
  set (m := matched_prefix (skipn (n2 pidx) full) es) in *.
  destruct (truncating (skipn m (skipn (n2 pidx) full)) (skipn m es)).
  - unfold delete_from. rewrite Efi.
    destruct (pidx + 1 + N.of_nat m <? N.of_nat b + 1) eqn:E1; [lia|].
    assert (Hq : (b + n2 (pidx + 1 + N.of_nat m - (N.of_nat b + 1)) = n2 pidx + m)%nat) by lia.
    split.
    + exists b. split.
      * rewrite E at 1. rewrite firstn_skipn_comm', Hq. rewrite app_assoc, <- ML.firstn_add.
        rewrite skipn_app.
        assert (Hl : length (firstn (n2 pidx + m) full) = (n2 pidx + m)%nat) by (rewrite firstn_length; lia).
        rewrite Hl. replace (b - (n2 pidx + m))%nat with 0%nat by lia. reflexivity.
      * rewrite !app_length, firstn_length. lia.
    + rewrite <- Efi. apply first_idx_app_firstn; [eapply suffix_ne; eauto|rewrite Efi; lia].
  - split.
    + rewrite app_assoc, firstn_skipn. apply suffix_apps. exact Sx.
    + destruct l; [exfalso; eapply suffix_ne; eauto|reflexivity].
Qed.

Lemma committed_tb s Tb Tb' l k : (Tb <= Tb')%nat -> S7.committed_upto s Tb l k -> S7.committed_upto s Tb' l k.
Proof.
  intros Hle (A & T0 & p0 & B & C & D & E). split; auto. exists T0, p0. repeat split; auto. lia.
Qed.

(* the fields the node relation reads, without the serializer *)
Definition fx (x : node) := (self x, others x, role x, term x, voted x, log x, commit x, match_idx x).

Lemma fx_eq x y : fx x = fx y ->
  self x = self y /\ others x = others y /\ role x = role y /\ term x = term y /\ voted x = voted y /\
  log x = log y /\ commit x = commit y /\ match_idx x = match_idx y.
Proof. unfold fx. intros H. repeat split; congruence. Qed.

Lemma fv_fx x y : fv x = fv y -> fx x = fx y.
Proof. intros H. fvinj H. unfold fx. congruence. Qed.

Ltac fxinj_n H p :=
  let h := fresh "Hfx" in
  let a1 := fresh p "self" in let a2 := fresh p "oth" in let a3 := fresh p "role" in
  let a4 := fresh p "term" in let a5 := fresh p "voted" in
  let a7 := fresh p "log" in let a8 := fresh p "commit" in let a9 := fresh p "match" in
  pose proof (fx_eq _ _ H) as h; cbn in h;
  destruct h as (a1 & a2 & a3 & a4 & a5 & a7 & a8 & a9).

Section Msg.
Variable c : conf.
Variable V : list nid.
Hypothesis NDV : NoDup V.
Hypothesis VRO : forall v, In v V -> v < RO_BASE.
Hypothesis VNE : V <> [].
Hypothesis Hb1 : 1 < batch c.
Hypothesis Hdyn : dyn c = false.
Variable e : env.
Hypothesis Hc : cf e = c.
Set Default Proof Using "All".

Notation V' := (absV V).
Notation Rn := (Rn c V).
Notation Rmsg := (Rmsg c).
Notation Ro := (Ro c).
Notation Hn := (Hn c).
Notation ksn := (ksn V).
Notation kstar := (kstar V).
Notation LS := (LS c V).
Notation pk := (pk c).
Notation held := (held c).
Notation blob_valid := (blob_valid c).
Notation okout := (okout c).
Notation LS_ksn := (LS_ksn c V NDV VRO VNE Hb1).
Notation LS_full := (LS_full c V NDV VRO VNE Hb1).
Notation LS_j := (LS_j c V NDV VRO VNE Hb1).
Notation Hn_hv := (Hn_hv c V NDV VRO VNE Hb1).
Notation held_le := (held_le c V NDV VRO VNE Hb1).
Notation grow_Ro := (grow_Ro c V NDV VRO VNE Hb1 Hdyn e Hc).
Notation nosend_okout := (nosend_okout c V NDV VRO VNE Hb1 Hdyn e Hc).

(* what may happen to the snapshot store of the L1 node during a handler *)
Definition blobs_ok (x x' : node) (s : M.state) : Prop :=
  (forall bl, stored (sr x') = Some bl -> stored (sr x) = Some bl \/ held x' s bl) /\
  tr_ok x x' /\
  (forall ps bl o l, incoming (sr x') = Some ps -> In (bl, o, l) ps ->
     (exists ps0, incoming (sr x) = Some ps0 /\ In (bl, o, l) ps0) \/ blob_valid s (n2 (term x')) bl).

Lemma blobs_ok_same x x' s : sr x' = sr x -> blobs_ok x x' s.
Proof.
  intros E. split; [|split].
  - intros bl H. left. congruence.
  - apply tr_ok_same. congruence.
  - intros ps bl o l H1 H2. left. exists ps. split; [congruence|auto].
Qed.

Lemma Rn_intro2 n x x' s s' :
  KS.kreachable V' s -> kstar s s' -> Rn n x s -> blobs_ok x x' s ->
  term x <= term x' ->
  M.term (M.nodes s' (n2 n)) = n2 (term x') ->
  M.voted (M.nodes s' (n2 n)) = option_map n2 (voted x') ->
  M.rl (M.nodes s' (n2 n)) = absR (role x') ->
  (exists full, M.log (M.nodes s' (n2 n)) = absL pk full /\ suffix_of (log x') full) ->
  M.commit (M.nodes s' (n2 n)) = n2 (commit x') ->
  (role x' = CANDIDATE ->
     length (M.votesFrom (M.nodes s' (n2 n))) = n2 (votes x') /\ In (n2 n) (M.votesFrom (M.nodes s' (n2 n)))) ->
  (forall f m, In f V -> f <> n -> aget f (match_idx x') = Some m ->
     (n2 m <= M.matchIdx (M.nodes s' (n2 n)) (n2 f))%nat) ->
  (voted x' = Some n -> In (n2 (term x'), n2 n, n2 n) (M.grants s')) ->
  S7.committed_upto s' (n2 (term x')) (M.log (M.nodes s' (n2 n))) (n2 (applied x')) ->
  Rn n x' s'.
Proof.
  intros HR K [A1 A2 A3 A4 A5 A6 A7 A8 A9 A10 A11 A12] (Bs & Bt & Bi) Hcm B1 B2 B3 B4 B5 B6 B7 B8 B9.
  constructor; auto.
  - intros bl Hb. destruct (Bs bl Hb) as [H|H].
    + eapply held_le; [exact Hcm|]. eapply held_kstar; eauto.
    + eapply held_kstar; eauto.
  - intros d bl off Hb. eapply held_le; [exact Hcm|]. eapply held_kstar; eauto.
    destruct (Bt d bl off Hb) as [H1|(d' & off' & H1)]; eauto.
  - intros ps bl o l Hi Hb. destruct (Bi ps bl o l Hi Hb) as [(ps0 & H1 & H2)|H].
    + eapply blob_valid_le; [|eapply blob_valid_kstar; eauto]. lia.
    + eapply blob_valid_kstar; eauto.
Qed.

(* adopt the sender's term when it is higher; the role is settled by the following step *)
Lemma sim_ae_adopt n S s t :
  LS n s S -> term (nd S) <= t ->
  exists s1, ksn (n2 n) s s1 /\ KS.kreachable V' s1 /\
    M.term (M.nodes s1 (n2 n)) = n2 t /\
    M.voted (M.nodes s1 (n2 n)) = option_map n2 (if term (nd S) <? t then None else voted (nd S)) /\
    M.log (M.nodes s1 (n2 n)) = M.log (M.nodes s (n2 n)) /\
    M.commit (M.nodes s1 (n2 n)) = M.commit (M.nodes s (n2 n)) /\
    M.matchIdx (M.nodes s1 (n2 n)) = M.matchIdx (M.nodes s (n2 n)) /\
    M.net s1 = M.net s /\ M.grants s1 = M.grants s.
Proof.
  intros L Ht.
  pose proof (LS_n _ _ _ _ _ L) as RN. pose proof (LS_j _ _ _ L) as Hj.
  pose proof (Rn_term _ _ _ _ _ RN) as A1. pose proof (Rn_voted _ _ _ _ _ RN) as A2.
  destruct (term (nd S) <? t) eqn:E.
  - apply N.ltb_lt in E.
    assert (Hlt : (M.term (M.nodes s (n2 n)) < n2 t)%nat) by (rewrite A1; lia).
    destruct (t_adopt_ok V' (n2 n) (n2 t) s Hj Hlt) as [K E1].
    exists (t_adopt (n2 n) (n2 t) s). split; [apply ksn_one; auto|].
    split; [eapply KS.kreach_step; [apply (LS_reach _ _ _ _ _ L)|exact K]|].
    unfold t_adopt, M.set_node, M.bump. cbn [M.nodes M.net M.grants]. rewrite upd_eq. cbn. auto 10.
  - apply N.ltb_ge in E. exists s. split; [constructor|]. split; [apply (LS_reach _ _ _ _ _ L)|].
    rewrite A1, A2. repeat split; auto. f_equal. lia.
Qed.

(* (RefineMsgB.es_last_idx) *)
Lemma es_last_idx4 s t a pidx pterm es cm :
  KS.kreachable V' s ->
  In (M.AppendEntries (n2 t) (n2 a) (n2 pidx) (n2 pterm) (absL pk es) (n2 cm)) (M.net s) ->
  match last_entry es with Some le => eidx le + 1 | None => pidx + 1 end - 1 = pidx + N.of_nat (length es).
Proof.
  intros HR Hin. pose proof (S1.inv1_kreachable V' s HR) as I1.
  pose proof (S1.I1_msg _ I1 _ _ _ _ _ _ Hin) as Hes.
  destruct (last_entry es) as [le|] eqn:El.
  - apply last_entry_nth in El.
    specialize (Hes (length es - 1)%nat (absE pk le)). rewrite absL_nth, El in Hes.
    destruct (Hes eq_refl) as [H1 _]. cbn in H1.
    assert (length es <> 0)%nat by (destruct es; [discriminate|cbn; lia]). lia.
  - destruct es as [|x es]; [cbn; lia|]. rewrite (last_entry_last (x :: es) x) in El by discriminate. discriminate.
Qed.

(* the refusing answer, in general *)
Lemma sim_ae_fail n a (S S' : Node.S) s t :
  LS n s S -> some_ae t a s -> a <> n -> term (nd S) <= t ->
  fx (nd S') = fx ((nd S) <| term := if term (nd S) <? t then t else term (nd S) |>
                           <| voted := if term (nd S) <? t then None else voted (nd S) |>
                           <| role := FOLLOWER |>) ->
  applied (nd S') = applied (nd S) ->
  blobs_ok (nd S) (nd S') s -> Hn (nd S') ->
  grow (is_fail_reply a) S S' ->
  exists s', ksn (n2 n) s s' /\ LS n s' S'.
Proof.
  intros L (pi & pt & es & lc & Hae) Hne Ht F Fap B HN G.
  destruct (sim_ae_adopt n S s t L Ht) as (s1 & K1 & R1 & B1 & B2 & B3 & B4 & B5 & B6 & B7).
  pose proof (LS_n _ _ _ _ _ L) as RN. pose proof (LS_j _ _ _ L) as Hj.
  assert (Hin : In (M.AppendEntries (n2 t) (n2 a) pi pt es lc) (M.net s1)) by (rewrite B6; exact Hae).
  assert (Hnj : n2 n <> n2 a) by lia.
  destruct (t_ae_fail_ok V' (n2 n) (n2 t) (n2 a) pi pt es lc s1 Hj Hin Hnj B1) as [K2 E2].
  set (s2 := M.ae_fail (n2 n) (n2 t) s1) in *.
  assert (K : ksn (n2 n) s s2) by (eapply ksn_trans; [exact K1|apply ksn_one; auto]).
  exists s2. split; [exact K|].
  fxinj_n F F.
  assert (Hterm : term (nd S) <= term (nd S')).
  { rewrite Fterm. destruct (term (nd S) <? t) eqn:E; lia. }
  assert (HA : S7.committed_upto s2 (n2 (term (nd S'))) (M.log (M.nodes s2 (n2 n))) (n2 (applied (nd S')))).
  { apply (applied_same c V NDV VRO VNE Hb1 n (nd S) (nd S') s s2);
      [apply (LS_reach _ _ _ _ _ L)|eapply ksn_kstar; exact K|exact RN|exact Hterm|exact Fap|].
    unfold s2, M.ae_fail. cbn [M.nodes]. rewrite upd_eq. cbn [M.log]. exact B3. }
  apply (LS_ksn n s s2 S S' K L).
  - eapply Rn_intro2;
      [apply (LS_reach _ _ _ _ _ L)|eapply ksn_kstar; exact K|exact RN|exact B|exact Hterm|..|exact HA];
      unfold s2, M.ae_fail; cbn [M.nodes M.grants]; rewrite ?upd_eq;
      cbn [M.term M.voted M.rl M.log M.commit M.votesFrom M.matchIdx].
    + rewrite Fterm, B1. destruct (term (nd S) <? t) eqn:E; [reflexivity|]. apply N.ltb_ge in E. f_equal. lia.
    + rewrite Fvoted, B2. reflexivity.
    + rewrite Frole. reflexivity.
    + rewrite Flog, B3. apply (Rn_log _ _ _ _ _ RN).
    + rewrite Fcommit, B4. apply (Rn_commit _ _ _ _ _ RN).
    + intros Hx. rewrite Frole in Hx. compute in Hx. discriminate.
    + intros f m Hf Hnf Hg. rewrite Fmatch in Hg. rewrite B5. eapply (Rn_match _ _ _ _ _ RN); eauto.
    + intros Hv. rewrite Fvoted in Hv. rewrite B7. rewrite Fterm.
      destruct (term (nd S) <? t); [discriminate|]. apply (Rn_self _ _ _ _ _ RN). exact Hv.
  - exact HN.
  - rewrite Fself. apply (LS_self _ _ _ _ _ L).
  - rewrite Foth. apply (LS_others _ _ _ _ _ L).
  - apply (grow_Ro (is_fail_reply a)); [|exact G].
    intros o [Ho|(t' & nx & r & ->)]; [apply nosend_okout; auto|]. cbn. intros Hx. discriminate.
Qed.

(* the accepting answer, in general: [full'] is the merge on the ghost full log *)
Lemma sim_ae_ok n a (S S' : Node.S) s t cm pidx pterm es p0 full full' cmt nx :
  LS n s S -> a <> n -> a < RO_BASE -> term (nd S) <= t ->
  M.log (M.nodes s (n2 n)) = absL pk full ->
  In (M.AppendEntries (n2 t) (n2 a) (n2 pidx) (n2 pterm) (absL pk es) (n2 cm)) (M.net s) ->
  1 <= pidx ->
  nth_error full (n2 pidx - 1) = Some p0 -> eterm p0 = pterm ->
  full' = firstn (n2 pidx) full ++ l1merge (skipn (n2 pidx) full) es ->
  suffix_of (log (nd S')) full' ->
  cmt = (if commit (nd S) <? cm then N.max (commit (nd S)) (N.min cm (nx - 1)) else commit (nd S)) ->
  nx - 1 = pidx + N.of_nat (length es) ->
  fx (nd S') = fx ((nd S) <| term := if term (nd S) <? t then t else term (nd S) |>
                           <| voted := if term (nd S) <? t then None else voted (nd S) |>
                           <| role := FOLLOWER |> <| log := log (nd S') |> <| commit := cmt |>) ->
  (S7.committed_upto s (n2 t) (M.log (M.nodes s (n2 n))) (n2 (applied (nd S'))) \/
   ((n2 (applied (nd S')) <= n2 pidx + length es)%nat /\
    exists l0, S7.committed_upto s (n2 t) l0 (n2 (applied (nd S'))))) ->
  blobs_ok (nd S) (nd S') s -> Hn (nd S') ->
  grow (fun o => nosend o \/ o = Send a (NextIdx t nx false true)) S S' ->
  exists s', ksn (n2 n) s s' /\ LS n s' S'.
Proof.
  intros L Hne Ha Ht EL Hae Hp1 Hp0 Hpt Efull Sx' Ecmt Enx F Hap B HN G.
  destruct (sim_ae_adopt n S s t L Ht) as (s1 & K1 & R1 & B1 & B2 & B3 & B4 & B5 & B6 & B7).
  pose proof (LS_n _ _ _ _ _ L) as RN. pose proof (LS_j _ _ _ L) as Hj.
  assert (Hpi : n2 pidx = Sn (n2 pidx - 1)) by lia.
  assert (Hin : In (M.AppendEntries (n2 t) (n2 a) (Sn (n2 pidx - 1)) (n2 pterm) (absL pk es) (n2 cm)) (M.net s1)).
  { rewrite B6, <- Hpi. exact Hae. }
  assert (Hnj : n2 n <> n2 a) by lia.
  assert (Hpe : nth_error (M.log (M.nodes s1 (n2 n))) (n2 pidx - 1) = Some (absE pk p0)).
  { rewrite B3, EL, absL_nth, Hp0. reflexivity. }
  assert (Hpte : M.eterm (absE pk p0) = n2 pterm) by (cbn; rewrite Hpt; reflexivity).
  destruct (t_ae_ok_ok V' (n2 n) (n2 t) (n2 a) (n2 pidx - 1) (n2 pterm) (absL pk es) (n2 cm) (absE pk p0) s1
              Hj Hin Hnj B1 Hpe Hpte) as [K2 E2].
  set (s2 := M.ae_ok (n2 n) (n2 t) (Sn (n2 pidx - 1)) (absL pk es) (n2 cm) s1) in *.
  assert (K : ksn (n2 n) s s2) by (eapply ksn_trans; [exact K1|apply ksn_one; auto]).
  exists s2. split; [exact K|].
  fxinj_n F F.
  assert (Hterm : term (nd S) <= term (nd S')).
  { rewrite Fterm. destruct (term (nd S) <? t) eqn:E; lia. }
  assert (Et' : n2 (term (nd S')) = n2 t).
  { rewrite Fterm. destruct (term (nd S) <? t) eqn:E; [reflexivity|]. apply N.ltb_ge in E. f_equal. lia. }
  (* the applied prefix stays / becomes a committed prefix of the merged log *)
  assert (HA : S7.committed_upto s2 (n2 (term (nd S'))) (M.log (M.nodes s2 (n2 n))) (n2 (applied (nd S')))).
  { set (a' := n2 (applied (nd S'))) in *. rewrite Et'.
    pose proof (LS_reach _ _ _ _ _ L) as HR. pose proof (ksn_kstar _ _ _ _ K1) as KS1.
    pose proof (S2.inv2_kreachable V' s1 R1) as I2. pose proof (S3.inv3_kreachable V' s1 R1) as I3.
    pose proof (S4.inv4_kreachable V' s1 R1) as I4.
    pose proof (S6.inv6_kreachable V' (V'_nodup c V NDV VRO VNE Hb1) (V'_ne c V NDV VRO VNE Hb1) s1 R1) as I6.
    destruct (S4.ae_ok_facts s1 (n2 n) (n2 t) (n2 a) (n2 pidx - 1) (n2 pterm) (absL pk es) (n2 cm) (absE pk p0)
                I3 I4 Hin Hpe Hpte) as (M1 & Fp & Hl1 & Wd).
    destruct (S3.I3_ae _ I3 _ _ _ _ _ _ Hin) as ([Q HQ] & _).
    set (l := M.log (M.nodes s1 (n2 n))) in *. set (Lt := M.llog s1 (n2 t)) in *.
    set (l' := firstn (Sn (n2 pidx - 1)) l ++ M.merge (skipn (Sn (n2 pidx - 1)) l) (absL pk es)).
    assert (El' : M.log (M.nodes s2 (n2 n)) = l').
    { unfold s2, M.ae_ok. cbn [M.nodes]. rewrite upd_eq. cbn [M.log]. reflexivity. }
    assert (Hgoal : forall l0, S7.committed_upto s1 (n2 t) l0 a' ->
              (a' <= length l')%nat -> firstn a' l' = firstn a' Lt -> S7.committed_upto s2 (n2 t) l' a').
    { intros l0 C0 Hlen Hfl.
      pose proof (S7.committed_in_leader V' s1 _ _ _ _ _ Q I2 I4 I6 C0 HQ (Nat.le_refl _)) as F0. fold Lt in F0.
      destruct C0 as (A0 & T0 & p1 & D1 & D2 & D3 & D4).
      split; [exact Hlen|]. exists T0, p1. unfold s2, M.ae_ok. cbn [M.direct M.llog].
      repeat split; auto. congruence. }
    rewrite El'.
    destruct Hap as [C|(Hle & l0 & C)].
    - pose proof (committed_star V _ _ _ _ _ HR KS1 C) as C1. rewrite <- B3 in C1. fold l in C1.
      pose proof (S7.committed_in_leader V' s1 _ _ _ _ _ Q I2 I4 I6 C1 HQ (Nat.le_refl _)) as F0. fold Lt in F0.
      destruct C1 as (A0 & _).
      destruct (S4.ae_result_keeps l Lt (n2 pidx - 1) (absL pk es) a' M1 Fp Hl1 Wd A0 F0) as [K3 K4].
      apply (Hgoal l); auto. split; auto. destruct (committed_star V _ _ _ _ _ HR KS1 C) as (_ & X).
      rewrite <- B3 in X. exact X.
    - pose proof (committed_star V _ _ _ _ _ HR KS1 C) as C1.
      destruct (S4.ae_result_prefix l Lt (n2 pidx - 1) (absL pk es) M1 Fp Hl1 Wd) as [K3 K4].
      rewrite absL_length in K3, K4.
      apply (Hgoal l0); auto; [fold l' in K3; lia|].
      eapply ML.firstn_le_eq; [|exact K4]. lia. }
  apply (LS_ksn n s s2 S S' K L).
  - eapply Rn_intro2;
      [apply (LS_reach _ _ _ _ _ L)|eapply ksn_kstar; exact K|exact RN|exact B|exact Hterm|..|exact HA];
      unfold s2, M.ae_ok; cbn [M.nodes M.grants]; rewrite ?upd_eq;
      cbn [M.term M.voted M.rl M.log M.commit M.votesFrom M.matchIdx].
    + rewrite Fterm, B1. destruct (term (nd S) <? t) eqn:E; [reflexivity|]. apply N.ltb_ge in E. f_equal. lia.
    + rewrite Fvoted, B2. reflexivity.
    + rewrite Frole. reflexivity.
    + exists full'. split; [|exact Sx'].
      rewrite Efull, B3, EL, <- Hpi. rewrite absL_app, absL_firstn. f_equal.
      rewrite <- absL_skipn. apply merge_abs.
    + rewrite Fcommit, Ecmt, B4, (Rn_commit _ _ _ _ _ RN). rewrite absL_length, <- Hpi.
      destruct (commit (nd S) <? cm) eqn:E; [apply N.ltb_lt in E|apply N.ltb_ge in E]; lia.
    + intros Hx. rewrite Frole in Hx. compute in Hx. discriminate.
    + intros f m Hf Hnf Hg. rewrite Fmatch in Hg. rewrite B5. eapply (Rn_match _ _ _ _ _ RN); eauto.
    + intros Hv. rewrite Fvoted in Hv. rewrite B7. rewrite Fterm.
      destruct (term (nd S) <? t); [discriminate|]. apply (Rn_self _ _ _ _ _ RN). exact Hv.
  - exact HN.
  - rewrite Fself. apply (LS_self _ _ _ _ _ L).
  - rewrite Foth. apply (LS_others _ _ _ _ _ L).
  - apply (grow_Ro (fun o => nosend o \/ o = Send a (NextIdx t nx false true))); [|exact G].
    intros o [Ho| ->]; [apply nosend_okout; auto|]. cbn. intros _ _.
    unfold s2, M.ae_ok. cbn [M.net]. left. rewrite absL_length. f_equal. lia.
Qed.

(* ---- a regular AppendEntries (also: the entry reassembled from pieces) ---- *)
Lemma sim_ae_regular n a (S0 S1 : Node.S) s t cm prev es :
  LS n s S0 -> term (nd S0) <= t ->
  fv (nd S1) = fv ((nd S0) <| term := if term (nd S0) <? t then t else term (nd S0) |>
                           <| voted := if term (nd S0) <? t then None else voted (nd S0) |>
                           <| role := FOLLOWER |>) ->
  grow nosend S0 S1 -> Rmsg a n (AE t cm prev es) s ->
  exists s', ksn (n2 n) s s' /\ LS n s' (ae_regular e a cm prev es S1).
Proof.
  intros L Et F1 G1 Hm.
  destruct (LS_full _ _ _ L) as (full & EL & W & Sx).
  pose proof (LS_h _ _ _ _ _ L) as HN0.
  assert (Hd : dyn (cf e) = false) by (rewrite Hc; exact Hdyn).
  fvinj_n F1 P.
  assert (Hlog1 : log (nd S1) = log (nd S0)) by exact Plog.
  (* failing branches *)
  assert (Hfail : forall S', nd S' = nd S1 -> grow (is_fail_reply a) S1 S' -> some_ae t a s -> a <> n ->
                  exists s', ksn (n2 n) s s' /\ LS n s' S').
  { intros S' En G Hs Hne. apply (sim_ae_fail n a S0 S' s t); auto.
    - rewrite En. apply fv_fx. exact F1.
    - rewrite En. exact Papplied.
    - apply blobs_ok_same. rewrite En. exact Psr.
    - eapply Hn_hv; [|exact HN0]. rewrite En. unfold hv, srv.
      rewrite Plog, Pqueue, Preplay, Papplied, Pro, Pcommit, Psr. reflexivity.
    - eapply grow_trans; [|exact G]. eapply grow_mono; [|exact G1]. intros o Ho. left. exact Ho. }
  destruct prev as [[pidx pterm]|].
  2:{ destruct Hm as (Ha & Hne & Hs).
      destruct (ae_regular_fail_none e a cm es S1) as [En G]. apply Hfail; auto. }
  destruct Hm as (Ha & Hne & Hsm & Hin).
  assert (Hs : some_ae t a s) by (unfold some_ae; eauto).
  destruct (N.ltb_spec pidx (first_idx (log (nd S0)))) as [Hlt|Hge0].
  { destruct (ae_regular_fail_empty e a cm pidx pterm es S1) as [En G];
      [rewrite Hlog1; apply suffix_lt; exact Hlt|].
    apply Hfail; auto. }
  pose proof (suffix_first_pos _ _ W Sx) as Hfp.
  assert (Hp1 : 1 <= pidx) by lia.
  assert (Hge : get_entries (log (nd S1)) (Some pidx) None None = skipn (n2 pidx - 1) full).
  { rewrite Hlog1, (suffix_ge _ _ W Sx) by exact Hge0. apply ge_from; auto. }
  destruct (nth_error full (n2 pidx - 1)) as [p0|] eqn:Ep.
  2:{ destruct (ae_regular_fail_empty e a cm pidx pterm es S1) as [En G].
      - rewrite Hge. apply skipn_all2. apply nth_error_None. exact Ep.
      - apply Hfail; auto. }
  rewrite (skipn_nth_cons _ _ _ Ep) in Hge. replace (Sn (n2 pidx - 1)) with (n2 pidx) in Hge by lia.
  destruct (N.eq_dec (eterm p0) pterm) as [Hpt|Hpt].
  2:{ destruct (ae_regular_fail_term e a cm pidx pterm es S1 p0 _ Hge Hpt) as [En G]. apply Hfail; auto. }
  (* the accepting branch *)
  destruct (ae_regular_succ e Hd a cm pidx pterm es S1 p0 _ Hge Hpt) as [F2 G2]. cbv zeta in F2, G2.
  set (S2 := ae_regular e a cm (Some (pidx, pterm)) es S1) in *. clearbody S2.
  assert (Hlen : (n2 pidx <= length full)%nat).
  { assert (n2 pidx - 1 < length full)%nat by (apply nth_error_Some; congruence). lia. }
  destruct (suffix_merge (log (nd S0)) full pidx es W Sx Hge0 Hlen) as [Sx' Hfi']. cbv zeta in Sx', Hfi'.
  set (ptail := skipn (n2 pidx) full) in *.
  set (m := matched_prefix ptail es) in *.
  set (nx := match last_entry es with Some le => eidx le + 1 | None => pidx + 1 end) in *.
  set (tr := truncating (skipn m ptail) (skipn m es)) in *.
  rewrite Hlog1 in F2.
  set (lg := (if tr then delete_from (log (nd S0)) (pidx + 1 + N.of_nat m) else log (nd S0)) ++ skipn m es) in *.
  set (cmt := if commit (nd S0) <? cm then N.max (commit (nd S0)) (N.min cm (nx - 1)) else commit (nd S0)).
  fvinj_n F2 Q.
  assert (Hnx : nx - 1 = pidx + N.of_nat (length es)).
  { apply (es_last_idx4 s t a pidx pterm es cm); auto. apply (LS_reach _ _ _ _ _ L). }
  assert (G3 : grow (fun o => nosend o \/ o = Send a (NextIdx t nx false true)) S0 S2).
  { eapply grow_trans; [eapply grow_mono; [|exact G1]; intros o Ho; left; exact Ho|].
    eapply grow_mono; [|exact G2]. intros o ->. right. rewrite Pterm.
    destruct (term (nd S0) <? t) eqn:E; [reflexivity|]. apply N.ltb_ge in E. f_equal. f_equal. lia. }
  apply (sim_ae_ok n a S0 S2 s t cm pidx pterm es p0 full
           (firstn (n2 pidx) full ++ l1merge ptail es) cmt nx); auto.
  - rewrite Qlog. exact Sx'.
  - unfold fx. rewrite Qself, Qoth, Qrole, Qterm, Qvoted, Qcommit, Qmatch.
    rewrite Pself, Poth, Prole, Pterm, Pvoted, Pcommit, Pmatch. reflexivity.
  - left. rewrite Qapplied, Papplied. eapply committed_tb; [|apply (Rn_applied _ _ _ _ _ (LS_n _ _ _ _ _ L))]. lia.
  - apply blobs_ok_same. rewrite Qsr. exact Psr.
  - destruct HN0 as [C1 C2 C3 C4 C6 C7 C8 C9].
    constructor; rewrite ?Qlog, ?Qqueue, ?Qreplay, ?Qapplied, ?Qro, ?Qcommit, ?Qsr,
      ?Pqueue, ?Preplay, ?Papplied, ?Pro, ?Pcommit, ?Psr; auto.
    + unfold lg. apply Forall_app. split; [|apply Forall_skipn; exact Hsm].
      destruct tr; [|exact C1]. unfold delete_from.
      destruct (pidx + 1 + N.of_nat m <? first_idx (log (nd S0))); [exact C1|apply Forall_firstn; exact C1].
    + destruct tr; lia.
    + rewrite Hfi'. exact C6.
Qed.

Lemma sim_msg_ae n a x s t cm prev es :
  LS n s (start_S e x) -> Rmsg a n (AE t cm prev es) s ->
  exists s', ksn (n2 n) s s' /\ LS n s' (on_message e a (AE t cm prev es) x).
Proof.
  intros L Hm. unfold on_message. set (S0 := start_S e x) in *.
  rewrite on_append_entries_eq.
  destruct (t <? term (nd S0)) eqn:Et; [exists s; split; [constructor|exact L]|].
  apply N.ltb_ge in Et.
  destruct (ae_pre_spec e a t cm S0) as [F1 G1].
  cbn [ae_body_of]. clearbody S0. apply (sim_ae_regular n a S0 _ s t cm prev es); auto.
Qed.

(* ---- pieces of a large entry ---- *)
Lemma pieces_ok_last en ps e' o l : forall off,
  pieces_ok en off (ps ++ [(e', o, l)]) = true -> entry_eqb en e' = true.
Proof.
  induction ps as [|[[e1 o1] l1] ps IH]; intros off H; cbn in H.
  - apply andb_prop in H as [H _]. apply andb_prop in H as [H _]. exact H.
  - apply andb_prop in H as [_ H]. eapply IH; eauto.
Qed.

(* the buffered pieces are entries of the abstract system *)
Definition recv_ok (s : M.state) (x : node) : Prop :=
  forall en o l, In (en, o, l) (recv_t x) -> legit c s en.

Lemma recv_ok_kstar s s' x : KS.kreachable V' s -> kstar s s' -> recv_ok s x -> recv_ok s' x.
Proof. intros HR K H en o l Hin. eapply legit_kstar; eauto. Qed.

Lemma recv_ok_eq s x y : recv_t y = recv_t x -> recv_ok s x -> recv_ok s y.
Proof. intros E H en o l Hin. rewrite E in Hin. eauto. Qed.

Lemma sim_msg_aepiece n a x s t cm prev lab off len en :
  LS n s (start_S e x) -> Rmsg a n (AEPiece t cm prev lab off len en) s -> recv_ok s x ->
  exists s', ksn (n2 n) s s' /\ LS n s' (on_message e a (AEPiece t cm prev lab off len en) x) /\
             recv_ok s' (nd (on_message e a (AEPiece t cm prev lab off len en) x)).
Proof.
  intros L Hm Hrv. unfold on_message. set (S0 := start_S e x) in *.
  rewrite on_append_entries_eq.
  destruct (t <? term (nd S0)) eqn:Et; [exists s; split; [constructor|split; [exact L|exact Hrv]]|].
  apply N.ltb_ge in Et.
  destruct (ae_pre_spec e a t cm S0) as [F1 G1].
  assert (Er : recv_t (nd (ae_pre e a t cm S0)) = recv_t (nd S0)).
  { apply (fr_ae_pre0 recv_t); intros; reflexivity. }
  set (S1 := ae_pre e a t cm S0) in *. clearbody S1.
  assert (Hrv0 : recv_ok s (nd S0)) by exact Hrv. clearbody S0. clear Hrv.
  pose proof (LS_h _ _ _ _ _ L) as HN0. pose proof (LS_reach _ _ _ _ _ L) as HR.
  destruct Hm as (Ha & Hne & Hs & Hlg & Himg).
  fvinj_n F1 P.
  (* refusing outcomes: same node up to recv_t, at most an unsuccessful NextIdx *)
  assert (Hfail : forall S', fv (nd S') = fv (nd S1) -> grow (is_fail_reply a) S1 S' ->
                  (forall en0 o l, In (en0, o, l) (recv_t (nd S')) -> In (en0, o, l) (recv_t (nd S1)) \/ en0 = en) ->
                  exists s', ksn (n2 n) s s' /\ LS n s' S' /\ recv_ok s' (nd S')).
  { intros S' F G Hin.
    assert (X : exists s', ksn (n2 n) s s' /\ LS n s' S').
    { apply (sim_ae_fail n a S0 S' s t); auto.
      - apply fv_fx. rewrite F. exact F1.
      - fvinj_n F Q. rewrite Qapplied. exact Papplied.
      - apply blobs_ok_same. fvinj_n F Q. rewrite Qsr. exact Psr.
      - eapply Hn_hv; [|exact HN0]. rewrite (fv_hv _ _ F). unfold hv, srv.
        rewrite Plog, Pqueue, Preplay, Papplied, Pro, Pcommit, Psr. reflexivity.
      - eapply grow_trans; [|exact G]. eapply grow_mono; [|exact G1]. intros o Ho. left. exact Ho. }
    destruct X as (s' & K & L'). exists s'. split; auto. split; auto.
    intros en0 o l Hi. destruct (Hin en0 o l Hi) as [Hi'| ->].
    - rewrite Er in Hi'. eapply legit_kstar; [exact HR|eapply ksn_kstar; exact K|]. eapply Hrv0; eauto.
    - eapply legit_kstar; [exact HR|eapply ksn_kstar; exact K|exact Hlg]. }
  cbn [ae_body_of].
  destruct (lab =? 1).
  { apply Hfail.
    - rewrite nd_send_next_idx, nd_upd. reflexivity.
    - eapply grow_trans; [apply grow_upd|]. apply grow_send_next_idx_fail.
    - intros en0 o l Hi. rewrite nd_send_next_idx, nd_upd in Hi. cbn in Hi. destruct Hi as [Hi|[]].
      injection Hi as <- _ _. right. reflexivity. }
  destruct (recv_t (nd S1)) as [|r0 rs] eqn:Ert.
  { apply Hfail; [reflexivity|apply grow_eq; reflexivity|]. intros en0 o l Hi. cbn in Hi. rewrite Ert in Hi. destruct Hi. }
  set (S2 := upd (fun n0 => n0 <| recv_t := recv_t n0 ++ [(en, off, len)] |>) S1).
  assert (Hin2 : forall en0 o l, In (en0, o, l) (recv_t (nd S2)) -> In (en0, o, l) (r0 :: rs) \/ en0 = en).
  { intros en0 o l Hi. unfold S2 in Hi. rewrite nd_upd in Hi. cbn in Hi. rewrite Ert in Hi.
    apply in_app_or in Hi as [Hi|[Hi|[]]]; [left; exact Hi|]. injection Hi as <- _ _. right. reflexivity. }
  destruct (lab =? 2).
  { apply Hfail.
    - rewrite nd_send_next_idx. reflexivity.
    - eapply grow_trans; [apply grow_upd|]. apply grow_send_next_idx_fail.
    - intros en0 o l Hi. rewrite nd_send_next_idx in Hi. apply Hin2. exact Hi. }
  assert (F2 : fv (nd S2) = fv (nd S1)) by reflexivity.
  destruct (assemble_entry (recv_t (nd S2))) as [en'|] eqn:Eas.
  2:{ apply Hfail; [exact F2|apply grow_eq; reflexivity|]. intros en0 o l Hi. apply Hin2. exact Hi. }
  (* the entry is complete: it is the entry of this last piece *)
  assert (Een : en' = en).
  { unfold S2 in Eas. rewrite nd_upd in Eas. cbn [recv_t set] in Eas. rewrite Ert in Eas.
    destruct r0 as [[en1 o1] l1]. unfold assemble_entry in Eas. cbn [app] in Eas.
    destruct (pieces_ok en1 0 ((en1, o1, l1) :: rs ++ [(en, off, len)])) eqn:Ep; [|discriminate Eas].
    injection Eas as <-.
    apply (pieces_ok_last en1 ((en1, o1, l1) :: rs) en off len 0) in Ep.
    apply (legit_eqb c s en1 en); auto.
    apply (Hrv0 en1 o1 l1). rewrite <- Er. left. reflexivity. }
  subst en'.
  set (S3 := upd (fun n0 => n0 <| recv_t := [] |>) S2).
  assert (F3 : fv (nd S3) = fv ((nd S0) <| term := if term (nd S0) <? t then t else term (nd S0) |>
                           <| voted := if term (nd S0) <? t then None else voted (nd S0) |>
                           <| role := FOLLOWER |>)) by exact F1.
  assert (G3 : grow nosend S0 S3).
  { eapply grow_trans; [exact G1|]. eapply grow_trans; apply grow_upd. }
  assert (Hm' : Rmsg a n (AE t cm prev [en]) s).
  { destruct prev as [[pi pt]|]; cbn.
    - split; auto. split; auto. split; [constructor; [exact I|constructor]|]. apply (Himg pi pt eq_refl).
    - auto. }
  destruct (sim_ae_regular n a S0 S3 s t cm prev [en] L Et F3 G3 Hm') as (s' & K & L').
  exists s'. split; auto. split; auto.
  intros en0 o l Hi.
  assert (E0 : recv_t (nd (ae_regular e a cm prev [en] S3)) = recv_t (nd S3)).
  { apply (fr_ae_regular recv_t); intros; reflexivity. }
  rewrite E0 in Hi. destruct Hi.
Qed.

End Msg.
