(* Tier CM3, part 12: non-vacuity, and the FINDING about the informal argument.

   RUN A (3 + 1 nodes, continues RefineMExample.tm_trace: node 2 leads term 2, members {1,2}).
     A new voter 4 is started with the initial list; leader 2 appends "add 4" (entry 5) and the
     connection 2 <-> 4 comes up (each knows the other: the member filter allows it), but no
     AppendEntries reaches node 4.  Node 4 - log [e0], NOT a member by its own log - runs into its
     election timeout three times (terms 1, 2, 3).  Its vote requests reach node 2: ignored (terms
     1, 2: node 2 leads term 2), then node 2 steps down (term 3) and refuses: its log is longer.
     Node 4 has no vote but its own.  The cluster goes on: node 2 is elected again (term 4, votes
     of 1 and 4), node 4 receives the log including its own addition, entry 6 is committed.
     The run is in the new fragment ([core_fragM3]) and NOT in the old one ([run_okM] = false).

   RUN B (5 + 1 nodes, batch = 2) - "a joiner that is not yet a member by its own log cannot collect
     a vote" is FALSE in the fragment (member filter on, no id is re-used):
     leader 1 (term 1) appends "add 6" as entry 3 and replicates it to node 2 only; node 3 wins
     term 2 with {3,4,5}, commits its no-op (entry 3) and appends "add 6" as entry 4; node 6
     receives the first batch [entry 2, entry 3] only.  Its log ends in term 2 and lacks its own
     addition.  Node 6 times out (term 3).  Nodes 1 and 2 KNOW node 6 (the stale entry 3 of term 1,
     which will never be committed) and their logs end in term 1: both GRANT.  Node 6 has 3 votes
     {6,1,2}; its table has 6 nodes; it does not win - as Safety10_NoTguardC proves in general.
     Then node 3 wins term 4, the stale entries of 1 and 2 are overwritten, node 6 gets its addition,
     entry 5 is committed everywhere. *)
From Coq Require Import ZArith NArith List Bool Lia.
From RecordUpdate Require Import RecordSet.
From PSO Require Import Raft.Types Raft.Node Raft.Net Raft.Obs.
From PSO Require Import Raft.ProofsElectionGhost Raft.RefineMAbs Raft.RefineM3Abs Raft.RefineMTickA
  Raft.RefineMMain Raft.RefineM3Main Raft.RefineMFinal Raft.RefineM3Final Raft.RefineMExample.
Import ListNotations.
Import RecordSetNotations.
Open Scope N_scope.

(* ---------------------------------------------------------------------------------------- *)
(* RUN A                                                                                      *)

(* the new voter is started; leader 2 appends the addition (entry 5) *)
Definition ta_1 : list event :=
  tm_trace ++ [ERestart 4 [1;2;3] 150 0 1; tmT 151 2; tmD 152 2 1; tmD 153 1 2; tmT 154 2;
               EAdmin 2 tm_add4 21; tmT 155 2; tmT 166 2].
(* 2 <-> 4 connected; node 4 times out three times; its requests reach node 2 *)
Definition ta_2 : list event :=
  [EConnect 4 2; EConnect 2 4; tmT 200 4; tmD 201 4 2; tmT 250 4; tmD 251 4 2; tmT 300 4; tmD 301 4 2].
(* node 2 is elected again by {2,1,4} *)
Definition ta_3 : list event := [tmT 350 2; tmD 351 2 1; tmD 351 2 4; tmD 352 1 2; tmD 352 4 2].
(* node 4 is brought up to date; entry 6 (the no-op of term 4) is committed by {2,4} *)
Definition ta_4 : list event :=
  [tmD 353 2 4; tmD 354 4 2; tmT 365 2; tmD 366 2 4; tmD 367 4 2; tmT 377 2; tmD 378 2 4; tmD 379 4 2;
   tmT 389 2; tmD 390 2 4; tmT 391 4].
Definition ta_trace : list event := ta_1 ++ ta_2 ++ ta_3 ++ ta_4.

Example ta_in_fragment : core_fragM3 tm_conf tm_V ta_trace.
Proof. repeat split; vm_compute; reflexivity. Qed.

(* the old fragment rejects the run at the first premature timeout *)
Example ta_not_in_old_fragment :
  run_okM tm_conf tm_V ginit (ta_1 ++ ta_2) = false /\ run_okM tm_conf tm_V ginit ta_1 = true.
Proof. split; vm_compute; reflexivity. Qed.

Example ta_runs :
  exists g2 g4 c1 c2 c4 f2 f4,
    run_trace tm_conf ginit (ta_1 ++ ta_2) = Some g2 /\ run_trace tm_conf g2 (ta_3 ++ ta_4) = Some g4 /\
    run_trace tm_conf ginit ta_trace = Some g4 /\
    (* after the three timeouts: node 4 is the candidate of term 3, log [e0], not a member by its own
       log, a pure joiner, one vote (its own); nobody voted for it; node 2 has stepped down *)
    aget 1 (nodes g2) = Some c1 /\ aget 2 (nodes g2) = Some c2 /\ aget 4 (nodes g2) = Some c4 /\
    role c4 = CANDIDATE /\ term c4 = 3 /\ votes c4 = 1 /\ N.of_nat (length (log c4)) = 1 /\
    memb tm_conf tm_V 4 c4 = false /\ purej1 tm_V 4 c4 = true /\ majority (votes c4) c4 = false /\
    voted c1 = Some 2 /\ voted c2 = None /\ role c2 = FOLLOWER /\ term c2 = 3 /\ others c2 = [1; 4] /\
    (* the cluster goes on: node 2 leads term 4; node 4 holds the whole log, its own addition is entry 5 *)
    aget 2 (nodes g4) = Some f2 /\ aget 4 (nodes g4) = Some f4 /\
    role f2 = LEADER /\ term f2 = 4 /\ commit f2 = 6 /\ commit f4 = 6 /\ log f4 = log f2 /\
    memb tm_conf tm_V 4 f4 = true /\ others f4 = [1; 2] /\
    map (fun e => (ck (ecmd e), ca (ecmd e), cb (ecmd e), eidx e, eterm e)) (log f2) =
      [(1, 0, 0, 1, 0); (1, 0, 0, 2, 1); (2, 2, 3, 3, 1); (1, 0, 0, 4, 2); (2, 1, 4, 5, 2); (1, 0, 0, 6, 4)].
Proof.
  do 7 eexists.
  split; [vm_compute; reflexivity|]. split; [vm_compute; reflexivity|]. split; [vm_compute; reflexivity|].
  split; [vm_compute; reflexivity|]. split; [vm_compute; reflexivity|]. split; [vm_compute; reflexivity|].
  vm_compute. repeat split; reflexivity.
Qed.

(* ---------------------------------------------------------------------------------------- *)
(* RUN B                                                                                      *)

Definition tb_conf : conf := mkConf 10 40 20 100 2 100 true true true 1000 100000 10 5 false false.
Definition tb_V : list nid := [1; 2; 3; 4; 5].
Definition tb_add6 : cmd := mkCmd 2 1 6 1 10.          (* MEMBERSHIP, add, node 6 *)
Definition conn (a b : N) : list event := [EConnect a b; EConnect b a].

(* five voters, all connected; node 1 wins term 1; its no-op is committed and applied everywhere *)
Definition tb_0 : list event :=
  [ERestart 1 [2;3;4;5] 0 0 1; ERestart 2 [1;3;4;5] 0 0 1; ERestart 3 [1;2;4;5] 0 0 1;
   ERestart 4 [1;2;3;5] 0 0 1; ERestart 5 [1;2;3;4] 0 0 1]
  ++ conn 1 2 ++ conn 1 3 ++ conn 1 4 ++ conn 1 5 ++ conn 2 3 ++ conn 2 4 ++ conn 2 5 ++ conn 3 4 ++ conn 3 5 ++ conn 4 5.
Definition tb_1 : list event :=
  [tmT 50 1; tmD 51 1 2; tmD 51 1 3; tmD 51 1 4; tmD 51 1 5; tmD 52 2 1; tmD 52 3 1; tmD 52 4 1; tmD 52 5 1;
   tmD 53 1 2; tmD 53 1 3; tmD 53 1 4; tmD 53 1 5; tmD 54 2 1; tmD 54 3 1; tmD 54 4 1; tmD 54 5 1;
   tmT 61 1; tmT 63 1; tmD 64 1 2; tmD 64 1 3; tmD 64 1 4; tmD 64 1 5; tmD 65 2 1; tmD 65 3 1; tmD 65 4 1; tmD 65 5 1;
   tmT 66 2; tmT 66 3; tmT 66 4; tmT 66 5].
(* node 6 is started; leader 1 appends "add 6" (entry 3, term 1); only node 2 receives it *)
Definition tb_2 : list event :=
  [ERestart 6 [1;2;3;4;5] 70 0 1; EAdmin 1 tb_add6 20; tmT 71 1; tmT 75 1; tmD 76 1 2; tmD 77 2 1;
   ELose 1 3 9; ELose 1 4 9; ELose 1 5 9].
(* node 3 wins term 2 with {3,4,5}; its no-op (entry 3, term 2) is committed by {3,4,5} *)
Definition tb_3 : list event :=
  [tmT 120 3; tmD 121 3 4; tmD 121 3 5; tmD 122 4 3; tmD 122 5 3; ELose 3 1 9; ELose 3 2 9;
   tmD 123 3 4; tmD 123 3 5; tmD 124 4 3; tmD 124 5 3; tmT 131 3; tmT 133 3; ELose 3 1 9; ELose 3 2 9].
(* leader 3 appends "add 6" (entry 4, term 2); 3 <-> 6 connected; node 6 receives the first batch
   [entry 2; entry 3] only, the batch with its own addition is lost *)
Definition tb_4 : list event :=
  [EAdmin 3 tb_add6 21; tmT 134 3; tmT 135 3] ++ conn 3 6 ++ [tmT 145 3; tmD 146 3 6; tmD 147 6 3; tmT 156 3;
   tmD 157 3 6; ELose 3 6 9; ELose 6 3 9; ELose 3 1 9; ELose 3 2 9; ELose 3 4 9; ELose 3 5 9].
(* 6 <-> 2 and 6 <-> 1 connected (each knows the other); node 6 times out; nodes 2 and 1 grant *)
Definition tb_5 : list event :=
  conn 6 2 ++ conn 6 1 ++ [tmT 200 6; tmD 201 6 2; tmD 201 6 1; tmD 201 6 3; tmD 202 2 6; tmD 202 1 6].
(* the cluster goes on: node 3 wins term 4 and replicates everything to everybody *)
Definition tb_round (t : Z) : list event :=
  [tmD t 3 1; tmD t 3 2; tmD t 3 4; tmD t 3 5; tmD t 3 6;
   tmD (t + 1) 1 3; tmD (t + 1) 2 3; tmD (t + 1) 4 3; tmD (t + 1) 5 3; tmD (t + 1) 6 3; tmT (t + 12) 3].
Definition tb_6 : list event :=
  [tmT 250 3; tmD 251 3 4; tmD 251 3 5; tmD 251 3 1; tmD 251 3 2; tmD 251 3 6; tmD 252 4 3; tmD 252 5 3; tmD 252 1 3; tmD 252 2 3;
   tmD 253 6 3] ++ tb_round 253 ++ tb_round 266 ++ tb_round 279 ++ tb_round 292.
Definition tb_vote : list event := tb_0 ++ tb_1 ++ tb_2 ++ tb_3 ++ tb_4 ++ tb_5.
Definition tb_trace : list event := tb_vote ++ tb_6.

Example tb_in_fragment : core_fragM3 tb_conf tb_V tb_trace.
Proof. repeat split; vm_compute; reflexivity. Qed.

(* THE FINDING: a candidate that is not a member by its own log - a pure joiner - holds two votes of
   other nodes, granted over links that the member filter allows *)
Example tb_premature_candidate_gets_votes :
  exists g x1 x2 x3 x6,
    run_trace tb_conf ginit tb_vote = Some g /\ core_fragM3 tb_conf tb_V tb_vote /\
    aget 1 (nodes g) = Some x1 /\ aget 2 (nodes g) = Some x2 /\ aget 3 (nodes g) = Some x3 /\ aget 6 (nodes g) = Some x6 /\
    role x6 = CANDIDATE /\ term x6 = 3 /\ memb tb_conf tb_V 6 x6 = false /\ purej1 tb_V 6 x6 = true /\
    map (fun e => (ck (ecmd e), cb (ecmd e), eidx e, eterm e)) (log x6) = [(1, 0, 1, 0); (1, 0, 2, 1); (1, 0, 3, 2)] /\
    votes x6 = 3 /\ voted x1 = Some 6 /\ voted x2 = Some 6 /\ term x1 = 3 /\ term x2 = 3 /\
    (* the voters know node 6 from an entry that is not (and never will be) committed *)
    map (fun e => (ck (ecmd e), cb (ecmd e), eidx e, eterm e)) (log x2) = [(1, 0, 1, 0); (1, 0, 2, 1); (2, 6, 3, 1)] /\
    log x1 = log x2 /\ smem 6 (others x2) = true /\ smem 2 (others x6) = true /\
    map (fun e => (ck (ecmd e), cb (ecmd e), eidx e, eterm e)) (log x3) =
      [(1, 0, 1, 0); (1, 0, 2, 1); (1, 0, 3, 2); (2, 6, 4, 2)] /\ commit x3 = 3 /\
    (* but it has no majority of its table of 6 nodes *)
    others x6 = [1; 2; 3; 4; 5] /\ majority (votes x6) x6 = false.
Proof.
  do 5 eexists.
  split; [vm_compute; reflexivity|]. split; [repeat split; vm_compute; reflexivity|].
  split; [vm_compute; reflexivity|]. split; [vm_compute; reflexivity|].
  split; [vm_compute; reflexivity|]. split; [vm_compute; reflexivity|].
  vm_compute. repeat split; reflexivity.
Qed.

Example tb_cluster_goes_on :
  exists g y1 y2 y3 y4 y5 y6,
    run_trace tb_conf ginit tb_trace = Some g /\
    aget 1 (nodes g) = Some y1 /\ aget 2 (nodes g) = Some y2 /\ aget 3 (nodes g) = Some y3 /\
    aget 4 (nodes g) = Some y4 /\ aget 5 (nodes g) = Some y5 /\ aget 6 (nodes g) = Some y6 /\
    role y3 = LEADER /\ term y3 = 4 /\ commit y3 = 5 /\
    map (fun e => (ck (ecmd e), cb (ecmd e), eidx e, eterm e)) (log y3) =
      [(1, 0, 1, 0); (1, 0, 2, 1); (1, 0, 3, 2); (2, 6, 4, 2); (1, 0, 5, 4)] /\
    log y1 = log y3 /\ log y2 = log y3 /\ log y4 = log y3 /\ log y5 = log y3 /\ log y6 = log y3 /\
    commit y1 = 5 /\ commit y2 = 5 /\ commit y4 = 5 /\ commit y5 = 5 /\ commit y6 = 5 /\
    role y6 = FOLLOWER /\ memb tb_conf tb_V 6 y6 = true /\ others y6 = [1; 2; 3; 4; 5] /\ others y2 = [1; 3; 4; 5; 6].
Proof.
  do 7 eexists.
  split; [vm_compute; reflexivity|]. split; [vm_compute; reflexivity|]. split; [vm_compute; reflexivity|].
  split; [vm_compute; reflexivity|]. split; [vm_compute; reflexivity|]. split; [vm_compute; reflexivity|].
  split; [vm_compute; reflexivity|].
  vm_compute. repeat split; reflexivity.
Qed.

(* ---------------------------------------------------------------------------------------- *)
(* the theorems apply to the runs                                                             *)

Example tb_no_majority_instance :
  forall g x6, run_trace tb_conf ginit tb_vote = Some g -> aget 6 (nodes g) = Some x6 ->
    role x6 = CANDIDATE -> memb tb_conf tb_V 6 x6 = false -> majority (votes x6) x6 = false.
Proof.
  intros g x6 Hr H6 Hc Hm.
  destruct tb_premature_candidate_gets_votes as (_ & _ & _ & _ & _ & _ & (A & B & C & D & F) & _).
  apply (TierCM3_premature_candidate_has_no_majority tb_conf tb_V tb_vote g 6 x6 A B C D F Hr H6); auto.
Qed.

Example tb_one_leader_instance :
  forall g a b xa xb, run_trace tb_conf ginit tb_trace = Some g ->
    aget a (nodes g) = Some xa -> aget b (nodes g) = Some xb -> a < RO_BASE -> b < RO_BASE ->
    role xa = LEADER -> role xb = LEADER -> term xa = term xb -> a = b.
Proof.
  intros g a b xa xb Hr. destruct tb_in_fragment as (A & B & C & D & F).
  apply (TierCM3_one_leader_per_term tb_conf tb_V tb_trace g a b xa xb A B C D F Hr).
Qed.

Example ta_sms_instance :
  forall g n2 n4 i, run_trace tm_conf ginit ta_trace = Some g ->
    aget 2 (nodes g) = Some n2 -> aget 4 (nodes g) = Some n4 -> 1 <= i -> i <= commit n2 -> i <= commit n4 ->
    exists ea eb, nth_error (log n2) (N.to_nat i - 1) = Some ea /\ nth_error (log n4) (N.to_nat i - 1) = Some eb /\
                  esim ea eb /\ eidx ea = i.
Proof.
  intros g n2 n4 i Hr H2 H4.
  destruct ta_in_fragment as (A & B & C & D & F).
  apply (TierCM3_state_machine_safety tm_conf tm_V ta_trace g 2 4 n2 n4 i A B C D F Hr H2 H4); reflexivity.
Qed.

(* every run of the old fragment that obeys the member filter is a run of the new one *)
Lemma run_okM_run_okM3 c V : forall evs g,
  run_okM c V g evs = true -> (forall g' pre post ev, evs = pre ++ ev :: post -> run_trace c g pre = Some g' -> mf_ok g' ev = true) ->
  run_okM3 c V g evs = true.
Proof.
  induction evs as [|ev evs IH]; intros g H Hmf; [reflexivity|]. cbn [run_okM run_okM3] in *.
  apply andb_true_iff in H as [H1 H2].
  assert (M0 : mf_ok g ev = true) by (apply (Hmf g [] evs ev); reflexivity).
  rewrite H1, M0. cbn [andb].
  destruct (gstep c g ev) as [[g' r]|] eqn:E; [|reflexivity].
  apply andb_true_iff in H2 as [H2 H3]. apply andb_true_iff in H2 as [H2 H4].
  rewrite H2, (tg_ok_tg3_ok _ _ _ _ _ H4). cbn [andb]. apply IH; auto.
  intros g2 pre post ev2 Ee Hr. apply (Hmf g2 (ev :: pre) post ev2); [rewrite Ee; reflexivity|].
  cbn [run_trace]. rewrite E. exact Hr.
Qed.
