(* Tier CM2, non-vacuity of the corollaries of Props/TierCM2b.v: they are instantiated on the run of
   RefineM2Example.v (add voter 4, compaction behind the membership entry, voter 2 installs the snapshot and
   is later elected by the new member set). *)
From Coq Require Import ZArith NArith List Bool Lia.
From RecordUpdate Require Import RecordSet.
From PSO Require Import Raft.Types Raft.Node Raft.Net Raft.Obs.
From PSO Require Import Raft.ProofsElectionBase Raft.ProofsElectionGhost Raft.ProofsMembership Raft.RefineMAbs
  Raft.RefineMMain Raft.RefineM2Abs Raft.RefineM2Main Raft.RefineM2Final Raft.RefineM2Final2 Raft.RefineM2Example.
Import ListNotations.
Import RecordSetNotations.
Open Scope N_scope.

(* log matching between voter 2 (held log = entries 3..5 after the install) and voter 3 (full log 1..4):
   they hold the same entry 4 of term 1, hence the same entry 3 (the membership entry "add 4") *)
Example xc_log_matching_instance :
  forall g n2 n3 ea eb ea' eb', run_trace x_conf ginit x_trace = Some g ->
    aget 2 (nodes g) = Some n2 -> aget 3 (nodes g) = Some n3 ->
    In ea (log n2) -> In eb (log n3) -> eidx ea = 4 -> eidx eb = 4 -> eterm ea = eterm eb ->
    In ea' (log n2) -> In eb' (log n3) -> eidx ea' = 3 -> eidx eb' = 3 -> ea' = eb'.
Proof.
  intros g n2 n3 ea eb ea' eb' Hr H2 H3 I1 I2 E1 E2 Et I3 I4 E3 E4.
  destruct x_in_fragment as (A & B & C & D & E).
  apply (TierCM2_log_matching x_conf x_mf x_V x_trace g 2 3 n2 n3 ea eb ea' eb' A B C D E Hr H2 H3); try reflexivity; auto;
    try congruence. rewrite E3, E1. discriminate.
Qed.

(* ... and the hypotheses of that instance are met in the run: both logs hold entries 3 and 4 *)
Example xc_log_matching_premises :
  exists g n2 n3,
    run_trace x_conf ginit x_trace = Some g /\ aget 2 (nodes g) = Some n2 /\ aget 3 (nodes g) = Some n3 /\
    map (fun e => (eidx e, eterm e)) (log n2) = [(3, 1); (4, 1); (5, 2)] /\
    map (fun e => (eidx e, eterm e)) (log n3) = [(1, 0); (2, 1); (3, 1); (4, 1)].
Proof.
  do 3 eexists. split; [vm_compute; reflexivity|]. split; [vm_compute; reflexivity|]. split; [vm_compute; reflexivity|].
  vm_compute. split; reflexivity.
Qed.

(* committed entries never change, between the state before the install (x_trace1: leader 1 has committed 1..4)
   and the end of the run *)
Example xc_committed_never_change_instance :
  forall g1 g2 l1 l1' e1 e2,
    run_trace x_conf ginit x_trace1 = Some g1 -> run_trace x_conf g1 (x_trace2 ++ x_trace3) = Some g2 ->
    aget 1 (nodes g1) = Some l1 -> aget 1 (nodes g2) = Some l1' ->
    In e1 (log l1) -> eidx e1 <= commit l1 ->
    commit l1 <= commit l1' /\ (In e2 (log l1') -> eidx e2 = eidx e1 -> e2 = e1).
Proof.
  intros g1 g2 l1 l1' e1 e2 Hr1 Hr2 H1 H1'.
  destruct x_in_fragment as (A & B & C & D & E).
  apply (TierCM2_committed_never_change x_conf x_mf x_V x_trace1 (x_trace2 ++ x_trace3) g1 g2 1 l1 l1' e1 e2 A B C D E Hr1 Hr2 H1 H1').
  reflexivity.
Qed.

(* leader completeness: what leader 1 had committed before the install (entries up to 4) is held, where still
   in the log, by the later leader 2 of term 2 - whose log starts at the snapshot *)
Example xc_leader_completeness_instance :
  forall g1 g2 l1 k2 ea el,
    run_trace x_conf ginit x_trace1 = Some g1 -> run_trace x_conf g1 (x_trace2 ++ x_trace3) = Some g2 ->
    aget 1 (nodes g1) = Some l1 -> aget 2 (nodes g2) = Some k2 -> role k2 = LEADER -> term l1 <= term k2 ->
    In ea (log l1) -> eidx ea <= commit l1 ->
    eidx ea <= last_idx (log k2) /\ (In el (log k2) -> eidx el = eidx ea -> el = ea).
Proof.
  intros g1 g2 l1 k2 ea el Hr1 Hr2 H1 H2 Hrole Ht.
  destruct x_in_fragment as (A & B & C & D & E).
  apply (TierCM2_leader_completeness x_conf x_mf x_V x_trace1 (x_trace2 ++ x_trace3) g1 g2 1 2 l1 k2 ea el A B C D E Hr1 Hr2 H1 H2);
    auto; reflexivity.
Qed.

Example xc_two_moments_premises :
  exists g1 g2 l1 k2,
    run_trace x_conf ginit x_trace1 = Some g1 /\ run_trace x_conf g1 (x_trace2 ++ x_trace3) = Some g2 /\
    aget 1 (nodes g1) = Some l1 /\ aget 2 (nodes g2) = Some k2 /\
    role k2 = LEADER /\ term l1 = 1 /\ term k2 = 2 /\ commit l1 = 4 /\
    map eidx (log l1) = [3; 4] /\ map eidx (log k2) = [3; 4; 5].
Proof.
  do 4 eexists. split; [vm_compute; reflexivity|]. split; [vm_compute; reflexivity|]. split; [vm_compute; reflexivity|].
  split; [vm_compute; reflexivity|]. vm_compute. repeat split; reflexivity.
Qed.

(* applied entries agree over time: what leader 1 had applied before the install (indices 3, 4 still in its log)
   is what voter 2 holds and has applied at the end of the run *)
Example xc_applied_over_time_instance :
  forall g1 g2 l1 k2 ea eb,
    run_trace x_conf ginit x_trace1 = Some g1 -> run_trace x_conf g1 (x_trace2 ++ x_trace3) = Some g2 ->
    aget 1 (nodes g1) = Some l1 -> aget 2 (nodes g2) = Some k2 ->
    In ea (log l1) -> In eb (log k2) -> eidx ea = eidx eb -> eidx ea <= applied l1 -> eidx ea <= applied k2 ->
    ea = eb.
Proof.
  intros g1 g2 l1 k2 ea eb Hr1 Hr2 H1 H2.
  destruct x_in_fragment as (A & B & C & D & E).
  apply (TierCM2_applied_entries_agree_over_time x_conf x_mf x_V x_trace1 (x_trace2 ++ x_trace3) g1 g2 1 2 l1 k2 ea eb
           A B C D E Hr1 Hr2 H1 H2); reflexivity.
Qed.
