(* C03 / C07 with a dump file configured.  The election-safety theorems of ProofsElectionMain carry
   file_dump c = false; the step lemma behind them (inv_gstep_gen) only needs, on every tick, that a
   node that is about to load its dump file (need_load, file_dump) has nothing stored.  Here that
   condition is stated over the run (a boolean that can be computed on a concrete event list) and
   the theorems are restated with it in place of file_dump c = false. *)
From Coq Require Import ZArith NArith List Bool Lia.
From PSO Require Import Raft.Types Raft.Node Raft.Net Raft.Obs.
From PSO Require Import Raft.ProofsElectionBase Raft.ProofsElectionStep Raft.ProofsElectionGhost
  Raft.ProofsElectionMain Raft.ProofsElectionC07.
From PSO Require Raft.Refine3Main Raft.Refine4Main Raft.Refine4Example.
Import ListNotations.
Open Scope N_scope.

(* one step: a tick of a node that is to load the dump file finds nothing stored *)
Definition dump_okb (c : conf) (g : gstate) (ev : event) : bool :=
  match ev with
  | ETick n _ _ _ _ _ =>
      match aget n (nodes g) with
      | Some x => negb (need_load x && file_dump c) ||
                  match stored (sr x) with None => true | Some _ => false end
      | None => true
      end
  | _ => true
  end.

Lemma dump_okb_ok c g ev : dump_okb c g ev = true -> tick_ok c g ev.
Proof.
  destruct ev; cbn; auto. intros H x Hx Hn. rewrite Hx, Hn in H. cbn in H.
  destruct (stored (sr x)); [discriminate|reflexivity].
Qed.

Lemma dump_okb_static c g ev : file_dump c = false -> dump_okb c g ev = true.
Proof.
  intros Hf. destruct ev; cbn; auto. destruct (aget n (nodes g)); [|reflexivity].
  now rewrite Hf, andb_false_r.
Qed.

(* the run: the condition holds at every step *)
Fixpoint dump_ok (c : conf) (g : gstate) (evs : list event) : bool :=
  match evs with
  | [] => true
  | ev :: r =>
    dump_okb c g ev &&
    match gstep c g ev with
    | Some (g', _) => dump_ok c g' r
    | None => true
    end
  end.

(* without a dump file the condition is void: the new theorems contain the old ones *)
Lemma dump_ok_static c evs : file_dump c = false -> forall g, dump_ok c g evs = true.
Proof.
  intros Hf. induction evs as [|ev r IH]; intros g; cbn; [reflexivity|].
  rewrite (dump_okb_static c g ev Hf). cbn. destruct (gstep c g ev) as [[g' o]|]; auto.
Qed.

(* the Tier C4 fragment of the refinement asks for the same condition *)
Lemma tick_okb_dump_okb c g ev : Refine4Main.tick_okb c g ev = dump_okb c g ev.
Proof. reflexivity. Qed.

Lemma run_ok4_dump_ok c evs : forall g, Refine4Main.run_ok4 c g evs = true -> dump_ok c g evs = true.
Proof.
  induction evs as [|ev r IH]; intros g H; cbn in *; [reflexivity|].
  apply andb_true_iff in H as [H1 H2]. apply andb_true_iff in H1 as [_ H1].
  rewrite tick_okb_dump_okb in H1. rewrite H1. cbn.
  destruct (gstep c g ev) as [[g' o]|]; auto.
Qed.

(* ---------- the invariant along a run ---------- *)
Lemma inv_grun_dump V c : dyn c = false -> NoDup V -> (forall v, In v V -> v < RO_BASE) ->
  forall evs g gh st g' gh',
  Inv V g gh st -> valid_from V st evs = true -> dump_ok c g evs = true ->
  grun c g gh evs = Some (g', gh') -> exists st', Inv V g' gh' st'.
Proof.
  intros Hd ND HV. induction evs as [|ev r IH]; simpl; intros g gh st g' gh' I Hv Hk Hr.
  - injection Hr as <- <-. eauto.
  - apply andb_true_iff in Hv as [H1 H2]. apply andb_true_iff in Hk as [K1 K2].
    destruct (gstep c g ev) as [[g1 res]|] eqn:E; [|discriminate].
    eapply IH; [| exact H2 | exact K2 | exact Hr].
    eapply inv_gstep_gen; eauto. now apply dump_okb_ok.
Qed.

Lemma reach_inv_dump c V evs g gh :
  dyn c = false -> dump_ok c ginit evs = true -> valid V evs = true ->
  grun c ginit gh0 evs = Some (g, gh) -> NoDup V /\ exists st, Inv V g gh st.
Proof.
  intros Hd Hk Hv Hr. unfold valid in Hv. apply andb_true_iff in Hv as [H1 H2].
  destruct (Vok_spec V H1) as (ND & HV & _). split; auto.
  eapply (inv_grun_dump V c); eauto. apply inv_init.
Qed.

(* ---------- the theorems ---------- *)
Lemma election_safety_dump c V evs g gh :
  dyn c = false -> dump_ok c ginit evs = true -> valid V evs = true ->
  grun c ginit gh0 evs = Some (g, gh) ->
  forall t a b, In (t, a) (wins gh) -> In (t, b) (wins gh) -> a = b.
Proof.
  intros Hd Hk Hv Hr t a b Ha Hb.
  destruct (reach_inv_dump c V evs g gh Hd Hk Hv Hr) as (ND & st & I).
  eapply inv_one_leader; eauto.
Qed.

Lemma vote_once_dump c V evs g gh :
  dyn c = false -> dump_ok c ginit evs = true -> valid V evs = true ->
  grun c ginit gh0 evs = Some (g, gh) ->
  forall t v c1 c2, In (t, v, c1) (grants gh) -> In (t, v, c2) (grants gh) -> c1 = c2.
Proof.
  intros Hd Hk Hv Hr t v c1 c2 H1 H2.
  destruct (reach_inv_dump c V evs g gh Hd Hk Hv Hr) as (ND & st & I).
  eapply key_unique; eauto. apply (I_key _ _ _ _ I).
Qed.

Lemma win_has_quorum_dump c V evs g gh :
  dyn c = false -> dump_ok c ginit evs = true -> valid V evs = true ->
  grun c ginit gh0 evs = Some (g, gh) ->
  forall t a, In (t, a) (wins gh) ->
    NoDup (voters gh t a) /\ incl (voters gh t a) V /\ (length V < 2 * length (voters gh t a))%nat.
Proof.
  intros Hd Hk Hv Hr t a Ha.
  destruct (reach_inv_dump c V evs g gh Hd Hk Hv Hr) as (ND & st & I).
  split; [apply voters_NoDup; apply (I_key _ _ _ _ I)|]. split.
  - intros v Hin. apply voters_In in Hin. apply (I_grant _ _ _ _ I) in Hin. tauto.
  - rewrite voters_length. apply (I_win _ _ _ _ I _ _ Ha).
Qed.

Lemma election_safety_run_dump c V evs g :
  dyn c = false -> dump_ok c ginit evs = true -> valid V evs = true ->
  run_trace c ginit evs = Some g ->
  exists gh, grun c ginit gh0 evs = Some (g, gh) /\
    forall t a b, In (t, a) (wins gh) -> In (t, b) (wins gh) -> a = b.
Proof.
  intros Hd Hk Hv Hr. apply (grun_run_trace c ginit gh0 evs g) in Hr as [gh Hg].
  exists gh. split; auto. eapply election_safety_dump; eauto.
Qed.

Lemma vote_once_run_dump c V evs g :
  dyn c = false -> dump_ok c ginit evs = true -> valid V evs = true ->
  run_trace c ginit evs = Some g ->
  exists gh, grun c ginit gh0 evs = Some (g, gh) /\
    forall t v c1 c2, In (t, v, c1) (grants gh) -> In (t, v, c2) (grants gh) -> c1 = c2.
Proof.
  intros Hd Hk Hv Hr. apply (grun_run_trace c ginit gh0 evs g) in Hr as [gh Hg].
  exists gh. split; auto. eapply vote_once_dump; eauto.
Qed.

(* ---------- a run with a dump file configured meets the hypotheses ---------- *)
(* run D of the Tier C4 examples: file_dump = true, every node ticks once right after its start,
   node 1 wins the election of term 1, entries are replicated, a snapshot is taken and installed *)
Example dump_run_example :
  file_dump Refine4Example.t4_confD = true /\ dyn Refine4Example.t4_confD = false /\
  valid Refine4Example.t4_V Refine4Example.t4_traceD = true /\
  dump_ok Refine4Example.t4_confD ginit Refine4Example.t4_traceD = true /\
  exists g gh, grun Refine4Example.t4_confD ginit gh0 Refine4Example.t4_traceD = Some (g, gh) /\
               wins gh = [(1, 1)] /\ In (1, 3, 1) (grants gh).
Proof.
  split; [reflexivity|]. split; [reflexivity|]. split; [vm_compute; reflexivity|]. split; [vm_compute; reflexivity|].
  do 2 eexists. split; [vm_compute; reflexivity|]. split; [vm_compute; reflexivity|]. vm_compute. auto.
Qed.

(* the condition is not void: the same run without the early ticks violates it (voter 2 would tick for
   the first time after it has installed a snapshot) *)
Example dump_run_violation : dump_ok Refine4Example.t4_confD ginit Refine4Example.t4_traceA = false.
Proof. vm_compute. reflexivity. Qed.
