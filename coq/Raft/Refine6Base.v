(* Tier C6, part 1: the vocabulary of "the state of a node is the replay of the committed log".
   - [dec]: a left inverse of the command code [enc], so that an L0 log can be read back as L1 entries;
   - [cpre s k l]: l is THE committed prefix of length k of the L0 history (functional in k, monotone
     along L0 steps);
   - [HI s x]: the user state of node x is the replay of the committed prefix of length [applied x];
   - [SH s sn]: the user state stored in snapshot sn is the replay of the committed prefix that ends at
     the snapshot's last entry. *)
From Coq Require Import ZArith NArith List Bool Lia ZifyBool Arith PeanoNat Cantor.
From RecordUpdate Require Import RecordSet.
From PSO Require Import Raft.Types Raft.Node Raft.Net Raft.ProofsApplyBase Raft.ProofsApplyLog.
From PSO Require Import Raft.RefineAbs Raft.Refine5Abs Raft.Refine5SpecA Raft.Refine5Sim.
From PSO Require Abstract.Model Abstract.Lib Abstract.Kstep Abstract.Safety1_WF Abstract.Safety2_Election
  Abstract.Safety3_LeaderLog Abstract.Safety4_LogMatching Abstract.Safety6_LeaderCompleteness
  Abstract.Safety7_StateMachine Abstract.Safety8_First.
Import ListNotations.
Import RecordSetNotations.
Open Scope N_scope.
#[local] Arguments firstn : simpl nomatch.
#[local] Arguments skipn : simpl nomatch.

(* ------------------------------------------------------------------------------------------ *)
(* reading an L0 entry back                                                                   *)

Definition dec (pk : N) (k : nat) : cmd :=
  match k with
  | O => noop_cmd pk
  | Sn m =>
    let (a, r1) := Cantor.of_nat m in
    let (b, r2) := Cantor.of_nat r1 in
    let (c0, r3) := Cantor.of_nat r2 in
    let (d, e) := Cantor.of_nat r3 in
    mkCmd (N.of_nat a) (N.of_nat b) (N.of_nat c0) (N.of_nat d) (N.of_nat e)
  end.

Lemma dec_enc pk c : dec pk (enc pk c) = c.
Proof.
  unfold enc. destruct (is_noop pk c) eqn:E.
  - apply is_noop_spec in E. subst. reflexivity.
  - unfold dec, cmd_code. rewrite !Cantor.cancel_of_to. destruct c; cbn. rewrite !N2Nat.id. reflexivity.
Qed.

Definition decE (pk : N) (e : M.entry) : entry :=
  mkEntry (dec pk (M.ecmd e)) (N.of_nat (M.eidx e)) (N.of_nat (M.eterm e)).

Definition decL (pk : N) (l : list M.entry) : list entry := map (decE pk) l.

Lemma decE_abs pk e : decE pk (absE pk e) = e.
Proof. unfold decE, absE. cbn. rewrite dec_enc, !N2Nat.id. destruct e; reflexivity. Qed.

Lemma decL_abs pk l : decL pk (absL pk l) = l.
Proof. unfold decL, absL. rewrite map_map. rewrite <- (map_id l) at 2. apply map_ext. apply decE_abs. Qed.

Lemma decL_app pk a b : decL pk (a ++ b) = decL pk a ++ decL pk b.
Proof. apply map_app. Qed.

Lemma decL_firstn pk k l : decL pk (firstn k l) = firstn k (decL pk l).
Proof. unfold decL. symmetry. apply firstn_map. Qed.

Lemma decE_e0 pk : decE pk M.e0 = mkEntry (noop_cmd pk) 1 0.
Proof. reflexivity. Qed.

Lemma effect_noop pk : cmd_effect (noop_cmd pk) = [].
Proof. reflexivity. Qed.

(* ------------------------------------------------------------------------------------------ *)
(* consecutive entries of a suffix of a well-formed full log                                  *)

Lemma consec_of_nth l i :
  (forall p e, nth_error l p = Some e -> eidx e = i + N.of_nat p) -> consec i l.
Proof.
  revert i. induction l as [|a l IH]; intros i H; cbn; auto. split.
  - rewrite (H 0%nat a eq_refl). lia.
  - apply IH. intros p e Hp. rewrite (H (Sn p) e Hp). lia.
Qed.

Lemma suffix_log_wf l full : wf1 full -> suffix_of l full -> log_wf l.
Proof.
  intros W Sx. split; [eapply suffix_ne; eauto|].
  destruct (suffix_base _ _ W Sx) as (b & E & Hb & Efi).
  apply consec_of_nth. intros p e Hp. rewrite E, Refine5Abs.nth_error_skipn in Hp.
  destruct W as [_ H]. rewrite (H _ _ Hp), Efi. lia.
Qed.

(* a run of consecutive entries of the held suffix is a window of the full log *)
Lemma consec_window l full es (k : nat) :
  wf1 full -> suffix_of l full -> (forall e, In e es -> In e l) -> consec (N.of_nat k + 1) es ->
  (k + length es <= length full)%nat ->
  firstn (length es) (skipn k full) = es.
Proof.
  intros W Sx Hin Hc Hlen. apply ML.nth_error_ext. intros i.
  destruct (Nat.lt_ge_cases i (length es)) as [Hi|Hi].
  - rewrite ML.nth_error_firstn_lt by exact Hi. rewrite Refine5Abs.nth_error_skipn.
    destruct (nth_error es i) as [e|] eqn:Ee; [|apply nth_error_None in Ee; lia].
    assert (Hie : eidx e = N.of_nat k + 1 + N.of_nat i).
    { clear - Hc Ee. revert i k Hc Ee. induction es as [|a es IH]; intros i k Hc Ee; [destruct i; discriminate|].
      destruct Hc as [Ea Hc]. destruct i as [|i].
      - injection Ee as <-. lia.
      - cbn in Ee. replace (N.of_nat k + 1 + 1) with (N.of_nat (Sn k) + 1) in Hc by lia.
        rewrite (IH i (Sn k) Hc Ee). lia. }
    assert (Hf : In e full) by (eapply suffix_In; [exact Sx|]; apply Hin; eapply nth_error_In; eauto).
    apply In_nth_error in Hf as [p Hp]. destruct W as [_ Hw]. pose proof (Hw p e Hp) as Ep.
    replace (k + i)%nat with p by lia. exact Hp.
  - rewrite ML.nth_error_firstn_ge by exact Hi. symmetry. apply nth_error_None. exact Hi.
Qed.

(* ------------------------------------------------------------------------------------------ *)
Section Base.
Variable c : conf.
Variable V : list nid.
Hypothesis NDV : NoDup V.
Hypothesis VRO : forall v, In v V -> v < RO_BASE.
Hypothesis VNE : V <> [].
Hypothesis Hb1 : 1 < batch c.
Set Default Proof Using "All".

Notation V' := (absV V).
Notation kstar := (kstar V).
Notation pk := (pk c).
Notation V'_nodup := (V'_nodup c V NDV VRO VNE Hb1).
Notation V'_ne := (V'_ne c V NDV VRO VNE Hb1).

(* THE committed prefix of length k *)
Definition cpre (s : M.state) (k : nat) (l : list M.entry) : Prop :=
  exists T0 p0, In (T0, p0) (M.direct s) /\ (k <= Sn p0)%nat /\ l = firstn k (M.llog s T0).

Lemma direct_len s T0 p0 : KS.kreachable V' s -> In (T0, p0) (M.direct s) -> (Sn p0 <= length (M.llog s T0))%nat.
Proof.
  intros HR D. pose proof (S6.inv6_kreachable V' V'_nodup V'_ne s HR) as I6.
  destruct (S6.I6_direct _ _ I6 _ _ D) as [H _]. apply S6.hasT_lt in H. lia.
Qed.

Lemma cpre_length s k l : KS.kreachable V' s -> cpre s k l -> length l = k.
Proof.
  intros HR (T0 & p0 & D & Hk & ->). pose proof (direct_len s T0 p0 HR D). rewrite firstn_length. lia.
Qed.

Lemma cpre_fun s k l l' : KS.kreachable V' s -> cpre s k l -> cpre s k l' -> l = l'.
Proof.
  intros HR (T0 & p0 & D & Hk & ->) (T1 & p1 & D' & Hk' & ->).
  pose proof (S2.inv2_kreachable V' s HR) as I2. pose proof (S3.inv3_kreachable V' s HR) as I3.
  pose proof (S4.inv4_kreachable V' s HR) as I4. pose proof (S6.inv6_kreachable V' V'_nodup V'_ne s HR) as I6.
  destruct (Nat.le_ge_cases T0 T1) as [L|L].
  - pose proof (S7.direct_compat V' s T0 p0 T1 p1 I2 I3 I4 I6 D D' L) as F.
    symmetry. eapply ML.firstn_le_eq; [|exact F]. lia.
  - pose proof (S7.direct_compat V' s T1 p1 T0 p0 I2 I3 I4 I6 D' D L) as F.
    eapply ML.firstn_le_eq; [|exact F]. lia.
Qed.

Lemma cpre_le s k k' l : (k' <= k)%nat -> cpre s k l -> cpre s k' (firstn k' l).
Proof.
  intros Hle (T0 & p0 & D & Hk & ->). exists T0, p0. split; auto. split; [lia|].
  rewrite firstn_firstn. f_equal. lia.
Qed.

Lemma cpre_kstep s s' k l : KS.kreachable V' s -> KS.kstep V' s s' -> cpre s k l -> cpre s' k l.
Proof.
  intros HR K (T0 & p0 & D & Hk & ->). pose proof (direct_len s T0 p0 HR D) as Hl.
  exists T0, p0. split; [eapply KS.kstep_direct; eauto|]. split; auto.
  destruct (S3.kstep_llog V' s s' T0 (S1.inv1_kreachable V' s HR) (S2.inv2_kreachable V' s HR)
              (S3.inv3_kreachable V' s HR) K) as (r & -> & _).
  rewrite ML.firstn_app_le by lia. reflexivity.
Qed.

Lemma cpre_kstar s s' k l : KS.kreachable V' s -> kstar s s' -> cpre s k l -> cpre s' k l.
Proof.
  intros HR K. induction K as [|s1 s2 K IH Ks]; auto. intros H.
  eapply cpre_kstep; [|exact Ks|auto]. eapply kstar_kreachable; eauto.
Qed.

Lemma cpre_of_committed s Tb L k : S7.committed_upto s Tb L k -> cpre s k (firstn k L).
Proof. intros (A & T0 & p0 & B & C & D & E). exists T0, p0. auto. Qed.

(* the first entry of a committed prefix is the common entry e0 *)
Lemma cpre_head s k l : KS.kreachable V' s -> cpre s k l -> (1 <= k)%nat -> exists r, l = M.e0 :: r.
Proof.
  intros HR (T0 & p0 & D & Hk & ->) H1. pose proof (direct_len s T0 p0 HR D) as Hl.
  pose proof (S8.I8_llog _ (S8.inv8_kreachable V' s HR) T0) as H0.
  destruct (M.llog s T0) as [|a r] eqn:E; [cbn in Hl; lia|].
  specialize (H0 ltac:(discriminate)). cbn in H0. injection H0 as ->.
  destruct k as [|k]; [lia|]. cbn [firstn]. eauto.
Qed.

(* ---- the two invariants ---- *)
Definition HI (s : M.state) (x : node) : Prop :=
  exists l, cpre s (n2 (applied x)) l /\ hist x = replay (decL pk l).

Definition SH (s : M.state) (sn : snapshot) : Prop :=
  exists l, cpre s (n2 (eidx (s_e1 sn))) l /\ s_hist sn = replay (decL pk l).

Lemma HI_kstar s s' x : KS.kreachable V' s -> kstar s s' -> HI s x -> HI s' x.
Proof. intros HR K (l & A & B). exists l. split; auto. eapply cpre_kstar; eauto. Qed.

Lemma SH_kstar s s' sn : KS.kreachable V' s -> kstar s s' -> SH s sn -> SH s' sn.
Proof. intros HR K (l & A & B). exists l. split; auto. eapply cpre_kstar; eauto. Qed.

Lemma HI_uview s x y : hist y = hist x -> applied y = applied x -> HI s x -> HI s y.
Proof. intros E1 E2 (l & A & B). exists l. rewrite E1, E2. auto. Qed.

Lemma HI_of_SH s sn x : hist x = s_hist sn -> applied x = eidx (s_e1 sn) -> SH s sn -> HI s x.
Proof. intros E1 E2 (l & A & B). exists l. rewrite E1, E2. auto. Qed.

Lemma SH_of_HI s sn x : s_hist sn = hist x -> eidx (s_e1 sn) = applied x -> HI s x -> SH s sn.
Proof. intros E1 E2 (l & A & B). exists l. rewrite E1, E2. auto. Qed.

(* a freshly started node *)
Lemma HI_init s Tb L x : KS.kreachable V' s -> S7.committed_upto s Tb L 1 -> applied x = 1 -> hist x = [] -> HI s x.
Proof.
  intros HR C Ea Eh. apply cpre_of_committed in C. exists (firstn 1 L). rewrite Ea. split; [exact C|].
  destruct (cpre_head s 1 _ HR C (le_n _)) as (r & E).
  pose proof (cpre_length s 1 _ HR C) as Hl. rewrite E in *. destruct r; [|cbn in Hl; lia].
  rewrite Eh. reflexivity.
Qed.

(* the apply loop: the state is extended by the replay of the entries executed *)
Lemma HI_apply n s x0 x1 es :
  KS.kreachable V' s -> Rn c V n x1 s -> HI s x0 ->
  (forall e, In e es -> In e (log x1)) -> consec (applied x0 + 1) es ->
  hist x1 = hist x0 ++ replay es -> applied x1 = applied x0 + N.of_nat (length es) ->
  HI s x1.
Proof.
  intros HR RN (l0 & C0 & H0) Hin Hc Eh Ea.
  destruct (Rn_full c V NDV VRO VNE Hb1 n x1 s HR RN) as (full & EL & W & Sx).
  pose proof (Rn_applied _ _ _ _ _ RN) as CA. pose proof CA as [Hlen _].
  apply cpre_of_committed in CA.
  set (k0 := n2 (applied x0)) in *. set (k1 := n2 (applied x1)) in *.
  assert (Ek : k1 = (k0 + length es)%nat) by (unfold k0, k1; lia).
  rewrite EL, absL_length in Hlen.
  assert (E0 : l0 = firstn k0 (M.log (M.nodes s (n2 n)))).
  { eapply cpre_fun; [exact HR|exact C0|].
    pose proof (cpre_le s k1 k0 _ ltac:(lia) CA) as X. rewrite firstn_firstn in X.
    replace (Nat.min k0 k1) with k0 in X by lia. exact X. }
  exists (firstn k1 (M.log (M.nodes s (n2 n)))). split; [exact CA|].
  rewrite Ek, ML.firstn_add, <- E0, decL_app, replay_app, Eh, H0. f_equal.
  rewrite EL, <- absL_skipn, <- absL_firstn, decL_abs.
  rewrite (consec_window (log x1) full es k0 W Sx Hin); auto.
  - replace (N.of_nat k0) with (applied x0) by (unfold k0; lia). exact Hc.
  - lia.
Qed.

End Base.
