(* Concrete instances of the hypotheses of the C01 / C02 / C12 theorems, and the one statement of
   the task that is false of the model (and of the code): the subscribers of the entry the
   apply loop stops at are popped without being called. *)
From Coq Require Import ZArith NArith List Bool Lia.
From RecordUpdate Require Import RecordSet.
From PSO Require Import Raft.Types Raft.Node Raft.Net Raft.Obs Raft.ProofsApplyBase Raft.ProofsApply
  Raft.ProofsApplyLog Raft.ProofsCallbacks Raft.ProofsCallbacks2 Raft.ProofsApplyReplay.
Import ListNotations.
Import RecordSetNotations.
Open Scope N_scope.

Definition cx : conf := mkConf 10 40 20 100 1000 100 true false true 2 1000 10 5 false false.
Definition ex_env : env := mk_env cx 0 0 30 [] 9.
Definition cmdN (k : N) : cmd := mkCmd 0 k 0 1 10.     (* a normal replicated call *)
Definition cmdR (k : N) : cmd := mkCmd 0 k 1 1 10.     (* a replicated call that raises *)
Definition cmdV (v : N) : cmd := mkCmd 3 v 0 1 10.     (* switch to code version v *)

(* ---- the apply loop on a hand-made state: normal, raising, normal, then a version the node lacks ---- *)
Definition ex_es : list entry :=
  [mkEntry (cmdN 7) 2 1; mkEntry (cmdR 8) 3 1; mkEntry (cmdN 9) 4 1; mkEntry (cmdV 5) 5 1; mkEntry (cmdN 10) 6 1].
Definition ex_wc : list (N * list (N * cbref)) :=
  [(2, [(1, CbLocal 11)]); (3, [(1, CbLocal 12); (9, CbLocal 13)]); (5, [(1, CbLocal 14)]); (6, [(1, CbLocal 15)])].
Definition ex_s : S :=
  start_S ex_env ((init_node ex_env (Some 1) [2] 1) <| wait_commit := ex_wc |>).

Example ex_apply_hyps : NoDup (map eidx ex_es) /\ asorted None (wait_commit (nd ex_s)).
Proof.
  split.
  - cbn. repeat constructor; cbn; intuition discriminate.
  - cbn. repeat split; reflexivity.
Qed.

Example ex_apply_runs :
  let s' := apply_list ex_es ex_s in
  runnable (self_ver (nd ex_s)) ex_es = firstn 3 ex_es /\
  applied (nd ex_s) = 1 /\ applied (nd s') = 4 /\ hist (nd s') = [7; 9] /\ exc s' = 0 /\
  (* 11: SUCCESS with position 1; 12: SUCCESS with the exception marker; 13: DISCARDED (term 9 <> 1) *)
  fired (outs s') = [(11, 2, SUCCESS); (12, 1, SUCCESS); (13, 0, DISCARDED)] /\
  (* the subscriber of the blocker (index 5) is gone without a call; index 6 is untouched *)
  wait_commit (nd s') = [(6, [(1, CbLocal 15)])].
Proof. vm_compute. repeat split; reflexivity. Qed.

(* two replicas with different callback tables *)
Definition ex_s2 : S := start_S ex_env (init_node ex_env (Some 2) [1] 1).
Example ex_replicas_hyps :
  hist (nd ex_s) = hist (nd ex_s2) /\ enabled_ver (nd ex_s) = enabled_ver (nd ex_s2) /\
  self_ver (nd ex_s) = self_ver (nd ex_s2).
Proof. repeat split; reflexivity. Qed.

Example ex_raising_only : forall e, In e [mkEntry (cmdR 8) 2 1; mkEntry (cmdR 8) 3 1] -> raises (ecmd e) = true.
Proof. intros e [<-|[<-|[]]]; reflexivity. Qed.

Example ex_same_but_raising :
  Forall2 same_but_raising ex_es
    [mkEntry (cmdR 7) 2 1; mkEntry (cmdN 8) 3 1; mkEntry (cmdR 9) 4 1; mkEntry (cmdV 5) 5 1; mkEntry (cmdR 10) 6 1].
Proof. repeat constructor. Qed.

Example ex_split_runnable : runnable (self_ver (nd ex_s)) (firstn 2 ex_es) = firstn 2 ex_es /\
                            runnable (self_ver (nd ex_s)) (firstn 4 ex_es) <> firstn 4 ex_es.
Proof. split; [reflexivity|]. vm_compute. discriminate. Qed.

(* ---- the statement that is false: subscribers of entries that are not applied stay ---- *)
Definition C12_unapplied_subscribers_untouched_full : Prop :=
  forall (es : list entry) (s : S) (i : N),
    asorted None (wait_commit (nd s)) -> NoDup (map eidx es) ->
    ~ In i (map eidx (runnable (self_ver (nd s)) es)) ->
    aget i (wait_commit (nd (apply_list es s))) = aget i (wait_commit (nd s)).

Lemma blocked_subscribers_dropped :
  exists (es : list entry) (s : S) (i : N) (l : list (N * cbref)),
    asorted None (wait_commit (nd s)) /\ NoDup (map eidx es) /\
    ~ In i (map eidx (runnable (self_ver (nd s)) es)) /\
    aget i (wait_commit (nd s)) = Some l /\ local_subs l <> [] /\
    aget i (wait_commit (nd (apply_list es s))) = None /\
    (forall id r err, In (id, r, err) (fired (outs (apply_list es s))) -> ~ In (1, id) (local_subs l)) /\
    applied (nd (apply_list es s)) < i.
Proof.
  exists ex_es, ex_s, 5, [(1, CbLocal 14)].
  split; [apply ex_apply_hyps|]. split; [apply ex_apply_hyps|].
  split. { vm_compute. intuition discriminate. }
  split; [reflexivity|]. split; [discriminate|]. split; [reflexivity|].
  split. { intros id r err I. vm_compute in I. vm_compute. intuition congruence. }
  vm_compute. reflexivity.
Qed.

Theorem unapplied_subscribers_untouched_refuted : ~ C12_unapplied_subscribers_untouched_full.
Proof.
  intros H. destruct blocked_subscribers_dropped as (es & s & i & l & H1 & H2 & H3 & H4 & _ & H6 & _).
  specialize (H es s i H1 H2 H3). congruence.
Qed.

(* ---- a 2-node run: leader 1, follower 2; a normal, a raising and a normal command; the first
        submitted on the leader, the other two on the follower (forwarded) ---- *)
Definition T (z : Z) (n : N) : event := ETick n z 0 30 [] 9.
Definition D (z : Z) (a b : N) : event := EDeliver a b z 0 [].
Definition ex_trace : list event :=
  [ERestart 1 [2] 0 0 1; ERestart 2 [1] 0 0 1; EConnect 1 2; EConnect 2 1;
   T 50 1; D 51 1 2; D 52 2 1; D 53 1 2; D 54 2 1;
   ESubmit 1 (cmdN 7) 11; ESubmit 2 (cmdR 8) 12; ESubmit 2 (cmdN 9) 13;
   T 60 2; D 61 2 1; D 61 2 1; T 65 1; D 66 1 2; D 66 1 2; D 67 1 2; D 67 2 1;
   T 76 1; D 77 1 2; D 78 2 1; T 87 1; D 88 1 2; T 89 2].

(* all Fired outputs of a run *)
Fixpoint run_outcomes (c : conf) (g : gstate) (evs : list event) : option (gstate * list (N * N * N)) :=
  match evs with
  | [] => Some (g, [])
  | ev :: r =>
    match gstep c g ev with
    | None => None
    | Some (g', o) =>
      match run_outcomes c g' r with
      | None => None
      | Some (g'', f) => Some (g'', match o with Some (_, s) => fired (outs s) | None => [] end ++ f)
      end
    end
  end.

Example ex_trace_ids : NoDup (flat_map ev_ids ex_trace).
Proof. cbn. repeat constructor; cbn; intuition discriminate. Qed.

Example ex_trace_runs :
  exists g n1 n2,
    run_outcomes cx ginit ex_trace =
      Some (g, [(11, 2, SUCCESS); (12, 1, SUCCESS); (13, 3, SUCCESS)]) /\
    run_fired cx ginit ex_trace = Some (g, [11; 12; 13]) /\
    aget 1 (nodes g) = Some n1 /\ aget 2 (nodes g) = Some n2 /\
    role n1 = LEADER /\ role n2 = FOLLOWER /\
    map (fun e => (ck (ecmd e), ca (ecmd e), cb (ecmd e))) (log n1) = [(1, 0, 0); (1, 0, 0); (0, 7, 0); (0, 8, 1); (0, 9, 0)] /\
    log n1 = log n2 /\ applied n1 = 5 /\ applied n2 = 5 /\ hist n1 = [7; 9] /\ hist n2 = [7; 9] /\
    wait_commit n1 = [] /\ wait_commit n2 = [] /\ wait_reply n2 = [] /\ log_wf (log n1).
Proof.
  eexists. eexists. eexists.
  split; [vm_compute; reflexivity|]. split; [vm_compute; reflexivity|].
  split; [vm_compute; reflexivity|]. split; [vm_compute; reflexivity|].
  vm_compute. repeat split; try reflexivity; discriminate.
Qed.

(* ---- compaction and dump load on concrete states ---- *)
Definition ex_log : list entry :=
  [mkEntry (noop_cmd 5) 1 0; mkEntry (noop_cmd 5) 2 1; mkEntry (cmdN 7) 3 1; mkEntry (cmdR 8) 4 1; mkEntry (cmdN 9) 5 1].
Definition ex_node : node :=
  (init_node ex_env (Some 1) [2] 1) <| log := ex_log |> <| commit := 5 |> <| applied := 5 |> <| hist := [7; 9] |>
     <| force_compact := true |>.

Example ex_compact :
  log_wf (log ex_node) /\ pid (sr ex_node) = 0 /\
  exists sn, stored (sr (nd (try_compact ex_env (start_S ex_env ex_node)))) = Some (Good sn) /\
             s_hist sn = [7; 9] /\ eidx (s_e0 sn) = 4 /\ eidx (s_e1 sn) = 5.
Proof.
  split. { split; [discriminate|]. cbn. repeat split; reflexivity. }
  split; [reflexivity|]. eexists. vm_compute. repeat split; reflexivity.
Qed.

Definition ex_snap : snapshot := mkSnap [7; 9] 0 (mkEntry (cmdN 9) 5 1) (mkEntry (cmdR 8) 4 1) [1; 2] 40.
Definition ex_fresh : node :=
  (init_node ex_env (Some 2) [1] 1) <| sr := (mkSer 0 0 (Some (Good ex_snap)) [] None) |>.

Example ex_load :
  stored (sr (nd (start_S ex_env ex_fresh))) = Some (Good ex_snap) /\
  s_ver ex_snap <= self_ver (nd (start_S ex_env ex_fresh)) /\
  let s' := load_dump ex_env true (start_S ex_env ex_fresh) in
  hist (nd s') = [7; 9] /\ applied (nd s') = 5 /\ map eidx (log (nd s')) = [4; 5].
Proof. split; [reflexivity|]. split; [vm_compute; discriminate|]. vm_compute. repeat split; reflexivity. Qed.

(* a dequeued command on a follower without a leader: MISSING_LEADER, nothing appended *)
Example ex_missing_leader :
  let s := start_S ex_env ((init_node ex_env (Some 2) [1] 1) <| queue := [(cmdN 7, CbLocal 21)] |>) in
  let s' := check_one ex_env (cmdN 7) (CbLocal 21) (upd (fun n => n <| queue := [] |>) s) in
  queue (nd s) = [(cmdN 7, CbLocal 21)] /\
  fired (outs s') = [(21, 0, MISSING_LEADER)] /\ log (nd s') = log (nd s) /\ queue (nd s') = [].
Proof. vm_compute. repeat split; reflexivity. Qed.

(* ---- hypotheses of the log_wf theorems ---- *)
From PSO Require Import Raft.ProofsApplyWf.

Definition ex_ae : msg := AE 1 3 (Some (2, 1)) [mkEntry (cmdN 7) 3 1; mkEntry (cmdR 8) 4 1].
Definition ex_follower : node :=
  (init_node ex_env (Some 2) [1] 1) <| log := [mkEntry (noop_cmd 5) 1 0; mkEntry (noop_cmd 5) 2 1] |> <| term := 1 |>.

Example ex_msg_wf :
  log_wf (log ex_follower) /\ msg_wf ex_ae /\
  (forall sn, stored (sr ex_follower) = Some (Good sn) -> snap_wf sn) /\
  (forall ps, incoming (sr ex_follower) = Some ps -> Forall piece_wf ps) /\
  map eidx (log (nd (on_message ex_env 1 ex_ae ex_follower))) = [1; 2; 3; 4].
Proof.
  split. { split; [discriminate|]. cbn. auto. }
  split. { cbn. auto. }
  split. { intros sn H. discriminate H. }
  split. { intros ps H. discriminate H. }
  vm_compute. reflexivity.
Qed.

Example ex_tick_wf :
  log_wf (log ex_node) /\ (forall sn, stored (sr ex_node) = Some (Good sn) -> snap_wf sn) /\
  (pid (sr (nd (tick_body ex_env (start_S ex_env ex_node)))) = 1 ->
   cur_id (sr (nd (tick_body ex_env (start_S ex_env ex_node)))) <= last_idx (log (nd (tick_body ex_env (start_S ex_env ex_node))))).
Proof.
  split. { split; [discriminate|]. cbn. repeat split; reflexivity. }
  split. { intros sn H. discriminate H. }
  vm_compute. discriminate.
Qed.

(* ---- the lost callback on a full run: 3 nodes; node 2 runs code version 0, nodes 1 and 3 version 1.
   Leader 1 (term 1) appends a command forwarded by node 2 at index 4 and tells node 2 (4, term 1),
   then is cut off before replicating it.  Node 3 wins term 2 (noop at index 3) and appends
   "switch to code version 1" at index 4.  Node 2 receives it, reaches commit 4, stops at index 4
   (it lacks version 1): the subscription (4, term 1, callback 21) is popped and callback 21 is
   never called, although the entry at index 4 has another term (the contract says DISCARDED). ---- *)
Definition lost_cb_trace : list event :=
  [ERestart 1 [2;3] 0 0 1; ERestart 2 [1;3] 0 0 0; ERestart 3 [1;2] 0 0 1;
   EConnect 1 2; EConnect 2 1; EConnect 1 3; EConnect 3 1; EConnect 2 3; EConnect 3 2;
   T 50 1; D 51 1 2; D 51 1 3; D 52 2 1; D 52 3 1;
   D 53 1 2; D 53 1 3; D 54 2 1; D 54 3 1;
   T 65 1; D 66 1 2; D 66 1 3; D 67 2 1; D 67 3 1;
   T 68 2; T 68 3;
   ESubmit 1 (cmdN 5) 0; ESubmit 2 (cmdN 7) 21;
   T 69 2; D 70 2 1; T 76 1;
   D 77 1 2; D 77 1 3; D 77 1 2;
   T 120 3; D 121 3 2; D 122 2 3;
   D 123 3 2; D 124 2 3;
   ESetVer 3 (cmdV 1) 31; T 131 3; T 142 3; D 143 3 2; D 144 2 3;
   T 153 3; D 154 3 2; T 155 2; T 165 2].

Example lost_callback_on_a_run :
  exists g n2,
    NoDup (flat_map ev_ids lost_cb_trace) /\
    run_outcomes cx ginit lost_cb_trace = Some (g, [(31, 0, SUCCESS)]) /\
    aget 2 (nodes g) = Some n2 /\
    commit n2 = 4 /\ applied n2 = 3 /\ wait_commit n2 = [] /\ wait_reply n2 = [] /\ queue n2 = [] /\
    map (fun e => (eidx e, eterm e, ck (ecmd e))) (log n2) = [(2, 1, 1); (3, 2, 1); (4, 2, 3)].
Proof.
  eexists. eexists. split. { cbn. repeat constructor; cbn; intuition discriminate. }
  split; [vm_compute; reflexivity|]. split; [vm_compute; reflexivity|].
  vm_compute. repeat split; reflexivity.
Qed.
