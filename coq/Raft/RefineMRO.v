(* Tier CM, part 9b (copy-and-adapt of RefineRO.v): read-only nodes.  They are not part of the abstract cluster: every step of a
   read-only node (self = None, role = FOLLOWER for ever) is a stutter of L0.  What has to be shown
   is L1 hygiene: the node keeps its serializer idle and its log/queue small, and it only ever sends
   NextIdx / ApplyCmd / ApplyResp messages (never a vote request, a vote, or append_entries). *)
From Coq Require Import ZArith NArith List Bool Lia ZifyBool Arith PeanoNat.
From RecordUpdate Require Import RecordSet.
From PSO Require Import Raft.Types Raft.Node Raft.Net Raft.ProofsCommitBase.
From PSO Require Import Raft.ProofsCommit Raft.ProofsElectionBase Raft.ProofsMembership.
From PSO Require Import Raft.RefineMAbs Raft.RefineMSpecA Raft.RefineMSim
  Raft.RefineMTickA Raft.RefineMTickB Raft.RefineMMsgB.
Import ListNotations.
Import RecordSetNotations.
Open Scope N_scope.

Section RO.
Variable c : conf.
Hypothesis Hdyn : dyn c = true.
Hypothesis Hfd : file_dump c = false.
Variable e : env.
Hypothesis Hc : cf e = c.

Notation Hn := (Hr c).

Definition hvr (x : node) := (sr x, log x, queue x, replay_idx x, applied x, readonly x, commit x).

Lemma Hr_hv x y : hvr y = hvr x -> Hn x -> Hn y.
Proof.
  intros H [A1 A2 A3 A4 A5 A6 A7 A8]. unfold hvr in H. injection H as E1 E2 E3 E4 E5 E6 E7.
  constructor; rewrite ?E1, ?E2, ?E3, ?E4, ?E5, ?E6, ?E7; auto.
Qed.

Lemma fv_hvr x y : fv x = fv y -> hvr x = hvr y.
Proof. intros H. fvinj H. unfold hvr. congruence. Qed.

Definition ro_msg (m : msg) : Prop :=
  match m with
  | NextIdx _ _ _ _ | ApplyResp _ _ _ _ => True
  | ApplyCmd cm _ => small_cmd c cm
  | _ => False
  end.

Definition ro_out (o : out) : Prop := match o with Send _ m => ro_msg m | _ => True end.

Record ROS (S : Node.S) : Prop := {
  RO_h : Hn (nd S);
  RO_self : self (nd S) = None;
  RO_role : role (nd S) = FOLLOWER;
  RO_o : Forall ro_out (outs S)
}.

Lemma nosend_ro o : nosend o -> ro_out o.
Proof. destruct o; cbn; auto. intros []. Qed.

Lemma ROS_keep (S S' : Node.S) :
  ROS S -> Hn (nd S') -> self (nd S') = self (nd S) -> role (nd S') = role (nd S) ->
  grow ro_out S S' -> ROS S'.
Proof.
  intros [A1 A2 A3 A4] HH Hs Hr (new & O & G). constructor; auto; try congruence.
  rewrite O. apply Forall_app. auto.
Qed.

Lemma ROS_quiet (S S' : Node.S) : ROS S -> fv (nd S') = fv (nd S) -> grow nosend S S' -> ROS S'.
Proof.
  intros R0 F G. fvinj_n F F. apply (ROS_keep S S'); auto.
  - eapply Hr_hv; [|apply (RO_h _ R0)]. apply fv_hvr. exact F.
  - eapply grow_mono; [|exact G]. apply nosend_ro.
Qed.

Lemma ROS_same (S S' : Node.S) : ROS S -> nd S' = nd S -> outs S' = outs S -> ROS S'.
Proof. intros R0 E1 E2. apply (ROS_quiet S S'); auto; [rewrite E1; reflexivity|apply grow_eq; auto]. Qed.

Lemma ROS_app (S S' : Node.S) : ROS S -> app_rel S S' -> applied (nd S') <= commit (nd S) -> ROS S'.
Proof.
  intros R0 (A & B & G) Hac. destruct (fvA_eq _ _ A) as (E1 & E2 & E3 & E4 & E5 & E6 & E7 & E8 & E9 & E10 & E11).
  destruct (rv_eq _ _ E3) as (Er & _).
  apply (ROS_keep S S'); auto.
  - destruct (RO_h _ R0) as [B1 B2 B3 B4 B5 B6 B7 B8]. destruct (rv_eq _ _ E3) as (_ & _ & _ & _ & _ & Ec & _).
    constructor; try congruence; lia.
  - eapply grow_mono; [|exact G]. apply nosend_ro.
Qed.

Definition rosf (f : Node.S -> Node.S) : Prop := forall S, ROS S -> ROS (f S).
Definition rosc (f : Node.S -> Node.S) : Prop := forall S, ROS S -> pid (sr (nd (f S))) = 0 -> ROS (f S).

Lemma rosf_andthen f g : rosf f -> rosf g -> rosf (f ;; g).
Proof. intros Hf Hg S R0. rewrite andthen_eq. destruct (ok (f S)); auto. Qed.

Lemma rosc_andthen f g : rosf f -> rosc g -> rosc (f ;; g).
Proof. intros Hf Hg S R0. rewrite andthen_eq. destruct (ok (f S)); auto. Qed.

(* ---- the phases of a tick ---- *)
Lemma ro_tick_load : rosf (tick_load e).
Proof.
  intros S R0. unfold tick_load. rewrite Hc, Hfd, andb_false_r.
  apply (ROS_quiet S); [exact R0|reflexivity|apply grow_upd].
Qed.

Lemma ro_tick_timer : rosf (tick_timer e).
Proof.
  intros S R0. unfold tick_timer. destruct (_ <? _)%Z; [|exact R0].
  apply (ROS_quiet S); [exact R0|reflexivity|apply grow_upd].
Qed.

Lemma ro_tick_ready : rosf tick_ready.
Proof.
  intros S R0. unfold tick_ready. destruct (_ && _); [|exact R0].
  apply (ROS_quiet S); [exact R0|reflexivity|apply grow_upd].
Qed.

Lemma ro_tick_election : rosf (tick_election e).
Proof. intros S R0. unfold tick_election. rewrite (RO_self _ R0). exact R0. Qed.

Lemma ro_tick_leader : rosf (tick_leader e).
Proof. intros S R0. unfold tick_leader. rewrite (RO_role _ R0). exact R0. Qed.

Lemma ro_tick_send need : rosf (tick_send e need).
Proof. intros S R0. unfold tick_send. rewrite (RO_role _ R0). exact R0. Qed.

Lemma ro_check_one cm cbk S : ROS S -> small_cmd c cm -> ROS (check_one e cm cbk S).
Proof.
  intros R0 Hs. unfold check_one. rewrite (RO_role _ R0). cbn [N.eqb FOLLOWER LEADER].
  destruct (leader (nd S)) as [l|].
  - destruct cbk as [|id|rn rid].
    + apply (ROS_keep S); auto; rewrite ?nd_send; auto; [apply (RO_h _ R0)|]. apply grow_send. exact Hs.
    + apply (ROS_keep S); auto; rewrite ?nd_send, ?nd_upd; auto.
      * eapply Hr_hv; [|apply (RO_h _ R0)]. reflexivity.
      * eapply grow_trans; [apply grow_upd|]. apply grow_send. exact Hs.
    + apply (ROS_keep S); auto; rewrite ?nd_send; auto; [apply (RO_h _ R0)|]. apply grow_send. exact I.
  - apply (ROS_keep S); auto; rewrite ?nd_call_err; auto; [apply (RO_h _ R0)|].
    destruct cbk as [|id|rn rid]; cbn [call_err]; [apply grow_refl|apply grow_emit; exact I|apply grow_send; exact I].
Qed.

Lemma ro_check_loop fuel start : rosf (check_loop fuel e start).
Proof.
  induction fuel as [|f IH]; intros S R0; cbn [check_loop]; [exact R0|].
  destruct (_ <? _)%Z; [|exact R0].
  assert (Hgo : ROS (match queue (nd S) with
                     | [] => S
                     | (cm, cbk) :: rest =>
                         let s0 := upd (fun n0 => n0 <| queue := rest |>) S in
                         let s0 := check_one e cm cbk s0 in
                         if ok s0 then check_loop f e start s0 else s0
                     end)).
  { destruct (queue (nd S)) as [|[cm cbk] rest] eqn:Eq; [exact R0|]. cbv zeta.
    pose proof (RO_h _ R0) as HH.
    assert (Hq : Forall (fun q => small_cmd c (fst q)) ((cm, cbk) :: rest)) by (rewrite <- Eq; apply (Hr_queue _ _ HH)).
    pose proof (Forall_inv Hq) as Hcm. pose proof (Forall_inv_tail Hq) as Hrest. cbn [fst] in Hcm.
    set (s0 := upd (fun n0 => n0 <| queue := rest |>) S).
    assert (R1 : ROS s0).
    { apply (ROS_keep S s0); auto; [|apply grow_upd].
      destruct HH as [B1 B2 B3 B4 B5 B6 B7]. constructor; unfold s0; rewrite ?nd_upd; cbn; auto. }
    pose proof (ro_check_one cm cbk s0 R1 Hcm) as R2.
    destruct (ok (check_one e cm cbk s0)); auto. }
  destruct (leader (nd S)); [exact Hgo|].
  destruct (wait_leader (cf e)); [exact R0|exact Hgo].
Qed.

Lemma ro_check_commands : rosf (check_commands e).
Proof. intros S R0. unfold check_commands. apply ro_check_loop. exact R0. Qed.

Lemma ro_try_compact : rosc (try_compact e).
Proof.
  intros S R0. unfold try_compact. cbv zeta.
  rewrite (Hr_pid _ _ (RO_h _ R0)). cbn [N.eqb negb].
  destruct (_ && _); [intros _; exact R0|].
  destruct (get_entries _ _ _ _) as [|e0 [|e1 r]].
  - intros _. apply (ROS_quiet S); [exact R0|reflexivity|]. eapply grow_trans; apply grow_upd.
  - intros _. apply (ROS_quiet S); [exact R0|reflexivity|]. eapply grow_trans; apply grow_upd.
  - destruct (opt_eqb _ _).
    + intros _. apply (ROS_quiet S); [exact R0|reflexivity|]. eapply grow_trans; apply grow_upd.
    + intros P. cbn in P. discriminate.
Qed.

Lemma ro_tick_tail :
  rosc (fun s => let (s, need) := apply_entries e s in
                 if ok s then (tick_send e need ;; tick_ready ;; check_commands e ;; try_compact e) s else s).
Proof.
  intros S R0.
  pose proof (apply_entries_spec e S (Hr_rinv _ _ (RO_h _ R0))) as A.
  pose proof (apply_entries_bound e S (Hr_ac _ _ (RO_h _ R0))) as Bd.
  destruct (apply_entries e S) as [S1 need]. cbn [fst] in A, Bd.
  assert (R1 : ROS S1) by (eapply ROS_app; eauto).
  destruct (ok S1); [|intros _; exact R1].
  assert (T : rosc (tick_send e need ;; tick_ready ;; check_commands e ;; try_compact e)).
  { apply rosc_andthen; [apply ro_tick_send|].
    apply rosc_andthen; [apply ro_tick_ready|].
    apply rosc_andthen; [apply ro_check_commands|].
    apply ro_try_compact. }
  exact (T S1 R1).
Qed.

Lemma ro_on_tick x :
  ROS (start_S e x) -> pid (sr (nd (on_tick e x))) = 0 -> ROS (on_tick e x).
Proof.
  intros R0. unfold on_tick.
  assert (T : rosc (tick_load e ;; tick_timer e ;; tick_election e ;; tick_leader e ;;
     (fun s => let (s, need) := apply_entries e s in
               if ok s then (tick_send e need ;; tick_ready ;; check_commands e ;; try_compact e) s else s))).
  { apply rosc_andthen; [apply ro_tick_load|].
    apply rosc_andthen; [apply ro_tick_timer|].
    apply rosc_andthen; [apply ro_tick_election|].
    apply rosc_andthen; [apply ro_tick_leader|].
    apply ro_tick_tail. }
  exact (T (start_S e x) R0).
Qed.

(* ---- messages ---- *)
(* what a read-only node needs to know about a message it receives *)
Definition ro_in (m : msg) : Prop :=
  match m with
  | AE _ _ (Some _) es => Forall (small c) es
  | AEPiece _ _ _ _ _ _ _ => False
  | AESnap _ _ p => p = SNone
  | ApplyCmd cm _ => small_cmd c cm
  | _ => True
  end.

Lemma ro_submit cm cbk S : ROS S -> small_cmd c cm -> ROS (submit e cm cbk S).
Proof.
  intros R0 Hs. unfold submit. destruct (_ <? _).
  - apply (ROS_keep S); auto; rewrite ?nd_call_err; auto; [apply (RO_h _ R0)|].
    destruct cbk as [|id|rn rid]; cbn [call_err]; [apply grow_refl|apply grow_emit; exact I|apply grow_send; exact I].
  - apply (ROS_keep S); auto; [|apply grow_upd].
    destruct (RO_h _ R0) as [B1 B2 B3 B4 B5 B6 B7]. constructor; rewrite ?nd_upd; cbn; auto.
    apply Forall_app. split; auto.
Qed.

Lemma fail_reply_ro from o : is_fail_reply from o -> ro_out o.
Proof. intros [H|(t & nx & r & ->)]; [apply nosend_ro; auto|exact I]. Qed.

Lemma delete_from_small (P : entry -> Prop) l k : Forall P l -> Forall P (delete_from l k).
Proof. intros H. unfold delete_from. destruct (_ <? _); auto. apply Forall_firstn. exact H. Qed.

Lemma ro_on_append_entries a m t cm x :
  ROS (start_S e x) -> ro_in m ->
  (m = AE t cm (match m with AE _ _ p _ => p | _ => None end) (match m with AE _ _ _ es => es | _ => [] end) \/
   m = AESnap t cm SNone) ->
  ROS (on_append_entries e a m t cm (start_S e x)).
Proof.
  intros R0 Hin Hm. set (S0 := start_S e x) in *.
  rewrite on_append_entries_eq.
  destruct (t <? term (nd S0)); [exact R0|].
  destruct (ae_pre_spec e a t cm S0) as [F1 G1].
  set (S1 := ae_pre e a t cm S0) in *. clearbody S1.
  assert (Hd : dyn (cf e) = true) by (rewrite Hc; exact Hdyn).
  assert (R1 : ROS S1).
  { fvinj_n F1 P. apply (ROS_keep S0 S1); auto.
    - eapply Hr_hv; [|apply (RO_h _ R0)]. exact (fv_hvr _ _ F1).
    - rewrite Prole. symmetry. apply (RO_role _ R0).
    - eapply grow_mono; [|exact G1]. apply nosend_ro. }
  assert (Hfail : forall S', nd S' = nd S1 -> grow (is_fail_reply a) S1 S' -> ROS S').
  { intros S' En G. apply (ROS_keep S1 S'); auto; try congruence.
    - rewrite En. apply (RO_h _ R1).
    - eapply grow_mono; [|exact G]. apply fail_reply_ro. }
  destruct Hm as [Hm| ->].
  - destruct m as [| |t' cm' prev es| | | | |]; try discriminate. injection Hm as -> ->. cbn [ae_body_of].
    destruct prev as [[pidx pterm]|].
    2:{ destruct (ae_regular_fail_none e a cm es S1) as [En G]. apply Hfail; auto. }
    cbn in Hin.
    destruct (get_entries (log (nd S1)) (Some pidx) None None) as [|p0 ptail] eqn:Ege.
    { destruct (ae_regular_fail_empty e a cm pidx pterm es S1 Ege) as [En G]. apply Hfail; auto. }
    destruct (N.eq_dec (eterm p0) pterm) as [Hpt|Hpt].
    2:{ destruct (ae_regular_fail_term e a cm pidx pterm es S1 p0 ptail Ege Hpt) as [En G]. apply Hfail; auto. }
    destruct (ae_regular_succ e Hd a cm pidx pterm es S1 p0 ptail Ege Hpt) as [F2 G2]. cbv zeta in F2, G2.
    set (S2 := ae_regular e a cm (Some (pidx, pterm)) es S1) in *. clearbody S2.
    destruct (fvo_eq _ _ F2) as (Qself & Qrole & Qterm & Qvoted & Qvotes & Qlog & Qcommit & Qsr & Qqueue & Qapplied &
                                Qreplay & Qro & _ & _).
    cbn in Qself, Qrole, Qterm, Qvoted, Qvotes, Qlog, Qcommit, Qsr, Qqueue, Qapplied, Qreplay, Qro.
    apply (ROS_keep S1 S2); auto.
    + destruct (RO_h _ R1) as [B1 B2 B3 B4 B5 B6 B7 B8]. constructor; try congruence.
      * rewrite Qlog. apply Forall_app. split; [|apply Forall_skipn; exact Hin].
        destruct (truncating _ _); auto. apply delete_from_small. exact B4.
      * rewrite Qreplay, Qapplied. destruct (truncating _ _); lia.
      * rewrite Qapplied, Qcommit. destruct (commit (nd S1) <? cm); lia.
    + eapply grow_mono; [|exact G2]. intros o [Ho| ->]; [apply nosend_ro; exact Ho|exact I].
  - cbn [ae_body_of set_transmission andb]. unfold ae_commit.
    apply (ROS_quiet S1); [exact R1|reflexivity|apply grow_upd].
Qed.

Lemma ro_on_message a m x :
  ROS (start_S e x) -> ro_in m -> ROS (on_message e a m x).
Proof.
  intros R0 Hin. unfold on_message. set (S0 := start_S e x) in *.
  destruct m as [t li lt|t|t cm prev es|t cm prev lab off len en|t cm p|cm req|req okr p q|t nx rs su].
  - rewrite (RO_self _ R0). exact R0.
  - rewrite (RO_role _ R0). exact R0.
  - apply ro_on_append_entries; [exact R0|exact Hin|left; reflexivity].
  - destruct Hin.
  - cbn in Hin. subst p. apply ro_on_append_entries; [exact R0|reflexivity|right; reflexivity].
  - apply ro_submit; auto.
  - destruct (aget req (wait_reply (nd S0))) as [cbk|]; [|exact R0].
    set (S1 := upd _ S0).
    assert (R1 : ROS S1) by (apply (ROS_quiet S0); [exact R0|reflexivity|apply grow_upd]).
    clearbody S1.
    destruct (negb okr).
    + apply (ROS_quiet S1); [exact R1|rewrite nd_fire; reflexivity|apply grow_fire; auto].
    + destruct (p <=? applied (nd S1)).
      * apply (ROS_quiet S1); [exact R1|rewrite nd_fire; reflexivity|apply grow_fire; auto].
      * apply (ROS_quiet S1); [exact R1|reflexivity|apply grow_upd].
  - rewrite (RO_role _ R0). exact R0.
Qed.

End RO.
