(* C20: while a leader is cut off, SUCCESS only goes to callbacks registered under indices that a frozen
   majority has matched; reachable-state forms of the commit bound. *)
From Coq Require Import ZArith NArith List Bool Lia ZifyBool ZifyN.
From RecordUpdate Require Import RecordSet.
From PSO Require Import Raft.Types Raft.Node Raft.Net Raft.Obs.
From PSO Require Raft.ProofsMembership Raft.ProofsCommitLog Raft.ProofsCommitGlobal.
From PSO Require Import Raft.ProofsReadonlyFrames Raft.ProofsReadonlyA Raft.ProofsReadonlyB.
From PSO Require Import Raft.ProofsReadonlyD Raft.ProofsReadonlyE Raft.ProofsReadonlyFinal.
From PSO Require Import Raft.ProofsFallbackA Raft.ProofsFallbackB Raft.ProofsFallbackC Raft.ProofsFallbackInv.
From PSO Require Import Raft.ProofsFallbackSlots Raft.ProofsFallbackFinal Raft.ProofsFallbackSlotsGlobal.
From PSO Require Import Raft.ProofsFallbackSuccess.
Import ListNotations.
Import RecordSetNotations.
Open Scope N_scope.

(* every SUCCESS fired by L in this step goes to a callback that L had registered, at the start of the
   step, under an index <= K *)
Definition success_below (L : nid) (K : N) (g : gstate) (ev : event) (r : option (nid * S)) : Prop :=
  forall s, r = Some (L, s) -> forall cb res, In (Fired cb res SUCCESS) (outs s) ->
    exists n k tm, aget L (nodes g) = Some n /\ registered n k tm cb /\ k <= K.

Lemma ns_start_no_success : forall e n s cb res, ns (start_S e n) s -> ~ In (Fired cb res SUCCESS) (outs s).
Proof.
  intros e n s cb res (ex & O & F) Hi. rewrite O in Hi. cbn in Hi. rewrite Forall_forall in F. apply (F _ Hi). reflexivity.
Qed.

Lemma cut_success_run : forall c L n0 K evs g n,
  conf_period_ok c -> others n0 <> [] -> Forall (fun x => x < RO_BASE) (others n0) ->
  (forall j, K < j -> majority (match_count j n0) n0 = false) ->
  aget L (nodes g) = Some n -> cut_inv n0 n -> commit n <= K ->
  ProofsCommitGlobal.gwf g -> Forall ProofsCommitGlobal.ev_ok evs ->
  steps_sat (cut_quiet L) c g evs -> steps_sat (success_below L K) c g evs.
Proof.
  intros c L n0 K evs; induction evs as [|ev evs IH]; intros g n Hp Hne Hro HK Hx HI HC HW HE HS; cbn [steps_sat] in *; [exact I|].
  destruct (gstep c g ev) as [[g' r]|] eqn:E; [|exact I]. destruct HS as (HQ & HS).
  inversion HE as [|? ? He HE']; subst.
  destruct (cut_gstep c L n0 (Some K) g ev g' r n Hp Hne Hro HK E HQ Hx HI HC) as (n' & X' & I' & C' & _ & ET).
  split; [|eapply IH; eauto; eapply ProofsCommitGlobal.gstep_gwf; eauto].
  intros s -> cb res Hin.
  destruct HQ as (_ & HQ). destruct (HQ s eq_refl) as (D1 & D2 & D3).
  destruct (gstep_inv _ _ _ _ _ E) as [[Ee _] | (x & pre & s' & Ee & Hn & _)]; [discriminate|].
  inversion Ee; subst x s'. destruct pre as [m|].
  2:{ destruct (nstep_fresh _ _ _ _ _ Hn) as (oth & now & rnd & sv & Eev & _). exfalso; eapply D2; eauto. }
  pose proof (nstep_pre _ _ _ _ _ _ Hn) as Hx'. rewrite Hx in Hx'. inversion Hx'; subst m.
  exists n. inversion Hn; subst.
  - destruct HI as (J1 & J2 & _).
    assert (majority 1 n = false) as Hm1 by (apply majority_one; rewrite J2; exact Hne).
    pose proof (ProofsCommitGlobal.gwf_node g L n HW Hx) as (Hcs & _).
    destruct (tick_success_registered (mk_env c now rnd bud ord sl) n Hp J1 Hm1 Hcs D3 cb res Hin) as (k & tm & Hreg & Hk).
    exists k, tm. split; [exact Hx|]. split; [exact Hreg|].
    rewrite (ET _ _ _ _ _ eq_refl) in C'. cbn in C'. lia.
  - exfalso. eapply D1; reflexivity.
  - destruct Hin.
  - destruct Hin.
  - exfalso. eapply ns_start_no_success; [|exact Hin]. unfold api_submit, submit.
    destruct (_ <? _); [apply ns_call_err; discriminate | apply ns_upd].
  - exfalso. eapply ns_start_no_success; [|exact Hin]. unfold api_admin, submit; cbv zeta.
    destruct (dyn _); [|apply ns_raise]. destruct (_ <? _); [apply ns_call_err; discriminate | apply ns_upd].
  - exfalso. eapply ns_start_no_success; [|exact Hin]. unfold api_setver, submit; cbv zeta.
    destruct (_ || _); [apply ns_raise|]. destruct (_ <? _); [apply ns_call_err; discriminate | apply ns_upd].
  - destruct Hin.
Qed.

(* from a reachable state *)
Lemma reachable_state_facts : forall c evs0 g0 L n0,
  (0 <= period c)%Z -> Forall slot_valid evs0 -> run_trace c ginit evs0 = Some g0 ->
  aget L (nodes g0) = Some n0 -> role n0 = LEADER ->
  need_load n0 = false /\ Forall (fun x => x < RO_BASE) (others n0) /\ ProofsCommitGlobal.gwf g0.
Proof.
  intros c evs0 g0 L n0 Hp HV HR Hx Hl.
  destruct (Forall_and_l _ _ _ HV) as (V1 & V2).
  assert (reach voters_named_below_RO_BASE c g0) as Hr by (exists evs0; auto).
  apply reach_reachable_by in Hr.
  split; [|split].
  - eapply leader_has_ticked; [exact Hp | | exact Hx | rewrite Hl; discriminate].
    eapply reachable_by_weaken; [|exact Hr]. intros; exact I.
  - pose proof (g_ok_node _ _ _ (g_ok_reachable _ _ Hr) Hx) as (Ho & _). exact Ho.
  - apply (ProofsCommitGlobal.reachable_gwf c evs0 g0 V2 HR).
Qed.

Theorem C20_no_commit_when_cut_reachable_thm : forall c evs0 g0 L n0 K evs g,
  (0 <= period c)%Z ->
  Forall slot_valid evs0 -> run_trace c ginit evs0 = Some g0 ->
  aget L (nodes g0) = Some n0 -> role n0 = LEADER -> others n0 <> [] ->
  commit n0 <= K -> (forall j, K < j -> majority (match_count j n0) n0 = false) ->
  steps_sat (cut_quiet L) c g0 evs -> run_trace c g0 evs = Some g ->
  exists n, aget L (nodes g) = Some n /\ commit n <= K /\
            (role n = LEADER -> forall x, In x (others n0) -> aget x (match_idx n) = aget x (match_idx n0)).
Proof.
  intros c evs0 g0 L n0 K evs g Hp HV HR0 Hx Hl Hne HC HK HS HR.
  destruct (reachable_state_facts c evs0 g0 L n0 Hp HV HR0 Hx Hl) as (Hn & Hro & _).
  eapply C20_no_commit_when_cut_partial_final; eauto.
Qed.

Theorem C20_no_success_when_cut_thm : forall c evs0 g0 L n0 K evs,
  (0 <= period c)%Z ->
  Forall slot_valid evs0 -> run_trace c ginit evs0 = Some g0 ->
  aget L (nodes g0) = Some n0 -> role n0 = LEADER -> others n0 <> [] ->
  commit n0 <= K -> (forall j, K < j -> majority (match_count j n0) n0 = false) ->
  Forall ProofsCommitGlobal.ev_ok evs ->
  steps_sat (cut_quiet L) c g0 evs ->
  steps_sat (success_below L K) c g0 evs.
Proof.
  intros c evs0 g0 L n0 K evs Hp HV HR0 Hx Hl Hne HC HK HE HS.
  destruct (reachable_state_facts c evs0 g0 L n0 Hp HV HR0 Hx Hl) as (Hn & Hro & HW).
  eapply cut_success_run; eauto.
  split; [exact Hn | split; [reflexivity | auto]].
Qed.

(* What remains of "a cut-off leader never acknowledges a command with SUCCESS": commands submitted to L
   after the cut are registered under indices > last_idx (log n0); to conclude from the theorem above that
   they never fire SUCCESS one needs K <= last_idx (log n0), i.e. the reachable-state invariants
   "matchIndex[x] <= last index of the leader's log" and "commit <= last index", which are not proved here. *)
Definition C20_no_success_when_cut_full : Prop :=
  forall c evs0 g0 L n0 evs,
  (0 <= period c)%Z ->
  Forall slot_valid evs0 -> run_trace c ginit evs0 = Some g0 ->
  aget L (nodes g0) = Some n0 -> role n0 = LEADER -> others n0 <> [] ->
  Forall ProofsCommitGlobal.ev_ok evs ->
  steps_sat (cut_quiet L) c g0 evs ->
  steps_sat (success_below L (last_idx (log n0))) c g0 evs.

(* the example run of ProofsFallbackFinal: K = 1; the command submitted to the cut-off leader (callback 5,
   registered under index 3) is still pending at the end and never fired SUCCESS *)
Example C20_no_success_example :
  let evs := ex_cut1 ++ ETick 0 2030 0 30 [] 0 :: ex_cut2 in
  Forall slot_valid ex_boot /\ run_trace xc ginit ex_boot = Some ex_g0 /\
  aget 0 (nodes ex_g0) = Some ex_n0 /\ role ex_n0 = LEADER /\ others ex_n0 <> [] /\
  commit ex_n0 <= 1 /\ (forall j, 1 < j -> majority (match_count j ex_n0) ex_n0 = false) /\
  Forall ProofsCommitGlobal.ev_ok evs /\ steps_sat (cut_quiet 0) xc ex_g0 evs /\
  steps_sat (success_below 0 1) xc ex_g0 evs /\
  exists g n, run_trace xc ex_g0 evs = Some g /\ aget 0 (nodes g) = Some n /\
              wait_commit n = [(3, [(1, CbLocal 5)])] /\ commit n = 1.
Proof.
  cbv zeta.
  destruct slot_valid_example as (HV & HR & _).
  destruct ex_state_hyps as (Hx & Hl & _ & Ho & _).
  destruct C20_no_commit_example as (HC & HK).
  assert (Forall ProofsCommitGlobal.ev_ok (ex_cut1 ++ ETick 0 2030 0 30 [] 0 :: ex_cut2)) as HE by (repeat constructor).
  assert (steps_sat (cut_quiet 0) xc ex_g0 (ex_cut1 ++ ETick 0 2030 0 30 [] 0 :: ex_cut2)) as HS
    by (apply quiet_run_b_sound; vm_compute; reflexivity).
  assert (others ex_n0 <> []) as Hne by (rewrite Ho; discriminate).
  split; [exact HV|]. split; [exact HR|]. split; [exact Hx|]. split; [exact Hl|]. split; [exact Hne|].
  split; [exact HC|]. split; [exact HK|]. split; [exact HE|]. split; [exact HS|].
  split.
  - assert ((0 <= period xc)%Z) as Hp by (cbn; lia).
    exact (C20_no_success_when_cut_thm xc ex_boot ex_g0 0 ex_n0 1 _ Hp HV HR Hx Hl Hne HC HK HE HS).
  - destruct (run_trace xc ex_g0 (ex_cut1 ++ ETick 0 2030 0 30 [] 0 :: ex_cut2)) as [g|] eqn:E; [|vm_compute in E; discriminate E].
    destruct (aget 0 (nodes g)) as [n|] eqn:En; [|vm_compute in E; inversion E; subst g; vm_compute in En; discriminate En].
    exists g, n. split; [reflexivity|]. split; [exact En|].
    vm_compute in E. inversion E; subst g. vm_compute in En. inversion En; subst n. vm_compute. split; reflexivity.
Qed.
