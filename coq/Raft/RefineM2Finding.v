(* Tier CM2, FINDING (KF candidate): a snapshot taken by a NEW voter at a position BEFORE its own addition
   carries the new voter in its member set (__tryLogCompaction: cluster = otherNodes | {selfNode};
   __clusterBeforeChange skips entries naming the node itself).  A voter that installs this snapshot
   (__updateClusterConfiguration) gets a member table that its full log does not define.  If the
   addition is later overwritten, the table stays wrong for ever, and two disjoint "majorities" exist:
   a committed entry is replaced by another committed entry (State Machine Safety broken).

   The run below is inside the Tier CM fragment except for [nodes_idleM] (i.e. compaction allowed):
   dyn, memory snapshots, small commands, every voter started once with the INITIAL list, join_ok,
   tg_ok (every node that times out is a member by its own log).  It also respects the transport's
   MEMBER FILTER ([filter_ok]: a message from a is handled by b only while b is in a's member table and
   a is in b's; connections are only made between such pairs).  Initial members {1,2,3,4}, new voters 5, 6.
     p1  node 2 wins term 1 with {2,1,3}; its no-op (index 2) is committed.
     p2  node 5 is started; node 2 appends "add 5" = (3, term 1): it reaches nobody (node 2 lists 5 from now on).
     p3  node 1 wins term 2 with {1,3,4}; entries 3,4,5 (term 2) committed by {1,3,4}; node 1 appends
         "add 5" = (6, term 2), which reaches node 5 only, with commit index 5; node 5 applies ..5, takes a
         snapshot at index 5 - member set [1;2;3;4;5], the configuration at index 5 is {1,2,3,4} - and cuts
         its log (first index 4).
     p4  node 5 (a member by its own log: entry 6) wins term 3 with {5,1,2} (1 and 2 list 5); node 2
         (log 1..3) rejects, node 5 sends the snapshot, node 2 installs it: log [4;5], others = [1;3;4;5],
         but its full log (1..5 of the main line) has no "add 5".
     p5  node 3 wins term 4 with {3,4,2}; its no-op (6, term 4) overwrites "add 5" at node 1 and is appended
         by node 2; node 6 is started, "add 6" = (7, term 4) is committed by {3,4,6} of {1,2,3,4,6}, entry 8 too.
     p6  node 2 times out: by its table {2,1,3,4,5} the votes of 1 and 5 make a majority (term 5); its
         no-op = (7, term 5) is acknowledged by 1 and 5 and committed.
   Result: node 3 (commit 8) holds (7, term 4, add 6), node 2 (commit 7, applied 7) holds (7, term 5, no-op). *)
From Coq Require Import ZArith NArith List Bool Lia.
From RecordUpdate Require Import RecordSet.
From PSO Require Import Raft.Types Raft.Node Raft.Net Raft.Obs.
From PSO Require Import Raft.ProofsElectionGhost Raft.RefineMAbs Raft.RefineMMain.
Import ListNotations.
Import RecordSetNotations.
Open Scope N_scope.

(* period tmin tspan fallback batch chunk use_batch dyn wait_leader min_entries min_time qsize noop_pk
   file_dump file_journal *)
Definition fc : conf := mkConf 10 40 20 100 1000 1000000 true true true 1000 100000 10 5 false false.
Definition fV : list nid := [1; 2; 3; 4].
Definition T (z : Z) (n : N) : event := ETick n z 0 30 [] 9.
Definition D (z : Z) (a b : N) : event := EDeliver a b z 0 [].
Definition cx (k : N) : cmd := mkCmd 0 k 0 1 10.
Definition add (x : N) : cmd := mkCmd 2 1 x 1 10.

Definition p1 : list event :=
  [ERestart 1 [2;3;4] 0 0 1; ERestart 2 [1;3;4] 0 0 1; ERestart 3 [1;2;4] 0 0 1; ERestart 4 [1;2;3] 0 0 1;
   EConnect 1 2; EConnect 2 1; EConnect 1 3; EConnect 3 1; EConnect 1 4; EConnect 4 1; EConnect 2 3;
   EConnect 3 2; EConnect 2 4; EConnect 4 2; EConnect 3 4; EConnect 4 3; T 50 2; D 51 2 1; D 51 2 3;
   D 51 2 4; D 52 1 2; D 52 3 2; D 52 4 2; D 53 2 1; D 53 2 3; D 53 2 4; D 54 1 2; D 54 3 2; D 54 4 2;
   T 61 2].

Definition p2 : list event :=
  [ERestart 5 [1;2;3;4] 62 0 1; EAdmin 2 (add 5) 12; T 63 2; EConnect 5 2; EConnect 2 5; D 64 2 1; D 64 2 3;
   D 64 2 4; D 65 1 2; D 65 3 2; D 65 4 2].

Definition p3 : list event :=
  [T 105 1; D 106 1 3; D 106 1 4; ELose 1 2 1; D 107 3 1; D 107 4 1; ELose 1 2 1; D 108 1 3; D 108 1 4;
   D 109 3 1; D 109 4 1; T 110 1; ESubmit 1 (cx 7) 13; T 111 1; T 118 1; ELose 1 2 1; D 119 1 3; D 119 1 4;
   D 120 3 1; D 120 4 1; T 121 1; ESubmit 1 (cx 8) 14; T 122 1; T 129 1; ELose 1 2 1; D 130 1 3; D 130 1 4;
   D 131 3 1; D 131 4 1; T 132 1; EAdmin 1 (add 5) 15; T 133 1; EConnect 5 1; EConnect 1 5; T 140 1;
   ELose 1 2 1; ELose 1 3 1; ELose 1 4 1; D 141 1 5; D 142 5 1; T 151 1; ELose 1 2 1; ELose 1 3 1;
   ELose 1 4 1; D 152 1 5; D 153 5 1; T 154 5; ECompact 5; T 155 5; T 156 5].

Definition p4 : list event :=
  [T 193 5; D 194 5 1; D 194 5 2; D 195 1 5; D 195 2 5; D 196 5 1; D 196 5 2; D 197 1 5; D 197 2 5; T 206 5;
   ELose 5 1 1; D 207 5 2; D 207 5 2; ELose 5 2 1; ELose 2 5 1].

Definition p5 : list event :=
  [T 210 3; ELose 3 1 1; ELose 3 2 1; ELose 3 4 1; T 251 3; D 252 3 4; D 252 3 2; ELose 3 1 1; D 253 4 3;
   D 253 2 3; D 254 3 1; D 254 3 2; D 254 3 4; D 255 1 3; D 255 2 3; D 255 4 3; T 256 3;
   ERestart 6 [1;2;3;4] 257 0 1; EAdmin 3 (add 6) 16; T 258 3; EConnect 6 3; EConnect 3 6; T 264 3;
   ELose 3 1 1; ELose 3 2 1; D 265 3 4; D 265 3 6; D 266 4 3; D 266 6 3; T 275 3; ELose 3 1 1; ELose 3 2 1;
   D 276 3 4; D 276 3 6; D 277 4 3; D 277 6 3; T 278 3; ESubmit 3 (cx 9) 17; T 279 3; T 286 3; ELose 3 1 1;
   ELose 3 2 1; D 287 3 4; D 287 3 6; D 288 4 3; D 288 6 3; T 289 3].

Definition p6 : list event :=
  [T 295 2; ELose 2 3 1; ELose 2 4 1; D 296 2 1; D 296 2 5; D 297 1 2; D 297 5 2; ELose 2 3 1; ELose 2 4 1;
   D 298 2 1; D 298 2 5; D 299 1 2; D 299 5 2; T 308 2; ELose 2 3 1; ELose 2 4 1; D 309 2 1; D 309 2 5;
   D 310 1 2; D 310 5 2; T 311 2].


Definition finding_trace : list event := p1 ++ p2 ++ p3 ++ p4 ++ p5 ++ p6.

(* the per-step conditions of Tier CM without [nodes_idleM] *)
Fixpoint run_okM_compacting (c : conf) (V : list nid) (g : gstate) (evs : list event) : bool :=
  match evs with
  | [] => true
  | ev :: r =>
    small_evM c ev && join_ok V g ev &&
    match gstep c g ev with
    | Some (g', res) => tg_ok c V g ev res && run_okM_compacting c V g' r
    | None => true
    end
  end.

(* the transport's member filter, checked at every delivery and at every connection notice *)
Definition link_okb (g : gstate) (ev : event) : bool :=
  match ev with
  | EDeliver a b _ _ _ | EConnect a b =>
      if (a <? RO_BASE) && (b <? RO_BASE) then
        match aget a (nodes g), aget b (nodes g) with
        | Some xa, Some xb => smem b (others xa) && smem a (others xb)
        | _, _ => false
        end
      else true
  | _ => true
  end.

Fixpoint filter_ok (c : conf) (g : gstate) (evs : list event) : bool :=
  match evs with
  | [] => true
  | ev :: r => link_okb g ev && match gstep c g ev with Some (g', _) => filter_ok c g' r | None => false end
  end.

Example finding_in_fragment :
  dyn fc = true /\ file_dump fc = false /\ 1 < batch fc /\ validM fV finding_trace = true /\
  run_okM_compacting fc fV ginit finding_trace = true /\ filter_ok fc ginit finding_trace = true.
Proof. repeat split; vm_compute; reflexivity. Qed.

Definition lview (x : node) := map (fun e => (eidx e, eterm e, ck (ecmd e), cb (ecmd e))) (log x).

(* after p4: the snapshot of node 5 names node 5; node 2 has installed it *)
Example finding_member_set :
  exists g n2 n5 sn,
    run_trace fc ginit (p1 ++ p2 ++ p3 ++ p4) = Some g /\
    aget 2 (nodes g) = Some n2 /\ aget 5 (nodes g) = Some n5 /\
    stored (sr n5) = Some (Good sn) /\ eidx (s_e1 sn) = 5 /\ s_cluster sn = [1; 2; 3; 4; 5] /\
    lview n5 = [(4, 2, 0, 0); (5, 2, 0, 0); (6, 2, 2, 5); (7, 3, 1, 0)] /\ role n5 = LEADER /\ term n5 = 3 /\
    (* node 2: entries 4..5 of the main line held; entries 1..3 of the main line contain no membership entry *)
    lview n2 = [(4, 2, 0, 0); (5, 2, 0, 0)] /\ applied n2 = 5 /\ others n2 = [1; 3; 4; 5].
Proof.
  do 4 eexists.
  split; [vm_compute; reflexivity|]. split; [vm_compute; reflexivity|]. split; [vm_compute; reflexivity|].
  split; [vm_compute; reflexivity|]. vm_compute. repeat split; reflexivity.
Qed.

(* the end: two voters have committed (and applied) different entries at index 7 *)
Example finding_state_machine_safety_broken :
  exists g n2 n3 e2 e3,
    run_trace fc ginit finding_trace = Some g /\
    aget 2 (nodes g) = Some n2 /\ aget 3 (nodes g) = Some n3 /\
    role n3 = LEADER /\ term n3 = 4 /\ others n3 = [1; 2; 4; 6] /\ commit n3 = 8 /\ applied n3 = 8 /\
    role n2 = LEADER /\ term n2 = 5 /\ others n2 = [1; 3; 4; 5] /\ commit n2 = 7 /\ applied n2 = 7 /\
    nth_error (log n3) 6 = Some e3 /\ nth_error (log n2) 3 = Some e2 /\ eidx e3 = 7 /\ eidx e2 = 7 /\
    eterm e3 = 4 /\ eterm e2 = 5 /\ membership_of (ecmd e3) = Some (true, 6) /\ ck (ecmd e2) = 1.
Proof.
  do 5 eexists.
  split; [vm_compute; reflexivity|]. split; [vm_compute; reflexivity|]. split; [vm_compute; reflexivity|].
  vm_compute. repeat split; reflexivity.
Qed.
