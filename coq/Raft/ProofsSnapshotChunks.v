(* C09: chunked snapshot transfer.  Sender (get_transmission), receiver (set_transmission),
   restarts, no wrong snapshot, cancel on disconnect, catch-up index. *)
From Coq Require Import ZArith NArith List Bool Lia ZifyBool ZifyN.
From RecordUpdate Require Import RecordSet.
From PSO Require Import Raft.Types Raft.Node Raft.Net Raft.Obs Raft.ProofsSnapshotBase Raft.ProofsSnapshot.
Import ListNotations.
Import RecordSetNotations.
Open Scope N_scope.

(* ================= sender ================= *)
(* what the sender will read next for destination x *)
Definition cursor (s : S) (x : nid) : option (blob * N) :=
  match aget x (trans (sr (nd s))) with
  | Some t => Some t
  | None => match stored (sr (nd s)) with Some b => Some (b, 0) | None => None end
  end.

Definition set_trans (tr : list (nid * (blob * N))) (s : S) : S :=
  upd (fun n => n <| sr := (sr n) <| trans := tr |> |>) s.

Lemma get_transmission_step : forall e x s b off,
  pid (sr (nd s)) = 0 -> cursor s x = Some (b, off) ->
  let len := N.min (chunk (cf e)) (blob_len b - off) in
  get_transmission e x s =
  (set_trans (if len =? 0 then adel x (trans (sr (nd s))) else aset x (b, off + len) (trans (sr (nd s)))) s,
   SData b off len (off =? 0) (len =? 0)).
Proof.
  intros e x s b off Hp Hc len. unfold get_transmission, cursor in *. rewrite Hp. cbn [N.eqb negb].
  destruct (aget x (trans (sr (nd s)))) as [[b' o']|].
  - inversion Hc; subst. reflexivity.
  - destruct (stored (sr (nd s))); inversion Hc; subst. reflexivity.
Qed.

Lemma get_transmission_busy : forall e x s, pid (sr (nd s)) <> 0 -> get_transmission e x s = (s, SNone).
Proof.
  intros e x s H. unfold get_transmission. destruct (pid (sr (nd s)) =? 0) eqn:E; [lia|]. reflexivity.
Qed.

(* call get_transmission until the piece flagged last (or nothing) comes out *)
Fixpoint sender_run (fuel : nat) (e : env) (x : nid) (s : S) : S * list snap_part :=
  match fuel with
  | O => (s, [])
  | Datatypes.S f =>
    let (s1, p) := get_transmission e x s in
    match p with
    | SData _ _ _ _ false => let (s2, ps) := sender_run f e x s1 in (s2, p :: ps)
    | _ => (s1, [p])
    end
  end.

Definition nchunks (len ch : N) : N := (len + ch - 1) / ch.     (* ceil (len / ch) *)

Definition piece_k (b : blob) (ch : N) (k : N) : snap_part :=
  SData b (k * ch) (N.min ch (blob_len b - k * ch)) (k =? 0) false.

Definition final_piece (b : blob) : snap_part := SData b (blob_len b) 0 (blob_len b =? 0) true.

Fixpoint nseq (i : N) (r : nat) : list N :=
  match r with O => [] | Datatypes.S r' => i :: nseq (i + 1) r' end.

(* the whole transfer: offsets 0, ch, 2 ch, ..., then the empty piece flagged last *)
Definition transfer (b : blob) (ch : N) : list snap_part :=
  map (piece_k b ch) (nseq 0 (N.to_nat (nchunks (blob_len b) ch))) ++ [final_piece b].

Lemma nseq_length : forall r i, length (nseq i r) = r.
Proof. induction r; cbn; auto. Qed.

Lemma transfer_length : forall b ch,
  length (transfer b ch) = Datatypes.S (N.to_nat (nchunks (blob_len b) ch)).
Proof. intros. unfold transfer. rewrite app_length, map_length, nseq_length. cbn. lia. Qed.

Lemma ceil_lt : forall len ch i, 1 <= ch -> (i < nchunks len ch <-> i * ch < len).
Proof.
  intros len ch i Hch. unfold nchunks. split.
  - intros H. destruct (N.lt_ge_cases (i * ch) len) as [|Hge]; auto. exfalso.
    assert (Hd : (len + ch - 1) / ch < i + 1).
    { apply N.div_lt_upper_bound; lia. }
    lia.
  - intros H. assert (Hd : i + 1 <= (len + ch - 1) / ch).
    { apply N.div_le_lower_bound; lia. }
    lia.
Qed.

Definition off_of (b : blob) (ch i : N) : N :=
  if i <? nchunks (blob_len b) ch then i * ch else blob_len b.

Lemma off_of_next : forall b ch i, 1 <= ch -> i < nchunks (blob_len b) ch ->
  i * ch + N.min ch (blob_len b - i * ch) = off_of b ch (i + 1) /\
  N.min ch (blob_len b - i * ch) <> 0.
Proof.
  intros b ch i Hch Hi. unfold off_of.
  pose proof (proj1 (ceil_lt (blob_len b) ch i Hch) Hi) as H1.
  destruct (i + 1 <? nchunks (blob_len b) ch) eqn:E.
  - assert (H2 : (i + 1) * ch < blob_len b) by (apply ceil_lt; auto; lia). split; lia.
  - assert (H2 : ~ (i + 1) * ch < blob_len b).
    { intros H. apply ceil_lt in H; auto. lia. }
    split; lia.
Qed.

Lemma off_of_0 : forall b ch, 1 <= ch -> off_of b ch 0 = 0.
Proof.
  intros b ch Hch. unfold off_of. destruct (_ <? _) eqn:E; [lia|].
  destruct (N.eq_dec (blob_len b) 0) as [|Hne]; auto. exfalso.
  assert (0 < nchunks (blob_len b) ch) by (apply ceil_lt; auto; lia). lia.
Qed.

Definition trans_only (s s' : S) (x : nid) : Prop :=
  exists tr, s' = set_trans tr s /\ aget x tr = None /\
             (forall y, y <> x -> aget y tr = aget y (trans (sr (nd s)))) /\ asorted tr.

Lemma set_trans_set_trans : forall a b s, set_trans a (set_trans b s) = set_trans a s.
Proof. intros. reflexivity. Qed.

Lemma sender_run_gen : forall r e x s b i,
  1 <= chunk (cf e) -> pid (sr (nd s)) = 0 -> asorted (trans (sr (nd s))) ->
  N.of_nat r = nchunks (blob_len b) (chunk (cf e)) - i -> i <= nchunks (blob_len b) (chunk (cf e)) ->
  cursor s x = Some (b, off_of b (chunk (cf e)) i) ->
  forall fuel, (r < fuel)%nat ->
  snd (sender_run fuel e x s) =
    map (fun k => SData b (k * chunk (cf e)) (N.min (chunk (cf e)) (blob_len b - k * chunk (cf e)))
                        (k * chunk (cf e) =? 0) false) (nseq i r)
    ++ [SData b (blob_len b) 0 (blob_len b =? 0) true] /\
  trans_only s (fst (sender_run fuel e x s)) x.
Proof.
  induction r as [|r IH]; intros e x s b i Hch Hp Hs Hr Hi Hc fuel Hf.
  - destruct fuel as [|f]; [lia|]. cbn [sender_run].
    assert (Hin : i = nchunks (blob_len b) (chunk (cf e))) by lia.
    assert (Ho : off_of b (chunk (cf e)) i = blob_len b).
    { unfold off_of. destruct (_ <? _) eqn:E; auto. lia. }
    rewrite Ho in Hc.
    rewrite (get_transmission_step e x s b (blob_len b) Hp Hc).
    replace (blob_len b - blob_len b) with 0 by lia. rewrite N.min_0_r. cbn [N.eqb].
    cbn [fst snd nseq map app]. split; auto.
    exists (adel x (trans (sr (nd s)))). repeat split.
    + apply aget_adel_same; auto.
    + intros y Hy. apply aget_adel_other; auto.
    + apply asorted_adel; auto.
  - destruct fuel as [|f]; [lia|]. cbn [sender_run].
    assert (Hin : i < nchunks (blob_len b) (chunk (cf e))) by lia.
    assert (Ho : off_of b (chunk (cf e)) i = i * chunk (cf e)).
    { unfold off_of. destruct (_ <? _) eqn:E; auto. lia. }
    rewrite Ho in Hc.
    destruct (off_of_next b (chunk (cf e)) i Hch Hin) as [Hn Hz].
    rewrite (get_transmission_step e x s b _ Hp Hc).
    destruct (N.min (chunk (cf e)) (blob_len b - i * chunk (cf e)) =? 0) eqn:Ez; [lia|].
    set (s1 := set_trans _ s).
    assert (Hc1 : cursor s1 x = Some (b, off_of b (chunk (cf e)) (i + 1))).
    { subst s1. unfold cursor, set_trans, upd. cbn. rewrite aget_aset_same, Hn. reflexivity. }
    assert (Hs1 : asorted (trans (sr (nd s1)))).
    { subst s1. unfold set_trans, upd. cbn. apply asorted_aset; auto. }
    assert (Hp1 : pid (sr (nd s1)) = 0) by (subst s1; exact Hp).
    specialize (IH e x s1 b (i + 1) Hch Hp1 Hs1 ltac:(lia) ltac:(lia) Hc1 f ltac:(lia)).
    destruct (sender_run f e x s1) as [s2 ps]. cbn [fst snd] in *.
    destruct IH as [IH1 IH2]. split.
    + rewrite IH1. reflexivity.
    + destruct IH2 as (tr & E1 & E2 & E3 & E4). exists tr. repeat split; auto.
      intros y Hy. rewrite (E3 y Hy). subst s1. unfold set_trans, upd. cbn.
      apply aget_aset_other. auto.
Qed.

Lemma nseq_map_piece : forall b ch r i, 1 <= ch ->
  map (fun k => SData b (k * ch) (N.min ch (blob_len b - k * ch)) (k * ch =? 0) false) (nseq i r) =
  map (piece_k b ch) (nseq i r).
Proof.
  intros b ch r. induction r as [|r IH]; intros i Hch; cbn; auto.
  rewrite IH by auto. f_equal. unfold piece_k. f_equal.
  destruct (i =? 0) eqn:E; [|nia]. apply N.eqb_eq in E. subst. reflexivity.
Qed.

(* C09_chunk_reassembly, sender: a fresh transfer of blob b to x yields exactly `transfer b chunk`
   (ceil(len/chunk) + 1 pieces) for every sufficient fuel, and leaves no cursor for x *)
Lemma sender_transfer : forall e x s b,
  1 <= chunk (cf e) -> pid (sr (nd s)) = 0 -> asorted (trans (sr (nd s))) ->
  stored (sr (nd s)) = Some b -> aget x (trans (sr (nd s))) = None ->
  forall fuel, (N.to_nat (nchunks (blob_len b) (chunk (cf e))) < fuel)%nat ->
  snd (sender_run fuel e x s) = transfer b (chunk (cf e)) /\
  trans_only s (fst (sender_run fuel e x s)) x.
Proof.
  intros e x s b Hch Hp Hs Hst Hx fuel Hf.
  assert (Hc : cursor s x = Some (b, off_of b (chunk (cf e)) 0)).
  { unfold cursor. rewrite Hx, Hst, off_of_0; auto. }
  destruct (sender_run_gen (N.to_nat (nchunks (blob_len b) (chunk (cf e)))) e x s b 0 Hch Hp Hs
              ltac:(lia) ltac:(lia) Hc fuel Hf) as [H1 H2].
  split; auto. rewrite H1. unfold transfer, final_piece. rewrite nseq_map_piece; auto.
Qed.

(* shape of the transfer, piece by piece *)
Lemma nth_nseq : forall r i k, (k < r)%nat -> nth_error (nseq i r) k = Some (i + N.of_nat k).
Proof.
  induction r as [|r IH]; intros i k Hk; [lia|]. destruct k as [|k]; cbn.
  - f_equal. lia.
  - rewrite IH by lia. f_equal. lia.
Qed.

Lemma transfer_nth : forall b ch k, (k < N.to_nat (nchunks (blob_len b) ch))%nat ->
  nth_error (transfer b ch) k = Some (piece_k b ch (N.of_nat k)).
Proof.
  intros b ch k Hk. unfold transfer. rewrite nth_error_app1 by (rewrite map_length, nseq_length; auto).
  rewrite nth_error_map, nth_nseq by auto. reflexivity.
Qed.

Lemma transfer_last : forall b ch,
  nth_error (transfer b ch) (N.to_nat (nchunks (blob_len b) ch)) = Some (final_piece b).
Proof.
  intros b ch. unfold transfer. rewrite nth_error_app2 by (rewrite map_length, nseq_length; auto).
  rewrite map_length, nseq_length, Nat.sub_diag. reflexivity.
Qed.

(* ================= receiver ================= *)
Fixpoint recv_run (ps : list snap_part) (s : S) : S * list bool :=
  match ps with
  | [] => (s, [])
  | p :: r => let (s1, d) := set_transmission p s in
              let (s2, ds) := recv_run r s1 in (s2, d :: ds)
  end.

Definition piece_of (p : snap_part) : list piece :=
  match p with SData b o l _ _ => [(b, o, l)] | SNone => [] end.
Definition pieces_of (ps : list snap_part) : list piece := flat_map piece_of ps.

Definition is_mid (p : snap_part) : Prop := match p with SData _ _ _ false false => True | _ => False end.

Definition set_sr (z : ser) (s : S) : S := upd (fun n => n <| sr := z |>) s.

Lemma recv_mids : forall mids s acc,
  Forall is_mid mids -> incoming (sr (nd s)) = Some acc ->
  recv_run mids s =
  (set_sr ((sr (nd s)) <| incoming := Some (acc ++ pieces_of mids) |>) s, repeat false (length mids)).
Proof.
  induction mids as [|p mids IH]; intros s acc Hm Hi.
  - cbn. rewrite app_nil_r, <- Hi. unfold set_sr, upd. destruct s as [n ? ? ? ? ? ?]. cbn.
    f_equal. f_equal. destruct n; cbn. f_equal. destruct sr; reflexivity.
  - inversion Hm as [|? ? Hp Hm']; subst.
    destruct p as [|b o l [|] [|]]; cbn in Hp; try contradiction.
    cbn [recv_run set_transmission]. rewrite Hi.
    set (s1 := upd _ s).
    rewrite (IH s1 (acc ++ [(b, o, l)]) Hm') by reflexivity.
    cbn [length repeat]. f_equal. subst s1. unfold set_sr, upd. cbn.
    unfold pieces_of. cbn [flat_map piece_of]. rewrite <- app_assoc. reflexivity.
Qed.

Lemma recv_run_app : forall (l1 l2 : list snap_part) s, recv_run (l1 ++ l2) s =
  let (sa, da) := recv_run l1 s in let (sb, db) := recv_run l2 sa in (sb, da ++ db).
Proof.
  induction l1 as [|p l1 IH1]; intros l2 s0; cbn.
  - destruct (recv_run l2 s0); reflexivity.
  - destruct (set_transmission p s0) as [sx dx]. rewrite IH1.
    destruct (recv_run l1 sx). destruct (recv_run l2 s). reflexivity.
Qed.

(* the outcome of the last piece: the assembled file [B] is stored when it is a snapshot ahead of the
   node's position [applied]; otherwise it is dropped and the store keeps what it held *)
Definition recv_end (B : blob) (s : S) : S * bool :=
  if snap_ahead B (applied (nd s))
  then (set_sr ((sr (nd s)) <| stored := Some B |> <| incoming := None |>) s, true)
  else (set_sr ((sr (nd s)) <| incoming := None |>) s, false).

Lemma recv_last : forall b o l s acc, incoming (sr (nd s)) = Some acc ->
  recv_run [SData b o l false true] s =
  (fst (recv_end (assemble_snap (acc ++ [(b, o, l)])) s), [snd (recv_end (assemble_snap (acc ++ [(b, o, l)])) s)]).
Proof.
  intros b o l s acc Hi. cbn [recv_run set_transmission]. rewrite Hi. unfold recv_end.
  destruct (snap_ahead _ _); reflexivity.
Qed.

Lemma pieces_of_run : forall b0 o0 l0 f0 x0 mids bl ol ll fl xl,
  pieces_of (SData b0 o0 l0 f0 x0 :: mids ++ [SData bl ol ll fl xl]) =
  (b0, o0, l0) :: pieces_of mids ++ [(bl, ol, ll)].
Proof. intros. unfold pieces_of. cbn. rewrite flat_map_app. reflexivity. Qed.

(* a complete run: a piece flagged first, middle pieces, a piece flagged last *)
Lemma recv_complete : forall b0 o0 l0 mids bl ol ll s,
  Forall is_mid mids ->
  let ps := SData b0 o0 l0 true false :: mids ++ [SData bl ol ll false true] in
  recv_run ps s =
  (fst (recv_end (assemble_snap (pieces_of ps)) s),
   false :: repeat false (length mids) ++ [snd (recv_end (assemble_snap (pieces_of ps)) s)]).
Proof.
  intros b0 o0 l0 mids bl ol ll s Hm ps. subst ps. rewrite pieces_of_run.
  cbn [recv_run set_transmission].
  set (s1 := upd _ s).
  rewrite recv_run_app. rewrite (recv_mids mids s1 [(b0, o0, l0)] Hm) by reflexivity.
  set (s2 := set_sr _ s1).
  rewrite (recv_last bl ol ll s2 ([(b0, o0, l0)] ++ pieces_of mids)) by reflexivity.
  subst s2 s1. unfold recv_end, set_sr, upd. cbn. rewrite <- ?app_assoc. cbn.
  destruct (snap_ahead _ _); reflexivity.
Qed.

(* the degenerate run of an empty blob: one piece flagged first and last *)
Lemma recv_single : forall b o l s,
  recv_run [SData b o l true true] s =
  (fst (recv_end (assemble_snap [(b, o, l)]) s), [snd (recv_end (assemble_snap [(b, o, l)]) s)]).
Proof.
  intros. cbn [recv_run set_transmission app]. unfold recv_end. destruct (snap_ahead _ _); reflexivity.
Qed.

(* contiguous cover of a blob by its own pieces *)
Fixpoint cover (b : blob) (off : N) (ps : list piece) : Prop :=
  match ps with
  | [] => off = blob_len b
  | (b', o, l) :: r => b' = b /\ o = off /\ cover b (off + l) r
  end.

Lemma cover_contig : forall sn ps off, cover (Good sn) off ps -> pieces_contig sn off ps = true.
Proof.
  induction ps as [|[[b o] l] r IH]; intros off H; cbn in *.
  - subst. apply N.eqb_refl.
  - destruct H as (Hb & Ho & Hr). subst. rewrite snap_eqb_refl, N.eqb_refl. cbn. auto.
Qed.

Lemma cover_total : forall b ps off, cover b off ps -> off + pieces_total ps = blob_len b.
Proof.
  induction ps as [|[[b' o] l] r IH]; intros off H; cbn in *.
  - lia.
  - destruct H as (Hb & Ho & Hr). specialize (IH _ Hr). lia.
Qed.

Lemma cover_assemble : forall b ps, ps <> [] -> cover b 0 ps -> assemble_snap ps = b.
Proof.
  intros b ps Hne H. destruct ps as [|[[b' o] l] r]; [congruence|].
  pose proof (cover_total _ _ _ H) as Ht.
  pose proof H as H'. cbn in H'. destruct H' as (Hb & _ & _). subst b'.
  unfold assemble_snap. destruct b as [sn|n].
  - rewrite (cover_contig _ _ _ H). reflexivity.
  - cbn in Ht. f_equal. exact Ht.
Qed.

Lemma cover_pieces_gen : forall b ch r i, 1 <= ch ->
  N.of_nat r = nchunks (blob_len b) ch - i -> i <= nchunks (blob_len b) ch ->
  cover b (off_of b ch i) (pieces_of (map (piece_k b ch) (nseq i r) ++ [final_piece b])).
Proof.
  intros b ch r. induction r as [|r IH]; intros i Hch Hr Hi.
  - cbn. unfold off_of. destruct (_ <? _) eqn:E; [lia|]. repeat split; auto. lia.
  - assert (Hin : i < nchunks (blob_len b) ch) by lia.
    destruct (off_of_next b ch i Hch Hin) as [Hn _].
    cbn [nseq map app pieces_of flat_map piece_of piece_k]. cbn [cover app].
    assert (Ho : off_of b ch i = i * ch).
    { unfold off_of. destruct (_ <? _) eqn:E; auto. lia. }
    rewrite Ho. repeat split; auto. rewrite Hn. apply IH; auto; lia.
Qed.

Lemma transfer_cover : forall b ch, 1 <= ch -> cover b 0 (pieces_of (transfer b ch)).
Proof.
  intros b ch Hch. unfold transfer.
  rewrite <- (off_of_0 b ch Hch) at 1.
  apply cover_pieces_gen; auto; lia.
Qed.

Lemma transfer_shape : forall b ch, 1 <= ch ->
  transfer b ch = [final_piece b] /\ blob_len b = 0 \/
  exists o0 l0 mids, Forall is_mid mids /\ blob_len b <> 0 /\
    transfer b ch = SData b o0 l0 true false :: mids ++ [final_piece b].
Proof.
  intros b ch Hch. unfold transfer.
  destruct (N.to_nat (nchunks (blob_len b) ch)) as [|r] eqn:En.
  - left. split; auto.
    destruct (N.eq_dec (blob_len b) 0) as [|Hne]; auto. exfalso.
    assert (0 < nchunks (blob_len b) ch) by (apply ceil_lt; auto; lia). lia.
  - right. cbn [nseq map app].
    exists (0 * ch), (N.min ch (blob_len b - 0 * ch)), (map (piece_k b ch) (nseq (0 + 1) r)).
    repeat split.
    + assert (Hg : forall r i, 1 <= i -> Forall is_mid (map (piece_k b ch) (nseq i r))).
      { clear. induction r as [|r IH]; intros i Hi; cbn; constructor.
        - unfold piece_k. destruct (i =? 0) eqn:E; [lia|]. exact I.
        - apply IH. lia. }
      apply Hg. lia.
    + intros H0. assert (Hz : nchunks (blob_len b) ch = 0).
      { unfold nchunks. rewrite H0. apply N.div_small. lia. }
      lia.
Qed.

(* feeding the transfer to set_transmission from ANY state reassembles exactly the blob; the flag of
   the last piece says whether it was stored *)
Lemma recv_transfer_gen : forall b ch s, 1 <= ch ->
  recv_run (transfer b ch) s =
  (fst (recv_end b s), repeat false (N.to_nat (nchunks (blob_len b) ch)) ++ [snd (recv_end b s)]).
Proof.
  intros b ch s Hch.
  pose proof (transfer_cover b ch Hch) as Hc.
  pose proof (transfer_length b ch) as Hl.
  destruct (transfer_shape b ch Hch) as [[Ht H0]|(o0 & l0 & mids & Hm & Hne & Ht)].
  - rewrite Ht in *. unfold final_piece in *. rewrite H0 in *. cbn [N.eqb] in *.
    rewrite recv_single. cbn in Hl.
    assert (Hn : N.to_nat (nchunks 0 ch) = 0%nat) by lia. rewrite Hn. cbn [repeat app].
    rewrite (cover_assemble b); auto. congruence.
  - rewrite Ht in *. unfold final_piece in *.
    destruct (blob_len b =? 0) eqn:E; [lia|].
    rewrite recv_complete by auto. rewrite (cover_assemble b); auto.
    + f_equal. cbn [length] in Hl. rewrite app_length in Hl. cbn in Hl.
      assert (Hn : N.to_nat (nchunks (blob_len b) ch) = Datatypes.S (length mids)) by lia.
      rewrite Hn. cbn [repeat app]. reflexivity.
    + rewrite pieces_of_run. discriminate.
Qed.

(* C09_chunk_reassembly, receiver: feeding the transfer of a snapshot ahead of the node's position to
   set_transmission from ANY state stores exactly the blob; true is returned at the last piece only *)
Lemma recv_transfer : forall b ch s, 1 <= ch -> snap_ahead b (applied (nd s)) = true ->
  recv_run (transfer b ch) s =
  (set_sr ((sr (nd s)) <| stored := Some b |> <| incoming := None |>) s,
   repeat false (N.to_nat (nchunks (blob_len b) ch)) ++ [true]).
Proof.
  intros b ch s Hch Hah. rewrite recv_transfer_gen by auto. unfold recv_end. rewrite Hah. reflexivity.
Qed.

(* a blob that is corrupt or not ahead of the node's position is reassembled and dropped: the file
   the node would restart from stays *)
Lemma recv_transfer_refused : forall b ch s, 1 <= ch -> snap_ahead b (applied (nd s)) = false ->
  recv_run (transfer b ch) s =
  (set_sr ((sr (nd s)) <| incoming := None |>) s,
   repeat false (N.to_nat (nchunks (blob_len b) ch)) ++ [false]).
Proof.
  intros b ch s Hch Hah. rewrite recv_transfer_gen by auto. unfold recv_end. rewrite Hah. reflexivity.
Qed.

Lemma recv_run_applied : forall ps s, applied (nd (fst (recv_run ps s))) = applied (nd s).
Proof.
  induction ps as [|p ps IH]; intros s; [reflexivity|]. cbn [recv_run].
  pose proof (set_transmission_frame p s) as Hf. cbv zeta in Hf.
  destruct (set_transmission p s) as [s1 d]. specialize (IH s1).
  destruct (recv_run ps s1) as [s2 ds]. cbn [fst] in *.
  destruct Hf as (_ & _ & Hf & _). congruence.
Qed.

(* restarts: whatever was received before, one complete run installs exactly the blob *)
Lemma recv_after_anything : forall pre b ch s, 1 <= ch -> snap_ahead b (applied (nd s)) = true ->
  let r := recv_run (pre ++ transfer b ch) s in
  stored (sr (nd (fst r))) = Some b /\ incoming (sr (nd (fst r))) = None /\
  last (snd r) false = true.
Proof.
  intros pre b ch s Hch Hah. cbv zeta. rewrite recv_run_app.
  pose proof (recv_run_applied pre s) as Hap.
  destruct (recv_run pre s) as [sa da]. cbn [fst] in Hap.
  rewrite recv_transfer by (auto; rewrite Hap; exact Hah).
  cbn [fst snd]. unfold set_sr, upd. cbn. repeat split.
  rewrite app_assoc. apply last_last.
Qed.

(* interrupted runs: prefixes of the transfer, each beginning again with the first piece *)
Definition restarts (b : blob) (ch : N) (ks : list nat) : list snap_part :=
  concat (map (fun k => firstn k (transfer b ch)) ks).

Definition sr_only (s s' : S) : Prop := exists z, s' = set_sr z s.

Lemma sr_only_refl : forall s, sr_only s s.
Proof.
  intros s. exists (sr (nd s)). unfold set_sr, upd. destruct s as [n ? ? ? ? ? ?]. cbn. f_equal.
  destruct n; reflexivity.
Qed.

Lemma In_firstn_aux : forall A (l : list A) k x, In x (firstn k l) -> In x l.
Proof.
  induction l as [|a l IH]; intros k x H; destruct k; cbn in *; auto; try contradiction.
  destruct H; eauto.
Qed.

Lemma prefix_run_safe : forall b ch k s, 1 <= ch ->
  let r := recv_run (firstn k (transfer b ch)) s in
  (stored (sr (nd (fst r))) = stored (sr (nd s)) \/ stored (sr (nd (fst r))) = Some b) /\
  sr_only s (fst r) /\
  (forall i, nth_error (snd r) i = Some true -> stored (sr (nd (fst r))) = Some b).
Proof.
  intros b ch k s Hch. cbv zeta.
  destruct (Nat.le_gt_cases (length (transfer b ch)) k) as [Hk|Hk].
  { rewrite firstn_all2 by auto. rewrite recv_transfer_gen by auto. cbn [fst snd].
    unfold recv_end. destruct (snap_ahead _ _); unfold set_sr, upd; cbn; repeat split; auto;
      try (eexists; reflexivity).
    intros i Hi. exfalso. apply nth_error_In in Hi. apply in_app_or in Hi.
    destruct Hi as [Hi|[Hi|[]]]; [apply repeat_spec in Hi|]; discriminate. }
  destruct (transfer_shape b ch Hch) as [[Ht H0]|(o0 & l0 & mids & Hm & Hne & Ht)].
  - rewrite Ht in *. cbn in Hk. assert (k = 0)%nat by lia. subst k. cbn.
    repeat split; auto. apply sr_only_refl. intros [|i]; discriminate.
  - rewrite Ht in *. destruct k as [|k].
    + cbn. repeat split; auto. apply sr_only_refl. intros [|i]; discriminate.
    + cbn [firstn]. cbn [length] in Hk. rewrite app_length in Hk. cbn in Hk.
      rewrite firstn_app. replace (k - length mids)%nat with 0%nat by lia. cbn [firstn].
      rewrite app_nil_r.
      cbn [recv_run set_transmission]. set (s1 := upd _ s).
      assert (Hm' : Forall is_mid (firstn k mids)).
      { apply Forall_forall. intros x Hx. apply (proj1 (Forall_forall _ _) Hm).
        eapply In_firstn_aux; eauto. }
      rewrite (recv_mids _ s1 [(b, o0, l0)] Hm') by reflexivity.
      cbn [fst snd]. subst s1. unfold set_sr, upd; cbn. repeat split; auto.
      * eexists; reflexivity.
      * intros [|i] Hi; cbn in Hi; [discriminate|].
        apply nth_error_In in Hi. apply repeat_spec in Hi. discriminate.
Qed.

Lemma sr_only_trans : forall a b c, sr_only a b -> sr_only b c -> sr_only a c.
Proof. intros a b c [z1 H1] [z2 H2]. exists z2. subst. reflexivity. Qed.

(* any interleaving of interrupted runs never installs anything but the blob *)
Lemma recv_restarts_safe : forall b ch ks s, 1 <= ch ->
  let r := recv_run (restarts b ch ks) s in
  (stored (sr (nd (fst r))) = stored (sr (nd s)) \/ stored (sr (nd (fst r))) = Some b) /\
  sr_only s (fst r) /\
  (forall i, nth_error (snd r) i = Some true -> stored (sr (nd (fst r))) = Some b).
Proof.
  intros b ch ks. induction ks as [|k ks IH]; intros s Hch; cbv zeta.
  - cbn. repeat split; auto. apply sr_only_refl. intros [|i]; discriminate.
  - unfold restarts. cbn [map concat]. rewrite recv_run_app.
    pose proof (prefix_run_safe b ch k s Hch) as Hp. cbv zeta in Hp.
    destruct (recv_run (firstn k (transfer b ch)) s) as [sa da]. cbn [fst snd] in Hp.
    specialize (IH sa Hch). cbv zeta in IH. fold (restarts b ch ks).
    destruct (recv_run (restarts b ch ks) sa) as [sb db]. cbn [fst snd] in *.
    destruct Hp as (P1 & P2 & P3). destruct IH as (I1 & I2 & I3).
    repeat split.
    + destruct I1 as [I1|I1]; [rewrite I1; auto|auto].
    + eapply sr_only_trans; eauto.
    + intros i Hi. destruct (Nat.lt_ge_cases i (length da)) as [Hlt|Hge].
      * rewrite nth_error_app1 in Hi by auto. specialize (P3 i Hi).
        destruct I1 as [I1|I1]; congruence.
      * rewrite nth_error_app2 in Hi by auto. eauto.
Qed.

(* C09_chunk_reassembly, restarts: interrupted runs followed by one complete run *)
Lemma recv_restarts_then_complete : forall b ch ks s, 1 <= ch -> snap_ahead b (applied (nd s)) = true ->
  let r := recv_run (restarts b ch ks ++ transfer b ch) s in
  stored (sr (nd (fst r))) = Some b /\ incoming (sr (nd (fst r))) = None /\
  last (snd r) false = true.
Proof. intros. apply recv_after_anything; auto. Qed.

(* without a piece flagged first nothing is ever completed *)
Definition not_first (p : snap_part) : Prop := match p with SData _ _ _ true _ => False | _ => True end.

Lemma recv_no_first : forall ps s, incoming (sr (nd s)) = None -> Forall not_first ps ->
  recv_run ps s = (s, repeat false (length ps)).
Proof.
  induction ps as [|p ps IH]; intros s Hi Hf; [reflexivity|].
  inversion Hf as [|? ? Hp Hf']; subst.
  cbn [recv_run]. destruct p as [|b o l [|] la]; cbn in Hp; try contradiction.
  - cbn [set_transmission]. rewrite (IH s Hi Hf'). reflexivity.
  - cbn [set_transmission]. rewrite Hi. rewrite (IH s Hi Hf'). reflexivity.
Qed.

(* whatever set_transmission stores is assemble_snap of the received pieces *)
Lemma set_transmission_stores : forall p s,
  snd (set_transmission p s) = true ->
  exists ps, stored (sr (nd (fst (set_transmission p s)))) = Some (assemble_snap ps) /\
             incoming (sr (nd (fst (set_transmission p s)))) = None.
Proof.
  intros p s. unfold set_transmission. destruct p as [|b o l f la]; cbn; [discriminate|].
  destruct (if f then Some [] else incoming (sr (nd s))) as [acc|]; cbn; [|discriminate].
  destruct la; cbn; [|discriminate]. destruct (snap_ahead _ _); cbn; [|discriminate].
  intros _. eexists; split; reflexivity.
Qed.

(* C09_no_wrong_snapshot: assemble_snap says Good s only for a contiguous cover of
   [0, s_len s) whose first piece is a piece of s and whose other pieces are pieces of
   snapshots that snap_eqb cannot tell from s *)
Fixpoint cover_mod (s : snapshot) (off : N) (ps : list piece) : Prop :=
  match ps with
  | [] => off = s_len s
  | (b', o, l) :: r => (exists s', b' = Good s' /\ snap_eqb s s' = true) /\ o = off /\ cover_mod s (off + l) r
  end.

Lemma contig_cover_mod : forall s ps off, pieces_contig s off ps = true -> cover_mod s off ps.
Proof.
  induction ps as [|[[b o] l] r IH]; intros off H; cbn in *.
  - lia.
  - destruct b as [s'|]; [|discriminate].
    apply andb_true_iff in H. destruct H as [H H3]. apply andb_true_iff in H. destruct H as [H1 H2].
    repeat split; eauto. lia.
Qed.

Lemma cover_mod_total : forall s ps off, cover_mod s off ps -> off + pieces_total ps = s_len s.
Proof.
  induction ps as [|[[b o] l] r IH]; intros off H; cbn in *; [lia|].
  destruct H as (_ & _ & H). specialize (IH _ H). lia.
Qed.

Lemma no_wrong_snapshot : forall ps s, assemble_snap ps = Good s ->
  (exists o l r, ps = (Good s, o, l) :: r) /\ cover_mod s 0 ps /\ pieces_total ps = s_len s.
Proof.
  intros ps s H. unfold assemble_snap in H.
  destruct ps as [|[[b o] l] r]; [discriminate|]. destruct b as [s0|]; [|discriminate].
  revert H. match goal with |- context [if ?c then _ else _] => destruct c eqn:E end; [|intros H; discriminate H].
  intros H. inversion H; subst s0. split; [eauto|].
  pose proof (contig_cover_mod _ _ _ E) as Hc. split; auto.
  pose proof (cover_mod_total _ _ _ Hc). lia.
Qed.

(* modelling remark: snap_eqb compares the two entries, the blob length and the LENGTH of the
   history only, so pieces of two different snapshots taken at the same position, with the
   same byte length and equally long histories are not told apart by the model *)
Example snap_eqb_weak :
  let e0 := mkEntry (noop_cmd 5) 3 1 in let e1 := mkEntry (noop_cmd 5) 4 1 in
  let a := mkSnap [1] 0 e1 e0 [1; 2] 3 in
  let b := mkSnap [2] 0 e1 e0 [1; 2] 3 in
  a <> b /\ assemble_snap [(Good a, 0, 2); (Good b, 2, 1); (Good a, 3, 0)] = Good a.
Proof. cbv zeta. split; [intros H; inversion H | reflexivity]. Qed.

(* ================= cancel on disconnect ================= *)
Lemma on_disconnected_trans : forall x n,
  trans (sr (on_disconnected x n)) = adel x (trans (sr n)) /\
  pid (sr (on_disconnected x n)) = pid (sr n) /\ stored (sr (on_disconnected x n)) = stored (sr n).
Proof. intros. unfold on_disconnected. destruct (RO_BASE <=? x); cbn; auto. Qed.

(* C09_cancel_on_disconnect (the D19 repair): after on_disconnected x the next piece for x is
   the first piece, offset 0 *)
Lemma cancel_on_disconnect : forall e x n s b,
  asorted (trans (sr n)) -> nd s = on_disconnected x n ->
  pid (sr n) = 0 -> stored (sr n) = Some b ->
  aget x (trans (sr (nd s))) = None /\
  snd (get_transmission e x s) =
    SData b 0 (N.min (chunk (cf e)) (blob_len b)) true (N.min (chunk (cf e)) (blob_len b) =? 0).
Proof.
  intros e x n s b Hs Hn Hp Hst.
  destruct (on_disconnected_trans x n) as (H1 & H2 & H3).
  assert (Hx : aget x (trans (sr (nd s))) = None).
  { rewrite Hn, H1. apply aget_adel_same; auto. }
  split; auto.
  assert (Hc : cursor s x = Some (b, 0)).
  { unfold cursor. rewrite Hx, Hn, H3, Hst. reflexivity. }
  rewrite (get_transmission_step e x s b 0); auto; [|rewrite Hn, H2; auto].
  cbn [snd]. rewrite N.sub_0_r. reflexivity.
Qed.

Lemma cancel_transmission_trans : forall x s, asorted (trans (sr (nd s))) ->
  aget x (trans (sr (nd (cancel_transmission x s)))) = None.
Proof. intros. unfold cancel_transmission, upd. cbn. apply aget_adel_same; auto. Qed.

(* a finished serialization (ok or failed) clears every cursor *)
Lemma try_compact_clears_trans : forall e s, pid (sr (nd s)) <> 0 ->
  trans (sr (nd (try_compact e s))) = [] /\ pid (sr (nd (try_compact e s))) = 0.
Proof.
  intros e s H. unfold try_compact. destruct (pid (sr (nd s)) =? 0) eqn:E; [lia|]. cbn [negb].
  destruct (pid (sr (nd s)) =? 1); unfold upd; cbn; auto.
Qed.

(* the cursors stay sorted by destination (needed for the adel facts above) *)
Lemma get_transmission_sorted : forall e x s, asorted (trans (sr (nd s))) ->
  asorted (trans (sr (nd (fst (get_transmission e x s))))).
Proof.
  intros e x s H. unfold get_transmission. destruct (negb _); auto.
  destruct (match aget x (trans (sr (nd s))) with Some t => Some t | None => _ end) as [[b off]|]; auto.
  cbn. destruct (_ =? 0); [apply asorted_adel | apply asorted_aset]; auto.
Qed.

Lemma on_disconnected_sorted : forall x n, asorted (trans (sr n)) -> asorted (trans (sr (on_disconnected x n))).
Proof. intros x n H. destruct (on_disconnected_trans x n) as (H1 & _). rewrite H1. apply asorted_adel; auto. Qed.

(* ================= catch-up index after the last piece ================= *)
Lemma get_transmission_log : forall e x s,
  log (nd (fst (get_transmission e x s))) = log (nd s) /\ exc (fst (get_transmission e x s)) = exc s /\
  next_idx (nd (fst (get_transmission e x s))) = next_idx (nd s).
Proof.
  intros e x s. unfold get_transmission. destruct (negb _); auto.
  destruct (match aget x (trans (sr (nd s))) with Some t => Some t | None => _ end) as [[b off]|]; auto.
Qed.

(* C09_catch_up_index: in the snapshot branch of the send loop, with a log of at least two
   entries, no IndexError; after the piece flagged last next_idx[x] = index of log[1] + 1 *)
Lemma catch_up_index : forall e x next s a b rest,
  next <= first_idx (log (nd s)) -> log (nd s) = a :: b :: rest ->
  let r := fst (ae_body e x next s) in
  exc r = exc s /\ log (nd r) = log (nd s) /\
  (forall bl off len fst_, snd (get_transmission e x s) = SData bl off len fst_ true ->
     aget x (next_idx (nd r)) = Some (eidx b + 1)) /\
  (forall bl off len fst_, snd (get_transmission e x s) = SData bl off len fst_ false ->
     next_idx (nd r) = next_idx (nd s) /\ snd (ae_body e x next s) = true) /\
  (snd (get_transmission e x s) = SNone -> next_idx (nd r) = next_idx (nd s)).
Proof.
  intros e x next s a b rest Hn Hl. cbv zeta. unfold ae_body.
  destruct (first_idx (log (nd s)) <? next) eqn:E; [lia|].
  destruct (get_transmission_log e x s) as (G1 & G2 & G3).
  destruct (get_transmission e x s) as [s1 td]. cbn [fst snd] in *.
  match goal with |- context [send x ?m s1] => set (M := m) end.
  destruct (send_frame x M s1) as (S1 & S2 & S3).
  destruct td as [|bl off len f la].
  - cbn [fst snd]. rewrite S1, S2. repeat split; try congruence; intros; discriminate.
  - destruct la.
    + rewrite S1, G1, Hl. cbn [fst snd]. unfold upd. cbn. rewrite S1, S2, G1.
      repeat split; try congruence; try (intros; discriminate).
      intros. apply aget_aset_same.
    + cbn [fst snd]. rewrite S1, S2. repeat split; try congruence; intros; discriminate.
Qed.

Lemma catch_up_index_wf : forall l a b rest, l = a :: b :: rest -> log_wf l -> eidx b + 1 = first_idx l + 2.
Proof. intros l a b rest -> H. unfold log_wf in H. cbn in *. destruct H as (_ & H & _). lia. Qed.

(* C05_snapshot_transfer_completes: an uninterrupted transfer, sender to receiver, of a snapshot
   ahead of the receiver's position installs the sender's blob after ceil(len/chunk) + 1 pieces *)
Lemma snapshot_transfer_completes : forall e x sl sf b,
  1 <= chunk (cf e) -> pid (sr (nd sl)) = 0 -> asorted (trans (sr (nd sl))) ->
  stored (sr (nd sl)) = Some b -> aget x (trans (sr (nd sl))) = None ->
  snap_ahead b (applied (nd sf)) = true ->
  let n := N.to_nat (nchunks (blob_len b) (chunk (cf e))) in
  let pieces := snd (sender_run (Datatypes.S n) e x sl) in
  let r := recv_run pieces sf in
  length pieces = Datatypes.S n /\
  stored (sr (nd (fst r))) = Some b /\ incoming (sr (nd (fst r))) = None /\
  snd r = repeat false n ++ [true] /\
  aget x (trans (sr (nd (fst (sender_run (Datatypes.S n) e x sl))))) = None.
Proof.
  intros e x sl sf b Hch Hp Hs Hst Hx Hah. cbv zeta.
  destruct (sender_transfer e x sl b Hch Hp Hs Hst Hx (Datatypes.S (N.to_nat (nchunks (blob_len b) (chunk (cf e)))))
              ltac:(lia)) as [H1 H2].
  destruct (sender_run (Datatypes.S (N.to_nat (nchunks (blob_len b) (chunk (cf e))))) e x sl) as [s' ps].
  cbn [fst snd] in *. subst ps.
  rewrite transfer_length. rewrite recv_transfer by auto. cbn [fst snd].
  destruct H2 as (tr & E1 & E2 & _). rewrite E1.
  unfold set_sr, set_trans, upd; cbn. repeat split; auto.
Qed.

(* ================= a new leader starts every transfer afresh (repair of the stale cursor) ================= *)
(* become_leader up to, and excluding, its final send loop(s) *)
Definition become_leader_pre (e : env) (s : S) : S :=
  let s := upd (fun n => n <| leader := self n |>) s in
  let s := set_role LEADER s in
  let s := upd (fun n => n <| last_resp := [] |>) s in
  let now := tnow s in
  let s := upd (fun n =>
     fold_left (fun n x => n <| next_idx := aset x (last_idx (log n) + 1) (next_idx n) |>
                             <| match_idx := aset x 0 (match_idx n) |>
                             <| last_resp := aset x now (last_resp n) |>
                             <| sr := (sr n) <| trans := adel x (trans (sr n)) |> |>)
               (sunion (others n) (readonly n)) n) s in
  upd (fun n => let idx := last_idx (log n) + 1 in
                (log_add (mkEntry (noop_cmd (noop_pk (cf e))) idx (term n)) n) <| noop_idx := Some idx |>) s.

Lemma become_leader_split : forall e s,
  become_leader e s = ((if use_batch (cf e) then (fun s => s) else send_ae e) ;; send_ae e) (become_leader_pre e s).
Proof. reflexivity. Qed.

Lemma cancel_fold : forall now (l : list nid) (n : node),
  asorted (trans (sr n)) ->
  let n' := fold_left (fun n x => n <| next_idx := aset x (last_idx (log n) + 1) (next_idx n) |>
                                    <| match_idx := aset x 0 (match_idx n) |>
                                    <| last_resp := aset x now (last_resp n) |>
                                    <| sr := (sr n) <| trans := adel x (trans (sr n)) |> |>) l n in
  asorted (trans (sr n')) /\
  (forall x, In x l -> aget x (trans (sr n')) = None) /\
  (forall x, aget x (trans (sr n)) = None -> aget x (trans (sr n')) = None) /\
  pid (sr n') = pid (sr n) /\ stored (sr n') = stored (sr n) /\ incoming (sr n') = incoming (sr n).
Proof.
  intros now l. induction l as [|y l IH]; intros n Hs; cbn [fold_left].
  - repeat split; auto. intros x [].
  - set (n1 := n <| next_idx := aset y (last_idx (log n) + 1) (next_idx n) |>
                 <| match_idx := aset y 0 (match_idx n) |>
                 <| last_resp := aset y now (last_resp n) |>
                 <| sr := (sr n) <| trans := adel y (trans (sr n)) |> |>).
    assert (H1 : trans (sr n1) = adel y (trans (sr n)) /\ pid (sr n1) = pid (sr n) /\
                 stored (sr n1) = stored (sr n) /\ incoming (sr n1) = incoming (sr n)) by (subst n1; cbn; auto).
    destruct H1 as (T1 & T2 & T3 & T4).
    assert (Hs1 : asorted (trans (sr n1))) by (rewrite T1; apply asorted_adel; exact Hs).
    destruct (IH n1 Hs1) as (I1 & I2 & I3 & I4 & I5 & I6).
    split; [exact I1|]. split; [|split; [|repeat split; congruence]].
    + intros x [Hx|Hx]; [|apply I2; exact Hx]. subst x. apply I3. rewrite T1. apply aget_adel_same. exact Hs.
    + intros x Hx. apply I3. rewrite T1.
      destruct (N.eq_dec y x) as [->|Hne]; [apply aget_adel_same; exact Hs|].
      rewrite aget_adel_other by exact Hne. exact Hx.
Qed.

(* C09_become_leader_cancels_transmissions *)
Lemma become_leader_cancels : forall e s x,
  asorted (trans (sr (nd s))) ->
  In x (sunion (others (nd s)) (readonly (nd s))) ->
  let s1 := become_leader_pre e s in
  aget x (trans (sr (nd s1))) = None /\ asorted (trans (sr (nd s1))) /\
  pid (sr (nd s1)) = pid (sr (nd s)) /\ stored (sr (nd s1)) = stored (sr (nd s)) /\
  forall b, pid (sr (nd s)) = 0 -> stored (sr (nd s)) = Some b ->
    snd (get_transmission e x s1) =
      SData b 0 (N.min (chunk (cf e)) (blob_len b)) true (N.min (chunk (cf e)) (blob_len b) =? 0).
Proof.
  intros e s x Hs Hx. cbv zeta. unfold become_leader_pre.
  set (s0 := upd (fun n => n <| last_resp := [] |>) (set_role LEADER (upd (fun n => n <| leader := self n |>) s))).
  assert (H0 : sr (nd s0) = sr (nd s) /\ others (nd s0) = others (nd s) /\ readonly (nd s0) = readonly (nd s)).
  { subst s0. unfold set_role, upd, emit. destruct (_ =? _); cbn; auto. }
  destruct H0 as (Z1 & Z2 & Z3).
  assert (Hs0 : asorted (trans (sr (nd s0)))) by (rewrite Z1; exact Hs).
  pose proof (cancel_fold (tnow s0) (sunion (others (nd s0)) (readonly (nd s0))) (nd s0) Hs0) as Hf.
  cbv zeta in Hf. destruct Hf as (F1 & F2 & F3 & F4 & F5 & F6).
  rewrite Z2, Z3 in F2.
  unfold upd, log_add. cbn [nd].
  match goal with |- aget x (trans (sr ?nn)) = None /\ _ =>
    assert (Hn : sr nn = sr (fold_left (fun n x0 => n <| next_idx := aset x0 (last_idx (log n) + 1) (next_idx n) |>
                                    <| match_idx := aset x0 0 (match_idx n) |>
                                    <| last_resp := aset x0 (tnow s0) (last_resp n) |>
                                    <| sr := (sr n) <| trans := adel x0 (trans (sr n)) |> |>)
                      (sunion (others (nd s0)) (readonly (nd s0))) (nd s0))) by reflexivity
  end.
  rewrite Hn. rewrite Z2, Z3 in *.
  split; [apply F2; exact Hx|]. split; [exact F1|]. split; [congruence|]. split; [congruence|].
  intros b Hp Hb.
  match goal with |- snd (get_transmission e x ?sx) = _ => set (S1 := sx) end.
  assert (Hsr1 : sr (nd S1) = sr (fold_left (fun n x0 => n <| next_idx := aset x0 (last_idx (log n) + 1) (next_idx n) |>
                                    <| match_idx := aset x0 0 (match_idx n) |>
                                    <| last_resp := aset x0 (tnow s0) (last_resp n) |>
                                    <| sr := (sr n) <| trans := adel x0 (trans (sr n)) |> |>)
                      (sunion (others (nd s)) (readonly (nd s))) (nd s0))) by (subst S1; rewrite <- Z2, <- Z3; reflexivity).
  assert (Hc : cursor S1 x = Some (b, 0)).
  { unfold cursor. rewrite Hsr1, (F2 x Hx), F5, Z1, Hb. reflexivity. }
  assert (Hp1 : pid (sr (nd S1)) = 0) by (rewrite Hsr1, F4, Z1; exact Hp).
  rewrite (get_transmission_step e x S1 b 0 Hp1 Hc). cbn [snd]. rewrite N.sub_0_r. reflexivity.
Qed.

(* handling another destination does not create a cursor for x *)
Lemma get_transmission_other : forall e y x s, y <> x -> aget x (trans (sr (nd s))) = None ->
  aget x (trans (sr (nd (fst (get_transmission e y s))))) = None.
Proof.
  intros e y x s Hne Hx. unfold get_transmission. destruct (negb _); auto.
  destruct (match aget y (trans (sr (nd s))) with Some t => Some t | None => _ end) as [[b off]|]; auto.
  cbn. destruct (_ =? 0); [rewrite aget_adel_other by exact Hne | rewrite aget_aset_other by exact Hne]; exact Hx.
Qed.
