(* Tier CM2, part 10 (merge of RefineMGlobal.v and Refine2Global.v): from the local simulations to the
   global relation (dynamic membership, compacted logs, snapshot blobs): routing of the outputs of a
   step and the election bookkeeping [El].  The generic channel / counting lemmas are those of
   RefineMGlobal.v. *)
From Coq Require Import ZArith NArith List Bool Lia ZifyBool Arith PeanoNat.
From RecordUpdate Require Import RecordSet.
From PSO Require Import Raft.Types Raft.Node Raft.Net Raft.Obs Raft.ProofsCommitBase.
From PSO Require Import Raft.ProofsElectionBase Raft.ProofsElectionFrame Raft.ProofsElectionStep.
From PSO Require Import Raft.ProofsMembership Raft.ProofsMembershipInv.
From PSO Require Import Raft.RefineMAbs Raft.RefineMEff Raft.RefineMCfg Raft.RefineMK Raft.RefineMSpecA Raft.RefineMGlobal.
From PSO Require Import Raft.RefineM2Abs Raft.RefineM2SpecA Raft.RefineM2Sim.
From PSO Require AbstractM.Model AbstractM.Lib AbstractM.Kstep AbstractM.Cfg AbstractM.Safety2_Election
  AbstractM.SafetyAll.
Import ListNotations.
Import RecordSetNotations.
Open Scope N_scope.
#[local] Arguments firstn : simpl nomatch.
#[local] Arguments skipn : simpl nomatch.

Section Global.
Variable c : conf.
Variable mf : N -> N -> N * N.
Variable V : list nid.
Hypothesis NDV : NoDup V.
Hypothesis SV : ssorted V.
Hypothesis VNE : V <> [].
Hypothesis VRO : forall v, In v V -> v < RO_BASE.
Hypothesis Hb1 : 1 < batch c.
Set Default Proof Using "All".

Notation V' := (absV V).
Notation pk := (pk c).
Notation Rn := (Rn c mf V).
Notation Rmsg := (Rmsg c mf V).
Notation Ro := (Ro c mf V).
Notation Hn := (Hn c mf).
Notation Hr := (Hr c mf).
Notation R := (R c mf V).
Notation ksn := (ksn V).
Notation kstar := (kstar V).
Notation LS := (LS c mf V).
Notation kall := (kall V NDV VNE).
Notation vf s j := (M.votesFrom (M.nodes s (n2 j))).

(* LS for a running voter at the start of a handler *)
Lemma LS_start g st s e n x :
  KS.kreachable V' F0 s -> R g st s -> aget n (nodes g) = Some x -> n < RO_BASE ->
  LS n s (start_S e x).
Proof.
  intros HR RR Hx Hlt. destruct (R_hyg _ _ _ _ _ _ RR n x Hx Hlt) as [HH Hs].
  constructor; auto.
  - apply (R_node _ _ _ _ _ _ RR n x Hx Hlt).
  - apply Ro_nil.
Qed.

(* a granted vote of term T by v (L0): v's term is at least T, and at T its votedFor is fixed *)
Lemma vote_fixed s T v cd :
  KS.kreachable V' F0 s -> In (M.Vote T v cd) (M.net s) ->
  (T <= M.term (M.nodes s v))%nat /\ (T = M.term (M.nodes s v) -> M.voted (M.nodes s v) = Some cd).
Proof.
  intros HR Hin. pose proof (SA.A2 _ _ _ (kall s HR)) as I2.
  apply (S2.I2_vote _ I2) in Hin. destruct (S2.I2_grant _ I2 _ _ _ Hin) as (A & B & _). auto.
Qed.

Lemma counted_fixed s v cd :
  KS.kreachable V' F0 s -> M.rl (M.nodes s cd) = M.Candidate -> In v (M.votesFrom (M.nodes s cd)) ->
  (M.term (M.nodes s cd) <= M.term (M.nodes s v))%nat /\
  (M.term (M.nodes s cd) = M.term (M.nodes s v) -> M.voted (M.nodes s v) = Some cd).
Proof.
  intros HR Hr Hin. pose proof (SA.A2 _ _ _ (kall s HR)) as I2.
  destruct (S2.I2_cand _ I2 cd Hr) as (_ & _ & Hg). specialize (Hg v Hin).
  destruct (S2.I2_grant _ I2 _ _ _ Hg) as (A & B & _). auto.
Qed.

Definition b2n (b : bool) : nat := if b then 1%nat else 0%nat.

(* the election bookkeeping after a step of voter n *)
Lemma El_finish g g0 st s s' n x (S : Node.S) :
  R g st s -> KS.kreachable V' F0 s ->
  aget n (nodes g) = Some x -> n < RO_BASE ->
  nodes g0 = nodes g ->
  (forall a b T, (cnt (is_rv T) (chan_get a b g0) <= cnt (is_rv T) (chan_get a b g))%nat) ->
  ksn (n2 n) s s' -> LS n s' S ->
  term x <= term (nd S) ->
  (forall T d, cnt (rvto T d) (outs S) = 0%nat \/
               (cnt (rvto T d) (outs S) = 1%nat /\ T = term (nd S) /\ (term x < term (nd S) \/ voted x = None))) ->
  (role (nd S) = CANDIDATE -> term (nd S) = term x ->
     votes (nd S) = votes x \/
     exists a0, a0 <> n /\
       (cnt (is_rv (term x)) (chan_get a0 n g0) + 1 <= cnt (is_rv (term x)) (chan_get a0 n g))%nat /\
       forall v, In v (vf s' n) -> v = n2 a0 \/ In v (vf s n)) ->
  El (finish n S g0) s'.
Proof.
  intros RR HR Hx Hlt En Hch K L Hterm Hout Hvotes a b xb Hb Hblt Hrole Hab.
  rewrite nodes_finish, En, ProofsElectionBase.aget_aset in Hb.
  pose proof (ksn_ext _ _ _ _ K) as E.
  pose proof (R_node _ _ _ _ _ _ RR n x Hx Hlt) as RNx.
  pose proof (finish_cnt n S g0 a b (term xb)) as Hfc.
  pose proof (Hch a b (term xb)) as Hc0.
  change (if M.mem (n2 a) (vf s' b) then 1%nat else 0%nat) with (b2n (M.mem (n2 a) (vf s' b))).
  destruct (N.eqb_spec b n) as [->|Hbn].
  - (* the stepping node is the candidate *)
    injection Hb as <-.
    assert (Han : (a =? n) = false) by (apply N.eqb_neq; exact Hab). rewrite Han in Hfc.
    destruct (N.ltb_spec (term x) (term (nd S))) as [Hfresh|Hsame].
    + (* a new candidacy: nothing of that term can be in flight *)
      assert (Hz : cnt (is_rv (term (nd S))) (chan_get a n g) = 0%nat).
      { destruct (cnt (is_rv (term (nd S))) (chan_get a n g)) as [|k] eqn:Ek; [reflexivity|exfalso].
        assert (Hin : In (ResponseVote (term (nd S))) (chan_get a n g)) by (apply cnt_pos_In; lia).
        destruct (R_msg _ _ _ _ _ _ RR a n _ Hin) as (_ & _ & _ & Hbd & _).
        rewrite (Rn_term _ _ _ _ _ _ RNx) in Hbd. lia. }
      destruct (M.mem (n2 a) (vf s' n)); cbn [b2n]; lia.
    + assert (Ht : term (nd S) = term x) by lia.
      pose proof (LS_n _ _ _ _ _ _ L) as RN'.
      destruct (ext_cand _ _ _ E) as [_ Hst].
      assert (Hr' : M.rl (M.nodes s' (n2 n)) = M.Candidate) by (rewrite (Rn_role _ _ _ _ _ _ RN'), Hrole; reflexivity).
      assert (Ht' : M.term (M.nodes s' (n2 n)) = M.term (M.nodes s (n2 n))).
      { rewrite (Rn_term _ _ _ _ _ _ RN'), (Rn_term _ _ _ _ _ _ RNx), Ht. reflexivity. }
      destruct (Hst Hr' Ht') as (Hr0 & _ & _ & Hincl).
      assert (Hrx : role x = CANDIDATE).
      { apply absR_cand. rewrite <- (Rn_role _ _ _ _ _ _ RNx). exact Hr0. }
      pose proof (R_el _ _ _ _ _ _ RR a n x Hx Hlt Hrx Hab) as Hold.
      change (if M.mem (n2 a) (vf s n) then 1%nat else 0%nat) with (b2n (M.mem (n2 a) (vf s n))) in Hold.
      pose proof (Hvotes Hrole Ht) as Hvo.
      rewrite Ht in Hfc, Hc0 |- *.
      assert (Hmono : (In (n2 a) (vf s' n) -> In (n2 a) (vf s n)) ->
                      (b2n (M.mem (n2 a) (vf s' n)) <= b2n (M.mem (n2 a) (vf s n)))%nat).
      { intros Him. destruct (M.mem (n2 a) (vf s' n)) eqn:Em; cbn [b2n]; [|lia].
        apply MC.mem_In in Em. apply Him in Em. apply MC.mem_In in Em. rewrite Em. cbn. lia. }
      destruct Hvo as [Hv|(a0 & Ha0 & Hdec & Hnew)].
      * (* nothing was counted: the counted set is the same *)
        assert (Hback : incl (vf s' n) (vf s n)).
        { apply NoDup_length_incl; [| |exact Hincl].
          - apply (S2.I2_cand _ (SA.A2 _ _ _ (kall s HR)) (n2 n) Hr0).
          - rewrite (proj1 (Rn_votes _ _ _ _ _ _ RN' Hrole)), (proj1 (Rn_votes _ _ _ _ _ _ RNx Hrx)), Hv. lia. }
        pose proof (Hmono (Hback (n2 a))) as Hle. lia.
      * destruct (N.eq_dec a a0) as [->|Hne].
        -- destruct (M.mem (n2 a0) (vf s' n)); cbn [b2n]; lia.
        -- assert (Hle : (b2n (M.mem (n2 a) (vf s' n)) <= b2n (M.mem (n2 a) (vf s n)))%nat).
           { apply Hmono. intros Hi. destruct (Hnew _ Hi) as [Hq|Hq]; [|exact Hq]. lia. }
           lia.
  - (* another node is the candidate: only a vote sent by n matters *)
    assert (Enb : M.nodes s' (n2 b) = M.nodes s (n2 b)) by (apply (ext_nodes _ _ _ E); lia).
    rewrite Enb.
    pose proof (R_el _ _ _ _ _ _ RR a b xb Hb Hblt Hrole Hab) as Hold.
    change (if M.mem (n2 a) (vf s b) then 1%nat else 0%nat) with (b2n (M.mem (n2 a) (vf s b))) in Hold.
    destruct (N.eqb_spec a n) as [->|Han]; [|lia].
    destruct (Hout (term xb) b) as [Hz|(H1 & HT & Hwhy)]; [lia|].
    pose proof (R_node _ _ _ _ _ _ RR b xb Hb Hblt) as RNb.
    (* n had not voted in that term: nothing in flight, nothing counted *)
    assert (Hnv : forall cd, ((n2 (term xb) <= M.term (M.nodes s (n2 n)))%nat /\
                   (n2 (term xb) = M.term (M.nodes s (n2 n)) -> M.voted (M.nodes s (n2 n)) = Some cd)) -> False).
    { intros cd [A B]. rewrite (Rn_term _ _ _ _ _ _ RNx) in A, B. rewrite (Rn_voted _ _ _ _ _ _ RNx) in B.
      destruct Hwhy as [Hlt'|Hvn]; [lia|]. rewrite Hvn in B. cbn in B. assert (Hq : n2 (term xb) = n2 (term x)) by lia.
      specialize (B Hq). discriminate. }
    assert (Hz : cnt (is_rv (term xb)) (chan_get n b g) = 0%nat).
    { destruct (cnt (is_rv (term xb)) (chan_get n b g)) as [|k] eqn:Ek; [reflexivity|exfalso].
      assert (Hin : In (ResponseVote (term xb)) (chan_get n b g)) by (apply cnt_pos_In; lia).
      destruct (R_msg _ _ _ _ _ _ RR n b _ Hin) as (_ & _ & Hv & _).
      apply (Hnv (n2 b)). apply (vote_fixed s _ _ _ HR Hv). }
    assert (Hm : M.mem (n2 n) (vf s b) = false).
    { destruct (M.mem (n2 n) (vf s b)) eqn:Em; [exfalso|reflexivity]. apply MC.mem_In in Em.
      assert (Hrb : M.rl (M.nodes s (n2 b)) = M.Candidate) by (rewrite (Rn_role _ _ _ _ _ _ RNb), Hrole; reflexivity).
      pose proof (counted_fixed s _ _ HR Hrb Em) as Hcf. rewrite (Rn_term _ _ _ _ _ _ RNb) in Hcf.
      apply (Hnv (n2 b)). exact Hcf. }
    rewrite Hm. cbn [b2n]. lia.
Qed.

(* the global relation after a step of voter n whose handler was simulated *)
Lemma R_finish g g0 st s s' n x (S : Node.S) :
  R g st s -> KS.kreachable V' F0 s ->
  aget n (nodes g) = Some x -> n < RO_BASE -> In n st ->
  nodes g0 = nodes g -> (forall a b m, In m (chan_get a b g0) -> In m (chan_get a b g)) ->
  ksn (n2 n) s s' -> LS n s' S -> El (finish n S g0) s' ->
  R (finish n S g0) st s'.
Proof.
  intros RR HR Hx Hlt Hst En Hch K L HEl.
  pose proof (ksn_ext _ _ _ _ K) as E.
  assert (Nf : nodes (finish n S g0) = aset n (nd S) (nodes g)) by (rewrite nodes_finish, En; reflexivity).
  constructor.
  - intros v y Hy Hv. rewrite Nf, ProofsElectionBase.aget_aset in Hy.
    destruct (v =? n) eqn:Ev.
    + apply N.eqb_eq in Ev. subst v. injection Hy as <-. apply (LS_n _ _ _ _ _ _ L).
    + apply N.eqb_neq in Ev. eapply (Rn_mono c mf V NDV VNE); [exact HR|exact K|lia|]. apply (R_node _ _ _ _ _ _ RR v y Hy Hv).
  - intros v Hv Hnst. rewrite (ext_nodes _ _ _ E).
    + apply (R_init _ _ _ _ _ _ RR v Hv Hnst).
    + intros Heq. assert (v = n) by lia. subst. contradiction.
  - intros v Hv Hnst. rewrite (ext_nodes _ _ _ E).
    + apply (R_fresh _ _ _ _ _ _ RR v Hv Hnst).
    + intros Heq. assert (v = n) by lia. subst. contradiction.
  - intros a b m Hm. apply finish_chan in Hm as [Hm|[-> Hm]].
    + eapply (Rmsg_mono c mf V NDV VNE); [exact HR|exact K|]. apply (R_msg _ _ _ _ _ _ RR a b m). auto.
    + apply (LS_o _ _ _ _ _ _ L b m Hm).
  - exact HEl.
  - intros v y Hy Hv. rewrite Nf, ProofsElectionBase.aget_aset in Hy.
    destruct (v =? n) eqn:Ev.
    + apply N.eqb_eq in Ev. subst v. injection Hy as <-. split; [apply (LS_h _ _ _ _ _ _ L)|apply (LS_self _ _ _ _ _ _ L)].
    + apply (R_hyg _ _ _ _ _ _ RR v y Hy Hv).
  - intros v y Hy Hv. rewrite Nf, ProofsElectionBase.aget_aset in Hy.
    destruct (v =? n) eqn:Ev; [apply N.eqb_eq in Ev; lia|]. apply (R_ro _ _ _ _ _ _ RR v y Hy Hv).
Qed.

(* the global relation when only L1 bookkeeping changed: same abstract state, the running voters
   keep their nodes (or stop, or a follower appears), channels only lose messages *)
Lemma R_shrink g g' st st' s :
  R g st s ->
  (forall v y, aget v (nodes g') = Some y -> v < RO_BASE -> Rn v y s /\ Hn y /\ self y = Some v) ->
  (forall v y, aget v (nodes g') = Some y -> v < RO_BASE -> role y = CANDIDATE -> aget v (nodes g) = Some y) ->
  (forall v y, aget v (nodes g') = Some y -> RO_BASE <= v -> Hr y /\ self y = None /\ role y = FOLLOWER) ->
  (forall a b m, In m (chan_get a b g') -> In m (chan_get a b g)) ->
  (forall a b T, (cnt (is_rv T) (chan_get a b g') <= cnt (is_rv T) (chan_get a b g))%nat) ->
  incl st st' -> R g' st' s.
Proof.
  intros RR Hn1 Hcd Hro Hch Hcn Hst. constructor.
  - intros v y Hy Hv. apply (Hn1 v y Hy Hv).
  - intros v Hv Hnst. apply (R_init _ _ _ _ _ _ RR v Hv). intros H. apply Hnst. apply Hst. exact H.
  - intros v Hv Hnst. apply (R_fresh _ _ _ _ _ _ RR v Hv). intros H. apply Hnst. apply Hst. exact H.
  - intros a b m Hm. apply (R_msg _ _ _ _ _ _ RR a b m). auto.
  - intros a b xb Hb Hblt Hrole Hab. pose proof (Hcd b xb Hb Hblt Hrole) as Hb0.
    pose proof (R_el _ _ _ _ _ _ RR a b xb Hb0 Hblt Hrole Hab) as Hold. specialize (Hcn a b (term xb)). lia.
  - intros v y Hy Hv. destruct (Hn1 v y Hy Hv) as (_ & A & B). auto.
  - exact Hro.
Qed.

(* ---- the operator starts a NEW voter y (not an initial member): AbstractM's K_join ---- *)
Definition t_join (y : nat) (s : M.state) : M.state :=
  let x := M.nodes s y in
  M.mkS (M.upd (M.nodes s) y
           (M.mkN (M.term x) (M.voted x) (M.rl x) (M.log x) (M.commit x) (M.votesFrom x) (M.matchIdx x)
                  M.Up (M.del y V') (M.noopi x)))
        (M.net s) (M.grants s) (M.wins s) (M.llog s) ((0%nat, y, 1%nat) :: M.acks s) (M.direct s).

Lemma t_join_ok y m s :
  M.lf (M.nodes s m) = M.Up -> M.rl (M.nodes s m) = M.Leader ->
  M.lf (M.nodes s y) = M.Fresh -> KS.pristine (M.nodes s y) ->
  KS.kstep V' F0 s (t_join y s) /\ ext y s (t_join y s).
Proof.
  intros Hm Hr Hy Hp. split.
  - unfold t_join. apply (KS.K_join V' F0 s y (M.nodes s y) m); auto. apply KS.fupd_upd.
  - unfold t_join. apply ext_mk; [apply incl_refl|apply incl_refl|].
    split; cbn [M.term M.rl M.log M.base M.votesFrom]; [lia|].
    intros Hc _. rewrite Hp in Hc. discriminate.
Qed.

Lemma R_join g st s y m :
  R g st s -> KS.kreachable V' F0 s -> ~ In y V -> ~ In y st -> aget y (nodes g) = None ->
  M.lf (M.nodes s m) = M.Up -> M.rl (M.nodes s m) = M.Leader ->
  KS.kstep V' F0 s (t_join (n2 y) s) /\ R g (y :: st) (t_join (n2 y) s) /\
  M.nodes (t_join (n2 y) s) (n2 y) =
    M.mkN 0 None M.Follower [M.e0] 1 [] (fun _ => 0%nat) M.Up (M.del (n2 y) V') 0.
Proof.
  intros RR HR HyV Hyst Hrun Hm Hrl.
  pose proof (R_fresh _ _ _ _ _ _ RR y HyV Hyst) as Hf.
  pose proof (SA.A0 _ _ _ (kall s HR) (n2 y) Hf) as Hp.
  destruct (t_join_ok (n2 y) m s Hm Hrl Hf Hp) as [K E].
  assert (KN : ksn (n2 y) s (t_join (n2 y) s)) by (apply ksn_one; auto).
  split; [exact K|]. split.
  - constructor.
    + intros v x Hx Hv. eapply (Rn_mono c mf V NDV VNE); [exact HR|exact KN| |apply (R_node _ _ _ _ _ _ RR v x Hx Hv)].
      intros Heq. assert (v = y) by lia. subst. congruence.
    + intros v Hv Hn0. rewrite (ext_nodes _ _ _ E); [apply (R_init _ _ _ _ _ _ RR v Hv); intros H; apply Hn0; right; exact H|].
      intros Heq. assert (v = y) by lia. subst. contradiction.
    + intros v Hv Hn0. rewrite (ext_nodes _ _ _ E); [apply (R_fresh _ _ _ _ _ _ RR v Hv); intros H; apply Hn0; right; exact H|].
      intros Heq. assert (v = y) by lia. subst. apply Hn0. left. reflexivity.
    + intros a b mm Hin. eapply (Rmsg_mono c mf V NDV VNE); [exact HR|exact KN|]. apply (R_msg _ _ _ _ _ _ RR a b mm Hin).
    + intros a b xb Hb Hblt Hrole Hab. rewrite (ext_nodes _ _ _ E); [apply (R_el _ _ _ _ _ _ RR a b xb Hb Hblt Hrole Hab)|].
      intros Heq. assert (b = y) by lia. subst. congruence.
    + apply (R_hyg _ _ _ _ _ _ RR).
    + apply (R_ro _ _ _ _ _ _ RR).
  - unfold t_join. cbn [M.nodes]. rewrite upd_eq. rewrite Hp. reflexivity.
Qed.

(* ---- a voter that starts (an initial member, or a joiner after [t_join]): its image is pristine ---- *)
Lemma Rn_init s n e sv :
  cf e = c -> pristine (M.nodes s (n2 n)) -> Rn n (init_node e (Some n) (vminus n V) sv) s.
Proof.
  intros Hce (P1 & P2 & P3 & P4 & P5 & P6).
  constructor; unfold init_node; cbn [role term voted votes log commit match_idx others noop_idx sr stored trans
    incoming init_ser option_map absR]; auto.
  - exists [mkEntry (noop_cmd (noop_pk (cf e))) 1 0]. rewrite Hce. fold pk.
    split; [rewrite P4; cbn [absL map]; f_equal; symmetry; apply (absE_e00 c)|].
    split; [exists 0%nat; split; [reflexivity|cbn; lia]|].
    split; [constructor; [apply small_noop; exact Hb1|constructor]|]. reflexivity.
  - intros Hx. compute in Hx. discriminate.
  - intros f m _ _ Hx. discriminate.
  - intros Hx. discriminate.
  - intros Hx. discriminate.
  - intros bl Hx. discriminate.
  - intros d bl off [].
  - intros ps bl o l Hx. discriminate.
Qed.

Lemma Hn_init n e sv : cf e = c -> Hn (init_node e (Some n) (vminus n V) sv).
Proof.
  intros Hce. constructor; try (apply pend_not_leader; cbn; discriminate);
    unfold init_node; cbn; auto; try lia; try discriminate.
  constructor; [|constructor]. rewrite Hce. apply (small_noop c mf). exact Hb1.
Qed.

End Global.
